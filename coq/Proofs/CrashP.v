(* CrashP.v -- proofs about Model/Crash.v (property C06).
   (a) the interrupted serial run still flushes the DB, and the DB gains no record without a save;
   (b) crash states of JsonDB.dump, SqliteDB.dump and of a dbm.dumb session. *)
From Coq Require Import ZifyBool.
From DoitV Require Import Base Dispatch Backends Runner Crash BackendsP.
Local Open Scope nat_scope.

(* ===================================================================================================== *)
(* (a) interrupt half                                                                                     *)
(* ===================================================================================================== *)
Section Interrupt.
Variable tasks : name -> option task.
Variable wake_rank : name -> name -> N.
Variable calc_rank : name -> N.
Variable continue_ always : bool.

Notation get_task := (get_task tasks).
Notation select_task := (select_task tasks continue_ always).
Notation handle_error := (handle_error tasks continue_).
Notation process_result := (process_result tasks continue_).
Notation start_task := (start_task tasks).
Notation serial := (serial tasks wake_rank calc_rank continue_ always).

(* events of select_task and of failures: they never touch a success *)
Definition quiet (e : event) : Prop :=
  match e with
  | EGetStatus _ | ESkipIgnore _ | ESkipUpToDate _ | ERemove _ | EFailure _ _ => True
  | _ => False
  end.

(* the part of a trace before finish(): quiet events, and one block per task whose actions finished *)
Inductive body : list event -> Prop :=
| body_nil : body []
| body_quiet e tr : quiet e -> body tr -> body (tr ++ [e])
| body_ok k tr : t_outcome (get_task k) = OOk -> body tr -> body (tr ++ [EExecute k; ESave k; ESuccess k])
| body_bad k kd tr : t_outcome (get_task k) <> OOk -> body tr -> body (tr ++ [EExecute k; ERemove k; EFailure k kd]).

Lemma body_app_quiet tr l : body tr -> Forall quiet l -> body (tr ++ l).
Proof.
  intros Hb Hl. revert tr Hb. induction Hl as [|e l He Hl IH]; intros tr Hb.
  - rewrite app_nil_r. exact Hb.
  - replace (tr ++ e :: l) with ((tr ++ [e]) ++ l) by (rewrite <- app_assoc; reflexivity).
    apply IH. apply body_quiet; auto.
Qed.

Lemma handle_error_tr st r k kd : r_tr (handle_error_gen tasks continue_ st r k kd) = r_tr r ++ [ERemove k; EFailure k kd].
Proof. reflexivity. Qed.
Lemma handle_error_td st r k kd : r_td (handle_error_gen tasks continue_ st r k kd) = r_td r.
Proof. reflexivity. Qed.

Lemma body_handle_error r k kd : body (r_tr r) -> body (r_tr (handle_error r k kd)).
Proof. intro H. unfold Runner.handle_error. rewrite handle_error_tr. apply body_app_quiet; auto. repeat constructor. Qed.

(* select_task only adds quiet events and leaves the teardown list alone *)
Lemma select_task_spec r k b r1 :
  select_task r k = (b, r1) ->
  exists l, r_tr r1 = r_tr r ++ l /\ Forall quiet l /\ r_td r1 = r_td r.
Proof.
  unfold Runner.select_task, get_args, Runner.handle_error, Runner.handle_error_gen, emit, with_d. intro H.
  repeat match type of H with
         | context [if ?c then _ else _] => destruct c
         | context [match ?x with _ => _ end] => destruct x
         end;
    inversion H; subst; clear H; cbn [r_tr r_td r_d];
    eexists; (split; [rewrite <- ?app_assoc; try reflexivity; rewrite app_nil_r; reflexivity |]);
    (split; [repeat constructor | reflexivity]).
Qed.

Lemma select_task_body r k b r1 : select_task r k = (b, r1) -> body (r_tr r) -> body (r_tr r1) /\ r_td r1 = r_td r.
Proof.
  intros H Hb. destruct (select_task_spec _ _ _ _ H) as (l & E & Q & T). split; auto.
  rewrite E. apply body_app_quiet; auto.
Qed.

Lemma process_result_body r k :
  t_outcome (get_task k) <> OInterrupt -> body (r_tr r) ->
  body (r_tr (process_result (start_task r k) k)) /\ r_td (process_result (start_task r k) k) = r_td (start_task r k).
Proof.
  intros Hn Hb. unfold Runner.process_result.
  (* one case per outcome constructor: OOk saves, OInterrupt is excluded, every other outcome goes through
     handle_error_gen (robust against new failure outcomes being added to the model) *)
  destruct (t_outcome (get_task k)) eqn:E; try congruence;
    (split; [|reflexivity]);
    first [ cbn [r_tr emit with_d Runner.start_task]; rewrite <- app_assoc; apply body_ok; assumption
          | unfold Runner.handle_error; rewrite handle_error_tr; cbn [r_tr Runner.start_task]; rewrite <- app_assoc;
            apply body_bad; [congruence|assumption] ].
Qed.

Lemma is_interrupt_spec k : is_interrupt tasks k = true <-> t_outcome (get_task k) = OInterrupt.
Proof. unfold is_interrupt. destruct (t_outcome (get_task k)); split; congruence. Qed.

Definition flushed (s : stop) (r' : rstate) : Prop :=
  match s with
  | StopFuel => True
  | StopInterrupt k =>
      exists b, body b /\ t_outcome (get_task k) = OInterrupt /\
                r_tr r' = b ++ [EExecute k] ++ EClose :: map ETeardown (rev (r_td r'))
  | _ => exists b, body b /\ r_tr r' = b ++ EClose :: map ETeardown (rev (r_td r'))
  end.

Lemma finish_tr r : r_tr (finish r) = r_tr r ++ EClose :: map ETeardown (rev (r_td r)).
Proof. reflexivity. Qed.

Lemma serial_spec fuel : forall r last r' s,
  body (r_tr r) -> serial fuel r last = (r', s) -> flushed s r'.
Proof.
  induction fuel as [|fuel IH]; intros r last r' s Hb H; cbn [Runner.serial] in H.
  { inversion H; subst. exact I. }
  destruct (r_stop r).
  { inversion H; subst. simpl. exists (r_tr r). split; auto. }
  destruct (disp_send tasks wake_rank calc_rank (S fuel) (r_d r) last) as [y d].
  destruct y as [k| | |p|].
  - destruct (select_task (with_d r d) k) as [b r1] eqn:Es.
    destruct (select_task_body _ _ _ _ Es Hb) as [Hb1 Ht1].
    destruct b.
    + destruct (is_interrupt tasks k) eqn:Ei.
      * cbv zeta in H. inversion H; subst. apply is_interrupt_spec in Ei. simpl.
        exists (r_tr r1). split; auto. split; auto. rewrite <- app_assoc. reflexivity.
      * cbv zeta in H. eapply IH; [|exact H].
        apply process_result_body; auto. intro Hc. apply is_interrupt_spec in Hc. congruence.
    + eapply IH; eauto.
  - inversion H; subst. simpl. exists (r_tr r). split; auto.
  - inversion H; subst. simpl. exists (r_tr r). split; auto.
  - inversion H; subst. simpl. exists (r_tr r). split; auto.
  - inversion H; subst. exact I.
Qed.

(* ---- what a body says about saves and successes ---- *)
Definition not_finish (e : event) : Prop :=
  match e with EClose | ETeardown _ | EInterrupt _ => False | _ => True end.
Lemma body_not_finish b : body b -> Forall not_finish b.
Proof.
  induction 1 as [|e tr Q _ IH|k tr _ _ IH|k kd tr _ _ IH]; [constructor| | |]; apply Forall_app; split; auto.
  - constructor; [|constructor]. destruct e; simpl in *; auto.
  - repeat constructor.
  - repeat constructor.
Qed.
Lemma body_no_finish b : body b -> ~ In EClose b /\ (forall j, ~ In (ETeardown j) b) /\ (forall j, ~ In (EInterrupt j) b).
Proof.
  intro Hb. pose proof (body_not_finish b Hb) as F. rewrite Forall_forall in F.
  split; [|split; intro j]; intro Hin; apply F in Hin; exact Hin.
Qed.

Lemma body_saved b : body b -> forall j, In (ESave j) b \/ In (ESuccess j) b ->
  t_outcome (get_task j) = OOk /\ exists a c, b = a ++ EExecute j :: ESave j :: ESuccess j :: c.
Proof.
  induction 1 as [|e tr Q _ IH|k tr Ok _ IH|k kd tr _ _ IH]; intros j Hin.
  - simpl in Hin. tauto.
  - assert (Hin' : In (ESave j) tr \/ In (ESuccess j) tr).
    { destruct Hin as [Hin|Hin]; apply in_app_or in Hin; destruct Hin as [Hin|Hin]; auto;
        simpl in Hin; destruct Hin as [Hin|[]]; subst e; simpl in Q; contradiction. }
    destruct (IH j Hin') as (A & a & c & E). split; auto. exists a, (c ++ [e]). rewrite E. rewrite <- app_assoc. reflexivity.
  - assert (Hin' : In (ESave j) tr \/ In (ESuccess j) tr \/ j = k).
    { destruct Hin as [Hin|Hin]; apply in_app_or in Hin; destruct Hin as [Hin|Hin]; auto;
        simpl in Hin; repeat (destruct Hin as [Hin|Hin]; [try discriminate; inversion Hin; auto|]); contradiction. }
    destruct Hin' as [H1|[H1| ->]].
    + destruct (IH j (or_introl H1)) as (A & a & c & E). split; auto. exists a, (c ++ [EExecute k; ESave k; ESuccess k]).
      rewrite E. rewrite <- app_assoc. reflexivity.
    + destruct (IH j (or_intror H1)) as (A & a & c & E). split; auto. exists a, (c ++ [EExecute k; ESave k; ESuccess k]).
      rewrite E. rewrite <- app_assoc. reflexivity.
    + split; auto. exists tr, []. reflexivity.
  - assert (Hin' : In (ESave j) tr \/ In (ESuccess j) tr).
    { destruct Hin as [Hin|Hin]; apply in_app_or in Hin; destruct Hin as [Hin|Hin]; auto;
        simpl in Hin; repeat (destruct Hin as [Hin|Hin]; [discriminate|]); contradiction. }
    destruct (IH j Hin') as (A & a & c & E). split; auto. exists a, (c ++ [EExecute k; ERemove k; EFailure k kd]).
    rewrite E. rewrite <- app_assoc. reflexivity.
Qed.

(* the theorem of the interrupt half *)
Theorem interrupt_flush fuel selected r k :
  serial fuel (r_init selected) None = (r, StopInterrupt k) ->
  exists pre tds,
    r_tr r = pre ++ [EExecute k] ++ EClose :: map ETeardown tds /\
    t_outcome (get_task k) = OInterrupt /\
    ~ In EClose pre /\ (forall j, ~ In (ETeardown j) pre) /\
    (forall j, In (ESave j) pre \/ In (ESuccess j) pre ->
               t_outcome (get_task j) = OOk /\ exists a c, pre = a ++ EExecute j :: ESave j :: ESuccess j :: c) /\
    ~ In (ESave k) pre /\ ~ In (ESuccess k) pre.
Proof.
  intro H. apply serial_spec in H; [|constructor]. destruct H as (b & Hb & Ho & Et).
  exists b, (rev (r_td r)). split; auto. split; auto.
  destruct (body_no_finish b Hb) as (A & B & _). split; auto. split; auto.
  split; [apply body_saved; auto|].
  split; intro Hin; [destruct (body_saved b Hb k (or_introl Hin)) as [X _] | destruct (body_saved b Hb k (or_intror Hin)) as [X _]]; congruence.
Qed.

(* every way a serial run ends (except running out of fuel) flushes the DB, once, before the teardowns *)
Theorem always_flushed fuel selected r s :
  serial fuel (r_init selected) None = (r, s) -> s <> StopFuel ->
  exists pre tds, r_tr r = pre ++ EClose :: map ETeardown tds /\ ~ In EClose pre /\
    (forall j, In (ESave j) pre \/ In (ESuccess j) pre ->
               t_outcome (get_task j) = OOk /\ exists a c, pre = a ++ EExecute j :: ESave j :: ESuccess j :: c).
Proof.
  intros H Hs. apply serial_spec in H; [|constructor].
  destruct s; try congruence; cbn [flushed] in H.
  - destruct H as (b & Hb & Et). exists b, (rev (r_td r)). split; auto. split; [apply body_no_finish; auto|apply body_saved; auto].
  - destruct H as (b & Hb & Et). exists b, (rev (r_td r)). split; auto. split; [apply body_no_finish; auto|apply body_saved; auto].
  - destruct H as (b & Hb & Et). exists b, (rev (r_td r)). split; auto. split; [apply body_no_finish; auto|apply body_saved; auto].
  - destruct H as (b & Hb & Ho & Et). exists (b ++ [EExecute k]), (rev (r_td r)).
    split; [rewrite Et, <- app_assoc; reflexivity|].
    assert (Hb' : body (b ++ [EExecute k]) \/ True) by auto.
    split.
    + intro Hin. apply in_app_or in Hin. destruct Hin as [Hin|Hin]; [apply (body_no_finish b Hb); auto|].
      simpl in Hin. destruct Hin as [Hin|[]]. discriminate.
    + intros j Hin.
      assert (Hin' : In (ESave j) b \/ In (ESuccess j) b).
      { destruct Hin as [Hin|Hin]; apply in_app_or in Hin; destruct Hin as [Hin|Hin]; auto; simpl in Hin; destruct Hin as [Hin|[]]; discriminate. }
      destruct (body_saved b Hb j Hin') as (A & a & c & E). split; auto. exists a, (c ++ [EExecute k]). rewrite E, <- app_assoc. reflexivity.
Qed.
End Interrupt.
(* ---- the session as backend operations: the DB gains a record only through a save ---- *)
Section SessionDB.
Variable recd : name -> list (N * Z).
Notation ops_of := (db_ops recd).

Lemma exec_sets_other (t : N) (l : list (N * Z)) : forall (m : spec) j, j <> t ->
  exec spec_step m (map (fun kv => Set_ t (fst kv) (snd kv)) l) j = m j.
Proof.
  induction l as [|kv l IH]; intros m j Hj; simpl; auto.
  rewrite IH; auto. unfold upd. apply N.eqb_neq in Hj. rewrite Hj. reflexivity.
Qed.
Lemma exec_sets_has (t : N) (l : list (N * Z)) : forall (m : spec),
  has m t = true \/ l <> [] -> has (exec spec_step m (map (fun kv => Set_ t (fst kv) (snd kv)) l)) t = true.
Proof.
  induction l as [|kv l IH]; intros m H; simpl.
  - destruct H as [H|H]; [auto|congruence].
  - apply IH. left. unfold has, upd. rewrite N.eqb_refl. reflexivity.
Qed.

Lemma ops_cons e tr : ops_of (e :: tr) = event_ops recd e ++ ops_of tr.
Proof. reflexivity. Qed.

Lemma db_ops_untouched tr : forall (m : spec) j, ~ In (ESave j) tr -> ~ In (ERemove j) tr ->
  exec spec_step m (ops_of tr) j = m j.
Proof.
  induction tr as [|e tr IH]; intros m j Hs Hr; auto.
  rewrite ops_cons, exec_app. rewrite IH; [| intro; apply Hs; right; auto | intro; apply Hr; right; auto].
  destruct e; simpl; auto.
  - apply exec_sets_other. intros ->. apply Hs. left. reflexivity.
  - unfold del. destruct (N.eqb_spec j k); auto. subst. exfalso. apply Hr. left. reflexivity.
Qed.

Lemma db_ops_unsaved tr : forall (m : spec) j, ~ In (ESave j) tr ->
  has (exec spec_step m (ops_of tr)) j = true -> has m j = true.
Proof.
  induction tr as [|e tr IH]; intros m j Hs H; auto.
  rewrite ops_cons, exec_app in H. apply IH in H; [| intro; apply Hs; right; auto].
  destruct e; cbn [event_ops exec] in H; auto.
  - unfold has, save_ops in *. rewrite exec_sets_other in H; auto. intros ->. apply Hs. left. reflexivity.
  - simpl in H. unfold has, del in *. destruct (N.eqb j k); auto. discriminate.
Qed.

Lemma db_ops_kept tr : forall (m : spec) j, has m j = true -> ~ In (ERemove j) tr ->
  has (exec spec_step m (ops_of tr)) j = true.
Proof.
  induction tr as [|e tr IH]; intros m j H Hr; auto.
  rewrite ops_cons, exec_app. apply IH; [| intro; apply Hr; right; auto].
  destruct e; cbn [event_ops exec]; auto.
  - destruct (N.eqb_spec j k) as [->|Hne].
    + apply exec_sets_has. auto.
    + unfold has, save_ops in *. rewrite exec_sets_other; auto.
  - simpl. unfold has, del in *. destruct (N.eqb_spec j k); auto. subst. exfalso. apply Hr. left. reflexivity.
Qed.

Lemma db_ops_saved tr : forall (m : spec) j, In (ESave j) tr -> ~ In (ERemove j) tr -> recd j <> [] ->
  has (exec spec_step m (ops_of tr)) j = true.
Proof.
  induction tr as [|e tr IH]; intros m j Hs Hr Hn; [contradiction|].
  rewrite ops_cons, exec_app.
  destruct Hs as [->|Hs].
  - apply db_ops_kept; [| intro; apply Hr; right; auto]. simpl. apply exec_sets_has. auto.
  - apply IH; auto. intro; apply Hr; right; auto.
Qed.

(* the answer of in_(j) after any history followed by the session, for the map and (C07) for every backend *)
Lemma spec_in_last (hist ops : list op) j :
  run_spec (hist ++ ops ++ [In_ j]) =
  run_spec (hist ++ ops) ++ [OBool (has (exec spec_step (exec spec_step empty hist) ops) j)].
Proof.
  unfold run_spec. rewrite app_assoc, run_app. simpl. rewrite exec_app. reflexivity.
Qed.
End SessionDB.

(* nothing reaches the file of JsonDB / the committed table of SqliteDB before dump; DbmDB writes removes at once *)
Section Frames.
Variable E F : Type.
Variable enc : trec -> E. Variable dec : E -> trec.
Variable encdb : tmap -> F. Variable decdb : F -> tmap.

Lemma json_file_frame ops : forall s, ~ In Reopen ops ->
  j_file F (exec (json_step F encdb decdb) s ops) = j_file F s.
Proof.
  induction ops as [|o ops IH]; intros s Hn; auto. simpl.
  rewrite IH; [| intro; apply Hn; right; auto].
  destruct o; simpl; auto. exfalso. apply Hn. left. reflexivity.
Qed.

Lemma sqlite_disk_frame lg ls ops : forall s, ~ In Reopen ops ->
  q_disk E (exec (sq_step E enc dec lg ls) s ops) = q_disk E s.
Proof.
  induction ops as [|o ops IH]; intros s Hn; auto. simpl.
  rewrite IH; [| intro; apply Hn; right; auto].
  destruct o; simpl; auto.
  - unfold sq_get. destruct (q_cache E s t); auto. destruct (sq_data E dec s t); auto. destruct lg; auto.
  - exfalso. apply Hn. left. reflexivity.
Qed.

Definition no_dbm_write (o : op) : Prop := match o with Remove _ | RemoveAll | Reopen => False | _ => True end.
Lemma dbm_file_frame lg ops : forall s, Forall no_dbm_write ops ->
  d_dbm E (exec (dbm_step E enc dec lg) s ops) = d_dbm E s.
Proof.
  induction ops as [|o ops IH]; intros s Hn; auto. simpl. inversion Hn; subst.
  rewrite IH; auto.
  destruct o; simpl in *; try contradiction; auto.
  - unfold dbm_set. destruct (has (d_db E s) t); auto. destruct lg; auto. simpl.
    unfold dbm_get. destruct (d_db E s t); auto. destruct (d_dbm E s t); auto.
  - unfold dbm_get. destruct (d_db E s t); auto. destruct (d_dbm E s t); auto.
Qed.
End Frames.

(* ===================================================================================================== *)
(* (b) kill half: JsonDB and SqliteDB                                                                     *)
(* ===================================================================================================== *)
Lemma crash_after_app {D St : Type} (apply : D -> St -> D) (d : D) (s1 s2 : list St) (k : nat) :
  crash_after apply d (s1 ++ s2) k =
  if k <=? length s1 then crash_after apply d s1 k
  else crash_after apply (fold_left apply s1 d) s2 (k - length s1).
Proof.
  unfold crash_after. rewrite firstn_app, fold_left_app.
  destruct (k <=? length s1) eqn:E.
  - apply Nat.leb_le in E. replace (k - length s1) with 0 by lia. reflexivity.
  - apply Nat.leb_gt in E. rewrite (firstn_all2 s1) by lia. reflexivity.
Qed.
Lemma crash_after_all {D St : Type} (apply : D -> St -> D) (d : D) (s : list St) (k : nat) :
  length s <= k -> crash_after apply d s k = fold_left apply s d.
Proof. intro H. unfold crash_after. rewrite firstn_all2; auto. Qed.

Lemma fold_japply_appends (chunks : list bytes) : forall x,
  fold_left japply (map JAppend chunks) (Some x) = Some (x ++ concat chunks).
Proof.
  induction chunks as [|c r IH]; intro x; simpl.
  - rewrite app_nil_r. reflexivity.
  - rewrite IH, <- app_assoc. reflexivity.
Qed.

Lemma json_crash_S old chunks k :
  json_crash old chunks (S k) = Some (concat (firstn k chunks)).
Proof.
  unfold json_crash, crash_after, json_dump_steps. rewrite firstn_cons. simpl fold_left.
  rewrite firstn_map, fold_japply_appends. reflexivity.
Qed.

Theorem json_crash_cases old chunks k :
  json_crash old chunks k = old \/
  json_crash old chunks k = Some (concat chunks) \/
  exists p, json_crash old chunks k = Some p /\ proper_prefix p (concat chunks).
Proof.
  destruct k as [|k]; [left; reflexivity|]. right. rewrite json_crash_S.
  assert (Hc : concat chunks = concat (firstn k chunks) ++ concat (skipn k chunks)).
  { rewrite <- concat_app, firstn_skipn. reflexivity. }
  rewrite Hc. destruct (concat (skipn k chunks)) as [|x s] eqn:E.
  - left. rewrite app_nil_r. reflexivity.
  - right. exists (concat (firstn k chunks)). split; auto. exists (x :: s). split; [discriminate|reflexivity].
Qed.

(* all the steps = what Backends.json_dump writes *)
Lemma json_crash_complete old chunks k : S (length chunks) <= k -> json_crash old chunks k = Some (concat chunks).
Proof.
  intro H. destruct k as [|k]; [lia|]. rewrite json_crash_S. rewrite firstn_all2 by lia. reflexivity.
Qed.

Section JsonCrashLoad.
  Variable encdb : tmap -> bytes.
  Variable decdb : bytes -> option tmap.
  Hypothesis Jp : J_prefix encdb decdb.

  (* what the next process's JsonDB(...) does with the file a kill left *)
  Theorem json_crash_load old m chunks k : concat chunks = encdb m ->
    let f := json_crash old chunks k in
    json_load decdb f = json_load decdb old \/ json_load decdb f = json_load decdb (Some (encdb m)) \/
    json_load decdb f = Refused.
  Proof.
    intros Hc f. destruct (json_crash_cases old chunks k) as [E|[E|(p & E & Hp)]]; subst f; rewrite E.
    - left. reflexivity.
    - right. left. rewrite Hc. reflexivity.
    - right. right. rewrite Hc in Hp. simpl. rewrite (Jp m p Hp). reflexivity.
  Qed.

  Lemma json_crash_is_dump (s : jsondb bytes) chunks :
    concat chunks = encdb (j_db bytes s) ->
    json_crash (j_file bytes s) chunks (S (length chunks)) = j_file bytes (json_dump bytes encdb s).
  Proof. intro H. rewrite json_crash_complete; [|apply le_n]. rewrite H. reflexivity. Qed.
End JsonCrashLoad.

Section SqliteCrash.
  Variable E : Type.
  Variable enc : trec -> E.
  Theorem sqlite_crash_cases (s : sqlitedb E) k :
    sq_crash E enc s k = q_disk E s \/ exists t, sq_dump E enc s = Some t /\ sq_crash E enc s k = t.
  Proof.
    unfold sq_crash, sq_dump_steps, crash_after. destruct (sq_dump E enc s) as [t|].
    - destruct k as [|k]; [left; reflexivity|]. right. exists t. split; auto. simpl. rewrite firstn_nil. reflexivity.
    - left. rewrite firstn_nil. reflexivity.
  Qed.
End SqliteCrash.

(* ===================================================================================================== *)
(* (b) kill half: dbm.dumb                                                                                *)
(* ===================================================================================================== *)
(* ---- block arithmetic ---- *)
Lemma nb_spec n : exists q r, n + 511 = 512 * q + r /\ r < 512 /\ nblocks n = q.
Proof.
  unfold nblocks, BLOCK. simpl Nat.sub. exists ((n + 511) / 512), ((n + 511) mod 512).
  split; [apply Nat.div_mod; lia|]. split; auto. apply Nat.mod_upper_bound. lia.
Qed.
Lemma roundup_ge n : n <= roundup n.
Proof. unfold roundup, BLOCK. destruct (nb_spec n) as (q & r & A & B & ->). lia. Qed.
Lemma roundup_mono a b : a <= b -> roundup a <= roundup b.
Proof.
  unfold roundup, BLOCK. intro H. destruct (nb_spec a) as (q1 & r1 & A1 & B1 & ->).
  destruct (nb_spec b) as (q2 & r2 & A2 & B2 & ->). lia.
Qed.
Lemma roundup_aligned x l : roundup (roundup x + l) = roundup x + nblocks l * BLOCK.
Proof.
  unfold roundup, BLOCK. destruct (nb_spec x) as (q1 & r1 & A1 & B1 & E1). rewrite E1.
  destruct (nb_spec l) as (q2 & r2 & A2 & B2 & ->). destruct (nb_spec (q1 * 512 + l)) as (q3 & r3 & A3 & B3 & ->). lia.
Qed.
Lemma nblocks_ge n : n <= nblocks n * BLOCK.
Proof. apply roundup_ge. Qed.
Lemma nblocks_mono a b : a <= b -> nblocks a <= nblocks b.
Proof. intro H. apply roundup_mono in H. unfold roundup, BLOCK in H. lia. Qed.

(* ---- the .dat file as a list of bytes ---- *)
Lemma write_at_in pos bs d : pos <= length d ->
  write_at pos bs d = firstn pos d ++ bs ++ skipn (pos + length bs) d.
Proof. intro H. unfold write_at. replace (pos - length d) with 0 by lia. reflexivity. Qed.

Lemma write_at_length pos bs d : pos <= length d ->
  length (write_at pos bs d) = Nat.max (length d) (pos + length bs).
Proof.
  intro H. rewrite write_at_in by auto. rewrite !app_length, firstn_length, skipn_length. lia.
Qed.

Lemma skipn_skipn' {A} (a b : nat) (l : list A) : skipn a (skipn b l) = skipn (b + a) l.
Proof.
  revert l. induction b as [|b IH]; intro l; simpl; auto.
  destruct l; simpl; auto. destruct a; reflexivity.
Qed.

Lemma read_write_before pos bs d p s : p + s <= pos -> pos <= length d ->
  read_at p s (write_at pos bs d) = read_at p s d.
Proof.
  intros H1 H2. rewrite write_at_in by auto. unfold read_at.
  rewrite skipn_app, firstn_length, Nat.min_l by lia. replace (p - pos) with 0 by lia. rewrite skipn_O.
  rewrite firstn_app, skipn_length, firstn_length, Nat.min_l by lia. replace (s - (pos - p)) with 0 by lia.
  rewrite firstn_O, app_nil_r. rewrite skipn_firstn_comm, firstn_firstn, Nat.min_l by lia. reflexivity.
Qed.

Lemma read_write_after pos bs d p s : pos + length bs <= p -> pos <= length d ->
  read_at p s (write_at pos bs d) = read_at p s d.
Proof.
  intros H1 H2. rewrite write_at_in by auto. unfold read_at. f_equal.
  rewrite skipn_app, firstn_length, Nat.min_l by lia.
  rewrite (skipn_all2 (firstn pos d)) by (rewrite firstn_length; lia). simpl app.
  rewrite skipn_app. rewrite (skipn_all2 bs) by lia. simpl app.
  rewrite skipn_skipn'. f_equal. lia.
Qed.

Lemma read_write_exact pos bs d : pos <= length d -> read_at pos (length bs) (write_at pos bs d) = bs.
Proof.
  intro H. rewrite write_at_in by auto. unfold read_at.
  rewrite skipn_app, firstn_length, Nat.min_l by lia. replace (pos - pos) with 0 by lia. rewrite skipn_O.
  rewrite (skipn_all2 (firstn pos d)) by (rewrite firstn_length; lia). simpl app.
  rewrite firstn_app. replace (length bs - length bs) with 0 by lia. rewrite firstn_O, app_nil_r.
  apply firstn_all.
Qed.

Lemma read_write_same pos bs d s : pos + s <= length d ->
  read_at pos s (write_at pos bs d) = firstn s (bs ++ skipn (length bs) (read_at pos s d)).
Proof.
  intro H. rewrite write_at_in by lia. unfold read_at.
  rewrite skipn_app, firstn_length, Nat.min_l by lia. replace (pos - pos) with 0 by lia. rewrite skipn_O.
  rewrite (skipn_all2 (firstn pos d)) by (rewrite firstn_length; lia). simpl app.
  rewrite skipn_firstn_comm, skipn_skipn'. rewrite !firstn_app. f_equal.
  rewrite firstn_firstn, Nat.min_id. reflexivity.
Qed.

Lemma read_at_length p s d : p + s <= length d -> length (read_at p s d) = s.
Proof. intro H. unfold read_at. rewrite firstn_length, skipn_length. lia. Qed.

Lemma write_at_end bs d : write_at (length d) bs d = d ++ bs.
Proof.
  rewrite write_at_in by lia. rewrite firstn_all, skipn_all2 by lia. rewrite app_nil_r. reflexivity.
Qed.
Lemma read_app p s d x : p + s <= length d -> read_at p s (d ++ x) = read_at p s d.
Proof.
  intro H. unfold read_at. rewrite skipn_app. replace (p - length d) with 0 by lia. rewrite skipn_O.
  rewrite firstn_app, skipn_length. replace (s - (length d - p)) with 0 by lia. rewrite firstn_O, app_nil_r. reflexivity.
Qed.
Lemma read_app_new d x : read_at (length d) (length x) (d ++ x) = x.
Proof.
  unfold read_at. rewrite skipn_app, skipn_all. replace (length d - length d) with 0 by lia. rewrite skipn_O. simpl.
  apply firstn_all.
Qed.

(* ---- the index as a python dict ---- *)
Lemma lookup_None k idx : lookup k idx = None <-> ~ In k (map e_key idx).
Proof.
  unfold lookup. induction idx as [|e idx IH]; simpl; [tauto|].
  unfold ekey_eqb at 1. destruct (N.eqb_spec (e_key e) k) as [E|E].
  - split; [discriminate|]. intro H. exfalso. apply H. auto.
  - rewrite IH. split; [intros H [H1|H1]; auto | intros H H1; apply H; auto].
Qed.
Lemma lookup_Some k idx e : lookup k idx = Some e -> In e idx /\ e_key e = k.
Proof.
  unfold lookup. intro H. apply find_some in H. destruct H as [H1 H2]. split; auto.
  unfold ekey_eqb in H2. apply N.eqb_eq in H2. exact H2.
Qed.
Lemma lookup_unique k idx e : NoDup (map e_key idx) -> In e idx -> e_key e = k -> lookup k idx = Some e.
Proof.
  unfold lookup. induction idx as [|x idx IH]; simpl; intros Hn Hi Hk; [contradiction|].
  inversion Hn as [|? ? Hx Hn']; subst. unfold ekey_eqb at 1.
  destruct Hi as [->|Hi].
  - rewrite N.eqb_refl. reflexivity.
  - destruct (N.eqb_spec (e_key x) (e_key e)) as [E|E].
    + exfalso. apply Hx. rewrite E. apply in_map. exact Hi.
    + apply IH; auto.
Qed.

Lemma dict_set_new idx e : ~ In (e_key e) (map e_key idx) -> dict_set idx e = idx ++ [e].
Proof. intro H. unfold dict_set. apply lookup_None in H. rewrite H. reflexivity. Qed.

Lemma dumb_load_app l : forall acc, NoDup (map e_key (acc ++ l)) -> fold_left dict_set l acc = acc ++ l.
Proof.
  induction l as [|e l IH]; intros acc H; simpl.
  - rewrite app_nil_r. reflexivity.
  - rewrite dict_set_new.
    + rewrite IH; rewrite <- app_assoc; auto.
    + rewrite map_app in H. apply NoDup_remove_2 in H. intro Hc. apply H. apply in_or_app. left. exact Hc.
Qed.
Lemma dumb_load_id l : NoDup (map e_key l) -> dumb_load l = l.
Proof. intro H. unfold dumb_load. apply (dumb_load_app l []). exact H. Qed.

Lemma dict_set_old_keys idx e e1 : lookup (e_key e) idx = Some e1 -> map e_key (dict_set idx e) = map e_key idx.
Proof.
  intro H. unfold dict_set. rewrite H. rewrite map_map. apply map_ext_in. intros x _.
  unfold ekey_eqb. destruct (N.eqb_spec (e_key x) (e_key e)); auto.
Qed.
Lemma dict_set_old_in idx e e1 x : lookup (e_key e) idx = Some e1 ->
  In x (dict_set idx e) -> x = e \/ (In x idx /\ e_key x <> e_key e).
Proof.
  intros H Hi. unfold dict_set in Hi. rewrite H in Hi. apply in_map_iff in Hi. destruct Hi as (y & Ey & Hy).
  unfold ekey_eqb in Ey. destruct (N.eqb_spec (e_key y) (e_key e)); subst; auto.
Qed.
Lemma dict_set_old_has idx e e1 : lookup (e_key e) idx = Some e1 -> In e (dict_set idx e).
Proof.
  intro H. unfold dict_set. rewrite H. apply lookup_Some in H. destruct H as [H1 H2].
  apply in_map_iff. exists e1. split; auto. unfold ekey_eqb. rewrite H2, N.eqb_refl. reflexivity.
Qed.
Lemma dict_set_old_keeps idx e e1 x : lookup (e_key e) idx = Some e1 -> In x idx -> e_key x <> e_key e -> In x (dict_set idx e).
Proof.
  intros H Hi Hk. unfold dict_set. rewrite H. apply in_map_iff. exists x. split; auto.
  unfold ekey_eqb. apply N.eqb_neq in Hk. rewrite Hk. reflexivity.
Qed.

Lemma dict_del_in idx k x : In x (dict_del idx k) <-> In x idx /\ e_key x <> k.
Proof.
  unfold dict_del. rewrite filter_In. unfold ekey_eqb. rewrite negb_true_iff, N.eqb_neq. tauto.
Qed.
Lemma NoDup_map_filter {A B} (f : A -> B) (p : A -> bool) l : NoDup (map f l) -> NoDup (map f (filter p l)).
Proof.
  induction l as [|x l IH]; simpl; intro H; auto. inversion H; subst.
  destruct (p x); simpl; auto. constructor; auto.
  intro Hc. apply in_map_iff in Hc. destruct Hc as (y & Ey & Hy). apply filter_In in Hy.
  apply H2. rewrite <- Ey. apply in_map. tauto.
Qed.

Lemma NoDup_app_l {A} (a b : list A) : NoDup (a ++ b) -> NoDup a.
Proof.
  induction a as [|x a IH]; simpl; intro H; constructor; inversion H; subst; auto.
  intro Hc. apply H2. apply in_or_app. auto.
Qed.

Lemma NoDup_snoc' {A} (l : list A) (x : A) : NoDup l -> ~ In x l -> NoDup (l ++ [x]).
Proof.
  induction l as [|y l IH]; simpl; intros H Hx; [constructor; [intros []|constructor]|].
  inversion H; subst. constructor.
  - intro Hc. apply in_app_or in Hc. destruct Hc as [Hc|[Hc|[]]]; [contradiction|]. apply Hx. left. symmetry. exact Hc.
  - apply IH; auto.
Qed.

(* ---- crash states of one session ---- *)
Section DumbCrash.
Variable idx0 : list entry.          (* the index found at open *)
Variable dat0 : bytes.               (* the .dat file found at open *)
Variable sets : list (N * bytes).    (* the stores of DbmDB.dump *)
Hypothesis WF0 : idx_wf idx0 (length dat0).
Let base0 := roundup (length dat0).

Definition rd (e : entry) (D : bytes) : bytes := read_at (e_pos e) (e_siz e) D.

(* a line of the .dir file is harmless: it names an original entry whose bytes are still the old value or the old
   value overwritten in place by the new one, or it names a place that holds the new value *)
Definition line_ok (D : bytes) (e : entry) : Prop :=
  (In e idx0 /\ (rd e D = rd e dat0 \/ exists new, In (e_key e, new) sets /\ rd e D = torn (rd e dat0) new))
  \/ (exists new, In (e_key e, new) sets /\ rd e D = new).

Definition good (d : ddisk) : Prop :=
  match dk_dir d with
  | Some (l, false) => NoDup (map e_key l) /\ Forall (line_ok (dk_dat d)) l
  | _ => True
  end.
Definition all_good (d : ddisk) (st : list dstep) : Prop := forall k, good (crash_after dapply d st k).

Lemma all_good_nil d : good d -> all_good d [].
Proof. intros H k. unfold crash_after. rewrite firstn_nil. exact H. Qed.
Lemma all_good_cons d s st : good d -> all_good (dapply d s) st -> all_good d (s :: st).
Proof. intros H1 H2 [|k]; [exact H1|]. apply (H2 k). Qed.
Lemma all_good_app d s1 s2 : all_good d s1 -> all_good (dapply_all d s1) s2 -> all_good d (s1 ++ s2).
Proof.
  intros H1 H2 k. rewrite crash_after_app. destruct (k <=? length s1); [apply H1|apply H2].
Qed.
Lemma all_good_head d st : all_good d st -> good d.
Proof. intro H. apply (H 0). Qed.

Lemma line_ok_rd D D' e : rd e D' = rd e D -> line_ok D e -> line_ok D' e.
Proof. unfold line_ok. intros E H. rewrite E. exact H. Qed.

(* where an entry may live: inside the blocks of the original entry of its key, or beyond everything original *)
Definition safe (e : entry) : Prop :=
  (exists e0, In e0 idx0 /\ e_key e0 = e_key e /\ e_pos e0 <= e_pos e /\ e_pos e + e_siz e <= e_end e0) \/ base0 <= e_pos e.
Definition einv (D : bytes) (e : entry) : Prop := safe e /\ e_pos e + e_siz e <= length D /\ line_ok D e.

Lemma einv_orig e : In e idx0 -> einv dat0 e.
Proof.
  intro H. split; [|split].
  - left. exists e. repeat split; auto. unfold e_end. pose proof (nblocks_ge (e_siz e)). lia.
  - apply (wf_inb _ _ WF0). exact H.
  - left. split; auto.
Qed.

Lemma einv_append D x e : einv D e -> einv (D ++ x) e.
Proof.
  intros (S1 & S2 & S3). split; auto. split; [rewrite app_length; lia|].
  eapply line_ok_rd; [|exact S3]. apply read_app. exact S2.
Qed.

Lemma rd_inplace_other D e0 new e :
  In e0 idx0 -> length new <= nblocks (e_siz e0) * BLOCK -> e_pos e0 <= length D ->
  safe e -> e_key e <> e_key e0 -> rd e (write_at (e_pos e0) new D) = rd e D.
Proof.
  intros H0 Hl Hp Hs Hk. unfold rd. pose proof (wf_end _ _ WF0 e0 H0) as He0. unfold e_end in He0.
  destruct Hs as [(e1 & H1 & K1 & P1 & Q1)|Hb].
  - destruct (wf_disj _ _ WF0 e0 e1 H0 H1) as [Hd|Hd]; [congruence| |]; unfold e_end in *.
    + apply read_write_after; lia.
    + apply read_write_before; lia.
  - apply read_write_after; auto. fold base0 in He0. lia.
Qed.

Lemma einv_inplace_other D e0 new e :
  In e0 idx0 -> length new <= nblocks (e_siz e0) * BLOCK -> e_pos e0 <= length D ->
  einv D e -> e_key e <> e_key e0 -> einv (write_at (e_pos e0) new D) e.
Proof.
  intros H0 Hl Hp (S1 & S2 & S3) Hk. split; auto. split.
  - rewrite write_at_length by auto. lia.
  - eapply line_ok_rd; [|exact S3]. apply rd_inplace_other; auto.
Qed.

(* ---- _commit ---- *)
Lemma lines_good rest : forall d acc,
  dk_dir d = Some (acc, false) -> NoDup (map e_key (acc ++ rest)) -> Forall (line_ok (dk_dat d)) (acc ++ rest) ->
  let st := flat_map (fun e => [SDirTear; SDirLine e]) rest in
  all_good d st /\ dk_dat (dapply_all d st) = dk_dat d /\ dk_dir (dapply_all d st) = Some (acc ++ rest, false).
Proof.
  induction rest as [|e rest IH]; intros d acc Hd Hn Hf; cbv zeta.
  - simpl. rewrite app_nil_r in *. split; [|split]; auto. apply all_good_nil. unfold good. rewrite Hd. auto.
  - assert (G0 : good d).
    { unfold good. rewrite Hd. rewrite map_app in Hn. apply NoDup_app_l in Hn. split; auto.
      apply Forall_app in Hf. apply Hf. }
    set (d2 := dapply (dapply d SDirTear) (SDirLine e)).
    assert (E2 : dk_dir d2 = Some (acc ++ [e], false)) by (unfold d2; simpl; rewrite Hd; reflexivity).
    assert (D2 : dk_dat d2 = dk_dat d) by reflexivity.
    destruct (IH d2 (acc ++ [e])) as (A & B & C).
    { exact E2. } { rewrite <- app_assoc. exact Hn. } { rewrite D2, <- app_assoc. exact Hf. }
    simpl flat_map. split; [|split].
    + apply all_good_cons; auto. apply all_good_cons; auto.
      unfold good. simpl. rewrite Hd. exact I.
    + change (dk_dat (dapply_all d2 (flat_map (fun e => [SDirTear; SDirLine e]) rest)) = dk_dat d). rewrite B. exact D2.
    + change (dk_dir (dapply_all d2 (flat_map (fun e => [SDirTear; SDirLine e]) rest)) = Some (acc ++ e :: rest, false)).
      rewrite C, <- app_assoc. reflexivity.
Qed.

Lemma commit_good m d :
  good d -> NoDup (map e_key (m_index m)) -> Forall (line_ok (dk_dat d)) (m_index m) ->
  all_good d (commit_steps m) /\ dk_dat (dapply_all d (commit_steps m)) = dk_dat d /\
  (m_modified m = true -> dk_dir (dapply_all d (commit_steps m)) = Some (m_index m, false)) /\
  (m_modified m = false -> dapply_all d (commit_steps m) = d).
Proof.
  intros G Hn Hf. unfold commit_steps. destruct (m_modified m).
  - set (d1 := dapply d SBakUnlink). set (d2 := dapply d1 SDirToBak). set (d3 := dapply d2 SDirCreate).
    assert (G1 : good d1) by exact G.
    assert (D2 : dk_dat d2 = dk_dat d).
    { unfold d2, d1. simpl. destruct (dk_dir d); reflexivity. }
    assert (G2 : good d2).
    { unfold d2, d1. simpl. destruct (dk_dir d) eqn:E; unfold good; simpl; exact I. }
    assert (E3 : dk_dir d3 = Some ([], false)) by reflexivity.
    assert (D3 : dk_dat d3 = dk_dat d) by (unfold d3; simpl; exact D2).
    destruct (lines_good (m_index m) d3 []) as (A & B & C); auto.
    { rewrite D3. exact Hf. }
    simpl app in *. split; [|split; [|split]].
    + apply all_good_cons; auto. apply all_good_cons; auto. apply all_good_cons; auto.
    + change (dk_dat (dapply_all d3 (flat_map (fun e => [SDirTear; SDirLine e]) (m_index m))) = dk_dat d). rewrite B. exact D3.
    + intros _. exact C.
    + discriminate.
  - simpl. split; [apply all_good_nil; auto|]. split; [reflexivity|]. split; [discriminate|reflexivity].
Qed.

(* ---- DbmDB.dump: the stores ---- *)
Record SI (todo : list (N * bytes)) (m : dmem) (d : ddisk) (L : list entry) : Prop := {
  si_dir : dk_dir d = Some (L, false) \/ (dk_dir d = None /\ L = []);
  si_nd : NoDup (map e_key (m_index m));
  si_idx : Forall (einv (dk_dat d)) (m_index m);
  si_Lnd : NoDup (map e_key L);
  si_L : Forall (einv (dk_dat d)) L;
  si_Lk : incl (map e_key L) (map e_key (m_index m));
  si_todo_idx : forall e, In e (m_index m) -> In (e_key e) (map fst todo) -> In e idx0 /\ rd e (dk_dat d) = rd e dat0;
  si_todo_L : forall e, In e L -> In (e_key e) (map fst todo) -> In e (m_index m);
  si_len : length dat0 <= length (dk_dat d)
}.

Lemma einv_line_ok D l : Forall (einv D) l -> Forall (line_ok D) l.
Proof. apply Forall_impl. intros e (_ & _ & H). exact H. Qed.

Lemma SI_good todo m d L : SI todo m d L -> good d.
Proof.
  intro H. unfold good. destruct (si_dir _ _ _ _ H) as [E|[E _]]; rewrite E; auto.
  split; [apply (si_Lnd _ _ _ _ H)|apply einv_line_ok, (si_L _ _ _ _ H)].
Qed.

Lemma good_dat d D' : (forall l, dk_dir d = Some (l, false) -> Forall (line_ok D') l) -> good d ->
  good {| dk_dat := D'; dk_dir := dk_dir d; dk_bak := dk_bak d |}.
Proof.
  unfold good. simpl. destruct (dk_dir d) as [[l [|]]|]; auto. intros H [H1 _]. split; auto.
Qed.

(* the two writes of _addval *)
Lemma addval_good todo m d L new :
  SI todo m d L ->
  let D := dk_dat d in
  let np := roundup (length D) in
  let pad := repeat 0%N (np - length D) in
  let d1 := dapply d (SDatWrite (length D) pad) in
  let d2 := dapply d1 (SDatWrite np new) in
  good d1 /\ good d2 /\ dk_dat d2 = (D ++ pad) ++ new /\ dk_dir d2 = dk_dir d /\ length (D ++ pad) = np /\
  (forall x, einv D x -> einv ((D ++ pad) ++ new) x /\ rd x ((D ++ pad) ++ new) = rd x D).
Proof.
  intros H D np pad d1 d2.
  assert (Lp : length (D ++ pad) = np).
  { rewrite app_length. unfold pad. rewrite repeat_length. pose proof (roundup_ge (length D)). fold np in H0. lia. }
  assert (E1 : dk_dat d1 = D ++ pad) by (unfold d1; simpl; apply write_at_end).
  assert (E2 : dk_dat d2 = (D ++ pad) ++ new).
  { unfold d2. simpl. fold D. rewrite write_at_end. rewrite <- Lp. apply write_at_end. }
  assert (X : forall x, einv D x -> einv ((D ++ pad) ++ new) x /\ rd x ((D ++ pad) ++ new) = rd x D).
  { intros x Hx. split; [apply einv_append, einv_append; exact Hx|].
    destruct Hx as (_ & B & _). unfold rd. rewrite read_app by (rewrite app_length; lia). apply read_app. exact B. }
  pose proof (SI_good _ _ _ _ H) as G.
  assert (FL : forall l, dk_dir d = Some (l, false) -> Forall (einv D) l).
  { intros l El. destruct (si_dir _ _ _ _ H) as [E|[E _]]; rewrite E in El; [|discriminate].
    inversion El; subst. apply (si_L _ _ _ _ H). }
  split; [|split; [|split; [|split; [|split]]]]; auto.
  - unfold d1. simpl. fold D. rewrite write_at_end. apply good_dat; auto.
    intros l El. apply einv_line_ok. eapply Forall_impl; [|apply (FL l El)]. intros x Hx. apply einv_append. exact Hx.
  - unfold d2, d1. simpl. fold D. rewrite write_at_end. rewrite <- Lp at 1. rewrite write_at_end. apply good_dat; auto.
    intros l El. apply einv_line_ok. eapply Forall_impl; [|apply (FL l El)]. intros x Hx. apply X. exact Hx.
Qed.

Lemma in_keys (e : entry) l : In e l -> In (e_key e) (map e_key l).
Proof. apply in_map. Qed.

Lemma setitem_step t new todo m d L :
  SI ((t, new) :: todo) m d L -> ~ In t (map fst todo) -> In (t, new) sets ->
  all_good d (snd (setitem m d t new)) /\
  exists L', SI todo (fst (setitem m d t new)) (dapply_all d (snd (setitem m d t new))) L'.
Proof.
  intros H Ht Hs. pose proof (SI_good _ _ _ _ H) as G.
  destruct (addval_good _ _ _ _ new H) as (G1 & G2 & E2 & Ed2 & Lp & X). cbv zeta in *.
  set (D := dk_dat d) in *. set (np := roundup (length D)) in *. set (pad := repeat 0%N (np - length D)) in *.
  set (d1 := dapply d (SDatWrite (length D) pad)) in *. set (d2 := dapply d1 (SDatWrite np new)) in *.
  assert (Hb0 : base0 <= np).
  { unfold base0, np. apply roundup_mono. apply (si_len _ _ _ _ H). }
  set (ea := {| e_key := t; e_pos := np; e_siz := length new |}).
  assert (Ea : einv ((D ++ pad) ++ new) ea /\ rd ea ((D ++ pad) ++ new) = new).
  { assert (R : rd ea ((D ++ pad) ++ new) = new) by (unfold rd, ea; simpl; rewrite <- Lp; apply read_app_new).
    split; auto. split; [right; exact Hb0|]. split; [simpl; rewrite app_length; lia|].
    right. exists new. split; auto. }
  unfold setitem. unfold addval_steps, dlen. fold D np pad. fold ea.
  destruct (lookup t (m_index m)) as [e0|] eqn:El.
  - (* the key exists *)
    destruct (lookup_Some _ _ _ El) as [Hin0 Hk0].
    destruct (si_todo_idx _ _ _ _ H e0 Hin0) as [Hi0 Hr0]; [rewrite Hk0; left; reflexivity|]. fold D in Hr0.
    assert (Hinv0 : einv D e0) by (pose proof (si_idx _ _ _ _ H) as F; rewrite Forall_forall in F; apply F; exact Hin0).
    assert (Uniq : forall x, In x (m_index m) -> e_key x = t -> x = e0).
    { intros x Hx Hkx. pose proof (lookup_unique t _ x (si_nd _ _ _ _ H) Hx Hkx) as U. congruence. }
    assert (UniqL : forall x, In x L -> e_key x = t -> x = e0).
    { intros x Hx Hkx. apply Uniq; auto. apply (si_todo_L _ _ _ _ H); auto. rewrite Hkx. left. reflexivity. }
    destruct (nblocks (length new) <=? nblocks (e_siz e0)) eqn:Eb.
    + (* overwritten in place *)
      apply Nat.leb_le in Eb. cbn [fst snd].
      assert (Hl : length new <= nblocks (e_siz e0) * BLOCK).
      { pose proof (nblocks_ge (length new)). unfold BLOCK in *. nia. }
      destruct Hinv0 as (Sf0 & Bd0 & Lk0).
      assert (Hp : e_pos e0 <= length D) by lia.
      set (D' := write_at (e_pos e0) new D).
      set (ei := {| e_key := t; e_pos := e_pos e0; e_siz := length new |}).
      assert (LenD' : length D <= length D' /\ e_pos e0 + length new <= length D').
      { unfold D'. rewrite write_at_length by auto. lia. }
      assert (Oth : forall x, einv D x -> e_key x <> t -> einv D' x /\ rd x D' = rd x D).
      { intros x Hx Hkx. split; [apply einv_inplace_other; auto; congruence|].
        apply rd_inplace_other; auto; [apply Hx|congruence]. }
      assert (I0 : einv D' e0).
      { split; auto. split; [lia|]. left. split; auto. right. exists new. split; [rewrite Hk0; exact Hs|].
        unfold rd, D'. rewrite read_write_same by lia. fold (rd e0 D). rewrite Hr0. unfold torn.
        assert (Lo : length (rd e0 dat0) = e_siz e0) by (unfold rd; apply read_at_length; apply (wf_inb _ _ WF0); exact Hi0).
        unfold rd in Lo |- *. rewrite Lo. reflexivity. }
      assert (Ii : einv D' ei /\ rd ei D' = new).
      { assert (R : rd ei D' = new) by (unfold rd, ei, D'; simpl; apply read_write_exact; exact Hp).
        split; auto. split; [|split].
        - left. exists e0. simpl. repeat split; auto. unfold e_end. lia.
        - simpl. lia.
        - right. exists new. split; auto. }
      assert (FL : Forall (einv D') L).
      { pose proof (si_L _ _ _ _ H) as F. rewrite Forall_forall in *. intros x Hx.
        destruct (N.eq_dec (e_key x) t) as [Ek|Ek]; [rewrite (UniqL x Hx Ek); exact I0|apply Oth; auto]. }
      assert (Gd : good (dapply d (SDatWrite (e_pos e0) new))).
      { simpl. fold D D'. apply good_dat; auto. intros l E. destruct (si_dir _ _ _ _ H) as [E'|[E' _]]; rewrite E' in E; [|discriminate].
        inversion E; subst. apply einv_line_ok. exact FL. }
      split.
      * apply all_good_cons; auto. apply all_good_nil. exact Gd.
      * exists L. assert (Elk : lookup (e_key ei) (m_index m) = Some e0) by exact El.
        constructor; cbn [m_index dk_dat dk_dir dapply_all fold_left dapply]; fold D D'.
        -- apply (si_dir _ _ _ _ H).
        -- rewrite (dict_set_old_keys _ ei e0 Elk). apply (si_nd _ _ _ _ H).
        -- rewrite Forall_forall. intros x Hx. destruct (dict_set_old_in _ _ _ _ Elk Hx) as [->|[Hx1 Hx2]]; [apply Ii|].
           apply Oth; auto. pose proof (si_idx _ _ _ _ H) as F. rewrite Forall_forall in F. apply F. exact Hx1.
        -- apply (si_Lnd _ _ _ _ H).
        -- exact FL.
        -- rewrite (dict_set_old_keys _ ei e0 Elk). apply (si_Lk _ _ _ _ H).
        -- intros x Hx Hkx. destruct (dict_set_old_in _ _ _ _ Elk Hx) as [->|[Hx1 Hx2]]; [exfalso; apply Ht; exact Hkx|].
           destruct (si_todo_idx _ _ _ _ H x Hx1) as [A B]; [right; exact Hkx|]. split; auto. fold D in B. rewrite <- B.
           apply Oth; auto. pose proof (si_idx _ _ _ _ H) as F. rewrite Forall_forall in F. apply F. exact Hx1.
        -- intros x Hx Hkx. assert (e_key x <> t) by (intros Ek; apply Ht; rewrite <- Ek; exact Hkx).
           apply (dict_set_old_keeps _ ei e0); auto. apply (si_todo_L _ _ _ _ H); auto. right. exact Hkx.
        -- pose proof (si_len _ _ _ _ H). fold D in H0. lia.
    + (* does not fit: appended, the index entry moves *)
      cbn [fst snd].
      split.
      * apply all_good_cons; auto. apply all_good_cons; auto. apply all_good_nil. exact G2.
      * exists L. assert (Elk : lookup (e_key ea) (m_index m) = Some e0) by exact El.
        change (dapply_all d [SDatWrite (length D) pad; SDatWrite np new]) with d2.
        constructor; cbn [m_index]; rewrite ?E2, ?Ed2.
        -- apply (si_dir _ _ _ _ H).
        -- rewrite (dict_set_old_keys _ ea e0 Elk). apply (si_nd _ _ _ _ H).
        -- rewrite Forall_forall. intros x Hx. destruct (dict_set_old_in _ _ _ _ Elk Hx) as [->|[Hx1 Hx2]]; [apply Ea|].
           apply X. pose proof (si_idx _ _ _ _ H) as F. rewrite Forall_forall in F. apply F. exact Hx1.
        -- apply (si_Lnd _ _ _ _ H).
        -- eapply Forall_impl; [|apply (si_L _ _ _ _ H)]. intros x Hx. apply X. exact Hx.
        -- rewrite (dict_set_old_keys _ ea e0 Elk). apply (si_Lk _ _ _ _ H).
        -- intros x Hx Hkx. destruct (dict_set_old_in _ _ _ _ Elk Hx) as [->|[Hx1 Hx2]]; [exfalso; apply Ht; exact Hkx|].
           destruct (si_todo_idx _ _ _ _ H x Hx1) as [A B]; [right; exact Hkx|]. split; auto. fold D in B. rewrite <- B.
           apply X. pose proof (si_idx _ _ _ _ H) as F. rewrite Forall_forall in F. apply F. exact Hx1.
        -- intros x Hx Hkx. assert (e_key x <> t) by (intros Ek; apply Ht; rewrite <- Ek; exact Hkx).
           apply (dict_set_old_keeps _ ea e0); auto. apply (si_todo_L _ _ _ _ H); auto. right. exact Hkx.
        -- pose proof (si_len _ _ _ _ H). fold D in H0. rewrite !app_length. lia.
  - (* a new key: appended to .dat, then announced in .dir *)
    cbn [fst snd]. apply lookup_None in El.
    assert (HtL : ~ In t (map e_key L)) by (intro Hc; apply El; apply (si_Lk _ _ _ _ H); exact Hc).
    set (d3 := dapply d2 (SDirAppend ea)).
    assert (E3 : dk_dir d3 = Some (L ++ [ea], false)).
    { unfold d3. cbn [dapply dk_dir]. rewrite Ed2. destruct (si_dir _ _ _ _ H) as [E|[E EL]]; rewrite E; [reflexivity|]. subst L. reflexivity. }
    assert (D3 : dk_dat d3 = (D ++ pad) ++ new) by (unfold d3; cbn [dapply dk_dat]; exact E2).
    assert (FL : Forall (einv ((D ++ pad) ++ new)) (L ++ [ea])).
    { apply Forall_app. split; [|constructor; [apply Ea|constructor]].
      eapply Forall_impl; [|apply (si_L _ _ _ _ H)]. intros x Hx. apply X. exact Hx. }
    assert (NL : NoDup (map e_key (L ++ [ea]))).
    { rewrite map_app. simpl. apply NoDup_snoc'; [apply (si_Lnd _ _ _ _ H)|exact HtL]. }
    assert (G3 : good d3).
    { unfold good. rewrite E3, D3. split; auto. apply einv_line_ok. exact FL. }
    split.
    * change ([SDatWrite (length D) pad; SDatWrite np new] ++ [SDirAppend ea]) with [SDatWrite (length D) pad; SDatWrite np new; SDirAppend ea].
      apply all_good_cons; auto. apply all_good_cons; auto. apply all_good_cons; auto. apply all_good_nil. exact G3.
    * exists (L ++ [ea]).
      change (dapply_all d ([SDatWrite (length D) pad; SDatWrite np new] ++ [SDirAppend ea])) with d3.
      constructor; cbn [m_index]; rewrite ?D3.
      -- left. exact E3.
      -- rewrite map_app. simpl. apply NoDup_snoc'; [apply (si_nd _ _ _ _ H)|exact El].
      -- apply Forall_app. split; [|constructor; [apply Ea|constructor]].
         eapply Forall_impl; [|apply (si_idx _ _ _ _ H)]. intros x Hx. apply X. exact Hx.
      -- exact NL.
      -- exact FL.
      -- rewrite !map_app. apply incl_app_app; [apply (si_Lk _ _ _ _ H)|apply incl_refl].
      -- intros x Hx Hkx. apply in_app_or in Hx. destruct Hx as [Hx|[<-|[]]]; [|exfalso; apply Ht; exact Hkx].
         destruct (si_todo_idx _ _ _ _ H x Hx) as [A B]; [right; exact Hkx|]. split; auto. fold D in B. rewrite <- B.
         apply X. pose proof (si_idx _ _ _ _ H) as F. rewrite Forall_forall in F. apply F. exact Hx.
      -- intros x Hx Hkx. apply in_or_app. apply in_app_or in Hx. destruct Hx as [Hx|[<-|[]]]; [left|right; left; reflexivity].
         apply (si_todo_L _ _ _ _ H); auto. right. exact Hkx.
      -- pose proof (si_len _ _ _ _ H). fold D in H0. rewrite !app_length. lia.
Qed.

Lemma sets_good todo : forall m d L, SI todo m d L -> NoDup (map fst todo) -> incl todo sets ->
  all_good d (sets_steps m d todo).
Proof.
  induction todo as [|[t new] todo IH]; intros m d L H Hn Hi; cbn [sets_steps].
  - apply commit_good; [apply (SI_good _ _ _ _ H)|apply (si_nd _ _ _ _ H)|apply einv_line_ok, (si_idx _ _ _ _ H)].
  - inversion Hn as [|? ? Ht Hn']; subst.
    assert (Hs : In (t, new) sets) by (apply Hi; left; reflexivity).
    destruct (setitem_step t new todo m d L H Ht Hs) as (A & L' & B).
    destruct (setitem m d t new) as [m' st]. cbn [fst snd] in *.
    apply all_good_app; auto. eapply IH; eauto. intros x Hx. apply Hi. right. exact Hx.
Qed.

(* ---- the deletes of the run (DbmDB.remove), before dump ---- *)
Record DI (m : dmem) (d : ddisk) : Prop := {
  di_dat : dk_dat d = dat0;
  di_incl : incl (m_index m) idx0;
  di_nd : NoDup (map e_key (m_index m));
  di_dir : dk_dir d = Some (m_index m, false) \/ (dk_dir d = None /\ m_index m = [])
}.

Lemma DI_einv m d : DI m d -> Forall (einv (dk_dat d)) (m_index m).
Proof.
  intro H. rewrite (di_dat _ _ H). rewrite Forall_forall. intros e He. apply einv_orig. apply (di_incl _ _ H). exact He.
Qed.

Lemma DI_SI m d : DI m d -> SI sets m d (m_index m).
Proof.
  intro H. constructor.
  - apply (di_dir _ _ H).
  - apply (di_nd _ _ H).
  - apply DI_einv. exact H.
  - apply (di_nd _ _ H).
  - apply DI_einv. exact H.
  - apply incl_refl.
  - intros e He _. split; [apply (di_incl _ _ H); exact He|]. rewrite (di_dat _ _ H). reflexivity.
  - auto.
  - rewrite (di_dat _ _ H). lia.
Qed.

Lemma dels_good dels : forall m d, DI m d -> NoDup (map fst sets) -> all_good d (dels_steps m d dels sets).
Proof.
  induction dels as [|k dels IH]; intros m d H Hn; cbn [dels_steps].
  - eapply sets_good; [apply DI_SI; exact H|exact Hn|apply incl_refl].
  - unfold delitem. destruct (lookup k (m_index m)) eqn:El.
    + set (m' := {| m_index := dict_del (m_index m) k; m_modified := true |}).
      assert (Nd' : NoDup (map e_key (m_index m'))) by (apply NoDup_map_filter, (di_nd _ _ H)).
      assert (In' : incl (m_index m') idx0).
      { intros x Hx. apply dict_del_in in Hx. apply (di_incl _ _ H). tauto. }
      assert (F' : Forall (line_ok (dk_dat d)) (m_index m')).
      { apply einv_line_ok. rewrite (di_dat _ _ H). rewrite Forall_forall. intros x Hx. apply einv_orig. apply In'. exact Hx. }
      destruct (commit_good m' d) as (A & B & C & _); auto.
      { apply (SI_good _ _ _ _ (DI_SI _ _ H)). }
      apply all_good_app; auto. apply IH; [|exact Hn].
      constructor; [rewrite B; apply (di_dat _ _ H)|exact In'|exact Nd'|left; apply C; reflexivity].
    + simpl app. apply IH; auto.
Qed.

Theorem dumb_crash_good d0 dels k :
  dk_dat d0 = dat0 -> (dk_dir d0 = Some (idx0, false) \/ (dk_dir d0 = None /\ idx0 = [])) ->
  NoDup (map fst sets) -> good (dumb_crash d0 dels sets k).
Proof.
  intros Hd Hdir Hn. unfold dumb_crash, session_steps, dumb_open.
  destruct Hdir as [E|[E E0]]; rewrite E.
  - rewrite (dumb_load_id idx0 (wf_nodup _ _ WF0)). apply dels_good; auto. constructor; simpl; auto.
    + apply incl_refl.
    + apply (wf_nodup _ _ WF0).
  - apply dels_good; auto. constructor; simpl; auto.
    + intros x [].
    + constructor.
Qed.
End DumbCrash.

Lemma idx_wf_nil len : idx_wf [] len.
Proof. constructor; simpl; try tauto. constructor. Qed.

(* what the next process reads for a key after a kill at any step of a session *)
Theorem dumb_crash_reads d0 dels sets k t :
  dumb_wf d0 -> NoDup (map fst sets) ->
  match dumb_read (dumb_crash d0 dels sets k) t with
  | DRefused => True                     (* the index does not parse: open() raises *)
  | DAbsent => True
  | DBytes b =>
      (exists old, dumb_read d0 t = DBytes old /\ (b = old \/ exists new, In (t, new) sets /\ b = torn old new)) \/
      (exists new, In (t, new) sets /\ b = new)
  end.
Proof.
  intros Hwf Hn.
  set (idx0 := match dk_dir d0 with Some (l, _) => l | None => [] end).
  assert (WF0 : idx_wf idx0 (length (dk_dat d0))).
  { unfold idx0, dumb_wf in *. destruct (dk_dir d0) as [[l tn]|]; [apply Hwf|apply idx_wf_nil]. }
  assert (Hdir : dk_dir d0 = Some (idx0, false) \/ (dk_dir d0 = None /\ idx0 = [])).
  { unfold idx0, dumb_wf in *. destruct (dk_dir d0) as [[l tn]|]; [left; destruct Hwf as [-> _]; reflexivity|right; auto]. }
  pose proof (dumb_crash_good idx0 (dk_dat d0) sets WF0 d0 dels k eq_refl Hdir Hn) as G.
  set (d := dumb_crash d0 dels sets k) in *.
  unfold dumb_read, dumb_open. unfold good in G.
  destruct (dk_dir d) as [[l [|]]|]; auto.
  destruct G as [Gn Gf]. cbn [m_index]. rewrite (dumb_load_id l Gn).
  destruct (lookup t l) as [e|] eqn:El; auto.
  destruct (lookup_Some _ _ _ El) as [Hin Hk]. rewrite Forall_forall in Gf. specialize (Gf e Hin).
  destruct Gf as [[Hi0 Hr]|(new & Hs & Hr)].
  - left. exists (rd e (dk_dat d0)). split.
    + destruct Hdir as [E|[E E0]]; [|rewrite E0 in Hi0; destruct Hi0].
      rewrite E. cbn [m_index]. rewrite (dumb_load_id idx0 (wf_nodup _ _ WF0)).
      rewrite (lookup_unique t idx0 e (wf_nodup _ _ WF0) Hi0 Hk). reflexivity.
    + rewrite Hk in Hr. exact Hr.
  - right. exists new. rewrite Hk in Hs. split; auto.
Qed.

(* with the decoder oracles: a key yields the old record, the new record, nothing, or an error *)
Section DumbRecords.
  Variable enc : trec -> bytes.
  Variable dec : bytes -> option trec.
  Hypothesis Rp : R_prefix enc dec.
  Hypothesis Rx : R_extra enc dec.

  Lemma torn_cases (old new : bytes) :
    torn old new = new \/ proper_prefix (torn old new) new \/
    (length new < length old /\ torn old new = new ++ skipn (length new) old).
  Proof.
    unfold torn. destruct (Nat.lt_trichotomy (length new) (length old)) as [H|[H|H]].
    - right. right. split; auto. rewrite firstn_all2; auto. rewrite app_length, skipn_length. lia.
    - left. rewrite skipn_all2 by lia. rewrite app_nil_r. rewrite <- H. apply firstn_all.
    - right. left. rewrite skipn_all2 by lia. rewrite app_nil_r.
      exists (skipn (length old) new). split; [|symmetry; apply firstn_skipn].
      intro Hc. apply (f_equal (@length N)) in Hc. rewrite skipn_length in Hc. simpl in Hc. lia.
  Qed.

  Theorem dumb_crash_records d0 dels (recs : list (N * trec)) k t :
    dumb_wf d0 -> NoDup (map fst recs) ->
    (forall b, dumb_read d0 t = DBytes b -> exists r, b = enc r) ->        (* what the DB held was written by doit *)
    let sets := map (fun kr => (fst kr, enc (snd kr))) recs in
    match dumb_record dec (dumb_crash d0 dels sets k) t with
    | RRefused => True
    | RAbsent => True
    | RRecord r => dumb_record dec d0 t = RRecord r \/ exists r', In (t, r') recs /\ dec (enc r') = Some r
    end.
  Proof.
    intros Hwf Hn Hold sets.
    assert (Hn' : NoDup (map fst sets)).
    { unfold sets. rewrite map_map. simpl. exact Hn. }
    pose proof (dumb_crash_reads d0 dels sets k t Hwf Hn') as H.
    unfold dumb_record. destruct (dumb_read (dumb_crash d0 dels sets k) t) as [| |b]; auto.
    destruct (dec b) as [r|] eqn:Ed; auto.
    assert (Hin : forall new, In (t, new) sets -> exists r', In (t, r') recs /\ new = enc r').
    { intros new Hi. unfold sets in Hi. apply in_map_iff in Hi. destruct Hi as ([t' r'] & E & Hi). simpl in E.
      inversion E; subst. exists r'. auto. }
    destruct H as [(old & Ho & [->|(new & Hs & ->)])|(new & Hs & ->)].
    - left. rewrite Ho, Ed. reflexivity.
    - destruct (Hin new Hs) as (r' & Hr' & ->). destruct (Hold old Ho) as (ro & ->).
      destruct (torn_cases (enc ro) (enc r')) as [E|[E|[E1 E2]]].
      + right. exists r'. split; auto. rewrite <- E. exact Ed.
      + rewrite (Rp r' _ E) in Ed. discriminate.
      + rewrite E2, (Rx r' ro E1) in Ed. discriminate.
    - destruct (Hin new Hs) as (r' & Hr' & ->). right. exists r'. auto.
  Qed.
End DumbRecords.

(* ---- structural well-formedness is preserved at every crash state (so the hypothesis dumb_wf of the theorems
   above holds for every disk reachable from the empty one by sessions that complete or are killed) ---- *)
Definition ewf (D : bytes) (e : entry) : Prop := e_pos e + e_siz e <= length D /\ e_end e <= roundup (length D).
Definition pw (S : list entry) : Prop :=
  forall e1 e2, In e1 S -> In e2 S -> e_key e1 <> e_key e2 -> e_end e1 <= e_pos e2 \/ e_end e2 <= e_pos e1.
Definition swf (D : bytes) (S : list entry) : Prop := Forall (ewf D) S /\ pw S.
Definition wfd (d : ddisk) : Prop := match dk_dir d with Some (l, _) => swf (dk_dat d) l | None => True end.
Definition SW (m : dmem) (d : ddisk) : Prop := swf (dk_dat d) (m_index m) /\ wfd d.
Definition all_wfd (d : ddisk) (st : list dstep) : Prop := forall k, wfd (crash_after dapply d st k).

Lemma all_wfd_nil d : wfd d -> all_wfd d [].
Proof. intros H k. unfold crash_after. rewrite firstn_nil. exact H. Qed.
Lemma all_wfd_cons d s st : wfd d -> all_wfd (dapply d s) st -> all_wfd d (s :: st).
Proof. intros H1 H2 [|k]; [exact H1|]. apply (H2 k). Qed.
Lemma all_wfd_app d s1 s2 : all_wfd d s1 -> all_wfd (dapply_all d s1) s2 -> all_wfd d (s1 ++ s2).
Proof. intros H1 H2 k. rewrite crash_after_app. destruct (k <=? length s1); [apply H1|apply H2]. Qed.

Lemma swf_nil D : swf D [].
Proof. split; [constructor|intros ? ? []]. Qed.
Lemma swf_incl D S S' : incl S' S -> swf D S -> swf D S'.
Proof.
  intros Hi [F P]. split.
  - rewrite Forall_forall in *. intros x Hx. apply F. apply Hi. exact Hx.
  - intros e1 e2 H1 H2. apply P; apply Hi; assumption.
Qed.
Lemma swf_grow D D' S : length D <= length D' -> swf D S -> swf D' S.
Proof.
  intros Hl [F P]. split; auto. eapply Forall_impl; [|exact F]. intros e [A B]. split; [lia|].
  pose proof (roundup_mono _ _ Hl). lia.
Qed.
Lemma swf_snoc D S e : swf D S -> ewf D e -> (forall x, In x S -> e_end x <= e_pos e) -> swf D (S ++ [e]).
Proof.
  intros [F P] He Hx. split; [apply Forall_app; split; auto|].
  intros e1 e2 H1 H2 Hk. apply in_app_or in H1. apply in_app_or in H2.
  destruct H1 as [H1|[<-|[]]], H2 as [H2|[<-|[]]]; auto; try congruence.
Qed.
Lemma swf_dict_set D S e e1 : lookup (e_key e) S = Some e1 -> swf D S -> ewf D e ->
  (forall x, In x S -> e_key x <> e_key e -> e_end x <= e_pos e \/ e_end e <= e_pos x) -> swf D (dict_set S e).
Proof.
  intros El [F P] He Hx. split.
  - rewrite Forall_forall in *. intros x Hi. destruct (dict_set_old_in _ _ _ _ El Hi) as [->|[Hi' _]]; auto.
  - intros x y Hx1 Hy1 Hk.
    destruct (dict_set_old_in _ _ _ _ El Hx1) as [->|[Hx2 Hx3]], (dict_set_old_in _ _ _ _ El Hy1) as [->|[Hy2 Hy3]]; auto; try congruence.
    + destruct (Hx y Hy2 Hy3); auto.
Qed.

Lemma idx_wf_swf l len D : length D = len -> idx_wf l len -> swf D l.
Proof.
  intros <- H. split.
  - rewrite Forall_forall. intros e He. split; [apply (wf_inb _ _ H); auto|apply (wf_end _ _ H); auto].
  - intros e1 e2 H1 H2 Hk. apply (wf_disj _ _ H); auto.
Qed.
Lemma swf_idx_wf l D : NoDup (map e_key l) -> swf D l -> idx_wf l (length D).
Proof.
  intros Hn [F P]. rewrite Forall_forall in F. constructor; auto; intros e He; apply (F e He).
Qed.

(* _commit *)
Lemma lines_wfd rest : forall d acc t0,
  dk_dir d = Some (acc, t0) -> swf (dk_dat d) (acc ++ rest) ->
  let st := flat_map (fun e => [SDirTear; SDirLine e]) rest in
  all_wfd d st /\ wfd (dapply_all d st) /\ dk_dat (dapply_all d st) = dk_dat d.
Proof.
  induction rest as [|e rest IH]; intros d acc t0 Hd Hs; cbv zeta.
  - simpl. rewrite app_nil_r in Hs. assert (W : wfd d) by (unfold wfd; rewrite Hd; exact Hs).
    split; [apply all_wfd_nil; exact W|]. split; auto.
  - assert (W : wfd d).
    { unfold wfd. rewrite Hd. eapply swf_incl; [|exact Hs]. intros x Hx. apply in_or_app. left. exact Hx. }
    set (d1 := dapply d SDirTear). set (d2 := dapply d1 (SDirLine e)).
    assert (E2 : dk_dir d2 = Some (acc ++ [e], false)) by (unfold d2, d1; simpl; rewrite Hd; reflexivity).
    assert (W1 : wfd d1) by (unfold wfd, d1; simpl; rewrite Hd; unfold wfd in W; rewrite Hd in W; exact W).
    destruct (IH d2 (acc ++ [e]) false E2) as (A & B & C).
    { change (dk_dat d2) with (dk_dat d). rewrite <- app_assoc. exact Hs. }
    change (flat_map (fun e0 => [SDirTear; SDirLine e0]) (e :: rest)) with
      (SDirTear :: SDirLine e :: flat_map (fun e0 => [SDirTear; SDirLine e0]) rest).
    split; [|split].
    + apply all_wfd_cons; auto. apply all_wfd_cons; auto.
    + exact B.
    + exact C.
Qed.

Lemma commit_wfd m d : SW m d -> all_wfd d (commit_steps m) /\ SW m (dapply_all d (commit_steps m)).
Proof.
  intros [Hs W]. unfold commit_steps. destruct (m_modified m).
  - set (d1 := dapply d SBakUnlink). set (d2 := dapply d1 SDirToBak). set (d3 := dapply d2 SDirCreate).
    assert (W1 : wfd d1) by exact W.
    assert (D2 : dk_dat d2 = dk_dat d) by (unfold d2, d1; simpl; destruct (dk_dir d); reflexivity).
    assert (W2 : wfd d2) by (unfold d2, d1; simpl; destruct (dk_dir d); unfold wfd; simpl; exact I).
    assert (W3 : wfd d3) by (unfold wfd, d3; simpl; apply swf_nil).
    destruct (lines_wfd (m_index m) d3 [] false eq_refl) as (A & B & C).
    { change (dk_dat d3) with (dk_dat d2). rewrite D2. exact Hs. }
    split.
    + apply all_wfd_cons; auto. apply all_wfd_cons; auto. apply all_wfd_cons; auto.
    + change (dapply_all d ([SBakUnlink; SDirToBak; SDirCreate] ++ flat_map (fun e => [SDirTear; SDirLine e]) (m_index m)))
        with (dapply_all d3 (flat_map (fun e => [SDirTear; SDirLine e]) (m_index m))).
      split; auto. rewrite C. change (dk_dat d3) with (dk_dat d2). rewrite D2. exact Hs.
  - split; [apply all_wfd_nil; exact W|]. split; auto.
Qed.

(* __setitem__ *)
Lemma wfd_dat d D' : length (dk_dat d) <= length D' -> wfd d ->
  wfd {| dk_dat := D'; dk_dir := dk_dir d; dk_bak := dk_bak d |}.
Proof.
  unfold wfd. simpl. destruct (dk_dir d) as [[l t0]|]; auto. intros Hl H. eapply swf_grow; eauto.
Qed.

Lemma setitem_wfd m d t new : SW m d ->
  all_wfd d (snd (setitem m d t new)) /\ SW (fst (setitem m d t new)) (dapply_all d (snd (setitem m d t new))).
Proof.
  intros [Hs W].
  set (D := dk_dat d). set (np := roundup (length D)). set (pad := repeat 0%N (np - length D)).
  set (d1 := dapply d (SDatWrite (length D) pad)). set (d2 := dapply d1 (SDatWrite np new)).
  assert (Lp : length (D ++ pad) = np).
  { rewrite app_length. unfold pad. rewrite repeat_length. pose proof (roundup_ge (length D)). fold np in H. lia. }
  assert (E1 : dk_dat d1 = D ++ pad) by (unfold d1; simpl; apply write_at_end).
  assert (E2 : dk_dat d2 = (D ++ pad) ++ new).
  { unfold d2. simpl. fold D. rewrite write_at_end. rewrite <- Lp. apply write_at_end. }
  assert (W1 : wfd d1).
  { unfold d1. simpl. fold D. rewrite write_at_end. apply wfd_dat; auto. fold D. rewrite app_length. lia. }
  assert (W2 : wfd d2).
  { unfold d2, d1. simpl. fold D. rewrite write_at_end. rewrite <- Lp at 1. rewrite write_at_end. apply wfd_dat; auto.
    fold D. rewrite !app_length. lia. }
  assert (Ed2 : dk_dir d2 = dk_dir d) by reflexivity.
  set (ea := {| e_key := t; e_pos := np; e_siz := length new |}).
  assert (Hea : ewf ((D ++ pad) ++ new) ea).
  { unfold ewf, e_end, ea. simpl. rewrite (app_length (D ++ pad)), Lp. split; [lia|].
    unfold np. rewrite roundup_aligned. lia. }
  assert (Hend : forall x, ewf D x -> e_end x <= e_pos ea) by (intros x [_ B]; exact B).
  assert (G2 : length D <= length ((D ++ pad) ++ new)) by (rewrite !app_length; lia).
  unfold setitem. unfold addval_steps, dlen. fold D np pad. fold ea.
  destruct (lookup t (m_index m)) as [e0|] eqn:El.
  - destruct (lookup_Some _ _ _ El) as [Hin0 Hk0].
    assert (He0 : ewf D e0) by (destruct Hs as [F _]; rewrite Forall_forall in F; apply F; exact Hin0).
    destruct (nblocks (length new) <=? nblocks (e_siz e0)) eqn:Eb; cbn [fst snd].
    + apply Nat.leb_le in Eb.
      set (ei := {| e_key := t; e_pos := e_pos e0; e_siz := length new |}).
      set (D' := write_at (e_pos e0) new D).
      destruct He0 as [B0 C0].
      assert (LenD' : length D <= length D' /\ e_pos e0 + length new <= length D').
      { unfold D'. rewrite write_at_length by lia. lia. }
      assert (Wd : wfd (dapply d (SDatWrite (e_pos e0) new))).
      { simpl. fold D D'. apply wfd_dat; auto. fold D. lia. }
      split; [apply all_wfd_cons; auto; apply all_wfd_nil; exact Wd|].
      split; [|exact Wd]. cbn [m_index dapply_all fold_left dapply dk_dat]. fold D D'.
      apply (swf_dict_set D' _ ei e0); [exact El|eapply swf_grow; [|exact Hs]; fold D; lia| |].
      * unfold ewf, ei, e_end in *. simpl. split; [lia|]. pose proof (roundup_mono _ _ (proj1 LenD')). unfold BLOCK in *. nia.
      * intros x Hx Hkx. destruct Hs as [_ P]. simpl in Hkx.
        destruct (P e0 x Hin0 Hx) as [H1|H1]; [congruence| |].
        -- right. unfold e_end, ei in *. simpl. unfold BLOCK in *. nia.
        -- left. exact H1.
    + split; [apply all_wfd_cons; auto; apply all_wfd_cons; auto; apply all_wfd_nil; exact W2|].
      change (dapply_all d [SDatWrite (length D) pad; SDatWrite np new]) with d2.
      split; [|exact W2]. cbn [m_index]. rewrite E2.
      apply (swf_dict_set _ _ ea e0); [exact El|eapply swf_grow; [|exact Hs]; exact G2|exact Hea|].
      intros x Hx _. left. apply Hend. destruct Hs as [F _]. rewrite Forall_forall in F. apply F. exact Hx.
  - cbn [fst snd].
    set (d3 := dapply d2 (SDirAppend ea)).
    assert (D3 : dk_dat d3 = (D ++ pad) ++ new) by (unfold d3; cbn [dapply dk_dat]; exact E2).
    assert (W3 : wfd d3).
    { unfold wfd. rewrite D3. unfold d3. cbn [dapply dk_dir]. rewrite Ed2. unfold wfd in W. fold D in W.
      destruct (dk_dir d) as [[l t0]|].
      - apply swf_snoc; [eapply swf_grow; [|exact W]; exact G2|exact Hea|].
        intros x Hx. apply Hend. destruct W as [F _]. rewrite Forall_forall in F. apply F. exact Hx.
      - apply (swf_snoc _ [] ea); [apply swf_nil|exact Hea|intros x []]. }
    change ([SDatWrite (length D) pad; SDatWrite np new] ++ [SDirAppend ea]) with [SDatWrite (length D) pad; SDatWrite np new; SDirAppend ea].
    split; [apply all_wfd_cons; auto; apply all_wfd_cons; auto; apply all_wfd_cons; auto; apply all_wfd_nil; exact W3|].
    change (dapply_all d [SDatWrite (length D) pad; SDatWrite np new; SDirAppend ea]) with d3.
    split; [|exact W3]. cbn [m_index]. rewrite D3.
    apply swf_snoc; [eapply swf_grow; [|exact Hs]; exact G2|exact Hea|].
    intros x Hx. apply Hend. destruct Hs as [F _]. rewrite Forall_forall in F. apply F. exact Hx.
Qed.

Lemma sets_wfd todo : forall m d, SW m d -> all_wfd d (sets_steps m d todo).
Proof.
  induction todo as [|[t new] todo IH]; intros m d H; cbn [sets_steps].
  - apply commit_wfd. exact H.
  - destruct (setitem_wfd m d t new H) as [A B]. destruct (setitem m d t new) as [m' st]. cbn [fst snd] in *.
    apply all_wfd_app; auto.
Qed.

Lemma dels_wfd dels sets : forall m d, SW m d -> all_wfd d (dels_steps m d dels sets).
Proof.
  induction dels as [|k dels IH]; intros m d H; cbn [dels_steps].
  - apply sets_wfd. exact H.
  - unfold delitem. destruct (lookup k (m_index m)).
    + set (m' := {| m_index := dict_del (m_index m) k; m_modified := true |}).
      assert (H' : SW m' d).
      { destruct H as [Hs W]. split; auto. eapply swf_incl; [|exact Hs]. intros x Hx. apply dict_del_in in Hx. tauto. }
      destruct (commit_wfd m' d H') as [A B]. apply all_wfd_app; auto.
    + simpl app. apply IH. exact H.
Qed.

(* every crash state of a session started on a well-formed disk has a torn index or is well-formed again *)
Theorem dumb_crash_wf d0 dels sets k :
  dumb_wf d0 -> NoDup (map fst sets) ->
  let d := dumb_crash d0 dels sets k in
  (exists l, dk_dir d = Some (l, true)) \/ dumb_wf d.
Proof.
  intros Hwf Hn d.
  set (idx0 := match dk_dir d0 with Some (l, _) => l | None => [] end).
  assert (WF0 : idx_wf idx0 (length (dk_dat d0))).
  { unfold idx0, dumb_wf in *. destruct (dk_dir d0) as [[l tn]|]; [apply Hwf|apply idx_wf_nil]. }
  assert (Hdir : dk_dir d0 = Some (idx0, false) \/ (dk_dir d0 = None /\ idx0 = [])).
  { unfold idx0, dumb_wf in *. destruct (dk_dir d0) as [[l tn]|]; [left; destruct Hwf as [-> _]; reflexivity|right; auto]. }
  pose proof (dumb_crash_good idx0 (dk_dat d0) sets WF0 d0 dels k eq_refl Hdir Hn) as G. fold d in G.
  assert (W : wfd d).
  { unfold d, dumb_crash, session_steps, dumb_open. destruct Hdir as [E|[E E0]]; rewrite E.
    - rewrite (dumb_load_id idx0 (wf_nodup _ _ WF0)). apply dels_wfd. split; cbn [m_index].
      + eapply idx_wf_swf; [reflexivity|exact WF0].
      + unfold wfd. rewrite E. eapply idx_wf_swf; [reflexivity|exact WF0].
    - apply dels_wfd. split; cbn [m_index]; [apply swf_nil|]. unfold wfd. rewrite E. exact I. }
  unfold good in G. unfold wfd in W. unfold dumb_wf.
  destruct (dk_dir d) as [[l [|]]|]; [left; eexists; reflexivity| |right; exact I].
  right. split; auto. apply swf_idx_wf; [apply G|exact W].
Qed.

(* hence: any sequence of sessions, each run to completion or killed at any step, starting from no files at all *)
Theorem reachable_wf d : reachable d -> (exists l, dk_dir d = Some (l, true)) \/ dumb_wf d.
Proof.
  induction 1 as [|d dels sets k _ _ Hw Hn]; [right; exact I|]. apply dumb_crash_wf; auto.
Qed.

(* ===================================================================================================== *)
(* (a) continued: the DB after an interrupted run                                                          *)
(* ===================================================================================================== *)
Lemma interrupt_no_save tasks wr cr cont alw fuel selected r k :
  serial tasks wr cr cont alw fuel (r_init selected) None = (r, StopInterrupt k) ->
  ~ In (ESave k) (r_tr r) /\ ~ In (ESuccess k) (r_tr r).
Proof.
  intro H. destruct (interrupt_flush _ _ _ _ _ _ _ _ _ H) as (pre & tds & E & _ & _ & _ & _ & N1 & N2).
  rewrite E. split; intro Hin; apply in_app_or in Hin; destruct Hin as [Hin|Hin]; try contradiction;
    simpl in Hin; destruct Hin as [Hin|[Hin|Hin]]; try discriminate;
    apply in_map_iff in Hin; destruct Hin as (x & Hx & _); discriminate.
Qed.

Theorem interrupt_db tasks wr cr cont alw fuel selected r k (recd : name -> list (N * Z)) (m : spec) :
  serial tasks wr cr cont alw fuel (r_init selected) None = (r, StopInterrupt k) ->
  let m' := exec spec_step m (db_ops recd (r_tr r)) in
  (has m' k = true -> has m k = true) /\
  (forall j, ~ In (ESave j) (r_tr r) -> has m' j = true -> has m j = true) /\
  (forall j, ~ In (ESave j) (r_tr r) -> ~ In (ERemove j) (r_tr r) -> m' j = m j) /\
  (forall j, In (ESave j) (r_tr r) -> ~ In (ERemove j) (r_tr r) -> recd j <> [] -> has m' j = true).
Proof.
  intros H m'. destruct (interrupt_no_save _ _ _ _ _ _ _ _ _ H) as [N1 _].
  split; [apply db_ops_unsaved; exact N1|]. split; [intros j; apply db_ops_unsaved|].
  split; [intros j; apply db_ops_untouched|intros j; apply db_ops_saved].
Qed.

(* the three backends answer in_(j) after (any history, then) the session exactly as the map does *)
Theorem session_backends (E F : Type) enc dec encdb decdb :
  codec_ok E enc dec -> dbcodec_ok F encdb decdb ->
  forall recd hist tr j,
    let ops := hist ++ db_ops recd tr ++ [In_ j] in
    let ans := OBool (has (exec spec_step (exec spec_step empty hist) (db_ops recd tr)) j) in
    last (run_json F encdb decdb ops) OUnit = ans /\
    last (run_dbm E enc dec false ops) OUnit = ans /\
    last (run_sqlite E enc dec false false ops) OUnit = ans.
Proof.
  intros H1 H2 recd hist tr j ops ans.
  rewrite (json_refines F encdb decdb H2), (dbm_refines E enc dec H1), (sqlite_refines E enc dec H1).
  unfold ops. rewrite spec_in_last, last_last. auto.
Qed.

(* the invariants of the serial runner (Proofs/RunnerP.v) are needed from here on *)
From DoitV Require Import DispatchP DispatchInv RunnerTr RunnerP.

(* ===================================================================================================== *)
(* (a) continued: the interrupted task was not reported -- and not removed -- before its execution started  *)
(* ===================================================================================================== *)
Section InterruptFresh.
Variable tasks : name -> option task.
Variable wake_rank : name -> name -> N.
Variable calc_rank : name -> N.
Variable continue_ always : bool.

Notation get_task := (get_task tasks).
Notation node_of := (node_of tasks).
Notation st_of := (st_of tasks).
Notation select_task := (select_task tasks continue_ always).
Notation process_result := (process_result tasks continue_).
Notation start_task := (start_task tasks).
Notation serial := (serial tasks wake_rank calc_rank continue_ always).
Notation RI := (RI tasks).
Notation XI := (XI tasks).
Notation Pre := (Pre tasks).
Notation fordered := (fordered tasks).
Notation cordered := (cordered tasks).

(* every remove_success in the trace belongs to a failure report of the same task *)
Definition paired (tr : list event) : Prop := forall j, In (ERemove j) tr -> finished_in tr j.

Lemma paired_app tr l : paired tr -> (forall j, In (ERemove j) l -> existsb (is_final_ev j) l = true) -> paired (tr ++ l).
Proof.
  intros P H j Hin. apply in_app_or in Hin. destruct Hin as [Hin|Hin].
  - apply finished_in_app. apply P. exact Hin.
  - apply finished_in_app_r. apply H. exact Hin.
Qed.

Ltac removes_paired :=
  let j := fresh "j" in let Hin := fresh "Hin" in
  intros j Hin; simpl in Hin;
  repeat (destruct Hin as [Hin|Hin];
          [try discriminate; inversion Hin; subst; simpl; rewrite ?N.eqb_refl, ?orb_true_r; reflexivity|]);
  contradiction.

Lemma select_task_removes r k b r1 :
  select_task r k = (b, r1) ->
  exists l, r_tr r1 = r_tr r ++ l /\ forall j, In (ERemove j) l -> existsb (is_final_ev j) l = true.
Proof.
  unfold Runner.select_task, get_args, Runner.handle_error, Runner.handle_error_gen, emit, with_d. intro H.
  repeat match type of H with
         | context [if ?c then _ else _] => destruct c
         | context [match ?x with _ => _ end] => destruct x
         end;
    inversion H; subst; clear H; cbn [r_tr r_td r_d];
    eexists; (split; [rewrite <- ?app_assoc; try reflexivity; rewrite app_nil_r; reflexivity |]);
    removes_paired.
Qed.

Lemma process_result_removes r k :
  exists l, r_tr (process_result r k) = r_tr r ++ l /\ forall j, In (ERemove j) l -> existsb (is_final_ev j) l = true.
Proof.
  unfold Runner.process_result, Runner.handle_error, Runner.handle_error_gen, emit, with_d.
  destruct (t_outcome (get_task k)); cbn [r_tr];
    eexists; (split; [try reflexivity; rewrite app_nil_r; reflexivity|]); removes_paired.
Qed.

Lemma serial_interrupt_fresh fuel : forall r last,
  RI (r_d r) (r_tr r) -> XI (r_d r) (r_tr r) -> fordered (r_tr r) -> cordered (r_tr r) -> Pre (r_d r) ->
  (forall k, last = Some k -> st_of (r_d r) k <> SNone) -> paired (r_tr r) ->
  forall r' k0, serial fuel r last = (r', StopInterrupt k0) ->
  exists pre, r_tr r' = pre ++ [EExecute k0] ++ EClose :: map ETeardown (rev (r_td r')) /\
              paired pre /\ ~ finished_in pre k0.
Proof.
  induction fuel as [|fuel IH]; intros r last HR HX HF HC HP Hl HQ r' k0 H; cbn [Runner.serial] in H.
  { discriminate. }
  destruct (r_stop r). { discriminate. }
  destruct (disp_send tasks wake_rank calc_rank (S fuel) (r_d r) last) as [y d] eqn:Ed.
  pose proof (disp_send_spec tasks wake_rank calc_rank _ _ _ _ _ (ri_inv _ _ _ HR) HP (ri_res _ _ _ HR) (ri_q _ _ _ HR) Hl Ed) as Hpost.
  pose proof (RI_disp _ _ _ _ _ HR Hpost) as HR'.
  assert (HX' : XI d (r_tr r)).
  { eapply XI_pc; [exact HX|]. destruct Hpost as (_ & _ & _ & _ & _ & Sp & _). exact Sp. }
  destruct y as [k| | |path|]; try discriminate.
  destruct (handed_of_post _ _ _ _ Hpost) as (HK & Hcur & Hns).
  destruct (select_task (with_d r d) k) as [b r1] eqn:Es.
  pose proof (select_task_post _ _ _ (with_d r d) k b r1 HR' HK Es) as (R1 & P1 & S1 & Pc1 & C1 & D1 & T1 & O1).
  pose proof (select_task_execs tasks continue_ always _ _ _ _ Es) as Ex1. simpl in Ex1.
  assert (X1 : XI (r_d r1) (r_tr r1)).
  { destruct HX' as [xa xb]. split; rewrite Ex1; auto. intros z Hz. eapply spent_pc; [apply Pc1|]. apply xa. exact Hz. }
  assert (Hd12 : forall x, In x (deps12 tasks k) -> finished_in (r_tr r) x).
  { intros x Hx. apply (ri_link _ _ _ HR'). eapply handed_static_final; eauto. apply (ri_static _ _ _ HR'). }
  assert (F1 : fordered (r_tr r1)).
  { destruct (select_task_about tasks continue_ always _ _ _ _ Es) as [evs [Eq Ha]]. simpl in Eq. rewrite Eq.
    eapply fordered_app_about; eauto. }
  assert (C1' : cordered (r_tr r1)).
  { destruct (select_task_about tasks continue_ always _ _ _ _ Es) as [evs [Eq Ha]]. simpl in Eq. rewrite Eq.
    apply cordered_app_noexec; auto. eapply about_noexec; eauto. }
  assert (Q1 : paired (r_tr r1)).
  { destruct (select_task_removes _ _ _ _ Es) as (l & El & Hl1). simpl in El. rewrite El. apply paired_app; auto. }
  destruct b.
  - assert (R2 : RI (r_d (start_task r1 k)) (r_tr (start_task r1 k))) by (apply start_task_RI; auto).
    assert (C2 : cordered (r_tr (start_task r1 k))).
    { unfold Runner.start_task. simpl. constructor; auto. intros t Et x Hx. inversion Et; subst.
      apply (select_true_good _ _ _ (with_d r d) t r1 HR' HK Es x Hx). }
    assert (F2 : fordered (r_tr (start_task r1 k))).
    { unfold Runner.start_task. simpl. apply fordered_app_nofinal; auto. intros e k1 [<-|[]]. reflexivity. }
    assert (Hk : ~ In k (execs (r_tr r))) by (intro Hx; apply Hns; apply (xi_spent _ _ _ HX); exact Hx).
    assert (X2 : XI (r_d (start_task r1 k)) (r_tr (start_task r1 k))).
    { unfold Runner.start_task. simpl. destruct X1 as [xa xb]. split; rewrite execs_app; simpl.
      - intros z Hz. apply in_app_iff in Hz. destruct Hz as [Hz|[<-|[]]]; auto.
        apply (select_true_spent _ _ _ (with_d r d) k r1 HR' HK Es).
      - rewrite Ex1 in *. apply NoDup_snoc; auto. }
    destruct (is_interrupt tasks k) eqn:Ei.
    + cbv zeta in H. inversion H; subst. exists (r_tr r1). split; [|split; [exact Q1|]].
      * unfold finish, emit, Runner.start_task. simpl. rewrite <- app_assoc. reflexivity.
      * intro Hf. pose proof (ri_link2 _ _ _ R1 _ Hf) as Hfin. unfold DispatchInv.final in Hfin.
        destruct (T1 eq_refl) as [Hrun _]. rewrite Hrun in Hfin. discriminate.
    + cbv zeta in H.
      assert (He2 : early (n_pc (node_of (r_d (start_task r1 k)) k)) = false).
      { unfold Runner.start_task. simpl. rewrite Pc1. apply (handed_early _ _ _ HK). }
      assert (HPx2 : PreX tasks (r_d (start_task r1 k)) k).
      { unfold Runner.start_task. simpl. intros z Hz Hpc. apply P1. exact Hpc. }
      assert (Hns2 : in_setup (n_pc (node_of (r_d (start_task r1 k)) k)) = false).
      { unfold Runner.start_task. simpl. rewrite Pc1. apply (handed_in_setup _ _ _ HK). }
      assert (Hst2 : st_of (r_d (start_task r1 k)) k = SRun) by (unfold Runner.start_task; simpl; apply (T1 eq_refl)).
      destruct (process_result_post _ continue_ (start_task r1 k) k R2 He2 HPx2 Hns2 Hst2) as [(R3 & P3 & S3)|Hint].
      * eapply IH; [| | | | | | |exact H]; auto.
        -- destruct X2 as [xa xb]. split; rewrite process_result_execs; auto.
           intros z Hz. eapply spent_pc; [apply process_result_pc|]. apply xa. exact Hz.
        -- destruct (process_result_about tasks continue_ (start_task r1 k) k) as [evs [Eq Ha]]. rewrite Eq.
           eapply fordered_app_about; eauto. intros x Hx. unfold Runner.start_task. simpl.
           apply finished_in_app. apply D1; auto. unfold static_deps. unfold deps12 in Hx.
           rewrite app_assoc. apply in_app_iff. left. exact Hx.
        -- destruct (process_result_about tasks continue_ (start_task r1 k) k) as [evs [Eq Ha]]. rewrite Eq.
           apply cordered_app_noexec; auto. eapply about_noexec; eauto.
        -- intros k' E. inversion E; subst. exact S3.
        -- destruct (process_result_removes (start_task r1 k) k) as (l & El & Hl1). rewrite El. apply paired_app; auto.
           unfold Runner.start_task. simpl. apply paired_app; auto. intros j [Hj|[]]. discriminate.
      * unfold Runner.is_interrupt in Ei. rewrite Hint in Ei. discriminate.
  - eapply IH; [| | | | | | |exact H]; auto. intros k' E. inversion E; subst. exact S1.
Qed.

Theorem interrupt_not_removed fuel selected r k :
  serial fuel (r_init selected) None = (r, StopInterrupt k) ->
  ~ In (ERemove k) (r_tr r) /\ ~ In (ESave k) (r_tr r) /\ (forall kd, ~ In (EFailure k kd) (r_tr r)).
Proof.
  intro H. destruct (interrupt_no_save _ _ _ _ _ _ _ _ _ H) as [N1 _].
  apply serial_interrupt_fresh in H.
  - destruct H as (pre & E & Q & Hf).
    assert (Hsuf : forall e, In e (r_tr r) -> In e pre \/ e = EExecute k \/ e = EClose \/ exists t, e = ETeardown t).
    { intros e Hin. rewrite E in Hin. apply in_app_or in Hin. destruct Hin as [Hin|Hin]; auto.
      simpl in Hin. destruct Hin as [Hin|[Hin|Hin]]; auto. apply in_map_iff in Hin. destruct Hin as (t & <- & _). eauto. }
    split; [|split; [exact N1|]].
    + intro Hin. apply Hsuf in Hin. destruct Hin as [Hin|[Hin|[Hin|[t Hin]]]]; try discriminate. apply Hf. apply Q. exact Hin.
    + intros kd Hin. apply Hsuf in Hin. destruct Hin as [Hin|[Hin|[Hin|[t Hin]]]]; try discriminate.
      apply Hf. apply finished_in_In. exists (EFailure k kd). split; auto. simpl. apply N.eqb_refl.
  - apply RI_init.
  - apply XI_init.
  - constructor.
  - constructor.
  - intros z Hz. simpl in Hz. discriminate.
  - intros k' E'. discriminate.
  - intros j [].
Qed.
End InterruptFresh.

(* hence the record of the interrupted task is, key by key, the record found before the run *)
Theorem interrupt_record_untouched tasks wr cr cont alw fuel selected r k (recd : name -> list (N * Z)) (m : spec) :
  serial tasks wr cr cont alw fuel (r_init selected) None = (r, StopInterrupt k) ->
  session_db recd m (r_tr r) k = m k.
Proof.
  intro H. destruct (interrupt_not_removed _ _ _ _ _ _ _ _ _ H) as (A & B & _).
  unfold session_db. apply db_ops_untouched; assumption.
Qed.
