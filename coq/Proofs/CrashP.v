(* CrashP.v -- proofs about Model/Crash.v (property C06).
   (a) the interrupted serial run still flushes the DB, and the DB gains no record without a save;
   (b) crash states of JsonDB.dump, SqliteDB.dump and of a dbm.dumb session. *)
From Coq Require Import ZifyBool.
From DoitV Require Import Base Dispatch Backends Runner Crash BackendsP.
Local Open Scope nat_scope.

(* ===================================================================================================== *)
(* (a) interrupt half                                                                                     *)
(* ===================================================================================================== *)
Section Interrupt.
Variable tasks : name -> option task.
Variable wake_rank : name -> name -> N.
Variable calc_rank : name -> N.
Variable continue_ always : bool.

Notation get_task := (get_task tasks).
Notation select_task := (select_task tasks continue_ always).
Notation handle_error := (handle_error tasks continue_).
Notation process_result := (process_result tasks continue_).
Notation start_task := (start_task tasks).
Notation serial := (serial tasks wake_rank calc_rank continue_ always).

(* events of select_task and of failures: they never touch a success *)
Definition quiet (e : event) : Prop :=
  match e with
  | EGetStatus _ | ESkipIgnore _ | ESkipUpToDate _ | ERemove _ | EFailure _ _ => True
  | _ => False
  end.

(* the part of a trace before finish(): quiet events, and one block per task whose actions finished *)
Inductive body : list event -> Prop :=
| body_nil : body []
| body_quiet e tr : quiet e -> body tr -> body (tr ++ [e])
| body_ok k tr : t_outcome (get_task k) = OOk -> body tr -> body (tr ++ [EExecute k; ESave k; ESuccess k])
| body_bad k kd tr : t_outcome (get_task k) <> OOk -> body tr -> body (tr ++ [EExecute k; ERemove k; EFailure k kd]).

Lemma body_app_quiet tr l : body tr -> Forall quiet l -> body (tr ++ l).
Proof.
  intros Hb Hl. revert tr Hb. induction Hl as [|e l He Hl IH]; intros tr Hb.
  - rewrite app_nil_r. exact Hb.
  - replace (tr ++ e :: l) with ((tr ++ [e]) ++ l) by (rewrite <- app_assoc; reflexivity).
    apply IH. apply body_quiet; auto.
Qed.

Lemma handle_error_tr r k kd : r_tr (handle_error r k kd) = r_tr r ++ [ERemove k; EFailure k kd].
Proof. reflexivity. Qed.
Lemma handle_error_td r k kd : r_td (handle_error r k kd) = r_td r.
Proof. reflexivity. Qed.

Lemma body_handle_error r k kd : body (r_tr r) -> body (r_tr (handle_error r k kd)).
Proof. intro H. rewrite handle_error_tr. apply body_app_quiet; auto. repeat constructor. Qed.

(* select_task only adds quiet events and leaves the teardown list alone *)
Lemma select_task_spec r k b r1 :
  select_task r k = (b, r1) ->
  exists l, r_tr r1 = r_tr r ++ l /\ Forall quiet l /\ r_td r1 = r_td r.
Proof.
  unfold Runner.select_task, get_args, Runner.handle_error, emit, with_d. intro H.
  repeat match type of H with
         | context [if ?c then _ else _] => destruct c
         | context [match ?x with _ => _ end] => destruct x
         end;
    inversion H; subst; clear H; cbn [r_tr r_td r_d];
    eexists; (split; [rewrite <- ?app_assoc; try reflexivity; rewrite app_nil_r; reflexivity |]);
    (split; [repeat constructor | reflexivity]).
Qed.

Lemma select_task_body r k b r1 : select_task r k = (b, r1) -> body (r_tr r) -> body (r_tr r1) /\ r_td r1 = r_td r.
Proof.
  intros H Hb. destruct (select_task_spec _ _ _ _ H) as (l & E & Q & T). split; auto.
  rewrite E. apply body_app_quiet; auto.
Qed.

Lemma process_result_body r k :
  t_outcome (get_task k) <> OInterrupt -> body (r_tr r) ->
  body (r_tr (process_result (start_task r k) k)) /\ r_td (process_result (start_task r k) k) = r_td (start_task r k).
Proof.
  intros Hn Hb. unfold Runner.process_result.
  destruct (t_outcome (get_task k)) eqn:E; try congruence.
  - split; [|reflexivity]. cbn [r_tr emit with_d Runner.start_task].
    rewrite <- app_assoc. apply body_ok; auto.
  - split; [|reflexivity]. rewrite handle_error_tr. cbn [r_tr Runner.start_task]. rewrite <- app_assoc.
    apply body_bad; auto. congruence.
  - split; [|reflexivity]. rewrite handle_error_tr. cbn [r_tr Runner.start_task]. rewrite <- app_assoc.
    apply body_bad; auto. congruence.
  - split; [|reflexivity]. rewrite handle_error_tr. cbn [r_tr Runner.start_task]. rewrite <- app_assoc.
    apply body_bad; auto. congruence.
Qed.

Lemma is_interrupt_spec k : is_interrupt tasks k = true <-> t_outcome (get_task k) = OInterrupt.
Proof. unfold is_interrupt. destruct (t_outcome (get_task k)); split; congruence. Qed.

Definition flushed (s : stop) (r' : rstate) : Prop :=
  match s with
  | StopFuel => True
  | StopInterrupt k =>
      exists b, body b /\ t_outcome (get_task k) = OInterrupt /\
                r_tr r' = b ++ [EExecute k] ++ EClose :: map ETeardown (rev (r_td r'))
  | _ => exists b, body b /\ r_tr r' = b ++ EClose :: map ETeardown (rev (r_td r'))
  end.

Lemma finish_tr r : r_tr (finish r) = r_tr r ++ EClose :: map ETeardown (rev (r_td r)).
Proof. reflexivity. Qed.

Lemma serial_spec fuel : forall r last r' s,
  body (r_tr r) -> serial fuel r last = (r', s) -> flushed s r'.
Proof.
  induction fuel as [|fuel IH]; intros r last r' s Hb H; cbn [Runner.serial] in H.
  { inversion H; subst. exact I. }
  destruct (r_stop r).
  { inversion H; subst. simpl. exists (r_tr r). split; auto. }
  destruct (disp_send tasks wake_rank calc_rank (S fuel) (r_d r) last) as [y d].
  destruct y as [k| | |p|].
  - destruct (select_task (with_d r d) k) as [b r1] eqn:Es.
    destruct (select_task_body _ _ _ _ Es Hb) as [Hb1 Ht1].
    destruct b.
    + destruct (is_interrupt tasks k) eqn:Ei.
      * cbv zeta in H. inversion H; subst. apply is_interrupt_spec in Ei. simpl.
        exists (r_tr r1). split; auto. split; auto. rewrite <- app_assoc. reflexivity.
      * cbv zeta in H. eapply IH; [|exact H].
        apply process_result_body; auto. intro Hc. apply is_interrupt_spec in Hc. congruence.
    + eapply IH; eauto.
  - inversion H; subst. simpl. exists (r_tr r). split; auto.
  - inversion H; subst. simpl. exists (r_tr r). split; auto.
  - inversion H; subst. simpl. exists (r_tr r). split; auto.
  - inversion H; subst. exact I.
Qed.

(* ---- what a body says about saves and successes ---- *)
Definition not_finish (e : event) : Prop :=
  match e with EClose | ETeardown _ | EInterrupt _ => False | _ => True end.
Lemma body_not_finish b : body b -> Forall not_finish b.
Proof.
  induction 1 as [|e tr Q _ IH|k tr _ _ IH|k kd tr _ _ IH]; [constructor| | |]; apply Forall_app; split; auto.
  - constructor; [|constructor]. destruct e; simpl in *; auto.
  - repeat constructor.
  - repeat constructor.
Qed.
Lemma body_no_finish b : body b -> ~ In EClose b /\ (forall j, ~ In (ETeardown j) b) /\ (forall j, ~ In (EInterrupt j) b).
Proof.
  intro Hb. pose proof (body_not_finish b Hb) as F. rewrite Forall_forall in F.
  split; [|split; intro j]; intro Hin; apply F in Hin; exact Hin.
Qed.

Lemma body_saved b : body b -> forall j, In (ESave j) b \/ In (ESuccess j) b ->
  t_outcome (get_task j) = OOk /\ exists a c, b = a ++ EExecute j :: ESave j :: ESuccess j :: c.
Proof.
  induction 1 as [|e tr Q _ IH|k tr Ok _ IH|k kd tr _ _ IH]; intros j Hin.
  - simpl in Hin. tauto.
  - assert (Hin' : In (ESave j) tr \/ In (ESuccess j) tr).
    { destruct Hin as [Hin|Hin]; apply in_app_or in Hin; destruct Hin as [Hin|Hin]; auto;
        simpl in Hin; destruct Hin as [Hin|[]]; subst e; simpl in Q; contradiction. }
    destruct (IH j Hin') as (A & a & c & E). split; auto. exists a, (c ++ [e]). rewrite E. rewrite <- app_assoc. reflexivity.
  - assert (Hin' : In (ESave j) tr \/ In (ESuccess j) tr \/ j = k).
    { destruct Hin as [Hin|Hin]; apply in_app_or in Hin; destruct Hin as [Hin|Hin]; auto;
        simpl in Hin; repeat (destruct Hin as [Hin|Hin]; [try discriminate; inversion Hin; auto|]); contradiction. }
    destruct Hin' as [H1|[H1| ->]].
    + destruct (IH j (or_introl H1)) as (A & a & c & E). split; auto. exists a, (c ++ [EExecute k; ESave k; ESuccess k]).
      rewrite E. rewrite <- app_assoc. reflexivity.
    + destruct (IH j (or_intror H1)) as (A & a & c & E). split; auto. exists a, (c ++ [EExecute k; ESave k; ESuccess k]).
      rewrite E. rewrite <- app_assoc. reflexivity.
    + split; auto. exists tr, []. reflexivity.
  - assert (Hin' : In (ESave j) tr \/ In (ESuccess j) tr).
    { destruct Hin as [Hin|Hin]; apply in_app_or in Hin; destruct Hin as [Hin|Hin]; auto;
        simpl in Hin; repeat (destruct Hin as [Hin|Hin]; [discriminate|]); contradiction. }
    destruct (IH j Hin') as (A & a & c & E). split; auto. exists a, (c ++ [EExecute k; ERemove k; EFailure k kd]).
    rewrite E. rewrite <- app_assoc. reflexivity.
Qed.

(* the theorem of the interrupt half *)
Theorem interrupt_flush fuel selected r k :
  serial fuel (r_init selected) None = (r, StopInterrupt k) ->
  exists pre tds,
    r_tr r = pre ++ [EExecute k] ++ EClose :: map ETeardown tds /\
    t_outcome (get_task k) = OInterrupt /\
    ~ In EClose pre /\ (forall j, ~ In (ETeardown j) pre) /\
    (forall j, In (ESave j) pre \/ In (ESuccess j) pre ->
               t_outcome (get_task j) = OOk /\ exists a c, pre = a ++ EExecute j :: ESave j :: ESuccess j :: c) /\
    ~ In (ESave k) pre /\ ~ In (ESuccess k) pre.
Proof.
  intro H. apply serial_spec in H; [|constructor]. destruct H as (b & Hb & Ho & Et).
  exists b, (rev (r_td r)). split; auto. split; auto.
  destruct (body_no_finish b Hb) as (A & B & _). split; auto. split; auto.
  split; [apply body_saved; auto|].
  split; intro Hin; [destruct (body_saved b Hb k (or_introl Hin)) as [X _] | destruct (body_saved b Hb k (or_intror Hin)) as [X _]]; congruence.
Qed.

(* every way a serial run ends (except running out of fuel) flushes the DB, once, before the teardowns *)
Theorem always_flushed fuel selected r s :
  serial fuel (r_init selected) None = (r, s) -> s <> StopFuel ->
  exists pre tds, r_tr r = pre ++ EClose :: map ETeardown tds /\ ~ In EClose pre /\
    (forall j, In (ESave j) pre \/ In (ESuccess j) pre ->
               t_outcome (get_task j) = OOk /\ exists a c, pre = a ++ EExecute j :: ESave j :: ESuccess j :: c).
Proof.
  intros H Hs. apply serial_spec in H; [|constructor].
  destruct s; try congruence; cbn [flushed] in H.
  - destruct H as (b & Hb & Et). exists b, (rev (r_td r)). split; auto. split; [apply body_no_finish; auto|apply body_saved; auto].
  - destruct H as (b & Hb & Et). exists b, (rev (r_td r)). split; auto. split; [apply body_no_finish; auto|apply body_saved; auto].
  - destruct H as (b & Hb & Et). exists b, (rev (r_td r)). split; auto. split; [apply body_no_finish; auto|apply body_saved; auto].
  - destruct H as (b & Hb & Ho & Et). exists (b ++ [EExecute k]), (rev (r_td r)).
    split; [rewrite Et, <- app_assoc; reflexivity|].
    assert (Hb' : body (b ++ [EExecute k]) \/ True) by auto.
    split.
    + intro Hin. apply in_app_or in Hin. destruct Hin as [Hin|Hin]; [apply (body_no_finish b Hb); auto|].
      simpl in Hin. destruct Hin as [Hin|[]]. discriminate.
    + intros j Hin.
      assert (Hin' : In (ESave j) b \/ In (ESuccess j) b).
      { destruct Hin as [Hin|Hin]; apply in_app_or in Hin; destruct Hin as [Hin|Hin]; auto; simpl in Hin; destruct Hin as [Hin|[]]; discriminate. }
      destruct (body_saved b Hb j Hin') as (A & a & c & E). split; auto. exists a, (c ++ [EExecute k]). rewrite E, <- app_assoc. reflexivity.
Qed.
End Interrupt.

(* ---- the session as backend operations: the DB gains a record only through a save ---- *)
Section SessionDB.
Variable recd : name -> list (N * Z).
Notation ops_of := (db_ops recd).

Lemma exec_sets_other (t : N) (l : list (N * Z)) : forall (m : spec) j, j <> t ->
  exec spec_step m (map (fun kv => Set_ t (fst kv) (snd kv)) l) j = m j.
Proof.
  induction l as [|kv l IH]; intros m j Hj; simpl; auto.
  rewrite IH; auto. unfold upd. apply N.eqb_neq in Hj. rewrite Hj. reflexivity.
Qed.
Lemma exec_sets_has (t : N) (l : list (N * Z)) : forall (m : spec),
  has m t = true \/ l <> [] -> has (exec spec_step m (map (fun kv => Set_ t (fst kv) (snd kv)) l)) t = true.
Proof.
  induction l as [|kv l IH]; intros m H; simpl.
  - destruct H as [H|H]; auto. congruence.
  - apply IH. left. unfold has, upd. rewrite N.eqb_refl. reflexivity.
Qed.

Lemma ops_cons e tr : ops_of (e :: tr) = event_ops recd e ++ ops_of tr.
Proof. reflexivity. Qed.

Lemma db_ops_untouched tr : forall (m : spec) j, ~ In (ESave j) tr -> ~ In (ERemove j) tr ->
  exec spec_step m (ops_of tr) j = m j.
Proof.
  induction tr as [|e tr IH]; intros m j Hs Hr; auto.
  rewrite ops_cons, exec_app. rewrite IH; [| intro; apply Hs; right; auto | intro; apply Hr; right; auto].
  destruct e; simpl; auto.
  - apply exec_sets_other. intros ->. apply Hs. left. reflexivity.
  - unfold del. destruct (N.eqb_spec j k); auto. subst. exfalso. apply Hr. left. reflexivity.
Qed.

Lemma db_ops_unsaved tr : forall (m : spec) j, ~ In (ESave j) tr ->
  has (exec spec_step m (ops_of tr)) j = true -> has m j = true.
Proof.
  induction tr as [|e tr IH]; intros m j Hs H; auto.
  rewrite ops_cons, exec_app in H. apply IH in H; [| intro; apply Hs; right; auto].
  destruct e; simpl in H; auto.
  - unfold has in *. rewrite exec_sets_other in H; auto. intros ->. apply Hs. left. reflexivity.
  - unfold has, del in *. destruct (N.eqb j k); auto. discriminate.
Qed.

Lemma db_ops_kept tr : forall (m : spec) j, has m j = true -> ~ In (ERemove j) tr ->
  has (exec spec_step m (ops_of tr)) j = true.
Proof.
  induction tr as [|e tr IH]; intros m j H Hr; auto.
  rewrite ops_cons, exec_app. apply IH; [| intro; apply Hr; right; auto].
  destruct e; simpl; auto.
  - destruct (N.eqb_spec j k) as [->|Hne].
    + apply exec_sets_has. auto.
    + unfold has in *. rewrite exec_sets_other; auto.
  - unfold has, del in *. destruct (N.eqb_spec j k); auto. subst. exfalso. apply Hr. left. reflexivity.
Qed.

Lemma db_ops_saved tr : forall (m : spec) j, In (ESave j) tr -> ~ In (ERemove j) tr -> recd j <> [] ->
  has (exec spec_step m (ops_of tr)) j = true.
Proof.
  induction tr as [|e tr IH]; intros m j Hs Hr Hn; [contradiction|].
  rewrite ops_cons, exec_app.
  destruct Hs as [->|Hs].
  - apply db_ops_kept; [| intro; apply Hr; right; auto]. simpl. apply exec_sets_has. auto.
  - apply IH; auto. intro; apply Hr; right; auto.
Qed.

(* the answer of in_(j) after any history followed by the session, for the map and (C07) for every backend *)
Lemma spec_in_last (hist ops : list op) j :
  run_spec (hist ++ ops ++ [In_ j]) =
  run_spec (hist ++ ops) ++ [OBool (has (exec spec_step (exec spec_step empty hist) ops) j)].
Proof.
  unfold run_spec. rewrite app_assoc, run_app. simpl. rewrite exec_app. reflexivity.
Qed.
End SessionDB.

(* nothing reaches the file of JsonDB / the committed table of SqliteDB before dump; DbmDB writes removes at once *)
Section Frames.
Variable E F : Type.
Variable enc : trec -> E. Variable dec : E -> trec.
Variable encdb : tmap -> F. Variable decdb : F -> tmap.

Lemma json_file_frame ops : forall s, ~ In Reopen ops ->
  j_file F (exec (json_step F encdb decdb) s ops) = j_file F s.
Proof.
  induction ops as [|o ops IH]; intros s Hn; auto. simpl.
  rewrite IH; [| intro; apply Hn; right; auto].
  destruct o; simpl; auto. exfalso. apply Hn. left. reflexivity.
Qed.

Lemma sqlite_disk_frame lg ls ops : forall s, ~ In Reopen ops ->
  q_disk E (exec (sq_step E enc dec lg ls) s ops) = q_disk E s.
Proof.
  induction ops as [|o ops IH]; intros s Hn; auto. simpl.
  rewrite IH; [| intro; apply Hn; right; auto].
  destruct o; simpl; auto.
  - unfold sq_get. destruct (q_cache E s t); auto. destruct (sq_data E dec s t); auto. destruct lg; auto.
  - exfalso. apply Hn. left. reflexivity.
Qed.

Definition no_dbm_write (o : op) : Prop := match o with Remove _ | RemoveAll | Reopen => False | _ => True end.
Lemma dbm_file_frame lg ops : forall s, Forall no_dbm_write ops ->
  d_dbm E (exec (dbm_step E enc dec lg) s ops) = d_dbm E s.
Proof.
  induction ops as [|o ops IH]; intros s Hn; auto. simpl. inversion Hn; subst.
  rewrite IH; auto.
  destruct o; simpl in *; try contradiction; auto.
  - unfold dbm_set. destruct (has (d_db E s) t); auto. destruct lg; auto. simpl.
    unfold dbm_get. destruct (d_db E s t); auto. destruct (d_dbm E s t); auto.
  - unfold dbm_get. destruct (d_db E s t); auto. destruct (d_dbm E s t); auto.
Qed.
End Frames.
