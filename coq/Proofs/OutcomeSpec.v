(* OutcomeSpec.v -- a declarative specification of the per-task OUTCOME of a run, as a relation over
   the task table (and the `always` flag) alone: no dispatcher, no runner, no schedule, no fuel.

   [fin tasks always k r]: task k, if it gets a final report at all, gets report r
     FIgnore -> reporter.skip_ignore, FUpToDate -> skip_uptodate, FSuccess -> add_success,
     FFail v kind -> add_failure with that kind (v: task.values were set, i.e. run_status 'failure'
     of a task whose actions all ran: SFailureV in Model/Dispatch.v -- visible to tasks that use
     it as a calc_dep).
   The rules are those of Runner.select_task / process_task_result, stated over the final outcomes
   of the task's EFFECTIVE dependencies [vdep]: task_dep, calc_dep and what the calc_dep tasks whose
   values are visible return (transitively); setup-tasks only matter once the first selection
   decided `run`.

   Also here: an executable version [fin_fun] (fuelled; used to validate the specification against
   run_serial / run_parallel in OutcomeSpecEx.v) and the proof that [fin] is a partial function
   (no hypothesis on the table is needed: a derivation is a well-founded tree, so a task on a
   dependency cycle simply has no derivation). *)
From DoitV Require Import Base Dispatch Runner DispatchInv RunnerP.
Open Scope N_scope.

Inductive fres := FIgnore | FUpToDate | FSuccess | FFail (values : bool) (kind : N).

Definition fres_status (r : fres) : status :=
  match r with
  | FIgnore => SIgnore | FUpToDate => SUpToDate | FSuccess => SSuccess
  | FFail false _ => SFailure | FFail true _ => SFailureV end.

(* the final report that stands for an outcome *)
Definition ev_of (k : name) (r : fres) : event :=
  match r with
  | FIgnore => ESkipIgnore k | FUpToDate => ESkipUpToDate k | FSuccess => ESuccess k
  | FFail _ kind => EFailure k kind end.

Lemma fres_status_final r : unfinished (fres_status r) = false.
Proof. destruct r as [| | |[] kd]; reflexivity. Qed.
Lemma ev_of_final k r : is_final_ev k (ev_of k r) = true.
Proof. destruct r; simpl; apply N.eqb_refl. Qed.
Lemma ev_of_matches k r : ev_matches (ev_of k r) (fres_status r) = true.
Proof. destruct r as [| | |[] kd]; reflexivity. Qed.

Inductive pre_res := PIgnore | PUnmet | PCkErr | PUpToDate | PRun.
Definition skip_res (p : pre_res) : option fres :=
  match p with
  | PIgnore => Some FIgnore | PUnmet => Some (FFail false kind_unmet) | PCkErr => Some (FFail false kind_dep)
  | PUpToDate => Some FUpToDate | PRun => None end.

(* what happens to a task that is actually started: _get_task_args, then the actions, then save_success *)
Definition exec_res (t : task) : option fres :=
  if t_argerr t then Some (FFail false kind_dep) else
  match t_outcome t with
  | OOk => Some FSuccess
  | OFail => Some (FFail false kind_failed)
  | OError => Some (FFail false kind_error)
  | OSaveErr => Some (FFail true kind_dep)
  | OFailV => Some (FFail true kind_failed)
  | OInterrupt => None            (* the run is aborted: no final report *)
  end.

Section Spec.
Variable tasks : name -> option task.
Variable always : bool.
Notation get_task := (get_task tasks).

Definition new_tasks (c : name) : list name := t_calc_new_task (get_task c) ++ t_calc_new_impl (get_task c).

(* effective dependencies, given the final statuses [st] of the tasks: a calc_dep task contributes
   what it returns only if its values are visible (success, up-to-date, or failure after all
   actions ran) *)
Inductive vcalc (st : name -> status) (t : name) : name -> Prop :=
| vc_static c : In c (t_calc_dep (get_task t)) -> vcalc st t c
| vc_more c c' : vcalc st t c -> calc_values_visible (st c) = true ->
                 In c' (t_calc_new_calc (get_task c)) -> vcalc st t c'.
Inductive vdep (st : name -> status) (t : name) (y : name) : Prop :=
| vd_task : In y (t_task_dep (get_task t)) -> vdep st t y
| vd_calc : vcalc st t y -> vdep st t y
| vd_dyn c : vcalc st t c -> calc_values_visible (st c) = true -> In y (new_tasks c) -> vdep st t y.

(* Runner.select_task, first selection (run_status is None) *)
Inductive first (st : name -> status) (k : name) : pre_res -> Prop :=
| f_ignore :
    (exists x, vdep st k x /\ st x = SIgnore) \/ t_dbignore (get_task k) = true ->
    first st k PIgnore
| f_unmet :
    (forall x, vdep st k x -> st x <> SIgnore) -> t_dbignore (get_task k) = false ->
    (exists x, vdep st k x /\ is_failst (st x) = true) ->
    first st k PUnmet
| f_ckerr :
    (forall x, vdep st k x -> is_goodst (st x) = true) -> t_dbignore (get_task k) = false ->
    t_check (get_task k) = CkError ->
    first st k PCkErr
| f_uptodate :
    (forall x, vdep st k x -> is_goodst (st x) = true) -> t_dbignore (get_task k) = false ->
    t_check (get_task k) = CkUpToDate -> always = false ->
    first st k PUpToDate
| f_run :
    (forall x, vdep st k x -> is_goodst (st x) = true) -> t_dbignore (get_task k) = false ->
    (t_check (get_task k) = CkRun \/ (t_check (get_task k) = CkUpToDate /\ always = true)) ->
    first st k PRun.

(* ... after `run` was decided: the setup-tasks are run, then the task is selected a second time
   (a task without setup-tasks is started at once: the rules below with an empty list) *)
Inductive second (st : name -> status) (k : name) : fres -> Prop :=
| s_ignore :
    (exists x, In x (t_setup (get_task k)) /\ st x = SIgnore) ->
    second st k FIgnore
| s_unmet :
    (forall x, In x (t_setup (get_task k)) -> st x <> SIgnore) ->
    (exists x, In x (t_setup (get_task k)) /\ is_failst (st x) = true) ->
    second st k (FFail false kind_unmet)
| s_exec r :
    (forall x, In x (t_setup (get_task k)) -> is_goodst (st x) = true) ->
    exec_res (get_task k) = Some r ->
    second st k r.

Definition sta (a : name -> fres) : name -> status := fun x => fres_status (a x).

(* THE SPECIFICATION.  [a] gives the outcomes of the tasks k depends on *)
Inductive fin : name -> fres -> Prop :=
| fin_skip k a p r :
    (forall x, vdep (sta a) k x -> fin x (a x)) ->
    first (sta a) k p -> skip_res p = Some r ->
    fin k r
| fin_exec k a r :
    (forall x, vdep (sta a) k x -> fin x (a x)) ->
    first (sta a) k PRun ->
    (forall x, In x (t_setup (get_task k)) -> fin x (a x)) ->
    second (sta a) k r ->
    fin k r.

(* ---------- executable version ---------- *)
Section Fun.
Variable rec : name -> option fres.

(* the calc_dep closure: [todo] calc names still to look at, [done] those looked at, [tks] the
   task_dep collected so far *)
Fixpoint closure (m : nat) (todo done tks : list name) : option (list name * list name) :=
  match m with O => None | S m' =>
  match todo with
  | [] => Some (done, tks)
  | c :: rest =>
      if mem c done then closure m' rest done tks else
      match rec c with
      | None => None
      | Some r =>
          if calc_values_visible (fres_status r)
          then closure m' (rest ++ t_calc_new_calc (get_task c)) (c :: done) (tks ++ new_tasks c)
          else closure m' rest (c :: done) tks
      end
  end end.

Fixpoint statuses (l : list name) : option (list status) :=
  match l with
  | [] => Some []
  | x :: r => match rec x, statuses r with
              | Some v, Some s => Some (fres_status v :: s)
              | _, _ => None end
  end.
End Fun.

Definition is_ignst (s : status) : bool := match s with SIgnore => true | _ => false end.

Fixpoint fin_fun (cfuel fuel : nat) (k : name) : option fres :=
  match fuel with O => None | S n =>
  let t := get_task k in
  match closure (fin_fun cfuel n) cfuel (t_calc_dep t) [] (t_task_dep t) with
  | None => None
  | Some (calcs, tks) =>
    match statuses (fin_fun cfuel n) (tks ++ calcs) with
    | None => None
    | Some sts =>
      if existsb is_ignst sts || t_dbignore t then Some FIgnore
      else if existsb is_failst sts then Some (FFail false kind_unmet)
      else match t_check t with
        | CkError => Some (FFail false kind_dep)
        | ck =>
          if negb always && match ck with CkUpToDate => true | _ => false end then Some FUpToDate
          else match statuses (fin_fun cfuel n) (t_setup t) with
            | None => None
            | Some ss =>
              if existsb is_ignst ss then Some FIgnore
              else if existsb is_failst ss then Some (FFail false kind_unmet)
              else exec_res t
            end
        end
    end
  end end.

(* ---------- [fin] is a partial function ---------- *)
Lemma vcalc_agree st1 st2 k :
  (forall c, vcalc st1 k c -> vcalc st2 k c -> st1 c = st2 c) ->
  forall c, vcalc st1 k c -> vcalc st2 k c.
Proof.
  intros Hag c H. induction H as [c H|c c' H IH V Hin].
  - apply vc_static. exact H.
  - eapply vc_more; [exact IH| |exact Hin]. rewrite <- (Hag c H IH). exact V.
Qed.

Lemma vdep_agree st1 st2 k :
  (forall c, vcalc st1 k c -> vcalc st2 k c -> st1 c = st2 c) ->
  forall x, vdep st1 k x -> vdep st2 k x.
Proof.
  intros Hag x [H|H|c H V Hin].
  - apply vd_task. exact H.
  - apply vd_calc. eapply vcalc_agree; eauto.
  - assert (H2 : vcalc st2 k c) by (eapply vcalc_agree; eauto).
    eapply vd_dyn; [exact H2| |exact Hin]. rewrite <- (Hag c H H2). exact V.
Qed.

Lemma vcalc_vdep st k c : vcalc st k c -> vdep st k c.
Proof. apply vd_calc. Qed.

Lemma goodst_not s : is_goodst s = true -> s <> SIgnore /\ is_failst s = false.
Proof. destruct s; simpl; intros H; try discriminate; split; auto; discriminate. Qed.

(* [first] and [second] only look at the statuses of the effective dependencies / setup-tasks *)
Lemma first_ext st1 st2 k p :
  (forall x, vdep st1 k x -> vdep st2 k x) -> (forall x, vdep st2 k x -> vdep st1 k x) ->
  (forall x, vdep st1 k x -> st1 x = st2 x) ->
  first st1 k p -> first st2 k p.
Proof.
  intros H12 H21 Heq H.
  assert (Heq2 : forall x, vdep st2 k x -> st2 x = st1 x) by (intros x Hx; symmetry; apply Heq; apply H21; exact Hx).
  destruct H as [[(x & Hx & Hs)|Hdb]|Hn Hdb (x & Hx & Hs)|Hg Hdb Hc|Hg Hdb Hc Ha|Hg Hdb Hc].
  - apply f_ignore. left. exists x. split; [apply H12; exact Hx|]. rewrite <- (Heq x Hx). exact Hs.
  - apply f_ignore. right. exact Hdb.
  - apply f_unmet; auto.
    + intros y Hy. rewrite (Heq2 y Hy). apply Hn. apply H21. exact Hy.
    + exists x. split; [apply H12; exact Hx|]. rewrite <- (Heq x Hx). exact Hs.
  - apply f_ckerr; auto. intros y Hy. rewrite (Heq2 y Hy). apply Hg. apply H21. exact Hy.
  - apply f_uptodate; auto. intros y Hy. rewrite (Heq2 y Hy). apply Hg. apply H21. exact Hy.
  - apply f_run; auto. intros y Hy. rewrite (Heq2 y Hy). apply Hg. apply H21. exact Hy.
Qed.

Lemma first_det st k p1 p2 : first st k p1 -> first st k p2 -> p1 = p2.
Proof.
  intros H1 H2.
  destruct H1 as [[(x & Hx & Hs)|Hdb]|Hn Hdb (x & Hx & Hs)|Hg Hdb Hc|Hg Hdb Hc Ha|Hg Hdb Hc];
  destruct H2 as [[(x' & Hx' & Hs')|Hdb']|Hn' Hdb' (x' & Hx' & Hs')|Hg' Hdb' Hc'|Hg' Hdb' Hc' Ha'|Hg' Hdb' Hc'];
    try reflexivity; try congruence;
    try (exfalso; apply (Hn' x Hx); exact Hs);
    try (exfalso; apply (Hn x' Hx'); exact Hs');
    try (exfalso; destruct (goodst_not _ (Hg' x Hx)) as [A B]; congruence);
    try (exfalso; destruct (goodst_not _ (Hg x' Hx')) as [A B]; congruence);
    try (exfalso; destruct Hc as [Hc|[Hc Ha0]]; congruence);
    try (exfalso; destruct Hc' as [Hc'|[Hc' Ha0]]; congruence).
Qed.

Lemma second_ext st1 st2 k r :
  (forall x, In x (t_setup (get_task k)) -> st1 x = st2 x) -> second st1 k r -> second st2 k r.
Proof.
  intros Heq H. destruct H as [(x & Hx & Hs)|Hn (x & Hx & Hs)|r Hg He].
  - apply s_ignore. exists x. split; auto. rewrite <- (Heq x Hx). exact Hs.
  - apply s_unmet.
    + intros y Hy. rewrite <- (Heq y Hy). apply Hn. exact Hy.
    + exists x. split; auto. rewrite <- (Heq x Hx). exact Hs.
  - apply s_exec; auto. intros y Hy. rewrite <- (Heq y Hy). apply Hg. exact Hy.
Qed.

Lemma second_det st k r1 r2 : second st k r1 -> second st k r2 -> r1 = r2.
Proof.
  intros H1 H2.
  destruct H1 as [(x & Hx & Hs)|Hn (x & Hx & Hs)|r Hg He];
  destruct H2 as [(x' & Hx' & Hs')|Hn' (x' & Hx' & Hs')|r' Hg' He'];
    try reflexivity; try congruence;
    try (exfalso; apply (Hn' x Hx); exact Hs);
    try (exfalso; apply (Hn x' Hx'); exact Hs');
    try (exfalso; destruct (goodst_not _ (Hg' x Hx)) as [A B]; congruence);
    try (exfalso; destruct (goodst_not _ (Hg x' Hx')) as [A B]; congruence).
Qed.

(* two outcome assignments that are both justified on the effective dependencies they induce, and
   agree wherever both are justified, induce the same effective dependencies *)
Lemma deps_agree k a1 a2 :
  (forall x, vdep (sta a1) k x -> fin x (a1 x)) ->
  (forall x, vdep (sta a2) k x -> fin x (a2 x)) ->
  (forall x, vdep (sta a1) k x -> forall r, fin x r -> a1 x = r) ->
  (forall x, vdep (sta a1) k x -> vdep (sta a2) k x) /\
  (forall x, vdep (sta a2) k x -> vdep (sta a1) k x) /\
  (forall x, vdep (sta a1) k x -> a1 x = a2 x).
Proof.
  intros D1 D2 U1.
  assert (Hag : forall c, vcalc (sta a1) k c -> vcalc (sta a2) k c -> sta a1 c = sta a2 c).
  { intros c H1 H2. unfold sta. rewrite (U1 c (vd_calc _ _ _ H1) (a2 c)); auto. apply D2. apply vd_calc. exact H2. }
  assert (F12 : forall x, vdep (sta a1) k x -> vdep (sta a2) k x) by (apply vdep_agree; exact Hag).
  assert (F21 : forall x, vdep (sta a2) k x -> vdep (sta a1) k x).
  { apply vdep_agree. intros c H2 H1. symmetry. apply Hag; auto. }
  split; [exact F12|]. split; [exact F21|].
  intros x Hx. apply (U1 x Hx). apply D2. apply F12. exact Hx.
Qed.

Theorem fin_functional : forall k r1, fin k r1 -> forall r2, fin k r2 -> r1 = r2.
Proof.
  intros k r1 H1. induction H1 as [k a p r D IH F S|k a r D IH F Dset IHset Sec]; intros r2 H2.
  - destruct H2 as [k a' p' r' D' F' S'|k a' r' D' F' Dset' Sec'];
      destruct (deps_agree k a a' D D' IH) as (F12 & F21 & Eq).
    + assert (p = p').
      { eapply first_det; [|exact F']. eapply first_ext; [exact F12|exact F21| |exact F].
        intros x Hx. unfold sta. rewrite (Eq x Hx). reflexivity. }
      subst. congruence.
    + assert (p = PRun).
      { eapply first_det; [|exact F']. eapply first_ext; [exact F12|exact F21| |exact F].
        intros x Hx. unfold sta. rewrite (Eq x Hx). reflexivity. }
      subst. discriminate.
  - destruct H2 as [k a' p' r' D' F' S'|k a' r' D' F' Dset' Sec'];
      destruct (deps_agree k a a' D D' IH) as (F12 & F21 & Eq).
    + assert (PRun = p').
      { eapply first_det; [|exact F']. eapply first_ext; [exact F12|exact F21| |exact F].
        intros x Hx. unfold sta. rewrite (Eq x Hx). reflexivity. }
      subst. discriminate.
    + eapply second_det; [|exact Sec']. eapply second_ext; [|exact Sec].
      intros x Hx. unfold sta. rewrite (IHset x Hx (a' x) (Dset' x Hx)). reflexivity.
Qed.

(* same report: same constructor, same failure kind *)
Corollary fin_same_report k r1 r2 : fin k r1 -> fin k r2 -> ev_of k r1 = ev_of k r2.
Proof. intros H1 H2. rewrite (fin_functional k r1 H1 r2 H2). reflexivity. Qed.

End Spec.
Print Assumptions fin_functional.
