(* --single across group borders (cmd_run.py 210-222; round G, seeded C12g): corollaries of single_step_spec
   (SelectP.v) in the terms of the declarations: what a selected group still depends on is DECLARED a sub-task
   of that very group; a task that is neither selected nor declared a sub-task of a selected group keeps its
   task_dep whatever groups name it in theirs. *)
From Coq Require Import List NArith Bool.
From DoitV Require Import Base Select SelectP.
Import ListNotations.
Open Scope N_scope.

Lemma single_group_no_foreign tb sel g t d :
  In g sel -> lookup tb g = Some t -> s_has_subtask t = true ->
  In d (task_dep_of (single_step tb sel) g) ->
  In d (s_task_dep t) /\ exists td, lookup tb d = Some td /\ s_subtask_of td = Some g.
Proof.
  intros Hin Hl Hs Hd.
  destruct (single_step_spec sel tb) as [_ _ S _ _].
  destruct (S g t d Hin Hl Hs Hd) as (H1 & H2 & _). split; auto.
  unfold is_sub_of in H2. destruct (lookup tb d) as [td|]; [|discriminate].
  exists td. split; auto. destruct (s_subtask_of td) as [p|]; [|discriminate].
  apply N.eqb_eq in H2. subst. reflexivity.
Qed.

Lemma single_foreign_untouched tb sel k :
  ~ In k sel -> (forall g, In g sel -> is_sub_of tb g k = false) ->
  task_dep_of (single_step tb sel) k = task_dep_of tb k.
Proof.
  intros Hn Hf.
  destruct (list_eq_dec N.eq_dec (task_dep_of (single_step tb sel) k) (task_dep_of tb k)) as [E|E]; auto.
  destruct (single_step_spec sel tb) as [_ _ _ _ O].
  destruct (O k E) as [H|(g & t & Hg & _ & _ & _ & Hsub)]; [contradiction|].
  rewrite (Hf g Hg) in Hsub. discriminate.
Qed.

Theorem single_group_border tb sel :
  (forall g t d, In g sel -> lookup tb g = Some t -> s_has_subtask t = true ->
     In d (task_dep_of (single_step tb sel) g) ->
     In d (s_task_dep t) /\ exists td, lookup tb d = Some td /\ s_subtask_of td = Some g) /\
  (forall k, ~ In k sel -> (forall g, In g sel -> is_sub_of tb g k = false) ->
     task_dep_of (single_step tb sel) k = task_dep_of tb k).
Proof.
  split.
  - intros g t d. apply single_group_no_foreign.
  - intros k. apply single_foreign_untouched.
Qed.
