(* DelayedStepP.v -- the generator of Model/Delayed.v (gen_step) and the dispatcher loop (disp_run) cut into
   atomic transitions, with one induction principle each: an invariant of the growing-table dispatcher is proved
   by cases over the transitions, without repeating the fuel induction.  Used by DelayedRunP.v / DelayedDepP.v. *)
From DoitV Require Import Base Dispatch Runner Delayed DelayedP.
Open Scope N_scope.

(* the three places of _add_task that walk a list of names with _gen_node *)
Definition walk_of (p : dpc) : option (name * dpc) :=
  match p with
  | QCalc (c :: r) calcs tks => Some (c, QCalc r calcs tks)
  | QTask (c :: r) tks => Some (c, QTask r tks)
  | QSetup (c :: r) => Some (c, QSetup r)
  | _ => None end.

Definition lres_reset (l : lres) : bool := match l with LReset _ => true | _ => false end.
Definition lres_dst (l : lres) : dst := match l with LReset d | LInvalidTask d | LNotFound _ d | LKeyError d => d end.
Definition lres_yield (l : lres) : gyield :=
  match l with LReset _ => YEnd | LInvalidTask _ => YInvalidTask | LNotFound f _ => YNotFound f | LKeyError _ => YKeyError end.

Section Steps.
Variable v : variant.
Variable keys : list name.
Variable creators : N -> name -> list (name * dtask).
Variable calc_rank : name -> N.
Notation gen_step := (gen_step v keys creators calc_rank).
Notation disp_run := (disp_run v keys creators calc_rank).
Notation load_branch := (load_branch v keys creators).

Definition pend_more (nd : dnode) : bool := negb (is_nil (dn_pcl nd)) || negb (is_nil (dn_pt nd)).
Definition wait_more (nd : dnode) : bool := negb (is_nil (dn_wrun nd)) || negb (is_nil (dn_wcalc nd)).

(* one atomic transition of the generator of node [me]; the label is the value it yields, if it yields *)
Inductive gstep (me : name) : dst -> option gyield -> dst -> Prop :=
| GS_start_skip d : dn_pc (node_of d me) = QStart -> gstep me d (Some YEnd) (set_pc d me QDone)
| GS_start d : dn_pc (node_of d me) = QStart -> gstep me d None (set_pc d me QLoop)
| GS_loop d : dn_pc (node_of d me) = QLoop ->
    let nd := node_of d me in let calcs := sort_by calc_rank (dn_pcl nd) in
    gstep me d None (set_node d me (nd_pc (nd_deps nd [] [] (dn_at nd) (dn_ac nd)) (QCalc calcs calcs (dn_pt nd))))
| GS_calc_nil d calcs tks : dn_pc (node_of d me) = QCalc [] calcs tks ->
    gstep me d None (set_pc (add_wait_run d me calcs true) me (QTask tks tks))
| GS_walk_cycle d c p' : walk_of (dn_pc (node_of d me)) = Some (c, p') ->
    fst (gen_node d (Some (dn_anc (node_of d me))) c) = GCycle ->
    gstep me d (Some (YCycle (dn_anc (node_of d me) ++ [c]))) d
| GS_walk_new d c p' d1 : walk_of (dn_pc (node_of d me)) = Some (c, p') ->
    gen_node d (Some (dn_anc (node_of d me))) c = (GNew, d1) ->
    gstep me d (Some (YNode c)) (set_pc d1 me p')
| GS_walk_old d c p' d1 : walk_of (dn_pc (node_of d me)) = Some (c, p') ->
    gen_node d (Some (dn_anc (node_of d me))) c = (GOld, d1) ->
    gstep me d None (set_pc d1 me p')
| GS_task_again d tks : dn_pc (node_of d me) = QTask [] tks ->
    let d1 := add_wait_run d me tks false in
    pend_more (node_of d1 me) = true -> gstep me d None (set_pc d1 me QLoop)
| GS_task_wait d tks : dn_pc (node_of d me) = QTask [] tks ->
    let d1 := add_wait_run d me tks false in
    pend_more (node_of d1 me) = false -> wait_more (node_of d1 me) = true -> gstep me d (Some YWait) (set_pc d1 me QLoop)
| GS_task_reset d tks T d2 : dn_pc (node_of d me) = QTask [] tks ->
    let d1 := add_wait_run d me tks false in
    pend_more (node_of d1 me) = false -> wait_more (node_of d1 me) = false ->
    dt_loader (dn_task (node_of d1 me)) = Some T -> load_branch d1 me T = LReset d2 -> gstep me d None d2
| GS_task_err d tks T l : dn_pc (node_of d me) = QTask [] tks ->
    let d1 := add_wait_run d me tks false in
    pend_more (node_of d1 me) = false -> wait_more (node_of d1 me) = false ->
    dt_loader (dn_task (node_of d1 me)) = Some T -> load_branch d1 me T = l -> lres_reset l = false ->
    gstep me d (Some (lres_yield l)) (lres_dst l)
| GS_task_self d tks : dn_pc (node_of d me) = QTask [] tks ->
    let d1 := add_wait_run d me tks false in
    pend_more (node_of d1 me) = false -> wait_more (node_of d1 me) = false ->
    dt_loader (dn_task (node_of d1 me)) = None -> gstep me d None (set_pc d1 me QSelf)
| GS_self d : dn_pc (node_of d me) = QSelf -> gstep me d (Some YSelf) (set_pc d me QAfterSelf)
| GS_after_nosetup d : dn_pc (node_of d me) = QAfterSelf ->
    is_nil (t_setup (dt (dn_task (node_of d me)))) = true -> gstep me d (Some YEnd) (set_pc d me QDone)
| GS_after_none d : dn_pc (node_of d me) = QAfterSelf ->
    is_nil (t_setup (dt (dn_task (node_of d me)))) = false -> dn_st (node_of d me) = SNone ->
    gstep me d (Some YWait) (set_node d me (nd_pc (nd_wsel (node_of d me) true) QAfterSelWait))
| GS_after_st d : dn_pc (node_of d me) = QAfterSelf ->
    is_nil (t_setup (dt (dn_task (node_of d me)))) = false -> dn_st (node_of d me) <> SNone ->
    gstep me d None (set_pc d me QAfterSelWait)
| GS_asw_run d : dn_pc (node_of d me) = QAfterSelWait -> dn_st (node_of d me) = SRun ->
    gstep me d None (set_pc d me (QSetup (t_setup (dt (dn_task (node_of d me))))))
| GS_asw_end d : dn_pc (node_of d me) = QAfterSelWait -> dn_st (node_of d me) <> SRun ->
    gstep me d (Some YEnd) (set_pc d me QDone)
| GS_setup_self d : dn_pc (node_of d me) = QSetup [] ->
    let d1 := add_wait_run d me (t_setup (dt (dn_task (node_of d me)))) false in
    is_nil (dn_wrun (node_of d1 me)) = true -> gstep me d (Some YSelf) (set_pc d1 me QDone)
| GS_setup_wait d : dn_pc (node_of d me) = QSetup [] ->
    let d1 := add_wait_run d me (t_setup (dt (dn_task (node_of d me)))) false in
    is_nil (dn_wrun (node_of d1 me)) = false -> gstep me d (Some YWait) (set_pc d1 me QSetupWaited)
| GS_waited d : dn_pc (node_of d me) = QSetupWaited -> gstep me d (Some YSelf) (set_pc d me QDone)
| GS_done d : dn_pc (node_of d me) = QDone -> gstep me d (Some YEnd) d.

(* an invariant of the silent transitions holds when the generator yields; what the yield establishes is [Q] *)
Lemma gen_step_ind (P : dst -> Prop) (Q : gyield -> dst -> Prop) (me : name) :
  (forall d d', P d -> gstep me d None d' -> P d') ->
  (forall d y d', P d -> gstep me d (Some y) d' -> Q y d') ->
  (forall d, P d -> Q YFuel d) ->
  forall fuel d, P d -> Q (fst (gen_step fuel d me)) (snd (gen_step fuel d me)).
Proof.
  intros HN HY HF. induction fuel as [|fuel IH]; intros d HP; cbn [Delayed.gen_step].
  { simpl. apply HF. exact HP. }
  assert (Walk : forall c p', walk_of (dn_pc (node_of d me)) = Some (c, p') ->
     Q (fst (match gen_node d (Some (dn_anc (node_of d me))) c with
             | (GCycle, _) => (YCycle (dn_anc (node_of d me) ++ [c]), d)
             | (GNew, d1) => (YNode c, set_pc d1 me p')
             | (GOld, d1) => gen_step fuel (set_pc d1 me p') me end))
       (snd (match gen_node d (Some (dn_anc (node_of d me))) c with
             | (GCycle, _) => (YCycle (dn_anc (node_of d me) ++ [c]), d)
             | (GNew, d1) => (YNode c, set_pc d1 me p')
             | (GOld, d1) => gen_step fuel (set_pc d1 me p') me end))).
  { intros c p' Hw. destruct (gen_node d (Some (dn_anc (node_of d me))) c) as [g d1] eqn:Eg. destruct g.
    - simpl. eapply HY; [exact HP|]. eapply GS_walk_new; eauto.
    - apply IH. eapply HN; [exact HP|]. eapply GS_walk_old; eauto.
    - simpl. eapply HY; [exact HP|]. eapply GS_walk_cycle; eauto. rewrite Eg. reflexivity. }
  destruct (dn_pc (node_of d me)) as [| |rest calcs tks|rest tks| | | |rest| |] eqn:Epc.
  - (* QStart *)
    match goal with |- context [if ?c then _ else _] => destruct c end.
    + simpl. eapply HY; [exact HP|]. apply GS_start_skip. exact Epc.
    + apply IH. eapply HN; [exact HP|]. apply GS_start. exact Epc.
  - (* QLoop *) apply IH. eapply HN; [exact HP|]. apply (GS_loop me d Epc).
  - (* QCalc *)
    destruct rest as [|c r].
    + apply IH. eapply HN; [exact HP|]. apply GS_calc_nil. exact Epc.
    + apply (Walk c (QCalc r calcs tks)). reflexivity.
  - (* QTask *)
    destruct rest as [|c r].
    + set (d1 := add_wait_run d me tks false).
      fold (pend_more (node_of d1 me)). fold (wait_more (node_of d1 me)).
      destruct (pend_more (node_of d1 me)) eqn:E1.
      * apply IH. eapply HN; [exact HP|]. apply (GS_task_again me d tks Epc E1).
      * destruct (wait_more (node_of d1 me)) eqn:E2.
        -- simpl. eapply HY; [exact HP|]. apply (GS_task_wait me d tks Epc E1 E2).
        -- destruct (dt_loader (dn_task (node_of d1 me))) as [T|] eqn:El.
           ++ destruct (load_branch d1 me T) as [d2|d2|f d2|d2] eqn:Elb.
              ** apply IH. eapply HN; [exact HP|]. apply (GS_task_reset me d tks T d2 Epc E1 E2 El Elb).
              ** simpl. eapply HY; [exact HP|].
                 apply (GS_task_err me d tks T (LInvalidTask d2) Epc E1 E2 El Elb eq_refl).
              ** simpl. eapply HY; [exact HP|].
                 apply (GS_task_err me d tks T (LNotFound f d2) Epc E1 E2 El Elb eq_refl).
              ** simpl. eapply HY; [exact HP|].
                 apply (GS_task_err me d tks T (LKeyError d2) Epc E1 E2 El Elb eq_refl).
           ++ apply IH. eapply HN; [exact HP|]. apply (GS_task_self me d tks Epc E1 E2 El).
    + apply (Walk c (QTask r tks)). reflexivity.
  - (* QSelf *) simpl. eapply HY; [exact HP|]. apply GS_self. exact Epc.
  - (* QAfterSelf *)
    destruct (is_nil (t_setup (dt (dn_task (node_of d me))))) eqn:Es.
    + simpl. eapply HY; [exact HP|]. apply GS_after_nosetup; auto.
    + destruct (dn_st (node_of d me)) eqn:Est;
        try (apply IH; eapply HN; [exact HP|]; apply GS_after_st; auto; rewrite Est; discriminate).
      simpl. eapply HY; [exact HP|]. apply GS_after_none; auto.
  - (* QAfterSelWait *)
    destruct (dn_st (node_of d me)) eqn:Est;
      try (simpl; eapply HY; [exact HP|]; apply GS_asw_end; auto; rewrite Est; discriminate).
    apply IH. eapply HN; [exact HP|]. apply GS_asw_run; auto.
  - (* QSetup *)
    destruct rest as [|c r].
    + set (d1 := add_wait_run d me _ false).
      destruct (is_nil (dn_wrun (node_of d1 me))) eqn:En; simpl; (eapply HY; [exact HP|]).
      * apply (GS_setup_self me d Epc En).
      * apply (GS_setup_wait me d Epc En).
    + apply (Walk c (QSetup r)). reflexivity.
  - (* QSetupWaited *) simpl. eapply HY; [exact HP|]. apply GS_waited. exact Epc.
  - (* QDone *) simpl. eapply HY; [exact HP|]. apply GS_done. exact Epc.
Qed.

(* the dispatcher loop: [P] is kept between yields of node generators, [Q] holds at a yield of the dispatcher *)
Lemma disp_run_ind (P : dst -> Prop) (Q : dyield -> dst -> Prop) :
  (forall d x r, P d -> q_cur d = None -> q_ready d = x :: r -> P (set_cur (set_ready d r) (Some x))) ->
  (forall d, P d -> q_cur d = None -> q_ready d = [] ->
     match next_from_torun d (q_torun d) with
     | (Some x, d1) => P (set_cur d1 (Some x))
     | (None, d1) => Q (if is_nil (q_waiting d1) then DStop else DHold) d1 end) ->
  (forall d me f, P d -> q_cur d = Some me ->
     let y := fst (gen_step f d me) in let d1 := snd (gen_step f d me) in
     match y with
     | YEnd => P (set_cur d1 None)
     | YSelf => Q (DTask me) d1
     | YNode k => P (set_ready d1 (q_ready d1 ++ [k]))
     | YWait => P (set_cur (set_waiting d1 (addset me (q_waiting d1))) None)
     | YCycle p => Q (DCycle p) d1
     | YInvalidTask => Q DInvalidTask d1
     | YNotFound f => Q (DNotFound f) d1
     | YKeyError => Q DKeyError d1
     | YFuel => Q DFuel d1 end) ->
  (forall d, P d -> Q DFuel d) ->
  forall fuel d, P d -> Q (fst (disp_run fuel d)) (snd (disp_run fuel d)).
Proof.
  intros HR HT HG HF. induction fuel as [|fuel IH]; intros d HP; cbn [Delayed.disp_run].
  { simpl. apply HF. exact HP. }
  destruct (q_cur d) as [me|] eqn:Ec.
  - pose proof (HG d me (S (S fuel)) HP Ec) as H. cbv zeta in H.
    destruct (gen_step (S (S fuel)) d me) as [y d1]. cbn [fst snd] in H.
    destruct y; try exact H; apply IH; exact H.
  - destruct (q_ready d) as [|x r] eqn:Er.
    + pose proof (HT d HP Ec Er) as H.
      destruct (next_from_torun d (q_torun d)) as [[x|] d1].
      * apply IH. exact H.
      * destruct (is_nil (q_waiting d1)); exact H.
    + apply IH. apply HR; auto.
Qed.
End Steps.
