(* ParallelTdP.v -- teardown discipline of MThreadRunner (thread flavour of the parallel model): all
   workers share the runner object, the teardown list grows with every task a worker starts, and
   finish() runs it once, in reverse order, after the DB was closed -- under every schedule. *)
From DoitV Require Import Base Dispatch Runner Parallel DispatchP DispatchInv RunnerTr RunnerP ParallelP.
Open Scope N_scope.

Section T.
Variable tasks : name -> option task.
Variable wake_rank : name -> name -> N.
Variable calc_rank : name -> N.
Variable continue_ always : bool.

Notation get_task := (get_task tasks).
Notation worker_step := (worker_step tasks false).
Notation main_get := (main_get tasks false).
Notation join_all := (join_all tasks false).
Notation next_job_loop := (next_job_loop tasks wake_rank calc_rank continue_ always).
Notation get_next_job := (get_next_job tasks wake_rank calc_rank continue_ always).
Notation start_procs := (start_procs tasks wake_rank calc_rank continue_ always false).
Notation hand_out := (hand_out tasks wake_rank calc_rank continue_ always).
Notation main_loop := (main_loop tasks wake_rank calc_rank continue_ always false).
Notation has_td := (has_td tasks).

Definition is_rep (m : msg) : bool := match m with MReport _ | MTeardown _ => true | _ => false end.

(* the runner part: what TInv says minus the pairing *)
Record TR (r : rstate) : Prop := {
  tr_td : r_td r = filter has_td (execs (r_tr r));
  tr_nofin : forallb (fun e => negb (is_fin_ev e)) (r_tr r) = true
}.
Record TI (p : pstate) : Prop := {
  ti_norep : forall m, In m (p_results p) -> is_rep m = false;
  ti_r : TR (p_r p)
}.

Lemma TR_with_d r d : TR r -> TR (with_d r d).
Proof. intros [A B]. split; auto. Qed.
Lemma TR_emit r evs : TR r -> execs evs = [] -> forallb (fun e => negb (is_fin_ev e)) evs = true -> TR (emit r evs).
Proof.
  intros [A B] He Hf. unfold emit. split; simpl.
  - rewrite execs_app, He, app_nil_r. exact A.
  - rewrite forallb_app, B, Hf. reflexivity.
Qed.
Lemma TR_handle st r k kd : TR r -> TR (handle_error_gen tasks continue_ st r k kd).
Proof.
  intros [A B]. unfold handle_error_gen. split; simpl.
  - rewrite execs_app. simpl. rewrite app_nil_r. exact A.
  - rewrite forallb_app, B. reflexivity.
Qed.
Lemma TR_select r k b r1 : TR r -> select_task tasks continue_ always r k = (b, r1) -> TR r1.
Proof.
  apply (select_task_pres tasks continue_ always TR k).
  - intros r0 s H. apply TR_with_d. exact H.
  - intros r0 e H [<-|[<-|[<-|[]]]]; apply TR_emit; auto.
  - intros r0 kd H. apply TR_handle. exact H.
Qed.
Lemma TR_start r k : TR r -> TR (start_task tasks r k).
Proof.
  intros [A B]. unfold start_task. split; simpl.
  - rewrite execs_app, filter_app. simpl. unfold RunnerTr.has_td at 2. rewrite A.
    destruct (t_teardown (get_task k)); [reflexivity|rewrite app_nil_r; reflexivity].
  - rewrite forallb_app, B. reflexivity.
Qed.
Lemma TR_process r k : TR r -> TR (process_result tasks continue_ r k).
Proof.
  intros H. unfold process_result. destruct (t_outcome (get_task k)); auto; try apply TR_handle; auto.
  apply TR_emit; auto. apply TR_with_d. exact H.
Qed.

(* ---------- the parallel functions, thread flavour ---------- *)
Lemma TI_same p p' : p_r p' = p_r p -> (forall m, In m (p_results p') -> In m (p_results p) \/ is_rep m = false) -> TI p -> TI p'.
Proof.
  intros Er Hm [A B]. split; [|rewrite Er; exact B].
  intros m Hin. destruct (Hm m Hin) as [H|H]; auto.
Qed.

Lemma worker_step_TI p w : TI p -> TI (worker_step p w).
Proof.
  intros H. unfold Parallel.worker_step.
  destruct (nth w (p_workers p) WExited) as [|k|]; auto.
  - destruct (p_jobs p) as [|j js]; auto. destruct j as [k| |].
    + destruct H as [A B]. split; simpl; auto. apply TR_start. exact B.
    + eapply TI_same; [| |exact H]; simpl; auto.
    + eapply TI_same; [| |exact H]; simpl; auto.
  - destruct (is_interrupt tasks k).
    + eapply TI_same; [| |exact H]; simpl; auto. intros m Hm. apply in_app_iff in Hm. destruct Hm as [Hm|[<-|[]]]; auto.
    + eapply TI_same; [| |exact H]; simpl; auto. intros m Hm. apply in_app_iff in Hm. destruct Hm as [Hm|[<-|[]]]; auto.
Qed.

Lemma main_get_TI fuel : forall p m p', TI p -> main_get fuel p = (m, p') ->
  TI p' /\ (forall m0, m = Some m0 -> is_rep m0 = false).
Proof.
  induction fuel as [|fuel IH]; intros p m p' H E; cbn [Parallel.main_get] in E.
  { inversion E; subst. split; auto. intros m0 E0; discriminate. }
  set (ws := enabled_workers p (length (p_workers p)) 0) in *.
  destruct ((if negb (is_nil (p_results p)) then 1 else 0) + length ws)%nat.
  { inversion E; subst. split; [|intros m0 E0; discriminate]. eapply TI_same; [| |exact H]; simpl; auto. }
  destruct (choose (S n) (p_sched p)) as [c s].
  assert (Hs : TI (with_sched p s)) by (eapply TI_same; [| |exact H]; simpl; auto).
  destruct (negb (is_nil (p_results p)) && Nat.eqb c 0).
  - simpl in E. destruct (p_results p) as [|m0 rs] eqn:Er.
    + inversion E; subst. split; auto. intros m0 E0; discriminate.
    + inversion E; subst. split.
      * eapply TI_same; [| |exact H]; simpl; auto. intros m Hm. left. rewrite Er. right. exact Hm.
      * intros m1 E1. inversion E1; subst. apply (ti_norep _ H). rewrite Er. left. reflexivity.
  - eapply IH; [|exact E]. apply worker_step_TI. exact Hs.
Qed.

Lemma join_all_TI fuel : forall p, TI p -> TI (join_all fuel p).
Proof.
  induction fuel as [|fuel IH]; intros p H; cbn [Parallel.join_all]; auto.
  destruct (enabled_workers p (length (p_workers p)) 0) as [|w ws]; auto.
  destruct (choose (length (w :: ws)) (p_sched p)) as [c s].
  apply IH. apply worker_step_TI. eapply TI_same; [| |exact H]; simpl; auto.
Qed.

Lemma TI_with_r p r' : TI p -> TR r' -> TI (with_r p r').
Proof. intros [A B] H. split; simpl; auto. Qed.

Lemma next_job_loop_TI fuel : forall p completed g p', TI p -> next_job_loop fuel p completed = (g, p') -> TI p'.
Proof.
  induction fuel as [|fuel IH]; intros p completed g p' H E; cbn [Parallel.next_job_loop] in E.
  { inversion E; subst. exact H. }
  destruct (disp_send tasks wake_rank calc_rank (S fuel) (r_d (p_r p)) completed) as [y d].
  destruct y as [k| | |path|].
  - destruct (select_task tasks continue_ always (with_d (p_r p) d) k) as [b r1] eqn:Es.
    assert (H1 : TI (with_r p r1)).
    { apply TI_with_r; auto. eapply TR_select; [|exact Es]. apply TR_with_d. apply (ti_r _ H). }
    destruct b; [inversion E; subst; exact H1|eapply IH; [exact H1|exact E]].
  - inversion E; subst. eapply TI_same; [| |apply (TI_with_r p (with_d (p_r p) d) H)]; simpl; auto.
    apply TR_with_d. apply (ti_r _ H).
  - inversion E; subst. apply TI_with_r; auto. apply TR_with_d. apply (ti_r _ H).
  - inversion E; subst. apply TI_with_r; auto. apply TR_with_d. apply (ti_r _ H).
  - inversion E; subst. exact H.
Qed.

Lemma get_next_job_TI fuel p completed g p' : TI p -> get_next_job fuel p completed = (g, p') -> TI p'.
Proof.
  intros H E. unfold Parallel.get_next_job in E. destruct (r_stop (p_r p)); [inversion E; subst; exact H|].
  eapply next_job_loop_TI; eauto.
Qed.

Lemma terminate_TI p : TI p -> TI (terminate false p).
Proof. intros H. exact H. Qed.

Lemma start_procs_TI fuel n : forall p e p', TI p -> start_procs fuel n p = (e, p') -> TI p'.
Proof.
  induction n as [|n IH]; intros p e p' H E; cbn [Parallel.start_procs] in E.
  { inversion E; subst. exact H. }
  destruct (get_next_job fuel p None) as [g p1] eqn:Eg.
  pose proof (get_next_job_TI _ _ _ _ _ H Eg) as H1.
  destruct g as [j| |path|]; try (inversion E; subst; exact H1).
  eapply IH; [|exact E]. eapply TI_same; [| |exact H1]; simpl; auto.
Qed.

Lemma hand_out_TI fuel n : forall p completed e p', TI p -> hand_out fuel n p completed = (e, p') -> TI p'.
Proof.
  induction n as [|n IH]; intros p completed e p' H E; cbn [Parallel.hand_out] in E.
  { inversion E; subst. exact H. }
  destruct (get_next_job fuel p completed) as [g p1] eqn:Eg.
  pose proof (get_next_job_TI _ _ _ _ _ H Eg) as H1.
  destruct g as [j| |path|]; try (inversion E; subst; exact H1);
    (eapply IH; [|exact E]; eapply TI_same; [| |exact H1]; simpl; auto).
Qed.

Lemma main_loop_TI fuel : forall p e p', TI p -> main_loop fuel p = (e, p') -> TI p'.
Proof.
  induction fuel as [|fuel IH]; intros p e p' H E; cbn [Parallel.main_loop] in E.
  { inversion E; subst. exact H. }
  destruct (p_count p). { inversion E; subst. exact H. }
  destruct (main_get (S fuel * 4) p) as [m p1] eqn:Em.
  destruct (main_get_TI _ _ _ _ H Em) as [H1 Hm].
  destruct m as [[k|k|k|k]|]; try (specialize (Hm _ eq_refl); discriminate).
  - set (p2 := with_r p1 (process_result tasks continue_ (p_r p1) k)) in *.
    assert (H2 : TI p2) by (apply TI_with_r; auto; apply TR_process; apply (ti_r _ H1)).
    destruct (hand_out (S fuel) (S (p_free p2)) (with_counts p2 0 (p_count p2)) (Some k)) as [e2 p3] eqn:Eh.
    assert (H3 : TI p3).
    { eapply hand_out_TI; [|exact Eh]. eapply TI_same; [| |exact H2]; simpl; auto. }
    destruct e2; try (inversion E; subst; exact H3).
    destruct (deadlocked p3); [inversion E; subst; exact H3|eapply IH; eauto].
  - inversion E; subst. exact H1.
  - inversion E; subst. exact H1.
Qed.

Lemma drain_TI p : TI p -> TI (drain p).
Proof.
  intros H. unfold drain.
  assert (He : flat_map (fun m => match m with MTeardown k => [ETeardown k] | MReport k => [EExecute k] | _ => [] end) (p_results p) = []).
  { pose proof (ti_norep _ H) as Hn. induction (p_results p) as [|m l IHl]; simpl; auto.
    rewrite IHl by (intros m0 H0; apply Hn; right; exact H0).
    pose proof (Hn m (or_introl eq_refl)) as Hm. destruct m; simpl in *; auto; discriminate. }
  rewrite He. split; simpl; [intros m []|]. apply TR_emit; auto. apply (ti_r _ H).
Qed.

Lemma TI_init sched sel : TI (p_init sched sel).
Proof. split; simpl; [intros m []|]. split; reflexivity. Qed.

(* the state just before finish(), thread flavour *)
Notation PI := (PI tasks).
Lemma thread_before_finish fuel nprocs sched sel :
  exists p2 mk, TI p2 /\ PI p2 /\ marker_ok mk /\
    fst (run_parallel tasks wake_rank calc_rank continue_ always false fuel nprocs sched sel)
      = p_log (sync (with_r p2 (finish (p_r p2)))) ++ mk.
Proof.
  unfold run_parallel.
  destruct (start_procs fuel nprocs (p_init sched sel)) as [e1 p1] eqn:E1.
  pose proof (start_procs_TI fuel nprocs _ _ _ (TI_init sched sel) E1) as H1.
  pose proof (start_procs_PI tasks wake_rank calc_rank continue_ always false fuel nprocs _ _ _ (PI_init tasks sched sel) E1) as Q1.
  assert (M0 : marker_ok []) by (left; reflexivity).
  assert (M1 : forall e, is_fin e = false -> is_exec e = false -> is_pair_ev e = false -> marker_ok [PE e]) by (intros e A B C; right; exists e; auto).
  destruct e1; try (cbv beta iota zeta delta [fst]; exists p1; eexists; split; [exact H1|split; [exact Q1|split; [|reflexivity]]]; first [exact M0|apply M1; reflexivity]).
  set (p1' := with_counts p1 (p_free p1) (length (p_workers p1))).
  assert (H1' : TI p1') by (eapply TI_same; [| |exact H1]; simpl; auto).
  assert (Q1' : PI p1') by (apply with_counts_PI; exact Q1).
  destruct (deadlocked p1').
  { cbv beta iota zeta delta [fst]. exists p1'. eexists. split; [exact H1'|split; [exact Q1'|split; [|reflexivity]]]. apply M1; reflexivity. }
  destruct (main_loop fuel p1') as [e2 p2] eqn:E2.
  pose proof (main_loop_TI fuel _ _ _ H1' E2) as H2.
  pose proof (main_loop_PI tasks wake_rank calc_rank continue_ always false fuel _ _ _ Q1' E2) as Q2.
  destruct e2; cbv beta iota zeta delta [fst];
    try (exists p2; eexists; split; [exact H2|split; [exact Q2|split; [|reflexivity]]]; first [exact M0|apply M1; reflexivity]).
  exists (drain (join_all (fuel * 4) p2)). eexists. split; [apply drain_TI; apply join_all_TI; exact H2|].
  split; [apply drain_PI; apply (join_all_PI tasks false); exact Q2|split; [exact M0|reflexivity]].
Qed.

(* MThreadRunner, every worker count, EVERY schedule: the reporter / dep_manager events of the run are
     body ++ [DB closed] ++ teardown reports ++ [error marker]
   where the teardown reports are exactly the tasks whose actions were started (by any worker thread) and
   that have teardown actions, once each, in reverse order of execution, and no teardown or close happens
   inside body *)
Theorem thread_teardown fuel nprocs sched sel :
  exists body marker,
    forallb (fun e => negb (is_fin_ev e)) body = true /\ forallb (fun e => negb (is_exec e)) marker = true /\
    proj (fst (run_parallel tasks wake_rank calc_rank continue_ always false fuel nprocs sched sel))
      = body ++ EClose :: map ETeardown (rev (filter has_td (execs body))) ++ marker.
Proof.
  destruct (thread_before_finish fuel nprocs sched sel) as (p2 & mk & HT & HP & Hm & ->).
  pose proof (finish_PI tasks p2 HP) as HP3.
  exists (r_tr (p_r p2)), (proj mk). split; [apply (tr_nofin _ (ti_r _ HT))|]. split.
  - destruct Hm as [->|(e & -> & _ & He & _)]; simpl; auto. rewrite He. reflexivity.
  - rewrite proj_app, (pi_proj tasks _ HP3). cbn [p_seen p_r sync with_r]. rewrite firstn_all.
    unfold finish, emit. simpl. rewrite (tr_td _ (ti_r _ HT)). rewrite <- app_assoc. reflexivity.
Qed.

End T.
