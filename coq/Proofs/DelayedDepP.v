(* DelayedDepP.v -- the growing-table model (Model/Delayed.v): dependencies first.
   The accounting invariant of Proofs/DispatchInv.v (static table) carried over to the growing table: every name in a node's
   task_dep / calc_dep lists is pending, being iterated, waited for, or finished AND recorded (bad_deps / ignored_deps); a node
   handed to the runner has nothing pending and waits for nothing; with the queue discipline (a node waiting for its setup-tasks
   is resumed only when they are all done).  ExecNode.reset_task restarts the accounting with the created task's lists. *)
From DoitV Require Import Base Dispatch Runner Delayed DelayedP DelayedStepP DelayedRunP.
Open Scope N_scope.

Lemma insert_by_In' rank x y l : In y (insert_by rank x l) <-> y = x \/ In y l.
Proof.
  induction l as [|z l IH]; simpl; [intuition|].
  destruct (rank x <? rank z); simpl; [intuition | rewrite IH; intuition].
Qed.
Lemma sort_by_In' rank y l : In y (sort_by rank l) <-> In y l.
Proof.
  unfold sort_by. induction l as [|z l IH]; simpl; [tauto|]. rewrite insert_by_In', IH. intuition.
Qed.

Definition final (d : dst) (x : name) : Prop := unfinished (st_of d x) = false.
Definition is_failst (s : status) : bool := match s with SFailure | SFailureV => true | _ => false end.
(* dependency x is finished and its outcome was recorded in the node (ExecNode.parent_status) *)
Definition recd (d : dst) (nd : dnode) (x : name) : Prop :=
  final d x /\ (is_failst (st_of d x) = true -> In x (dn_bad nd)) /\ (st_of d x = SIgnore -> In x (dn_ign nd)).
Definition d_late (p : dpc) : bool := match p with QStart | QLoop | QCalc _ _ _ | QTask _ _ => false | _ => true end.
Definition d_inflight (p : dpc) : list name :=
  match p with QCalc _ calcs tks => calcs ++ tks | QTask _ tks => tks | _ => [] end.
Definition acct (d : dst) (nd : dnode) (x : name) : Prop :=
  In x (dn_pt nd ++ dn_pcl nd) \/ In x (d_inflight (dn_pc nd)) \/ In x (dn_wrun nd ++ dn_wcalc nd) \/ recd d nd x.
(* the generator passed the dependency loops -- except the node of a `_regex_target` placeholder that ended at once *)
Definition settled (nd : dnode) : Prop := d_late (dn_pc nd) = true /\ ~ (dn_pc nd = QDone /\ dn_st nd = SNone).

Record node_ok (d : dst) (nd : dnode) : Prop := {
  ok_acc : forall x, In x (dn_at nd ++ dn_ac nd) -> acct d nd x;
  ok_late : settled nd -> dn_pt nd = [] /\ dn_pcl nd = [] /\ (d_in_setup (dn_pc nd) = false -> dn_wrun nd = []);
  ok_wc : d_late (dn_pc nd) = true -> dn_wcalc nd = [];
  ok_start : dn_pc nd = QStart -> dn_wrun nd = [] /\ dn_wcalc nd = [];
  ok_setup : dn_pc nd = QSetupWaited -> forall x, In x (t_setup (dt (dn_task nd))) -> In x (dn_wrun nd) \/ recd d nd x;
  ok_done : dn_pc nd = QDone -> dn_st nd = SRun -> forall x, In x (t_setup (dt (dn_task nd))) -> recd d nd x;
  ok_wsel : dn_wsel nd = false;
  ok_task : incl (t_task_dep (dt (dn_task nd))) (dn_at nd) /\ incl (t_calc_dep (dt (dn_task nd))) (dn_ac nd);
  (* what is handed to the runner is never a placeholder object *)
  ok_nl : settled nd -> dt_loader (dn_task nd) = None }.

Definition AC (d : dst) : Prop := forall k, node_ok d (node_of d k).

Lemma new_node_ok d a k t : node_ok d (new_node a k t).
Proof.
  constructor; simpl; try discriminate; auto.
  - intros x Hx. left. exact Hx.
  - intros [H _]. discriminate.
  - split; apply incl_refl.
  - intros [H _]. discriminate.
Qed.

Lemma node_ok_wme d nd w : node_ok d nd -> node_ok d (nd_wme nd w).
Proof. intros [A B B1 B2 C D E F F']. constructor; auto. Qed.

(* statuses that are final stay; nothing else about the state matters for [recd] *)
Definition st_mono (d d' : dst) : Prop := forall x, final d x -> st_of d' x = st_of d x.
Lemma recd_mono d d' nd nd' x : st_mono d d' -> incl (dn_bad nd) (dn_bad nd') -> incl (dn_ign nd) (dn_ign nd') ->
  recd d nd x -> recd d' nd' x.
Proof.
  intros Hm Hb Hi (A & B & C). unfold recd, final. rewrite (Hm x A). split; [exact A|]. split; intro H; auto.
Qed.
Lemma st_mono_same d d' : (forall x, st_of d' x = st_of d x) -> st_mono d d'.
Proof. intros H x _. apply H. Qed.

Lemma acct_mono d d' nd nd' x : st_mono d d' ->
  incl (dn_pt nd ++ dn_pcl nd) (dn_pt nd' ++ dn_pcl nd') -> incl (d_inflight (dn_pc nd)) (d_inflight (dn_pc nd')) ->
  incl (dn_wrun nd ++ dn_wcalc nd) (dn_wrun nd' ++ dn_wcalc nd') ->
  incl (dn_bad nd) (dn_bad nd') -> incl (dn_ign nd) (dn_ign nd') ->
  acct d nd x -> acct d' nd' x.
Proof.
  intros Hm H1 H2 H3 H4 H5 [A|[A|[A|A]]]; unfold acct; auto.
  right; right; right. eapply recd_mono; eauto.
Qed.

Lemma node_ok_mono d d' nd : st_mono d d' -> node_ok d nd -> node_ok d' nd.
Proof.
  intros Hm [A B B1 B2 C D E F F']. constructor; auto.
  - intros x Hx. eapply acct_mono; eauto; apply incl_refl.
  - intros Hp x Hx. destruct (C Hp x Hx) as [X|X]; auto. right. eapply recd_mono; eauto; apply incl_refl.
  - intros Hp Hs x Hx. eapply recd_mono; eauto; apply incl_refl.
Qed.

(* ---------- _process_calc_dep_results, parent_status on the fields ---------- *)
Lemma fold_add_prefix' l : forall a, exists ext, fold_left add_if_new l a = a ++ ext.
Proof.
  induction l as [|x l IH]; intros a; simpl.
  - exists []. rewrite app_nil_r. reflexivity.
  - unfold add_if_new at 2. destruct (mem x a).
    + apply IH.
    + destruct (IH (a ++ [x])) as [ext E]. exists ([x] ++ ext). rewrite E, app_assoc. reflexivity.
Qed.

Lemma process_calc_spec nd ct s : exists newt newc, let nd' := process_calc nd ct s in
  dn_at nd' = dn_at nd ++ newt /\ dn_pt nd' = dn_pt nd ++ newt /\ dn_ac nd' = dn_ac nd ++ newc /\ dn_pcl nd' = dn_pcl nd ++ newc /\
  dn_task nd' = dn_task nd /\ dn_wsel nd' = dn_wsel nd /\ dn_wrun nd' = dn_wrun nd /\ dn_wcalc nd' = dn_wcalc nd /\
  dn_st nd' = dn_st nd /\ dn_bad nd' = dn_bad nd /\ dn_ign nd' = dn_ign nd /\ dn_pc nd' = dn_pc nd.
Proof.
  unfold process_calc. destruct (calc_values_visible s).
  - destruct (fold_add_prefix' (t_calc_new_impl ct) (dn_at nd ++ t_calc_new_task ct)) as [ext E].
    exists (t_calc_new_task ct ++ ext). eexists. simpl. rewrite E, <- app_assoc.
    rewrite skipn_app, skipn_all, Nat.sub_diag. simpl. repeat split; reflexivity.
  - exists [], []. simpl. rewrite !app_nil_r. repeat split; reflexivity.
Qed.

Lemma parent_status_spec nd x s : let nd' := parent_status nd x s in
  dn_at nd' = dn_at nd /\ dn_pt nd' = dn_pt nd /\ dn_ac nd' = dn_ac nd /\ dn_pcl nd' = dn_pcl nd /\
  dn_task nd' = dn_task nd /\ dn_wsel nd' = dn_wsel nd /\ dn_wrun nd' = dn_wrun nd /\ dn_wcalc nd' = dn_wcalc nd /\
  dn_st nd' = dn_st nd /\ incl (dn_bad nd) (dn_bad nd') /\ incl (dn_ign nd) (dn_ign nd') /\ dn_pc nd' = dn_pc nd /\
  (is_failst s = true -> In x (dn_bad nd')) /\ (s = SIgnore -> In x (dn_ign nd')).
Proof.
  destruct s; simpl; repeat split; try reflexivity; try apply incl_refl; try discriminate;
    try (apply incl_appl; apply incl_refl); try (intros _; apply in_app_iff; right; left; reflexivity).
Qed.

(* a node whose lists only grew (pending with the accumulated lists), waits and records only grew, position the same *)
Record grown (nd nd' : dnode) : Prop := {
  g_pc : dn_pc nd' = dn_pc nd; g_st : dn_st nd' = dn_st nd; g_task : dn_task nd' = dn_task nd; g_wsel : dn_wsel nd' = dn_wsel nd;
  g_lists : exists newt newc, dn_at nd' = dn_at nd ++ newt /\ dn_pt nd' = dn_pt nd ++ newt /\
                              dn_ac nd' = dn_ac nd ++ newc /\ dn_pcl nd' = dn_pcl nd ++ newc;
  g_wrun : incl (dn_wrun nd) (dn_wrun nd'); g_wcalc : incl (dn_wcalc nd) (dn_wcalc nd');
  g_bad : incl (dn_bad nd) (dn_bad nd'); g_ign : incl (dn_ign nd) (dn_ign nd') }.

Lemma grown_refl nd : grown nd nd.
Proof. constructor; auto; try apply incl_refl. exists [], []. rewrite !app_nil_r. auto. Qed.
Lemma grown_trans a b c : grown a b -> grown b c -> grown a c.
Proof.
  intros [A1 A2 A3 A4 (t1 & c1 & A5 & A6 & A7 & A8) A9 A10 A11 A12] [B1 B2 B3 B4 (t2 & c2 & B5 & B6 & B7 & B8) B9 B10 B11 B12].
  constructor; try congruence; try (eapply incl_tran; eauto).
  exists (t1 ++ t2), (c1 ++ c2). rewrite B5, B6, B7, B8, A5, A6, A7, A8, !app_assoc. auto.
Qed.
Lemma grown_wme nd w : grown nd (nd_wme nd w).
Proof. constructor; simpl; auto; try apply incl_refl. exists [], []. rewrite !app_nil_r. auto. Qed.
Lemma grown_parent_status nd x s : grown nd (parent_status nd x s).
Proof.
  destruct (parent_status_spec nd x s) as (A1 & A2 & A3 & A4 & A5 & A6 & A7 & A8 & A9 & A10 & A11 & A12 & _).
  constructor; auto; try (rewrite A7; apply incl_refl); try (rewrite A8; apply incl_refl).
  exists [], []. rewrite !app_nil_r. auto.
Qed.
Lemma grown_process_calc nd ct s : grown nd (process_calc nd ct s).
Proof.
  destruct (process_calc_spec nd ct s) as (newt & newc & A1 & A2 & A3 & A4 & A5 & A6 & A7 & A8 & A9 & A10 & A11 & A12).
  constructor; auto; try (rewrite A7; apply incl_refl); try (rewrite A8; apply incl_refl);
    try (rewrite A10; apply incl_refl); try (rewrite A11; apply incl_refl).
  exists newt, newc. auto.
Qed.
Lemma grown_wait nd wr wc : incl (dn_wrun nd) wr -> incl (dn_wcalc nd) wc -> grown nd (nd_wait nd wr wc).
Proof. intros H1 H2. constructor; simpl; auto; try apply incl_refl. exists [], []. rewrite !app_nil_r. auto. Qed.

Lemma acct_grown d d' nd nd' x : st_mono d d' -> grown nd nd' -> acct d nd x -> acct d' nd' x.
Proof.
  intros Hm [A1 A2 A3 A4 (t & c & A5 & A6 & A7 & A8) A9 A10 A11 A12]. apply acct_mono; auto.
  - rewrite A6, A8. intros y Hy. apply in_app_iff in Hy. rewrite !in_app_iff. tauto.
  - rewrite A1. apply incl_refl.
  - intros y Hy. apply in_app_iff in Hy. apply in_app_iff. destruct Hy; auto.
Qed.

(* growth keeps a node in order while it is still collecting dependencies, or waiting for its setup-tasks *)
Lemma node_ok_grown d nd nd' :
  node_ok d nd -> grown nd nd' -> dn_pc nd <> QStart ->
  (d_late (dn_pc nd) = false \/ (d_in_setup (dn_pc nd) = true /\ dn_pt nd' = dn_pt nd /\ dn_pcl nd' = dn_pcl nd /\ dn_wcalc nd' = dn_wcalc nd)) ->
  node_ok d nd'.
Proof.
  intros [A B B1 B2 C D E F F'] G Hq Hc.
  pose proof G as [G1 G2 G3 G4 (t & c & G5 & G6 & G7 & G8) G9 G10 G11 G12].
  assert (Hm : st_mono d d) by (intros y _; reflexivity).
  constructor.
  - intros x Hx. rewrite G5, G7 in Hx.
    assert (Hx' : In x (dn_at nd ++ dn_ac nd) \/ In x (t ++ c)) by (rewrite !in_app_iff in *; tauto).
    destruct Hx' as [Hx'|Hx'].
    + eapply acct_grown; eauto.
    + left. rewrite G6, G8. rewrite !in_app_iff in *. tauto.
  - intros [S1 S2]. rewrite G1 in *. destruct Hc as [Hc|(Hc & P1 & P2 & P3)]; [congruence|].
    destruct B as (B3 & B4 & B5); [split; [exact S1 | rewrite <- G2; exact S2]|].
    rewrite P1, P2. repeat split; auto. intro H. congruence.
  - rewrite G1. intro Hl. destruct Hc as [Hc|(Hc & P1 & P2 & P3)]; [congruence|]. rewrite P3. auto.
  - rewrite G1. intro H. contradiction.
  - rewrite G1, G3. intros Hp x Hx. destruct (C Hp x Hx) as [X|X]; [left; apply G9; exact X|].
    right. eapply recd_mono; eauto.
  - rewrite G1, G2, G3. intros Hp Hs x Hx. eapply recd_mono; eauto.
  - rewrite G4. exact E.
  - rewrite G3, G5, G7. destruct F as [F1 F2]. split; apply incl_appl; assumption.
  - rewrite G3. intros [S1 S2]. rewrite G1, G2 in *. apply F'. split; auto.
Qed.

(* ---------- _node_add_wait_run ---------- *)
Definition same_queues (d d' : dst) : Prop :=
  q_ready d' = q_ready d /\ q_waiting d' = q_waiting d /\ q_cur d' = q_cur d /\ q_torun d' = q_torun d.
Lemma same_queues_trans a b c : same_queues a b -> same_queues b c -> same_queues a c.
Proof. intros (A1 & A2 & A3 & A4) (B1 & B2 & B3 & B4). repeat split; congruence. Qed.
Lemma same_queues_refl a : same_queues a a.
Proof. repeat split. Qed.

Definition wme_only (nd nd' : dnode) : Prop := nd' = nd \/ exists w, nd' = nd_wme nd w.
Lemma wme_only_ok d nd nd' : wme_only nd nd' -> node_ok d nd -> node_ok d nd'.
Proof. intros [->|[w ->]] H; [exact H | apply node_ok_wme; exact H]. Qed.
Lemma wme_only_trans a b c : wme_only a b -> wme_only b c -> wme_only a c.
Proof.
  intros [->|[w ->]] [->|[w' ->]]; try (left; reflexivity); try (right; eexists; reflexivity).
Qed.
Lemma wme_only_grown nd nd' : wme_only nd nd' -> grown nd nd'.
Proof. intros [->|[w ->]]; [apply grown_refl | apply grown_wme]. Qed.

Record aw_spec (calc : bool) (d : dst) (me x : name) (d' : dst) : Prop := {
  aw_bk : bk d d';
  aw_other : forall z, z <> me -> wme_only (node_of d z) (node_of d' z);
  aw_me : grown (node_of d me) (node_of d' me);
  aw_x : if calc then In x (dn_wcalc (node_of d' me)) \/ recd d' (node_of d' me) x
         else In x (dn_wrun (node_of d' me)) \/ recd d' (node_of d' me) x;
  aw_nocalc : calc = false ->
     dn_pt (node_of d' me) = dn_pt (node_of d me) /\ dn_pcl (node_of d' me) = dn_pcl (node_of d me) /\
     dn_wcalc (node_of d' me) = dn_wcalc (node_of d me) /\ dn_at (node_of d' me) = dn_at (node_of d me) /\
     dn_ac (node_of d' me) = dn_ac (node_of d me);
  aw_q : same_queues d d';
  aw_kept : nodes_kept d d' }.

Lemma recd_parent_self d nd x : final d x -> recd d (parent_status nd x (st_of d x)) x.
Proof.
  intro H. destruct (parent_status_spec nd x (st_of d x)) as (_ & _ & _ & _ & _ & _ & _ & _ & _ & _ & _ & _ & B & I).
  split; [exact H|]. split; auto.
Qed.
Lemma recd_grown d nd nd' x : grown nd nd' -> recd d nd x -> recd d nd' x.
Proof. intros G. apply recd_mono; [intros y _; reflexivity | apply G | apply G]. Qed.
Lemma recd_st d d' nd x : (forall y, st_of d' y = st_of d y) -> recd d nd x -> recd d' nd x.
Proof. intros H. apply recd_mono; [apply st_mono_same; exact H | apply incl_refl | apply incl_refl]. Qed.

Lemma add_wait_one_me d me x calc : node_of (add_wait_one d me x calc) me =
  if unfinished (st_of d x)
  then let nb := node_of (set_node d x (nd_wme (node_of d x) (addset me (dn_wme (node_of d x))))) me in
       (if calc then nd_wait nb (dn_wrun nb) (addset x (dn_wcalc nb)) else nd_wait nb (addset x (dn_wrun nb)) (dn_wcalc nb))
  else (let nd1 := parent_status (node_of d me) x (st_of d x) in
        if calc then process_calc nd1 (dt (dn_task (node_of d x))) (st_of d x) else nd1).
Proof. unfold add_wait_one. destruct (unfinished (st_of d x)); apply node_of_set_same. Qed.

Lemma add_wait_one_spec d me x calc : aw_spec calc d me x (add_wait_one d me x calc).
Proof.
  pose proof (bk_add_wait_one d me x calc) as B.
  assert (St : forall y, st_of (add_wait_one d me x calc) y = st_of d y) by (intro y; apply (bk_st _ _ B)).
  constructor; auto.
  - (* other nodes *)
    intros z Hz. unfold add_wait_one. destruct (unfinished (st_of d x)).
    + rewrite node_of_set_other by auto. rewrite node_of_set_node. destruct (N.eqb_spec z x) as [E0|]; [subst z; right; eexists; reflexivity | left; reflexivity].
    + rewrite node_of_set_other by auto. left. reflexivity.
  - (* me grows *)
    unfold add_wait_one. destruct (unfinished (st_of d x)).
    + rewrite node_of_set_same.
      set (nb := node_of (set_node d x (nd_wme (node_of d x) (addset me (dn_wme (node_of d x))))) me).
      assert (Gb : grown (node_of d me) nb).
      { unfold nb. rewrite node_of_set_node. destruct (N.eqb_spec me x) as [->|]; [apply grown_wme | apply grown_refl]. }
      eapply grown_trans; [exact Gb|].
      destruct calc; apply grown_wait; try apply incl_refl; intros y Hy; apply addset_In; auto.
    + rewrite node_of_set_same. destruct calc.
      * eapply grown_trans; [apply grown_parent_status | apply grown_process_calc].
      * apply grown_parent_status.
  - (* x *)
    rewrite (add_wait_one_me d me x calc). destruct (unfinished (st_of d x)) eqn:Eu.
    + destruct calc; left; simpl; apply addset_In; auto.
    + assert (R : recd d (parent_status (node_of d me) x (st_of d x)) x) by (apply recd_parent_self; exact Eu).
      destruct calc; right; apply (recd_st d _ _ x St).
      * eapply recd_grown; [apply grown_process_calc | exact R].
      * exact R.
  - (* calc = false: lists untouched *)
    intros ->. unfold add_wait_one. destruct (unfinished (st_of d x)).
    + rewrite node_of_set_same. simpl. rewrite node_of_set_node.
      destruct (N.eqb_spec me x) as [->|]; simpl; auto 10.
    + rewrite node_of_set_same.
      destruct (parent_status_spec (node_of d me) x (st_of d x)) as (A1 & A2 & A3 & A4 & A5 & A6 & A7 & A8 & _). auto 10.
  - unfold add_wait_one. destruct (unfinished (st_of d x)); [|destruct calc]; repeat split.
  - unfold add_wait_one. destruct (unfinished (st_of d x)).
    + eapply nodes_kept_trans; apply nodes_kept_set.
    + apply nodes_kept_set.
Qed.

Record awr_spec (calc : bool) (d : dst) (me : name) (l : list name) (d' : dst) : Prop := {
  awr_bk : bk d d';
  awr_other : forall z, z <> me -> wme_only (node_of d z) (node_of d' z);
  awr_me : grown (node_of d me) (node_of d' me);
  awr_x : forall x, In x l ->
          if calc then In x (dn_wcalc (node_of d' me)) \/ recd d' (node_of d' me) x
          else In x (dn_wrun (node_of d' me)) \/ recd d' (node_of d' me) x;
  awr_nocalc : calc = false ->
     dn_pt (node_of d' me) = dn_pt (node_of d me) /\ dn_pcl (node_of d' me) = dn_pcl (node_of d me) /\
     dn_wcalc (node_of d' me) = dn_wcalc (node_of d me) /\ dn_at (node_of d' me) = dn_at (node_of d me) /\
     dn_ac (node_of d' me) = dn_ac (node_of d me);
  awr_q : same_queues d d';
  awr_kept : nodes_kept d d' }.

Lemma add_wait_run_spec l : forall d me calc, awr_spec calc d me l (add_wait_run d me l calc).
Proof.
  induction l as [|x r IH]; intros d me calc; cbn [add_wait_run].
  - constructor; auto; try (intros; left; reflexivity); try apply grown_refl; try apply bk_refl; try apply same_queues_refl.
    + intros x [].
    + intros z H; exact H.
  - destruct (add_wait_one_spec d me x calc) as [A1 A2 A3 A4 A5 A6 A7].
    destruct (IH (add_wait_one d me x calc) me calc) as [B1 B2 B3 B4 B5 B6 B7].
    set (d1 := add_wait_one d me x calc) in *. set (d2 := add_wait_run d1 me r calc) in *.
    assert (St2 : forall y, st_of d2 y = st_of d1 y) by (intro y; apply (bk_st _ _ B1)).
    constructor.
    + eapply bk_trans; eauto.
    + intros z Hz. eapply wme_only_trans; [apply A2 | apply B2]; auto.
    + eapply grown_trans; eauto.
    + intros y [<-|Hy]; [|apply B4; exact Hy].
      destruct calc; (destruct A4 as [X|X]; [left; apply B3; exact X | right; apply (recd_st d1 d2 _ _ St2); eapply recd_grown; eauto]).
    + intros Hc. destruct (A5 Hc) as (a1 & a2 & a3 & a4 & a5). destruct (B5 Hc) as (b1 & b2 & b3 & b4 & b5).
      repeat split; congruence.
    + eapply same_queues_trans; eauto.
    + eapply nodes_kept_trans; eauto.
Qed.

(* the invariant through _node_add_wait_run *)
Lemma AC_add_wait_run d me l calc : AC d -> dn_pc (node_of d me) <> QStart ->
  (d_late (dn_pc (node_of d me)) = false \/ (calc = false /\ d_in_setup (dn_pc (node_of d me)) = true)) ->
  AC (add_wait_run d me l calc).
Proof.
  intros I Hq Hc. destruct (add_wait_run_spec l d me calc) as [B O G X NC Q K].
  assert (Hm : st_mono d (add_wait_run d me l calc)) by (apply st_mono_same; intro y; apply (bk_st _ _ B)).
  intro z. destruct (N.eqb_spec z me) as [E0|Hne]; [subst z|].
  - eapply node_ok_mono; [exact Hm|]. eapply node_ok_grown; [apply I | exact G | exact Hq |].
    destruct Hc as [Hc|[Hc1 Hc2]]; [left; exact Hc|]. right. destruct (NC Hc1) as (n1 & n2 & n3 & _). auto.
  - eapply node_ok_mono; [exact Hm|]. eapply wme_only_ok; [apply O; exact Hne | apply I].
Qed.

(* ---------- queue discipline ---------- *)
Definition resumable (d : dst) (k : name) : Prop :=
  dn_pc (node_of d k) = QSetupWaited -> dn_wrun (node_of d k) = [].
Record q_inv (d : dst) : Prop := {
  qi_res : forall z, q_cur d = Some z \/ In z (q_ready d) -> resumable d z;
  qi_nodup : NoDup (q_ready d);
  qi_ready : forall z, In z (q_ready d) -> q_cur d <> Some z /\ ~ In z (q_waiting d);
  qi_wait : forall z, In z (q_waiting d) -> q_cur d <> Some z;
  qi_ex : forall z, In z (q_ready d) \/ In z (q_waiting d) \/ q_cur d = Some z -> q_nodes d z <> None }.

Lemma NoDup_snoc' {A} (l : list A) (x : A) : NoDup l -> ~ In x l -> NoDup (l ++ [x]).
Proof.
  intros Hn Hx. induction Hn as [|y l Hy Hn IH]; simpl.
  - constructor; [intros []|constructor].
  - constructor.
    + rewrite in_app_iff. simpl. intros [H|[H|[]]]; [contradiction|]. subst. apply Hx. left. reflexivity.
    + apply IH. intro H. apply Hx. right. exact H.
Qed.

(* ---------- _update_waiting ---------- *)
Lemma rem_nil x : rem x [] = [].
Proof. reflexivity. Qed.

Lemma wake_node_ok d nd fin ft : node_ok d nd -> final d fin ->
  node_ok d (wake_node nd fin ft (st_of d fin)).
Proof.
  intros Hok Hfin. set (s := st_of d fin). unfold wake_node.
  set (nw := parent_status nd fin s).
  set (nw1 := nd_wait nw (rem fin (dn_wrun nw)) (rem fin (dn_wcalc nw))).
  destruct (parent_status_spec nd fin s) as (P1 & P2 & P3 & P4 & P5 & P6 & P7 & P8 & P9 & P10 & P11 & P12 & P13 & P14).
  fold nw in P1, P2, P3, P4, P5, P6, P7, P8, P9, P10, P11, P12, P13, P14.
  assert (Rf : recd d nw1 fin) by (split; [exact Hfin | split; [apply P13 | apply P14]]).
  assert (Rm : forall x, recd d nd x -> recd d nw1 x).
  { intro x. apply recd_mono; [intros y _; reflexivity | exact P10 | exact P11]. }
  destruct Hok as [A B B1 B2 C D E F F'].
  assert (Ok1 : node_ok d nw1).
  { constructor; simpl.
    - rewrite P1, P3. intros x Hx. destruct (A x Hx) as [X|[X|[X|X]]]; unfold acct; simpl.
      + left. rewrite P2, P4. exact X.
      + right; left. rewrite P12. exact X.
      + destruct (N.eqb_spec x fin) as [E0|Hne]; [subst x; right; right; right; exact Rf|].
        right; right; left. rewrite P7, P8. rewrite in_app_iff in *. rewrite !rem_In. tauto.
      + right; right; right. apply Rm. exact X.
    - unfold settled. simpl. rewrite P12, P9, P2, P4, P7. intros S. destruct (B S) as (b1 & b2 & b3).
      repeat split; auto. intro H. rewrite (b3 H). reflexivity.
    - rewrite P12, P8. intro H. rewrite (B1 H). reflexivity.
    - rewrite P12, P7, P8. intro H. destruct (B2 H) as [-> ->]. auto.
    - rewrite P12, P5, P7. intros Hp x Hx. destruct (C Hp x Hx) as [X|X].
      + destruct (N.eqb_spec x fin) as [E0|Hne]; [subst x; right; exact Rf | left; apply rem_In; auto].
      + right. apply Rm. exact X.
    - rewrite P12, P9, P5. intros Hp Hs x Hx. apply Rm. auto.
    - rewrite P6. exact E.
    - rewrite P5, P1, P3. exact F.
    - unfold settled. simpl. rewrite P12, P9, P5. exact F'. }
  destruct (mem fin (dn_wcalc nd)) eqn:Em; [|exact Ok1].
  apply mem_In in Em.
  assert (Hl : d_late (dn_pc nd) = false).
  { destruct (d_late (dn_pc nd)) eqn:El; auto. rewrite (B1 eq_refl) in Em. destruct Em. }
  eapply node_ok_grown; [exact Ok1 | apply grown_process_calc | |left].
  - simpl. rewrite P12. intro H. destruct (B2 H) as [_ X]. rewrite X in Em. destruct Em.
  - simpl. rewrite P12. exact Hl.
Qed.

(* a node past its dependency loops keeps its lists through a wake-up *)
Lemma wake_node_deps d nd fin ft s : node_ok d nd -> d_late (dn_pc nd) = true ->
  dn_at (wake_node nd fin ft s) = dn_at nd /\ dn_ac (wake_node nd fin ft s) = dn_ac nd /\
  dn_task (wake_node nd fin ft s) = dn_task nd.
Proof.
  intros Hok Hl. unfold wake_node. rewrite (ok_wc _ _ Hok Hl). simpl.
  destruct (parent_status_spec nd fin s) as (P1 & P2 & P3 & P4 & P5 & _). auto.
Qed.

Lemma wake_ready_res d nd fin ft : node_ok d nd ->
  wake_ready nd fin (wake_node nd fin ft (st_of d fin)) = true ->
  dn_pc nd = QSetupWaited -> dn_wrun (wake_node nd fin ft (st_of d fin)) = [].
Proof.
  intros Hok Hw Hp. unfold wake_ready in Hw.
  assert (Hc : dn_wcalc nd = []) by (apply (ok_wc _ _ Hok); rewrite Hp; reflexivity).
  rewrite Hc in Hw. simpl in Hw. apply andb_true_iff in Hw. destruct Hw as [Hw _]. apply is_nil_true in Hw. exact Hw.
Qed.

Record wk_spec (d d' : dst) : Prop := {
  ws_bk : bk d d';
  ws_ac : AC d';
  ws_q : q_inv d';
  ws_kept : nodes_kept d d';
  ws_deps : forall k, d_late (dn_pc (node_of d k)) = true ->
            dn_at (node_of d' k) = dn_at (node_of d k) /\ dn_ac (node_of d' k) = dn_ac (node_of d k) /\
            dn_task (node_of d' k) = dn_task (node_of d k);
  ws_cur : q_cur d' = q_cur d }.

Lemma wake_one_spec d fin ft w : AC d -> q_inv d -> final d fin ->
  wk_spec d (wake_one d fin ft (st_of d fin) w).
Proof.
  intros I Q Hfin.
  pose proof (bk_wake_one d fin ft (st_of d fin) w) as B.
  unfold wake_one in *. set (nd := node_of d w) in *. set (nw2 := wake_node nd fin ft (st_of d fin)) in *.
  set (d1 := set_node d w nw2) in *.
  assert (Ok2 : node_ok d nw2) by (apply wake_node_ok; [apply I | exact Hfin]).
  assert (St1 : forall y, st_of d1 y = st_of d y).
  { intro y. unfold d1. unfold st_of. rewrite node_of_set_node. destruct (N.eqb_spec y w) as [E0|]; [subst y|reflexivity].
    apply wake_node_st'. }
  assert (I1 : AC d1).
  { intro z. eapply node_ok_mono; [apply st_mono_same; exact St1|]. unfold d1. rewrite node_of_set_node.
    destruct (N.eqb z w); [exact Ok2 | apply I]. }
  assert (Hdeps : forall k, d_late (dn_pc (node_of d k)) = true ->
            dn_at (node_of d1 k) = dn_at (node_of d k) /\ dn_ac (node_of d1 k) = dn_ac (node_of d k) /\
            dn_task (node_of d1 k) = dn_task (node_of d k)).
  { intros k Hl. unfold d1. rewrite node_of_set_node. destruct (N.eqb_spec k w) as [E0|]; [subst k|auto].
    apply (wake_node_deps d); auto. }
  assert (Res1 : forall z, resumable d z -> resumable d1 z).
  { intros z Hr. unfold resumable, d1. rewrite node_of_set_node. destruct (N.eqb_spec z w) as [E0|]; [subst z|exact Hr].
    unfold nw2. rewrite wake_node_pc. intro Hp. specialize (Hr Hp). fold nd in Hr.
    unfold wake_node. destruct (mem fin (dn_wcalc nd)).
    - destruct (process_calc_spec (nd_wait (parent_status nd fin (st_of d fin)) (rem fin (dn_wrun (parent_status nd fin (st_of d fin))))
                  (rem fin (dn_wcalc (parent_status nd fin (st_of d fin))))) ft (st_of d fin)) as (? & ? & _ & _ & _ & _ & _ & _ & -> & _).
      simpl. destruct (parent_status_spec nd fin (st_of d fin)) as (_ & _ & _ & _ & _ & _ & -> & _). rewrite Hr. reflexivity.
    - simpl. destruct (parent_status_spec nd fin (st_of d fin)) as (_ & _ & _ & _ & _ & _ & -> & _). rewrite Hr. reflexivity. }
  assert (Q1 : q_inv d1).
  { destruct Q as [q1 q2 q3 q4 q5]. constructor; [ | exact q2 | exact q3 | exact q4 | ].
    - intros z Hz. apply Res1. apply q1. exact Hz.
    - intros z Hz. apply nodes_kept_set. apply q5. exact Hz. }
  destruct (wake_ready nd fin nw2 && mem w (q_waiting d1)) eqn:Ew.
  - apply andb_true_iff in Ew. destruct Ew as [Ew1 Ew2]. apply mem_In in Ew2.
    constructor; auto.
    + intro z. apply (node_ok_mono d1); [intros y _; reflexivity | exact (I1 z)].
    + destruct Q1 as [q1 q2 q3 q4 q5]. change (q_waiting d1) with (q_waiting d) in *. change (q_ready d1) with (q_ready d) in *.
      change (q_cur d1) with (q_cur d) in *.
      assert (Hw : ~ In w (q_ready d)) by (intro H; destruct (q3 w H) as [_ X]; contradiction).
      constructor; simpl.
      * intros z [Hz|Hz]; [apply q1; auto|]. apply in_app_iff in Hz. destruct Hz as [Hz|[<-|[]]]; [apply q1; auto|].
        unfold resumable. change (node_of (set_waiting (set_ready d1 (q_ready d ++ [w])) (rem w (q_waiting d))) w) with (node_of d1 w).
        unfold d1. rewrite node_of_set_same. unfold nw2. rewrite wake_node_pc. apply wake_ready_res; auto. apply I.
      * apply NoDup_snoc'; auto.
      * intros z Hz. apply in_app_iff in Hz. destruct Hz as [Hz|[<-|[]]].
        -- destruct (q3 z Hz) as [X Y]. split; auto. intro H. apply rem_In in H. tauto.
        -- split; [apply q4; exact Ew2|]. intro H. apply rem_In in H. tauto.
      * intros z Hz. apply rem_In in Hz. apply q4. tauto.
      * intros z [Hz|[Hz|Hz]].
        -- apply in_app_iff in Hz. destruct Hz as [Hz|[<-|[]]]; apply q5; auto.
        -- apply rem_In in Hz. apply q5. tauto.
        -- apply q5. auto.
    + intros z Hz. apply nodes_kept_set. exact Hz.
  - constructor; auto. intros z Hz. apply nodes_kept_set. exact Hz.
Qed.

Lemma wk_spec_trans a b c : wk_spec a b -> wk_spec b c -> wk_spec a c.
Proof.
  intros [A1 A2 A3 A4 A5 A6] [B1 B2 B3 B4 B5 B6]. constructor; auto.
  - eapply bk_trans; eauto.
  - eapply nodes_kept_trans; eauto.
  - intros k Hl. destruct (A5 k Hl) as (a1 & a2 & a3).
    destruct (B5 k) as (b1 & b2 & b3); [rewrite (bk_pc _ _ A1); exact Hl|]. repeat split; congruence.
  - congruence.
Qed.

Lemma wake_spec l : forall d fin ft, AC d -> q_inv d -> final d fin ->
  wk_spec d (wake d fin ft (st_of d fin) l).
Proof.
  induction l as [|w r IH]; intros d fin ft I Q Hf; cbn [wake].
  - constructor; auto; try apply bk_refl. intros z H; exact H.
  - pose proof (wake_one_spec d fin ft w I Q Hf) as S1.
    set (d1 := wake_one d fin ft (st_of d fin) w) in *.
    assert (E : st_of d1 fin = st_of d fin) by (apply (bk_st _ _ (ws_bk _ _ S1))).
    assert (Hf1 : final d1 fin) by (unfold final; rewrite E; exact Hf).
    pose proof (IH d1 fin ft (ws_ac _ _ S1) (ws_q _ _ S1) Hf1) as S2. rewrite E in S2.
    eapply wk_spec_trans; eauto.
Qed.

Lemma update_waiting_spec wr d p : AC d -> q_inv d ->
  (forall k, p = Some k -> st_of d k <> SNone) -> wk_spec d (update_waiting wr d p).
Proof.
  intros I Q Hp.
  assert (Refl : wk_spec d d) by (constructor; auto; [apply bk_refl | intros z H; exact H]).
  destruct p as [p|]; cbn [update_waiting]; [|exact Refl].
  specialize (Hp p eq_refl).
  rewrite (ok_wsel _ _ (I p)).
  destruct (dn_st (node_of d p)) eqn:Es; try exact Refl;
    try (assert (Hf : final d p) by (unfold final, st_of; rewrite Es; reflexivity);
         pose proof (wake_spec (wake_order wr p (dn_wme (node_of d p))) d p (dt (dn_task (node_of d p))) I Q Hf) as S;
         unfold st_of in S; rewrite Es in S; exact S).
  exfalso. apply Hp. exact Es.
Qed.

(* ---------- the loader branch touches neither the queues nor (unless it resets me) the nodes ---------- *)
Lemma install_q new : forall d, same_queues d (install d new) /\ q_nodes (install d new) = q_nodes d.
Proof.
  unfold install. induction new as [|[k t] r IH]; intro d; simpl; [split; [apply same_queues_refl | reflexivity]|].
  destruct (IH (set_tab d k (finish_new (q_tg d) t))) as [(A1 & A2 & A3 & A4) B]. split; [repeat split; assumption | exact B].
Qed.
Lemma create_part_q v keys creators d me T d2 : create_part v keys creators d me T = Some d2 ->
  same_queues d d2 /\ q_nodes d2 = q_nodes d.
Proof.
  unfold create_part. intro H.
  destruct (loader_read v d me T) as [T'|]; [|inversion H; subst; split; [apply same_queues_refl | reflexivity]].
  destruct (l_created (q_ld d T')); [inversion H; subst; split; [apply same_queues_refl | reflexivity]|].
  destruct (add_targets _ _) as [tg'|]; [|discriminate]. inversion H; subst. clear H.
  match goal with |- context [install ?dd ?nn] => destruct (install_q nn dd) as [(A1 & A2 & A3 & A4) B] end.
  destruct v; simpl; (split; [repeat split; assumption | exact B]).
Qed.
Lemma load_branch_q v keys creators d me T :
  same_queues d (lres_dst (load_branch v keys creators d me T)) /\
  (lres_reset (load_branch v keys creators d me T) = false -> q_nodes (lres_dst (load_branch v keys creators d me T)) = q_nodes d).
Proof.
  unfold load_branch.
  destruct (create_part v keys creators d me T) as [d2|] eqn:Ec; [|simpl; split; [repeat split | reflexivity]].
  destruct (create_part_q _ _ _ _ _ _ _ Ec) as [Q2 N2].
  destruct (q_rxg d2 me) as [g|].
  - destruct (q_tg d2 (g_target (q_grp d2 g))).
    + simpl. split; [|discriminate]. destruct (dt_loader _); exact Q2.
    + destruct (l_basename (q_ld d2 T)) as [b|]; [|simpl; auto].
      destruct (mem b (g_tasks (q_grp d2 g))); [|simpl; auto].
      destruct (is_nil (rem b (g_tasks (q_grp d2 g)))); [simpl; auto|].
      simpl. split; [|discriminate]. destruct (dt_loader _); exact Q2.
  - simpl. split; [|discriminate]. destruct (dt_loader _); exact Q2.
Qed.

(* ---------- one step of a node's generator ---------- *)
Lemma AC_set_node d k nd : AC d -> dn_st nd = dn_st (node_of d k) -> node_ok d nd -> AC (set_node d k nd).
Proof.
  intros I Hs Hok z.
  assert (Hm : st_mono d (set_node d k nd)).
  { apply st_mono_same. intro y. unfold st_of. rewrite node_of_set_node. destruct (N.eqb_spec y k) as [E0|]; [subst y; exact Hs | reflexivity]. }
  eapply node_ok_mono; [exact Hm|]. rewrite node_of_set_node. destruct (N.eqb z k); [exact Hok | apply I].
Qed.

Lemma AC_bk_same d d' : bk d d' -> (forall k, node_ok d (node_of d' k)) -> AC d'.
Proof.
  intros B H z. eapply node_ok_mono; [|apply H]. apply st_mono_same. intro y. apply (bk_st _ _ B).
Qed.

Lemma AC_gen_node d pa c : AC d -> AC (snd (gen_node d pa c)).
Proof.
  intro I. unfold gen_node. destruct (q_nodes d c) eqn:E.
  - destruct pa as [a|]; [destruct (mem c a)|]; exact I.
  - simpl. apply AC_set_node; auto; [unfold node_of; rewrite E; reflexivity | apply new_node_ok].
Qed.

(* changing the position of a node in order *)
Lemma node_ok_pc d nd p :
  node_ok d nd ->
  (forall x, In x (d_inflight (dn_pc nd)) -> In x (d_inflight p) \/ In x (dn_wrun nd ++ dn_wcalc nd) \/ recd d nd x) ->
  (d_late p = true -> ~ (p = QDone /\ dn_st nd = SNone) ->
     dn_pt nd = [] /\ dn_pcl nd = [] /\ (d_in_setup p = false -> dn_wrun nd = [])) ->
  (d_late p = true -> dn_wcalc nd = []) ->
  (p = QStart -> dn_wrun nd = [] /\ dn_wcalc nd = []) ->
  (p = QSetupWaited -> forall x, In x (t_setup (dt (dn_task nd))) -> In x (dn_wrun nd) \/ recd d nd x) ->
  (p = QDone -> dn_st nd = SRun -> forall x, In x (t_setup (dt (dn_task nd))) -> recd d nd x) ->
  (d_late p = true -> ~ (p = QDone /\ dn_st nd = SNone) -> dt_loader (dn_task nd) = None) ->
  node_ok d (nd_pc nd p).
Proof.
  intros [A B B1 B2 C D E F F'] Ha Hb Hc Hd He Hf Hg. constructor; simpl; auto.
  - intros x Hx. destruct (A x Hx) as [X|[X|[X|X]]]; unfold acct; simpl; auto.
    destruct (Ha x X) as [Y|[Y|Y]]; auto.
  - intros [S1 S2]. simpl in *. apply Hb; auto.
  - intros [S1 S2]. simpl in *. apply Hg; auto.
Qed.

Definition dframe (d d' : dst) : Prop := forall k, st_of d k <> SNone ->
  dn_at (node_of d' k) = dn_at (node_of d k) /\ dn_ac (node_of d' k) = dn_ac (node_of d k) /\
  dn_task (node_of d' k) = dn_task (node_of d k).
Lemma dframe_refl d : dframe d d.
Proof. intros k _. auto. Qed.

Lemma wme_only_deps nd nd' : wme_only nd nd' ->
  dn_at nd' = dn_at nd /\ dn_ac nd' = dn_ac nd /\ dn_task nd' = dn_task nd.
Proof. intros [->|[w ->]]; auto. Qed.

Lemma is_nil_app_false {A} (a b : list A) : negb (is_nil a) || negb (is_nil b) = false -> a = [] /\ b = [].
Proof. destruct a, b; simpl; try discriminate; auto. Qed.

Section DepStep.
Variable v : variant.
Variable keys : list name.
Variable creators : N -> name -> list (name * dtask).
Variable wake_rank : name -> name -> N.
Variable calc_rank : name -> N.

(* what a transition of the generator of [me] keeps.  [q_ok]: the queue discipline, except that after a `yield "wait"` the
   current node is no longer resumable (it is moved to the waiting set by the dispatcher loop right away) *)
Record q_invx (d : dst) : Prop := {
  qx_res : forall z, In z (q_ready d) -> resumable d z;
  qx_nodup : NoDup (q_ready d);
  qx_ready : forall z, In z (q_ready d) -> q_cur d <> Some z /\ ~ In z (q_waiting d);
  qx_wait : forall z, In z (q_waiting d) -> q_cur d <> Some z;
  qx_ex : forall z, In z (q_ready d) \/ In z (q_waiting d) \/ q_cur d = Some z -> q_nodes d z <> None }.

Record gpost (me : name) (d d' : dst) : Prop := {
  gp_ac : AC d';
  gp_q : q_invx d';
  gp_sq : same_queues d d';
  gp_kept : nodes_kept d d';
  gp_frame : dframe d d' }.

(* every other node: same record up to waiting_me, or freshly made *)
Definition others_ok (me : name) (d d' : dst) : Prop :=
  forall z, z <> me -> wme_only (node_of d z) (node_of d' z) \/
                        (q_nodes d z = None /\ dn_pc (node_of d' z) = QStart /\ dn_wrun (node_of d' z) = []).

Lemma q_invx_step me d d' : q_inv d -> q_cur d = Some me -> same_queues d d' -> nodes_kept d d' -> others_ok me d d' -> q_invx d'.
Proof.
  intros [q1 q2 q3 q4 q5] Hc (S1 & S2 & S3 & S4) K O. constructor; rewrite ?S1, ?S2, ?S3.
  - intros z Hz. assert (Hne : z <> me) by (intro; subst; destruct (q3 me Hz); congruence).
    destruct (O z Hne) as [W|(N0 & _)].
    + unfold resumable. destruct W as [->|[w ->]]; apply q1; auto.
    + exfalso. apply (q5 z); auto.
  - exact q2.
  - exact q3.
  - exact q4.
  - intros z Hz. apply K. apply q5. exact Hz.
Qed.

Lemma q_invx_full d me : q_invx d -> q_cur d = Some me -> resumable d me -> q_inv d.
Proof.
  intros [q1 q2 q3 q4 q5] Hc Hr. constructor; auto.
  intros z [Hz|Hz]; [|apply q1; exact Hz]. rewrite Hc in Hz. inversion Hz; subst. exact Hr.
Qed.

Lemma others_ok_wme me d d' : (forall z, z <> me -> wme_only (node_of d z) (node_of d' z)) -> others_ok me d d'.
Proof. intros H z Hz. left. apply H. exact Hz. Qed.

Lemma others_ok_set me d nd : others_ok me d (set_node d me nd).
Proof. intros z Hz. left. left. apply node_of_set_other. exact Hz. Qed.

Lemma others_ok_trans me a b c : others_ok me a b -> (forall z, z <> me -> wme_only (node_of b z) (node_of c z)) ->
  others_ok me a c.
Proof.
  intros H1 H2 z Hz. destruct (H1 z Hz) as [W|(N0 & P & R)].
  - left. eapply wme_only_trans; [exact W | apply H2; exact Hz].
  - right. split; [exact N0|]. destruct (H2 z Hz) as [->|[w ->]]; auto.
Qed.

Lemma dframe_others me d d' : others_ok me d d' ->
  (st_of d me <> SNone -> dn_at (node_of d' me) = dn_at (node_of d me) /\ dn_ac (node_of d' me) = dn_ac (node_of d me) /\
                          dn_task (node_of d' me) = dn_task (node_of d me)) ->
  dframe d d'.
Proof.
  intros O Hme k Hk. destruct (N.eqb_spec k me) as [E0|Hne]; [subst k; auto|].
  destruct (O k Hne) as [W|(N0 & _)]; [apply wme_only_deps; exact W|].
  exfalso. apply Hk. unfold st_of, node_of. rewrite N0. reflexivity.
Qed.

Lemma gp_build me d d1 nd' : q_inv d -> q_cur d = Some me -> AC d1 -> bk d d1 -> same_queues d d1 -> nodes_kept d d1 ->
  others_ok me d d1 -> dn_st nd' = dn_st (node_of d1 me) -> node_ok d1 nd' ->
  (st_of d me <> SNone -> dn_at nd' = dn_at (node_of d me) /\ dn_ac nd' = dn_ac (node_of d me) /\ dn_task nd' = dn_task (node_of d me)) ->
  gpost me d (set_node d1 me nd').
Proof.
  intros Q Hc I1 B SQ K O Hs Hok Hf.
  assert (O' : others_ok me d (set_node d1 me nd')).
  { intros z Hz. rewrite node_of_set_other by auto. apply O. exact Hz. }
  assert (K' : nodes_kept d (set_node d1 me nd')) by (eapply nodes_kept_trans; [exact K | apply nodes_kept_set]).
  constructor; auto.
  - apply AC_set_node; auto.
  - eapply q_invx_step; eauto.
  - apply dframe_others with (me := me); auto. rewrite node_of_set_same. exact Hf.
Qed.

Lemma others_ok_refl me d : others_ok me d d.
Proof. intros z _. left. left. reflexivity. Qed.

Lemma others_ok_gen_node me d pa c : others_ok me d (snd (gen_node d pa c)).
Proof.
  unfold gen_node. destruct (q_nodes d c) eqn:E.
  - destruct pa as [a|]; [destruct (mem c a)|]; apply others_ok_refl.
  - simpl. intros z Hz. rewrite node_of_set_node. destruct (N.eqb_spec z c) as [E0|]; [subst z|left; left; reflexivity].
    right. simpl. auto.
Qed.
Lemma gen_node_me d pa c me : q_nodes d me <> None -> node_of (snd (gen_node d pa c)) me = node_of d me.
Proof.
  intro H. unfold gen_node. destruct (q_nodes d c) eqn:E.
  - destruct pa as [a|]; [destruct (mem c a)|]; reflexivity.
  - simpl. apply node_of_set_other. intro X. subst. contradiction.
Qed.
Lemma same_queues_gen_node d pa c : same_queues d (snd (gen_node d pa c)).
Proof.
  unfold gen_node. destruct (q_nodes d c); [destruct pa as [a|]; [destruct (mem c a)|]|]; repeat split.
Qed.
Lemma nodes_kept_gen_node d pa c : nodes_kept d (snd (gen_node d pa c)).
Proof.
  unfold gen_node. destruct (q_nodes d c); [destruct pa as [a|]; [destruct (mem c a)|]|]; try (intros z H; exact H).
  apply nodes_kept_set.
Qed.

Lemma walk_inflight p c p' : walk_of p = Some (c, p') -> d_inflight p' = d_inflight p /\ d_late p' = d_late p /\
  d_in_setup p' = d_in_setup p /\ p' <> QStart /\ p' <> QSetupWaited /\ p' <> QDone /\ p <> QStart.
Proof.
  destruct p as [| |[|? ?] ? ?|[|? ?] ?| | | |[|? ?]| |]; simpl; intro H; inversion H; subst; simpl; repeat split; discriminate.
Qed.

(* the loader branch: the node restarts with the created task's lists, every other node as it was *)
Lemma load_reset_dep d me T d' : load_branch v keys creators d me T = LReset d' ->
  AC d -> dn_wrun (node_of d me) = [] -> dn_wcalc (node_of d me) = [] ->
  AC d' /\ others_ok me d d' /\ same_queues d d' /\ nodes_kept d d'.
Proof.
  intros H I W1 W2. destruct (load_branch_reset _ _ _ _ _ _ _ H) as [d5 [Eq Nd Rx Ld RT Tab Me Tr Mk]]. subst d'.
  assert (St5 : forall y, st_of d5 y = st_of d y) by (intro y; apply st_of_nodes_eq; exact Nd).
  assert (N5 : forall z, node_ok d (node_of d5 z)).
  { intro z. unfold node_of. rewrite Nd. specialize (I z). unfold node_of in I. destruct (q_nodes d z); [exact I | apply new_node_ok]. }
  assert (Em : dn_wrun (node_of d5 me) = [] /\ dn_wcalc (node_of d5 me) = [] /\ dn_wsel (node_of d5 me) = false).
  { pose proof (ok_wsel _ _ (I me)) as Ws. unfold node_of in *. rewrite Nd. destruct (q_nodes d me); simpl; auto. }
  destruct Em as (E1 & E2 & E3).
  assert (Hm : st_mono d (set_node d5 me (nd_reset (node_of d5 me) (tab_get d5 me)))).
  { apply st_mono_same. intro y. unfold st_of. rewrite node_of_set_node. destruct (N.eqb_spec y me) as [E0|]; [subst y|]; simpl; apply St5. }
  split; [|split; [|split]].
  - intro z. eapply node_ok_mono; [exact Hm|]. rewrite node_of_set_node. destruct (N.eqb z me); [|apply N5].
    constructor; simpl; try discriminate; auto.
    + intros x Hx. left. exact Hx.
    + intros [X _]. discriminate.
    + split; apply incl_refl.
  - intros z Hz. rewrite node_of_set_other by auto. unfold node_of. rewrite Nd.
    destruct (q_nodes d z) eqn:E; [left; left; reflexivity | right; simpl; auto].
  - unfold same_queues. simpl.
    pose proof (load_branch_q v keys creators d me T) as [Q5 _]. rewrite H in Q5. exact Q5.
  - intros z Hz. simpl. unfold upd. destruct (N.eqb z me); [discriminate | rewrite Nd; exact Hz].
Qed.

(* frame for the steps that end a run with a dispatcher error *)
Definition gpost_err (d d' : dst) : Prop := dframe d d'.

Lemma gstep_dep m me d oy d' : m_sel m = None -> run_inv d m -> AC d -> q_inv d -> q_cur d = Some me ->
  gstep v keys creators calc_rank me d oy d' ->
  match oy with
  | Some YInvalidTask | Some (YNotFound _) | Some YKeyError => dframe d d'
  | Some YWait => gpost me d d'
  | _ => gpost me d d' /\ resumable d' me end.
Proof.
  intros Hsel RI I Q Hc G.
  pose proof (rs_ps _ _ RI me) as Pm. unfold ps_node in Pm.
  assert (Sf : sel_is m me = false) by (unfold sel_is; rewrite Hsel; reflexivity). rewrite Sf in Pm.
  destruct Pm as (PE & PSu & _ & _ & _ & PA).
  pose proof (I me) as Okm.
  assert (Hex : q_nodes d me <> None) by (apply (qi_ex _ Q); auto).
  (* transitions that only move the position *)
  assert (Pc : forall p,
     (forall x, In x (d_inflight (dn_pc (node_of d me))) -> In x (d_inflight p) \/ In x (dn_wrun (node_of d me) ++ dn_wcalc (node_of d me)) \/ recd d (node_of d me) x) ->
     (d_late p = true -> ~ (p = QDone /\ dn_st (node_of d me) = SNone) ->
        dn_pt (node_of d me) = [] /\ dn_pcl (node_of d me) = [] /\ (d_in_setup p = false -> dn_wrun (node_of d me) = [])) ->
     (d_late p = true -> dn_wcalc (node_of d me) = []) ->
     (p = QStart -> dn_wrun (node_of d me) = [] /\ dn_wcalc (node_of d me) = []) ->
     (p = QSetupWaited -> forall x, In x (t_setup (dt (dn_task (node_of d me)))) -> In x (dn_wrun (node_of d me)) \/ recd d (node_of d me) x) ->
     (p = QDone -> dn_st (node_of d me) = SRun -> forall x, In x (t_setup (dt (dn_task (node_of d me)))) -> recd d (node_of d me) x) ->
     (d_late p = true -> ~ (p = QDone /\ dn_st (node_of d me) = SNone) -> dt_loader (dn_task (node_of d me)) = None) ->
     gpost me d (set_pc d me p)).
  { intros p Ha Hb Hc' Hd He Hf Hg. unfold set_pc.
    apply gp_build; auto; try apply bk_refl; try apply same_queues_refl; try apply others_ok_refl.
    - intros z H; exact H.
    - apply node_ok_pc; auto. }
  (* after _node_add_wait_run with calc = false *)
  assert (PcW : forall l p,
     dn_pc (node_of d me) <> QStart ->
     (d_late (dn_pc (node_of d me)) = false \/ d_in_setup (dn_pc (node_of d me)) = true) ->
     let d1 := add_wait_run d me l false in
     (forall x, In x (d_inflight (dn_pc (node_of d me))) -> In x (d_inflight p) \/ In x (dn_wrun (node_of d1 me) ++ dn_wcalc (node_of d1 me)) \/ recd d1 (node_of d1 me) x) ->
     (d_late p = true -> ~ (p = QDone /\ dn_st (node_of d me) = SNone) ->
        dn_pt (node_of d1 me) = [] /\ dn_pcl (node_of d1 me) = [] /\ (d_in_setup p = false -> dn_wrun (node_of d1 me) = [])) ->
     (d_late p = true -> dn_wcalc (node_of d1 me) = []) ->
     p <> QStart ->
     (p = QSetupWaited -> forall x, In x (t_setup (dt (dn_task (node_of d me)))) -> In x (dn_wrun (node_of d1 me)) \/ recd d1 (node_of d1 me) x) ->
     (p = QDone -> dn_st (node_of d me) = SRun -> forall x, In x (t_setup (dt (dn_task (node_of d me)))) -> recd d1 (node_of d1 me) x) ->
     (d_late p = true -> ~ (p = QDone /\ dn_st (node_of d me) = SNone) -> dt_loader (dn_task (node_of d me)) = None) ->
     gpost me d (set_pc d1 me p)).
  { intros l p Hq Hcoll d1 Ha Hb Hc' Hd He Hf Hg.
    destruct (add_wait_run_spec l d me false) as [B O Gr X NC SQ K]. fold d1 in B, O, Gr, X, NC, SQ, K.
    destruct (NC eq_refl) as (n1 & n2 & n3 & n4 & n5).
    assert (I1 : AC d1) by (apply AC_add_wait_run; auto; destruct Hcoll; auto).
    assert (Es : dn_st (node_of d1 me) = dn_st (node_of d me)) by apply (bk_st _ _ B).
    assert (Et : dn_task (node_of d1 me) = dn_task (node_of d me)) by apply (k_task _ _ (bk_keep _ _ B)).
    assert (Ep : dn_pc (node_of d1 me) = dn_pc (node_of d me)) by apply (bk_pc _ _ B).
    unfold set_pc. apply gp_build; auto.
    - apply others_ok_wme. exact O.
    - apply node_ok_pc; auto; rewrite ?Ep, ?Es, ?Et; auto. intro X0. contradiction. }
  destruct G; try (rewrite H in *); simpl in PE, PSu.
  - (* start_skip *)
    split; [|unfold resumable, set_pc; rewrite node_of_set_same; discriminate].
    apply Pc; try discriminate.
    + intros x [].
    + intros _ Hn. exfalso. apply Hn. auto.
    + intros _. apply (ok_start _ _ Okm H).
    + intros _ Hs. rewrite PE in Hs by reflexivity. discriminate.
    + intros _ Hn. exfalso. apply Hn. auto.
  - (* start *)
    split; [|unfold resumable, set_pc; rewrite node_of_set_same; discriminate].
    apply Pc; try discriminate. intros x [].
  - (* loop *)
    split; [|unfold resumable; rewrite node_of_set_same; discriminate].
    apply gp_build; auto; try apply bk_refl; try apply same_queues_refl; try apply others_ok_refl.
    + intros z Hz; exact Hz.
    + destruct Okm as [A B B1 B2 C D E F F']. constructor; simpl; try discriminate; auto.
      * intros x Hx. destruct (A x Hx) as [X|[X|[X|X]]]; unfold acct; simpl; auto.
        -- right; left. apply in_app_iff in X. apply in_app_iff. destruct X as [X|X]; [right; exact X | left; apply sort_by_In'; exact X].
        -- rewrite H in X. destruct X.
      * intros [X _]. discriminate.
      * intros [X _]. discriminate.
  - (* calc_nil *)
    split; [|unfold resumable, set_pc; rewrite node_of_set_same; discriminate].
    destruct (add_wait_run_spec calcs d me true) as [B O Gr X NC SQ K].
    set (d1 := add_wait_run d me calcs true) in *.
    assert (I1 : AC d1) by (apply AC_add_wait_run; auto; rewrite H; [discriminate | left; reflexivity]).
    assert (Ep : dn_pc (node_of d1 me) = QCalc [] calcs tks) by (rewrite (bk_pc _ _ B); exact H).
    unfold set_pc. apply gp_build; auto.
    + apply others_ok_wme. exact O.
    + apply node_ok_pc; auto; try discriminate. rewrite Ep. simpl. intros x Hx. apply in_app_iff in Hx.
      destruct Hx as [Hx|Hx]; [|left; exact Hx]. specialize (X x Hx). simpl in X.
      destruct X as [X|X]; [right; left; apply in_app_iff; right; exact X | right; right; exact X].
    + intros Hs. exfalso. apply Hs. apply PE. reflexivity.
  - (* walk_cycle *)
    split.
    + constructor; auto; try apply same_queues_refl; try apply dframe_refl; [|intros z Hz; exact Hz].
      destruct Q as [q1 q2 q3 q4 q5]. constructor; auto.
    + apply (qi_res _ Q). auto.
  - (* walk_new *)
    destruct (walk_inflight _ _ _ H) as (W1 & W2 & W3 & W4 & W5 & W6 & W7).
    assert (E1 : d1 = snd (gen_node d (Some (dn_anc (node_of d me))) c)) by (rewrite H0; reflexivity).
    assert (Em : node_of d1 me = node_of d me) by (rewrite E1; apply gen_node_me; exact Hex).
    split; [|unfold resumable, set_pc; rewrite node_of_set_same; simpl; intro X; contradiction].
    unfold set_pc. apply gp_build; auto; rewrite ?E1.
    + apply AC_gen_node; exact I.
    + apply bk_gen_node.
    + apply same_queues_gen_node.
    + apply nodes_kept_gen_node.
    + apply others_ok_gen_node.
    + rewrite <- E1, Em. pose proof (AC_gen_node d (Some (dn_anc (node_of d me))) c I me) as Ok1. rewrite <- E1, Em in Ok1.
      destruct Ok1 as [A B B1 B2 C D E F F'].
      apply node_ok_pc; [constructor; auto | | | | | | |]; try (intro X; contradiction).
      * rewrite W1. auto.
      * intros Hl Hn. rewrite W3. apply B. split; [rewrite <- W2; exact Hl|]. intros [X _]. rewrite X in H. discriminate.
      * rewrite W2. exact B1.
      * intros Hl Hn. apply F'. split; [rewrite <- W2; exact Hl|]. intros [X _]. rewrite X in H. discriminate.
    + rewrite <- E1, Em. intros _. simpl. auto.
  - (* walk_old *)
    destruct (walk_inflight _ _ _ H) as (W1 & W2 & W3 & W4 & W5 & W6 & W7).
    assert (E1 : d1 = snd (gen_node d (Some (dn_anc (node_of d me))) c)) by (rewrite H0; reflexivity).
    assert (Em : node_of d1 me = node_of d me) by (rewrite E1; apply gen_node_me; exact Hex).
    split; [|unfold resumable, set_pc; rewrite node_of_set_same; simpl; intro X; contradiction].
    unfold set_pc. apply gp_build; auto; rewrite ?E1.
    + apply AC_gen_node; exact I.
    + apply bk_gen_node.
    + apply same_queues_gen_node.
    + apply nodes_kept_gen_node.
    + apply others_ok_gen_node.
    + rewrite <- E1, Em. pose proof (AC_gen_node d (Some (dn_anc (node_of d me))) c I me) as Ok1. rewrite <- E1, Em in Ok1.
      destruct Ok1 as [A B B1 B2 C D E F F'].
      apply node_ok_pc; [constructor; auto | | | | | | |]; try (intro X; contradiction).
      * rewrite W1. auto.
      * intros Hl Hn. rewrite W3. apply B. split; [rewrite <- W2; exact Hl|]. intros [X _]. rewrite X in H. discriminate.
      * rewrite W2. exact B1.
      * intros Hl Hn. apply F'. split; [rewrite <- W2; exact Hl|]. intros [X _]. rewrite X in H. discriminate.
    + rewrite <- E1, Em. intros _. simpl. auto.
  - (* task_again *)
    split; [|unfold resumable, set_pc; rewrite node_of_set_same; discriminate].
    destruct (add_wait_run_spec tks d me false) as [B O Gr X NC SQ K]. unfold d1 in *.
    apply (PcW tks QLoop); rewrite ?H; try discriminate; auto.
    simpl. intros x Hx. specialize (X x Hx). simpl in X. destruct X as [X|X]; [right; left; apply in_app_iff; left; exact X | auto].
  - (* task_wait *)
    destruct (add_wait_run_spec tks d me false) as [B O Gr X NC SQ K]. unfold d1 in *.
    apply (PcW tks QLoop); rewrite ?H; try discriminate; auto.
    simpl. intros x Hx. specialize (X x Hx). simpl in X. destruct X as [X|X]; [right; left; apply in_app_iff; left; exact X | auto].
  - (* task_reset *)
    destruct (add_wait_run_spec tks d me false) as [B O Gr X NC SQ K]. fold d1 in B, O, Gr, X, NC, SQ, K.
    assert (I1 : AC d1) by (apply AC_add_wait_run; auto; rewrite H; [discriminate | left; reflexivity]).
    apply is_nil_app_false in H1. destruct H1 as [Wr Wc].
    destruct (load_reset_dep d1 me T d2 H3 I1 Wr Wc) as (I2 & O2 & Q2 & K2).
    assert (O' : others_ok me d d2).
    { intros z Hz. destruct (O2 z Hz) as [W|(N0 & P0 & R0)].
      - left. eapply wme_only_trans; [apply O; exact Hz | exact W].
      - destruct (q_nodes d z) eqn:E; [exfalso; apply (K z); [rewrite E; discriminate | exact N0]|]. right. auto. }
    destruct (fr_load_reset _ _ _ _ _ _ _ H3) as (_ & Ep2 & _).
    split; [|unfold resumable; rewrite Ep2; discriminate].
    constructor; auto.
    + eapply q_invx_step; eauto; [eapply same_queues_trans; eauto | eapply nodes_kept_trans; eauto].
    + eapply same_queues_trans; eauto.
    + eapply nodes_kept_trans; eauto.
    + apply dframe_others with (me := me); auto. intro Hs. exfalso. apply Hs. apply PE. reflexivity.
  - (* task_err *)
    destruct (add_wait_run_spec tks d me false) as [B O Gr X NC SQ K]. fold d1 in B, O, Gr, X, NC, SQ, K.
    pose proof (load_branch_q v keys creators d1 me T) as [_ Nn]. rewrite H3 in Nn. specialize (Nn H4).
    assert (Fr : dframe d (lres_dst l)).
    { intros k Hk. assert (Ek : q_nodes d k <> None).
      { intro E. apply Hk. unfold st_of, node_of. rewrite E. reflexivity. }
      assert (E2 : node_of (lres_dst l) k = node_of d1 k).
      { unfold node_of. rewrite Nn. specialize (K k Ek). destruct (q_nodes d1 k); [reflexivity | contradiction]. }
      rewrite E2. destruct (N.eqb_spec k me) as [E0|Hne]; [subst k|apply wme_only_deps; apply O; exact Hne].
      destruct (NC eq_refl) as (_ & _ & _ & n4 & n5). repeat split; auto. apply (k_task _ _ (bk_keep _ _ B)). }
    destruct l; try discriminate; exact Fr.
  - (* task_self *)
    apply is_nil_app_false in H0. destruct H0 as [P1 P2]. apply is_nil_app_false in H1. destruct H1 as [Wr Wc].
    split; [|unfold resumable, set_pc; rewrite node_of_set_same; discriminate].
    destruct (add_wait_run_spec tks d me false) as [B O Gr X NC SQ K]. unfold d1 in *.
    assert (b5 : dt_loader (dn_task (node_of d me)) = None) by (rewrite <- (k_task _ _ (bk_keep _ _ B)); exact H2).
    apply (PcW tks QSelf); rewrite ?H; try discriminate.
    + left. reflexivity.
    + simpl. intros x Hx. specialize (X x Hx). simpl in X. destruct X as [X|X]; [right; left; apply in_app_iff; left; exact X | auto].
    + intros _ _. repeat split; auto.
    + intros _. exact Wc.
    + intros _ _. exact b5.
  - (* self *)
    split; [|unfold resumable, set_pc; rewrite node_of_set_same; discriminate].
    destruct (ok_late _ _ Okm) as (b1 & b2 & b3); [split; [rewrite H; reflexivity | rewrite H; intros [X _]; discriminate]|].
    rewrite H in b3; specialize (b3 eq_refl).
    pose proof (ok_wc _ _ Okm) as b4. rewrite H in b4. specialize (b4 eq_refl).
    assert (b5 : dt_loader (dn_task (node_of d me)) = None)
      by (apply (ok_nl _ _ Okm); split; [rewrite H; reflexivity | rewrite H; intros [X _]; discriminate]).
    apply Pc; try discriminate.
    + intros x [].
    + intros _ _. repeat split; auto.
    + intros _. exact b4.
    + intros _ _. exact b5.
  - (* after_nosetup *)
    split; [|unfold resumable, set_pc; rewrite node_of_set_same; discriminate].
    destruct (ok_late _ _ Okm) as (b1 & b2 & b3); [split; [rewrite H; reflexivity | rewrite H; intros [X _]; discriminate]|].
    rewrite H in b3; specialize (b3 eq_refl).
    pose proof (ok_wc _ _ Okm) as b4. rewrite H in b4. specialize (b4 eq_refl).
    assert (b5 : dt_loader (dn_task (node_of d me)) = None)
      by (apply (ok_nl _ _ Okm); split; [rewrite H; reflexivity | rewrite H; intros [X _]; discriminate]).
    apply Pc; try discriminate.
    + intros x [].
    + intros _ _. repeat split; auto.
    + intros _. exact b4.
    + intros _ _ x Hx. apply is_nil_true in H0. rewrite H0 in Hx. destruct Hx.
    + intros _ _. exact b5.
  - (* after_none: impossible, the runner has answered *)
    exfalso. specialize (PA eq_refl H1). discriminate.
  - (* after_st *)
    split; [|unfold resumable, set_pc; rewrite node_of_set_same; discriminate].
    destruct (ok_late _ _ Okm) as (b1 & b2 & b3); [split; [rewrite H; reflexivity | rewrite H; intros [X _]; discriminate]|].
    rewrite H in b3; specialize (b3 eq_refl).
    pose proof (ok_wc _ _ Okm) as b4. rewrite H in b4. specialize (b4 eq_refl).
    assert (b5 : dt_loader (dn_task (node_of d me)) = None)
      by (apply (ok_nl _ _ Okm); split; [rewrite H; reflexivity | rewrite H; intros [X _]; discriminate]).
    apply Pc; try discriminate.
    + intros x [].
    + intros _ _. repeat split; auto.
    + intros _. exact b4.
    + intros _ _. exact b5.
  - (* asw_run *)
    split; [|unfold resumable, set_pc; rewrite node_of_set_same; discriminate].
    destruct (ok_late _ _ Okm) as (b1 & b2 & b3); [split; [rewrite H; reflexivity | rewrite H; intros [X _]; discriminate]|].
    rewrite H in b3; specialize (b3 eq_refl).
    pose proof (ok_wc _ _ Okm) as b4. rewrite H in b4. specialize (b4 eq_refl).
    assert (b5 : dt_loader (dn_task (node_of d me)) = None)
      by (apply (ok_nl _ _ Okm); split; [rewrite H; reflexivity | rewrite H; intros [X _]; discriminate]).
    apply Pc; try discriminate.
    + intros x [].
    + intros _ _. repeat split; auto.
    + intros _. exact b4.
    + intros _ _. exact b5.
  - (* asw_end *)
    split; [|unfold resumable, set_pc; rewrite node_of_set_same; discriminate].
    destruct (ok_late _ _ Okm) as (b1 & b2 & b3); [split; [rewrite H; reflexivity | rewrite H; intros [X _]; discriminate]|].
    rewrite H in b3; specialize (b3 eq_refl).
    pose proof (ok_wc _ _ Okm) as b4. rewrite H in b4. specialize (b4 eq_refl).
    assert (b5 : dt_loader (dn_task (node_of d me)) = None)
      by (apply (ok_nl _ _ Okm); split; [rewrite H; reflexivity | rewrite H; intros [X _]; discriminate]).
    apply Pc; try discriminate.
    + intros x [].
    + intros _ _. repeat split; auto.
    + intros _. exact b4.
    + intros _ Hs. contradiction.
    + intros _ _. exact b5.
  - (* setup_self *)
    split; [|unfold resumable, set_pc; rewrite node_of_set_same; discriminate].
    destruct (ok_late _ _ Okm) as (b1 & b2 & b3); [split; [rewrite H; reflexivity | rewrite H; intros [X _]; discriminate]|].
    pose proof (ok_wc _ _ Okm) as b4. rewrite H in b4. specialize (b4 eq_refl).
    assert (b5 : dt_loader (dn_task (node_of d me)) = None)
      by (apply (ok_nl _ _ Okm); split; [rewrite H; reflexivity | rewrite H; intros [X _]; discriminate]).
    destruct (add_wait_run_spec (t_setup (dt (dn_task (node_of d me)))) d me false) as [B O Gr X NC SQ K]. unfold d1 in *.
    destruct (NC eq_refl) as (n1 & n2 & n3 & _). apply is_nil_true in H0.
    apply (PcW (t_setup (dt (dn_task (node_of d me)))) QDone); rewrite ?H; try discriminate.
    + right. reflexivity.
    + intros x [].
    + intros _ _. rewrite n1, n2. repeat split; auto.
    + intros _. rewrite n3. exact b4.
    + intros _ _ x Hx. specialize (X x Hx). simpl in X. rewrite H0 in X. destruct X as [[]|X]. exact X.
    + intros _ _. exact b5.
  - (* setup_wait *)
    destruct (ok_late _ _ Okm) as (b1 & b2 & b3); [split; [rewrite H; reflexivity | rewrite H; intros [X _]; discriminate]|].
    pose proof (ok_wc _ _ Okm) as b4. rewrite H in b4. specialize (b4 eq_refl).
    assert (b5 : dt_loader (dn_task (node_of d me)) = None)
      by (apply (ok_nl _ _ Okm); split; [rewrite H; reflexivity | rewrite H; intros [X _]; discriminate]).
    destruct (add_wait_run_spec (t_setup (dt (dn_task (node_of d me)))) d me false) as [B O Gr X NC SQ K]. unfold d1 in *.
    destruct (NC eq_refl) as (n1 & n2 & n3 & _).
    apply (PcW (t_setup (dt (dn_task (node_of d me)))) QSetupWaited); rewrite ?H; try discriminate.
    + right. reflexivity.
    + intros x [].
    + intros _ _. rewrite n1, n2. repeat split; auto. discriminate.
    + intros _. rewrite n3. exact b4.
    + intros _ x Hx. apply (X x Hx).
    + intros _ _. exact b5.
  - (* waited *)
    split; [|unfold resumable, set_pc; rewrite node_of_set_same; discriminate].
    destruct (ok_late _ _ Okm) as (b1 & b2 & b3); [split; [rewrite H; reflexivity | rewrite H; intros [X _]; discriminate]|].
    assert (Wr : dn_wrun (node_of d me) = []) by (apply (qi_res _ Q me); auto).
    assert (b5 : dt_loader (dn_task (node_of d me)) = None)
      by (apply (ok_nl _ _ Okm); split; [rewrite H; reflexivity | rewrite H; intros [X _]; discriminate]).
    apply Pc; try discriminate.
    + intros x [].
    + intros _ _. repeat split; auto.
    + intros _. apply (ok_wc _ _ Okm). rewrite H. reflexivity.
    + intros _ _ x Hx. destruct (ok_setup _ _ Okm H x Hx) as [X|X]; [rewrite Wr in X; destruct X | exact X].
    + intros _ _. exact b5.
  - (* done *)
    split.
    + constructor; auto; try apply same_queues_refl; try apply dframe_refl; [|intros z Hz; exact Hz].
      destruct Q as [q1 q2 q3 q4 q5]. constructor; auto.
    + apply (qi_res _ Q). auto.
Qed.
End DepStep.

(* ---------- dependencies of a node and the trace ---------- *)
(* task_dep and calc_dep as accumulated by the node (declared ones, implicit ones added at creation, and what finished calc_dep
   tasks returned), the setup-tasks, and -- redundantly, they are included in the accumulated lists -- the declared lists *)
Definition deps_of (nd : dnode) : list name :=
  dn_at nd ++ dn_ac nd ++ t_setup (dt (dn_task nd)) ++ t_task_dep (dt (dn_task nd)) ++ t_calc_dep (dt (dn_task nd)).

(* tasks selected for execution: all dependencies reported good *)
Definition TG (d : dst) (m : mon) : Prop :=
  forall k, In k (m_torun m) -> forall x, In x (deps_of (node_of d k)) -> is_good (st_of d x) = true.
(* every execution in the trace is preceded by a good report of every dependency of the node (as it is now) *)
Definition ex_ok (d : dst) : Prop :=
  forall pre k post, q_tr d = pre ++ Ev (EExecute k) :: post ->
  forall x, In x (deps_of (node_of d k)) -> good_in x pre.

Record J2 (d : dst) (m : mon) : Prop := {
  j_run : run_inv d m; j_ac : AC d; j_q : q_inv d; j_tg : TG d m; j_ex : ex_ok d }.
(* an executed task is never a placeholder object *)
Definition nl_ok (d : dst) : Prop := forall k, (1 <= n_exec k (q_tr d))%nat -> dt_loader (dn_task (node_of d k)) = None.
Definition W2 (d : dst) : Prop := wk d /\ ex_ok d /\ nl_ok d.

Lemma started_no_loader d m k : run_inv d m -> AC d -> st_of d k <> SNone -> dt_loader (dn_task (node_of d k)) = None.
Proof.
  intros RI I Hs. apply (ok_nl _ _ (I k)). pose proof (rs_ps _ _ RI k) as Pk. unfold ps_node in Pk. destruct Pk as (PE & _).
  split.
  - destruct (dn_pc (node_of d k)); simpl in *; auto; exfalso; apply Hs; apply PE; reflexivity.
  - intros [_ X]. apply Hs. exact X.
Qed.

Lemma J2_nl d m : J2 d m -> nl_ok d.
Proof.
  intros [RI I _ _ _] k Hk. eapply started_no_loader; eauto.
  intro Hs. rewrite (rs_none _ _ RI k Hs) in Hk. lia.
Qed.
Lemma J2_W2 d m : J2 d m -> W2 d.
Proof. intros I. pose proof (J2_nl d m I). destruct I as [A _ _ _ E]. split; [eapply run_inv_wk; eauto | split; [exact E | assumption]]. Qed.

Lemma app_split_mid {A} (e : A) : forall pre post a b, pre ++ e :: post = a ++ b -> ~ In e b ->
  exists post0, a = pre ++ e :: post0 /\ post = post0 ++ b.
Proof.
  induction pre as [|p pre IH]; intros post a b H Hn.
  - destruct a as [|x a]; simpl in H.
    + exfalso. apply Hn. rewrite <- H. left. reflexivity.
    + inversion H; subst. exists a. auto.
  - destruct a as [|x a]; simpl in H.
    + exfalso. apply Hn. rewrite <- H. right. apply in_app_iff. right. left. reflexivity.
    + inversion H; subst. destruct (IH post a b H2 Hn) as (post0 & E1 & E2). exists post0. subst. auto.
Qed.

Lemma n_exec_pos k l : In (Ev (EExecute k)) l -> (1 <= n_exec k l)%nat.
Proof.
  induction l as [|e l IH]; intros []; unfold n_exec in *; simpl.
  - subst e. simpl. rewrite N.eqb_refl. simpl. lia.
  - specialize (IH H). destruct (is_exec_of k e); simpl; lia.
Qed.

Lemma deps_of_frame d d' k : dframe d d' -> st_of d k <> SNone -> deps_of (node_of d' k) = deps_of (node_of d k).
Proof. intros F H. destruct (F k H) as (A & B & C). unfold deps_of. rewrite A, B, C. reflexivity. Qed.

Lemma ex_ok_step d d' m es : run_inv d m -> ex_ok d -> q_tr d' = q_tr d ++ es -> (forall k, n_exec k es = 0%nat) -> dframe d d' -> ex_ok d'.
Proof.
  intros RI E Et Hn F pre k post Hsplit x Hx. rewrite Et in Hsplit.
  destruct (app_split_mid _ _ _ _ _ (eq_sym Hsplit)) as (post0 & E1 & E2).
  { intro Hin. apply n_exec_pos in Hin. rewrite (Hn k) in Hin. lia. }
  assert (Hs : st_of d k <> SNone).
  { intro Hs. pose proof (rs_none _ _ RI k Hs) as Z. rewrite E1, n_exec_app in Z. unfold n_exec at 2 in Z. simpl in Z.
    rewrite N.eqb_refl in Z. simpl in Z. lia. }
  rewrite (deps_of_frame d d' k F Hs) in Hx. eapply E; eauto.
Qed.

Lemma TG_step d d' m : run_inv d m -> TG d m -> (forall k, st_of d' k = st_of d k) -> dframe d d' -> TG d' m.
Proof.
  intros RI T St F k Hk x Hx. destruct (rs_torun _ _ RI k Hk) as [Sk _].
  rewrite (deps_of_frame d d' k F) in Hx by (rewrite Sk; discriminate). rewrite St. eapply T; eauto.
Qed.

Lemma TG_sel d m o : TG d m -> TG d (set_sel m o).
Proof. intros T k Hk. apply T. exact Hk. Qed.

Lemma bk_dframe_same d d' : (forall k, node_of d' k = node_of d k) -> dframe d d'.
Proof. intros H k _. rewrite H. auto. Qed.

(* queue operations of the dispatcher loop *)
Lemma J2_requeue d d' m : run_inv d m -> AC d -> TG d m -> ex_ok d ->
  (forall k, node_of d' k = node_of d k) -> q_tr d' = q_tr d -> q_inv d' -> J2 d' m.
Proof.
  intros A B D E Hn Ht Q.
  assert (St : forall k, st_of d' k = st_of d k) by (intro k; unfold st_of; rewrite Hn; reflexivity).
  constructor; auto.
  - apply (run_inv_neutral d d' m []); auto; [rewrite app_nil_r; exact Ht | apply neutral_nil].
  - intro k. rewrite Hn. eapply node_ok_mono; [apply st_mono_same; exact St | apply B].
  - eapply TG_step; eauto. apply bk_dframe_same. exact Hn.
  - apply (ex_ok_step d d' m []); auto; [rewrite app_nil_r; exact Ht | apply bk_dframe_same; exact Hn].
Qed.

Lemma J2_bk_step d d' m : J2 d m -> bk d d' -> AC d' -> q_inv d' -> dframe d d' -> J2 d' m.
Proof.
  intros [A B C D E] Bk I Q F. constructor; auto.
  - eapply bk_run_inv; eauto.
  - eapply TG_step; eauto. intro k. apply (bk_st _ _ Bk).
  - apply (ex_ok_step d d' m []); auto. rewrite app_nil_r; apply (k_tr _ _ (bk_keep _ _ Bk)).
Qed.

Lemma early_late p : d_early p = false -> d_late p = true.
Proof. destruct p; simpl; auto; discriminate. Qed.

Lemma q_inv_same_nodes d d' : q_inv d -> q_ready d' = q_ready d -> q_waiting d' = q_waiting d -> q_cur d' = q_cur d ->
  (forall z, q_nodes d z <> None -> q_nodes d' z <> None) ->
  (forall z, q_nodes d z <> None -> dn_pc (node_of d' z) = dn_pc (node_of d z) /\ dn_wrun (node_of d' z) = dn_wrun (node_of d z)) ->
  q_inv d'.
Proof.
  intros [q1 q2 q3 q4 q5] E1 E2 E3 K Hn. constructor; rewrite ?E1, ?E2, ?E3; auto.
  intros z Hz. unfold resumable. destruct (Hn z) as [-> ->]; [apply q5; tauto|]. apply q1. exact Hz.
Qed.

Section DepDisp.
Variable v : variant.
Variable keys : list name.
Variable creators : N -> name -> list (name * dtask).
Variable wake_rank : name -> name -> N.
Variable calc_rank : name -> N.

Definition ts (d d' : dst) : Prop :=
  (exists es, q_tr d' = q_tr d ++ es /\ neutral es) /\ (forall k, st_of d' k = st_of d k).
Lemma ts_refl d : ts d d.
Proof. split; [exists []; rewrite app_nil_r; split; [reflexivity | apply neutral_nil] | reflexivity]. Qed.
Lemma ts_trans a b c : ts a b -> ts b c -> ts a c.
Proof.
  intros [(e1 & E1 & N1) S1] [(e2 & E2 & N2) S2]. split.
  - exists (e1 ++ e2). rewrite E2, E1, app_assoc. split; [reflexivity | apply neutral_app; auto].
  - intro k. rewrite S2. apply S1.
Qed.
Lemma ts_bk d d' : bk d d' -> ts d d'.
Proof.
  intro B. split; [|intro k; apply (bk_st _ _ B)].
  exists []. rewrite app_nil_r. split; [apply (k_tr _ _ (bk_keep _ _ B)) | apply neutral_nil].
Qed.
Lemma ts_set_pc d me p : ts d (set_pc d me p).
Proof.
  split; [exists []; rewrite app_nil_r; split; [reflexivity | apply neutral_nil]|].
  intro k. unfold set_pc, st_of. rewrite node_of_set_node. destruct (N.eqb_spec k me) as [E0|]; [subst k|]; reflexivity.
Qed.

Lemma gstep_tr me d oy d' : gstep v keys creators calc_rank me d oy d' -> ts d d'.
Proof.
  intro G. destruct G; try apply ts_set_pc; try apply ts_refl;
    try (eapply ts_trans; [apply ts_bk; apply bk_add_wait_run | apply ts_set_pc]).
  - (* loop *)
    split; [exists []; rewrite app_nil_r; split; [reflexivity | apply neutral_nil]|].
    intro k. unfold st_of. rewrite node_of_set_node. destruct (N.eqb_spec k me) as [E0|]; [subst k|]; reflexivity.
  - apply (ts_trans d d1); [apply ts_bk; change d1 with (snd (GNew, d1)); rewrite <- H0; apply bk_gen_node | apply ts_set_pc].
  - apply (ts_trans d d1); [apply ts_bk; change d1 with (snd (GOld, d1)); rewrite <- H0; apply bk_gen_node | apply ts_set_pc].
  - (* reset *)
    eapply ts_trans; [apply ts_bk; apply bk_add_wait_run|].
    destruct (fr_load_reset _ _ _ _ _ _ _ H3) as ([Tr St _ _] & _). split; [exact Tr | exact St].
  - (* error *)
    eapply ts_trans; [apply ts_bk; apply bk_add_wait_run|].
    pose proof (load_branch_error v keys creators d1 me T) as He. rewrite H3 in He.
    assert (X : tr_step v d1 me T (q_tr (lres_dst l))) by (destruct l; [discriminate | exact He | exact He | exact He]).
    split; [exact (tr_step_neutral _ _ _ _ _ X)|].
    pose proof (load_branch_q v keys creators d1 me T) as [_ Nn]. rewrite H3 in Nn. specialize (Nn H4).
    intro k. apply st_of_nodes_eq. exact Nn.
  - (* after_none *)
    split; [exists []; rewrite app_nil_r; split; [reflexivity | apply neutral_nil]|].
    intro k. unfold st_of. rewrite node_of_set_node. destruct (N.eqb_spec k me) as [E0|]; [subst k|]; reflexivity.
Qed.

Lemma gstep_node_new me d k d' : gstep v keys creators calc_rank me d (Some (YNode k)) d' ->
  q_nodes d k = None /\ dn_pc (node_of d' k) = QStart /\ k <> me /\ q_nodes d' k <> None.
Proof.
  intro G. remember (Some (YNode k)) as oy eqn:Eo. destruct G; try discriminate.
  - inversion Eo; subst c. clear Eo. unfold gen_node in H0. destruct (q_nodes d k) eqn:E.
    + destruct (mem k (dn_anc (node_of d me))); discriminate.
    + inversion H0; subst. split; [reflexivity|].
      assert (Hne : k <> me).
      { intro X. subst k. unfold node_of in H. rewrite E in H. simpl in H. discriminate. }
      split; [|split; [exact Hne|]].
      * unfold set_pc. rewrite node_of_set_other by auto. rewrite node_of_set_same. reflexivity.
      * unfold set_pc. simpl. unfold upd. rewrite (proj2 (N.eqb_neq _ _) Hne), N.eqb_refl. discriminate.
  - destruct l; discriminate.
Qed.

(* what a yield of node me's generator leaves *)
Definition gq2 (m : mon) (me : name) (y : gyield) (d' : dst) : Prop :=
  match y with
  | YSelf => J2 d' (set_sel m (Some me)) /\ q_cur d' = Some me
  | YInvalidTask | YNotFound _ | YKeyError => W2 d'
  | YWait => run_inv d' m /\ AC d' /\ q_invx d' /\ TG d' m /\ ex_ok d' /\ q_cur d' = Some me
  | YNode k => (J2 d' m /\ q_cur d' = Some me) /\ q_nodes d' k <> None /\ dn_pc (node_of d' k) = QStart /\ k <> me /\
               ~ In k (q_ready d') /\ ~ In k (q_waiting d')
  | _ => J2 d' m /\ q_cur d' = Some me end.

Lemma gstep_J2 m me d oy d' : m_sel m = None -> J2 d m -> q_cur d = Some me ->
  gstep v keys creators calc_rank me d oy d' ->
  match oy with None => J2 d' m /\ q_cur d' = Some me | Some y => gq2 m me y d' end.
Proof.
  intros Hsel [RI I Q T E] Hc G.
  pose proof (gstep_inv v keys creators wake_rank calc_rank m me d oy d' Hsel RI G) as G1.
  pose proof (gstep_dep v keys creators calc_rank m me d oy d' Hsel RI I Q Hc G) as G2.
  destruct (gstep_tr me d oy d' G) as ((es & Et & Hn) & St).
  assert (Part : forall m', gpost me d d' -> run_inv d' m' -> m_torun m' = m_torun m ->
            run_inv d' m' /\ AC d' /\ q_invx d' /\ TG d' m' /\ ex_ok d' /\ q_cur d' = Some me).
  { intros m' [ga gb gc gd ge] R' Ht.
    assert (Hc' : q_cur d' = Some me) by (destruct gc as (_ & _ & X & _); rewrite X; exact Hc).
    split; [exact R'|]. split; [exact ga|]. split; [exact gb|]. split; [|split; [|exact Hc']].
    - intros k Hk. rewrite Ht in Hk. exact (TG_step d d' m RI T St ge k Hk).
    - apply (ex_ok_step d d' m es); auto. intro k0. apply (Hn k0). }
  assert (Full : forall m', gpost me d d' /\ resumable d' me -> run_inv d' m' -> m_torun m' = m_torun m ->
            J2 d' m' /\ q_cur d' = Some me).
  { intros m' [gp gr] R' Ht. destruct (Part m' gp R' Ht) as (a & b & c & e & f & g).
    split; [|exact g]. constructor; auto. eapply q_invx_full; eauto. }
  assert (Err : dframe d d' -> wk d' -> W2 d').
  { intros F Wk. split; [exact Wk|]. split; [apply (ex_ok_step d d' m es); auto; intro k0; apply (Hn k0)|].
    intros k0 Hk0. rewrite Et, n_exec_app in Hk0. destruct (Hn k0) as [X _]. rewrite X in Hk0.
    assert (Hs : st_of d k0 <> SNone) by (intro Hs; rewrite (rs_none _ _ RI k0 Hs) in Hk0; lia).
    destruct (F k0 Hs) as (_ & _ & Etk). rewrite Etk. eapply started_no_loader; eauto. }
  destruct oy as [y|]; [|apply Full; auto].
  destruct y; cbn [gq gq2] in *; try (apply Full; auto; fail); try (apply Err; auto; fail).
  - (* YNode *)
    split; [apply Full; auto|].
    destruct (gstep_node_new me d k d' G) as (N0 & P0 & Hne & N1).
    destruct G2 as [[ga gb gc gd ge] gr]. destruct gc as (q1 & q2 & q3 & q4).
    split; [exact N1|]. split; [exact P0|]. split; [exact Hne|]. rewrite q1, q2.
    split; intro H; apply (qi_ex _ Q k); auto.
  - (* YWait *) apply Part; auto.
Qed.

Lemma gen_step_J2 m me f d : m_sel m = None -> J2 d m -> q_cur d = Some me ->
  gq2 m me (fst (gen_step v keys creators calc_rank f d me)) (snd (gen_step v keys creators calc_rank f d me)).
Proof.
  intros Hs I Hc.
  apply (gen_step_ind v keys creators calc_rank (fun d => J2 d m /\ q_cur d = Some me) (gq2 m me) me); auto.
  - intros d0 d' [I0 C0] G. exact (gstep_J2 m me d0 None d' Hs I0 C0 G).
  - intros d0 y d' [I0 C0] G. exact (gstep_J2 m me d0 (Some y) d' Hs I0 C0 G).
Qed.

Lemma update_waiting_J2 m d p : J2 d m -> (forall k, p = Some k -> st_of d k <> SNone) ->
  J2 (update_waiting wake_rank d p) m.
Proof.
  intros I Hp. destruct (update_waiting_spec wake_rank d p (j_ac _ _ I) (j_q _ _ I) Hp) as [B A Q K Dp Cu].
  eapply J2_bk_step; eauto.
  intros k Hk. apply Dp. apply early_late.
  destruct (d_early (dn_pc (node_of d k))) eqn:E; auto.
  exfalso. apply Hk. pose proof (rs_ps _ _ (j_run _ _ I) k) as Pk. unfold ps_node in Pk. destruct Pk as (PE & _). apply PE. exact E.
Qed.

Lemma gen_node_J2 m d pa c : J2 d m -> J2 (snd (gen_node d pa c)) m.
Proof.
  intro I. eapply J2_bk_step; eauto.
  - apply bk_gen_node.
  - apply AC_gen_node. apply (j_ac _ _ I).
  - destruct (same_queues_gen_node d pa c) as (s1 & s2 & s3 & s4).
    apply (q_inv_same_nodes d); auto; [apply (j_q _ _ I) | apply nodes_kept_gen_node|].
    intros z Hz. rewrite gen_node_me by auto. auto.
  - intros k Hk. unfold gen_node. destruct (q_nodes d c) eqn:E; [destruct pa as [a|]; [destruct (mem c a)|]; auto|].
    simpl. rewrite node_of_set_node. destruct (N.eqb_spec k c) as [E0|]; [subst k|auto].
    unfold node_of. rewrite E. simpl. auto.
Qed.

Lemma next_from_torun_J2 m l : forall d, J2 d m -> q_cur d = None -> q_ready d = [] ->
  match next_from_torun d l with
  | (Some x, d1) => J2 (set_cur d1 (Some x)) m
  | (None, d1) => J2 d1 m end.
Proof.
  induction l as [|y r IH]; intros d I Hc Hr; cbn [next_from_torun].
  - destruct I as [A B C D E]. apply (J2_requeue d); auto. destruct C as [q1 q2 q3 q4 q5]. constructor; auto.
  - pose proof (gen_node_J2 m d None y I) as I1.
    destruct (same_queues_gen_node d None y) as (s1 & s2 & s3 & s4).
    assert (New : fst (gen_node d None y) = GNew -> q_nodes d y = None /\ dn_pc (node_of (snd (gen_node d None y)) y) = QStart /\
                                                   q_nodes (snd (gen_node d None y)) y <> None).
    { unfold gen_node. destruct (q_nodes d y) eqn:E; simpl; [discriminate|]. intros _. rewrite node_of_set_same. simpl.
      unfold upd. rewrite N.eqb_refl. repeat split; auto. discriminate. }
    destruct (gen_node d None y) as [g d1]. cbn [fst snd] in *.
    destruct g; try (apply IH; [exact I1 | congruence | congruence]).
    destruct (New eq_refl) as (N0 & P0 & N1).
    destruct I1 as [A B C D E]. apply (J2_requeue d1); auto.
    destruct C as [q1 q2 q3 q4 q5]. rewrite s1, s2, s3 in *. rewrite Hr, Hc in *.
    constructor; simpl; rewrite ?s1, ?s2.
    + intros z [Hz|[]]. inversion Hz; subst z. unfold resumable.
      change (node_of (set_cur (set_torun d1 r) (Some y)) y) with (node_of d1 y). rewrite P0. discriminate.
    + constructor.
    + intros z [].
    + intros z Hz X. inversion X; subst z. apply (qi_ex _ (j_q _ _ I) y); auto.
    + intros z [[]|[Hz|Hz]]; [apply q5; auto|]. inversion Hz; subst z. exact N1.
Qed.

Definition dq2 (m : mon) (y : dyield) (d' : dst) : Prop :=
  match y with
  | DTask k => J2 d' (set_sel m (Some k))
  | DInvalidTask | DNotFound _ | DKeyError => W2 d'
  | _ => J2 d' m end.

Lemma J2_take_ready m d x r : J2 d m -> q_cur d = None -> q_ready d = x :: r -> J2 (set_cur (set_ready d r) (Some x)) m.
Proof.
  intros [A B C D E] Hc Hr. apply (J2_requeue d); auto.
  destruct C as [q1 q2 q3 q4 q5]. rewrite Hr in *. inversion q2; subst.
  constructor; simpl.
  + intros z [Hz|Hz]; [inversion Hz; subst z; apply q1; right; left; reflexivity | apply q1; right; right; exact Hz].
  + assumption.
  + intros z Hz. split; [intro X; inversion X; subst z; contradiction | apply (q3 z); right; exact Hz].
  + intros z Hz X. inversion X; subst z. destruct (q3 x (or_introl eq_refl)) as [_ Y]. contradiction.
  + intros z [Hz|[Hz|Hz]]; apply q5; [left; right; exact Hz | right; left; exact Hz | left; left; inversion Hz; reflexivity].
Qed.

(* what the dispatcher loop does with a yield of the current node's generator *)
Definition after_yield (m : mon) (me : name) (y : gyield) (d1 : dst) : Prop :=
  match y with
  | YEnd => J2 (set_cur d1 None) m
  | YSelf => J2 d1 (set_sel m (Some me))
  | YNode k => J2 (set_ready d1 (q_ready d1 ++ [k])) m
  | YWait => J2 (set_cur (set_waiting d1 (addset me (q_waiting d1))) None) m
  | YInvalidTask | YNotFound _ | YKeyError => W2 d1
  | _ => J2 d1 m end.

Lemma J2_after_yield m me y d1 : gq2 m me y d1 -> after_yield m me y d1.
Proof.
  intro G. destruct y; cbn [gq2 after_yield] in *; try exact G; try (destruct G as [G _]; exact G).
  + (* YNode *)
    destruct G as ([[A B C D E] Hc1] & N1 & P0 & Hne & R0 & W0). apply (J2_requeue d1); auto.
    destruct C as [q1 q2 q3 q4 q5]. constructor; simpl.
    * intros z [Hz|Hz]; [apply q1; auto|]. apply in_app_iff in Hz. destruct Hz as [Hz|[<-|[]]]; [apply q1; auto|].
      unfold resumable. change (node_of (set_ready d1 (q_ready d1 ++ [k])) k) with (node_of d1 k). rewrite P0. discriminate.
    * apply NoDup_snoc'; auto.
    * intros z Hz. apply in_app_iff in Hz. destruct Hz as [Hz|[<-|[]]]; [apply q3; exact Hz|].
      split; [rewrite Hc1; intro X; inversion X; congruence | exact W0].
    * exact q4.
    * intros z [Hz|[Hz|Hz]]; [|apply q5; auto|apply q5; auto].
      apply in_app_iff in Hz. destruct Hz as [Hz|[<-|[]]]; [apply q5; auto | exact N1].
  + (* YWait *)
    destruct G as (A & B & [q1 q2 q3 q4 q5] & D & E & Hc1). apply (J2_requeue d1); auto.
    constructor; simpl.
    * intros z [Hz|Hz]; [discriminate | apply q1; exact Hz].
    * exact q2.
    * intros z Hz. split; [discriminate|]. destruct (q3 z Hz) as [X Y]. intro H. apply addset_In in H.
      destruct H as [->|H]; [apply X; exact Hc1 | contradiction].
    * intros z _. discriminate.
    * intros z [Hz|[Hz|Hz]]; [apply q5; auto | | discriminate].
      apply addset_In in Hz. destruct Hz as [->|Hz]; apply q5; auto.
  + (* YEnd *)
    destruct G as [[A B C D E] Hc1]. apply (J2_requeue d1); auto.
    destruct C as [q1 q2 q3 q4 q5]. constructor; simpl; auto.
    * intros z [Hz|Hz]; [discriminate | apply q1; auto].
    * intros z Hz. split; [discriminate | apply (q3 z Hz)].
    * intros z _. discriminate.
    * intros z [Hz|[Hz|Hz]]; [apply q5; auto | apply q5; auto | discriminate].
Qed.

Lemma disp_run_J2 m fuel d : m_sel m = None -> J2 d m ->
  dq2 m (fst (disp_run v keys creators calc_rank fuel d)) (snd (disp_run v keys creators calc_rank fuel d)).
Proof.
  intros Hs I.
  apply (disp_run_ind v keys creators calc_rank (fun d => J2 d m) (dq2 m)); auto.
  - intros d0 x r I0 Hc Hr. apply J2_take_ready; auto.
  - intros d0 I0 Hc Hr. pose proof (next_from_torun_J2 m (q_torun d0) d0 I0 Hc Hr) as H.
    destruct (next_from_torun d0 (q_torun d0)) as [[x|] d1]; [exact H|]. destruct (is_nil (q_waiting d1)); exact H.
  - intros d0 me f I0 Hc. cbv zeta. pose proof (J2_after_yield m me _ _ (gen_step_J2 m me f d0 Hs I0 Hc)) as G.
    destruct (gen_step v keys creators calc_rank f d0 me) as [y d1]. cbn [fst snd] in *.
    destruct y; cbn [after_yield dq2] in *; exact G.
Qed.

Lemma disp_send_J2 m fuel d p : m_sel m = None -> J2 d m -> sent_ok d p = true ->
  dq2 m (fst (disp_send v keys creators wake_rank calc_rank fuel d p)) (snd (disp_send v keys creators wake_rank calc_rank fuel d p)).
Proof.
  intros Hs I Hp. unfold disp_send. apply disp_run_J2; auto. apply update_waiting_J2; auto.
  intros k ->. unfold sent_ok in Hp. intro X. rewrite X in Hp. discriminate.
Qed.
End DepDisp.

(* ---------- the runner's calls ---------- *)
Lemma node_ok_st_change d d' nd s : st_mono d d' -> node_ok d nd ->
  ~ (dn_pc nd = QDone /\ dn_st nd = SNone) -> (dn_pc nd = QDone -> s = SRun -> dn_st nd = SRun) ->
  node_ok d' (nd_st nd s).
Proof.
  intros Hm Hok Hx Hd. apply (node_ok_mono d d'); auto.
  destruct Hok as [A B B1 B2 C D E F F']. constructor; simpl; auto.
  - intros [S1 S2]. simpl in *. apply B. split; auto.
  - intros Hp Hs y Hy. apply (D Hp (Hd Hp Hs) y Hy).
  - intros [S1 S2]. simpl in *. apply F'. split; auto.
Qed.

(* a runner call that changes at most the status of the unfinished node k *)
Lemma J2_parts_reff d k s es d' : reff d k s es d' -> unfinished (st_of d k) = true ->
  AC d -> q_inv d ->
  ~ (dn_pc (node_of d k) = QDone /\ dn_st (node_of d k) = SNone) ->
  (dn_pc (node_of d k) = QDone -> s = SRun -> dn_st (node_of d k) = SRun) ->
  AC d' /\ q_inv d' /\ dframe d d' /\ st_mono d d'.
Proof.
  intros [Rt Rn (Rq1 & Rq2 & Rq3 & Rq4) Rtab Rk] U I Q Hx Hd.
  assert (Hm : st_mono d d').
  { intros x Hf. unfold st_of. rewrite Rn. destruct (N.eqb_spec x k) as [E0|]; [subst x|reflexivity].
    unfold final in Hf. rewrite U in Hf. discriminate. }
  split; [|split; [|split]]; auto.
  - intro z. rewrite Rn. destruct (N.eqb_spec z k) as [E0|].
    + apply (node_ok_st_change d d'); auto.
    + apply (node_ok_mono d d'); auto.
  - apply (q_inv_same_nodes d); auto. intros z _. rewrite Rn. destruct (N.eqb_spec z k) as [E0|]; [subst z|]; auto.
  - intros z _. rewrite Rn. destruct (N.eqb_spec z k) as [E0|]; [subst z|]; auto.
Qed.

Lemma recd_good d nd x : recd d nd x -> dn_bad nd = [] -> dn_ign nd = [] -> is_good (st_of d x) = true.
Proof.
  intros (F & B & I) Hb Hi. rewrite Hb in B. rewrite Hi in I. unfold final in F.
  destruct (st_of d x); simpl in *; auto; try discriminate; try (destruct B; reflexivity); destruct I; reflexivity.
Qed.

(* a node that the dispatcher handed over and that waits for nothing: every dependency is recorded *)
Lemma handed_recd d nd x : node_ok d nd -> settled nd -> d_in_setup (dn_pc nd) = false ->
  d_inflight (dn_pc nd) = [] -> In x (dn_at nd ++ dn_ac nd) -> recd d nd x.
Proof.
  intros Hok S Hs Hi Hx. destruct (ok_late _ _ Hok S) as (p1 & p2 & p3).
  pose proof (ok_wc _ _ Hok (proj1 S)) as p4. specialize (p3 Hs).
  destruct (ok_acc _ _ Hok x Hx) as [X|[X|[X|X]]]; auto.
  - rewrite p1, p2 in X. destruct X.
  - rewrite Hi in X. destruct X.
  - rewrite p3, p4 in X. destruct X.
Qed.

Lemma J2_exec d k m : J2 d m -> In k (m_torun m) ->
  J2 (emitd d [Ev (EExecute k)]) {| m_sel := m_sel m; m_torun := rem k (m_torun m); m_running := k :: m_running m |}.
Proof.
  intros [RI I Q T E] Hk. set (d' := emitd d [Ev (EExecute k)]).
  constructor.
  - apply run_inv_exec; auto.
  - intro z. apply (node_ok_mono d); [intros y _; reflexivity | apply I].
  - apply (q_inv_same_nodes d); auto.
  - intros x Hx. cbn [m_torun] in Hx. apply rem_In in Hx. apply (T x). tauto.
  - intros pre k0 post Hs y Hy. unfold d' in Hs. simpl in Hs.
    change (node_of d' k0) with (node_of d k0) in Hy.
    destruct (@exists_last _ (Ev (EExecute k0) :: post)) as (q & z & Hq); [discriminate|].
    rewrite Hq, app_assoc in Hs. apply app_inj_tail in Hs. destruct Hs as [E1 E2]. subst z.
    destruct q as [|a q].
    + simpl in Hq. inversion Hq; subst. rewrite app_nil_r in E1. subst pre.
      apply (rs_good _ _ RI). eapply T; eauto.
    + simpl in Hq. inversion Hq; subst. eapply E; eauto.
Qed.

Lemma J2_drop_running d m k : J2 d m -> J2 d {| m_sel := m_sel m; m_torun := m_torun m; m_running := rem k (m_running m) |}.
Proof. intros [RI I Q T E]. constructor; auto. apply run_inv_drop_running. exact RI. Qed.

Lemma J2_emitd d m es : J2 d m -> neutral es -> J2 (emitd d es) m.
Proof.
  intros [RI I Q T E] Hn. constructor.
  - apply run_inv_emitd; auto.
  - intro z. apply (node_ok_mono d); [intros y _; reflexivity | apply I].
  - apply (q_inv_same_nodes d); auto.
  - intros x Hx y Hy. apply (T x Hx y Hy).
  - apply (ex_ok_step d (emitd d es) m es); auto; [intro k; apply (Hn k) | intros k _; auto].
Qed.

Lemma W2_emitd d es : W2 d -> neutral es -> W2 (emitd d es).
Proof.
  intros (Wk & E & NL) Hn. split; [apply wk_emitd; auto|]. split.
  - intros pre k post Hs x Hx. simpl in Hs. change (node_of (emitd d es) k) with (node_of d k) in Hx.
    destruct (app_split_mid _ _ _ _ _ (eq_sym Hs)) as (post0 & E1 & E2).
    { intro Hin. apply n_exec_pos in Hin. destruct (Hn k) as [X _]. lia. }
    eapply E; eauto.
  - intros k Hk. simpl in Hk. rewrite n_exec_app in Hk. destruct (Hn k) as [X _]. rewrite X in Hk.
    change (node_of (emitd d es) k) with (node_of d k). apply NL. lia.
Qed.

Section DepRun.
Variable v : variant.
Variable keys : list name.
Variable creators : N -> name -> list (name * dtask).
Variable wake_rank : name -> name -> N.
Variable calc_rank : name -> N.
Variable continue_ always : bool.

Lemma J2_select_task r k m : J2 (r_d r) m -> m_sel m = Some k ->
  J2 (r_d (snd (select_task continue_ always r k)))
     {| m_sel := None; m_torun := if fst (select_task continue_ always r k) then k :: m_torun m else m_torun m; m_running := m_running m |} /\
  st_of (r_d (snd (select_task continue_ always r k))) k <> SNone.
Proof.
  intros [RI I Q T E] Hsel.
  destruct (run_inv_select_task continue_ always r k m RI Hsel) as [RI' Hst]. split; [|exact Hst].
  destruct (select_task_out continue_ always r k) as (s & es & Ho & R).
  set (d := r_d r) in *. set (d' := r_d (snd (select_task continue_ always r k))) in *.
  set (b := fst (select_task continue_ always r k)) in *.
  pose proof (rs_ps _ _ RI k) as Pk. unfold ps_node in Pk.
  destruct Pk as (_ & _ & _ & _ & PS & _). rewrite (proj2 (sel_is_true m k) Hsel) in PS. specialize (PS eq_refl).
  assert (U : unfinished (st_of d k) = true) by (unfold st_of; destruct PS as [[_ ->]|(_ & -> & _)]; reflexivity).
  destruct (sel_out_about _ _ _ _ _ Ho U) as [(Ax & _) _].
  destruct (J2_parts_reff d k s es d' R U I Q) as (I' & Q' & F & Hm).
  { destruct PS as [[Ep _]|(_ & Es & _)]; intros [X Y]; congruence. }
  { intros Ep _. destruct PS as [[Ep' _]|(_ & Es & _)]; [congruence | exact Es]. }
  constructor; auto.
  - (* the tasks to run have good dependencies *)
    intros x Hx y Hy. cbn [m_torun] in Hx.
    assert (Hcase : (b = true /\ x = k) \/ In x (m_torun m)) by (destruct b; [destruct Hx; auto | auto]).
    destruct Hcase as [[Hb ->]|Hin].
    + (* k was just selected for execution *)
      assert (Ek : deps_of (node_of d' k) = deps_of (node_of d k)).
      { unfold deps_of. rewrite (re_node _ _ _ _ _ R k), N.eqb_refl. reflexivity. }
      rewrite Ek in Hy.
      assert (Hbi : dn_ign (node_of d k) = [] /\ dn_bad (node_of d k) = [] /\
                    (dn_st (node_of d k) = SNone -> is_nil (t_setup (dt (dn_task (node_of d k)))) = true)).
      { rewrite Hb in Ho. inversion Ho; subst; auto. }
      destruct Hbi as (Hi & Hbad & Hset).
      assert (Hy' : In y (dn_at (node_of d k) ++ dn_ac (node_of d k)) \/ In y (t_setup (dt (dn_task (node_of d k))))).
      { destruct (ok_task _ _ (I k)) as [T1 T2]. unfold deps_of in Hy. rewrite !in_app_iff in Hy. rewrite in_app_iff.
        destruct Hy as [Hy|[Hy|[Hy|[Hy|Hy]]]]; auto. }
      assert (Rec : recd d (node_of d k) y).
      { destruct Hy' as [Hy'|Hy'].
        - apply handed_recd; auto.
          + destruct PS as [[Ep Es]|(Ep & Es & _)]; split; rewrite Ep; try reflexivity; intros [X Y]; congruence.
          + destruct PS as [[Ep Es]|(Ep & Es & _)]; rewrite Ep; reflexivity.
          + destruct PS as [[Ep Es]|(Ep & Es & _)]; rewrite Ep; reflexivity.
        - destruct PS as [[Ep Es]|(Ep & Es & _)].
          + apply is_nil_true in Hset; auto. rewrite Hset in Hy'. destruct Hy'.
          + apply (ok_done _ _ (I k) Ep Es y Hy'). }
      pose proof (recd_good _ _ _ Rec Hbad Hi) as G.
      rewrite (Hm y (proj1 Rec)). exact G.
    + destruct (rs_torun _ _ RI x Hin) as [Sx _].
      rewrite (deps_of_frame d d' x F) in Hy by (rewrite Sx; discriminate).
      pose proof (T x Hin y Hy) as G.
      assert (Fy : final d y) by (unfold final; destruct (st_of d y); simpl in *; auto; discriminate).
      rewrite (Hm y Fy). exact G.
  - apply (ex_ok_step d d' m (map Ev es)); auto. apply R.
Qed.

Lemma J2_process_result r k m : J2 (r_d r) m -> In k (m_running m) ->
  J2 (r_d (process_result continue_ r k)) {| m_sel := m_sel m; m_torun := m_torun m; m_running := rem k (m_running m) |} /\
  st_of (r_d (process_result continue_ r k)) k <> SNone.
Proof.
  intros I2 Hk. pose proof I2 as [RI I Q T E].
  destruct (run_inv_process_result continue_ r k m RI Hk) as [RI' Hst]. split; [|exact Hst].
  destruct (rs_running _ _ RI k Hk) as [Sk _].
  destruct (process_result_out continue_ r k) as [Eq|(s & es & R & Us & (Ax & _))].
  - rewrite Eq. apply J2_drop_running. exact I2.
  - set (d := r_d r) in *. set (d' := r_d (process_result continue_ r k)) in *.
    assert (U : unfinished (st_of d k) = true) by (rewrite Sk; reflexivity).
    destruct (J2_parts_reff d k s es d' R U I Q) as (I' & Q' & F & Hm).
    { intros [_ X]. unfold st_of in Sk. congruence. }
    { intros _ X. subst s. discriminate. }
    constructor; auto.
    + intros x Hx y Hy. cbn [m_torun] in Hx. destruct (rs_torun _ _ RI x Hx) as [Sx _].
      rewrite (deps_of_frame d d' x F) in Hy by (rewrite Sx; discriminate).
      pose proof (T x Hx y Hy) as G.
      assert (Fy : final d y) by (unfold final; destruct (st_of d y); simpl in *; auto; discriminate).
      rewrite (Hm y Fy). exact G.
    + apply (ex_ok_step d d' m (map Ev es)); auto. apply R.
Qed.

Lemma J2_send m fuel d p : m_sel m = None -> J2 d m -> sent_ok d p = true ->
  match fst (disp_send v keys creators wake_rank calc_rank fuel d p) with
  | DTask k => J2 (snd (disp_send v keys creators wake_rank calc_rank fuel d p)) (set_sel m (Some k))
  | DInvalidTask | DNotFound _ | DKeyError => W2 (snd (disp_send v keys creators wake_rank calc_rank fuel d p))
  | _ => J2 (snd (disp_send v keys creators wake_rank calc_rank fuel d p)) m end.
Proof. intros Hs I Hp. exact (disp_send_J2 v keys creators wake_rank calc_rank m fuel d p Hs I Hp). Qed.
End DepRun.

(* ---------- (2) dependencies first ---------- *)
Definition fresh_queues (d : dst) : Prop := q_ready d = [] /\ q_waiting d = [] /\ q_cur d = None.

Lemma J2_init d : (forall k, q_nodes d k = None) -> q_tr d = [] -> fresh_queues d -> J2 d mon0.
Proof.
  intros Hn Ht (Q1 & Q2 & Q3). constructor.
  - apply run_inv_init; auto.
  - intro k. unfold node_of. rewrite Hn. apply new_node_ok.
  - constructor; rewrite ?Q1, ?Q2, ?Q3.
    + intros z [H|[]]. discriminate.
    + constructor.
    + intros z [].
    + intros z [].
    + intros z [[]|[[]|H]]. discriminate.
  - intros k [].
  - intros pre k post H. rewrite Ht in H. destruct pre; discriminate.
Qed.

Lemma ex_ok_marker d s pre k post x : ex_ok d -> q_tr d ++ stop_marker s = pre ++ Ev (EExecute k) :: post ->
  In x (deps_of (node_of d k)) -> good_in x pre.
Proof.
  intros E Hs Hx. destruct (app_split_mid _ _ _ _ _ (eq_sym Hs)) as (post0 & E1 & E2).
  { intro Hin. apply n_exec_pos in Hin. destruct (neutral_stop_marker s k) as [X _]. lia. }
  eapply E; eauto.
Qed.

Section DepTheorems.
Variable v : variant.
Variable keys : list name.
Variable creators : N -> name -> list (name * dtask).
Variable wake_rank : name -> name -> N.
Variable calc_rank : name -> N.
Variable continue_ always : bool.

(* the node of k as the run leaves it *)
Definition node_after_serial (fuel : nat) (d0 : dst) (k : name) : dnode :=
  node_of (r_d (fst (serial v keys creators wake_rank calc_rank continue_ always fuel (r_init d0) None))) k.
Definition node_after_script (fuel : nat) (ops : list sop) (d0 : dst) (k : name) : dnode :=
  node_of (r_d (fst (run_ops v keys creators wake_rank calc_rank continue_ always fuel ops (r_init d0)))) k.

Theorem serial_deps_first fuel d0 : init_ok d0 -> fresh_queues d0 ->
  forall pre k post x,
    fst (run_serial v keys creators wake_rank calc_rank continue_ always fuel d0) = pre ++ Ev (EExecute k) :: post ->
    In x (deps_of (node_after_serial fuel d0 k)) -> good_in x pre.
Proof.
  intros [Hn Ht _ _] Hq pre k post x.
  pose proof (serial_generic v keys creators wake_rank calc_rank continue_ always J2 W2 J2_W2
                (J2_send v keys creators wake_rank calc_rank) (J2_select_task continue_ always) J2_exec
                (J2_process_result continue_) W2_emitd
                fuel (r_init d0) None (J2_init d0 Hn Ht Hq)) as H.
  unfold run_serial, node_after_serial.
  destruct (serial v keys creators wake_rank calc_rank continue_ always fuel (r_init d0) None) as [r s].
  cbn [fst snd] in *. destruct H as (_ & E & _); [intros k0 Hk; discriminate|].
  intros Hs Hx. eapply ex_ok_marker; eauto.
Qed.

Theorem script_deps_first fuel ops d0 : init_ok d0 -> fresh_queues d0 ->
  wf_script v keys creators wake_rank calc_rank continue_ always fuel ops d0 = true ->
  forall pre k post x,
    fst (run_script v keys creators wake_rank calc_rank continue_ always fuel ops d0) = pre ++ Ev (EExecute k) :: post ->
    In x (deps_of (node_after_script fuel ops d0 k)) -> good_in x pre.
Proof.
  intros [Hn Ht _ _] Hq Hwf pre k post x.
  pose proof (script_generic v keys creators wake_rank calc_rank continue_ always J2 W2 J2_W2
                (J2_send v keys creators wake_rank calc_rank) (J2_select_task continue_ always) J2_exec
                (J2_process_result continue_) J2_emitd W2_emitd
                fuel ops d0 (J2_init d0 Hn Ht Hq) Hwf) as H.
  unfold run_script, node_after_script.
  destruct (run_ops v keys creators wake_rank calc_rank continue_ always fuel ops (r_init d0)) as [r s].
  cbn [fst snd] in *. destruct H as (_ & E & _).
  intros Hs Hx. eapply ex_ok_marker; eauto.
Qed.

(* what is executed is the task object the node holds at the end of the run -- after a possible reset: the created task --
   and that object is no placeholder (its loader attribute is DelayedLoaded) *)
Theorem serial_executed_no_loader fuel d0 : init_ok d0 -> fresh_queues d0 -> forall k,
  In (Ev (EExecute k)) (fst (run_serial v keys creators wake_rank calc_rank continue_ always fuel d0)) ->
  dt_loader (dn_task (node_after_serial fuel d0 k)) = None.
Proof.
  intros [Hn Ht _ _] Hq k.
  pose proof (serial_generic v keys creators wake_rank calc_rank continue_ always J2 W2 J2_W2
                (J2_send v keys creators wake_rank calc_rank) (J2_select_task continue_ always) J2_exec
                (J2_process_result continue_) W2_emitd
                fuel (r_init d0) None (J2_init d0 Hn Ht Hq)) as H.
  unfold run_serial, node_after_serial.
  destruct (serial v keys creators wake_rank calc_rank continue_ always fuel (r_init d0) None) as [r s].
  cbn [fst snd] in *. destruct H as (_ & _ & NL); [intros k0 Hk; discriminate|].
  intro Hin. apply NL. apply n_exec_pos in Hin. rewrite n_exec_app in Hin.
  destruct (neutral_stop_marker s k) as [X _]. lia.
Qed.

Theorem script_executed_no_loader fuel ops d0 : init_ok d0 -> fresh_queues d0 ->
  wf_script v keys creators wake_rank calc_rank continue_ always fuel ops d0 = true -> forall k,
  In (Ev (EExecute k)) (fst (run_script v keys creators wake_rank calc_rank continue_ always fuel ops d0)) ->
  dt_loader (dn_task (node_after_script fuel ops d0 k)) = None.
Proof.
  intros [Hn Ht _ _] Hq Hwf k.
  pose proof (script_generic v keys creators wake_rank calc_rank continue_ always J2 W2 J2_W2
                (J2_send v keys creators wake_rank calc_rank) (J2_select_task continue_ always) J2_exec
                (J2_process_result continue_) J2_emitd W2_emitd
                fuel ops d0 (J2_init d0 Hn Ht Hq) Hwf) as H.
  unfold run_script, node_after_script.
  destruct (run_ops v keys creators wake_rank calc_rank continue_ always fuel ops (r_init d0)) as [r s].
  cbn [fst snd] in *. destruct H as (_ & _ & NL).
  intro Hin. apply NL. apply n_exec_pos in Hin. rewrite n_exec_app in Hin.
  destruct (neutral_stop_marker (stop_of s) k) as [X _]. lia.
Qed.
End DepTheorems.

(* ---------- (3) containment: a task with a dependency that was reported failed / ignored is never executed ---------- *)
Lemma n_fin_pos x l e : In e l -> is_final_of x e = true -> (1 <= n_fin x l)%nat.
Proof.
  induction l as [|a l IH]; intros [] He; unfold n_fin in *; simpl.
  - subst a. rewrite He. simpl. lia.
  - specialize (IH H He). destruct (is_final_of x a); simpl; lia.
Qed.
Lemma two_finals x l e1 e2 : In e1 l -> In e2 l -> e1 <> e2 -> is_final_of x e1 = true -> is_final_of x e2 = true ->
  (2 <= n_fin x l)%nat.
Proof.
  induction l as [|a l IH]; intros H1 H2 Hne F1 F2; [destruct H1|].
  unfold n_fin in *. simpl. destruct H1 as [H1|H1], H2 as [H2|H2].
  - congruence.
  - subst a. rewrite F1. simpl. pose proof (n_fin_pos x l e2 H2 F2). unfold n_fin in *. lia.
  - subst a. rewrite F2. simpl. pose proof (n_fin_pos x l e1 H1 F1). unfold n_fin in *. lia.
  - specialize (IH H1 H2 Hne F1 F2). destruct (is_final_of x a); simpl; lia.
Qed.

Lemma good_final_of x e : is_good_of x e = true -> is_final_of x e = true.
Proof. destruct e as [e| | | | |]; try discriminate. destruct e; try discriminate; auto. Qed.

Lemma bad_dep_blocks tr x e k : (n_fin x tr <= 1)%nat ->
  In e tr -> is_final_of x e = true -> is_good_of x e = false ->
  (forall pre post, tr = pre ++ Ev (EExecute k) :: post -> good_in x pre) ->
  ~ In (Ev (EExecute k)) tr.
Proof.
  intros Hn He Hf Hb Hd Hin. apply in_split in Hin. destruct Hin as (pre & post & Et).
  specialize (Hd pre post Et). unfold good_in in Hd. apply existsb_exists in Hd. destruct Hd as (e1 & H1 & G1).
  assert (In e1 tr) by (rewrite Et; apply in_app_iff; left; exact H1).
  assert (e1 <> e) by (intro X; subst e1; congruence).
  pose proof (two_finals x tr e1 e H He H0 (good_final_of _ _ G1) Hf). lia.
Qed.

Section Containment.
Variable v : variant.
Variable keys : list name.
Variable creators : N -> name -> list (name * dtask).
Variable wake_rank : name -> name -> N.
Variable calc_rank : name -> N.
Variable continue_ always : bool.

Theorem serial_bad_dep_never_runs fuel d0 : init_ok d0 -> fresh_queues d0 ->
  forall k x e,
    let tr := fst (run_serial v keys creators wake_rank calc_rank continue_ always fuel d0) in
    In x (deps_of (node_after_serial v keys creators wake_rank calc_rank continue_ always fuel d0 k)) ->
    In e tr -> is_final_of x e = true -> is_good_of x e = false -> ~ In (Ev (EExecute k)) tr.
Proof.
  intros I0 Q0 k x e tr Hx He Hf Hb.
  apply (bad_dep_blocks tr x e k); auto.
  - apply (serial_once v keys creators wake_rank calc_rank continue_ always fuel d0 I0 x).
  - intros pre post Et. eapply serial_deps_first; eauto.
Qed.

Theorem script_bad_dep_never_runs fuel ops d0 : init_ok d0 -> fresh_queues d0 ->
  wf_script v keys creators wake_rank calc_rank continue_ always fuel ops d0 = true ->
  forall k x e,
    let tr := fst (run_script v keys creators wake_rank calc_rank continue_ always fuel ops d0) in
    In x (deps_of (node_after_script v keys creators wake_rank calc_rank continue_ always fuel ops d0 k)) ->
    In e tr -> is_final_of x e = true -> is_good_of x e = false -> ~ In (Ev (EExecute k)) tr.
Proof.
  intros I0 Q0 Hwf k x e tr Hx He Hf Hb.
  apply (bad_dep_blocks tr x e k); auto.
  - apply (script_once v keys creators wake_rank calc_rank continue_ always fuel ops d0 I0 Hwf x).
  - intros pre post Et. eapply script_deps_first; eauto.
Qed.
End Containment.

(* ---------- the statements used by Properties/C15.v ---------- *)
Section Statements.
Variable v : variant.
Variable keys : list name.
Variable creators : N -> name -> list (name * dtask).
Variable wake_rank : name -> name -> N.
Variable calc_rank : name -> N.
Variable continue_ always : bool.

Theorem serial_exec_once fuel d0 : init_ok d0 -> forall pre k post,
  fst (run_serial v keys creators wake_rank calc_rank continue_ always fuel d0) = pre ++ Ev (EExecute k) :: post ->
  ~ In (Ev (EExecute k)) pre /\ ~ In (Ev (EExecute k)) post.
Proof.
  intros I0 pre k post E. apply n_exec_split. rewrite <- E.
  apply (serial_once v keys creators wake_rank calc_rank continue_ always fuel d0 I0 k).
Qed.

Theorem serial_one_final fuel d0 : init_ok d0 -> forall pre e post k,
  fst (run_serial v keys creators wake_rank calc_rank continue_ always fuel d0) = pre ++ e :: post ->
  is_final_of k e = true -> ~ final_in k pre /\ ~ final_in k post.
Proof.
  intros I0 pre e post k E He. apply (n_fin_split k pre e post); auto. rewrite <- E.
  apply (serial_once v keys creators wake_rank calc_rank continue_ always fuel d0 I0 k).
Qed.

Theorem script_exec_once fuel ops d0 : init_ok d0 ->
  wf_script v keys creators wake_rank calc_rank continue_ always fuel ops d0 = true -> forall pre k post,
  fst (run_script v keys creators wake_rank calc_rank continue_ always fuel ops d0) = pre ++ Ev (EExecute k) :: post ->
  ~ In (Ev (EExecute k)) pre /\ ~ In (Ev (EExecute k)) post.
Proof.
  intros I0 Hwf pre k post E. apply n_exec_split. rewrite <- E.
  apply (script_once v keys creators wake_rank calc_rank continue_ always fuel ops d0 I0 Hwf k).
Qed.

Theorem script_one_final fuel ops d0 : init_ok d0 ->
  wf_script v keys creators wake_rank calc_rank continue_ always fuel ops d0 = true -> forall pre e post k,
  fst (run_script v keys creators wake_rank calc_rank continue_ always fuel ops d0) = pre ++ e :: post ->
  is_final_of k e = true -> ~ final_in k pre /\ ~ final_in k post.
Proof.
  intros I0 Hwf pre e post k E He. apply (n_fin_split k pre e post); auto. rewrite <- E.
  apply (script_once v keys creators wake_rank calc_rank continue_ always fuel ops d0 I0 Hwf k).
Qed.
End Statements.
