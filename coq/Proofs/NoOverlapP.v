(* NoOverlapP.v -- MRunner / MThreadRunner model: two tasks related by an (effective) dependency never
   execute concurrently, under every schedule, worker count and flavour.

   The shape of the merged log that makes this true:
     - the main thread reports the result of an executed task only after the worker delivered it:
       a final report of k is preceded by [PEnd k w] for every [PStart k w] before it  ([wfA]);
     - a task that already has its final report is never started  ([wfB]).
   Both are carried through every step of the model as the invariant [NI] (next to [PI] of ParallelP.v).
   With the dependency order of ParallelP.v (the dependent's [PStart] comes after the dependency's good
   final report) the execution intervals [PStart .. PEnd] of related tasks are disjoint. *)
From DoitV Require Import Base Dispatch Runner Parallel DispatchP DispatchInv RunnerTr RunnerP ParallelP.
Open Scope N_scope.

(* ---------- lists ---------- *)
Lemma app_mid_split {A} (l r l1 l2 : list A) x :
  l ++ r = l1 ++ x :: l2 ->
  (exists m, l = l1 ++ x :: m /\ l2 = m ++ r) \/ (exists m, r = m ++ x :: l2 /\ l1 = l ++ m).
Proof.
  revert l1. induction l as [|a l IH]; intros l1 E; simpl in E.
  - right. exists l1. auto.
  - destruct l1 as [|b l1]; simpl in E.
    + inversion E; subst. left. exists l. auto.
    + inversion E as [[Ea Eb]]. subst b. destruct (IH l1 Eb) as [[m [-> ->]]|[m [-> ->]]].
      * left. exists m. auto.
      * right. exists m. auto.
Qed.

Lemma skipn_incl {A} n (l : list A) : incl (skipn n l) l.
Proof. intros x Hx. rewrite <- (firstn_skipn n l). apply in_or_app. right. exact Hx. Qed.

Lemma nth_set_nth_cases {A} (l : list A) j v i d :
  nth i (set_nth l j v) d = nth i l d \/ (i = j /\ nth i (set_nth l j v) d = v).
Proof.
  revert i j. induction l as [|a l IH]; intros i j; simpl.
  - left. destruct j; reflexivity.
  - destruct j as [|j]; destruct i as [|i]; simpl; auto.
    destruct (IH i j) as [H|[-> H]]; auto.
Qed.

Lemma nth_map_exited (ws : list wst) w k : nth w (map (fun _ => WExited) ws) WExited <> WBusy k.
Proof. revert w. induction ws as [|a ws IH]; intros [|w]; simpl; try discriminate; auto. Qed.

Lemma nth_app_idle (ws : list wst) w k : nth w (ws ++ [WIdle]) WExited = WBusy k -> nth w ws WExited = WBusy k.
Proof.
  revert w. induction ws as [|a ws IH]; intros [|w]; simpl; auto; try discriminate.
  destruct w; discriminate.
Qed.

(* ---------- the log: execution intervals ---------- *)
(* every start of k in the log was followed by the end of the actions in that worker *)
Definition closed (log : list pevent) (k : name) : Prop :=
  forall l1 w l2, log = l1 ++ PStart k w :: l2 -> In (PEnd k w) l2.
Definition nostart (k : name) (evs : list pevent) : Prop := forall w, ~ In (PStart k w) evs.

Lemma closed_app log evs k : closed log k -> nostart k evs -> closed (log ++ evs) k.
Proof.
  intros C N l1 w l2 E. destruct (app_mid_split _ _ _ _ _ E) as [[m [-> ->]]|[m [-> _]]].
  - apply in_or_app. left. eapply C. reflexivity.
  - exfalso. apply (N w). apply in_elt.
Qed.

Lemma closed_end log k w : (forall w', In (PStart k w') log -> w' = w) -> closed (log ++ [PEnd k w]) k.
Proof.
  intros U l1 w' l2 E. destruct (app_mid_split _ _ _ _ _ E) as [[m [-> ->]]|[m [Em _]]].
  - rewrite (U w') by apply in_elt. apply in_or_app. right. left. reflexivity.
  - exfalso. destruct m as [|a m]; simpl in Em; inversion Em. destruct m; discriminate.
Qed.

Lemma in_pstarts log k w : In (PStart k w) log -> In k (pstarts log).
Proof. intros H. unfold pstarts. apply in_flat_map. exists (PStart k w). split; auto. left. reflexivity. Qed.

Lemma closed_nostart log k : ~ In k (pstarts log) -> closed log k.
Proof. intros N l1 w l2 ->. exfalso. apply N. apply (in_pstarts _ k w). apply in_elt. Qed.

Lemma nostart_PE k l : nostart k (map PE l).
Proof. intros w H. apply in_map_iff in H. destruct H as [e [E _]]. discriminate. Qed.
Lemma nostart_sub k evs m x m' : nostart k evs -> evs = m ++ x :: m' -> nostart k m.
Proof. intros N -> w H. apply (N w). apply in_or_app. auto. Qed.

(* at most one start per task: the worker is determined *)
Lemma pstart_unique log k w w' :
  (cnt (pstarts log) k <= 1)%nat -> In (PStart k w) log -> In (PStart k w') log -> w = w'.
Proof.
  induction log as [|e log IH]; intros Hc H1 H2; [destruct H1|].
  change (e :: log) with ([e] ++ log) in Hc. rewrite pstarts_app, cnt_app in Hc.
  assert (Hhd : forall v, e = PStart k v -> ~ In k (pstarts log)).
  { intros v -> Hin. apply cnt_In in Hin. simpl in Hc. destruct (N.eq_dec k k) as [_|Hne]; [lia|congruence]. }
  destruct H1 as [H1|H1]; destruct H2 as [H2|H2].
  - congruence.
  - exfalso. apply (Hhd w H1). eapply in_pstarts; eauto.
  - exfalso. apply (Hhd w' H2). eapply in_pstarts; eauto.
  - apply IH; auto. lia.
Qed.

(* [wfA]: a final report of k comes only after every start of k was followed by its end;
   [wfB]: no start of k after a final report of k *)
Definition wfA (log : list pevent) : Prop :=
  forall pre e post k, log = pre ++ PE e :: post -> is_final_ev k e = true -> closed pre k.
Definition wfB (log : list pevent) : Prop :=
  forall pre k w post, log = pre ++ PStart k w :: post -> ~ pfinished pre k.

Lemma wfA_app log evs :
  wfA log -> (forall m e m' k, evs = m ++ PE e :: m' -> is_final_ev k e = true -> closed (log ++ m) k) -> wfA (log ++ evs).
Proof.
  intros W H pre e post k E Hf. destruct (app_mid_split _ _ _ _ _ E) as [[m [-> ->]]|[m [-> ->]]].
  - eapply W; eauto.
  - eapply H; eauto.
Qed.
Lemma wfB_app log evs :
  wfB log -> (forall m k w m', evs = m ++ PStart k w :: m' -> ~ pfinished (log ++ m) k) -> wfB (log ++ evs).
Proof.
  intros W H pre k w post E. destruct (app_mid_split _ _ _ _ _ E) as [[m [-> ->]]|[m [-> ->]]].
  - eapply W; eauto.
  - eapply H; eauto.
Qed.

Lemma fin_app_inv tr evs x : finished_in (tr ++ evs) x -> finished_in tr x \/ finished_in evs x.
Proof. unfold finished_in. rewrite existsb_app. intros H. apply orb_true_iff in H. exact H. Qed.
Lemma pfin_app_inv l evs x : pfinished (l ++ evs) x -> pfinished l x \/ pfinished evs x.
Proof. unfold pfinished. rewrite existsb_app. intros H. apply orb_true_iff in H. exact H. Qed.
Lemma pfinished_proj log x : pfinished log x <-> finished_in (proj log) x.
Proof.
  unfold pfinished, finished_in. induction log as [|e log IH]; simpl; [tauto|].
  destruct e; simpl; rewrite ?orb_true_iff; tauto.
Qed.

(* the log [log] together with the trace [tr] of the main runner (whose tail may not be copied yet) *)
Definition LogI (log : list pevent) (tr : list event) : Prop :=
  (forall k, finished_in tr k -> closed log k) /\ wfA log /\ wfB log.

Lemma LogI_PE log tr l : LogI log tr -> incl l tr -> LogI (log ++ map PE l) tr.
Proof.
  intros (F & A & B) Hi. split; [|split].
  - intros k Hk. apply closed_app; [apply F; exact Hk|apply nostart_PE].
  - apply wfA_app; auto. intros m e m' k E Hf. apply closed_app.
    + apply F. apply finished_in_In. exists e. split; auto. apply Hi.
      assert (Hin : In (PE e) (map PE l)) by (rewrite E; apply in_elt).
      apply in_map_iff in Hin. destruct Hin as [e' [E' Hin]]. inversion E'; subst. exact Hin.
    + eapply nostart_sub; [apply (nostart_PE k l)|exact E].
  - apply wfB_app; auto. intros m k w m' E. exfalso. apply (nostart_PE k l w). rewrite E. apply in_elt.
Qed.

Lemma LogI_plain log tr evs :
  LogI log tr -> (forall e, In e evs -> is_pe e = false) -> (forall k, nostart k evs) -> LogI (log ++ evs) tr.
Proof.
  intros (F & A & B) Hp Hn. split; [|split].
  - intros k Hk. apply closed_app; auto.
  - apply wfA_app; auto. intros m e m' k E _. exfalso.
    assert (H : is_pe (PE e) = false) by (apply Hp; rewrite E; apply in_elt). discriminate.
  - apply wfB_app; auto. intros m k w m' E. exfalso. apply (Hn k w). rewrite E. apply in_elt.
Qed.

Lemma LogI_start log tr k w :
  LogI log tr -> ~ finished_in tr k -> ~ pfinished log k -> LogI (log ++ [PStart k w]) tr.
Proof.
  intros (F & A & B) Hnf Hnp. split; [|split].
  - intros k' Hk'. apply closed_app; auto. intros w' [E|[]]. inversion E; subst. contradiction.
  - apply wfA_app; auto. intros m e m' k' E _. exfalso.
    destruct m as [|a m]; simpl in E; inversion E. destruct m; discriminate.
  - apply wfB_app; auto. intros m k' w' m' E.
    destruct m as [|a m]; simpl in E; inversion E; subst.
    + rewrite app_nil_r. exact Hnp.
    + destruct m; discriminate.
Qed.

Lemma LogI_tr log tr tr' :
  LogI log tr -> (forall k, finished_in tr' k -> finished_in tr k \/ closed log k) -> LogI log tr'.
Proof. intros (F & A & B) H. split; auto. intros k Hk. destruct (H k Hk); auto. Qed.

Section NoOverlap.
Variable tasks : name -> option task.
Variable wake_rank : name -> name -> N.
Variable calc_rank : name -> N.
Variable continue_ always proc : bool.

Notation st_of := (st_of tasks).
Notation PI := (PI tasks).
Notation worker_step := (worker_step tasks proc).
Notation main_get := (main_get tasks proc).
Notation join_all := (join_all tasks proc).
Notation next_job_loop := (next_job_loop tasks wake_rank calc_rank continue_ always).
Notation get_next_job := (get_next_job tasks wake_rank calc_rank continue_ always).
Notation start_procs := (start_procs tasks wake_rank calc_rank continue_ always proc).
Notation hand_out := (hand_out tasks wake_rank calc_rank continue_ always).
Notation main_loop := (main_loop tasks wake_rank calc_rank continue_ always proc).
Notation terminate := (terminate proc).

(* the invariant: the log is well-formed; a busy worker was started; a task whose result is queued has ended *)
Record NI (p : pstate) : Prop := {
  ni_log : LogI (p_log p) (r_tr (p_r p));
  ni_busy : forall w k, nth w (p_workers p) WExited = WBusy k -> In (PStart k w) (p_log p);
  ni_res : forall k, In k (res_tasks (p_results p)) -> closed (p_log p) k
}.

(* what the log says is finished, the (possibly longer) runner trace says too *)
Lemma pfin_sync p tr' x :
  PI p -> (exists evs, tr' = r_tr (p_r p) ++ evs) ->
  pfinished (p_log p ++ map PE (skipn (p_seen p) tr')) x -> finished_in tr' x.
Proof.
  intros HP [evs ->] H. apply pfin_app_inv in H. destruct H as [H|H].
  - apply finished_in_app. apply pfinished_proj in H. rewrite (pi_proj _ _ HP) in H.
    rewrite <- (firstn_skipn (p_seen p) (r_tr (p_r p))). apply finished_in_app. exact H.
  - apply pfinished_proj in H. rewrite proj_map_PE in H.
    apply finished_in_In in H. destruct H as (e & Hin & Hf). apply finished_in_In. exists e. split; auto.
    eapply skipn_incl; eauto.
Qed.

Lemma running_not_finished p k : PI p -> running tasks p k -> ~ finished_in (r_tr (p_r p)) k.
Proof.
  intros HP [Hst _] Hf. apply (ri_link2 _ _ _ (pi_ri _ _ HP)) in Hf. unfold final in Hf. rewrite Hst in Hf. discriminate.
Qed.

(* ---- three ways a step changes the state ---- *)
(* the log stays; the trace may get final reports of tasks that have ended *)
Lemma NI_same p p' :
  NI p -> p_log p' = p_log p ->
  (forall k, finished_in (r_tr (p_r p')) k -> finished_in (r_tr (p_r p)) k \/ closed (p_log p) k) ->
  (forall w k, nth w (p_workers p') WExited = WBusy k -> nth w (p_workers p) WExited = WBusy k) ->
  (forall k, In k (res_tasks (p_results p')) -> In k (res_tasks (p_results p))) ->
  NI p'.
Proof.
  intros [L B R] El Ht Hw Hr. split; rewrite El.
  - eapply LogI_tr; eauto.
  - intros w k H. apply B. apply Hw. exact H.
  - intros k H. apply R. apply Hr. exact H.
Qed.

(* plog of events that are neither reports nor starts *)
Lemma NI_plogged p p' evs :
  NI p -> p_log p' = (p_log p ++ map PE (skipn (p_seen p) (r_tr (p_r p)))) ++ evs ->
  (forall e, In e evs -> is_pe e = false) -> (forall k, nostart k evs) ->
  r_tr (p_r p') = r_tr (p_r p) ->
  (forall w k, nth w (p_workers p') WExited = WBusy k -> nth w (p_workers p) WExited = WBusy k) ->
  (forall k, In k (res_tasks (p_results p')) -> In k (res_tasks (p_results p)) \/ closed (p_log p') k) ->
  NI p'.
Proof.
  intros [L B R] El Hp Hn Et Hw Hr. split.
  - rewrite El, Et. apply LogI_plain; auto. apply LogI_PE; auto. apply skipn_incl.
  - intros w k H. rewrite El. apply in_or_app. left. apply in_or_app. left. apply B. apply Hw. exact H.
  - intros k H. destruct (Hr k H) as [H'|H']; auto. rewrite El.
    apply closed_app; auto. apply closed_app; [apply R; exact H'|apply nostart_PE].
Qed.

Lemma NI_sync p : NI p -> NI (sync p).
Proof.
  intros HN. apply (NI_plogged p _ []); auto.
  - cbn [sync p_log]. rewrite app_nil_r. reflexivity.
  - intros e [].
  - intros k w [].
Qed.

(* a worker takes the job of k and starts its actions *)
Lemma NI_started p p' k w tr' :
  PI p -> NI p ->
  (exists evs, tr' = r_tr (p_r p) ++ evs /\ forall x, ~ finished_in evs x) ->
  r_tr (p_r p') = tr' ->
  p_log p' = (p_log p ++ map PE (skipn (p_seen p) tr')) ++ [PStart k w] ->
  p_workers p' = set_nth (p_workers p) w (WBusy k) ->
  res_tasks (p_results p') = res_tasks (p_results p) ->
  In k (job_tasks (p_jobs p)) -> NI p'.
Proof.
  intros HP [L B R] (evs & -> & Hnf) Et El Ew Er Hj.
  assert (Hrun : running tasks p k) by (apply (pi_run _ _ HP); unfold live; apply in_or_app; auto).
  assert (F1 : ~ finished_in (r_tr (p_r p) ++ evs) k).
  { intros H. apply fin_app_inv in H. destruct H as [H|H]; [eapply running_not_finished; eauto|eapply Hnf; eauto]. }
  assert (F3 : ~ In k (res_tasks (p_results p))).
  { intros Hin. pose proof (pi_cnt _ _ HP k) as Hc. unfold live in Hc. rewrite !cnt_app in Hc.
    apply cnt_In in Hin. apply cnt_In in Hj. lia. }
  assert (L1 : LogI (p_log p ++ map PE (skipn (p_seen p) (r_tr (p_r p) ++ evs))) (r_tr (p_r p) ++ evs)).
  { apply LogI_PE; [|apply skipn_incl]. eapply LogI_tr; [exact L|].
    intros x Hx. apply fin_app_inv in Hx. destruct Hx as [Hx|Hx]; [auto|exfalso; eapply Hnf; eauto]. }
  split.
  - rewrite El, Et. apply LogI_start; auto.
    intros H. apply F1. eapply pfin_sync; eauto.
  - intros w' k' H. rewrite El. rewrite Ew in H.
    destruct (nth_set_nth_cases (p_workers p) w (WBusy k) w' WExited) as [E|[-> E]]; rewrite E in H.
    + apply in_or_app. left. apply in_or_app. left. apply B. exact H.
    + inversion H; subst. apply in_or_app. right. left. reflexivity.
  - intros k' H. rewrite Er in H. rewrite El. apply closed_app.
    + apply closed_app; [apply R; exact H|apply nostart_PE].
    + intros w' [E|[]]. inversion E; subst. contradiction.
Qed.

Lemma nth_set_nth_nb ws w s w' k :
  (forall k0, s <> WBusy k0) -> nth w' (set_nth ws w s) WExited = WBusy k -> nth w' ws WExited = WBusy k.
Proof.
  intros Hs H. destruct (nth_set_nth_cases ws w s w' WExited) as [E|[_ E]]; rewrite E in H; auto.
  exfalso. apply (Hs k). exact H.
Qed.
Lemma res_tasks_teardown l : res_tasks (map MTeardown l) = [].
Proof. induction l; simpl; auto. Qed.

(* ---------- workers ---------- *)
Lemma worker_step_NI p w : PI p -> NI p -> NI (worker_step p w).
Proof.
  intros HP HN. unfold Parallel.worker_step.
  destruct (nth w (p_workers p) WExited) as [|k|] eqn:Ew; auto.
  - destruct (p_jobs p) as [|j js] eqn:Ej; auto.
    destruct j as [k| |].
    + assert (Hj : In k (job_tasks (p_jobs p))) by (rewrite Ej; simpl; auto).
      destruct proc.
      * apply (NI_started p _ k w (r_tr (p_r p))); auto.
        -- exists []. rewrite app_nil_r. split; auto. intros x H; discriminate.
        -- cbn [p_results plog sync with_workers with_results with_jobs]. rewrite res_tasks_app. simpl. apply app_nil_r.
      * apply (NI_started p _ k w (r_tr (p_r p) ++ [EExecute k])); auto.
        exists [EExecute k]. split; auto. intros x H; discriminate.
    + apply (NI_same p); auto.
    + destruct proc.
      * apply (NI_plogged p _ (map (fun k0 => PTdRun k0 w) (rev (nth w (p_wtd p) [])))); auto.
        -- intros e H. apply in_map_iff in H. destruct H as [y [<- _]]. reflexivity.
        -- intros k w' H. apply in_map_iff in H. destruct H as [y [E _]]. discriminate.
        -- intros w' k. apply nth_set_nth_nb. intros k0; discriminate.
        -- intros k H. left. cbn [p_results plog sync with_workers with_results with_jobs] in H.
           rewrite res_tasks_app, res_tasks_teardown, app_nil_r in H. exact H.
      * apply (NI_same p); auto. intros w' k. apply nth_set_nth_nb. intros k0; discriminate.
  - assert (Hcl : closed ((p_log p ++ map PE (skipn (p_seen p) (r_tr (p_r p)))) ++ [PEnd k w]) k).
    { apply closed_end. intros w' H. symmetry.
      apply (pstart_unique (p_log p ++ map PE (skipn (p_seen p) (r_tr (p_r p)))) k w w'); auto.
      - rewrite pstarts_app, pstarts_map_PE, app_nil_r. pose proof (pi_once _ _ HP k). lia.
      - apply in_or_app. left. apply (ni_busy _ HN). exact Ew. }
    destruct (is_interrupt tasks k).
    + apply (NI_plogged p _ [PEnd k w]); auto.
      * intros e [<-|[]]. reflexivity.
      * intros k0 w' [E|[]]. discriminate.
      * intros w' k0. apply nth_set_nth_nb. intros k1; discriminate.
      * intros k0 H. left. cbn [p_results plog sync with_workers with_results with_jobs] in H.
        rewrite res_tasks_app in H. simpl in H. rewrite app_nil_r in H. exact H.
    + apply (NI_plogged p _ [PEnd k w]); auto.
      * intros e [<-|[]]. reflexivity.
      * intros k0 w' [E|[]]. discriminate.
      * intros w' k0. apply nth_set_nth_nb. intros k1; discriminate.
      * intros k0 H. cbn [p_results plog sync with_workers with_results with_jobs] in H.
        rewrite res_tasks_app in H. apply in_app_iff in H. destruct H as [H|H]; [left; exact H|].
        simpl in H. destruct H as [<-|[]]. right. exact Hcl.
Qed.

Lemma with_sched_PI p s : PI p -> PI (with_sched p s).
Proof. intros HP. apply (PI_update tasks p); auto. intros x Hx. apply PI_ready_of; auto. Qed.
Lemma with_sched_NI p s : NI p -> NI (with_sched p s).
Proof. intros HN. apply (NI_same p); auto. Qed.

(* ---------- the main thread ---------- *)
Lemma main_get_NI fuel : forall p m p', PI p -> NI p -> main_get fuel p = (m, p') ->
  NI p' /\ (forall k, m = Some (MResult k) -> closed (p_log p') k).
Proof.
  induction fuel as [|fuel IH]; intros p m p' HP HN E; cbn [Parallel.main_get] in E.
  { inversion E; subst. split; auto. intros k H; discriminate. }
  set (ws := enabled_workers p (length (p_workers p)) 0) in *.
  destruct ((if negb (is_nil (p_results p)) then 1 else 0) + length ws)%nat eqn:En.
  { inversion E; subst. split; [|intros k H; discriminate].
    apply (NI_plogged p _ [PHang]); auto.
    - intros e [<-|[]]. reflexivity.
    - intros k w [H|[]]. discriminate. }
  destruct (choose (S n) (p_sched p)) as [c s].
  destruct (negb (is_nil (p_results p)) && Nat.eqb c 0).
  - simpl in E. destruct (p_results p) as [|m0 rs] eqn:Er.
    + inversion E; subst. split; [apply with_sched_NI; auto|intros k H; discriminate].
    + inversion E; subst. split.
      * apply (NI_same p); auto. intros k H. cbn [p_results with_results with_sched] in H.
        rewrite Er. change (m0 :: rs) with ([m0] ++ rs). rewrite res_tasks_app. apply in_or_app. auto.
      * intros k Hk. inversion Hk; subst. cbn [p_log with_results with_sched].
        apply (ni_res _ HN). rewrite Er. simpl. auto.
  - eapply IH; [| |exact E].
    + apply worker_step_PI. apply with_sched_PI. exact HP.
    + apply worker_step_NI; [apply with_sched_PI; exact HP|apply with_sched_NI; exact HN].
Qed.

Lemma join_all_NI fuel : forall p, PI p -> NI p -> NI (join_all fuel p).
Proof.
  induction fuel as [|fuel IH]; intros p HP HN; cbn [Parallel.join_all]; auto.
  destruct (enabled_workers p (length (p_workers p)) 0) as [|w ws] eqn:Ew; auto.
  destruct (choose (length (w :: ws)) (p_sched p)) as [c s].
  apply IH.
  - apply worker_step_PI. apply with_sched_PI. exact HP.
  - apply worker_step_NI; [apply with_sched_PI; exact HP|apply with_sched_NI; exact HN].
Qed.

(* ---------- get_next_job ---------- *)
Lemma about_final k evs x : Forall (about k) evs -> finished_in evs x -> x = k.
Proof.
  intros Ha H. apply finished_in_In in H. destruct H as (e & Hin & Hf).
  rewrite Forall_forall in Ha. specialize (Ha e Hin).
  destruct e; simpl in *; try discriminate; apply N.eqb_eq in Hf; congruence.
Qed.

(* one turn of the loop: the dispatcher hands out k, select_task looks at it (the PI part repeats the
   corresponding step of next_job_loop_PI) *)
Lemma select_step p completed fuel k d b r1 :
  PI p -> (forall k, completed = Some k -> st_of (r_d (p_r p)) k <> SNone) ->
  disp_send tasks wake_rank calc_rank fuel (r_d (p_r p)) completed = (DTask k, d) ->
  select_task tasks continue_ always (with_d (p_r p) d) k = (b, r1) ->
  PI (with_r p r1) /\ st_of (r_d r1) k <> SNone /\ ~ In k (pstarts (p_log p)).
Proof.
  intros HP Hc Ed Es.
  pose proof (pi_ri _ _ HP) as HR.
  pose proof (disp_send_spec tasks wake_rank calc_rank _ _ _ _ _ (ri_inv _ _ _ HR) (pi_pre _ _ HP) (ri_res _ _ _ HR) (ri_q _ _ _ HR) Hc Ed) as Hpost.
  pose proof (RI_disp tasks _ _ _ _ HR Hpost) as HR'.
  assert (Hst : forall x, st_of d x = st_of (r_d (p_r p)) x) by (destruct Hpost as (_ & _ & _ & S & _); exact S).
  assert (Hrund : forall k, In k (live p) -> running_in tasks d k).
  { intros k0 Hk. eapply running_in_disp; [exact Hpost|]. apply (pi_run _ _ HP). exact Hk. }
  assert (Hspd : forall z, spent tasks (r_d (p_r p)) z -> spent tasks d z)
    by (destruct Hpost as (_ & _ & _ & _ & _ & Sp & _); exact Sp).
  destruct (handed_of_post tasks _ _ _ Hpost) as (HK & Hcur & Hns).
  pose proof (select_task_post tasks continue_ always (with_d (p_r p) d) k b r1 HR' HK Es) as (R1 & P1 & S1 & Pc1 & C1 & D1 & T1 & O1).
  destruct (select_task_ext tasks continue_ always _ _ _ _ Es) as [Ext Sto].
  assert (Hknl : ~ In k (live p)).
  { intros Hin. apply Hns. apply (pi_run _ _ HP k Hin). }
  split; [|split; [exact S1|intros Hin; apply Hns; apply (pi_sp _ _ HP k Hin)]].
  apply PI_with_r_gen; auto.
  - intros x Hx. destruct (N.eqb_spec x k) as [->|Hne]; [exact S1|].
    rewrite Sto by auto. simpl. rewrite Hst. apply (proj1 (PI_ready_of tasks p x HP Hx)).
  - intros x Hx. assert (Hne : x <> k) by (intros ->; contradiction).
    destruct (Hrund x Hx) as [A B]. split.
    + rewrite O1 by auto. exact A.
    + eapply spent_pc; [apply Pc1|]. exact B.
  - intros z Hz. eapply spent_pc; [apply Pc1|]. apply Hspd. exact Hz.
  - eapply PT_select; [|exact Es]. apply PT_with_d. apply (pi_pt _ _ HP).
Qed.

Lemma next_job_loop_NI fuel : forall p completed g p',
  PI p -> NI p -> (forall k, completed = Some k -> st_of (r_d (p_r p)) k <> SNone) ->
  next_job_loop fuel p completed = (g, p') -> NI p'.
Proof.
  induction fuel as [|fuel IH]; intros p completed g p' HP HN Hc E; cbn [Parallel.next_job_loop] in E.
  { inversion E; subst. exact HN. }
  destruct (disp_send tasks wake_rank calc_rank (S fuel) (r_d (p_r p)) completed) as [y d] eqn:Ed.
  destruct y as [k| | |path|].
  - destruct (select_task tasks continue_ always (with_d (p_r p) d) k) as [b r1] eqn:Es.
    destruct (select_step p completed _ k d b r1 HP Hc Ed Es) as (H1 & S1 & Hns).
    assert (N1 : NI (with_r p r1)).
    { apply (NI_same p); auto. intros x Hx. cbn [p_r with_r] in Hx.
      destruct (select_task_about tasks continue_ always _ _ _ _ Es) as (evs & Et & Ha).
      rewrite Et in Hx. apply fin_app_inv in Hx. destruct Hx as [Hx|Hx]; [left; exact Hx|].
      right. rewrite (about_final k evs x Ha Hx). apply closed_nostart. exact Hns. }
    destruct b.
    + inversion E; subst. exact N1.
    + eapply IH; [exact H1|exact N1| |exact E]. intros k0 Ek. inversion Ek; subst. exact S1.
  - inversion E; subst. apply (NI_same p); auto.
  - inversion E; subst. apply (NI_same p); auto.
  - inversion E; subst. apply (NI_same p); auto.
  - inversion E; subst. exact HN.
Qed.

Lemma get_next_job_NI fuel p completed g p' :
  PI p -> NI p -> (forall k, completed = Some k -> st_of (r_d (p_r p)) k <> SNone) ->
  get_next_job fuel p completed = (g, p') -> NI p'.
Proof.
  intros HP HN Hc E. unfold Parallel.get_next_job in E. destruct (r_stop (p_r p)).
  - inversion E; subst. exact HN.
  - eapply next_job_loop_NI; eauto.
Qed.

(* ---------- queues ---------- *)
Lemma put_job_NI p j : NI p -> NI (put_job p j).
Proof. intros HN. apply (NI_same p); auto. Qed.
Lemma start_worker_NI p : NI p -> NI (start_worker p).
Proof. intros HN. apply (NI_same p); auto. intros w k. apply nth_app_idle. Qed.
Lemma with_counts_NI p a b : NI p -> NI (with_counts p a b).
Proof. intros HN. apply (NI_same p); auto. Qed.
Lemma terminate_NI p : NI p -> NI (terminate p).
Proof.
  intros HN. unfold Parallel.terminate. destruct (proc && negb (is_nil (p_workers p))); auto.
  apply (NI_plogged p _ [PTerminate]); auto.
  - intros e [<-|[]]. reflexivity.
  - intros k w [H|[]]. discriminate.
  - intros w k H. exfalso. eapply nth_map_exited. exact H.
Qed.

Lemma start_procs_NI fuel n : forall p e p', PI p -> NI p -> start_procs fuel n p = (e, p') -> NI p'.
Proof.
  induction n as [|n IH]; intros p e p' HP HN E; cbn [Parallel.start_procs] in E.
  { inversion E; subst. exact HN. }
  destruct (get_next_job fuel p None) as [g p1] eqn:Eg.
  destruct (get_next_job_PI tasks wake_rank calc_rank continue_ always fuel p None g p1 HP ltac:(intros k H; discriminate) Eg) as [H1 Hr].
  pose proof (get_next_job_NI fuel p None g p1 HP HN ltac:(intros k H; discriminate) Eg) as N1.
  destruct g as [j| |path|].
  - eapply IH; [| |exact E].
    + apply start_worker_PI. apply put_job_PI; auto. intros k ->. apply Hr. reflexivity.
    + apply start_worker_NI. apply put_job_NI. exact N1.
  - inversion E; subst. exact N1.
  - inversion E; subst. apply terminate_NI. exact N1.
  - inversion E; subst. exact N1.
Qed.

Lemma hand_out_NI fuel n : forall p completed e p',
  PI p -> NI p -> (forall k, completed = Some k -> st_of (r_d (p_r p)) k <> SNone) ->
  hand_out fuel n p completed = (e, p') -> NI p'.
Proof.
  induction n as [|n IH]; intros p completed e p' HP HN Hc E; cbn [Parallel.hand_out] in E.
  { inversion E; subst. exact HN. }
  destruct (get_next_job fuel p completed) as [g p1] eqn:Eg.
  destruct (get_next_job_PI tasks wake_rank calc_rank continue_ always fuel p completed g p1 HP Hc Eg) as [H1 Hr].
  pose proof (get_next_job_NI fuel p completed g p1 HP HN Hc Eg) as N1.
  destruct g as [j| |path|].
  - eapply IH; [| | |exact E].
    + apply put_job_PI; auto. intros k ->. apply Hr. reflexivity.
    + apply put_job_NI. exact N1.
    + intros k H; discriminate.
  - eapply IH; [| | |exact E].
    + apply put_job_PI; [apply with_counts_PI; exact H1|intros k H; discriminate].
    + apply put_job_NI. apply with_counts_NI. exact N1.
    + intros k H; discriminate.
  - inversion E; subst. exact N1.
  - inversion E; subst. exact N1.
Qed.

(* ---------- the result of a task reaches the main thread ---------- *)
Lemma process_result_finals r k x :
  finished_in (r_tr (process_result tasks continue_ r k)) x -> finished_in (r_tr r) x \/ x = k.
Proof.
  unfold Runner.process_result, handle_error, handle_error_gen.
  destruct (t_outcome (get_task tasks k)); simpl; auto;
    intros H; apply fin_app_inv in H; destruct H as [H|H]; auto; right;
    unfold finished_in in H; simpl in H; rewrite ?orb_false_r in H; apply N.eqb_eq in H; exact H.
Qed.

Lemma main_loop_NI fuel : forall p e p', PI p -> NI p -> main_loop fuel p = (e, p') -> NI p'.
Proof.
  induction fuel as [|fuel IH]; intros p e p' HP HN E; cbn [Parallel.main_loop] in E.
  { inversion E; subst. exact HN. }
  destruct (p_count p). { inversion E; subst. exact HN. }
  destruct (main_get (S fuel * 4) p) as [m p1] eqn:Em.
  destruct (main_get_PI tasks proc _ _ _ _ HP Em) as (H1 & Hr & Hrr).
  destruct (main_get_NI _ _ _ _ HP HN Em) as (N1 & Hcl).
  destruct m as [[k|k|k|k]|].
  - (* a result: the task has ended *)
    assert (Hk : ready tasks p1 k) by (apply Hr; left; reflexivity).
    destruct (Hrr k eq_refl) as [Hk2 Hk3].
    destruct (process_result_PI tasks continue_ p1 k H1 Hk Hk2 Hk3) as [H2 S2].
    set (p2 := with_r p1 (process_result tasks continue_ (p_r p1) k)) in *.
    assert (N2 : NI p2).
    { apply (NI_same p1); auto. intros x Hx. unfold p2 in Hx. cbn [p_r with_r] in Hx.
      destruct (process_result_finals _ _ _ Hx) as [H| ->]; auto. }
    destruct (hand_out (S fuel) (S (p_free p2)) (with_counts p2 0 (p_count p2)) (Some k)) as [e2 p3] eqn:Eh.
    assert (H3 : PI p3).
    { eapply hand_out_PI; [| |exact Eh]; [apply with_counts_PI; exact H2|].
      intros k0 Ek. inversion Ek; subst. exact S2. }
    assert (N3 : NI p3).
    { eapply hand_out_NI; [| | |exact Eh]; [apply with_counts_PI; exact H2|apply with_counts_NI; exact N2|].
      intros k0 Ek. inversion Ek; subst. exact S2. }
    destruct e2; try (inversion E; subst; apply terminate_NI; exact N3).
    destruct (deadlocked p3).
    + inversion E; subst. apply terminate_NI. exact N3.
    + eapply IH; eauto.
  - (* execute report forwarded by a worker process *)
    eapply IH; [| |exact E].
    + apply PI_emit_main; auto.
      apply RI_exec; [apply (pi_ri _ _ H1)|]. apply (ready_deps _ _ _ (Hr k (or_intror eq_refl))).
    + apply (NI_same p1); auto. intros x Hx. cbn [p_r with_r emit r_tr] in Hx.
      apply fin_app_inv in Hx. destruct Hx as [Hx|Hx]; [auto|discriminate].
  - (* teardown report *)
    eapply IH; [| |exact E].
    + apply PI_emit_main; auto. apply RI_emit; [apply (pi_ri _ _ H1)|reflexivity|intros e0 x0 [<-|[]]; reflexivity].
    + apply (NI_same p1); auto. intros x Hx. cbn [p_r with_r emit r_tr] in Hx.
      apply fin_app_inv in Hx. destruct Hx as [Hx|Hx]; [auto|discriminate].
  - inversion E; subst. apply terminate_NI. exact N1.
  - inversion E; subst. apply terminate_NI. exact N1.
Qed.

Lemma drain_evs_nofinal ms x :
  ~ finished_in (flat_map (fun m => match m with MTeardown k => [ETeardown k] | MReport k => [EExecute k] | _ => [] end) ms) x.
Proof.
  induction ms as [|m ms IH]; simpl; [discriminate|]. intros H. apply fin_app_inv in H. destruct H as [H|H]; auto.
  destruct m; simpl in H; discriminate.
Qed.

Lemma drain_NI p : NI p -> NI (drain p).
Proof.
  intros HN. apply (NI_same p); auto.
  - intros x Hx. unfold drain in Hx. cbn [p_r with_r with_results emit r_tr] in Hx.
    apply fin_app_inv in Hx. destruct Hx as [Hx|Hx]; [auto|]. exfalso. eapply drain_evs_nofinal; eauto.
  - intros k [].
Qed.

Lemma finish_NI p : NI p -> NI (sync (with_r p (finish (p_r p)))).
Proof.
  intros HN. apply NI_sync. apply (NI_same p); auto.
  intros x Hx. unfold finish in Hx. cbn [p_r with_r emit r_tr] in Hx.
  apply fin_app_inv in Hx. destruct Hx as [Hx|Hx]; [auto|]. exfalso.
  unfold finished_in in Hx. simpl in Hx. induction (rev (r_td (p_r p))); simpl in Hx; [discriminate|auto].
Qed.

Lemma NI_init sched sel : NI (p_init sched sel).
Proof.
  split; simpl.
  - split; [|split].
    + intros k H; discriminate.
    + intros pre e post k E. destruct pre; discriminate.
    + intros pre k w post E. destruct pre; discriminate.
  - intros w k H. destruct w; discriminate.
  - intros k [].
Qed.

(* the state every run ends in (as parallel_final of ParallelP.v, with NI) *)
Lemma parallel_final_N fuel nprocs sched sel :
  exists p3 mk, PI p3 /\ NI p3 /\ marker_ok mk /\
    fst (run_parallel tasks wake_rank calc_rank continue_ always proc fuel nprocs sched sel) = p_log p3 ++ mk.
Proof.
  unfold run_parallel.
  destruct (start_procs fuel nprocs (p_init sched sel)) as [e1 p1] eqn:E1.
  pose proof (start_procs_PI tasks wake_rank calc_rank continue_ always proc fuel nprocs _ _ _ (PI_init tasks sched sel) E1) as H1.
  pose proof (start_procs_NI fuel nprocs _ _ _ (PI_init tasks sched sel) (NI_init sched sel) E1) as N1.
  assert (Hfin : forall p2 mk, PI p2 -> NI p2 -> marker_ok mk ->
     exists p3 mk', PI p3 /\ NI p3 /\ marker_ok mk' /\
       p_log (sync (with_r p2 (finish (p_r p2)))) ++ mk = p_log p3 ++ mk').
  { intros p2 mk H2 N2 Hm. exists (sync (with_r p2 (finish (p_r p2)))), mk.
    split; [apply finish_PI; exact H2|]. split; [apply finish_NI; exact N2|]. split; [exact Hm|reflexivity]. }
  assert (M0 : marker_ok []) by (left; reflexivity).
  assert (M1 : forall e, is_fin e = false -> is_exec e = false -> is_pair_ev e = false -> marker_ok [PE e]) by (intros e A B C; right; exists e; auto).
  destruct e1; try (cbv beta iota zeta delta [fst snd]; apply Hfin; [exact H1|exact N1|first [exact M0|apply M1; reflexivity]]).
  set (p1' := with_counts p1 (p_free p1) (length (p_workers p1))).
  assert (H1' : PI p1') by (apply with_counts_PI; exact H1).
  assert (N1' : NI p1') by (apply with_counts_NI; exact N1).
  destruct (deadlocked p1').
  { cbv beta iota zeta delta [fst snd]. apply Hfin; [apply terminate_PI; exact H1'|apply terminate_NI; exact N1'|apply M1; reflexivity]. }
  destruct (main_loop fuel p1') as [e2 p2] eqn:E2.
  pose proof (main_loop_PI tasks wake_rank calc_rank continue_ always proc fuel _ _ _ H1' E2) as H2.
  pose proof (main_loop_NI fuel _ _ _ H1' N1' E2) as N2.
  destruct e2; cbv beta iota zeta delta [fst snd]; apply Hfin; auto; try (apply M1; reflexivity).
  - apply drain_PI. apply join_all_PI. exact H2.
  - apply drain_NI. apply join_all_NI; auto.
Qed.

(* ---------- the log of every run ---------- *)
Notation the_log fuel nprocs sched sel :=
  (fst (run_parallel tasks wake_rank calc_rank continue_ always proc fuel nprocs sched sel)).

Lemma parallel_wf fuel nprocs sched sel : wfA (the_log fuel nprocs sched sel) /\ wfB (the_log fuel nprocs sched sel).
Proof.
  destruct (parallel_final_N fuel nprocs sched sel) as (p3 & mk & HP & HN & Hm & ->).
  destruct (ni_log _ HN) as (_ & A & B).
  destruct Hm as [->|(e & -> & Hnf & _)]; [rewrite app_nil_r; auto|]. split.
  - apply wfA_app; auto. intros m e' m' k E Hf. exfalso.
    destruct m as [|a m]; simpl in E; inversion E; subst; [|destruct m; discriminate].
    apply is_final_is_fin in Hf. congruence.
  - apply wfB_app; auto. intros m k w m' E. exfalso.
    destruct m as [|a m]; simpl in E; inversion E. destruct m; discriminate.
Qed.

(* (i) the main thread reports the result of an executed task only after the worker delivered it *)
Theorem parallel_end_before_report fuel nprocs sched sel l1 k w l2 e l3 :
  the_log fuel nprocs sched sel = l1 ++ PStart k w :: l2 ++ PE e :: l3 ->
  is_final_ev k e = true -> In (PEnd k w) l2.
Proof.
  intros E Hf. destruct (parallel_wf fuel nprocs sched sel) as [A _].
  assert (C : closed (l1 ++ PStart k w :: l2) k).
  { apply (A (l1 ++ PStart k w :: l2) e l3 k); auto. rewrite E, <- app_assoc. reflexivity. }
  apply (C l1 w l2). reflexivity.
Qed.

(* (ii) a task that has its final report is not started (again) *)
Theorem parallel_no_start_after_report fuel nprocs sched sel pre k w post :
  the_log fuel nprocs sched sel = pre ++ PStart k w :: post -> ~ pfinished pre k.
Proof. intros E. destruct (parallel_wf fuel nprocs sched sel) as [_ B]. eapply B; eauto. Qed.

Lemma in_proj l e : In e (proj l) <-> In (PE e) l.
Proof.
  unfold proj. rewrite in_flat_map. split.
  - intros (x & Hx & He). destruct x; simpl in He; try contradiction. destruct He as [<-|[]]. exact Hx.
  - intros H. exists (PE e). split; auto. left. reflexivity.
Qed.
Lemma pgood_pfinished l x : pgood l x -> pfinished l x.
Proof. intros H. apply pfinished_proj. apply good_in_finished. exact H. Qed.

(* a and b are related by an effective dependency, in either direction *)
Definition related (a b : name) : Prop := eff_dep tasks a b \/ eff_dep tasks b a.
Lemma related_sym a b : related a b -> related b a.
Proof. unfold related. tauto. Qed.
Lemma static_related a b : In a (static_deps tasks b) \/ In b (static_deps tasks a) -> related a b.
Proof. intros [H|H]; [right|left]; apply ed_static; exact H. Qed.

(* a task that (effectively) depends on itself is never started *)
Theorem parallel_self_dep_never_starts fuel nprocs sched sel a w :
  eff_dep tasks a a -> ~ In (PStart a w) (the_log fuel nprocs sched sel).
Proof.
  intros Hd Hin. apply in_split in Hin. destruct Hin as (pre & post & E).
  apply (parallel_no_start_after_report _ _ _ _ _ _ _ _ E). apply pgood_pfinished.
  exact (pcordered_split tasks _ (parallel_contained tasks wake_rank calc_rank continue_ always proc fuel nprocs sched sel) pre a w post E a Hd).
Qed.

(* (1) the execution intervals of related tasks are disjoint: when the second one starts, the first has ended *)
Theorem parallel_no_overlap fuel nprocs sched sel l1 a wa l2 b wb l3 :
  the_log fuel nprocs sched sel = l1 ++ PStart a wa :: l2 ++ PStart b wb :: l3 ->
  related a b -> In (PEnd a wa) l2.
Proof.
  intros E Hrel.
  pose proof (parallel_contained tasks wake_rank calc_rank continue_ always proc fuel nprocs sched sel) as Hc.
  assert (Eb : the_log fuel nprocs sched sel = (l1 ++ PStart a wa :: l2) ++ PStart b wb :: l3)
    by (rewrite E, <- app_assoc; reflexivity).
  destruct Hrel as [Hab|Hba].
  - (* b is a dependency of a: finished before a started, so never started afterwards *)
    exfalso. apply (parallel_no_start_after_report _ _ _ _ _ _ _ _ Eb).
    apply pfinished_app. apply pgood_pfinished.
    exact (pcordered_split tasks _ Hc l1 a wa _ E b Hab).
  - (* a is a dependency of b: its good final report lies between the two starts, after its PEnd *)
    destruct (pcordered_split tasks _ Hc _ b wb l3 Eb a Hba) as (e & Hin & Hf & _).
    rewrite proj_app in Hin. apply in_app_iff in Hin. destruct Hin as [Hin|Hin].
    + exfalso. apply (parallel_no_start_after_report _ _ _ _ _ _ _ _ E).
      apply in_proj in Hin. unfold pfinished. apply existsb_exists. exists (PE e). split; auto.
    + change (PStart a wa :: l2) with ([PStart a wa] ++ l2) in Hin. rewrite proj_app in Hin. simpl in Hin.
      apply in_proj in Hin. apply in_split in Hin. destruct Hin as (m & m' & ->).
      apply in_or_app. left.
      apply (parallel_end_before_report fuel nprocs sched sel l1 a wa m e (m' ++ PStart b wb :: l3)); auto.
      rewrite E, <- app_assoc. reflexivity.
Qed.

(* (2) interval form.  k is running at the end of the log prefix p: started in some worker, not ended there *)
Definition running_at (p : list pevent) (k : name) : Prop :=
  exists l1 w l2, p = l1 ++ PStart k w :: l2 /\ ~ In (PEnd k w) l2.

Theorem parallel_never_concurrent fuel nprocs sched sel p rest a b :
  the_log fuel nprocs sched sel = p ++ rest -> related a b -> ~ (running_at p a /\ running_at p b).
Proof.
  intros E Hrel [(l1 & wa & l2 & Ea & Na) (m1 & wb & m2 & Eb & Nb)].
  assert (Eab : l1 ++ PStart a wa :: l2 = m1 ++ PStart b wb :: m2) by congruence.
  destruct (app_mid_split _ _ _ _ _ Eab) as [[m [E1 E2]]|[m [E1 E2]]].
  - (* b started first *)
    apply Nb. rewrite E2. apply in_or_app. left.
    apply (parallel_no_overlap fuel nprocs sched sel m1 b wb m a wa (l2 ++ rest)); [|apply related_sym; exact Hrel].
    rewrite E, Ea, E1. repeat (rewrite <- app_assoc || rewrite <- app_comm_cons). reflexivity.
  - destruct m as [|x m]; simpl in E1; inversion E1; subst.
    + (* the same start: a = b depends on itself *)
      assert (Hd : eff_dep tasks b b) by (destruct Hrel; auto).
      apply (parallel_self_dep_never_starts fuel nprocs sched sel b wb Hd). rewrite E. apply in_or_app. left. apply in_elt.
    + (* a started first *)
      apply Na. apply in_or_app. left.
      apply (parallel_no_overlap fuel nprocs sched sel l1 a wa m b wb (m2 ++ rest)); auto.
      rewrite E. repeat (rewrite <- app_assoc || rewrite <- app_comm_cons). reflexivity.
Qed.

(* the declared (static) dependencies are the special case *)
Corollary parallel_no_overlap_static fuel nprocs sched sel l1 a wa l2 b wb l3 :
  the_log fuel nprocs sched sel = l1 ++ PStart a wa :: l2 ++ PStart b wb :: l3 ->
  In a (static_deps tasks b) \/ In b (static_deps tasks a) -> In (PEnd a wa) l2.
Proof. intros E H. eapply parallel_no_overlap; [exact E|apply static_related; exact H]. Qed.

Corollary parallel_never_concurrent_static fuel nprocs sched sel p rest a b :
  the_log fuel nprocs sched sel = p ++ rest ->
  In a (static_deps tasks b) \/ In b (static_deps tasks a) -> ~ (running_at p a /\ running_at p b).
Proof. intros E H. eapply parallel_never_concurrent; [exact E|apply static_related; exact H]. Qed.

End NoOverlap.
