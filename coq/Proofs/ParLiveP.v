(* ParLiveP.v -- the parallel runners (MRunner / MThreadRunner model of Parallel.v) never HANG:
   whenever the main thread blocks in result_q.get() some step is enabled (the result queue is not empty or
   a worker can step), whatever the table, the flavour, the worker count, the schedule, the fuel.

   Invariant (on top of PI / NI / DI / CI / ZI of ParHoldP.v, in the one-step form of ParStepP.v):
     WI :  #workers not exited + #interrupt notices queued = proc_count + #JNone jobs queued
   With CI (proc_count = free_proc + |in flight|) and the deadlock test (proc_count > free_proc) something is
   in flight at every blocking point: a queued result / notice (main can dequeue), a busy worker (it can
   step), or a queued task -- and then by WI some worker is alive, idle if none is busy: it can take a job.
   Measure of the scheduler steps before the main thread must dequeue: mu = 2 |job_q| + #busy workers
   (every worker step decreases it).

   The model's exit code 98 (PHung) is also produced when main_get exhausts ITS fuel (4 * fuel): this does
   happen for small fuel and many workers (Example at the end), so "snd (run_parallel ..) <> 98" holds only
   above a fuel bound (ParTermP.v); what holds for every fuel is: the PHang event is never logged, and
   main_get answers None only when its fuel was not above mu. *)
From Coq Require Import Permutation.
From DoitV Require Import Base Dispatch Runner Parallel DispatchP DispatchInv RunnerTr RunnerP AncP HoldP HoldG CompleteP ParallelP ParHoldP ParStepP.
Open Scope nat_scope.

Ltac nlia := unfold name in *; lia.

Tactic Notation "pcbn" :=
  cbn [p_results p_r p_free p_count p_workers p_wtd p_jobs p_sched p_log p_seen with_jobs with_workers with_results with_r with_sched with_counts plog sync
       put_job start_worker].
Tactic Notation "pcbn" "in" hyp(H) :=
  cbn [p_results p_r p_free p_count p_workers p_wtd p_jobs p_sched p_log p_seen with_jobs with_workers with_results with_r with_sched with_counts plog sync
       put_job start_worker] in H.

(* ---------- counting workers and jobs ---------- *)
Definition is_alive (w : wst) : bool := match w with WExited => false | _ => true end.
Fixpoint alive (ws : list wst) : nat :=
  match ws with [] => 0 | w :: r => (if is_alive w then 1 else 0) + alive r end.
Fixpoint nnone (js : list job) : nat :=
  match js with [] => 0 | JNone :: r => S (nnone r) | _ :: r => nnone r end.
Definition nbusy (ws : list wst) : nat := length (busy_tasks ws).

Lemma alive_app a b : alive (a ++ b) = alive a + alive b.
Proof. induction a as [|x a IH]; simpl; auto. rewrite IH. lia. Qed.
Lemma nnone_app a b : nnone (a ++ b) = nnone a + nnone b.
Proof. induction a as [|x a IH]; simpl; auto. destruct x; simpl; rewrite IH; lia. Qed.
Lemma alive_le ws : alive ws <= length ws.
Proof. induction ws as [|x ws IH]; simpl; auto. destruct (is_alive x); lia. Qed.
Lemma nnone_le js : nnone js <= length js.
Proof. induction js as [|x js IH]; simpl; auto. destruct x; lia. Qed.

Lemma alive_set_nth ws : forall w s, w < length ws ->
  alive (set_nth ws w s) + (if is_alive (nth w ws WExited) then 1 else 0) = alive ws + (if is_alive s then 1 else 0).
Proof.
  induction ws as [|x ws IH]; intros w s Hw; simpl in Hw; [lia|].
  destruct w as [|w]; simpl.
  - lia.
  - specialize (IH w s ltac:(lia)). lia.
Qed.

Lemma nbusy_set_nth ws : forall w s, w < length ws ->
  nbusy (set_nth ws w s) + length (busy_of (nth w ws WExited)) = nbusy ws + length (busy_of s).
Proof.
  unfold nbusy. induction ws as [|x ws IH]; intros w s Hw; simpl in Hw; [lia|].
  destruct w as [|w]; simpl.
  - fold (busy_of s). fold (busy_of x). rewrite !app_length. nlia.
  - fold (busy_of x). rewrite !app_length. specialize (IH w s ltac:(lia)). simpl in IH. nlia.
Qed.

Lemma alive_pos_ex ws : 0 < alive ws -> exists w, w < length ws /\ is_alive (nth w ws WExited) = true.
Proof.
  induction ws as [|x ws IH]; simpl; [lia|]. intros H.
  destruct (is_alive x) eqn:E.
  - exists 0. split; [lia|exact E].
  - destruct (IH ltac:(lia)) as (w & A & B). exists (S w). split; [lia|exact B].
Qed.

Lemma nbusy_pos_ex ws : 0 < nbusy ws -> exists w k, nth w ws WExited = WBusy k.
Proof.
  unfold nbusy. induction ws as [|x ws IH]; simpl; [lia|]. intros H. rewrite app_length in H.
  destruct x as [|k|].
  - destruct (IH ltac:(simpl in H; lia)) as (w & k & A). exists (S w), k. exact A.
  - exists 0, k. reflexivity.
  - destruct (IH ltac:(simpl in H; lia)) as (w & k & A). exists (S w), k. exact A.
Qed.

Lemma idle_ex ws : nbusy ws = 0 -> 0 < alive ws -> exists w, nth w ws WExited = WIdle.
Proof.
  unfold nbusy. induction ws as [|x ws IH]; simpl; [lia|]. intros Hb Ha. rewrite app_length in Hb.
  destruct x as [|k|]; simpl in *.
  - exists 0. reflexivity.
  - lia.
  - destruct (IH ltac:(lia) ltac:(lia)) as (w & A). exists (S w). exact A.
Qed.

Lemma alive_all_idle ws : (forall w, In w ws -> w = WIdle) -> alive ws = length ws /\ nbusy ws = 0.
Proof.
  unfold nbusy. induction ws as [|x ws IH]; intros H; simpl; auto.
  rewrite (H x (or_introl eq_refl)). simpl. destruct IH as [A B]; [intros w Hw; apply H; right; exact Hw|].
  split; [lia|exact B].
Qed.

(* ---------- the scheduler ---------- *)
Lemma choose_lt n s : 0 < n -> fst (choose n s) < n.
Proof.
  intros Hn. unfold choose. destruct n as [|[|n]]; cbn [fst]; try lia.
  destruct s as [|c r]; cbn [fst]; [lia|].
  apply Nat.mod_upper_bound. lia.
Qed.

Section PL.
Variable tasks : name -> option task.
Variable wake_rank : name -> name -> N.
Variable calc_rank : name -> N.
Variable continue_ always proc : bool.

Notation node_of := (node_of tasks).
Notation st_of := (st_of tasks).
Notation get_task := (get_task tasks).
Notation reach := (reach tasks).
Notation PI := (PI tasks).
Notation NI := (NI tasks continue_).
Notation DI := (DI tasks).
Notation DJ := (DJ tasks).
Notation HOI := (HOI tasks continue_).
Notation SPI := (SPI tasks continue_).
Notation MI := (MI tasks continue_).
Notation worker_enabled := (worker_enabled).
Notation worker_step := (worker_step tasks proc).
Notation main_get := (main_get tasks proc).
Notation join_all := (join_all tasks proc).
Notation next_job_loop := (next_job_loop tasks wake_rank calc_rank continue_ always).
Notation get_next_job := (get_next_job tasks wake_rank calc_rank continue_ always).
Notation start_procs := (start_procs tasks wake_rank calc_rank continue_ always proc).
Notation hand_out := (hand_out tasks wake_rank calc_rank continue_ always).
Notation main_loop := (main_loop tasks wake_rank calc_rank continue_ always proc).
Notation terminate := (terminate proc).
Notation run_parallel := (run_parallel tasks wake_rank calc_rank continue_ always proc).
Notation run_core := (run_core tasks wake_rank calc_rank continue_ always proc).

Lemma enabled_workers_In p n : forall i w,
  In w (enabled_workers p n i) <-> (i <= w < i + n /\ worker_enabled p w = true).
Proof.
  induction n as [|n IH]; intros i w; cbn [enabled_workers].
  - split; [intros []|lia].
  - rewrite in_app_iff, IH. destruct (worker_enabled p i) eqn:E; simpl; split.
    + intros [[<-|[]]|[A B]]; [split; [lia|exact E]|split; [lia|exact B]].
    + intros [A B]. destruct (Nat.eq_dec i w) as [->|Hne]; [left; left; reflexivity|right; split; [lia|exact B]].
    + intros [[]|[A B]]. split; [lia|exact B].
    + intros [A B]. right. destruct (Nat.eq_dec i w) as [->|Hne]; [congruence|]. split; [lia|exact B].
Qed.

Lemma enabled_lt p w : worker_enabled p w = true -> w < length (p_workers p).
Proof.
  unfold Parallel.worker_enabled. intros H.
  destruct (Nat.ltb_spec w (length (p_workers p))); auto.
  rewrite nth_overflow in H by lia. discriminate.
Qed.

Lemma enabled_in p w : worker_enabled p w = true -> In w (enabled_workers p (length (p_workers p)) 0).
Proof. intros H. apply enabled_workers_In. split; [|exact H]. pose proof (enabled_lt p w H). lia. Qed.

(* ---------- one step of a worker: the four cases ---------- *)
Inductive wstep (p : pstate) (w : nat) (p' : pstate) : Prop :=
| WS_task k js :
    nth w (p_workers p) WExited = WIdle -> p_jobs p = JTask k :: js -> p_jobs p' = js ->
    p_workers p' = set_nth (p_workers p) w (WBusy k) ->
    p_results p' = (if proc then p_results p ++ [MReport k] else p_results p) ->
    p_wtd p' = (if proc then if t_teardown (get_task k) then set_nth (p_wtd p) w (nth w (p_wtd p) [] ++ [k]) else p_wtd p else p_wtd p) ->
    wstep p w p'
| WS_hold js :
    nth w (p_workers p) WExited = WIdle -> p_jobs p = JHold :: js -> p_jobs p' = js ->
    p_workers p' = p_workers p -> p_results p' = p_results p -> p_wtd p' = p_wtd p -> wstep p w p'
| WS_none js :
    nth w (p_workers p) WExited = WIdle -> p_jobs p = JNone :: js -> p_jobs p' = js ->
    p_workers p' = set_nth (p_workers p) w WExited ->
    p_results p' = (if proc then p_results p ++ map MTeardown (rev (nth w (p_wtd p) [])) else p_results p) ->
    p_wtd p' = p_wtd p -> wstep p w p'
| WS_done k :
    nth w (p_workers p) WExited = WBusy k -> p_jobs p' = p_jobs p ->
    p_workers p' = set_nth (p_workers p) w (if is_interrupt tasks k then WExited else WIdle) ->
    p_results p' = p_results p ++ [if is_interrupt tasks k then MExit k else MResult k] ->
    p_wtd p' = p_wtd p -> wstep p w p'.

Lemma worker_step_cases p w : worker_enabled p w = true ->
  let p' := worker_step p w in
  w < length (p_workers p) /\ p_count p' = p_count p /\ p_free p' = p_free p /\
  r_d (p_r p') = r_d (p_r p) /\ r_stop (p_r p') = r_stop (p_r p) /\ p_sched p' = p_sched p /\
  (forall e, In e (p_log p') -> In e (p_log p) \/ e <> PHang) /\
  wstep p w p'.
Proof.
  intros He. pose proof (enabled_lt p w He) as Hw. cbv zeta.
  unfold Parallel.worker_enabled in He. unfold Parallel.worker_step.
  assert (Hlog : forall q evs e, (forall x, In x evs -> x <> PHang) -> In e (p_log (plog q evs)) -> In e (p_log q) \/ e <> PHang).
  { intros q evs e Hevs Hin. pcbn in Hin. rewrite !in_app_iff in Hin. destruct Hin as [[Hin|Hin]|Hin]; [left; exact Hin| |].
    - right. apply in_map_iff in Hin. destruct Hin as (x & <- & _). discriminate.
    - right. apply Hevs. exact Hin. }
  destruct (nth w (p_workers p) WExited) as [|k|] eqn:Ew; [| |discriminate].
  - destruct (p_jobs p) as [|j js] eqn:Ej; [discriminate|].
    destruct j as [k| |].
    + destruct proc eqn:Epr.
      * repeat (split; [first [exact Hw|reflexivity]|]). split.
        -- intros e Hin. apply Hlog in Hin; auto. intros x [<-|[]]. discriminate.
        -- eapply (WS_task p w _ k js); auto; pcbn; rewrite ?Epr; try reflexivity;
             destruct (t_teardown (get_task k)); reflexivity.
      * repeat (split; [first [exact Hw|reflexivity]|]). split.
        -- intros e Hin. apply Hlog in Hin; auto. intros x [<-|[]]. discriminate.
        -- eapply (WS_task p w _ k js); auto; pcbn; rewrite ?Epr; reflexivity.
    + repeat (split; [first [exact Hw|reflexivity]|]). split; [intros e Hin; left; exact Hin|].
      eapply (WS_hold p w _ js); auto.
    + destruct proc eqn:Epr.
      * repeat (split; [first [exact Hw|reflexivity]|]). split.
        -- intros e Hin. pcbn in Hin. rewrite !in_app_iff in Hin. destruct Hin as [[Hin|Hin]|Hin]; auto; right.
           ++ apply in_map_iff in Hin. destruct Hin as (x & <- & _). discriminate.
           ++ apply in_map_iff in Hin. destruct Hin as (x & <- & _). discriminate.
        -- eapply (WS_none p w _ js); auto; pcbn; rewrite ?Epr; reflexivity.
      * repeat (split; [first [exact Hw|reflexivity]|]). split; [intros e Hin; left; exact Hin|].
        eapply (WS_none p w _ js); auto; pcbn; rewrite ?Epr; reflexivity.
  - destruct (is_interrupt tasks k) eqn:Ei.
    + repeat (split; [first [exact Hw|reflexivity]|]). split.
      * intros e Hin. apply Hlog in Hin; auto. intros x [<-|[]]. discriminate.
      * eapply (WS_done p w _ k); auto; pcbn; rewrite ?Ei; reflexivity.
    + repeat (split; [first [exact Hw|reflexivity]|]). split.
      * intros e Hin. apply Hlog in Hin; auto. intros x [<-|[]]. discriminate.
      * eapply (WS_done p w _ k); auto; pcbn; rewrite ?Ei; reflexivity.
Qed.

(* ---------- the worker / slot accounting ---------- *)
Definition WI (p : pstate) : Prop :=
  alive (p_workers p) + length (exit_tasks (p_results p)) = p_count p + nnone (p_jobs p).
(* scheduler steps available before the main thread must dequeue *)
Definition mu (p : pstate) : nat := 2 * length (p_jobs p) + nbusy (p_workers p).
(* the main thread is blocked in result_q.get() with something in flight *)
Definition K (p : pstate) : Prop := WI p /\ 0 < p_count p /\ flight p <> [].
Definition NH (p : pstate) : Prop := ~ In PHang (p_log p).

Lemma exit_tasks_reports l : exit_tasks (map MTeardown l) = [].
Proof. induction l; simpl; auto. Qed.

Lemma worker_step_WI p w : worker_enabled p w = true -> WI p -> WI (worker_step p w).
Proof.
  intros He H. destruct (worker_step_cases p w He) as (Hw & Hc & _ & _ & _ & _ & _ & Hs). cbv zeta in *.
  unfold WI in *. rewrite Hc.
  destruct Hs as [k js A B C D E F|js A B C D E F|js A B C D E F|k A C D E F]; rewrite C, D, E.
  - pose proof (alive_set_nth (p_workers p) w (WBusy k) Hw) as Ha. rewrite A in Ha. rewrite B in H. simpl in *.
    destruct proc; rewrite ?exit_tasks_app; simpl; rewrite ?app_nil_r; lia.
  - rewrite B in H. simpl in H. exact H.
  - pose proof (alive_set_nth (p_workers p) w WExited Hw) as Ha. rewrite A in Ha. rewrite B in H. simpl in *.
    destruct proc; rewrite ?exit_tasks_app, ?exit_tasks_reports; simpl; rewrite ?app_nil_r; lia.
  - pose proof (alive_set_nth (p_workers p) w (if is_interrupt tasks k then WExited else WIdle) Hw) as Ha. rewrite A in Ha.
    rewrite exit_tasks_app, app_length. destruct (is_interrupt tasks k); simpl in *; lia.
Qed.

Lemma worker_step_mu p w : worker_enabled p w = true -> mu (worker_step p w) + 1 <= mu p.
Proof.
  intros He. destruct (worker_step_cases p w He) as (Hw & Hc & _ & _ & _ & _ & _ & Hs). cbv zeta in *.
  unfold mu.
  destruct Hs as [k js A B C D E F|js A B C D E F|js A B C D E F|k A C D E F]; rewrite C, D.
  - pose proof (nbusy_set_nth (p_workers p) w (WBusy k) Hw) as Hb. rewrite A in Hb. rewrite B. simpl in *. lia.
  - rewrite B. simpl. lia.
  - pose proof (nbusy_set_nth (p_workers p) w WExited Hw) as Hb. rewrite A in Hb. rewrite B. simpl in *. lia.
  - pose proof (nbusy_set_nth (p_workers p) w (if is_interrupt tasks k then WExited else WIdle) Hw) as Hb. rewrite A in Hb.
    destruct (is_interrupt tasks k); simpl in *; lia.
Qed.

Lemma worker_step_K p w : worker_enabled p w = true -> K p -> K (worker_step p w).
Proof.
  intros He (A & B & C). destruct (worker_step_cases p w He) as (Hw & Hc & _). cbv zeta in *.
  split; [apply worker_step_WI; auto|]. split; [lia|].
  intros Hn. apply C. pose proof (worker_step_perm tasks proc p w) as P. rewrite Hn in P.
  apply Permutation_sym in P. apply Permutation_nil in P. exact P.
Qed.

Lemma worker_step_NH p w : worker_enabled p w = true -> NH p -> NH (worker_step p w).
Proof.
  intros He H Hin. destruct (worker_step_cases p w He) as (_ & _ & _ & _ & _ & _ & Hl & _). cbv zeta in *.
  destruct (Hl _ Hin) as [A|A]; [exact (H A)|congruence].
Qed.

(* blocked with nothing to dequeue: some worker can step *)
Lemma K_enabled p : K p -> p_results p = [] -> exists w, worker_enabled p w = true.
Proof.
  intros (HW & Hc & Hf) Hr. unfold WI in HW. rewrite Hr in HW. simpl in HW.
  unfold flight, live in Hf. rewrite Hr in Hf. simpl in Hf. rewrite !app_nil_r in Hf.
  destruct (Nat.eq_dec (nbusy (p_workers p)) 0) as [Hb|Hb].
  - assert (Hj : p_jobs p <> []).
    { intros Hj. apply Hf. rewrite Hj. simpl. unfold nbusy in Hb. apply length_zero_iff_nil in Hb. exact Hb. }
    destruct (idle_ex (p_workers p) Hb ltac:(lia)) as (w & Ew).
    exists w. unfold Parallel.worker_enabled. rewrite Ew. destruct (p_jobs p); [congruence|reflexivity].
  - destruct (nbusy_pos_ex (p_workers p) ltac:(lia)) as (w & k & Ew).
    exists w. unfold Parallel.worker_enabled. rewrite Ew. reflexivity.
Qed.

(* ---------- main_get ---------- *)
(* any property kept by the scheduler's bookkeeping and by enabled worker steps holds in the state main
   dequeues from *)
Lemma main_get_inv (X : pstate -> Prop) :
  (forall p s, X p -> X (with_sched p s)) ->
  (forall p w, X p -> worker_enabled p w = true -> X (worker_step p w)) ->
  forall fuel p m0 p', X p -> main_get fuel p = (Some m0, p') ->
  exists p0, X p0 /\ p_results p0 = m0 :: p_results p' /\ p' = with_results p0 (p_results p').
Proof.
  intros Xs Xw. induction fuel as [|fuel IH]; intros p m0 p' HX E; cbn [Parallel.main_get] in E; [discriminate|].
  set (ws := enabled_workers p (length (p_workers p)) 0) in *.
  destruct ((if negb (is_nil (p_results p)) then 1 else 0) + length ws) eqn:En; [discriminate|].
  pose proof (choose_lt (S n) (p_sched p) ltac:(lia)) as Hlt.
  destruct (choose (S n) (p_sched p)) as [c s]. simpl in Hlt.
  destruct (negb (is_nil (p_results p)) && Nat.eqb c 0) eqn:Ed.
  - pcbn in E. destruct (p_results p) as [|m1 rs] eqn:Er; [discriminate|].
    inversion E; subst. exists (with_sched p s). split; [apply Xs; exact HX|]. pcbn. split; [exact Er|reflexivity].
  - eapply IH; [|exact E]. apply Xw; [apply Xs; exact HX|].
    assert (Hin : In (nth (if negb (is_nil (p_results p)) then Init.Nat.pred c else c) ws 0) ws).
    { apply nth_In. destruct (negb (is_nil (p_results p))) eqn:Eq; simpl in *.
      - apply Nat.eqb_neq in Ed. lia.
      - lia. }
    apply enabled_workers_In in Hin. exact (proj2 Hin).
Qed.

(* main_get never reports a hang, and answers only when its fuel is not above mu *)
Lemma main_get_live fuel : forall p m p', K p -> main_get fuel p = (m, p') ->
  (NH p -> NH p') /\ (m = None -> fuel <= mu p).
Proof.
  induction fuel as [|fuel IH]; intros p m p' HK E; cbn [Parallel.main_get] in E.
  { inversion E; subst. split; [auto|intros _; lia]. }
  set (ws := enabled_workers p (length (p_workers p)) 0) in *.
  destruct ((if negb (is_nil (p_results p)) then 1 else 0) + length ws) eqn:En.
  { exfalso. destruct (p_results p) eqn:Er; simpl in En; [|lia].
    destruct (K_enabled p HK Er) as (w & Hw). apply enabled_in in Hw. fold ws in Hw.
    destruct ws; [destruct Hw|simpl in En; lia]. }
  pose proof (choose_lt (S n) (p_sched p) ltac:(lia)) as Hlt.
  destruct (choose (S n) (p_sched p)) as [c s]. simpl in Hlt.
  destruct (negb (is_nil (p_results p)) && Nat.eqb c 0) eqn:Ed.
  - pcbn in E. destruct (p_results p) as [|m1 rs] eqn:Er; [discriminate|].
    inversion E; subst. split; [intros H; exact H|discriminate].
  - assert (Hin : In (nth (if negb (is_nil (p_results p)) then Init.Nat.pred c else c) ws 0) ws).
    { apply nth_In. destruct (negb (is_nil (p_results p))) eqn:Eq; simpl in *.
      - apply Nat.eqb_neq in Ed. lia.
      - lia. }
    apply enabled_workers_In in Hin. destruct Hin as [_ Hen].
    set (w := nth (if negb (is_nil (p_results p)) then Init.Nat.pred c else c) ws 0) in *.
    assert (Hen' : worker_enabled (with_sched p s) w = true) by exact Hen.
    assert (HK' : K (with_sched p s)) by exact HK.
    destruct (IH _ _ _ (worker_step_K _ _ Hen' HK') E) as [A B].
    split.
    + intros H. apply A. apply worker_step_NH; auto.
    + intros Hm. specialize (B Hm). pose proof (worker_step_mu _ _ Hen'). change (mu (with_sched p s)) with (mu p) in *. lia.
Qed.

Corollary main_get_some fuel p : K p -> mu p < fuel -> exists m0 p', main_get fuel p = (Some m0, p').
Proof.
  intros HK Hf. destruct (main_get fuel p) as [[m0|] p'] eqn:E; [eauto|].
  destruct (main_get_live fuel p None p' HK E) as [_ B]. specialize (B eq_refl). lia.
Qed.

(* ---------- the dispatcher side leaves queues, workers and log alone ---------- *)
Definition same_w (p p' : pstate) : Prop :=
  p_workers p' = p_workers p /\ p_wtd p' = p_wtd p /\ p_jobs p' = p_jobs p /\ p_results p' = p_results p /\
  p_log p' = p_log p /\ p_count p' = p_count p.
Lemma same_w_refl p : same_w p p. Proof. repeat split. Qed.

Lemma next_job_loop_same fuel : forall p c g p', next_job_loop fuel p c = (g, p') -> same_w p p'.
Proof.
  induction fuel as [|fuel IH]; intros p c g p' E; cbn [Parallel.next_job_loop] in E; [inversion E; apply same_w_refl|].
  destruct (disp_send tasks wake_rank calc_rank (S fuel) (r_d (p_r p)) c) as [[k| | |path|] d].
  - destruct (select_task tasks continue_ always (with_d (p_r p) d) k) as [[|] r1].
    + inversion E; subst. repeat split.
    + apply IH in E. exact E.
  - inversion E; subst. repeat split.
  - inversion E; subst. repeat split.
  - inversion E; subst. repeat split.
  - inversion E; subst. repeat split.
Qed.
Lemma get_next_job_same fuel p c g p' : get_next_job fuel p c = (g, p') -> same_w p p'.
Proof.
  unfold Parallel.get_next_job. destruct (r_stop (p_r p)); [intros E; inversion E; apply same_w_refl|apply next_job_loop_same].
Qed.

Lemma terminate_NH p : NH p -> NH (terminate p).
Proof.
  unfold NH, Parallel.terminate. destruct (proc && negb (is_nil (p_workers p))); auto.
  intros H Hin. pcbn in Hin. rewrite !in_app_iff in Hin. destruct Hin as [[Hin|Hin]|[Hin|[]]]; auto; try discriminate.
  apply in_map_iff in Hin. destruct Hin as (x & Hx & _). discriminate.
Qed.

(* ---------- hand_out ---------- *)
Lemma hand_out_L fuel n : forall p c e p',
  HOI n p c -> WI p -> NH p -> hand_out fuel n p c = (e, p') ->
  NH p' /\ (e = PNormal -> HOI 0 p' (match n with O => c | S _ => None end) /\ WI p' /\ length (p_workers p') = length (p_workers p)).
Proof.
  induction n as [|n IH]; intros p c e p' HH HW Hh E; cbn [Parallel.hand_out] in E.
  { inversion E; subst. auto. }
  destruct (get_next_job fuel p c) as [g p1] eqn:Eg.
  destruct (hand_out_step tasks wake_rank calc_rank continue_ always fuel n p c g p1 HH Eg) as (Q1 & Hg).
  destruct (get_next_job_same _ _ _ _ _ Eg) as (Sw & Std & Sj & Sr & Sl & Sc).
  assert (Hcnt : 0 < p_count p) by (destruct HH as (_ & _ & _ & _ & HC & _); unfold CI in HC; lia).
  destruct g as [j| |path|].
  - destruct Hg as (H2 & Hj).
    destruct (IH (put_job p1 j) None e p' H2) as (A & B); [| |exact E|].
    + unfold WI in *. pcbn. rewrite Sw, Sr, Sc, Sj, nnone_app. destruct j; try contradiction; simpl; lia.
    + unfold NH in *. pcbn. rewrite Sl. exact Hh.
    + split; [exact A|]. intros He. destruct (B He) as (B1 & B2 & B3). split; [destruct n; exact B1|]. split; [exact B2|].
      rewrite B3. pcbn. rewrite Sw. reflexivity.
  - destruct Hg as (Hf & H2).
    destruct (IH _ None e p' H2) as (A & B); [| |exact E|].
    + unfold WI in *. pcbn. rewrite Sw, Sr, Sc, Sj, nnone_app. simpl. lia.
    + unfold NH in *. pcbn. rewrite Sl. exact Hh.
    + split; [exact A|]. intros He. destruct (B He) as (B1 & B2 & B3). split; [destruct n; exact B1|]. split; [exact B2|].
      rewrite B3. pcbn. rewrite Sw. reflexivity.
  - inversion E; subst. split; [|discriminate]. unfold NH in *. rewrite Sl. exact Hh.
  - inversion E; subst. split; [|discriminate]. unfold NH in *. rewrite Sl. exact Hh.
Qed.

(* ---------- start_procs ---------- *)
(* before the main loop: nothing has run yet *)
Definition SS (p : pstate) : Prop :=
  p_results p = [] /\ (forall w, In w (p_workers p) -> w = WIdle) /\ nnone (p_jobs p) = 0 /\
  (forall l, In l (p_wtd p) -> l = []) /\ length (p_jobs p) = length (p_workers p).

Lemma start_procs_L fuel n : forall p e p',
  SPI p -> SS p -> NH p -> start_procs fuel n p = (e, p') ->
  NH p' /\ (e = PNormal -> SPI p' /\ SS p' /\ length (p_workers p') <= length (p_workers p) + n).
Proof.
  induction n as [|n IH]; intros p e p' HS H0 Hh E; cbn [Parallel.start_procs] in E.
  { inversion E; subst. split; auto. intros _. split; auto. split; auto. lia. }
  destruct (get_next_job fuel p None) as [g p1] eqn:Eg.
  destruct (start_procs_step tasks wake_rank calc_rank continue_ always fuel p g p1 HS Eg) as (Q1 & Hg).
  destruct (get_next_job_same _ _ _ _ _ Eg) as (Sw & Std & Sj & Sr & Sl & Sc).
  destruct H0 as (R0 & W0 & J0 & T0 & L0).
  destruct g as [j| |path|].
  - destruct Hg as (H2 & Hj).
    destruct (IH (start_worker (put_job p1 j)) e p' H2) as (A & B); [| |exact E|].
    + split; [|split; [|split; [|split]]]; pcbn.
      * rewrite Sr. exact R0.
      * intros w Hw. rewrite Sw in Hw. apply in_app_iff in Hw. destruct Hw as [Hw|[<-|[]]]; auto.
      * rewrite Sj, nnone_app, J0. destruct j; try congruence; reflexivity.
      * intros l Hl. rewrite Std in Hl. apply in_app_iff in Hl. destruct Hl as [Hl|[<-|[]]]; auto.
      * rewrite Sj, Sw, !app_length, L0. reflexivity.
    + unfold NH in *. pcbn. rewrite Sl. exact Hh.
    + split; [exact A|]. intros He. destruct (B He) as (B1 & B2 & B3). split; auto. split; auto.
      pcbn in B3. rewrite Sw, app_length in B3. simpl in B3. lia.
  - inversion E; subst. split; [unfold NH in *; rewrite Sl; exact Hh|]. intros _. split; [exact Hg|]. split.
    + split; [|split; [|split; [|split]]]; rewrite ?Sr, ?Sw, ?Sj, ?Std; auto.
    + rewrite Sw. lia.
  - inversion E; subst. split; [|discriminate]. apply terminate_NH. unfold NH in *. rewrite Sl. exact Hh.
  - inversion E; subst. split; [|discriminate]. unfold NH in *. rewrite Sl. exact Hh.
Qed.

(* ---------- the main loop ---------- *)
Lemma deadlocked_false_flight p : CI (p_count p) 0 p -> deadlocked p = false -> 0 < p_count p -> flight p <> [].
Proof.
  unfold CI, deadlocked. intros HC Hd Hc Hf. rewrite Hf in HC. simpl in HC.
  destruct (Nat.eqb_spec (p_count p) 0); [lia|]. simpl in Hd. apply Nat.leb_gt in Hd. lia.
Qed.

(* the invariant at the top of the `while proc_count` loop *)
Definition LI (p : pstate) : Prop := MI p /\ WI p /\ deadlocked p = false.

Lemma LI_K p : LI p -> 0 < p_count p -> K p.
Proof.
  intros ((_ & _ & HC & _) & HW & Hd) Hc. split; auto. split; auto. apply deadlocked_false_flight; auto.
Qed.

Lemma WI_sched p s : WI p -> WI (with_sched p s). Proof. intros H; exact H. Qed.

(* what the main thread dequeues, and the state it goes on from *)
Lemma main_get_WI fuel p m0 p' : K p -> main_get fuel p = (Some m0, p') ->
  length (p_workers p') = length (p_workers p) /\
  alive (p_workers p') + length (exit_tasks (m0 :: p_results p')) = p_count p' + nnone (p_jobs p').
Proof.
  intros HK E.
  destruct (main_get_inv (fun q => WI q /\ length (p_workers q) = length (p_workers p)) (fun q s H => H)
              ltac:(intros q w [A B] He; split; [apply worker_step_WI; auto|];
                    destruct (worker_step_cases q w He) as (_ & _ & _ & _ & _ & _ & _ & Hs); cbv zeta in Hs;
                    destruct Hs as [k js A0 B0 C D E0 F|js A0 B0 C D E0 F|js A0 B0 C D E0 F|k A0 C D E0 F]; rewrite D, ?set_nth_length; exact B)
              fuel p m0 p' (conj (proj1 HK) eq_refl) E) as (p0 & [HW HL] & Er & ->).
  pcbn. split; [exact HL|]. unfold WI in HW. rewrite Er in HW. exact HW.
Qed.

Lemma main_loop_L fuel : forall p e p',
  LI p -> NH p -> main_loop fuel p = (e, p') -> NH p'.
Proof.
  induction fuel as [|fuel IH]; intros p e p' HL Hh E; cbn [Parallel.main_loop] in E.
  { inversion E; subst. exact Hh. }
  destruct (p_count p) eqn:Ecnt.
  { inversion E; subst. exact Hh. }
  assert (HK : K p) by (apply LI_K; auto; lia).
  destruct HL as (HM & HW & Hd).
  destruct (main_get (S fuel * 4) p) as [m p1] eqn:Em.
  destruct (main_get_live _ _ _ _ HK Em) as [Hh1 _]. specialize (Hh1 Hh).
  destruct m as [[k|k|k|k]|].
  - (* a result *)
    destruct (main_get_WI _ _ _ _ HK Em) as [HLn HW1].
    destruct (main_step_result tasks wake_rank calc_rank continue_ proc _ _ _ _ HM Em) as [HH Hi]. cbv zeta in HH.
    set (p2 := with_r p1 (process_result tasks continue_ (p_r p1) k)) in *.
    destruct (hand_out (S fuel) (S (p_free p2)) (with_counts p2 0 (p_count p2)) (Some k)) as [e2 p3] eqn:Eh.
    assert (HW2 : WI (with_counts p2 0 (p_count p2))) by (unfold WI; pcbn; simpl in HW1; exact HW1).
    assert (Hh2 : NH (with_counts p2 0 (p_count p2))) by exact Hh1.
    destruct (hand_out_L _ _ _ _ _ _ HH HW2 Hh2 Eh) as (Hh3 & B3).
    destruct e2; try (inversion E; subst; apply terminate_NH; exact Hh3).
    destruct (B3 eq_refl) as (H3 & W3 & L3).
    destruct (deadlocked p3) eqn:Edl; [inversion E; subst; apply terminate_NH; exact Hh3|].
    apply (IH p3 e p'); auto. split; [apply HOI_MI; exact H3|]. split; auto.
  - (* execute report forwarded by a worker process *)
    destruct (main_get_WI _ _ _ _ HK Em) as [HLn HW1].
    pose proof (main_step_report tasks continue_ proc _ _ _ _ HM Em) as HM1.
    destruct (main_get_N _ _ _ _ _ _ _ (proj1 (proj2 HM)) Em) as (_ & (_ & _ & Qf & Qc & _) & _).
    eapply IH; [| |exact E]; [|exact Hh1]. split; [exact HM1|]. split; [exact HW1|].
    unfold deadlocked in *. pcbn. rewrite Qf, Qc. exact Hd.
  - destruct (main_get_WI _ _ _ _ HK Em) as [HLn HW1].
    pose proof (main_step_teardown tasks continue_ proc _ _ _ _ HM Em) as HM1.
    destruct (main_get_N _ _ _ _ _ _ _ (proj1 (proj2 HM)) Em) as (_ & (_ & _ & Qf & Qc & _) & _).
    eapply IH; [| |exact E]; [|exact Hh1]. split; [exact HM1|]. split; [exact HW1|].
    unfold deadlocked in *. pcbn. rewrite Qf, Qc. exact Hd.
  - inversion E; subst. apply terminate_NH. exact Hh1.
  - inversion E; subst. apply terminate_NH. exact Hh1.
Qed.


(* ---------- after the loop: join ---------- *)
Lemma join_all_inv (X : pstate -> Prop) :
  (forall p s, X p -> X (with_sched p s)) ->
  (forall p w, X p -> worker_enabled p w = true -> X (worker_step p w)) ->
  forall fuel p, X p -> X (join_all fuel p).
Proof.
  intros Xs Xw. induction fuel as [|fuel IH]; intros p HX; cbn [Parallel.join_all]; auto.
  destruct (enabled_workers p (length (p_workers p)) 0) as [|w0 ws] eqn:Ew; auto.
  pose proof (choose_lt (length (w0 :: ws)) (p_sched p) ltac:(simpl; lia)) as Hlt.
  destruct (choose (length (w0 :: ws)) (p_sched p)) as [c s]. simpl fst in Hlt.
  apply IH. apply Xw; [apply Xs; exact HX|].
  assert (Hin : In (nth c (w0 :: ws) 0) (enabled_workers p (length (p_workers p)) 0)) by (rewrite Ew; apply nth_In; exact Hlt).
  apply enabled_workers_In in Hin. exact (proj2 Hin).
Qed.

(* with fuel above mu every Child.join() returns: no worker can step any more *)
Lemma join_all_done fuel : forall p, mu p <= fuel ->
  enabled_workers (join_all fuel p) (length (p_workers (join_all fuel p))) 0 = [].
Proof.
  induction fuel as [|fuel IH]; intros p Hm; cbn [Parallel.join_all].
  - destruct (enabled_workers p (length (p_workers p)) 0) as [|w0 ws] eqn:Ew; auto. exfalso.
    assert (Hin : In w0 (enabled_workers p (length (p_workers p)) 0)) by (rewrite Ew; left; reflexivity). apply enabled_workers_In in Hin.
    pose proof (worker_step_mu p w0 (proj2 Hin)). lia.
  - destruct (enabled_workers p (length (p_workers p)) 0) as [|w0 ws] eqn:Ew; auto.
    pose proof (choose_lt (length (w0 :: ws)) (p_sched p) ltac:(simpl; lia)) as Hlt.
    destruct (choose (length (w0 :: ws)) (p_sched p)) as [c s]. simpl fst in Hlt.
    apply IH.
    assert (Hin : In (nth c (w0 :: ws) 0) (enabled_workers p (length (p_workers p)) 0)) by (rewrite Ew; apply nth_In; exact Hlt).
    apply enabled_workers_In in Hin.
    pose proof (worker_step_mu (with_sched p s) _ (proj2 Hin)). change (mu (with_sched p s)) with (mu p) in *. lia.
Qed.

(* ... and every worker has exited (got its None job) if the loop ended with proc_count = 0 and nothing in flight *)
Lemma no_enabled_all_exited p :
  WI p -> p_count p = 0 -> flight p = [] ->
  enabled_workers p (length (p_workers p)) 0 = [] -> alive (p_workers p) = 0.
Proof.
  intros HW Hc Hf He. unfold WI in HW. rewrite Hc in HW.
  unfold flight, live in Hf. apply app_eq_nil in Hf. destruct Hf as [Hf Hx]. apply app_eq_nil in Hf. destruct Hf as [Hj Hf].
  apply app_eq_nil in Hf. destruct Hf as [Hb Hr]. rewrite Hx in HW. simpl in HW.
  destruct (Nat.eq_dec (alive (p_workers p)) 0) as [|Hne]; auto. exfalso.
  assert (Hb0 : nbusy (p_workers p) = 0) by (unfold nbusy; rewrite Hb; reflexivity).
  destruct (idle_ex (p_workers p) Hb0 ltac:(lia)) as (w & Ew).
  assert (Hjobs : p_jobs p <> []) by (intros Hn; rewrite Hn in HW; simpl in HW; lia).
  assert (Hen : worker_enabled p w = true).
  { unfold Parallel.worker_enabled. rewrite Ew. destruct (p_jobs p); [congruence|reflexivity]. }
  apply enabled_in in Hen. rewrite He in Hen. destruct Hen.
Qed.

Lemma join_all_NH fuel p : NH p -> NH (join_all fuel p).
Proof.
  apply (join_all_inv NH); auto. intros q w H He. apply worker_step_NH; auto.
Qed.

Lemma main_loop_count0 fuel p e p' : p_count p = 0 -> main_loop fuel p = (e, p') -> p' = p /\ (e = PNormal \/ e = PFuel).
Proof. intros Hc E. destruct fuel; cbn [Parallel.main_loop] in E; [|rewrite Hc in E]; inversion E; auto. Qed.

(* ---------- the whole run ---------- *)
Lemma SPI_init sched sel : SPI (p_init sched sel).
Proof.
  split; [apply PI_init|]. split; [apply NI_init|]. split; [apply DJ_init|reflexivity].
Qed.
Lemma SS_init sched sel : SS (p_init sched sel).
Proof. split; [reflexivity|]. split; [intros w []|]. split; [reflexivity|]. split; [intros l []|reflexivity]. Qed.

(* the state the main loop starts in *)
Lemma loop_entry p1 :
  SPI p1 -> SS p1 ->
  let p1' := with_counts p1 (p_free p1) (length (p_workers p1)) in
  deadlocked p1' = false -> 0 < p_count p1' -> LI p1'.
Proof.
  intros (P1 & N1 & J1 & C1) (R0 & W0 & J0 & T0 & L0). cbv zeta. intros Hd Hc.
  split; [|split; [|exact Hd]].
  - split; [apply with_counts_PI; exact P1|]. split; [eapply NI_same; [| |exact N1]; reflexivity|].
    split; [exact C1|]. split; [apply (proj1 J1)|]. right; right. exact Hc.
  - unfold WI. pcbn. rewrite R0, J0. destruct (alive_all_idle _ W0) as [-> _]. simpl. lia.
Qed.

Lemma run_core_NH fuel nprocs sched sel e2 p2 : run_core fuel nprocs sched sel = (e2, p2) -> NH p2.
Proof.
  unfold ParHoldP.run_core.
  destruct (start_procs fuel nprocs (p_init sched sel)) as [e1 p1] eqn:E1.
  destruct (start_procs_L _ _ _ _ _ (SPI_init sched sel) (SS_init sched sel) ltac:(intros []) E1) as (Hh1 & B1).
  destruct e1; try (intros E; inversion E; subst; exact Hh1).
  destruct (B1 eq_refl) as (S1 & SS1 & _).
  set (p1' := with_counts p1 (p_free p1) (length (p_workers p1))).
  assert (Hh1' : NH p1') by exact Hh1.
  destruct (deadlocked p1') eqn:Edl.
  { intros E. inversion E; subst. apply terminate_NH. exact Hh1'. }
  destruct (main_loop fuel p1') as [em pm] eqn:E2.
  assert (Hhm : NH pm).
  { destruct (p_count p1') eqn:Ec.
    - destruct (main_loop_count0 _ _ _ _ Ec E2) as [-> _]. exact Hh1'.
    - eapply main_loop_L; [|exact Hh1'|exact E2]. apply loop_entry; auto. fold p1'. lia. }
  destruct em; intros E; inversion E; subst; auto.
  unfold NH, drain. pcbn. apply join_all_NH. exact Hhm.
Qed.

(* NO HANG: the main thread is never blocked for ever -- the model never logs PHang *)
Theorem parallel_never_hangs_s fuel nprocs sched sel :
  ~ In PHang (fst (run_parallel fuel nprocs sched sel)).
Proof.
  rewrite (run_parallel_eq tasks wake_rank calc_rank continue_ always proc).
  destruct (run_core fuel nprocs sched sel) as [e2 p2] eqn:Ec. cbn [fst].
  pose proof (run_core_NH _ _ _ _ _ _ Ec) as Hh. intros Hin. apply in_app_iff in Hin. destruct Hin as [Hin|Hin].
  - unfold pfin in Hin. pcbn in Hin. apply in_app_iff in Hin. destruct Hin as [Hin|Hin]; [exact (Hh Hin)|].
    apply in_map_iff in Hin. destruct Hin as (x & Hx & _). discriminate.
  - destruct e2; simpl in Hin; try contradiction; destruct Hin as [Hin|[]]; discriminate.
Qed.

End PL.

Theorem parallel_never_hangs :
  forall tasks wake_rank calc_rank continue_ always proc fuel nprocs sched selection,
  ~ In PHang (fst (run_parallel tasks wake_rank calc_rank continue_ always proc fuel nprocs sched selection)).
Proof. intros. apply parallel_never_hangs_s. Qed.
Print Assumptions parallel_never_hangs.
