(* ItemObjP.v -- lemmas about Model/ItemObj.v: the current config_changed object keeps nothing from one
   call to the next that a later call or saver can see, so items evaluated on instances that outlive a
   run behave as the item VALUES of Status.v / History.v; the variant that keeps a computed digest does not. *)
From DoitV Require Import Base Status ItemObj.
Open Scope Z_scope.

Lemma cc_call_current o now d t :
  cc_call CCcurrent o now (get_values d t) = ({| cc_digest := Some now |}, eval_utd d t (UConfig now)).
Proof. reflexivity. Qed.

Lemma cc_call_current_state o o' now values values' :
  fst (cc_call CCcurrent o now values) = fst (cc_call CCcurrent o' now values').
Proof. reflexivity. Qed.

Lemma cc_call_current_no_memory o o' now values :
  cc_call CCcurrent o now values = cc_call CCcurrent o' now values.
Proof. reflexivity. Qed.

Lemma cc_saver_after_call o now values d :
  cc_saver (fst (cc_call CCcurrent o now values)) = saver d (UConfig now).
Proof. reflexivity. Qed.

Lemma cc_life_current_fresh evs : forall o, cc_life CCcurrent o evs = cc_life_fresh CCcurrent o evs.
Proof.
  induction evs as [|e evs IH]; intro o; [reflexivity|].
  destruct e as [now values|]; simpl.
  - rewrite IH. reflexivity.
  - rewrite IH. reflexivity.
Qed.

(* the object a current call leaves behind, for any item *)
Definition after_item (u : utd) (o : ccobj) : ccobj :=
  match u with UConfig now => {| cc_digest := Some now |} | _ => o end.

Lemma eval_utd_obj_current d t u o :
  eval_utd_obj CCcurrent d t u o = (after_item u o, eval_utd d t u).
Proof. destruct u; reflexivity. Qed.

Lemma saver_obj_after d u o : saver_obj d u (after_item u o) = saver d u.
Proof. destruct u; reflexivity. Qed.

Lemma eval_items_obj_current d t : forall us os, length os = length us ->
  eval_items_obj CCcurrent d t us os = (map (fun uo => after_item (fst uo) (snd uo)) (combine us os), map (eval_utd d t) us).
Proof.
  induction us as [|u us IH]; intros [|o os] H; simpl in *; try discriminate; [reflexivity|].
  rewrite eval_utd_obj_current. rewrite IH by congruence. reflexivity.
Qed.

Lemma fold_savers_obj d : forall us os acc, length os = length us ->
  fold_left (fun acc uo => vupdate acc (saver_obj d (fst uo) (snd uo)))
            (combine us (map (fun uo => after_item (fst uo) (snd uo)) (combine us os))) acc
  = fold_left (fun acc u => vupdate acc (saver d u)) us acc.
Proof.
  induction us as [|u us IH]; intros [|o os] acc H; simpl in *; try discriminate; [reflexivity|].
  rewrite saver_obj_after. apply IH. congruence.
Qed.

(* get_status followed by save_extra_values on instances in ANY state: verdicts and saved values of Status.v *)
Lemma items_on_instances d t df os : length os = length (uptodate df) ->
  let '(os', bs) := eval_items_obj CCcurrent d t (uptodate df) os in
  bs = map (eval_utd d t) (uptodate df) /\ save_extra_values_obj d df os' = save_extra_values d df.
Proof.
  intros H. rewrite eval_items_obj_current by exact H. split; [reflexivity|].
  unfold save_extra_values_obj, save_extra_values. apply fold_savers_obj. exact H.
Qed.

(* the caching variant: first run with configuration 1 (recorded), configuration edited to 2, second run *)
Lemma cc_cached_stale :
  exists (o : ccobj) (now last : N),
    now <> last /\ snd (cc_call CCcached o now [(k_config, Some last)]) = Some true /\
    snd (cc_call CCcurrent o now [(k_config, Some last)]) = Some false /\
    o = fst (cc_call CCcached cc_new last []).
Proof. exists {| cc_digest := Some 1%N |}, 2%N, 1%N. repeat split; try reflexivity. discriminate. Qed.

(* ... and what it saves after an execution caused by something else is the OLD digest *)
Lemma cc_cached_saves_stale :
  exists (now first : N), now <> first /\
    cc_saver (fst (cc_call CCcached (fst (cc_call CCcached cc_new first [])) now [])) = [(k_config, Some first)].
Proof. exists 2%N, 1%N. split; [discriminate | reflexivity]. Qed.
