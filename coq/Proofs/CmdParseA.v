(* CmdParseA.v -- proofs about Model/CmdParse.v, part 4: ABBREVIATED long options.
   getopt.long_has_args (Lib/getopt.py) accepts any prefix of a long option name that is a prefix of
   exactly one entry of the long-option table, an exact match wins over longer names, anything else is
   "not a unique prefix".  Here: the resolution of a prefix against the table built by get_long, units
   of a command line written with an abbreviation (aitem / arender), "parsing does not see the
   abbreviation" (getopt_arender, parse_arender_transparent), the round trip, and rejection. *)
From DoitV Require Import Base CmdParse CmdParseP CmdParseR.

(* ================================================================== strings *)
Lemma sprefix_no_eq p : forall s, sprefix p s = true -> no_eq s = true -> no_eq p = true.
Proof.
  induction p as [|c p IH]; intros s Hp Hs; simpl; auto.
  destruct s as [|d s]; simpl in *; [discriminate|].
  apply andb_true_iff in Hp. destruct Hp as [Hc Hp]. apply andb_true_iff in Hs. destruct Hs as [Hd Hs].
  apply aeqb_eq in Hc. subst d. rewrite Hd. simpl. eapply IH; eauto.
Qed.

Lemma sprefix_app_eq p : no_eq p = true -> forall x, sprefix p (sapp x (s1 ch_eq)) = sprefix p x.
Proof.
  induction p as [|c p IH]; intros Hp x; simpl; auto.
  simpl in Hp. apply andb_true_iff in Hp. destruct Hp as [Hc Hp]. apply negb_true_iff in Hc.
  destruct x as [|d x]; unfold sapp in *; simpl.
  - rewrite Hc. reflexivity.
  - rewrite (IH Hp x). reflexivity.
Qed.

Lemma sends_with_split c s : sends_with c s = true -> s = sapp (sdrop_last s) (s1 c).
Proof.
  induction s as [|d s IH]; simpl; [discriminate|].
  destruct s as [|e s'].
  - intros H. apply aeqb_eq in H. subst d. reflexivity.
  - intros H. unfold sapp in *. simpl. simpl in IH. rewrite <- (IH H). reflexivity.
Qed.

Lemma no_eq_not_ends s : no_eq s = true -> sends_with ch_eq s = false.
Proof.
  induction s as [|d s IH]; simpl; auto. intros H. apply andb_true_iff in H. destruct H as [Hd Hs].
  apply negb_true_iff in Hd. destruct s as [|e s']; [exact Hd|]. apply IH. exact Hs.
Qed.

(* an entry of the long-option table without its trailing '=' *)
Definition strip_eq (e : string) : string := if sends_with ch_eq e then sdrop_last e else e.

Lemma strip_eq_noeq s : no_eq s = true -> strip_eq s = s.
Proof. intros H. unfold strip_eq. rewrite (no_eq_not_ends s H). reflexivity. Qed.
Lemma strip_eq_app s : strip_eq (sapp s (s1 ch_eq)) = s.
Proof. unfold strip_eq. rewrite sends_with_app, sdrop_last_app. reflexivity. Qed.

Lemma sprefix_strip p e : no_eq p = true -> sprefix p (strip_eq e) = sprefix p e.
Proof.
  intros Hp. unfold strip_eq. destruct (sends_with ch_eq e) eqn:E; auto.
  rewrite (sends_with_split _ _ E) at 2. rewrite (sprefix_app_eq p Hp). reflexivity.
Qed.

Lemma strip_eq_cases e nm : strip_eq e = nm ->
  (sends_with ch_eq e = true /\ e = sapp nm (s1 ch_eq)) \/ (sends_with ch_eq e = false /\ e = nm).
Proof.
  unfold strip_eq. destruct (sends_with ch_eq e) eqn:E; intros H.
  - left. split; auto. rewrite <- H. apply sends_with_split. exact E.
  - right. auto.
Qed.

(* ================================================================== lists *)
Lemma filter_map_comm {A B} (f : B -> bool) (g : A -> B) (h : A -> bool) l :
  (forall x, In x l -> f (g x) = h x) -> filter f (map g l) = map g (filter h l).
Proof.
  induction l as [|x r IH]; simpl; auto. intros H.
  rewrite (H x (or_introl eq_refl)). rewrite IH by (intros; apply H; auto).
  destruct (h x); reflexivity.
Qed.

Lemma nodup_s_map_inj {A} (f : A -> string) l : nodup_s (map f l) = true ->
  forall a b, In a l -> In b l -> f a = f b -> a = b.
Proof.
  induction l as [|x r IH]; simpl; [tauto|]. intros H a b Ha Hb E.
  apply andb_true_iff in H. destruct H as [H1 H2]. apply negb_true_iff, smem_false in H1.
  destruct Ha as [->|Ha]; destruct Hb as [->|Hb]; auto.
  - exfalso. apply H1. rewrite E. apply in_map. exact Hb.
  - exfalso. apply H1. rewrite <- E. apply in_map. exact Ha.
Qed.

Lemma length1_In {A} (l : list A) x : List.length l = 1%nat -> In x l -> l = [x].
Proof. destruct l as [|y [|z r]]; simpl; try discriminate; try tauto. intros _ [->|[]]. reflexivity. Qed.

(* ================================================================== long_has_args on a prefix
   general table [lo]: entries "name" (no argument) or "name=" (argument), names pairwise distinct *)
Section Table.
Variable lo : list string.
Hypothesis ND : nodup_s (map strip_eq lo) = true.

Lemma filter_strip p : no_eq p = true ->
  filter (sprefix p) (map strip_eq lo) = map strip_eq (filter (sprefix p) lo).
Proof. intros Hp. apply filter_map_comm. intros x _. apply sprefix_strip. exact Hp. Qed.

(* the prefix p of the name nm of entry e: p is nm itself, or no other name starts with p *)
Lemma long_has_args_prefix p e nm :
  In e lo -> strip_eq e = nm -> no_eq nm = true -> sprefix p nm = true ->
  (p = nm \/ List.length (filter (sprefix p) (map strip_eq lo)) = 1%nat) ->
  long_has_args p lo = Some (sends_with ch_eq e, nm).
Proof.
  intros He Hs Hnm Hp Hu. pose proof (sprefix_no_eq p nm Hp Hnm) as Hpe.
  destruct Hu as [->|Hu].
  - destruct (strip_eq_cases e nm Hs) as [[E1 E2]|[E1 E2]]; rewrite E1.
    + apply long_has_args_exact_value; [|rewrite <- E2; exact He].
      intros Hin. assert (X : nm = e).
      { apply (nodup_s_map_inj strip_eq lo ND); auto. rewrite Hs. apply strip_eq_noeq. exact Hnm. }
      rewrite <- X in E1. rewrite (no_eq_not_ends nm Hnm) in E1. discriminate.
    + apply long_has_args_exact_flag. rewrite <- E2. exact He.
  - rewrite (filter_strip p Hpe), map_length in Hu.
    assert (Hin : In e (filter (sprefix p) lo)).
    { apply filter_In. split; auto. rewrite <- (sprefix_strip p e Hpe), Hs. exact Hp. }
    pose proof (length1_In _ _ Hu Hin) as F.
    unfold long_has_args. rewrite F. unfold smem, existsb. rewrite !orb_false_r.
    destruct (seqb p e) eqn:E1.
    + apply seqb_eq in E1. subst e. rewrite (no_eq_not_ends p Hpe). rewrite (strip_eq_noeq p Hpe) in Hs. subst nm. reflexivity.
    + destruct (seqb (sapp p (s1 ch_eq)) e) eqn:E2.
      * apply seqb_eq in E2. subst e. rewrite sends_with_app. rewrite strip_eq_app in Hs. subst nm. reflexivity.
      * destruct (strip_eq_cases e nm Hs) as [[E3 E4]|[E3 E4]]; rewrite E3.
        -- rewrite E4, sdrop_last_app. reflexivity.
        -- rewrite E4. reflexivity.
Qed.

(* two names or more start with p and none is p: not a unique prefix *)
Lemma long_has_args_not_unique p : no_eq p = true ->
  (2 <= List.length (filter (sprefix p) (map strip_eq lo)))%nat -> ~ In p (map strip_eq lo) ->
  long_has_args p lo = None.
Proof.
  intros Hpe Hl Hn. rewrite (filter_strip p Hpe), map_length in Hl.
  destruct (filter (sprefix p) lo) as [|e1 [|e2 more]] eqn:F; simpl in Hl; try lia.
  apply (long_has_args_ambiguous p lo e1 e2 more F).
  - intros H. apply Hn. rewrite <- (strip_eq_noeq p Hpe). apply in_map. exact H.
  - intros H. apply Hn. rewrite <- (strip_eq_app p). apply in_map. exact H.
Qed.

End Table.

(* ================================================================== the table of a spec *)
Lemma longs_of_cons o r : longs_of (o :: r) = long_names o ++ longs_of r.
Proof. reflexivity. Qed.

Lemma get_long_strip st : forallb opt_ok st = true -> map strip_eq (get_long st) = longs_of st.
Proof.
  induction st as [|o r IH]; [reflexivity|]. intros H. cbn [forallb] in H.
  apply andb_true_iff in H. destruct H as [Ho Hr]. specialize (IH Hr).
  rewrite longs_of_cons. cbn [get_long]. unfold long_names.
  destruct (opt_ok_parts o Ho) as (_ & Hl & Hi & Hinv).
  destruct (sempty (o_long o)) eqn:El.
  - destruct (sempty (o_inverse o)) eqn:Ei; [simpl; auto|].
    apply sempty_false in Ei. destruct (Hinv Ei) as [_ X]. apply sempty_true in El. contradiction.
  - assert (X : strip_eq (if is_bool (o_ty o) then o_long o else sapp (o_long o) (s1 ch_eq)) = o_long o).
    { destruct (is_bool (o_ty o)); [apply strip_eq_noeq; auto|apply strip_eq_app]. }
    destruct (sempty (o_inverse o)) eqn:Ei; simpl; rewrite X, ?IH; auto.
    rewrite (strip_eq_noeq _ Hi). reflexivity.
Qed.

Lemma longs_of_no_eq st : forallb opt_ok st = true -> forall nm, In nm (longs_of st) -> no_eq nm = true.
Proof.
  intros Hall nm Hin. unfold longs_of in Hin. apply in_flat_map in Hin. destruct Hin as [o [Ho Hn]].
  rewrite forallb_forall in Hall. destruct (opt_ok_parts o (Hall o Ho)) as (_ & Hl & Hi & _).
  unfold long_names in Hn. apply in_app_or in Hn.
  destruct Hn as [Hn|Hn]; [destruct (sempty (o_long o))|destruct (sempty (o_inverse o))]; simpl in Hn;
    try tauto; destruct Hn as [<-|[]]; auto.
Qed.

(* ---- the side conditions, boolean, over the spec *)
(* how many long / inverse names of the spec start with p *)
Definition count_prefix (st : pstate) (p : string) : nat := List.length (filter (sprefix p) (longs_of st)).
(* p may be written for the long / inverse name nm: p is a prefix of nm, and p is nm itself or nm is
   the only long / inverse name of the spec that starts with p *)
Definition abbrev_ok (st : pstate) (p nm : string) : bool :=
  (sprefix p nm && (seqb p nm || Nat.eqb (count_prefix st p) 1))%bool.
(* p is a prefix of at least two long / inverse names of the spec and is none of them *)
Definition ambiguous (st : pstate) (p : string) : bool :=
  (Nat.leb 2 (count_prefix st p) && negb (smem p (longs_of st)))%bool.

Lemma abbrev_ok_exact st nm : abbrev_ok st nm nm = true.
Proof. unfold abbrev_ok. rewrite sprefix_refl, seqb_refl. reflexivity. Qed.

Lemma abbrev_ok_parts st p nm : abbrev_ok st p nm = true ->
  sprefix p nm = true /\ (p = nm \/ count_prefix st p = 1%nat).
Proof.
  unfold abbrev_ok. rewrite andb_true_iff, orb_true_iff. intros [H1 [H2|H2]]; split; auto.
  - left. apply seqb_eq. exact H2.
  - right. apply Nat.eqb_eq. exact H2.
Qed.

Section Spec.
Variable st : pstate.
Hypothesis WF : wf_spec st = true.

Lemma table_nodup : nodup_s (map strip_eq (get_long st)) = true.
Proof. destruct (wf_spec_parts st WF) as (H1 & _ & H3 & _). rewrite (get_long_strip st H1). exact H3. Qed.

Lemma resolve_entry p e nm : In e (get_long st) -> strip_eq e = nm -> no_eq nm = true ->
  abbrev_ok st p nm = true -> long_has_args p (get_long st) = Some (sends_with ch_eq e, nm).
Proof.
  intros He Hs Hnm Hab. destruct (abbrev_ok_parts st p nm Hab) as [Hp Hu].
  apply (long_has_args_prefix (get_long st) table_nodup p e nm He Hs Hnm Hp).
  destruct (wf_spec_parts st WF) as (H1 & _). rewrite (get_long_strip st H1). exact Hu.
Qed.

(* --p resolves to the option with the long name it abbreviates (with argument) ... *)
Lemma long_has_args_value_abbrev o p : In o st -> is_bool (o_ty o) = false -> o_long o <> EmptyString ->
  abbrev_ok st p (o_long o) = true -> long_has_args p (get_long st) = Some (true, o_long o).
Proof.
  intros Hin Hb Hl Hab. destruct (opt_ok_parts o (wf_opt_ok st WF o Hin)) as (_ & Hne & _).
  pose proof (get_long_has_long st o Hin Hl) as He. rewrite Hb in He.
  rewrite (resolve_entry p _ (o_long o) He (strip_eq_app _) Hne Hab), sends_with_app. reflexivity.
Qed.
(* ... the flag ... *)
Lemma long_has_args_flag_abbrev o p : In o st -> is_bool (o_ty o) = true -> o_long o <> EmptyString ->
  abbrev_ok st p (o_long o) = true -> long_has_args p (get_long st) = Some (false, o_long o).
Proof.
  intros Hin Hb Hl Hab. destruct (opt_ok_parts o (wf_opt_ok st WF o Hin)) as (_ & Hne & _).
  pose proof (get_long_has_long st o Hin Hl) as He. rewrite Hb in He.
  rewrite (resolve_entry p _ (o_long o) He (strip_eq_noeq _ Hne) Hne Hab), (no_eq_not_ends _ Hne). reflexivity.
Qed.
(* ... the inverse flag *)
Lemma long_has_args_inverse_abbrev o p : In o st -> o_inverse o <> EmptyString ->
  abbrev_ok st p (o_inverse o) = true -> long_has_args p (get_long st) = Some (false, o_inverse o).
Proof.
  intros Hin Hi Hab. destruct (opt_ok_parts o (wf_opt_ok st WF o Hin)) as (_ & _ & Hne & Hinv).
  destruct (Hinv Hi) as [_ Hl].
  pose proof (get_long_has_inverse st o Hin Hl Hi) as He.
  rewrite (resolve_entry p _ (o_inverse o) He (strip_eq_noeq _ Hne) Hne Hab), (no_eq_not_ends _ Hne). reflexivity.
Qed.

Lemma ambiguous_no_eq p : ambiguous st p = true -> no_eq p = true.
Proof.
  unfold ambiguous, count_prefix. rewrite andb_true_iff. intros [H _]. apply Nat.leb_le in H.
  destruct (filter (sprefix p) (longs_of st)) as [|nm r] eqn:F; simpl in H; [lia|].
  assert (Hin : In nm (filter (sprefix p) (longs_of st))) by (rewrite F; simpl; auto).
  apply filter_In in Hin. destruct Hin as [Hin Hp].
  destruct (wf_spec_parts st WF) as (H1 & _).
  exact (sprefix_no_eq p nm Hp (longs_of_no_eq st H1 nm Hin)).
Qed.

Lemma long_has_args_ambiguous_spec p : ambiguous st p = true -> long_has_args p (get_long st) = None.
Proof.
  intros Ha. pose proof (ambiguous_no_eq p Ha) as Hpe.
  unfold ambiguous, count_prefix in Ha. apply andb_true_iff in Ha. destruct Ha as [H2 Hn].
  apply Nat.leb_le in H2. apply negb_true_iff, smem_false in Hn.
  destruct (wf_spec_parts st WF) as (H1 & _).
  apply (long_has_args_not_unique (get_long st) p Hpe); rewrite (get_long_strip st H1); auto.
Qed.

End Spec.

(* ================================================================== units written with an abbreviation *)
(* APlain it           any unit of CmdParseP.item, names in full
   ALongVal o p true v    --p=VALUE     p abbreviates the long name of o
   ALongVal o p false v   --p VALUE
   ALongFlag o p          --p           p abbreviates the long name of the flag o
   AInv o p               --p           p abbreviates the inverse name of o *)
Inductive aitem :=
| APlain (it : item)
| ALongVal (o : cmd_option) (p : string) (eq : bool) (v : string)
| ALongFlag (o : cmd_option) (p : string)
| AInv (o : cmd_option) (p : string).

(* the unit it stands for *)
Definition full (a : aitem) : item :=
  match a with
  | APlain it => it
  | ALongVal o _ e v => ILongVal o e v
  | ALongFlag o _ => ILongFlag o
  | AInv o _ => IInv o
  end.

Definition arender_item (a : aitem) : list string :=
  match a with
  | APlain it => render_item it
  | ALongVal _ p true v => [dash2 (sapp p (String ch_eq v))]
  | ALongVal _ p false v => [dash2 p; v]
  | ALongFlag _ p => [dash2 p]
  | AInv _ p => [dash2 p]
  end.
Definition arender (l : list aitem) : list string := flat_map arender_item l.

(* the unit it stands for is a unit of the spec, and the abbreviation is allowed (abbrev_ok); "--"
   alone is not an option: only --=VALUE can be written with the empty prefix *)
Definition aitem_ok (st : pstate) (a : aitem) : Prop :=
  item_ok st (full a) /\
  match a with
  | APlain _ => True
  | ALongVal o p e _ => abbrev_ok st p (o_long o) = true /\ (e = false -> p <> EmptyString)
  | ALongFlag o p => abbrev_ok st p (o_long o) = true /\ p <> EmptyString
  | AInv o p => abbrev_ok st p (o_inverse o) = true /\ p <> EmptyString
  end.

(* full names are a special case, without any condition on the other names of the spec *)
Definition exact (it : item) : aitem :=
  match it with
  | IShorts _ _ => APlain it
  | ILongVal o e v => ALongVal o (o_long o) e v
  | ILongFlag o => ALongFlag o (o_long o)
  | IInv o => AInv o (o_inverse o)
  end.
Lemma full_exact it : full (exact it) = it.
Proof. destruct it; reflexivity. Qed.
Lemma arender_exact items : arender (map exact items) = render items.
Proof.
  unfold arender, render. induction items as [|it r IH]; simpl; auto. rewrite IH. f_equal.
  destruct it as [fl t|o [|] v|o|o]; reflexivity.
Qed.
Lemma exact_ok st it : item_ok st it -> aitem_ok st (exact it).
Proof.
  intros H. split; [rewrite full_exact; exact H|].
  destruct it as [fl t|o e v|o|o]; simpl in *; auto.
  - split; [apply abbrev_ok_exact|]. intros _. tauto.
  - split; [apply abbrev_ok_exact|tauto].
  - split; [apply abbrev_ok_exact|tauto].
Qed.

Lemma getopt_tok_congr so lo a a' rest :
  classify a <> TPos -> classify a <> TEnd -> classify a' <> TPos -> classify a' <> TEnd ->
  (forall next, gstep so lo (classify a) next = gstep so lo (classify a') next) ->
  getopt so lo (a :: rest) = getopt so lo (a' :: rest).
Proof.
  intros H1 H2 H3 H4 G.
  rewrite (getopt_opt_tok so lo a rest _ eq_refl H1 H2), (getopt_opt_tok so lo a' rest _ eq_refl H3 H4).
  destruct rest; rewrite G; reflexivity.
Qed.

Section Spec.
Variable st : pstate.
Hypothesis WF : wf_spec st = true.

Lemma long_tok_congr b b' rest : b <> EmptyString -> b' <> EmptyString ->
  (forall next, do_longs b (get_long st) next = do_longs b' (get_long st) next) ->
  getopt (get_short st) (get_long st) (dash2 b :: rest) = getopt (get_short st) (get_long st) (dash2 b' :: rest).
Proof.
  intros Hb Hb' G. apply getopt_tok_congr; rewrite ?(classify_long b Hb), ?(classify_long b' Hb'); try discriminate.
  intros next. simpl. apply G.
Qed.

(* getopt does not see the abbreviation *)
Lemma getopt_aitem a tail : aitem_ok st a ->
  getopt (get_short st) (get_long st) (arender_item a ++ tail) =
  getopt (get_short st) (get_long st) (render_item (full a) ++ tail).
Proof.
  destruct a as [it|o p e v|o p|o p]; intros [Hok Hab]; cbn [aitem_ok full item_ok] in Hok, Hab;
    cbn [arender_item render_item full app]; auto.
  - destruct Hok as (Hin & Hb & Hl). destruct Hab as [Hab Hne].
    destruct (opt_ok_parts o (wf_opt_ok st WF o Hin)) as (_ & Hno & _).
    destruct (abbrev_ok_parts st p _ Hab) as [Hp _]. pose proof (sprefix_no_eq p _ Hp Hno) as Hpe.
    destruct e; cbn [app].
    + apply long_tok_congr; try apply sapp_nonempty. intros next. unfold do_longs.
      rewrite (split_eq_app p v Hpe), (split_eq_app _ v Hno).
      rewrite (long_has_args_value_abbrev st WF o p Hin Hb Hl Hab), (long_has_args_value st WF o Hin Hb Hl). reflexivity.
    + apply long_tok_congr; auto. intros next. unfold do_longs.
      rewrite (split_eq_noeq p Hpe), (split_eq_noeq _ Hno).
      rewrite (long_has_args_value_abbrev st WF o p Hin Hb Hl Hab), (long_has_args_value st WF o Hin Hb Hl). reflexivity.
  - destruct Hok as (Hin & Hb & Hl). destruct Hab as [Hab Hne].
    destruct (opt_ok_parts o (wf_opt_ok st WF o Hin)) as (_ & Hno & _).
    destruct (abbrev_ok_parts st p _ Hab) as [Hp _]. pose proof (sprefix_no_eq p _ Hp Hno) as Hpe.
    apply long_tok_congr; auto. intros next. unfold do_longs.
    rewrite (split_eq_noeq p Hpe), (split_eq_noeq _ Hno).
    rewrite (long_has_args_flag_abbrev st WF o p Hin Hb Hl Hab), (long_has_args_flag st o Hin Hb Hl). reflexivity.
  - destruct Hok as (Hin & Hi). destruct Hab as [Hab Hne].
    destruct (opt_ok_parts o (wf_opt_ok st WF o Hin)) as (_ & _ & Hno & _).
    destruct (abbrev_ok_parts st p _ Hab) as [Hp _]. pose proof (sprefix_no_eq p _ Hp Hno) as Hpe.
    apply long_tok_congr; auto. intros next. unfold do_longs.
    rewrite (split_eq_noeq p Hpe), (split_eq_noeq _ Hno).
    rewrite (long_has_args_inverse_abbrev st WF o p Hin Hi Hab), (long_has_args_inverse st WF o Hin Hi). reflexivity.
Qed.

Lemma aitems_full_ok l : Forall (aitem_ok st) l -> Forall (item_ok st) (map full l).
Proof. induction 1 as [|a r [H _] _ IH]; simpl; constructor; auto. Qed.

Lemma getopt_arender l : Forall (aitem_ok st) l -> forall tail,
  getopt (get_short st) (get_long st) (arender l ++ tail) =
  getopt (get_short st) (get_long st) (render (map full l) ++ tail).
Proof.
  induction 1 as [|a r Ha Hr IH]; intros tail; simpl; auto.
  rewrite <- !app_assoc. rewrite (getopt_aitem a _ Ha).
  pose proof Ha as [Hf _].
  rewrite !(getopt_item st WF (full a) _ Hf). rewrite IH. reflexivity.
Qed.

(* the abbreviated forms getopt rejects; [rest] = the arguments after the token *)
Inductive abad_token : string -> list string -> Prop :=
| abad_ambiguous p rest :                      (* --p      p starts two names or more and is none of them *)
    p <> EmptyString -> ambiguous st p = true -> abad_token (dash2 p) rest
| abad_ambiguous_val p v rest :                (* --p=VALUE  the same *)
    ambiguous st p = true -> abad_token (dash2 (sapp p (String ch_eq v))) rest
| abad_missing o p :                           (* --p  as the last argument, p abbreviates an option that needs a value *)
    In o st -> is_bool (o_ty o) = false -> o_long o <> EmptyString -> p <> EmptyString ->
    abbrev_ok st p (o_long o) = true -> abad_token (dash2 p) []
| abad_flag_arg o p v rest :                   (* --p=VALUE  p abbreviates a flag *)
    In o st -> is_bool (o_ty o) = true -> o_long o <> EmptyString ->
    abbrev_ok st p (o_long o) = true -> abad_token (dash2 (sapp p (String ch_eq v))) rest
| abad_inverse_arg o p v rest :                (* --p=VALUE  p abbreviates an inverse flag *)
    In o st -> o_inverse o <> EmptyString ->
    abbrev_ok st p (o_inverse o) = true -> abad_token (dash2 (sapp p (String ch_eq v))) rest.

Lemma abad_token_getopt b rest : abad_token b rest ->
  getopt (get_short st) (get_long st) (b :: rest) = None.
Proof.
  intros Hb.
  assert (G : forall body, b = dash2 body -> body <> EmptyString ->
              (forall next, do_longs body (get_long st) next = None) \/
              (rest = [] /\ do_longs body (get_long st) None = None) ->
              getopt (get_short st) (get_long st) (b :: rest) = None).
  { intros body -> Hne Hg.
    rewrite (getopt_opt_tok _ _ (dash2 body) rest _ (classify_long body Hne)) by discriminate. simpl.
    destruct Hg as [Hg|[-> Hg]]; [destruct rest; rewrite Hg; reflexivity|rewrite Hg; reflexivity]. }
  destruct Hb as [p rest Hne Ha|p v rest Ha|o p Hin Hbo Hl Hne Hab|o p v rest Hin Hbo Hl Hab|o p v rest Hin Hi Hab].
  - apply (G p eq_refl Hne). left. intros next. unfold do_longs.
    rewrite (split_eq_noeq p (ambiguous_no_eq st WF p Ha)), (long_has_args_ambiguous_spec st WF p Ha). reflexivity.
  - apply (G _ eq_refl (sapp_nonempty _ _ _)). left. intros next. unfold do_longs.
    rewrite (split_eq_app p v (ambiguous_no_eq st WF p Ha)), (long_has_args_ambiguous_spec st WF p Ha). reflexivity.
  - destruct (opt_ok_parts o (wf_opt_ok st WF o Hin)) as (_ & Hno & _).
    destruct (abbrev_ok_parts st p _ Hab) as [Hp _]. pose proof (sprefix_no_eq p _ Hp Hno) as Hpe.
    apply (G p eq_refl Hne). right. split; auto. unfold do_longs.
    rewrite (split_eq_noeq p Hpe), (long_has_args_value_abbrev st WF o p Hin Hbo Hl Hab). reflexivity.
  - destruct (opt_ok_parts o (wf_opt_ok st WF o Hin)) as (_ & Hno & _).
    destruct (abbrev_ok_parts st p _ Hab) as [Hp _]. pose proof (sprefix_no_eq p _ Hp Hno) as Hpe.
    apply (G _ eq_refl (sapp_nonempty _ _ _)). left. intros next. unfold do_longs.
    rewrite (split_eq_app p v Hpe), (long_has_args_flag_abbrev st WF o p Hin Hbo Hl Hab). reflexivity.
  - destruct (opt_ok_parts o (wf_opt_ok st WF o Hin)) as (_ & _ & Hno & _).
    destruct (abbrev_ok_parts st p _ Hab) as [Hp _]. pose proof (sprefix_no_eq p _ Hp Hno) as Hpe.
    apply (G _ eq_refl (sapp_nonempty _ _ _)). left. intros next. unfold do_longs.
    rewrite (split_eq_app p v Hpe), (long_has_args_inverse_abbrev st WF o p Hin Hi Hab). reflexivity.
Qed.

End Spec.

(* ================================================================== the whole parse *)
Section Main.
Variable conv : N -> string -> option value.

(* parsing does not see the abbreviations: whatever follows the abbreviated units, the result is the
   result for the same units written with the full names *)
Lemma parse_only_arender_transparent st d l tail : wf_spec st = true -> Forall (aitem_ok st) l ->
  parse_only conv st d (arender l ++ tail) = parse_only conv st d (render (map full l) ++ tail).
Proof. intros WF Hok. unfold parse_only, parse_only_gen. rewrite (getopt_arender st WF l Hok tail). reflexivity. Qed.

Lemma parse_arender_transparent st env l tail : wf_spec st = true -> Forall (aitem_ok st) l ->
  parse conv st env (arender l ++ tail) = parse conv st env (render (map full l) ++ tail).
Proof.
  intros WF Hok. unfold parse, parse_gen.
  destruct (env_phase conv env st (defaults_phase st)); auto.
  exact (parse_only_arender_transparent st _ l tail WF Hok).
Qed.

Lemma parse_execute_arender_transparent st ov env l tail : wf_spec st = true -> Forall (aitem_ok st) l ->
  parse_execute conv st ov env (arender l ++ tail) = parse_execute conv st ov env (render (map full l) ++ tail).
Proof. intros WF Hok. unfold parse_execute. rewrite (parse_arender_transparent st env l tail WF Hok). reflexivity. Qed.

(* round trip *)
Lemma parse_arender st env l t pos : wf_spec st = true -> Forall (aitem_ok st) l -> tail_of t pos ->
  parse conv st env (arender l ++ t) =
  (match env_phase conv env st (defaults_phase st) with
   | Ok d0 => lift_result (apply_asgs conv d0 (asgs_of (map full l))) pos
   | ParseError => ParseError
   | Crash => Crash
   end, st).
Proof.
  intros WF Hok Ht. rewrite (parse_arender_transparent st env l t WF Hok).
  apply parse_render; auto. apply aitems_full_ok. exact Hok.
Qed.

(* pass 1 of DoitMain.run; when a value is rejected the command line is left as it was written *)
Lemma pre_parse_arender lst l t pos : wf_spec lst = true -> Forall (aitem_ok lst) l -> tail_of t pos ->
  pre_parse conv lst (arender l ++ t) =
  match apply_asgs conv d_empty (asgs_of (map full l)) with
  | Ok d => Ok (d_items d, pos)
  | ParseError => Ok ([], arender l ++ t)
  | Crash => Crash
  end.
Proof.
  intros WF Hok Ht. unfold pre_parse. rewrite (parse_only_arender_transparent lst d_empty l t WF Hok).
  rewrite (parse_only_render lst WF conv (map full l) t d_empty [] pos (aitems_full_ok lst l Hok) (getopt_tail _ _ t pos Ht) eq_refl).
  simpl. destruct (apply_asgs conv d_empty (asgs_of (map full l))); reflexivity.
Qed.

(* rejection: after any abbreviated units, a token getopt rejects -- one of bad_token (CmdParseR.v) or an
   abbreviated one (abad_token) -- makes the whole parse a parse error, whatever follows *)
Lemma parse_abad_token st env l b rest : wf_spec st = true -> Forall (aitem_ok st) l ->
  (abad_token st b rest \/ bad_token st b rest) ->
  parse conv st env (arender l ++ b :: rest) =
  (match env_phase conv env st (defaults_phase st) with Crash => Crash | _ => ParseError end, st).
Proof.
  intros WF Hok Hb. rewrite (parse_arender_transparent st env l _ WF Hok).
  destruct Hb as [Hb|Hb]; [|apply parse_bad_token; auto; apply aitems_full_ok; exact Hok].
  unfold parse, parse_gen.
  destruct (env_phase conv env st (defaults_phase st)) as [d0| |]; auto.
  unfold parse_only_gen.
  rewrite (getopt_render st WF _ _ (aitems_full_ok st l Hok)), (abad_token_getopt st WF b rest Hb). reflexivity.
Qed.

End Main.
