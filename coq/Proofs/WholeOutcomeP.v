(* WholeOutcomeP.v -- C08, the WHOLE outcome of a parallel run equals that of the serial run.

   WHAT IS ADDED to OutcomeSerialP / OutcomeParP (every final report is the report of the specified
   outcome [fin]) and ParOutcomeLiveP (the final reports of the SELECTED tasks agree):

   (A) WHICH tasks are reported is specified by the task table alone.  [active tasks always sel x]:
         x is selected, or
         x is an effective task_dep / calc_dep (OutcomeSpec.vdep: what a calc_dep task returns counts
           only if, per [fin], its values are visible) of an active task, or
         x is a setup-task of an active task whose first-selection verdict (OutcomeSpec.first) is `run`.
       No dispatcher, runner, schedule, oracle or fuel occurs in it.
       serial_reported_iff_active / parallel_reported_iff_active: in ANY run -- any table (cyclic or
       not), any fuel, --continue or not, threads or processes, any worker count and schedule -- that
       reported every selected task, a task has a final report IFF it is active.
   (B) parallel_serial_whole_outcome_gen: a parallel and a serial run that both reported every selected
       task made the same final reports about EVERY task (selected or not), and -- if both ended
       normally -- have the same exit code.
   (C) parallel_serial_same_whole_outcome: over a finite acyclic table, --continue, enough fuel, >= 1
       worker: unless an action interrupts one of the runs (exit code 4) (B) applies.

   METHOD.  Two invariants of the dispatcher state are threaded through the serial loop and the
   parallel runner next to RI / OInv / SI (OutcomeSerialP):
     LW tasks sel Rn (LazyP.v, instantiated with the STATIC relation Rn r x := "the specification gives r
        the first verdict run"): every node is justified by a chain from the selection along the node
        lists (which OInv bounds by vdep) and setup edges leaving tasks whose verdict was `run`;
     U: a finished task either was skipped at its first selection with a verdict the specification
        derives, or all its setup-tasks are finished.
   At a state where all selected tasks are finished:  finished -> has a node -> W-justified -> active
   (soundness), and active -> finished by induction on [active] (completeness: the lists of a finished
   node contain all its effective dependencies -- DispatchInv.mrgd -- and are finished -- recd). *)
From DoitV Require Import Base Dispatch Runner Parallel DispatchP DispatchInv RunnerTr RunnerP AncP ParallelP
  TermP LiveP ParTermP OutcomeSpec OutcomeInvP OutcomeSerialP OutcomeParP OutcomeP LazyP.
Open Scope N_scope.

(* ================================================================== the specification *)
Section Spec.
Variable tasks : name -> option task.
Variable always : bool.
Variable sel : list name.

Notation get_task := (get_task tasks).
Notation vcalc := (vcalc tasks).
Notation vdep := (vdep tasks).
Notation fin := (fin tasks always).
Notation first := (first tasks always).

(* [a] assigns every effective dependency of t (under a itself) its specified outcome *)
Definition depsfin (a : name -> fres) (t : name) : Prop := forall y, vdep (sta a) t y -> fin y (a y).
(* the verdict of the first selection of t, per specification *)
Definition runs (t : name) : Prop := exists a, depsfin a t /\ first (sta a) t PRun.
Definition skips (t : name) : Prop := exists a p, depsfin a t /\ first (sta a) t p /\ p <> PRun.

Inductive active : name -> Prop :=
| act_sel x : In x sel -> active x
| act_dep t x a : active t -> depsfin a t -> vdep (sta a) t x -> active x
| act_setup t x : active t -> runs t -> In x (t_setup (get_task t)) -> active x.

Lemma depsfin_unique a t : depsfin a t -> forall x, vdep (sta a) t x -> forall r, fin x r -> a x = r.
Proof. intros D x Hx r Hr. exact (fin_functional tasks always x (a x) (D x Hx) r Hr). Qed.

Lemma runs_skips t : runs t -> skips t -> False.
Proof.
  intros (a1 & D1 & F1) (a2 & p & D2 & F2 & Hp).
  destruct (deps_agree tasks always t a1 a2 D1 D2 (depsfin_unique a1 t D1)) as (F12 & F21 & Eq).
  apply Hp. symmetry. eapply first_det; [|exact F2].
  eapply first_ext; [exact F12|exact F21| |exact F1].
  intros x Hx. unfold sta. rewrite (Eq x Hx). reflexivity.
Qed.

Lemma fin_depsfin t r : fin t r -> exists a, depsfin a t.
Proof. intros H. inversion H; subst; eexists; eassumption. Qed.

(* ================================================================== at a state of a run *)
Definition Rn (r x : name) : Prop := runs r.

(* a finished task was skipped at its first selection, or its setup-tasks are finished *)
Definition U (d : dstate) : Prop :=
  forall t, final tasks d t -> skips t \/ forall x, In x (t_setup (get_task t)) -> final tasks d x.

Definition J (d : dstate) : Prop := LW tasks sel Rn d /\ U d.

Section State.
Variable d : dstate.
Variable tr : list event.
Variable a : name -> fres.
Hypothesis HR : RI tasks d tr.
Hypothesis HO : OInv tasks d.
Hypothesis HS : SIa tasks always a d tr.
Hypothesis HJ : J d.
Hypothesis Hsel : forall x, In x sel -> final tasks d x.

Notation node_of := (node_of tasks).
Notation st_of := (st_of tasks).

Lemma final_spec x : final tasks d x -> fin x (a x) /\ st_of d x = sta a x.
Proof. destruct HS as (S1 & _). intros H. destruct (S1 x H) as [A B]. split; auto. Qed.

(* the node of a finished task: its lists are finished, the results of its calc_deps merged *)
Lemma final_node t : final tasks d t ->
  (forall x, In x (lists (node_of d t)) -> final tasks d x) /\
  (forall c, In c (n_all_calc (node_of d t)) -> mrgd tasks d (node_of d t) c).
Proof.
  intros Hf. pose proof (node_of_ok tasks d t (ri_inv _ _ _ HR)) as [Hacc Hlate _ _ Hearly Hsst Hmrg].
  unfold DispatchInv.final, Dispatch.st_of in Hf.
  assert (He : early (n_pc (node_of d t)) = false).
  { destruct (early (n_pc (node_of d t))) eqn:E; auto. rewrite (Hearly eq_refl) in Hf. discriminate. }
  assert (Hs : in_setup (n_pc (node_of d t)) = false).
  { destruct (in_setup (n_pc (node_of d t))) eqn:E; auto. rewrite (Hsst eq_refl) in Hf. discriminate. }
  assert (Hl : late (n_pc (node_of d t)) = true /\ n_pc (node_of d t) <> PSetupWaited /\
               inflight (n_pc (node_of d t)) = [] /\ inflight_calc (n_pc (node_of d t)) = []).
  { destruct (n_pc (node_of d t)); simpl in *; try discriminate; repeat split; auto; discriminate. }
  destruct Hl as (L1 & L2 & L3 & L4). destruct (Hlate L1) as (P1 & P2 & P3 & P4). specialize (P4 L2).
  split.
  - intros x Hx. unfold lists in Hx. destruct (Hacc x Hx) as [H|[H|[H|H]]].
    + rewrite P1, P2 in H. destruct H.
    + rewrite L3 in H. destruct H.
    + rewrite P4, P3 in H. destruct H.
    + eapply recd_final; eauto.
  - intros c Hc. destruct (Hmrg c Hc) as [H|[H|[H|H]]]; auto.
    + rewrite P2 in H. destruct H.
    + rewrite L4 in H. destruct H.
    + rewrite P3 in H. destruct H.
Qed.

(* completeness, dependencies: what the specification says t depends on is in the lists of t's node *)
Lemma spec_calc_in t a' c : final tasks d t -> depsfin a' t -> vcalc (sta a') t c -> In c (n_all_calc (node_of d t)).
Proof.
  intros Hf D Hc. destruct (final_node t Hf) as [_ Hm].
  induction Hc as [c Hc|c c' Hc IH V Hc'].
  - destruct (ri_static _ _ _ HR t) as [_ B]. apply B. exact Hc.
  - destruct (Hm c IH) as [Fc M].
    destruct (final_spec c Fc) as [A E].
    assert (Ea : a c = a' c) by (apply (fin_functional tasks always c (a c) A); apply D; apply vd_calc; exact Hc).
    assert (V' : calc_values_visible (st_of d c) = true) by (rewrite E; unfold sta; rewrite Ea; exact V).
    destruct (M V') as (_ & _ & M3). apply M3. exact Hc'.
Qed.

Lemma spec_dep_in t a' x : final tasks d t -> depsfin a' t -> vdep (sta a') t x -> In x (lists (node_of d t)).
Proof.
  intros Hf D [H|H|c H V Hin]; unfold lists; apply in_app_iff.
  - left. destruct (ri_static _ _ _ HR t) as [A _]. apply A. exact H.
  - right. eapply spec_calc_in; eauto.
  - left. pose proof (spec_calc_in t a' c Hf D H) as Hc.
    destruct (final_node t Hf) as [_ Hm]. destruct (Hm c Hc) as [Fc M].
    destruct (final_spec c Fc) as [A E].
    assert (Ea : a c = a' c) by (apply (fin_functional tasks always c (a c) A); apply D; apply vd_calc; exact H).
    assert (V' : calc_values_visible (st_of d c) = true) by (rewrite E; unfold sta; rewrite Ea; exact V).
    destruct (M V') as (M1 & M2 & _).
    unfold OutcomeSpec.new_tasks in Hin. apply in_app_iff in Hin. destruct Hin as [Hin|Hin]; [apply M1|apply M2]; exact Hin.
Qed.

Theorem active_final x : active x -> final tasks d x.
Proof.
  induction 1 as [x Hx|t x a' _ IH D Hx|t x _ IH Hr Hx].
  - apply Hsel. exact Hx.
  - destruct (final_node t IH) as [Hl _]. apply Hl. eapply spec_dep_in; eauto.
  - destruct HJ as [_ HU]. destruct (HU t IH) as [Hs|Hs]; [|apply Hs; exact Hx].
    exfalso. exact (runs_skips t Hr Hs).
Qed.

(* soundness: the lists of a node only contain effective dependencies *)
Lemma node_calc_spec p a' c : depsfin a' p -> vcalc (st_of d) p c -> vcalc (sta a') p c.
Proof.
  intros D Hc. induction Hc as [c Hc|c c' Hc IH V Hc'].
  - apply vc_static. exact Hc.
  - eapply vc_more; [exact IH| |exact Hc'].
    destruct (final_spec c (visible_final _ V)) as [A E]. unfold sta in *.
    rewrite <- (fin_functional tasks always c (a c) A (a' c) (D c (vd_calc _ _ _ _ IH))).
    rewrite <- E. exact V.
Qed.

Lemma node_dep_spec p a' x : depsfin a' p -> vdep (st_of d) p x -> vdep (sta a') p x.
Proof.
  intros D [H|H|c H V Hin].
  - apply vd_task. exact H.
  - apply vd_calc. apply node_calc_spec; auto.
  - pose proof (node_calc_spec p a' c D H) as Hc.
    eapply vd_dyn; [exact Hc| |exact Hin].
    destruct (final_spec c (visible_final _ V)) as [A E]. unfold sta in *.
    rewrite <- (fin_functional tasks always c (a c) A (a' c) (D c (vd_calc _ _ _ _ Hc))).
    rewrite <- E. exact V.
Qed.

Lemma W_active x : W tasks sel Rn d x -> active x.
Proof.
  induction 1 as [x Hx|p x _ IH Hx|r x _ IH Hx Hr].
  - apply act_sel. exact Hx.
  - pose proof (active_final p IH) as Fp. destruct (final_spec p Fp) as [A _].
    destruct (fin_depsfin p _ A) as [a' D].
    apply (act_dep p x a' IH D). apply node_dep_spec; auto.
    apply (h_in_vdep tasks d p HO). exact Hx.
  - apply (act_setup r x IH Hr Hx).
Qed.

Lemma final_exn x : final tasks d x -> exn d x.
Proof.
  unfold DispatchInv.final, exn, Dispatch.st_of, Dispatch.node_of. intros H E. rewrite E in H. discriminate.
Qed.

(* at a state where every selected task is finished: finished <-> active *)
Theorem final_iff_active x : final tasks d x <-> active x.
Proof.
  split; [|apply active_final].
  intros H. apply W_active. destruct HJ as [HW _]. apply (lw_j _ _ _ _ HW). apply final_exn. exact H.
Qed.

End State.
End Spec.

(* ================================================================== the invariant J is kept *)
Section Keep.
Variable tasks : name -> option task.
Variable wake_rank : name -> name -> N.
Variable calc_rank : name -> N.
Variable continue_ always : bool.
Variable sel : list name.

Notation node_of := (node_of tasks).
Notation st_of := (st_of tasks).
Notation get_task := (get_task tasks).
Notation final := (final tasks).
Notation RI := (RI tasks).
Notation Pre := (Pre tasks).
Notation AInv := (AInv tasks).
Notation OInv := (OInv tasks).
Notation handed := (handed tasks).
Notation SIa := (SIa tasks always).
Notation SI := (SI tasks always).
Notation fin := (fin tasks always).
Notation first := (first tasks always).
Notation vdep := (vdep tasks).
Notation select_task := (select_task tasks continue_ always).
Notation process_result := (process_result tasks continue_).
Notation start_task := (start_task tasks).
Notation set_status := (set_status tasks).
Notation serial := (serial tasks wake_rank calc_rank continue_ always).
Notation J := (J tasks always sel).
Notation U := (U tasks always).
Notation Rn := (Rn tasks always).
Notation skips := (skips tasks always).
Notation runs := (runs tasks always).

Lemma st_exn d k : st_of d k <> SNone -> exn d k.
Proof. unfold exn, Dispatch.st_of, Dispatch.node_of. intros H E. rewrite E in H. apply H. reflexivity. Qed.

(* a task in status `run` has the verdict `run` in the specification *)
Lemma SI_HRn d tr : SI d tr -> HRn tasks Rn d.
Proof.
  intros (a & S1 & _ & S3) r x Hr. destruct (S3 r Hr) as [A B]. exists a. split; auto.
  intros y Hy. apply S1. apply A. exact Hy.
Qed.

(* U only looks at the statuses; one status changes *)
Lemma U_upd d d1 k :
  U d -> (forall z, z <> k -> st_of d1 z = st_of d z) -> (final d k -> final d1 k) ->
  (final d1 k -> skips k \/ forall x, In x (t_setup (get_task k)) -> final d x) -> U d1.
Proof.
  intros HU Ho Hk Hnew.
  assert (Hm : forall x, final d x -> final d1 x).
  { intros x Hx. destruct (N.eqb_spec x k) as [->|Hne]; auto. unfold DispatchInv.final in *. rewrite Ho; auto. }
  intros t Ht. destruct (N.eqb_spec t k) as [->|Hne].
  - destruct (Hnew Ht) as [H|H]; auto.
  - assert (Ht0 : final d t) by (unfold DispatchInv.final in *; rewrite Ho in Ht; auto).
    destruct (HU t Ht0) as [H|H]; auto.
Qed.

Lemma U_same d d' : (forall x, st_of d' x = st_of d x) -> U d -> U d'.
Proof.
  intros E HU t Ht. unfold DispatchInv.final in *. rewrite E in Ht. destruct (HU t Ht) as [H|H]; [left; exact H|].
  right. intros x Hx. rewrite E. apply H. exact Hx.
Qed.

(* ---------- the dispatcher ---------- *)
Lemma disp_J fuel d last y d' tr :
  AInv d -> SI d tr -> J d -> (forall k, last = Some k -> st_of d k <> SNone) ->
  (forall x, st_of d' x = st_of d x) ->
  disp_send tasks wake_rank calc_rank fuel d last = (y, d') -> J d'.
Proof.
  intros HA HS [HW HU] Hl Hst E. split.
  - eapply disp_send_LW; [exact HA|exact HW|eapply SI_HRn; exact HS| |exact E].
    intros k Ek. apply st_exn. auto.
  - eapply U_same; eauto.
Qed.

(* ---------- Runner.select_task ---------- *)
Lemma handed_exn d k : handed d k -> exn d k.
Proof.
  intros HK. apply (exists_of_pc tasks). destruct (h_pc _ _ _ HK) as [E|E]; rewrite E; discriminate.
Qed.

Lemma select_task_LW r k b r1 :
  LW tasks sel Rn (r_d r) -> handed (r_d r) k -> select_task r k = (b, r1) -> LW tasks sel Rn (r_d r1).
Proof.
  intros HW HK E.
  assert (H1 : LW tasks sel Rn (r_d r1) /\ exn (r_d r1) k /\ in_setup (n_pc (node_of (r_d r1) k)) = false).
  { apply (select_task_pres tasks continue_ always
       (fun r0 => LW tasks sel Rn (r_d r0) /\ exn (r_d r0) k /\ in_setup (n_pc (node_of (r_d r0) k)) = false) k)
       with (r := r) (b := b); auto.
    - intros r0 s (A & B & C). simpl. split; [apply set_status_LW; auto|].
      split; [apply set_status_exn; auto|rewrite set_status_pc; exact C].
    - intros r0 kd (A & B & C). unfold handle_error, handle_error_gen. simpl. split; [apply set_status_LW; auto|].
      split; [apply set_status_exn; auto|rewrite set_status_pc; exact C].
    - split; [exact HW|]. split; [apply handed_exn; exact HK|apply (handed_in_setup tasks _ _ HK)]. }
  apply H1.
Qed.

(* the first selection of a task with setup-tasks: status `run`, or a skip verdict of the specification *)
Lemma first_selection r k b r1 :
  RI (r_d r) (r_tr r) -> handed (r_d r) k -> OInv (r_d r) ->
  n_st (node_of (r_d r) k) = SNone -> is_nil (t_setup (get_task k)) = false ->
  select_task r k = (b, r1) ->
  st_of (r_d r1) k = SRun \/ exists p, first (st_of (r_d r)) k p /\ p <> PRun.
Proof.
  intros HR HK HO Est Esu Hs. unfold Runner.select_task in Hs. rewrite Est, Esu in Hs.
  set (d := r_d r) in *. set (nd := node_of d k) in *. set (S := st_of d).
  assert (Hpc : n_pc nd = PAfterSelf).
  { destruct (h_pc _ _ _ HK) as [E|E]; auto. pose proof (h_srun _ _ _ HK E) as E'. unfold Dispatch.st_of in E'.
    fold d nd in E'. congruence. }
  destruct (is_nil (n_ign nd)) eqn:Ei; cbn [negb orb] in Hs.
  2:{ right. exists PIgnore. split; [|discriminate]. apply f_ignore. left.
      apply (proj1 (h_ign_iff tasks d (r_tr r) k HR HK HO Hpc)). apply is_nil_false'. exact Ei. }
  apply is_nil_true in Ei.
  assert (Hnoign : forall x, vdep S k x -> S x <> SIgnore).
  { intros x Hx Hsx. apply (proj2 (h_ign_iff tasks d (r_tr r) k HR HK HO Hpc)); [exists x; auto|exact Ei]. }
  destruct (t_dbignore (get_task k)) eqn:Edb.
  { right. exists PIgnore. split; [|discriminate]. apply f_ignore. right. exact Edb. }
  destruct (is_nil (n_bad nd)) eqn:Eb; cbn [negb] in Hs.
  2:{ right. exists PUnmet. split; [|discriminate]. apply f_unmet; auto.
      apply (proj1 (h_bad_iff tasks d (r_tr r) k HR HK HO Hpc)). apply is_nil_false'. exact Eb. }
  apply is_nil_true in Eb.
  assert (Hgood : forall x, vdep S k x -> is_goodst (S x) = true) by (eapply h_all_good; eauto).
  assert (Hrun : forall r0, (false, with_d r0 (set_status (r_d r0) k SRun)) = (b, r1) -> st_of (r_d r1) k = SRun).
  { intros r0 Hq. inversion Hq; subst. simpl. rewrite set_status_st, N.eqb_refl. reflexivity. }
  destruct (t_check (get_task k)) eqn:Eck.
  - left. destruct always; eapply Hrun; exact Hs.
  - destruct always eqn:Eal; [left; eapply Hrun; exact Hs|].
    right. exists PUpToDate. split; [|discriminate]. apply f_uptodate; auto.
  - right. exists PCkErr. split; [|discriminate]. apply f_ckerr; auto.
Qed.

Lemma select_task_U r k b r1 a :
  RI (r_d r) (r_tr r) -> handed (r_d r) k -> OInv (r_d r) -> SIa a (r_d r) (r_tr r) -> U (r_d r) ->
  select_task r k = (b, r1) -> U (r_d r1).
Proof.
  intros HR HK HO HS HU E.
  destruct (select_task_ext tasks continue_ always _ _ _ _ E) as [_ Ho].
  pose proof (handed_unfinished tasks _ _ HK) as Hun.
  apply (U_upd (r_d r) (r_d r1) k HU Ho).
  - intros Hf. unfold DispatchInv.final in Hf. congruence.
  - intros Hf1.
    destruct (n_st (node_of (r_d r) k)) eqn:Est.
    + (* first selection *)
      destruct (is_nil (t_setup (get_task k))) eqn:Esu.
      { right. apply is_nil_true in Esu. rewrite Esu. intros x []. }
      destruct (first_selection r k b r1 HR HK HO Est Esu E) as [Hrun|(p & Hp & Hne)].
      * unfold DispatchInv.final in Hf1. rewrite Hrun in Hf1. discriminate.
      * left. exists a, p. split; [|split; [|exact Hne]].
        -- intros y Hy. eapply h_deps_fin; eauto.
        -- eapply hh_first; eauto.
    + right. apply (h_setup _ _ _ HK). destruct (h_pc _ _ _ HK) as [Ep|Ep]; auto.
      pose proof (h_first _ _ _ HK Ep) as X. unfold Dispatch.st_of in X. congruence.
    + right. apply (h_setup _ _ _ HK). destruct (h_pc _ _ _ HK) as [Ep|Ep]; auto.
      pose proof (h_first _ _ _ HK Ep) as X. unfold Dispatch.st_of in X. congruence.
    + right. apply (h_setup _ _ _ HK). destruct (h_pc _ _ _ HK) as [Ep|Ep]; auto.
      pose proof (h_first _ _ _ HK Ep) as X. unfold Dispatch.st_of in X. congruence.
    + right. apply (h_setup _ _ _ HK). destruct (h_pc _ _ _ HK) as [Ep|Ep]; auto.
      pose proof (h_first _ _ _ HK Ep) as X. unfold Dispatch.st_of in X. congruence.
    + right. apply (h_setup _ _ _ HK). destruct (h_pc _ _ _ HK) as [Ep|Ep]; auto.
      pose proof (h_first _ _ _ HK Ep) as X. unfold Dispatch.st_of in X. congruence.
    + right. apply (h_setup _ _ _ HK). destruct (h_pc _ _ _ HK) as [Ep|Ep]; auto.
      pose proof (h_first _ _ _ HK Ep) as X. unfold Dispatch.st_of in X. congruence.
Qed.

Lemma select_task_J r k b r1 :
  RI (r_d r) (r_tr r) -> handed (r_d r) k -> OInv (r_d r) -> SI (r_d r) (r_tr r) -> J (r_d r) ->
  select_task r k = (b, r1) -> J (r_d r1).
Proof.
  intros HR HK HO [a HS] [HW HU] E. split.
  - eapply select_task_LW; eauto.
  - eapply select_task_U; eauto.
Qed.

(* ---------- Runner.process_task_result ---------- *)
Lemma process_result_J r k :
  J (r_d r) -> exn (r_d r) k -> in_setup (n_pc (node_of (r_d r) k)) = false ->
  (forall x, In x (t_setup (get_task k)) -> final (r_d r) x) ->
  J (r_d (process_result r k)).
Proof.
  intros [HW HU] Hk Hns Hsu.
  assert (Hst : forall s, unfinished s = false -> J (set_status (r_d r) k s)).
  { intros s Hs. split; [apply set_status_LW; auto|].
    apply (U_upd (r_d r) _ k HU).
    - intros z Hz. rewrite set_status_st. apply N.eqb_neq in Hz. rewrite Hz. reflexivity.
    - intros _. unfold DispatchInv.final. rewrite set_status_st, N.eqb_refl. exact Hs.
    - intros _. right. exact Hsu. }
  unfold Runner.process_result, Runner.handle_error, Runner.handle_error_gen.
  destruct (t_outcome (get_task k)); simpl; try (apply Hst; reflexivity). split; auto.
Qed.

Lemma J_init : J (disp_init sel).
Proof.
  split; [apply LW_init|]. intros t Ht. unfold DispatchInv.final in Ht. simpl in Ht. discriminate.
Qed.

(* ---------- the serial loop ---------- *)
Lemma serial_J fuel : forall r last r' s,
  RI (r_d r) (r_tr r) -> Pre (r_d r) -> (forall k, last = Some k -> st_of (r_d r) k <> SNone) ->
  AInv (r_d r) -> OInv (r_d r) -> SI (r_d r) (r_tr r) -> J (r_d r) ->
  serial fuel r last = (r', s) ->
  RI (r_d r') (r_tr r') /\ OInv (r_d r') /\ SI (r_d r') (r_tr r') /\ J (r_d r').
Proof.
  induction fuel as [|fuel IH]; intros r last r' s HR HP Hl HA HO HS HJ E; cbn [Runner.serial] in E.
  { inversion E; subst. auto. }
  destruct (r_stop r).
  { inversion E; subst. split; [apply finish_RI; exact HR|]. split; [exact HO|]. split; [apply SI_finish; exact HS|exact HJ]. }
  destruct (disp_send tasks wake_rank calc_rank (S fuel) (r_d r) last) as [y d] eqn:Ed.
  pose proof (disp_send_spec tasks wake_rank calc_rank _ _ _ _ _ (ri_inv _ _ _ HR) HP (ri_res _ _ _ HR) (ri_q _ _ _ HR) Hl Ed) as Hpost.
  pose proof (RI_disp _ _ _ _ _ HR Hpost) as HR'.
  destruct (disp_send_A tasks wake_rank calc_rank _ _ _ _ _ HA Ed) as [HA' _].
  pose proof (disp_send_O tasks wake_rank calc_rank _ _ _ _ _ HA HO Ed) as HO'.
  assert (Hst : forall x, st_of d x = st_of (r_d r) x) by (destruct Hpost as (_ & _ & _ & St & _); exact St).
  assert (HS' : SI d (r_tr r)) by (eapply SI_same; eauto).
  pose proof (disp_J _ _ _ _ _ _ HA HS HJ Hl Hst Ed) as HJ'.
  assert (Hend : forall s0, (finish (with_d r d), s0) = (r', s) ->
     RI (r_d r') (r_tr r') /\ OInv (r_d r') /\ SI (r_d r') (r_tr r') /\ J (r_d r')).
  { intros s0 E0. inversion E0; subst. split; [apply (finish_RI tasks (with_d r d)); exact HR'|].
    split; [exact HO'|]. split; [apply (SI_finish tasks always (with_d r d)); exact HS'|exact HJ']. }
  destruct y as [k| | |path|]; try (eapply Hend; exact E).
  2:{ inversion E; subst. auto. }
  destruct (handed_of_post _ _ _ _ Hpost) as (HK & Hcur & Hns).
  destruct (select_task (with_d r d) k) as [b r1] eqn:Es.
  pose proof (select_task_post tasks continue_ always (with_d r d) k b r1 HR' HK Es) as (R1 & P1 & S1 & Pc1 & C1 & D1 & T1 & O1).
  destruct (select_task_SI tasks continue_ always (with_d r d) k b r1 HR' HK HO' HS' Es) as [SI1 Harg].
  assert (A1 : AInv (r_d r1)) by (eapply select_task_A; [|exact Es]; exact HA').
  assert (Oi1 : OInv (r_d r1)).
  { eapply select_task_O; [| |exact Es]; [exact HO'|]. apply (handed_unfinished _ _ _ HK). }
  pose proof (select_task_J (with_d r d) k b r1 HR' HK HO' HS' HJ' Es) as J1.
  destruct b.
  - assert (R2 : RI (r_d (start_task r1 k)) (r_tr (start_task r1 k))) by (apply start_task_RI; auto).
    assert (SI2 : SI (r_d (start_task r1 k)) (r_tr (start_task r1 k))).
    { unfold Runner.start_task. simpl. apply SI_emit; auto. intros e x [<-|[]]. reflexivity. }
    destruct (is_interrupt tasks k) eqn:Ei.
    + inversion E; subst. split; [apply finish_RI; exact R2|]. split; [exact Oi1|]. split; [apply SI_finish; exact SI2|exact J1].
    + assert (He2 : early (n_pc (node_of (r_d (start_task r1 k)) k)) = false).
      { unfold Runner.start_task. simpl. rewrite Pc1. apply (handed_early _ _ _ HK). }
      assert (HPx2 : PreX tasks (r_d (start_task r1 k)) k).
      { unfold Runner.start_task. simpl. intros z Hz Hpc. apply P1. exact Hpc. }
      assert (Hns2 : in_setup (n_pc (node_of (r_d (start_task r1 k)) k)) = false).
      { unfold Runner.start_task. simpl. rewrite Pc1. apply (handed_in_setup _ _ _ HK). }
      assert (Hst2 : st_of (r_d (start_task r1 k)) k = SRun) by (unfold Runner.start_task; simpl; apply (T1 eq_refl)).
      assert (Hsetup : forall x, In x (t_setup (get_task k)) ->
                final (r_d (start_task r1 k)) x /\ is_goodst (st_of (r_d (start_task r1 k)) x) = true).
      { intros x Hx. unfold Runner.start_task. simpl. apply (good_in_status _ _ (r_tr r1)); auto.
        apply (select_true_good tasks continue_ always (with_d r d) k r1 HR' HK Es).
        apply ed_static. unfold static_deps. rewrite !in_app_iff. auto. }
      destruct (process_result_post tasks continue_ (start_task r1 k) k R2 He2 HPx2 Hns2 Hst2) as [(R3 & P3 & S3)|Hint].
      * eapply IH; [exact R3|exact P3| | | | | |exact E].
        -- intros k' Ek. inversion Ek; subst. exact S3.
        -- apply process_result_A. exact A1.
        -- apply process_result_O; [exact Oi1|]. rewrite Hst2. reflexivity.
        -- apply process_result_SI; auto.
        -- apply process_result_J; auto.
           ++ apply st_exn. unfold Runner.start_task. simpl. exact S1.
           ++ intros x Hx. apply (Hsetup x Hx).
      * unfold Runner.is_interrupt in Ei. rewrite Hint in Ei. discriminate.
  - eapply IH; [exact R1|exact P1| |exact A1|exact Oi1|exact SI1|exact J1|exact E].
    intros k' Ek. inversion Ek; subst. exact S1.
Qed.

End Keep.

(* ================================================================== the parallel runner *)
Section ParKeep.
Variable tasks : name -> option task.
Variable wake_rank : name -> name -> N.
Variable calc_rank : name -> N.
Variable continue_ always proc : bool.
Variable sel : list name.

Notation node_of := (node_of tasks).
Notation st_of := (st_of tasks).
Notation get_task := (get_task tasks).
Notation RI := (RI tasks).
Notation Pre := (Pre tasks).
Notation PI := (PI tasks).
Notation PO := (PO tasks always).
Notation AInv := (AInv tasks).
Notation OInv := (OInv tasks).
Notation SI := (SI tasks always).
Notation J := (J tasks always sel).
Notation worker_step := (worker_step tasks proc).
Notation main_get := (main_get tasks proc).
Notation join_all := (join_all tasks proc).
Notation next_job_loop := (next_job_loop tasks wake_rank calc_rank continue_ always).
Notation get_next_job := (get_next_job tasks wake_rank calc_rank continue_ always).
Notation start_procs := (start_procs tasks wake_rank calc_rank continue_ always proc).
Notation hand_out := (hand_out tasks wake_rank calc_rank continue_ always).
Notation main_loop := (main_loop tasks wake_rank calc_rank continue_ always proc).
Notation terminate := (terminate proc).
Notation process_result := (process_result tasks continue_).
Notation select_task := (select_task tasks continue_ always).

Definition PJ (p : pstate) : Prop := J (r_d (p_r p)).

Lemma PJ_rd p p' : r_d (p_r p') = r_d (p_r p) -> PJ p -> PJ p'.
Proof. unfold PJ. intros ->. auto. Qed.

Lemma PJ_frame p p' : frame p p' -> PJ p -> PJ p'.
Proof. intros (A & _). apply PJ_rd. exact A. Qed.

Lemma main_get_J fuel : forall p m p', PJ p -> main_get fuel p = (m, p') -> PJ p'.
Proof.
  induction fuel as [|fuel IH]; intros p m p' HP E; cbn [Parallel.main_get] in E.
  { inversion E; subst. exact HP. }
  set (ws := enabled_workers p (length (p_workers p)) 0) in *.
  destruct ((if negb (is_nil (p_results p)) then 1 else 0) + length ws)%nat eqn:En.
  { inversion E; subst. exact HP. }
  destruct (choose (S n) (p_sched p)) as [c s].
  destruct (negb (is_nil (p_results p)) && Nat.eqb c 0).
  - simpl in E. destruct (p_results p) as [|m0 rs] eqn:Er; inversion E; subst; exact HP.
  - eapply IH; [|exact E]. eapply PJ_frame; [apply worker_step_frame|]. exact HP.
Qed.

Lemma join_all_J fuel : forall p, PJ p -> PJ (join_all fuel p).
Proof.
  induction fuel as [|fuel IH]; intros p HP; cbn [Parallel.join_all]; auto.
  destruct (enabled_workers p (length (p_workers p)) 0) as [|w ws] eqn:Ew; auto.
  destruct (choose (length (w :: ws)) (p_sched p)) as [c s].
  apply IH. eapply PJ_frame; [apply worker_step_frame|]. exact HP.
Qed.

Lemma next_job_loop_J fuel : forall p completed g p',
  RI (r_d (p_r p)) (r_tr (p_r p)) -> Pre (r_d (p_r p)) ->
  (forall k, completed = Some k -> st_of (r_d (p_r p)) k <> SNone) -> PO p -> PJ p ->
  next_job_loop fuel p completed = (g, p') -> PJ p'.
Proof.
  induction fuel as [|fuel IH]; intros p completed g p' HR HPre Hc HP HJ E; cbn [Parallel.next_job_loop] in E.
  { inversion E; subst. exact HJ. }
  destruct (disp_send tasks wake_rank calc_rank (S fuel) (r_d (p_r p)) completed) as [y d] eqn:Ed.
  pose proof (disp_send_spec tasks wake_rank calc_rank _ _ _ _ _ (ri_inv _ _ _ HR) HPre (ri_res _ _ _ HR) (ri_q _ _ _ HR) Hc Ed) as Hpost.
  pose proof (RI_disp tasks _ _ _ _ HR Hpost) as HR'.
  destruct (disp_send_A tasks wake_rank calc_rank _ _ _ _ _ (po_a _ _ _ HP) Ed) as [HA' _].
  pose proof (disp_send_O tasks wake_rank calc_rank _ _ _ _ _ (po_a _ _ _ HP) (po_o _ _ _ HP) Ed) as HO'.
  assert (Hst : forall x, st_of d x = st_of (r_d (p_r p)) x) by (destruct Hpost as (_ & _ & _ & S & _); exact S).
  assert (HS' : SI d (r_tr (p_r p))) by (eapply SI_same; [exact Hst|apply (po_s _ _ _ HP)]).
  pose proof (disp_J tasks wake_rank calc_rank always sel _ _ _ _ _ _ (po_a _ _ _ HP) (po_s _ _ _ HP) HJ Hc Hst Ed) as HJ'.
  destruct y as [k| | |path|]; try (inversion E; subst; exact HJ'); [|inversion E; subst; exact HJ].
  destruct (handed_of_post tasks _ _ _ Hpost) as (HK & Hcur & Hns).
  destruct (select_task (with_d (p_r p) d) k) as [b r1] eqn:Es.
  pose proof (select_task_post tasks continue_ always (with_d (p_r p) d) k b r1 HR' HK Es) as (R1 & P1 & S1 & Pc1 & C1 & D1 & T1 & O1).
  destruct (select_task_SI tasks continue_ always (with_d (p_r p) d) k b r1 HR' HK HO' HS' Es) as [SI1 Harg].
  assert (A1 : AInv (r_d r1)) by (eapply select_task_A; [|exact Es]; exact HA').
  assert (Oi1 : OInv (r_d r1)).
  { eapply select_task_O; [| |exact Es]; [exact HO'|]. apply (handed_unfinished _ _ _ HK). }
  pose proof (select_task_J tasks continue_ always sel (with_d (p_r p) d) k b r1 HR' HK HO' HS' HJ' Es) as J1.
  destruct b.
  - inversion E; subst. exact J1.
  - apply (IH (with_r p r1) (Some k) g p'); [exact R1|exact P1| |apply PO_with_r; auto|exact J1|exact E].
    intros k0 Ek. inversion Ek; subst. exact S1.
Qed.

Lemma get_next_job_J fuel p completed g p' :
  PI p -> (forall k, completed = Some k -> st_of (r_d (p_r p)) k <> SNone) -> PO p -> PJ p ->
  get_next_job fuel p completed = (g, p') -> PJ p'.
Proof.
  intros HPI Hc HP HJ E. unfold Parallel.get_next_job in E. destruct (r_stop (p_r p)).
  - inversion E; subst. exact HJ.
  - eapply next_job_loop_J; [apply (pi_ri _ _ HPI)|apply (pi_pre _ _ HPI)|exact Hc|exact HP|exact HJ|exact E].
Qed.

Lemma terminate_J p : PJ p -> PJ (terminate p).
Proof. intros H. unfold Parallel.terminate. destruct (proc && negb (is_nil (p_workers p))); auto. Qed.

(* PI, PO and PJ together *)
Definition PA (p : pstate) : Prop := PI p /\ PO p /\ PJ p.
Lemma PA_intro p : PI p -> PO p -> PJ p -> PA p.
Proof. intros A B C. exact (conj A (conj B C)). Qed.

Lemma start_procs_PA fuel n : forall p e p', PA p -> start_procs fuel n p = (e, p') -> PA p'.
Proof.
  induction n as [|n IH]; intros p e p' (HPI & HP & HJ) E; cbn [Parallel.start_procs] in E.
  { inversion E; subst. apply PA_intro; assumption. }
  destruct (get_next_job fuel p None) as [g p1] eqn:Eg.
  destruct (get_next_job_PI tasks wake_rank calc_rank continue_ always fuel p None g p1 HPI ltac:(intros k H; discriminate) Eg) as [H1 Hr].
  destruct (get_next_job_PO tasks wake_rank calc_rank continue_ always fuel p None g p1 HPI ltac:(intros k H; discriminate) HP Eg) as [O1 Ha].
  pose proof (get_next_job_J fuel p None g p1 HPI ltac:(intros k H; discriminate) HP HJ Eg) as J1.
  destruct g as [j| |path|].
  - eapply IH; [|exact E]. split; [|split].
    + apply start_worker_PI. apply put_job_PI; auto. intros k ->. apply Hr. reflexivity.
    + apply start_worker_PO. apply put_job_PO; auto. intros k ->. apply Ha. reflexivity.
    + exact J1.
  - inversion E; subst. apply PA_intro; assumption.
  - inversion E; subst. split; [apply terminate_PI; exact H1|]. split; [apply terminate_PO; exact O1|apply terminate_J; exact J1].
  - inversion E; subst. apply PA_intro; assumption.
Qed.

Lemma hand_out_PA fuel n : forall p completed e p',
  PA p -> (forall k, completed = Some k -> st_of (r_d (p_r p)) k <> SNone) ->
  hand_out fuel n p completed = (e, p') -> PA p'.
Proof.
  induction n as [|n IH]; intros p completed e p' (HPI & HP & HJ) Hc E; cbn [Parallel.hand_out] in E.
  { inversion E; subst. apply PA_intro; assumption. }
  destruct (get_next_job fuel p completed) as [g p1] eqn:Eg.
  destruct (get_next_job_PI tasks wake_rank calc_rank continue_ always fuel p completed g p1 HPI Hc Eg) as [H1 Hr].
  destruct (get_next_job_PO tasks wake_rank calc_rank continue_ always fuel p completed g p1 HPI Hc HP Eg) as [O1 Ha].
  pose proof (get_next_job_J fuel p completed g p1 HPI Hc HP HJ Eg) as J1.
  destruct g as [j| |path|].
  - eapply IH; [| |exact E]; [|intros k H; discriminate]. split; [|split].
    + apply put_job_PI; auto. intros k ->. apply Hr. reflexivity.
    + apply put_job_PO; auto. intros k ->. apply Ha. reflexivity.
    + exact J1.
  - eapply IH; [| |exact E]; [|intros k H; discriminate]. split; [|split].
    + apply put_job_PI; [apply with_counts_PI; exact H1|intros k H; discriminate].
    + apply put_job_PO; [apply with_counts_PO; exact O1|intros k H; discriminate].
    + exact J1.
  - inversion E; subst. apply PA_intro; assumption.
  - inversion E; subst. apply PA_intro; assumption.
Qed.

Lemma process_result_PJ p k :
  PI p -> PJ p -> ready tasks p k -> running tasks p k -> PJ (with_r p (process_result (p_r p) k)).
Proof.
  intros HPI HJ [Hst Hdeps] [Hrun Hsp]. unfold PJ. cbn [p_r with_r].
  destruct (spent_flags tasks _ _ Hsp) as [_ Hns].
  apply process_result_J; auto.
  - apply (st_exn tasks). exact Hst.
  - intros x Hx. apply (good_in_status tasks _ (r_tr (p_r p))); [apply (pi_ri _ _ HPI)|].
    apply Hdeps. apply ed_static. unfold static_deps. rewrite !in_app_iff. auto.
Qed.

Lemma main_loop_PA fuel : forall p e p', PA p -> main_loop fuel p = (e, p') -> PA p'.
Proof.
  induction fuel as [|fuel IH]; intros p e p' (HPI & HP & HJ) E; cbn [Parallel.main_loop] in E.
  { inversion E; subst. apply PA_intro; assumption. }
  destruct (p_count p). { inversion E; subst. apply PA_intro; assumption. }
  destruct (main_get (S fuel * 4) p) as [m p1] eqn:Em.
  destruct (main_get_PI tasks proc _ _ _ _ HPI Em) as (H1 & Hr & Hrr).
  destruct (main_get_PO tasks always proc _ _ _ _ HP Em) as (O1 & Ha).
  pose proof (main_get_J _ _ _ _ HJ Em) as J1.
  assert (Hterm : forall q, PA q -> PA (terminate q)).
  { intros q (A & B & C). split; [apply terminate_PI; exact A|]. split; [apply terminate_PO; exact B|apply terminate_J; exact C]. }
  destruct m as [[k|k|k|k]|].
  - (* a result *)
    assert (Hk : ready tasks p1 k) by (apply Hr; left; reflexivity).
    destruct (Hrr k eq_refl) as [Hk2 Hk3].
    destruct (process_result_PI tasks continue_ p1 k H1 Hk Hk2 Hk3) as [H2 S2].
    pose proof (process_result_PO tasks continue_ always p1 k H1 O1 Hk Hk2 (Ha k eq_refl)) as O2.
    pose proof (process_result_PJ p1 k H1 J1 Hk Hk2) as J2.
    set (p2 := with_r p1 (process_result (p_r p1) k)) in *.
    destruct (hand_out (S fuel) (S (p_free p2)) (with_counts p2 0 (p_count p2)) (Some k)) as [e2 p3] eqn:Eh.
    assert (A3 : PA p3).
    { eapply hand_out_PA; [| |exact Eh].
      - split; [apply with_counts_PI; exact H2|]. split; [apply with_counts_PO; exact O2|exact J2].
      - intros k0 Ek. inversion Ek; subst. exact S2. }
    destruct e2; try (inversion E; subst; apply Hterm; exact A3).
    destruct (deadlocked p3).
    + inversion E; subst. apply Hterm. exact A3.
    + eapply IH; eauto.
  - (* execute report forwarded by a worker process *)
    eapply IH; [|exact E]. split; [|split].
    + apply PI_emit_main; auto.
      apply RI_exec; [apply (pi_ri _ _ H1)|]. apply (ready_deps _ _ _ (Hr k (or_intror eq_refl))).
    + apply PO_emit_main; auto. intros e0 x0 [<-|[]]. reflexivity.
    + exact J1.
  - (* teardown report *)
    eapply IH; [|exact E]. split; [|split].
    + apply PI_emit_main; auto. apply RI_emit; [apply (pi_ri _ _ H1)|reflexivity|intros e0 x0 [<-|[]]; reflexivity].
    + apply PO_emit_main; auto. intros e0 x0 [<-|[]]. reflexivity.
    + exact J1.
  - inversion E; subst. apply Hterm. apply PA_intro; assumption.
  - inversion E; subst. apply Hterm. apply PA_intro; assumption.
Qed.

Lemma PA_init sched : PA (p_init sched sel).
Proof. split; [apply PI_init|]. split; [apply PO_init|]. apply J_init. Qed.

(* the state the run ends in *)
Lemma parallel_final_PA fuel nprocs sched :
  exists p3 mk, PA p3 /\ p_seen p3 = length (r_tr (p_r p3)) /\ marker_ok mk /\
    fst (run_parallel tasks wake_rank calc_rank continue_ always proc fuel nprocs sched sel) = p_log p3 ++ mk.
Proof.
  unfold run_parallel.
  destruct (start_procs fuel nprocs (p_init sched sel)) as [e1 p1] eqn:E1.
  pose proof (start_procs_PA fuel nprocs _ _ _ (PA_init sched) E1) as A1.
  assert (Hfin : forall p2 mk, PA p2 -> marker_ok mk ->
     exists p3 mk', PA p3 /\ p_seen p3 = length (r_tr (p_r p3)) /\ marker_ok mk' /\
       p_log (sync (with_r p2 (finish (p_r p2)))) ++ mk = p_log p3 ++ mk').
  { intros p2 mk (H2 & O2 & J2) Hm. exists (sync (with_r p2 (finish (p_r p2)))), mk.
    split; [split; [apply finish_PI; exact H2|split; [apply finish_PO; exact O2|exact J2]]|].
    split; [reflexivity|]. split; [exact Hm|reflexivity]. }
  assert (M0 : marker_ok []) by (left; reflexivity).
  assert (M1 : forall e, is_fin e = false -> is_exec e = false -> is_pair_ev e = false -> marker_ok [PE e]) by (intros e A B C; right; exists e; auto).
  destruct e1; try (cbv beta iota zeta delta [fst snd]; apply Hfin; [exact A1|first [exact M0|apply M1; reflexivity]]).
  set (p1' := with_counts p1 (p_free p1) (length (p_workers p1))).
  assert (A1' : PA p1').
  { destruct A1 as (A & B & C). split; [apply with_counts_PI; exact A|]. split; [apply with_counts_PO; exact B|exact C]. }
  destruct (deadlocked p1').
  { cbv beta iota zeta delta [fst snd]. apply Hfin; [|apply M1; reflexivity].
    destruct A1' as (A & B & C). split; [apply terminate_PI; exact A|]. split; [apply terminate_PO; exact B|apply terminate_J; exact C]. }
  destruct (main_loop fuel p1') as [e2 p2] eqn:E2.
  pose proof (main_loop_PA fuel _ _ _ A1' E2) as A2.
  destruct e2; cbv beta iota zeta delta [fst snd]; apply Hfin; auto; try (apply M1; reflexivity).
  destruct A2 as (A & B & C). split; [apply drain_PI; apply join_all_PI; exact A|].
  split; [apply drain_PO; apply join_all_PO; exact B|]. unfold PJ, drain. cbn [p_r with_results with_r emit r_d].
  apply join_all_J. exact C.
Qed.

End ParKeep.

(* ================================================================== the runs *)
(* the exit code only depends on the SET of failure reports *)
Lemma code_of_kinds_set ks ks' : (forall kd, In kd ks <-> In kd ks') -> code_of_kinds ks = code_of_kinds ks'.
Proof.
  intros H. unfold code_of_kinds.
  assert (E : forallb (N.eqb 0) ks = forallb (N.eqb 0) ks').
  { destruct (forallb (N.eqb 0) ks) eqn:A, (forallb (N.eqb 0) ks') eqn:B; auto.
    - rewrite forallb_forall in A. assert (X : forallb (N.eqb 0) ks' = true) by (apply forallb_forall; intros x Hx; apply A; apply H; exact Hx). congruence.
    - rewrite forallb_forall in B. assert (X : forallb (N.eqb 0) ks = true) by (apply forallb_forall; intros x Hx; apply B; apply H; exact Hx). congruence. }
  rewrite E. destruct ks as [|k ks], ks' as [|k' ks']; auto.
  - exfalso. apply (proj2 (H k')). left. reflexivity.
  - exfalso. apply (proj1 (H k)). left. reflexivity.
Qed.

Lemma fail_kinds_In tr kd : In kd (fail_kinds tr) <-> exists k, In (EFailure k kd) tr.
Proof.
  unfold fail_kinds. rewrite in_flat_map. split.
  - intros (e & Hin & He). destruct e; simpl in He; try contradiction. destruct He as [<-|[]]. eauto.
  - intros (k & Hin). exists (EFailure k kd). split; [exact Hin|left; reflexivity].
Qed.

Lemma code_of_same_failures tr tr' :
  (forall k kd, In (EFailure k kd) tr <-> In (EFailure k kd) tr') -> code_of tr = code_of tr'.
Proof.
  intros H. rewrite !code_of_eq. apply code_of_kinds_set. intros kd. rewrite !fail_kinds_In.
  split; intros (k & Hk); exists k; apply H; exact Hk.
Qed.

Lemma In_proj_iff e log : In e (proj log) <-> In (PE e) log.
Proof.
  split; [apply in_proj|]. intros H. unfold proj. apply in_flat_map. exists (PE e). split; [exact H|left; reflexivity].
Qed.

Lemma finished_in_marker tr s x : finished_in (tr ++ stop_marker s) x <-> finished_in tr x.
Proof.
  unfold finished_in. rewrite existsb_app. destruct s; simpl; rewrite ?orb_false_r; tauto.
Qed.

Section Runs.
Variable tasks : name -> option task.
Variable always : bool.
Variable sel : list name.

Notation active := (active tasks always sel).

(* ---------- the serial run ---------- *)
Theorem serial_reported_iff_active wake_rank calc_rank continue_ fuel :
  let res := run_serial tasks wake_rank calc_rank continue_ always fuel sel in
  (forall x, In x sel -> finished_in (fst res) x) ->
  forall x, finished_in (fst res) x <-> active x.
Proof.
  cbv zeta. unfold run_serial.
  destruct (serial tasks wake_rank calc_rank continue_ always fuel (r_init sel) None) as [r' s] eqn:E. cbn [fst].
  destruct (serial_J tasks wake_rank calc_rank continue_ always sel fuel (r_init sel) None r' s) as (HR & HO & (a & HS) & HJ); auto.
  - apply RI_init.
  - intros z Hz. simpl in Hz. discriminate.
  - intros k Ek. discriminate.
  - apply AInv_init.
  - apply OInv_init.
  - apply SI_init.
  - apply J_init.
  - intros Hsel x. rewrite finished_in_marker.
    assert (Hs : forall y, In y sel -> final tasks (r_d r') y).
    { intros y Hy. apply (ri_link2 _ _ _ HR). apply (finished_in_marker (r_tr r') s y). apply Hsel. exact Hy. }
    rewrite <- (final_iff_active tasks always sel (r_d r') (r_tr r') a HR HO HS HJ Hs x).
    split; [apply (ri_link2 _ _ _ HR)|apply (ri_link _ _ _ HR)].
Qed.

(* ---------- the parallel run ---------- *)
Lemma pfinished_final_state p3 mk x :
  PI tasks p3 -> p_seen p3 = length (r_tr (p_r p3)) -> marker_ok mk ->
  (pfinished (p_log p3 ++ mk) x <-> finished_in (r_tr (p_r p3)) x).
Proof.
  intros HPI Hs Hm.
  assert (Ep : proj (p_log p3) = r_tr (p_r p3)) by (rewrite (pi_proj _ _ HPI), Hs; apply firstn_all).
  split.
  - intros H. unfold pfinished in H. apply existsb_exists in H. destruct H as (pe & Hin & Hf).
    destruct pe as [e| | | | |]; simpl in Hf; try discriminate.
    apply finished_in_In. exists e. split; [|exact Hf].
    apply in_app_iff in Hin. destruct Hin as [Hin|Hin].
    + rewrite <- Ep. apply In_proj_iff. exact Hin.
    + exfalso. destruct Hm as [->|(e0 & -> & Hnf & _)]; simpl in Hin; [contradiction|].
      destruct Hin as [Hin|[]]. inversion Hin; subst. apply is_final_is_fin in Hf. congruence.
  - intros H. apply finished_in_In in H. destruct H as (e & Hin & Hf).
    unfold pfinished. apply existsb_exists. exists (PE e). split; [|exact Hf].
    apply in_app_iff. left. apply In_proj_iff. rewrite Ep. exact Hin.
Qed.

Theorem parallel_reported_iff_active wake_rank calc_rank continue_ proc fuel nprocs sched :
  let res := run_parallel tasks wake_rank calc_rank continue_ always proc fuel nprocs sched sel in
  (forall x, In x sel -> pfinished (fst res) x) ->
  forall x, pfinished (fst res) x <-> active x.
Proof.
  cbv zeta.
  destruct (parallel_final_PA tasks wake_rank calc_rank continue_ always proc sel fuel nprocs sched)
    as (p3 & mk & (HPI & HPO & HJ) & Hs & Hm & ->).
  intros Hsel x. rewrite (pfinished_final_state p3 mk x HPI Hs Hm).
  pose proof (pi_ri _ _ HPI) as HR. destruct (po_s _ _ _ HPO) as (a & HS).
  assert (Hs' : forall y, In y sel -> final tasks (r_d (p_r p3)) y).
  { intros y Hy. apply (ri_link2 _ _ _ HR). apply (pfinished_final_state p3 mk y HPI Hs Hm). apply Hsel. exact Hy. }
  rewrite <- (final_iff_active tasks always sel (r_d (p_r p3)) (r_tr (p_r p3)) a HR (po_o _ _ _ HPO) HS HJ Hs' x).
  split; [apply (ri_link2 _ _ _ HR)|apply (ri_link _ _ _ HR)].
Qed.

Lemma pfinished_iff log x : pfinished log x <-> exists e, In (PE e) log /\ is_final_ev x e = true.
Proof.
  unfold pfinished. rewrite existsb_exists. split.
  - intros (pe & Hin & Hf). destruct pe; simpl in Hf; try discriminate. eauto.
  - intros (e & Hin & Hf). exists (PE e). auto.
Qed.

(* ---------- both ---------- *)
(* (B) a parallel and a serial run over the same table and selection -- any oracles, --continue flags, fuels,
   flavour, worker count, schedule; the table may be cyclic -- that both reported every selected task:
   the final reports are the same events for EVERY task, selected or not, and the tasks reported are
   exactly the active ones; if both ended normally (exit code 0, 1, 2) the exit codes are equal *)
Theorem parallel_serial_whole_outcome_gen wr1 cr1 co1 proc fuel1 nprocs sched wr2 cr2 co2 fuel2 :
  let par := run_parallel tasks wr1 cr1 co1 always proc fuel1 nprocs sched sel in
  let ser := run_serial tasks wr2 cr2 co2 always fuel2 sel in
  (forall x, In x sel -> pfinished (fst par) x) -> (forall x, In x sel -> finished_in (fst ser) x) ->
  (forall x e, is_final_ev x e = true -> (In (PE e) (fst par) <-> In e (fst ser))) /\
  (forall x, active x <-> exists e, is_final_ev x e = true /\ In (PE e) (fst par) /\ In e (fst ser)) /\
  (snd par <= 2 -> snd ser <= 2 -> snd par = snd ser).
Proof.
  intros par ser Hp Hs.
  pose proof (parallel_reported_iff_active wr1 cr1 co1 proc fuel1 nprocs sched Hp) as Ap. fold par in Ap.
  pose proof (serial_reported_iff_active wr2 cr2 co2 fuel2 Hs) as As. fold ser in As.
  assert (Same : forall x e1 e2, In (PE e1) (fst par) -> In e2 (fst ser) ->
            is_final_ev x e1 = true -> is_final_ev x e2 = true -> e1 = e2).
  { intros x e1 e2 H1 H2 F1 F2.
    destruct (parallel_outcome_sound tasks wr1 cr1 co1 always proc fuel1 nprocs sched sel x e1 H1 F1) as (r1 & A1 & ->).
    destruct (serial_outcome_sound tasks wr2 cr2 co2 always fuel2 sel x e2 H2 F2) as (r2 & A2 & ->).
    exact (fin_same_report tasks always x r1 r2 A1 A2). }
  assert (Iff : forall x e, is_final_ev x e = true -> (In (PE e) (fst par) <-> In e (fst ser))).
  { intros x e Hf. split; intros Hin.
    - assert (Hx : finished_in (fst ser) x).
      { apply As. apply Ap. apply pfinished_iff. exists e. auto. }
      apply finished_in_In in Hx. destruct Hx as (e' & Hin' & Hf').
      rewrite (Same x e e' Hin Hin' Hf Hf'). exact Hin'.
    - assert (Hx : pfinished (fst par) x).
      { apply Ap. apply As. apply finished_in_In. exists e. auto. }
      apply pfinished_iff in Hx. destruct Hx as (e' & Hin' & Hf').
      rewrite <- (Same x e' e Hin' Hin Hf' Hf). exact Hin'. }
  split; [exact Iff|]. split.
  - intros x. rewrite <- Ap, pfinished_iff. split.
    + intros (e & Hin & Hf). exists e. split; [exact Hf|]. split; [exact Hin|]. apply (Iff x e Hf). exact Hin.
    + intros (e & Hf & Hin & _). exists e. auto.
  - intros Cp' Cs'. assert (Cp : snd par < 3) by lia. assert (Cs : snd ser < 3) by lia. clear Cp' Cs'.
    assert (Es : snd ser = code_of (fst ser)).
    { destruct (serial_shape tasks wr2 cr2 co2 always fuel2 sel) as (body & s & _ & _ & [(_ & _ & C)|(Hne & E & C)]);
        fold ser in C; try fold ser in E.
      - rewrite C in Cs. discriminate.
      - destruct s; rewrite C in *; try discriminate; try contradiction.
        rewrite E. symmetry. apply code_of_noFail.
        change (EClose :: map ETeardown (rev (filter (has_td tasks) (execs body))) ++ stop_marker StopNormal)
          with ([EClose] ++ map ETeardown (rev (filter (has_td tasks) (execs body))) ++ []).
        rewrite !fail_kinds_app. simpl. rewrite app_nil_r.
        generalize (rev (filter (has_td tasks) (execs body))) as l. induction l as [|a0 l IH]; auto. }
    assert (Ep : snd par = code_of (proj (fst par))).
    { destruct (parallel_exit_code tasks wr1 cr1 co1 always proc fuel1 nprocs sched sel) as [H|H]; [exact H|].
      fold par in H. simpl in H. destruct H as [H|[H|[H|[H|[]]]]]; rewrite <- H in Cp; discriminate. }
    rewrite Es, Ep. apply code_of_same_failures. intros k kd. rewrite In_proj_iff.
    apply (Iff k). simpl. apply N.eqb_refl.
Qed.

End Runs.

(* (C) C08, the whole outcome: a parallel --continue run (threads or processes, any number >= 1 of workers,
   EVERY schedule) and a serial --continue run over the same finite acyclic table and selection, both with
   enough fuel, whatever the set-iteration oracles: unless an action interrupts one of them (exit code 4),
     - the final reports are THE SAME EVENTS for every task, selected or not (same reporter call, same
       failure kind);
     - the tasks that are reported are, in both, exactly the tasks the specification calls active;
     - the exit codes are equal (and are 0, 1 or 2) *)
Theorem parallel_serial_same_whole_outcome tasks univ sel :
  finite_table tasks univ -> (forall k, ~ reach tasks k k) ->
  forall wr1 cr1 wr2 cr2 always proc nprocs sched fuel1 fuel2,
  (0 < nprocs)%nat -> (par_enough_fuel tasks univ sel nprocs <= fuel1)%nat -> (enough_fuel tasks univ sel <= fuel2)%nat ->
  let par := run_parallel tasks wr1 cr1 true always proc fuel1 nprocs sched sel in
  let ser := run_serial tasks wr2 cr2 true always fuel2 sel in
  snd par = 4 \/ snd ser = 4 \/
  ((forall x e, is_final_ev x e = true -> (In (PE e) (fst par) <-> In e (fst ser))) /\
   (forall x, active tasks always sel x <-> exists e, is_final_ev x e = true /\ In (PE e) (fst par) /\ In e (fst ser)) /\
   snd par = snd ser /\ snd ser <= 2).
Proof.
  intros Hf Hac wr1 cr1 wr2 cr2 always proc nprocs sched fuel1 fuel2 Hn F1 F2. cbv zeta.
  destruct (parallel_acyclic_continue_all_reported tasks univ sel Hf Hac wr1 cr1 always proc nprocs sched fuel1 Hn F1) as [H1|[C1 H1]]; auto.
  destruct (serial_acyclic_continue_all_reported tasks univ sel Hf Hac wr2 cr2 always fuel2 F2) as [H2|[C2 H2]]; auto.
  right; right.
  destruct (parallel_serial_whole_outcome_gen tasks always sel wr1 cr1 true proc fuel1 nprocs sched wr2 cr2 true fuel2 H1 H2) as (A & B & C).
  split; [exact A|]. split; [exact B|]. split; [apply C; assumption|exact C2].
Qed.

Print Assumptions serial_reported_iff_active.
Print Assumptions parallel_reported_iff_active.
Print Assumptions parallel_serial_whole_outcome_gen.
Print Assumptions parallel_serial_same_whole_outcome.
