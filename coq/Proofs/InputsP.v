(* InputsP.v -- proofs about Model/Inputs.v: `changed` against the ghost of History.v, getargs
   against the values saved by the most recent successful execution (an invariant over ALL
   histories), the meta-arguments, calc_dep results (Status level and dispatcher level). *)
From Coq Require Import ZifyBool.
From DoitV Require Import Base Dispatch Runner DispatchP DispatchInv RunnerP.
From DoitV Require Import Status History StatusP HistoryP Inputs.
Open Scope Z_scope.

(* ================================================================= A. `changed` *)
Section Changed.
Variable md5 : N -> N.

(* the loop over file_dep without log: it ends normally only if every file exists and no entry has
   the wrong type, and then returns, after the given accumulator, exactly the files whose verdict
   is "no saved state / outside the saved 'deps:' list (fixC) / modified" *)
Lemma check_files_done v c fs r deps : forall ch ms ch' ms',
  check_files md5 v c fs r false deps ch ms = FLDone ch' ms' ->
  (forall f, In f deps -> dep_verdict md5 v c fs r f = FChanged \/ dep_verdict md5 v c fs r f = FSame) /\
  (forall f, In f ch' <-> In f ch \/ (In f deps /\ dep_verdict md5 v c fs r f = FChanged)).
Proof.
  induction deps as [|x deps IH]; intros ch ms ch' ms' H; simpl in H.
  - inversion H; subst. split; [intros f []|]. intros f. rewrite <- in_rev. simpl. tauto.
  - destruct (dep_verdict md5 v c fs r x) eqn:E; try discriminate.
    + apply IH in H. destruct H as [H1 H2]. split.
      * intros f [<-|Hf]; auto.
      * intros f. rewrite H2. simpl. split.
        -- intros [[<-|H]|[H3 H4]]; auto.
        -- intros [H|[[<-|H3] H4]]; auto.
    + apply IH in H. destruct H as [H1 H2]. split.
      * intros f [<-|Hf]; auto.
      * intros f. rewrite H2. simpl. split.
        -- intros [H|[H3 H4]]; auto.
        -- intros [H|[[<-|H3] H4]]; auto. congruence.
Qed.

(* whenever the verdict is `run` and no uptodate item is false, dep_changed holds every file dep
   that the loop would not find unmodified -- on each of the remaining exit paths *)
Lemma get_status_changed v c fs d t df :
  g_status (get_status md5 v c fs d t df false) = Run ->
  items_ok d t df ->
  forall f, In f (file_dep df) -> dep_verdict md5 v c fs (getrec d t) f <> FSame ->
            In f (g_changed (get_status md5 v c fs d t df false)).
Proof.
  intros Hrun Hitems f Hf Hv. apply items_ok_b in Hitems.
  revert Hrun. unfold get_status. cbv zeta. rewrite Hitems. simpl.
  destruct (is_nil (file_dep df) && is_nil (evaluated (map (eval_utd d t) (uptodate df)))) eqn:E2; simpl.
  { apply andb_true_iff in E2. destruct E2 as [E2 _]. apply is_nil_true in E2. rewrite E2 in Hf. destruct Hf. }
  destruct (negb (is_nil (filter (fun x => negb (exists_ fs x)) (targets df)))) eqn:E3; simpl; auto.
  fold (ck_changed c (getrec d t)).
  destruct (ck_changed c (getrec d t)) eqn:E4; simpl; auto.
  destruct (check_files md5 v c fs (getrec d t) false (file_dep df) [] []) as [ch ms| |] eqn:E5; simpl.
  - intros _. apply check_files_done in E5. destruct E5 as [H1 H2]. apply H2. right. split; auto.
    destruct (H1 f Hf) as [H|H]; auto. contradiction.
  - discriminate.
  - discriminate.
Qed.

(* the two ways the loop does not find a dependency unmodified, spelled out: its saved state (none, or
   another version of the file), and -- since fixC -- its absence from the saved 'deps:' list: a
   dependency that left file_dep and came back is listed although an older execution's state of it
   is still in the record and still matches the file *)
Lemma get_status_changed_state v c fs d t df :
  g_status (get_status md5 v c fs d t df false) = Run ->
  items_ok d t df ->
  forall f, In f (file_dep df) -> file_verdict md5 c fs (getrec d t) f <> FSame ->
            In f (g_changed (get_status md5 v c fs d t df false)).
Proof.
  intros Hrun Hitems f Hf Hv. apply get_status_changed; auto.
  intros E. apply dep_verdict_same in E. destruct E as [E _]. contradiction.
Qed.
Lemma get_status_changed_outside v c fs d t df :
  fixC v = true ->
  g_status (get_status md5 v c fs d t df false) = Run ->
  items_ok d t df ->
  forall f p, In f (file_dep df) -> r_deps (getrec d t) = Some p -> ~ In f p ->
              In f (g_changed (get_status md5 v c fs d t df false)).
Proof.
  intros HC Hrun Hitems f p Hf Ep Hn. apply get_status_changed; auto.
  intros E. apply dep_verdict_same in E. destruct E as [_ E]. rewrite HC in E. simpl in E.
  assert (Ho : outside_saved_deps (getrec d t) f = true) by (apply outside_saved_deps_iff; exists p; auto).
  congruence.
Qed.

(* the uptodate-false exit: dep_changed stays [] (and the verdict is `run`) whatever the files are *)
Lemma get_status_utd_false v c fs d t df :
  ~ items_ok d t df ->
  g_status (get_status md5 v c fs d t df false) = Run /\ g_changed (get_status md5 v c fs d t df false) = [].
Proof.
  intros H. unfold get_status. cbv zeta.
  destruct (is_nil (false_positions (map (eval_utd d t) (uptodate df)) 0)) eqn:E.
  - exfalso. apply H. apply items_ok_b. exact E.
  - simpl. auto.
Qed.

End Changed.

Section ChangedH.
Variable md5 : N -> N.
Variable size_of : N -> Z.
Variable v : ver.
Hypothesis HA : fixA v = true.
Hypothesis HB : fixB v = true.
Notation check := (check md5 v).
Notation db_reflects_ghost := (db_reflects_ghost md5).

(* against the ghost: in any state satisfying the invariant of C03 *)
Lemma changed_superset_at s t :
  db_reflects_ghost s ->
  g_status (check s t) = Run ->
  items_ok (s_db s) t (s_defs s t) ->
  forall f, In f (file_dep (s_defs s t)) ->
    (r_saved (getrec (s_db s) t) f = None -> In f (g_changed (check s t))) /\
    (s_last_ok s t = None -> In f (g_changed (check s t))) /\
    (forall g then_ now, s_last_ok s t = Some g -> In f (file_dep (g_def g)) ->
       g_fs g f = Some then_ -> s_fs s f = Some now -> ~ unmodified md5 (s_ck s) then_ now ->
       In f (g_changed (check s t))) /\
    (fixC v = true -> forall g, s_last_ok s t = Some g -> ~ In f (file_dep (g_def g)) ->
       In f (g_changed (check s t))).
Proof.
  intros (Hb & Ht & Hcr) Hrun Hitems f Hf. unfold History.check in *.
  pose proof (get_status_changed_state md5 v (s_ck s) (s_fs s) (s_db s) t (s_defs s t) Hrun Hitems f Hf) as Hc.
  pose proof (fun HC => get_status_changed_outside md5 v (s_ck s) (s_fs s) (s_db s) t (s_defs s t) HC Hrun Hitems f) as Ho.
  assert (Hnone : r_saved (getrec (s_db s) t) f = None ->
                  In f (g_changed (get_status md5 v (s_ck s) (s_fs s) (s_db s) t (s_defs s t) false))).
  { intros E. apply Hc. unfold file_verdict. rewrite E. destruct (s_fs s f); discriminate. }
  split; [exact Hnone|]. specialize (Ht t). unfold task_inv in Ht. split; [|split].
  - intros E. apply Hnone. rewrite E in Ht. unfold getrec. destruct (s_db s t) as [r|]; auto.
    destruct Ht as (_ & _ & Hn). apply Hn.
  - intros g then_ now Eg Hin Ethen Enow Hmod. rewrite Eg in Ht.
    destruct (s_db s t) as [r|] eqn:Er; [|destruct Ht].
    destruct Ht as (T1 & T2 & T3 & T4 & Tv & T5).
    destruct (T5 f Hin) as (st & G1 & G2). rewrite Ethen in G1. inversion G1; subst st.
    destruct (ck_eqb (g_ck g) (s_ck s)) eqn:Eck.
    + apply ck_eqb_eq in Eck. apply Hc. rewrite (getrec_some _ _ _ Er).
      intros Hsame. apply file_verdict_same in Hsame. destruct Hsame as (now' & e & E1 & E2 & E3).
      rewrite Enow in E1. inversion E1; subst now'. rewrite G2 in E2. inversion E2; subst e.
      rewrite Eck in E3. apply check_modified_state_of in E3. contradiction.
    + (* another checker wrote the record: every file dep is reported *)
      clear Hc Hnone. revert Hrun. unfold get_status. cbv zeta.
      apply items_ok_b in Hitems. rewrite Hitems. simpl.
      destruct (is_nil (file_dep (s_defs s t)) && is_nil (evaluated (map (eval_utd (s_db s) t) (uptodate (s_defs s t))))) eqn:E2; simpl.
      { apply andb_true_iff in E2. destruct E2 as [E2 _]. apply is_nil_true in E2. rewrite E2 in Hf. destruct Hf. }
      destruct (negb (is_nil (filter (fun x => negb (exists_ (s_fs s) x)) (targets (s_defs s t))))) eqn:E3; simpl; auto.
      rewrite (getrec_some _ _ _ Er), T4, Eck. simpl. auto.
  - (* not a dependency of the last successful execution: outside the saved 'deps:' list *)
    intros HC g Eg Hout. rewrite Eg in Ht. destruct (s_db s t) as [r|] eqn:Er; [|destruct Ht].
    destruct Ht as (T1 & T2 & T3 & _). apply (Ho HC (file_dep (g_def g))); auto.
    rewrite (getrec_some _ _ _ Er). exact T3.
Qed.

Lemma changed_superset ops t :
  hist_ok md5 size_of v ops = true ->
  let s := run md5 size_of v ops in
  g_status (check s t) = Run ->
  (forall u, In u (uptodate (s_defs s t)) -> eval_utd (s_db s) t u <> Some false) ->
  forall f, In f (file_dep (s_defs s t)) ->
    (r_saved (getrec (s_db s) t) f = None -> In f (g_changed (check s t))) /\
    (s_last_ok s t = None -> In f (g_changed (check s t))) /\
    (forall g then_ now, s_last_ok s t = Some g -> In f (file_dep (g_def g)) ->
       g_fs g f = Some then_ -> s_fs s f = Some now -> ~ unmodified md5 (s_ck s) then_ now ->
       In f (g_changed (check s t))) /\
    (fixC v = true -> forall g, s_last_ok s t = Some g -> ~ In f (file_dep (g_def g)) ->
       In f (g_changed (check s t))).
Proof.
  intros Hf s. apply changed_superset_at. apply run_inv; assumption.
Qed.

End ChangedH.

(* ================================================================= B. the meta-arguments *)
Lemma action_input_meta df ch opts k :
  oget opts k = None ->
  action_input df ch opts k =
    if N.eqb k arg_targets then Some (KFiles (targets df))
    else if N.eqb k arg_dependencies then Some (KFiles (file_dep df))
    else if N.eqb k arg_changed then Some (KFiles ch) else None.
Proof. unfold action_input. intros ->. reflexivity. Qed.

Lemma action_input_opt df ch opts k a : oget opts k = Some a -> action_input df ch opts k = Some (KOpt a).
Proof. unfold action_input. intros ->. reflexivity. Qed.

Lemma prepare_kwargs_In df ch opts params p x :
  In (p, x) (prepare_kwargs df ch opts params) <-> In p params /\ action_input df ch opts p = Some x.
Proof.
  unfold prepare_kwargs. rewrite in_flat_map. split.
  - intros (q & Hq & Hin). destruct (action_input df ch opts q) eqn:E; [|destruct Hin].
    destruct Hin as [Hin|[]]. inversion Hin; subst. auto.
  - intros (Hp & E). exists p. split; auto. rewrite E. left. reflexivity.
Qed.

(* what a python-action gets under the three reserved names, and what a cmd-action substitutes *)
Lemma meta_args df ch opts params :
  oget opts arg_targets = None -> oget opts arg_dependencies = None -> oget opts arg_changed = None ->
  (forall x, In (arg_targets, x) (prepare_kwargs df ch opts params) <-> In arg_targets params /\ x = KFiles (targets df)) /\
  (forall x, In (arg_dependencies, x) (prepare_kwargs df ch opts params) <-> In arg_dependencies params /\ x = KFiles (file_dep df)) /\
  (forall x, In (arg_changed, x) (prepare_kwargs df ch opts params) <-> In arg_changed params /\ x = KFiles ch) /\
  expand_action df ch opts [arg_targets; arg_dependencies; arg_changed] =
    Some [KFiles (targets df); KFiles (file_dep df); KFiles ch].
Proof.
  intros H1 H2 H3.
  split; [|split; [|split]]; try (intros x; rewrite prepare_kwargs_In, action_input_meta by assumption; simpl;
    split; [intros [A B]; inversion B; auto | intros [A ->]; auto]).
  simpl. rewrite !action_input_meta by assumption. reflexivity.
Qed.

(* ================================================================= C. getargs *)
Section Values.
Variable md5 : N -> N.
Variable size_of : N -> Z.
Variable v : ver.
Notation step := (step md5 size_of v).
Notation run := (run md5 size_of v).

(* the values in the DB are those the most recent successful execution (or processed reset-dep)
   saved; a task without one has no values.  Holds after EVERY history, for both code versions. *)
Definition vals_inv (s : state) : Prop :=
  forall t, match s_last_ok s t with
            | Some g => exists r, s_db s t = Some r /\ r_values r = g_values g
            | None => s_crashed s = false -> get_values (s_db s) t = []
            end.

Lemma vals_inv_ext s s' :
  s_db s' = s_db s -> s_last_ok s' = s_last_ok s -> s_crashed s' = s_crashed s -> vals_inv s -> vals_inv s'.
Proof. unfold vals_inv. intros -> -> ->. auto. Qed.

Lemma save_files_values c fs deps : forall r, r_values (fst (save_files md5 c fs r deps)) = r_values r.
Proof.
  induction deps as [|f deps IH]; intros r; simpl; auto.
  destruct (fs f) as [st|]; simpl; auto.
  destruct (get_state md5 c st (r_saved r f)); simpl; auto. rewrite IH. reflexivity.
Qed.

Lemma save_success_rec_values c fs r0 deps vals res :
  r_values (fst (save_success_rec md5 v c fs r0 deps vals res)) = vals.
Proof.
  unfold save_success_rec.
  set (r3 := set_checker _ _).
  assert (E3 : r_values r3 = vals) by (unfold r3; destruct res; reflexivity).
  pose proof (save_files_values c fs deps r3) as E4.
  destruct (save_files md5 c fs r3 deps) as [r4 o]. cbn [fst] in E4. destruct o; simpl; congruence.
Qed.

Lemma get_values_upd d t r x : get_values (upd d t (Some r)) x = if N.eqb x t then r_values r else get_values d x.
Proof. unfold get_values, getrec, upd. destruct (N.eqb x t); reflexivity. Qed.
Lemma get_values_remove d t x : get_values (remove d t) x = if N.eqb x t then [] else get_values d x.
Proof. unfold get_values, getrec, remove, upd. destruct (N.eqb x t); reflexivity. Qed.

(* a DB that is the old one, or the old one without t (what get_status leaves), with the pruned ghost *)
Lemma vals_inv_prune s d t cr o :
  (d = s_db s \/ d = remove (s_db s) t) -> vals_inv s ->
  vals_inv (with_db s d (prune d (s_last_ok s) t) cr o).
Proof.
  intros Hd H x. unfold with_db. simpl. specialize (H x).
  destruct (N.eqb_spec x t) as [->|Hne].
  - unfold prune. destruct Hd as [->| ->].
    + destruct (s_db s t) as [r|] eqn:Er.
      * destruct (s_last_ok s t); auto. intros Hc. apply H. destruct (s_crashed s); [discriminate|reflexivity].
      * rewrite upd_same. intros _. unfold get_values, getrec. rewrite Er. reflexivity.
    + rewrite remove_same, upd_same. intros _. rewrite get_values_remove, N.eqb_refl. reflexivity.
  - assert (Eg : prune d (s_last_ok s) t x = s_last_ok s x).
    { unfold prune. destruct (d t); auto. apply upd_other. exact Hne. }
    rewrite Eg. destruct Hd as [->| ->].
    + destruct (s_last_ok s x); auto. intros Hc. apply H. destruct (s_crashed s); [discriminate|reflexivity].
    + rewrite remove_other by exact Hne. destruct (s_last_ok s x); auto.
      intros Hc. rewrite get_values_remove. apply N.eqb_neq in Hne. rewrite Hne.
      apply H. destruct (s_crashed s); [discriminate|reflexivity].
Qed.

Lemma crashed_false_l a b : a || b = false -> a = false.
Proof. destruct a; simpl; congruence. Qed.

Lemma step_vals s o : vals_inv s -> vals_inv (step s o).
Proof.
  intros H.
  destruct o; try solve [simpl; unfold step_write;
    repeat match goal with |- context [match ?x with _ => _ end] => destruct x end; eapply vals_inv_ext; eauto]; simpl.
  - (* SaveOk *)
    unfold process_success, save_success.
    pose proof (save_success_rec_values (s_ck s) (s_fs s) (getrec (s_db s) t) (file_dep (s_defs s t))
                  (save_extra_values (s_db s) (s_defs s t)) (act_result (s_defs s t))) as Ev.
    destruct (save_success_rec md5 v (s_ck s) (s_fs s) (getrec (s_db s) t) (file_dep (s_defs s t))
                (save_extra_values (s_db s) (s_defs s t)) (act_result (s_defs s t))) as [r o]. simpl in Ev.
    intros x. specialize (H x). unfold with_db. simpl.
    destruct (N.eqb_spec x t) as [->|Hne].
    + destruct o; simpl; rewrite upd_same.
      * exists r. split; [apply upd_same|]. simpl. exact Ev.
      * intros _. unfold remove_success. rewrite get_values_remove, N.eqb_refl. reflexivity.
      * rewrite orb_true_r. discriminate.
    + assert (Edb : forall d', (d' = upd (s_db s) t (Some r) \/ d' = remove_success (upd (s_db s) t (Some r)) t) -> d' x = s_db s x).
      { intros d' [->| ->]; unfold remove_success; [|rewrite remove_other by exact Hne]; apply upd_other; exact Hne. }
      assert (Eg : forall g', upd (s_last_ok s) t g' x = s_last_ok s x) by (intro g'; apply upd_other; exact Hne).
      destruct o; simpl; rewrite Eg; (destruct (s_last_ok s x) as [g|];
        [destruct H as (r' & H1 & H2); exists r'; split; auto; rewrite Edb; auto
        |intros Hc; apply crashed_false_l in Hc; unfold get_values, getrec; rewrite Edb by auto; apply (H Hc)]).
  - (* Remove *)
    intros x. specialize (H x). unfold with_db. simpl. unfold remove_success.
    destruct (N.eqb_spec x t) as [->|Hne].
    + rewrite upd_same. intros _. rewrite get_values_remove, N.eqb_refl. reflexivity.
    + rewrite upd_other by exact Hne. rewrite remove_other by exact Hne.
      destruct (s_last_ok s x); auto. intros Hc. rewrite get_values_remove. apply N.eqb_neq in Hne. rewrite Hne.
      apply H. apply crashed_false_l in Hc. exact Hc.
  - (* Ignore *)
    intros x. specialize (H x). unfold with_db. simpl. unfold ignore.
    destruct (N.eqb_spec x t) as [->|Hne].
    + rewrite upd_same. destruct (s_last_ok s t) as [g|].
      * destruct H as (r & H1 & H2). eexists. split; [reflexivity|]. simpl. rewrite (getrec_some _ _ _ H1). exact H2.
      * intros Hc. rewrite get_values_upd, N.eqb_refl. simpl. apply H. apply crashed_false_l in Hc. exact Hc.
    + rewrite upd_other by exact Hne. destruct (s_last_ok s x); auto.
      intros Hc. rewrite get_values_upd. apply N.eqb_neq in Hne. rewrite Hne. apply H. apply crashed_false_l in Hc. exact Hc.
  - (* ResetDep *)
    unfold reset_dep.
    destruct (negb (forallb (exists_ (s_fs s)) (file_dep (s_defs s t)))).
    { simpl. apply vals_inv_prune; auto. }
    set (g := get_status md5 v (s_ck s) (s_fs s) (s_db s) t (s_defs s t) false).
    assert (Hg : g_db g = s_db s \/ g_db g = remove (s_db s) t).
    { destruct (get_status_db md5 v (s_ck s) (s_fs s) (s_db s) t (s_defs s t) false) as [E|[_ E]]; auto. }
    destruct (g_status g).
    + simpl. apply vals_inv_prune; auto.
    + unfold save_success.
      pose proof (save_success_rec_values (s_ck s) (s_fs s) (getrec (g_db g) t) (file_dep (s_defs s t))
                    (get_values (s_db s) t) (get_result (s_db s) t)) as Ev.
      destruct (save_success_rec md5 v (s_ck s) (s_fs s) (getrec (g_db g) t) (file_dep (s_defs s t))
                  (get_values (s_db s) t) (get_result (s_db s) t)) as [r o]. simpl in Ev.
      assert (Hx : forall x, x <> t -> upd (g_db g) t (Some r) x = s_db s x).
      { intros x Hne. rewrite upd_other by exact Hne. destruct Hg as [->| ->]; auto. apply remove_other. exact Hne. }
      intros x. specialize (H x). unfold with_db.
      destruct o; simpl.
      * destruct (N.eqb_spec x t) as [->|Hne].
        -- rewrite !upd_same. exists r. split; auto.
        -- rewrite upd_other by exact Hne. rewrite Hx by exact Hne.
           destruct (s_last_ok s x); auto. intros Hc. unfold get_values, getrec. rewrite Hx by exact Hne.
           apply H. apply crashed_false_l in Hc. exact Hc.
      * rewrite orb_true_r. destruct (N.eqb_spec x t) as [->|Hne].
        -- rewrite upd_same. discriminate.
        -- rewrite upd_other by exact Hne. rewrite Hx by exact Hne. destruct (s_last_ok s x); auto. discriminate.
      * rewrite orb_true_r. destruct (N.eqb_spec x t) as [->|Hne].
        -- rewrite upd_same. discriminate.
        -- rewrite upd_other by exact Hne. rewrite Hx by exact Hne. destruct (s_last_ok s x); auto. discriminate.
    + unfold save_success.
      pose proof (save_success_rec_values (s_ck s) (s_fs s) (getrec (g_db g) t) (file_dep (s_defs s t))
                    (get_values (s_db s) t) (get_result (s_db s) t)) as Ev.
      destruct (save_success_rec md5 v (s_ck s) (s_fs s) (getrec (g_db g) t) (file_dep (s_defs s t))
                  (get_values (s_db s) t) (get_result (s_db s) t)) as [r o]. simpl in Ev.
      assert (Hx : forall x, x <> t -> upd (g_db g) t (Some r) x = s_db s x).
      { intros x Hne. rewrite upd_other by exact Hne. destruct Hg as [->| ->]; auto. apply remove_other. exact Hne. }
      intros x. specialize (H x). unfold with_db.
      destruct o; simpl.
      * destruct (N.eqb_spec x t) as [->|Hne].
        -- rewrite !upd_same. exists r. split; auto.
        -- rewrite upd_other by exact Hne. rewrite Hx by exact Hne.
           destruct (s_last_ok s x); auto. intros Hc. unfold get_values, getrec. rewrite Hx by exact Hne.
           apply H. apply crashed_false_l in Hc. exact Hc.
      * rewrite orb_true_r. destruct (N.eqb_spec x t) as [->|Hne].
        -- rewrite upd_same. discriminate.
        -- rewrite upd_other by exact Hne. rewrite Hx by exact Hne. destruct (s_last_ok s x); auto. discriminate.
      * rewrite orb_true_r. destruct (N.eqb_spec x t) as [->|Hne].
        -- rewrite upd_same. discriminate.
        -- rewrite upd_other by exact Hne. rewrite Hx by exact Hne. destruct (s_last_ok s x); auto. discriminate.
    + simpl. intros x. specialize (H x). unfold with_db. simpl. rewrite orb_true_r.
      destruct (N.eqb_spec x t) as [->|Hne].
      * rewrite upd_same. discriminate.
      * rewrite upd_other by exact Hne. destruct (s_last_ok s x) as [g0|]; [|discriminate].
        destruct H as (r & H1 & H2). exists r. split; auto. destruct Hg as [->| ->]; auto. rewrite remove_other; auto.
  - (* ForgetAll *) intros x. simpl. intros _. reflexivity.
  - (* Check *) apply vals_inv_prune; auto.
    destruct (get_status_db md5 v (s_ck s) (s_fs s) (s_db s) t (s_defs s t) false) as [E|[_ E]]; auto.
  - apply vals_inv_prune; auto.
    destruct (get_status_db md5 v (s_ck s) (s_fs s) (s_db s) t (s_defs s t) true) as [E|[_ E]]; auto.
Qed.

Lemma init_vals : vals_inv init.
Proof. intros t. simpl. intros _. reflexivity. Qed.

Lemma run_from_vals ops : forall s, vals_inv s -> vals_inv (run_from md5 size_of v s ops).
Proof. induction ops as [|o ops IH]; intros s H; simpl; auto. apply IH, step_vals, H. Qed.

Lemma run_vals ops : vals_inv (run ops).
Proof. apply run_from_vals, init_vals. Qed.

End Values.

(* ---- what _get_task_args reads is what the most recent successful executions saved ---- *)
(* the table "values saved by the most recent successful execution of each task", as a DB: a task
   without one has an entry (an empty one) only if the DB has a record of it at all -- which, by
   [vals_inv], is then a record without values (written by `ignore`) *)
Definition ghost_db (s : state) : db :=
  fun t => match s_last_ok s t with
           | Some g => Some (set_values empty_rec (g_values g))
           | None => if db_in (s_db s) t then Some empty_rec else None
           end.

Section Latest.
Variable md5 : N -> N.
Variable size_of : N -> Z.
Variable v : ver.
Variable iv : iver.

Lemma get_value_some s t g key :
  vals_inv s -> s_last_ok s t = Some g ->
  get_value iv (s_db s) t key =
    match key with
    | None => inl (SDict (g_values g))
    | Some k => match vget (g_values g) k with Some x => inl (SVal x) | None => inr (ENoKey t k) end
    end.
Proof.
  intros H E. specialize (H t). rewrite E in H. destruct H as (r & H1 & H2).
  unfold get_value, db_in, get_values, getrec. rewrite H1, H2. rewrite andb_false_r. destruct key; reflexivity.
Qed.

(* a source that was never saved (no record at all): the documented error, for a key and -- in the
   repaired code -- for the whole dict alike *)
Lemma get_value_no_record d t key :
  d t = None ->
  get_value iv d t key =
    match key with
    | Some _ => inr (ENoRecord t)
    | None => if fixDict iv then inr (ENoRecord t) else inl (SDict [])
    end.
Proof.
  intros E. unfold get_value, db_in, get_values, getrec. rewrite E. simpl.
  destruct key; auto. rewrite andb_true_r. destruct (fixDict iv); reflexivity.
Qed.

(* a source without a last successful execution never yields a value for a key *)
Lemma get_value_none s t k :
  vals_inv s -> s_crashed s = false -> s_last_ok s t = None ->
  exists e, get_value iv (s_db s) t (Some k) = inr e.
Proof.
  intros H Hc E. specialize (H t). rewrite E in H. specialize (H Hc).
  unfold get_value. rewrite H. destruct (negb (db_in (s_db s) t)); simpl; eauto.
Qed.

Lemma ghost_db_in s t : vals_inv s -> db_in (ghost_db s) t = db_in (s_db s) t.
Proof.
  intros H. specialize (H t). unfold ghost_db, db_in at 1.
  destruct (s_last_ok s t) as [g|].
  - destruct H as (r & H1 & _). unfold db_in. rewrite H1. reflexivity.
  - destruct (db_in (s_db s) t); reflexivity.
Qed.
Lemma ghost_db_values s t : vals_inv s -> s_crashed s = false -> get_values (ghost_db s) t = get_values (s_db s) t.
Proof.
  intros H Hc. specialize (H t). unfold ghost_db, get_values at 1, getrec.
  destruct (s_last_ok s t) as [g|].
  - destruct H as (r & H1 & H2). simpl. unfold get_values, getrec. rewrite H1. auto.
  - rewrite (H Hc). destruct (db_in (s_db s) t); reflexivity.
Qed.

Lemma get_value_latest s t key :
  vals_inv s -> s_crashed s = false -> get_value iv (s_db s) t key = get_value iv (ghost_db s) t key.
Proof.
  intros H Hc. unfold get_value. rewrite ghost_db_in, ghost_db_values by assumption. reflexivity.
Qed.

Lemma get_group_latest s subs key :
  vals_inv s -> s_crashed s = false -> get_group iv (s_db s) subs key = get_group iv (ghost_db s) subs key.
Proof.
  intros H Hc. induction subs as [|x subs IH]; simpl; auto.
  rewrite (get_value_latest s x key H Hc), IH. reflexivity.
Qed.

Lemma arg_value_latest s grp g :
  vals_inv s -> s_crashed s = false -> arg_value iv (s_db s) grp g = arg_value iv (ghost_db s) grp g.
Proof.
  intros H Hc. unfold arg_value. destruct (grp (ga_src g)) as [subs|].
  - rewrite (get_group_latest s subs _ H Hc). reflexivity.
  - rewrite (get_value_latest s _ _ H Hc). reflexivity.
Qed.

Lemma get_task_args_latest s grp gas :
  vals_inv s -> s_crashed s = false -> get_task_args iv (s_db s) grp gas = get_task_args iv (ghost_db s) grp gas.
Proof.
  intros H Hc. induction gas as [|g gas IH]; simpl; auto.
  rewrite (arg_value_latest s grp g H Hc), IH. reflexivity.
Qed.

(* for the code in /repo: after every history *)
Lemma getargs_latest_run ops grp gas :
  let s := run md5 size_of current ops in
  get_task_args iv (s_db s) grp gas = get_task_args iv (ghost_db s) grp gas.
Proof.
  intros s. apply get_task_args_latest.
  - apply run_vals.
  - apply (proj1 (no_typeerror_run md5 size_of current eq_refl ops 0%N false)).
Qed.

(* a successful execution makes its values the latest ones *)
Lemma last_ok_after_save s t :
  snd (process_success md5 v (s_ck s) (s_fs s) (s_db s) t (s_defs s t)) = SaveDone ->
  s_last_ok (step md5 size_of v s (SaveOk t)) t = Some (snap s t (save_extra_values (s_db s) (s_defs s t))).
Proof.
  simpl. destruct (process_success md5 v (s_ck s) (s_fs s) (s_db s) t (s_defs s t)) as [d o]. simpl.
  intros ->. simpl. apply upd_same.
Qed.

End Latest.

(* every getargs source is a setup-task of the consumer after Task.__init__ *)
Lemma init_getargs_acc setup gas : forall acc x,
  In x (fold_left (fun acc g => if mem (ga_src g) setup || mem (ga_src g) acc then acc else acc ++ [ga_src g]) gas acc) <->
  In x acc \/ (~ In x setup /\ exists g, In g gas /\ ga_src g = x).
Proof.
  induction gas as [|g gas IH]; intros acc x; simpl.
  - split; [auto|]. intros [H|[_ [g [[] _]]]]. exact H.
  - rewrite IH. destruct (mem (ga_src g) setup) eqn:E1; simpl.
    + apply mem_In in E1. split.
      * intros [H|[H1 [g' [H2 H3]]]]; auto. right. split; auto. exists g'. auto.
      * intros [H|[H1 [g' [[<-|H2] H3]]]]; auto.
        -- subst x. contradiction.
        -- right. split; auto. exists g'. auto.
    + apply mem_false_In in E1. destruct (mem (ga_src g) acc) eqn:E2.
      * apply mem_In in E2. split.
        -- intros [H|[H1 [g' [H2 H3]]]]; auto. right. split; auto. exists g'. auto.
        -- intros [H|[H1 [g' [[<-|H2] H3]]]]; auto.
           ++ subst x. auto.
           ++ right. split; auto. exists g'. auto.
      * rewrite in_app_iff. simpl. split.
        -- intros [[H|[H|[]]]|[H1 [g' [H2 H3]]]]; auto.
           ++ right. subst x. split; auto. exists g. auto.
           ++ right. split; auto. exists g'. auto.
        -- intros [H|[H1 [g' [[<-|H2] H3]]]]; auto.
           right. split; auto. exists g'. auto.
Qed.

Lemma init_setup_sources setup gas g : In g gas -> In (ga_src g) (init_setup setup gas).
Proof.
  intros Hg. unfold init_setup, init_getargs. rewrite in_app_iff.
  destruct (mem (ga_src g) setup) eqn:E.
  - left. apply mem_In. exact E.
  - right. apply init_getargs_acc. right. split; [apply mem_false_In; exact E|]. exists g. auto.
Qed.

(* and gets one result_dep item per source that was not an explicit setup-task *)
Lemma init_uptodate_items u setup gas x :
  In (UResultDep x) (init_uptodate u setup gas) <->
  In (UResultDep x) u \/ (~ In x setup /\ exists g, In g gas /\ ga_src g = x).
Proof.
  unfold init_uptodate, init_getargs. rewrite in_app_iff, in_map_iff. split.
  - intros [H|[y [E H]]]; auto. inversion E; subst y. apply init_getargs_acc in H. destruct H as [[]|H]. auto.
  - intros [H|H]; auto. right. exists x. split; auto. apply init_getargs_acc. auto.
Qed.

(* hence, by the dispatcher invariant (C01): in the serial runner the source has finished -- in this
   run -- before the consumer's actions start, so its SaveOk (if it executed) precedes the
   consumer's _get_task_args *)
Section SourceFirst.
Variable tasks : name -> option Dispatch.task.
Variable wake_rank : name -> name -> N.
Variable calc_rank : name -> N.
Variable continue_ always : bool.

Lemma getargs_source_finished fuel sel pre t post setup gas g :
  t_setup (Dispatch.get_task tasks t) = init_setup setup gas ->
  fst (run_serial tasks wake_rank calc_rank continue_ always fuel sel) = pre ++ EExecute t :: post ->
  In g gas -> finished_in pre (ga_src g).
Proof.
  intros Hs E Hg.
  apply (ordered_split tasks _ (serial_dep_order tasks wake_rank calc_rank continue_ always fuel sel) pre t post E).
  unfold static_deps. rewrite !in_app_iff. right. right. rewrite Hs. apply init_setup_sources. exact Hg.
Qed.

End SourceFirst.

(* ================================================================= the run interpreter *)
Section RunP.
Variable md5 : N -> N.
Variable size_of : N -> Z.
Variable v : ver.
Variable iv : iver.
Variable tab : name -> itask.
Variable always : bool.
Variable fails : list name.
Notation visit := (visit md5 size_of v iv tab always fails).
Notation args_and_execute := (args_and_execute md5 size_of v iv tab fails).
Notation xstep := (xstep md5 size_of v).
Notation fail := (fail md5 size_of v).

(* a getargs error: the consumer is reported failed (DependencyError), its record is removed, no
   action of it is executed *)
Lemma args_error x t ch e :
  get_task_args iv (s_db (x_s x)) (grp_of iv tab) (i_getargs (tab t)) = inr e ->
  let x' := args_and_execute x t ch in
  st_of x' t = RFail (gerr_code e) /\ tr_kw (x_rep x' t) = tr_kw (x_rep x t) /\ x_ops x' = x_ops x ++ [Remove t].
Proof.
  intros E. unfold Inputs.args_and_execute. rewrite E. cbv zeta.
  unfold Inputs.fail, set_st, set_rep, st_of, Inputs.xstep. simpl. rewrite upd_same. simpl. auto.
Qed.

(* otherwise the action is called with the resolved arguments: options = what _get_task_args read
   at that moment, `changed` = dep_changed of this run's get_status, targets/dependencies = the
   task's definition at that moment *)
Lemma args_ok x t ch opts :
  get_task_args iv (s_db (x_s x)) (grp_of iv tab) (i_getargs (tab t)) = inl opts ->
  tr_kw (x_rep (args_and_execute x t ch) t) = Some (prepare_kwargs (s_defs (x_s x) t) ch opts (i_params (tab t))).
Proof.
  intros E. unfold Inputs.args_and_execute. rewrite E. cbv zeta.
  destruct (mem t fails).
  - unfold Inputs.fail, set_st, set_rep, Inputs.xstep. simpl. rewrite !upd_same. reflexivity.
  - destruct (snd (process_success _ _ _ _ _ _ _));
      unfold Inputs.fail, set_st, set_vals, set_rep, Inputs.xstep; simpl; rewrite !upd_same; reflexivity.
Qed.

(* every state the interpreter reaches is the state of a history: it extends the operations so
   far by Check / SaveOk / Remove / SetDef operations only *)
Definition runner_op (o : op) : bool :=
  match o with Check _ | SaveOk _ | Remove _ | SetDef _ _ => true | _ => false end.
Definition ext (x x' : xstate) : Prop :=
  exists ops, x_ops x' = x_ops x ++ ops /\ x_s x' = run_from md5 size_of v (x_s x) ops /\ forallb runner_op ops = true.
(* such operations write no file: appended to any history they keep it FS-fresh (hist_ok) *)
Lemma runner_ops_ok ops : forallb runner_op ops = true -> forall s, hist_ok_from md5 size_of v s ops = true.
Proof.
  induction ops as [|o ops IH]; intros H s; simpl in *; auto.
  apply andb_true_iff in H. destruct H as [H1 H2]. rewrite IH by exact H2.
  destruct o; try discriminate; reflexivity.
Qed.

Lemma ext_refl x : ext x x.
Proof. exists []. rewrite app_nil_r. auto. Qed.
Lemma run_from_app ops1 : forall s ops2,
  run_from md5 size_of v s (ops1 ++ ops2) = run_from md5 size_of v (run_from md5 size_of v s ops1) ops2.
Proof. induction ops1; intros; simpl; auto. Qed.
Lemma ext_trans x y z : ext x y -> ext y z -> ext x z.
Proof.
  intros (o1 & A1 & A2 & A3) (o2 & B1 & B2 & B3). exists (o1 ++ o2). split; [|split].
  - rewrite B1, A1, app_assoc. reflexivity.
  - rewrite B2, A2, run_from_app. reflexivity.
  - rewrite forallb_app, A3, B3. reflexivity.
Qed.
Lemma ext_xstep x o : runner_op o = true -> ext x (xstep x o).
Proof. intros H. exists [o]. simpl. rewrite H. auto. Qed.
Lemma ext_set_rep x t r : ext x (set_rep x t r).
Proof. exists []. simpl. rewrite app_nil_r. auto. Qed.
Lemma ext_set_st x t r : ext x (set_st x t r).
Proof. apply ext_set_rep. Qed.
Lemma ext_set_vals x t vl : ext x (set_vals x t vl).
Proof. apply ext_set_rep. Qed.
Lemma ext_fail x t c : ext x (fail x t c).
Proof. unfold Inputs.fail. eapply ext_trans; [apply (ext_xstep x (Remove t)); reflexivity|apply ext_set_st]. Qed.
Lemma ext_fold (f : xstate -> name -> xstate) l :
  (forall x t, ext x (f x t)) -> forall x, ext x (fold_left f l x).
Proof.
  intros H. induction l as [|a l IH]; intros x; simpl; [apply ext_refl|].
  eapply ext_trans; [apply H|apply IH].
Qed.

Lemma ext_args x t ch : ext x (args_and_execute x t ch).
Proof.
  unfold Inputs.args_and_execute.
  destruct (get_task_args _ _ _ _); [|apply ext_fail]. cbv zeta.
  eapply ext_trans; [apply ext_set_rep|].
  destruct (mem t fails); [apply ext_fail|].
  destruct (snd (process_success _ _ _ _ _ _ _)).
  - eapply ext_trans; [apply ext_set_vals|eapply ext_trans; [apply (ext_xstep _ (SaveOk t)); reflexivity|apply ext_set_st]].
  - eapply ext_trans; [apply ext_set_vals|eapply ext_trans; [apply (ext_xstep _ (SaveOk t)); reflexivity|apply ext_fail]].
  - eapply ext_trans; [apply ext_set_vals|eapply ext_trans; [apply (ext_xstep _ (SaveOk t)); reflexivity|apply ext_set_st]].
Qed.

Lemma visit_ext fuel : forall x t, ext x (visit fuel x t).
Proof.
  induction fuel as [|fuel IH]; intros x t; cbn [Inputs.visit]; [apply ext_set_st|].
  destruct (st_of x t); try apply ext_refl. cbv zeta.
  set (x1 := fold_left (visit fuel) (i_calc_dep (tab t)) x).
  assert (E1 : ext x x1) by (apply ext_fold; exact IH).
  set (x2 := if is_nil (i_calc_dep (tab t)) then x1 else Inputs.xstep md5 size_of v x1 (SetDef t _)).
  assert (E2 : ext x1 x2) by (unfold x2; destruct (is_nil (i_calc_dep (tab t))); [apply ext_refl|apply ext_xstep; reflexivity]).
  set (deps := i_task_dep (tab t) ++ _).
  set (x3 := fold_left (visit fuel) deps x2).
  assert (E3 : ext x2 x3) by (apply ext_fold; exact IH).
  assert (E03 : ext x x3) by (eapply ext_trans; [exact E1|eapply ext_trans; eauto]).
  destruct (existsb _ _ || status_is_ignore _ _); [eapply ext_trans; [exact E03|apply ext_set_st]|].
  destruct (existsb _ _); [eapply ext_trans; [exact E03|apply ext_fail]|].
  set (x4 := set_rep _ t _).
  assert (E4 : ext x3 x4) by (unfold x4; eapply ext_trans; [apply (ext_xstep x3 (Check t)); reflexivity|apply ext_set_rep]).
  assert (E04 : ext x x4) by (eapply ext_trans; eauto).
  assert (Hrun : ext x4
    (let x5 := fold_left (visit fuel) (i_setup (tab t)) x4 in
     if existsb (fun d => is_ign (st_of x5 d)) (i_setup (tab t)) then set_st x5 t RIgnore
     else if existsb (fun d => is_fail (st_of x5 d)) (i_setup (tab t)) then Inputs.fail md5 size_of v x5 t 40
     else Inputs.args_and_execute md5 size_of v iv tab fails x5 t (g_changed (check md5 v (x_s x3) t)))).
  { cbv zeta. set (x5 := fold_left (visit fuel) (i_setup (tab t)) x4).
    assert (E5 : ext x4 x5) by (apply ext_fold; exact IH).
    destruct (existsb _ _); [eapply ext_trans; [exact E5|apply ext_set_st]|].
    destruct (existsb _ _); [eapply ext_trans; [exact E5|apply ext_fail]|].
    eapply ext_trans; [exact E5|apply ext_args]. }
  destruct (g_status (check md5 v (x_s x3) t)) eqn:Eg.
  - destruct (Status.status_eqb UpToDate UpToDate && negb always).
    + eapply ext_trans; [exact E04|eapply ext_trans; [apply ext_set_vals|apply ext_set_st]].
    + eapply ext_trans; [exact E04|exact Hrun].
  - destruct (Status.status_eqb Run UpToDate && negb always).
    + eapply ext_trans; [exact E04|eapply ext_trans; [apply ext_set_vals|apply ext_set_st]].
    + eapply ext_trans; [exact E04|exact Hrun].
  - eapply ext_trans; [exact E04|apply ext_fail].
  - eapply ext_trans; [exact E04|apply ext_set_st].
Qed.

Lemma run_sel_history fuel s sel :
  exists ops, x_s (run_sel md5 size_of v iv tab always fails fuel s sel) = run_from md5 size_of v s ops /\
              forall s0, hist_ok_from md5 size_of v s0 ops = true.
Proof.
  unfold run_sel.
  destruct (ext_fold (visit fuel) sel (visit_ext fuel) {| x_s := s; x_ops := []; x_rep := fun _ => no_rep |}) as (ops & _ & H & F).
  exists ops. split; auto. apply runner_ops_ok. exact F.
Qed.

(* the repaired code reads, for a group source, only names that are sub-tasks of the group *)
Lemma grp_of_subtasks g l :
  fixGroup iv = true -> grp_of iv tab g = Some l ->
  forall x, In x l -> In x (i_task_dep (tab g)) /\ i_sub_of (tab x) = Some g.
Proof.
  intros Hf E x Hx. unfold grp_of in E. destruct (i_group (tab g)); [|discriminate].
  rewrite Hf in E. inversion E; subst l. apply filter_In in Hx. destruct Hx as [H1 H2]. split; auto.
  unfold is_sub_of in H2. destruct (i_sub_of (tab x)) as [g'|]; [|discriminate]. apply N.eqb_eq in H2. congruence.
Qed.
Lemma get_group_keys iv' d subs key l : get_group iv' d subs key = inl l -> map fst l = subs.
Proof.
  revert l. induction subs as [|x subs IH]; intros l H; simpl in H.
  - inversion H. reflexivity.
  - destruct (get_value iv' d x key); [|discriminate]. destruct (get_group iv' d subs key) as [l'|]; [|discriminate].
    inversion H; subst. simpl. f_equal. apply IH. reflexivity.
Qed.

End RunP.

(* ================================================================= D. calc_dep results *)
(* ---- Status level: the file_dep a calc task returned are part of the definition get_status sees ---- *)
Lemma fold_addset_In l : forall acc x, In x (fold_left (fun acc f => addset f acc) l acc) <-> In x acc \/ In x l.
Proof.
  induction l as [|a l IH]; intros acc x; simpl; [tauto|].
  rewrite IH, addset_In. split; intros H; intuition auto.
Qed.

Lemma update_deps_file_dep df vl f :
  In f (file_dep (update_deps df vl)) <-> In f (file_dep df) \/ In f (calc_list vl k_cfile).
Proof. unfold update_deps. simpl. apply fold_addset_In. Qed.

Lemma update_deps_rest df vl :
  targets (update_deps df vl) = targets df /\ uptodate (update_deps df vl) = uptodate df /\
  act_values (update_deps df vl) = act_values df /\ act_result (update_deps df vl) = act_result df.
Proof. unfold update_deps. simpl. auto. Qed.

Section CalcStatus.
Variable md5 : N -> N.
Variable size_of : N -> Z.
Variable v : ver.
Hypothesis HA : fixA v = true.
Hypothesis HB : fixB v = true.

(* after the merge (the SetDef the interpreter performs before the dependent's Check), the files
   returned by the calc task are checked like declared ones: up-to-date only if each of them
   exists, was a dependency of the last successful execution and is unmodified since;
   and `dependencies` contains them *)
Lemma calc_dep_status s t vl :
  db_reflects_ghost md5 s ->
  let s' := step md5 size_of v s (SetDef t (update_deps (s_defs s t) vl)) in
  (forall f, In f (calc_list vl k_cfile) -> In f (file_dep (s_defs s' t))) /\
  (forall ch opts, oget opts arg_dependencies = None ->
     forall f, In f (calc_list vl k_cfile) ->
     exists l, action_input (s_defs s' t) ch opts arg_dependencies = Some (KFiles l) /\ In f l) /\
  (g_status (check md5 v s' t) = UpToDate ->
   forall f, In f (calc_list vl k_cfile) ->
     exists_ (s_fs s') f = true /\
     forall g, s_last_ok s' t = Some g ->
       In f (file_dep (g_def g)) /\
       exists then_ now, g_fs g f = Some then_ /\ s_fs s' f = Some now /\ unmodified md5 (s_ck s') then_ now).
Proof.
  intros Hinv s'.
  assert (Hdef : s_defs s' t = update_deps (s_defs s t) vl) by (simpl; apply upd_same).
  assert (Hin : forall f, In f (calc_list vl k_cfile) -> In f (file_dep (s_defs s' t))).
  { intros f Hf. rewrite Hdef. apply update_deps_file_dep. auto. }
  split; [exact Hin|]. split.
  - intros ch opts Ho f Hf. exists (file_dep (s_defs s' t)). split; [|apply Hin; exact Hf].
    rewrite action_input_meta by exact Ho. reflexivity.
  - intros Hu f Hf.
    assert (Hinv' : db_reflects_ghost md5 s') by (apply step_inv; try assumption; reflexivity).
    destruct (sound_at md5 v) with (s := s') (t := t) as (_ & _ & _ & H4 & _ & H6); try assumption.
    split; [apply H4, Hin, Hf|].
    intros g Hg. destruct (H6 g Hg) as (_ & Hset & Hfiles). split.
    + apply Hset. apply Hin. exact Hf.
    + apply Hfiles. apply Hin. exact Hf.
Qed.

End CalcStatus.

(* ---- dispatcher level: Dispatch.process_calc puts everything the calc task returned into the
   waiting node's dependency lists, these lists only grow, and a node is handed to the runner only
   when every name in them is final ---- *)
Section CalcDispatch.
Variable tasks : name -> option Dispatch.task.
Variable wake_rank : name -> name -> N.
Variable calc_rank : name -> N.

Lemma fold_add_if_new_In l : forall acc x, In x (fold_left add_if_new l acc) <-> In x acc \/ In x l.
Proof.
  induction l as [|a l IH]; intros acc x; simpl; [tauto|].
  rewrite IH. unfold add_if_new. destruct (mem a acc) eqn:E.
  - apply mem_In in E. split; intros H; intuition (subst; auto).
  - rewrite in_app_iff. simpl. split; intros H; intuition auto.
Qed.

Lemma process_calc_merges nd c cst :
  calc_values_visible cst = true ->
  let nd' := process_calc tasks nd c cst in
  let tc := Dispatch.get_task tasks c in
  incl (t_calc_new_task tc) (n_all_task nd') /\ incl (t_calc_new_impl tc) (n_all_task nd') /\
  incl (t_calc_new_calc tc) (n_all_calc nd') /\
  incl (n_all_task nd) (n_all_task nd') /\ incl (n_all_calc nd) (n_all_calc nd') /\
  (* and what is new still has to be processed *)
  (forall x, In x (n_all_task nd' ++ n_all_calc nd') -> In x (n_all_task nd ++ n_all_calc nd) \/ In x (n_pend_task nd' ++ n_pend_calc nd')).
Proof.
  intros Hv. unfold process_calc. rewrite Hv. cbv zeta. simpl.
  set (tc := Dispatch.get_task tasks c).
  set (impl := fold_left add_if_new (t_calc_new_impl tc) (n_all_task nd ++ t_calc_new_task tc)).
  set (newc := filter (fun x => negb (mem x (n_all_calc nd))) (fold_left add_if_new (t_calc_new_calc tc) [])).
  assert (Hc : forall x, In x (t_calc_new_calc tc) -> In x (n_all_calc nd ++ newc)).
  { intros x Hx. rewrite in_app_iff. destruct (mem x (n_all_calc nd)) eqn:E; [left; apply mem_In; exact E|right].
    unfold newc. apply filter_In. split; [apply fold_add_if_new_In; auto|rewrite E; reflexivity]. }
  destruct (fold_add_if_new_ext (t_calc_new_impl tc) (n_all_task nd) (t_calc_new_task tc)) as [ext Eext].
  fold impl in Eext.
  repeat split.
  - intros x Hx. unfold impl. apply fold_add_if_new_In. left. apply in_app_iff. auto.
  - intros x Hx. unfold impl. apply fold_add_if_new_In. auto.
  - exact Hc.
  - intros x Hx. unfold impl. apply fold_add_if_new_In. left. apply in_app_iff. auto.
  - apply incl_appl, incl_refl.
  - intros x Hx. rewrite !in_app_iff in *. rewrite Eext in *.
    rewrite skipn_app, skipn_all, Nat.sub_diag. simpl.
    destruct Hx as [Hx|[Hx|Hx]]; auto. apply in_app_iff in Hx. destruct Hx; auto.
Qed.

(* from any dispatcher state satisfying the invariants of Proofs/DispatchInv.v (every state of a
   serial run does, Proofs/RunnerP.v): the task handed over has ALL its current dependencies
   final -- the declared ones and the ones merged from calc results -- and lists never shrink *)
Lemma handed_dynamic_deps_final fuel d p k d' :
  Inv tasks d -> Pre tasks d -> AllRes tasks d -> QInv d ->
  (forall z, p = Some z -> Dispatch.st_of tasks d z <> SNone) ->
  disp_send tasks wake_rank calc_rank fuel d p = (DTask k, d') ->
  (forall x, In x (n_all_task (Dispatch.node_of tasks d' k) ++ n_all_calc (Dispatch.node_of tasks d' k)) -> final tasks d' x) /\
  all_grows tasks d d'.
Proof.
  intros HI HP HA HQ Hp Hs.
  pose proof (disp_send_spec tasks wake_rank calc_rank fuel d p (DTask k) d' HI HP HA HQ Hp Hs) as Hpost.
  split.
  - pose proof (handed_of_post tasks _ _ _ Hpost) as HK.
    assert (Hh : handed tasks d' k) by (decompose [and] HK; assumption).
    exact (h_deps _ _ _ Hh).
  - unfold disp_post in Hpost. decompose [and] Hpost. assumption.
Qed.

End CalcDispatch.
