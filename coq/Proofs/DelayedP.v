(* DelayedP.v -- proofs about Model/Delayed.v (delayed task creation). *)
From DoitV Require Import Base Dispatch Runner Delayed.
From Coq Require Import ZifyBool.
Open Scope N_scope.

(* ---------- predicates on traces ---------- *)
Definition is_final_of (k : name) (e : dev) : bool :=
  match e with
  | Ev (ESkipIgnore x) | Ev (ESkipUpToDate x) | Ev (ESuccess x) | Ev (EFailure x _) => N.eqb x k
  | _ => false end.
Definition final_in (k : name) (tr : list dev) : Prop := existsb (is_final_of k) tr = true.
Definition is_create_of (c : N) (e : dev) : bool :=
  match e with ECreate c' _ _ => N.eqb c' c | _ => false end.
Definition n_create (c : N) (tr : list dev) : nat := length (filter (is_create_of c) tr).
Definition is_exec_of (k : name) (e : dev) : bool :=
  match e with Ev (EExecute x) => N.eqb x k | _ => false end.

Lemma n_create_app l a b : n_create l (a ++ b) = (n_create l a + n_create l b)%nat.
Proof. unfold n_create. rewrite filter_app, app_length. reflexivity. Qed.
Lemma n_create_ev l es : n_create l (map Ev es) = 0%nat.
Proof. induction es; simpl; auto. Qed.
(* events that are no creator evaluation *)
Definition quiet (es : list dev) : Prop := forallb (fun e => match e with ECreate _ _ _ => false | _ => true end) es = true.
Lemma quiet_ev es : quiet (map Ev es).
Proof. unfold quiet. induction es; simpl; auto. Qed.
Lemma quiet_app a b : quiet a -> quiet b -> quiet (a ++ b).
Proof. unfold quiet. rewrite forallb_app. intros -> ->. reflexivity. Qed.
Lemma n_create_quiet l es : quiet es -> n_create l es = 0%nat.
Proof.
  unfold quiet, n_create. induction es as [|e es IH]; simpl; auto.
  intro H. apply andb_true_iff in H. destruct H as [H1 H2]. destruct e; simpl; auto; discriminate.
Qed.
Lemma final_in_app_l k a b : final_in k a -> final_in k (a ++ b).
Proof. unfold final_in. rewrite existsb_app. intros ->. reflexivity. Qed.
Lemma final_in_app_r k a b : final_in k b -> final_in k (a ++ b).
Proof. unfold final_in. rewrite existsb_app. intros ->. apply orb_true_r. Qed.

(* ---------- node lookup ---------- *)
Lemma node_of_set_same d k nd : node_of (set_node d k nd) k = nd.
Proof. unfold node_of, set_node; simpl. rewrite upd_same. reflexivity. Qed.
Lemma node_of_set_other d k nd x : x <> k -> node_of (set_node d k nd) x = node_of d x.
Proof. intros H. unfold node_of, set_node, tab_get; simpl. rewrite upd_other; auto. Qed.
Lemma node_of_set_node d k nd x :
  node_of (set_node d k nd) x = if N.eqb x k then nd else node_of d x.
Proof.
  destruct (N.eqb_spec x k) as [->|H]; [apply node_of_set_same | apply node_of_set_other; auto].
Qed.

(* the loader attribute of the task object a node holds (node_of falls back to the table) *)
Definition nl (d : dst) (k : name) : option name := dt_loader (dn_task (node_of d k)).

(* ---------- bookkeeping steps: table, loaders, targets, groups, trace and task objects untouched ---------- *)
Record keep (d d' : dst) : Prop := {
  k_tab : q_tab d' = q_tab d; k_ld : q_ld d' = q_ld d; k_tg : q_tg d' = q_tg d;
  k_rxg : q_rxg d' = q_rxg d; k_grp : q_grp d' = q_grp d; k_tr : q_tr d' = q_tr d;
  k_task : forall k, dn_task (node_of d' k) = dn_task (node_of d k) }.

Lemma keep_refl d : keep d d.
Proof. constructor; auto. Qed.
Lemma keep_trans a b c : keep a b -> keep b c -> keep a c.
Proof.
  intros [] []. constructor; try congruence.
Qed.
Lemma keep_set_node d k nd : dn_task nd = dn_task (node_of d k) -> keep d (set_node d k nd).
Proof.
  intros H. constructor; auto. intro x. rewrite node_of_set_node.
  destruct (N.eqb_spec x k); subst; auto.
Qed.
Lemma keep_set_ready d r : keep d (set_ready d r). Proof. constructor; auto. Qed.
Lemma keep_set_waiting d r : keep d (set_waiting d r). Proof. constructor; auto. Qed.
Lemma keep_set_torun d r : keep d (set_torun d r). Proof. constructor; auto. Qed.
Lemma keep_set_cur d r : keep d (set_cur d r). Proof. constructor; auto. Qed.
Lemma keep_set_pc d me p : keep d (set_pc d me p).
Proof. unfold set_pc. apply keep_set_node. reflexivity. Qed.

Lemma parent_status_task nd x s : dn_task (parent_status nd x s) = dn_task nd.
Proof. destruct s; reflexivity. Qed.
Lemma process_calc_task nd ct s : dn_task (process_calc nd ct s) = dn_task nd.
Proof. unfold process_calc. destruct (calc_values_visible s); reflexivity. Qed.

Lemma keep_gen_node d pa k : keep d (snd (gen_node d pa k)).
Proof.
  unfold gen_node. destruct (q_nodes d k) eqn:E.
  - destruct pa as [a|]; [destruct (mem k a)|]; apply keep_refl.
  - simpl. apply keep_set_node. unfold node_of. rewrite E. reflexivity.
Qed.

Lemma keep_add_wait_one d me x calc : keep d (add_wait_one d me x calc).
Proof.
  unfold add_wait_one. destruct (unfinished (st_of d x)).
  - set (d1 := set_node d x _).
    assert (H1 : keep d d1) by (apply keep_set_node; reflexivity).
    eapply keep_trans; [exact H1|]. apply keep_set_node. destruct calc; reflexivity.
  - apply keep_set_node. destruct calc; rewrite ?process_calc_task, parent_status_task; reflexivity.
Qed.
Lemma keep_add_wait_run l : forall d me calc, keep d (add_wait_run d me l calc).
Proof.
  induction l as [|x r IH]; intros; cbn [add_wait_run]; [apply keep_refl|].
  eapply keep_trans; [apply keep_add_wait_one | apply IH].
Qed.

Lemma wake_node_task nd fin ft s : dn_task (wake_node nd fin ft s) = dn_task nd.
Proof.
  unfold wake_node. destruct (mem fin (dn_wcalc nd)); rewrite ?process_calc_task; simpl; apply parent_status_task.
Qed.
Lemma keep_wake_one d fin ft s w : keep d (wake_one d fin ft s w).
Proof.
  unfold wake_one.
  assert (H : keep d (set_node d w (wake_node (node_of d w) fin ft s)))
    by (apply keep_set_node; apply wake_node_task).
  destruct (_ && _); auto.
  eapply keep_trans; [exact H|]. eapply keep_trans; [apply keep_set_ready | apply keep_set_waiting].
Qed.
Lemma keep_wake l : forall d fin ft s, keep d (wake d fin ft s l).
Proof.
  induction l as [|w r IH]; intros; cbn [wake]; [apply keep_refl|].
  eapply keep_trans; [apply keep_wake_one | apply IH].
Qed.
Lemma keep_update_waiting wr d p : keep d (update_waiting wr d p).
Proof.
  destruct p as [p|]; cbn [update_waiting]; [|apply keep_refl].
  set (d1 := if dn_wsel (node_of d p) then _ else d).
  assert (H1 : keep d d1).
  { unfold d1. destruct (dn_wsel (node_of d p)); [|apply keep_refl].
    set (d0 := set_node d p _).
    assert (H0 : keep d d0) by (apply keep_set_node; reflexivity).
    eapply keep_trans; [exact H0|].
    eapply keep_trans; [apply keep_set_ready | apply keep_set_waiting]. }
  destruct (dn_st (node_of d p)); auto; (eapply keep_trans; [exact H1 | apply keep_wake]).
Qed.
Lemma keep_next_from_torun l : forall d, keep d (snd (next_from_torun d l)).
Proof.
  induction l as [|y r IH]; intros d; cbn [next_from_torun]; [apply keep_set_torun|].
  pose proof (keep_gen_node d None y) as Hg.
  destruct (gen_node d None y) as [g d1]; simpl in Hg.
  destruct g; simpl; try (eapply keep_trans; [exact Hg | apply IH]).
  eapply keep_trans; [exact Hg | apply keep_set_torun].
Qed.

(* runner steps: as [keep] but the trace grows by runner events *)
Record keepr (d d' : dst) : Prop := {
  r_tab : q_tab d' = q_tab d; r_ld : q_ld d' = q_ld d; r_tg : q_tg d' = q_tg d;
  r_rxg : q_rxg d' = q_rxg d; r_grp : q_grp d' = q_grp d;
  r_tr : exists es, q_tr d' = q_tr d ++ es /\ quiet es;
  r_task : forall k, dn_task (node_of d' k) = dn_task (node_of d k) }.
Lemma keep_keepr d d' : keep d d' -> keepr d d'.
Proof. intros []. constructor; auto. exists []. simpl. rewrite app_nil_r. split; [auto | reflexivity]. Qed.
Lemma keepr_trans a b c : keepr a b -> keepr b c -> keepr a c.
Proof.
  intros [] []. constructor; try congruence.
  - destruct r_tr0 as [e1 [H1 Q1]]. destruct r_tr1 as [e2 [H2 Q2]]. exists (e1 ++ e2).
    rewrite H2, H1, app_assoc. split; [reflexivity | apply quiet_app; auto].
Qed.
Lemma keepr_emitq d es : quiet es -> keepr d (emitd d es).
Proof. intro Q. constructor; auto. exists es. split; [reflexivity | exact Q]. Qed.
Lemma keepr_emitd d es : keepr d (emitd d (map Ev es)).
Proof. apply keepr_emitq, quiet_ev. Qed.

(* ---------- install / create_part / load_branch ---------- *)
Lemma tab_get_set_tab d k t x : tab_get (set_tab d k t) x = if N.eqb x k then t else tab_get d x.
Proof. unfold tab_get, set_tab, upd; simpl. destruct (N.eqb x k); reflexivity. Qed.

(* an entry that (still) has a loader has never been replaced *)
Definition tab_shrinks (d d' : dst) : Prop :=
  forall k X, dt_loader (tab_get d' k) = Some X -> tab_get d' k = tab_get d k.
Lemma tab_shrinks_loader d d' k X : tab_shrinks d d' -> dt_loader (tab_get d' k) = Some X -> dt_loader (tab_get d k) = Some X.
Proof. intros H HX. rewrite <- (H k X HX). exact HX. Qed.

Lemma install_spec new : forall d,
  let d' := install d new in
  q_nodes d' = q_nodes d /\ q_ld d' = q_ld d /\ q_tg d' = q_tg d /\ q_rxg d' = q_rxg d /\
  q_grp d' = q_grp d /\ q_tr d' = q_tr d /\ tab_shrinks d d'.
Proof.
  unfold install. induction new as [|[k t] r IH]; intros d; simpl.
  - repeat split; auto.
  - destruct (IH (set_tab d k (finish_new (q_tg d) t))) as (H1 & H2 & H3 & H4 & H5 & H6 & H7).
    repeat split; try (etransitivity; [eassumption|reflexivity]).
    intros x X HX. pose proof (H7 _ _ HX) as E. rewrite E in HX |- *. rewrite tab_get_set_tab in HX |- *.
    destruct (N.eqb x k); [discriminate HX | reflexivity].
Qed.

(* loader objects only ever change their `created` flag, from False to True *)
Definition ld_same (ld ld' : name -> loader) : Prop :=
  forall l, l_basename (ld' l) = l_basename (ld l) /\ l_executed (ld' l) = l_executed (ld l) /\
            l_creator (ld' l) = l_creator (ld l) /\ (l_created (ld l) = true -> l_created (ld' l) = true).
Lemma ld_same_refl ld : ld_same ld ld.
Proof. intro l. auto. Qed.
Lemma ld_same_trans a b c : ld_same a b -> ld_same b c -> ld_same a c.
Proof.
  intros H1 H2 l. destruct (H1 l) as (A1 & A2 & A3 & A4). destruct (H2 l) as (B1 & B2 & B3 & B4).
  repeat split; try congruence. auto.
Qed.
Lemma ld_same_upd_created ld T : ld_same ld (upd ld T (ld_created (ld T))).
Proof. intro l. unfold upd. destruct (N.eqb_spec l T) as [->|]; simpl; auto. Qed.
Lemma ld_same_mark keys d c : ld_same (q_ld d) (q_ld (mark_creator keys d c)).
Proof. intro l. simpl. destruct ((l_creator (q_ld d l) =? c) && referenced keys d l); simpl; auto. Qed.
Lemma referenced_true keys d k l : In k keys -> dt_loader (tab_get d k) = Some l -> referenced keys d l = true.
Proof.
  intros Hk Hl. unfold referenced. apply existsb_exists. exists k. split; auto. rewrite Hl. apply N.eqb_refl.
Qed.

(* the trace after the creation part: unchanged, or one evaluation of the creator of loader T,
   which requires tasks[to_load].loader to be a loader that does not say created *)
Definition tr_step (v : variant) (d : dst) (me T : name) (tr' : list dev) : Prop :=
  tr' = q_tr d \/
  exists T' t, loader_read v d me T = Some T' /\ l_created (q_ld d T') = false /\
               tr' = q_tr d ++ [ECreate (l_creator (q_ld d T)) T t].
(* ... and (HEAD) after an evaluation every loader of that creator that a table entry (still) refers to says created *)
Definition tr_mark (v : variant) (keys : list name) (d : dst) (T : name) (d' : dst) : Prop :=
  q_tr d' = q_tr d \/
  (v = VHead -> forall l k, In k keys -> dt_loader (tab_get d' k) = Some l ->
                            l_creator (q_ld d l) = l_creator (q_ld d T) -> l_created (q_ld d' l) = true).

Lemma create_part_spec v keys creators d me T d2 : create_part v keys creators d me T = Some d2 ->
  q_nodes d2 = q_nodes d /\ ld_same (q_ld d) (q_ld d2) /\ q_rxg d2 = q_rxg d /\ q_grp d2 = q_grp d /\
  tab_shrinks d d2 /\ tr_step v d me T (q_tr d2) /\ tr_mark v keys d T d2.
Proof.
  unfold create_part. intros H.
  destruct (loader_read v d me T) as [T'|] eqn:E1.
  - destruct (l_created (q_ld d T')) eqn:E2.
    + inversion H; subst.
      split; [reflexivity|]. split; [apply ld_same_refl|]. split; [reflexivity|]. split; [reflexivity|].
      split; [intros k X HX; reflexivity|]. split; left; reflexivity.
    + destruct (add_targets _ _) as [tg'|] eqn:E3; [|discriminate].
      inversion H; subst. clear H.
      match goal with |- context [install ?dd ?nn] => destruct (install_spec nn dd) as (H1 & H2 & H3 & H4 & H5 & H6 & H7) end.
      assert (TS : tr_step v d me T (q_tr d ++ [ECreate (l_creator (q_ld d T)) T (to_load_of d me T)])).
      { right. exists T', (to_load_of d me T). auto. }
      match goal with |- context [install ?dd ?nn] => set (d2 := install dd nn) in * end.
      assert (Marked : let dm := mark_creator keys d2 (l_creator (q_ld d T)) in
                q_nodes dm = q_nodes d /\ ld_same (q_ld d) (q_ld dm) /\ q_rxg dm = q_rxg d /\ q_grp dm = q_grp d /\
                tab_shrinks d dm /\ tr_step v d me T (q_tr dm) /\ tr_mark v keys d T dm).
      { split; [exact H1|]. split.
        { simpl. rewrite H2. intro l. simpl.
          destruct ((l_creator (q_ld d l) =? l_creator (q_ld d T)) && referenced keys d2 l); simpl; auto. }
        split; [exact H4|]. split; [exact H5|]. split; [exact H7|]. split; [simpl; rewrite H6; exact TS|].
        right. intros _ l k Hk Hl Hc. simpl. rewrite H2. simpl.
        apply N.eqb_eq in Hc. rewrite Hc. rewrite (referenced_true keys d2 k l Hk Hl). reflexivity. }
      destruct v; try exact Marked.
      split; [exact H1|]. split; [rewrite H2; apply ld_same_refl|]. split; [exact H4|]. split; [exact H5|].
      split; [exact H7|]. split; [rewrite H6; exact TS|]. right. discriminate.
  - inversion H; subst.
    split; [reflexivity|]. split; [apply ld_same_refl|]. split; [reflexivity|]. split; [reflexivity|].
    split; [intros k X HX; reflexivity|]. split; left; reflexivity.
Qed.

Lemma create_part_none v keys creators d me T : create_part v keys creators d me T = None ->
  exists T', loader_read v d me T = Some T' /\ l_created (q_ld d T') = false.
Proof.
  unfold create_part. intros H.
  destruct (loader_read v d me T) as [T'|] eqn:E1; [|discriminate].
  destruct (l_created (q_ld d T')) eqn:E2; [discriminate|]. exists T'. auto.
Qed.

(* what a successful pass through the loader branch does *)
Record reset_spec (v : variant) (keys : list name) (d : dst) (me T : name) (d' rs_d5 : dst) : Prop := {
  rs_eq : d' = set_node rs_d5 me (nd_reset (node_of rs_d5 me) (tab_get rs_d5 me));
  rs_nodes : q_nodes rs_d5 = q_nodes d;
  rs_rxg : q_rxg rs_d5 = q_rxg d;
  rs_ld : ld_same (q_ld d) (q_ld rs_d5);
  rs_T : l_created (q_ld rs_d5 T) = true;
  rs_tab : tab_shrinks d rs_d5;
  rs_me : dt_loader (tab_get rs_d5 me) = None;
  rs_tr : tr_step v d me T (q_tr rs_d5);
  rs_mark : tr_mark v keys d T rs_d5 }.

Lemma load_branch_reset v keys creators d me T d' :
  load_branch v keys creators d me T = LReset d' -> exists d5, reset_spec v keys d me T d' d5.
Proof.
  unfold load_branch. intros H.
  destruct (create_part v keys creators d me T) as [d2|] eqn:Ec; [|discriminate].
  destruct (create_part_spec _ _ _ _ _ _ _ Ec) as (N2 & L2 & X2 & G2 & S2 & T2 & M2).
  (* common tail once the regex-group part produced (d3, fdep) *)
  assert (Tail : forall d3 fdep deps1,
    q_nodes d3 = q_nodes d2 -> q_ld d3 = q_ld d2 -> q_rxg d3 = q_rxg d2 -> q_tab d3 = q_tab d2 -> q_tr d3 = q_tr d2 ->
    let d4 := set_ld d3 T (ld_created (q_ld d3 T)) in
    let this' := dt_with (dn_task (node_of d2 me)) deps1 fdep None in
    let d5 := match dt_loader (tab_get d4 me) with Some _ => set_tab d4 me this' | None => d4 end in
    exists d5', reset_spec v keys d me T (set_node d5 me (nd_reset (node_of d5 me) (tab_get d5 me))) d5').
  { intros d3 fdep deps1 N3 L3 X3 B3 R3 d4 this' d5.
    assert (S4 : tab_shrinks d d4).
    { intros k X HX. assert (E : tab_get d4 k = tab_get d2 k) by (unfold tab_get; simpl; rewrite B3; reflexivity).
      rewrite E in HX |- *. eapply S2; eauto. }
    assert (Hq : q_ld d5 = upd (q_ld d2) T (ld_created (q_ld d2 T))).
    { unfold d5. destruct (dt_loader (tab_get d4 me)); simpl; rewrite L3; reflexivity. }
    assert (Hr : q_tr d5 = q_tr d2).
    { unfold d5. destruct (dt_loader (tab_get d4 me)); simpl; rewrite R3; reflexivity. }
    exists d5. constructor; auto.
    - unfold d5. destruct (dt_loader (tab_get d4 me)); simpl; congruence.
    - unfold d5. destruct (dt_loader (tab_get d4 me)); simpl; congruence.
    - rewrite Hq. eapply ld_same_trans; [exact L2 | apply ld_same_upd_created].
    - rewrite Hq. rewrite upd_same. reflexivity.
    - unfold d5. destruct (dt_loader (tab_get d4 me)) eqn:E; auto.
      intros k X HX. rewrite tab_get_set_tab in HX |- *. destruct (N.eqb k me); [discriminate HX | eauto].
    - unfold d5. destruct (dt_loader (tab_get d4 me)) eqn:E; auto.
      rewrite tab_get_set_tab, N.eqb_refl. reflexivity.
    - rewrite Hr. exact T2.
    - destruct M2 as [M2|M2]; [left; rewrite Hr; exact M2|]. right. intros Hl l k Hk Hkl Hc.
      rewrite Hq. destruct (ld_same_upd_created (q_ld d2) T l) as (_ & _ & _ & Hm). apply Hm. apply (M2 Hl l k); auto.
      (* an entry of d5 that has a loader is an entry of d2 *)
      assert (E4 : forall x, tab_get d4 x = tab_get d2 x) by (intro x; unfold tab_get; simpl; rewrite B3; reflexivity).
      unfold d5 in Hkl. destruct (dt_loader (tab_get d4 me)) eqn:E.
      + rewrite tab_get_set_tab in Hkl. destruct (N.eqb k me); [discriminate Hkl|]. rewrite E4 in Hkl. exact Hkl.
      + rewrite E4 in Hkl. exact Hkl. }
  destruct (q_rxg d2 me) as [g|] eqn:Eg.
  - destruct (q_tg d2 (g_target (q_grp d2 g))) eqn:Et.
    + inversion H; subst. apply (Tail (set_grp d2 g _)); reflexivity.
    + destruct (l_basename (q_ld d2 T)) as [b|]; [|discriminate].
      destruct (mem b (g_tasks (q_grp d2 g))); [|discriminate].
      destruct (is_nil (rem b (g_tasks (q_grp d2 g)))); [discriminate|].
      inversion H; subst. apply (Tail (set_grp d2 g _)); reflexivity.
  - inversion H; subst. apply (Tail d2); reflexivity.
Qed.

(* the trace after an unsuccessful pass *)
Lemma load_branch_error v keys creators d me T :
  match load_branch v keys creators d me T with
  | LReset _ => True
  | LInvalidTask d' | LNotFound _ d' | LKeyError d' => tr_step v d me T (q_tr d')
  end.
Proof.
  unfold load_branch.
  destruct (create_part v keys creators d me T) as [d2|] eqn:Ec.
  - destruct (create_part_spec _ _ _ _ _ _ _ Ec) as (N2 & L2 & X2 & G2 & S2 & T2 & M2).
    destruct (q_rxg d2 me) as [g|]; auto.
    destruct (q_tg d2 (g_target (q_grp d2 g))); auto.
    destruct (l_basename (q_ld d2 T)) as [b|]; auto.
    destruct (mem b (g_tasks (q_grp d2 g))); auto.
    destruct (is_nil (rem b (g_tasks (q_grp d2 g)))); auto.
  - destruct (create_part_none _ _ _ _ _ _ Ec) as (T' & H1 & H2).
    right. exists T', (to_load_of d me T). auto.
Qed.

(* ====================================================================================== *)
(* C15 part 1: a creator is evaluated at most once per run (repaired code)                 *)
(* ====================================================================================== *)
Section Once.
Variable keys : list name.
Variable creators : N -> name -> list (name * dtask).
Variable wake_rank : name -> name -> N.
Variable calc_rank : name -> N.
Variable bn : name -> option name.       (* loader.basename as _filter_tasks left it: constant during the run *)
Variable cr : name -> N.                 (* loader.creator: constant *)

Notation gen_step := (gen_step VHead keys creators calc_rank).
Notation disp_run := (disp_run VHead keys creators calc_rank).
Notation disp_send := (disp_send VHead keys creators wake_rank calc_rank).
Notation load_branch := (load_branch VHead keys creators).

Definition tl (me T : name) : name := match bn T with Some b => b | None => me end.

Record inv1 (d : dst) : Prop := {
  i_bn : forall T, l_basename (q_ld d T) = bn T;
  i_c : forall T, l_creator (q_ld d T) = cr T;
  (* tasks[to_load].loader is the loader object of the task being processed, or already DelayedLoaded *)
  i_wf : forall k T T', nl d k = Some T -> dt_loader (tab_get d (tl k T)) = Some T' -> T' = T;
  (* [keys] covers every table entry that has a loader *)
  i_keys : forall k T, dt_loader (tab_get d k) = Some T -> In k keys;
  (* the creator of a loader object that some table entry still refers to and that does not say created has not run;
     (the copy held only by a stale placeholder node may say False although its creator ran: its flag is not read) *)
  i_cr : forall l k, dt_loader (tab_get d k) = Some l -> l_created (q_ld d l) = false -> n_create (cr l) (q_tr d) = 0%nat;
  i_n : forall c, (n_create c (q_tr d) <= 1)%nat }.
Definition weak1 (d : dst) : Prop := forall c, (n_create c (q_tr d) <= 1)%nat.

Lemma tab_get_eq d d' x : q_tab d' = q_tab d -> tab_get d' x = tab_get d x.
Proof. unfold tab_get. intros ->. reflexivity. Qed.

Lemma inv1_keepr d d' : keepr d d' -> inv1 d -> inv1 d'.
Proof.
  intros [] []. destruct r_tr0 as [es [Hes Q]].
  constructor.
  - intro T. rewrite r_ld0. auto.
  - intro T. rewrite r_ld0. auto.
  - intros k T T' H1 H2. unfold nl in H1. rewrite r_task0 in H1.
    rewrite (tab_get_eq d d') in H2 by auto. eapply i_wf0; eauto.
  - intros k T H. rewrite (tab_get_eq d d') in H by auto. eapply i_keys0; eauto.
  - intros l k Hk H. rewrite r_ld0 in H. rewrite (tab_get_eq d d') in Hk by auto.
    rewrite Hes, n_create_app, (n_create_quiet _ _ Q), (i_cr0 l k); auto.
  - intro l. rewrite Hes, n_create_app, (n_create_quiet _ _ Q). specialize (i_n0 l). lia.
Qed.
Lemma inv1_keep d d' : keep d d' -> inv1 d -> inv1 d'.
Proof. intro H. apply inv1_keepr. apply keep_keepr. exact H. Qed.
Lemma inv1_weak d : inv1 d -> weak1 d.
Proof. intros []. exact i_n0. Qed.

Lemma to_load_tl d me T : inv1 d -> to_load_of d me T = tl me T.
Proof. intros []. unfold to_load_of, tl. rewrite i_bn0. reflexivity. Qed.

Lemma n_create_one c c0 T t : n_create c [ECreate c0 T t] = if N.eqb c0 c then 1%nat else 0%nat.
Proof. unfold n_create. simpl. destruct (N.eqb c0 c); reflexivity. Qed.

Lemma tr_step_weak d me T tr' : inv1 d -> nl d me = Some T -> tr_step VHead d me T tr' ->
  forall c, (n_create c tr' <= 1)%nat.
Proof.
  intros I Hnl [->|(T' & t & H1 & H2 & ->)] c; [apply (i_n _ I)|].
  unfold loader_read in H1.
  rewrite (to_load_tl _ _ _ I) in H1. pose proof (i_wf _ I _ _ _ Hnl H1) as ->.
  rewrite n_create_app, n_create_one, (i_c _ I). destruct (N.eqb_spec (cr T) c) as [<-|].
  - rewrite (i_cr _ I T _ H1 H2). lia.
  - pose proof (i_n _ I c). lia.
Qed.

Lemma nl_after_shrink d d5 k X :
  q_nodes d5 = q_nodes d -> tab_shrinks d d5 -> nl d5 k = Some X -> nl d k = Some X.
Proof.
  unfold nl, node_of. intros Hn Hs. rewrite Hn. destruct (q_nodes d k); auto.
  simpl. apply tab_shrinks_loader. exact Hs.
Qed.

Lemma inv1_reset d me T d' : inv1 d -> nl d me = Some T ->
  load_branch d me T = LReset d' -> inv1 d'.
Proof.
  intros I Hnl H. destruct (load_branch_reset _ _ _ _ _ _ _ H) as [d5 []].
  assert (Hnl' : forall k X, nl d' k = Some X -> k <> me /\ nl d k = Some X).
  { intros k X HX. subst d'. unfold nl in HX. rewrite node_of_set_node in HX.
    destruct (N.eqb_spec k me) as [->|Hne].
    - simpl in HX. congruence.
    - split; auto. eapply nl_after_shrink; eauto. }
  assert (Htab : forall x, tab_get d' x = tab_get d5 x) by (intro x; subst d'; reflexivity).
  assert (Hld : q_ld d' = q_ld d5) by (subst d'; reflexivity).
  assert (Htr : q_tr d' = q_tr d5) by (subst d'; reflexivity).
  constructor.
  - intro l. rewrite Hld. destruct (rs_ld0 l) as (-> & _). apply (i_bn _ I).
  - intro l. rewrite Hld. destruct (rs_ld0 l) as (_ & _ & -> & _). apply (i_c _ I).
  - intros k X T' H1 H2. apply Hnl' in H1. destruct H1 as [_ H1].
    rewrite Htab in H2. apply (tab_shrinks_loader _ _ _ _ rs_tab0) in H2. eapply (i_wf _ I); eauto.
  - intros k X HX. rewrite Htab in HX. apply (tab_shrinks_loader _ _ _ _ rs_tab0) in HX. eapply (i_keys _ I); eauto.
  - intros l k Hk Hc. rewrite Hld in Hc. destruct (rs_ld0 l) as (_ & _ & _ & Hm).
    assert (Hc0 : l_created (q_ld d l) = false).
    { destruct (l_created (q_ld d l)); auto. rewrite Hm in Hc; auto. }
    rewrite Htab in Hk. pose proof (tab_shrinks_loader _ _ _ _ rs_tab0 Hk) as Hk0.
    rewrite Htr. destruct rs_tr0 as [E|(T' & t & H1 & H2 & E)]; rewrite E; [apply (i_cr _ I l k); auto|].
    rewrite n_create_app, n_create_one, (i_cr _ I l k Hk0 Hc0), (i_c _ I).
    destruct (N.eqb_spec (cr T) (cr l)) as [Heq|]; [|reflexivity].
    exfalso. destruct rs_mark0 as [M|M].
    + rewrite E in M. apply (f_equal (@length dev)) in M. rewrite app_length in M. simpl in M. lia.
    + rewrite (M eq_refl l k) in Hc; [discriminate| |exact Hk|].
      * eapply (i_keys _ I); eauto.
      * rewrite !(i_c _ I). auto.
  - rewrite Htr. eapply tr_step_weak; eauto.
Qed.

Definition y_ok (y : gyield) : bool :=
  match y with YInvalidTask | YNotFound _ | YKeyError => false | _ => true end.

Lemma gen_step_inv1 fuel : forall d me, inv1 d ->
  weak1 (snd (gen_step fuel d me)) /\
  (y_ok (fst (gen_step fuel d me)) = true -> inv1 (snd (gen_step fuel d me))).
Proof.
  induction fuel as [|fuel IH]; intros d me I; cbn [Delayed.gen_step].
  { simpl. split; auto. apply inv1_weak; auto. }
  assert (K : forall d1, keep d d1 -> inv1 d1) by (intros d1 H; eapply inv1_keep; eauto).
  assert (Stop : forall (y : gyield) d1, inv1 d1 -> weak1 (snd (y, d1)) /\ (y_ok (fst (y, d1)) = true -> inv1 (snd (y, d1))))
    by (intros y d1 H; simpl; split; auto; apply inv1_weak; auto).
  assert (GN : forall c d1 g, gen_node d (Some (dn_anc (node_of d me))) c = (g, d1) -> keep d d1).
  { intros c d1 g E. change d1 with (snd (g, d1)). rewrite <- E. apply keep_gen_node. }
  destruct (dn_pc (node_of d me)) as [| |rest calcs tks|rest tks| | | |rest| |] eqn:Epc.
  - (* QStart *)
    match goal with |- context [if ?c then _ else _] => destruct c end.
    + apply Stop. apply K. apply keep_set_pc.
    + apply IH. apply K. apply keep_set_pc.
  - (* QLoop *) apply IH. apply K. apply keep_set_node. reflexivity.
  - (* QCalc *)
    destruct rest as [|c r].
    + apply IH. apply K. eapply keep_trans; [apply keep_add_wait_run | apply keep_set_pc].
    + destruct (gen_node d (Some (dn_anc (node_of d me))) c) as [g d1] eqn:Eg.
      pose proof (GN _ _ _ Eg) as Hk.
      destruct g.
      * apply Stop. apply K. eapply keep_trans; [exact Hk | apply keep_set_pc].
      * apply IH. apply K. eapply keep_trans; [exact Hk | apply keep_set_pc].
      * apply Stop. auto.
  - (* QTask *)
    destruct rest as [|c r].
    + set (d1 := add_wait_run d me tks false).
      assert (I1 : inv1 d1) by (apply K; apply keep_add_wait_run).
      destruct (negb (is_nil (dn_pcl (node_of d1 me))) || negb (is_nil (dn_pt (node_of d1 me)))).
      * apply IH. eapply inv1_keep; [apply keep_set_pc | exact I1].
      * destruct (negb (is_nil (dn_wrun (node_of d1 me))) || negb (is_nil (dn_wcalc (node_of d1 me)))).
        -- apply Stop. eapply inv1_keep; [apply keep_set_pc | exact I1].
        -- destruct (dt_loader (dn_task (node_of d1 me))) as [T|] eqn:El.
           ++ pose proof (load_branch_error VHead keys creators d1 me T) as He.
              destruct (load_branch d1 me T) as [d2|d2|f d2|d2] eqn:Elb.
              ** apply IH. eapply inv1_reset; eauto.
              ** simpl. split; [|discriminate]. intro l. eapply tr_step_weak; eauto.
              ** simpl. split; [|discriminate]. intro l. eapply tr_step_weak; eauto.
              ** simpl. split; [|discriminate]. intro l. eapply tr_step_weak; eauto.
           ++ apply IH. eapply inv1_keep; [apply keep_set_pc | exact I1].
    + destruct (gen_node d (Some (dn_anc (node_of d me))) c) as [g d1] eqn:Eg.
      pose proof (GN _ _ _ Eg) as Hk.
      destruct g.
      * apply Stop. apply K. eapply keep_trans; [exact Hk | apply keep_set_pc].
      * apply IH. apply K. eapply keep_trans; [exact Hk | apply keep_set_pc].
      * apply Stop. auto.
  - (* QSelf *) apply Stop. apply K. apply keep_set_pc.
  - (* QAfterSelf *)
    destruct (is_nil (t_setup (dt (dn_task (node_of d me))))).
    + apply Stop. apply K. apply keep_set_pc.
    + destruct (dn_st (node_of d me)); try (apply IH; apply K; apply keep_set_pc).
      apply Stop. apply K. apply keep_set_node. reflexivity.
  - (* QAfterSelWait *)
    destruct (dn_st (node_of d me)); try (apply Stop; apply K; apply keep_set_pc).
    apply IH. apply K. apply keep_set_pc.
  - (* QSetup *)
    destruct rest as [|c r].
    + set (d1 := add_wait_run d me _ false).
      assert (I1 : inv1 d1) by (apply K; apply keep_add_wait_run).
      destruct (is_nil (dn_wrun (node_of d1 me))); apply Stop; (eapply inv1_keep; [apply keep_set_pc | exact I1]).
    + destruct (gen_node d (Some (dn_anc (node_of d me))) c) as [g d1] eqn:Eg.
      pose proof (GN _ _ _ Eg) as Hk.
      destruct g.
      * apply Stop. apply K. eapply keep_trans; [exact Hk | apply keep_set_pc].
      * apply IH. apply K. eapply keep_trans; [exact Hk | apply keep_set_pc].
      * apply Stop. auto.
  - (* QSetupWaited *) apply Stop. apply K. apply keep_set_pc.
  - (* QDone *) apply Stop. auto.
Qed.

Definition dy_ok (y : dyield) : bool :=
  match y with DInvalidTask | DNotFound _ | DKeyError => false | _ => true end.

Lemma disp_run_inv1 fuel : forall d, inv1 d ->
  weak1 (snd (disp_run fuel d)) /\ (dy_ok (fst (disp_run fuel d)) = true -> inv1 (snd (disp_run fuel d))).
Proof.
  induction fuel as [|fuel IH]; intros d I; cbn [Delayed.disp_run].
  { simpl. split; auto. apply inv1_weak; auto. }
  assert (K : forall d1, keep d d1 -> inv1 d1) by (intros d1 H; eapply inv1_keep; eauto).
  destruct (q_cur d) as [me|].
  - pose proof (gen_step_inv1 (S (S fuel)) d me I) as [W G].
    destruct (gen_step (S (S fuel)) d me) as [y d1]. simpl in W, G.
    destruct y; simpl; try (split; [exact W | auto; discriminate]);
      try (apply IH; eapply inv1_keep; [|apply G; reflexivity]).
    + apply keep_set_ready.
    + eapply keep_trans; [apply keep_set_waiting | apply keep_set_cur].
    + apply keep_set_cur.
  - destruct (q_ready d) as [|x r].
    + pose proof (keep_next_from_torun (q_torun d) d) as Hk.
      destruct (next_from_torun d (q_torun d)) as [o d1]. simpl in Hk.
      destruct o.
      * apply IH. apply K. eapply keep_trans; [exact Hk | apply keep_set_cur].
      * destruct (is_nil (q_waiting d1)); simpl; (split; [apply inv1_weak|intros _]; apply K; exact Hk).
    + apply IH. apply K. eapply keep_trans; [apply keep_set_ready | apply keep_set_cur].
Qed.

Lemma disp_send_inv1 fuel d p : inv1 d ->
  weak1 (snd (disp_send fuel d p)) /\ (dy_ok (fst (disp_send fuel d p)) = true -> inv1 (snd (disp_send fuel d p))).
Proof.
  intro I. unfold Delayed.disp_send. apply disp_run_inv1. eapply inv1_keep; [apply keep_update_waiting | exact I].
Qed.
End Once.

(* ---------- runner steps only add runner events ---------- *)
Section RunnerSteps.
Variable continue_ always : bool.
Notation select_task := (select_task continue_ always).
Notation handle_error := (handle_error continue_).
Notation process_result := (process_result continue_).
Notation get_args := (get_args continue_).

Lemma keep_set_status d k s : keep d (set_status d k s).
Proof. unfold set_status. apply keep_set_node. reflexivity. Qed.
Lemma keepr_emit r es : keepr (r_d r) (r_d (emit r es)).
Proof. unfold emit; simpl. apply keepr_emitd. Qed.
Lemma keepr_handle_error_gen st r k kind : keepr (r_d r) (r_d (handle_error_gen continue_ st r k kind)).
Proof.
  unfold Delayed.handle_error_gen; simpl.
  eapply keepr_trans; [apply keep_keepr; apply keep_set_status|].
  apply (keepr_emitd _ [ERemove k; EFailure k kind]).
Qed.
Lemma keepr_handle_error r k kind : keepr (r_d r) (r_d (handle_error r k kind)).
Proof. apply keepr_handle_error_gen. Qed.
Lemma keepr_refl d : keepr d d.
Proof. apply keep_keepr, keep_refl. Qed.
Lemma keepr_get_args r k : keepr (r_d r) (r_d (snd (get_args r k))).
Proof.
  unfold Delayed.get_args. destruct (t_argerr _); cbn [snd]; [apply keepr_handle_error | apply keepr_refl].
Qed.
Lemma keepr_status_emit r k s es :
  keepr (r_d r) (r_d (emit (with_d r (set_status (r_d r) k s)) es)).
Proof.
  eapply keepr_trans; [apply keep_keepr; apply (keep_set_status (r_d r) k s)|].
  apply (keepr_emit (with_d r (set_status (r_d r) k s)) es).
Qed.
Lemma keepr_status_args r k s :
  keepr (r_d r) (r_d (snd (get_args (with_d r (set_status (r_d r) k s)) k))).
Proof.
  eapply keepr_trans; [apply keep_keepr; apply (keep_set_status (r_d r) k s)|].
  apply (keepr_get_args (with_d r (set_status (r_d r) k s)) k).
Qed.

Lemma keepr_select_task r k : keepr (r_d r) (r_d (snd (select_task r k))).
Proof.
  unfold Delayed.select_task.
  assert (Second : keepr (r_d r) (r_d (snd
     (if negb (is_nil (dn_ign (node_of (r_d r) k)))
      then (false, emit (with_d r (set_status (r_d r) k SIgnore)) [ESkipIgnore k])
      else if negb (is_nil (dn_bad (node_of (r_d r) k))) then (false, handle_error r k kind_unmet)
      else get_args r k)))).
  { destruct (negb (is_nil (dn_ign _))); cbn [snd]; [apply keepr_status_emit|].
    destruct (negb (is_nil (dn_bad _))); cbn [snd]; [apply keepr_handle_error | apply keepr_get_args]. }
  destruct (dn_st (node_of (r_d r) k)) eqn:Est; try exact Second.
  set (r1 := emit r [EGetStatus k]).
  assert (H1 : keepr (r_d r) (r_d r1)) by apply keepr_emit.
  eapply keepr_trans; [exact H1|].
  change (dn_ign (node_of (r_d r) k)) with (dn_ign (node_of (r_d r) k)).
  destruct (negb (is_nil (dn_ign _)) || t_dbignore _); cbn [snd]; [apply keepr_status_emit|].
  destruct (negb (is_nil (dn_bad _))); cbn [snd]; [apply keepr_handle_error|].
  destruct (t_check (task_of r k)); cbn [snd].
  - destruct always; (destruct (is_nil (t_setup (task_of r k))); cbn [snd];
      [apply keepr_status_args | apply keep_keepr; apply keep_set_status]).
  - destruct always; cbn [snd].
    + destruct (is_nil (t_setup (task_of r k))); cbn [snd];
        [apply keepr_status_args | apply keep_keepr; apply keep_set_status].
    + apply keepr_status_emit.
  - apply keepr_handle_error.
Qed.

Lemma keepr_start_task r k : keepr (r_d r) (r_d (start_task r k)).
Proof. unfold start_task; simpl. apply (keepr_emitd _ [EExecute k]). Qed.
Lemma keepr_process_result r k : keepr (r_d r) (r_d (process_result r k)).
Proof.
  unfold Delayed.process_result. destruct (t_outcome (task_of r k));
    try apply keepr_handle_error; try apply keepr_handle_error_gen; [apply keepr_status_emit | apply keepr_refl].
Qed.
Lemma keepr_finish r : keepr (r_d r) (r_d (finish r)).
Proof. unfold finish. apply keepr_emit. Qed.
End RunnerSteps.

Lemma quiet_op c a : quiet [EOp c a].
Proof. reflexivity. Qed.
Lemma keepr_emitr r es : quiet es -> keepr (r_d r) (r_d (emitr r es)).
Proof. intro Q. unfold emitr. cbn [r_d with_d]. apply keepr_emitq. exact Q. Qed.

Section OnceRun.
Variable keys : list name.
Variable creators : N -> name -> list (name * dtask).
Variable wake_rank : name -> name -> N.
Variable calc_rank : name -> N.
Variable bn : name -> option name.
Variable cr : name -> N.
Variable continue_ always : bool.
Notation serial := (serial VHead keys creators wake_rank calc_rank continue_ always).
Notation run_op := (run_op VHead keys creators wake_rank calc_rank continue_ always).
Notation step_op := (step_op VHead keys creators wake_rank calc_rank continue_ always).
Notation inv1 := (inv1 keys bn cr).

Lemma weak1_keepr d d' : keepr d d' -> weak1 d -> weak1 d'.
Proof.
  intros [] W l. destruct r_tr0 as [es [-> Q]]. rewrite n_create_app, (n_create_quiet _ _ Q). specialize (W l). lia.
Qed.

Lemma serial_weak1 fuel : forall r last, inv1 (r_d r) -> weak1 (r_d (fst (serial fuel r last))).
Proof.
  induction fuel as [|fuel IH]; intros r last I; cbn [Delayed.serial].
  { simpl. eapply inv1_weak; eauto. }
  destruct (r_stop r).
  { simpl. eapply weak1_keepr; [apply keepr_finish | eapply inv1_weak; eauto]. }
  pose proof (disp_send_inv1 keys creators wake_rank calc_rank bn cr (S fuel) (r_d r) last I) as [W G].
  destruct (disp_send VHead keys creators wake_rank calc_rank (S fuel) (r_d r) last) as [y d]. simpl in W, G.
  destruct y; cbn [fst];
    try (eapply weak1_keepr; [apply (keepr_finish (with_d r d)) | exact W]).
  - (* DTask *)
    specialize (G eq_refl).
    pose proof (keepr_select_task continue_ always (with_d r d) k) as Hs.
    destruct (select_task continue_ always (with_d r d) k) as [[|] r1]; simpl in Hs.
    + assert (I1 : inv1 (r_d r1)) by (eapply inv1_keepr; eauto).
      assert (I2 : inv1 (r_d (start_task r1 k))) by (eapply inv1_keepr; [apply keepr_start_task | exact I1]).
      destruct (is_interrupt (start_task r1 k) k); cbn [fst].
      * eapply weak1_keepr; [apply keepr_finish | eapply inv1_weak; exact I2].
      * apply IH. eapply inv1_keepr; [apply keepr_process_result | exact I2].
    + apply IH. eapply inv1_keepr; eauto.
  - (* DInvalidTask *)
    eapply weak1_keepr; [apply (keepr_finish (with_d r (emitd d [ERuntimeError])))|].
    intro l. specialize (W l). cbn [r_d with_d emitd q_tr]. rewrite n_create_app.
    unfold n_create at 2. simpl. lia.
  - exact W.
Qed.

(* the statement used by Properties/C15.v *)
Theorem creator_once fuel d0 c :
  inv1 d0 -> (n_create c (fst (run_serial VHead keys creators wake_rank calc_rank continue_ always fuel d0)) <= 1)%nat.
Proof.
  intro I. unfold run_serial.
  pose proof (serial_weak1 fuel (r_init d0) None I c) as W.
  destruct (Delayed.serial VHead keys creators wake_rank calc_rank continue_ always fuel (r_init d0) None) as [r s].
  simpl in *. rewrite n_create_app.
  assert (n_create c (stop_marker s) = 0%nat) by (destruct s; reflexivity). lia.
Qed.

(* ---- the same for every script of runner calls (any runner, any schedule) ---- *)
Lemma run_op_inv1 fuel r o : inv1 (r_d r) ->
  weak1 (r_d (fst (run_op fuel r o))) /\ (live (snd (run_op fuel r o)) = true -> inv1 (r_d (fst (run_op fuel r o)))).
Proof.
  intro I.
  assert (Both : forall r1 s1, inv1 (r_d r1) -> weak1 (r_d (fst (r1, s1))) /\ (live (snd (r1, s1)) = true -> inv1 (r_d (fst (r1, s1)))))
    by (intros r1 s1 H; simpl; split; auto; eapply inv1_weak; eauto).
  destruct o; cbn [Delayed.run_op].
  - (* OSend *)
    set (r0 := emitr r _).
    assert (I0 : inv1 (r_d r0)) by (eapply inv1_keepr; [apply keepr_emitr, quiet_op | exact I]).
    destruct (sent_ok (r_d r) p).
    + pose proof (disp_send_inv1 keys creators wake_rank calc_rank bn cr fuel (r_d r0) p I0) as [W G].
      destruct (disp_send VHead keys creators wake_rank calc_rank fuel (r_d r0) p) as [y d]. simpl in W, G.
      destruct y;
        try (apply Both; eapply inv1_keepr; [apply (keepr_emitr (with_d r0 d)), quiet_op | apply G; reflexivity]);
        cbn [fst snd live];
        try (split; [exact W | discriminate]).
      split; [|discriminate]. cbn [r_d with_d]. eapply weak1_keepr; [apply keepr_emitq | exact W]. reflexivity.
    + split; [eapply inv1_weak; exact I0 | discriminate].
  - (* OSelect *)
    set (r0 := emitr r _).
    assert (I0 : inv1 (r_d r0)) by (eapply inv1_keepr; [apply keepr_emitr, quiet_op | exact I]).
    pose proof (keepr_select_task continue_ always r0 k) as Hs.
    destruct (select_task continue_ always r0 k) as [b r1]. simpl in Hs.
    apply Both. eapply inv1_keepr; [apply keepr_emitr, quiet_op|]. eapply inv1_keepr; eauto.
  - (* OExec *) apply Both. eapply inv1_keepr; [apply keepr_start_task | exact I].
  - (* OResult *)
    apply Both. eapply inv1_keepr; [apply keepr_process_result|].
    eapply inv1_keepr; [apply keepr_emitr, quiet_op | exact I].
  - (* OHoldErr *) split; [eapply inv1_weak; exact I | discriminate].
  - (* OFinish *)
    apply Both. eapply inv1_keepr; [apply keepr_finish|].
    eapply inv1_keepr; [apply keepr_emitr, quiet_op | exact I].
Qed.

Lemma keepr_run_op_finish fuel r : keepr (r_d r) (r_d (fst (run_op fuel r OFinish))).
Proof.
  cbn [Delayed.run_op fst]. eapply keepr_trans; [apply keepr_emitr, quiet_op | apply keepr_finish].
Qed.

Definition sP (rs : rstate * option stop) : Prop :=
  weak1 (r_d (fst rs)) /\ (live (snd rs) = true -> inv1 (r_d (fst rs))).

Lemma step_op_sP fuel rs o : sP rs -> sP (step_op fuel rs o).
Proof.
  destruct rs as [r s]. intros [W I]. cbn [fst snd] in W, I. unfold Delayed.step_op.
  destruct (live s) eqn:El.
  - specialize (I eq_refl).
    assert (Run : sP (let '(r1, s1) := run_op fuel r o in (r1, merge_stop s s1))).
    { pose proof (run_op_inv1 fuel r o I) as [W1 I1].
      destruct (run_op fuel r o) as [r1 s1]. cbn [fst snd] in *. split; cbn [fst snd]; auto.
      intro Hl. apply I1. destruct s1; auto. }
    destruct s as [x|]; [|exact Run].
    destruct o; try exact Run.
    split; cbn [fst snd].
    + eapply weak1_keepr; [apply keepr_emitr; reflexivity | exact W].
    + intros _. eapply inv1_keepr; [apply keepr_emitr; reflexivity | exact I].
  - destruct o; try (split; cbn [fst snd]; [exact W | rewrite El; discriminate]).
    split; cbn [fst snd]; [|rewrite El; discriminate].
    eapply weak1_keepr; [apply keepr_run_op_finish | exact W].
Qed.

Lemma run_ops_sP fuel ops : forall rs, sP rs -> sP (fold_left (step_op fuel) ops rs).
Proof.
  induction ops as [|o ops IH]; intros rs H; simpl; auto. apply IH. apply step_op_sP. exact H.
Qed.

Theorem creator_once_script fuel ops d0 c :
  inv1 d0 -> (n_create c (fst (run_script VHead keys creators wake_rank calc_rank continue_ always fuel ops d0)) <= 1)%nat.
Proof.
  intro I. unfold run_script, run_ops.
  assert (H0 : sP (r_init d0, None)) by (split; cbn [fst snd r_init r_d]; [eapply inv1_weak; exact I | intros _; exact I]).
  pose proof (run_ops_sP fuel ops _ H0) as [W _].
  destruct (fold_left (step_op fuel) ops (r_init d0, None)) as [r s]. cbn [fst snd] in *.
  rewrite n_create_app.
  assert (n_create c (stop_marker (stop_of s)) = 0%nat) by (destruct s as [[]|]; reflexivity).
  specialize (W c). lia.
Qed.
End OnceRun.

(* ---------- initial states (what TaskControl.process leaves) ---------- *)
Record init_ok (d : dst) : Prop := {
  io_nodes : forall k, q_nodes d k = None;
  io_tr : q_tr d = [];
  (* _filter_tasks sets loader.basename only to the name of a task that carries this loader object *)
  io_bn : forall T b, l_basename (q_ld d T) = Some b -> dt_loader (tab_get d b) = Some T;
  (* Task.__init__: loader.task_dep is a task_dep of every task carrying the loader *)
  io_ex : forall k T e, dt_loader (tab_get d k) = Some T -> l_executed (q_ld d T) = Some e ->
                        In e (t_task_dep (dt (tab_get d k))) }.

Lemma nl_init d k : (forall k, q_nodes d k = None) -> nl d k = dt_loader (tab_get d k).
Proof. intro H. unfold nl, node_of. rewrite H. reflexivity. Qed.

(* [keys] (the enumeration of the task table used by the marking loop 497-499) covers every entry with a loader *)
Definition keys_ok (keys : list name) (d : dst) : Prop := forall k T, dt_loader (tab_get d k) = Some T -> In k keys.

Lemma init_inv1 keys d : init_ok d -> keys_ok keys d ->
  inv1 keys (fun T => l_basename (q_ld d T)) (fun T => l_creator (q_ld d T)) d.
Proof.
  intros [] HK. constructor; auto.
  - intros k T T' H1 H2. rewrite nl_init in H1 by auto. unfold tl in H2.
    destruct (l_basename (q_ld d T)) as [b|] eqn:E.
    + apply io_bn0 in E. congruence.
    + congruence.
  - intros. rewrite io_tr0. reflexivity.
  - intros. rewrite io_tr0. unfold n_create. simpl. lia.
Qed.

(* ====================================================================================== *)
(* C15 part 2: the creator is evaluated only after the task named in `executed` is final   *)
(* ====================================================================================== *)
(* traces in which every creator evaluation is preceded by a final report of its trigger *)
Inductive ok_tr (ex : name -> option name) : list dev -> Prop :=
| ok_nil : ok_tr ex []
| ok_snoc tr ev : ok_tr ex tr ->
    (forall c l t e, ev = ECreate c l t -> ex l = Some e -> final_in e tr) -> ok_tr ex (tr ++ [ev]).

Lemma ok_tr_app_ev ex es : forall tr, ok_tr ex tr -> ok_tr ex (tr ++ map Ev es).
Proof.
  induction es as [|a es IH]; intros tr H; simpl.
  - rewrite app_nil_r. exact H.
  - change (Ev a :: map Ev es) with ([Ev a] ++ map Ev es). rewrite app_assoc. apply IH.
    constructor; auto. intros; discriminate.
Qed.

Lemma ok_tr_app_quiet ex es : quiet es -> forall tr, ok_tr ex tr -> ok_tr ex (tr ++ es).
Proof.
  unfold quiet. induction es as [|a es IH]; intros Q tr H; simpl.
  - rewrite app_nil_r. exact H.
  - simpl in Q. apply andb_true_iff in Q. destruct Q as [Q1 Q2].
    change (a :: es) with ([a] ++ es). rewrite app_assoc. apply IH; auto.
    constructor; auto. intros c l t e E. subst a. discriminate.
Qed.

Lemma ok_tr_split ex tr : ok_tr ex tr ->
  forall pre c l t post e, tr = pre ++ ECreate c l t :: post -> ex l = Some e -> final_in e pre.
Proof.
  induction 1 as [|tr ev Hok IH Hev]; intros pre c l t post e Heq Hex.
  - destruct pre; discriminate.
  - destruct (@exists_last _ (ECreate c l t :: post)) as (q & z & Hq); [discriminate|].
    rewrite Hq, app_assoc in Heq. apply app_inj_tail in Heq. destruct Heq as [E1 E2]. subst z.
    destruct q as [|y q].
    + simpl in Hq. inversion Hq; subst. rewrite app_nil_r in *. eapply Hev; eauto.
    + simpl in Hq. inversion Hq; subst. eapply IH; eauto.
Qed.

Definition fin (d : dst) (x : name) : bool := negb (unfinished (st_of d x)).
Definition pc_tasks (p : dpc) : list name :=
  match p with QCalc _ _ tks => tks | QTask _ tks => tks | _ => [] end.
(* every task_dep of the task object is: not looked at yet, being looked at, waited for, or final *)
Definition Jn (f : name -> bool) (nd : dnode) : Prop :=
  forall x, In x (dn_at nd) -> In x (dn_pt nd) \/ In x (pc_tasks (dn_pc nd)) \/ In x (dn_wrun nd) \/ f x = true.

Lemma Jn_mono (f g : name -> bool) nd : (forall x, f x = true -> g x = true) -> Jn f nd -> Jn g nd.
Proof. intros H J x Hx. destruct (J x Hx) as [A|[A|[A|A]]]; auto. Qed.

Lemma fold_add_prefix l : forall a, exists ext, fold_left add_if_new l a = a ++ ext.
Proof.
  induction l as [|x l IH]; intros a; simpl.
  - exists []. rewrite app_nil_r. reflexivity.
  - unfold add_if_new at 2. destruct (mem x a).
    + apply IH.
    + destruct (IH (a ++ [x])) as [ext E]. exists ([x] ++ ext). rewrite E, app_assoc. reflexivity.
Qed.

Lemma process_calc_at nd ct s :
  exists newt, dn_at (process_calc nd ct s) = dn_at nd ++ newt /\ dn_pt (process_calc nd ct s) = dn_pt nd ++ newt /\
               dn_wrun (process_calc nd ct s) = dn_wrun nd /\ dn_pc (process_calc nd ct s) = dn_pc nd /\
               dn_st (process_calc nd ct s) = dn_st nd.
Proof.
  unfold process_calc. destruct (calc_values_visible s).
  - destruct (fold_add_prefix (t_calc_new_impl ct) (dn_at nd ++ t_calc_new_task ct)) as [ext E].
    exists (t_calc_new_task ct ++ ext). simpl. rewrite E, <- app_assoc.
    rewrite skipn_app, skipn_all, Nat.sub_diag. simpl. auto.
  - exists []. rewrite !app_nil_r. auto.
Qed.

Lemma Jn_process_calc f nd ct s : Jn f nd -> Jn f (process_calc nd ct s).
Proof.
  intros J x Hx. destruct (process_calc_at nd ct s) as (newt & E1 & E2 & E3 & E4 & _).
  rewrite E1 in Hx. rewrite E2, E3, E4. apply in_app_iff in Hx. destruct Hx as [Hx|Hx].
  - destruct (J x Hx) as [A|[A|[A|A]]]; auto. left. apply in_app_iff. auto.
  - left. apply in_app_iff. auto.
Qed.
Lemma Jn_parent_status f nd x s : Jn f nd -> Jn f (parent_status nd x s).
Proof. destruct s; auto. Qed.

Section Trigger.
Variable creators : N -> name -> list (name * dtask).
Variable wake_rank : name -> name -> N.
Variable calc_rank : name -> N.
Variable v : variant.
Variable keys : list name.
Variable ex : name -> option name.       (* loader.task_dep (`executed`): constant *)

Definition En (nd : dnode) : Prop :=
  forall T e, dt_loader (dn_task nd) = Some T -> ex T = Some e -> In e (dn_at nd).

Record inv2 (d : dst) : Prop := {
  j_ex : forall T, l_executed (q_ld d T) = ex T;
  j_node : forall k, Jn (fin d) (node_of d k) /\ En (node_of d k);
  j_fin : forall k, fin d k = true -> final_in k (q_tr d);
  j_tr : ok_tr ex (q_tr d) }.

Lemma En_process_calc nd ct s : En nd -> En (process_calc nd ct s).
Proof.
  intros E T e H1 H2. rewrite process_calc_task in H1.
  destruct (process_calc_at nd ct s) as (newt & E1 & _). rewrite E1. apply in_app_iff. left. eapply E; eauto.
Qed.
Lemma En_parent_status nd x s : En nd -> En (parent_status nd x s).
Proof. destruct s; auto. Qed.

Lemma st_of_set_node d k nd x : st_of (set_node d k nd) x = if N.eqb x k then dn_st nd else st_of d x.
Proof. unfold st_of. rewrite node_of_set_node. destruct (N.eqb x k); reflexivity. Qed.

Lemma inv2_set_node d k nd : inv2 d -> dn_st nd = dn_st (node_of d k) -> Jn (fin d) nd -> En nd ->
  inv2 (set_node d k nd).
Proof.
  intros [] Hst HJ HE.
  assert (Hf : forall x, fin (set_node d k nd) x = fin d x).
  { intro x. unfold fin. rewrite st_of_set_node. destruct (N.eqb_spec x k) as [->|]; auto.
    unfold st_of. rewrite Hst. reflexivity. }
  constructor; auto.
  - intro k'. rewrite node_of_set_node. destruct (N.eqb_spec k' k) as [->|].
    + split; auto. eapply Jn_mono; [|exact HJ]. intros x Hx. rewrite Hf. exact Hx.
    + destruct (j_node0 k') as [A B]. split; auto. eapply Jn_mono; [|exact A]. intros x Hx. rewrite Hf. exact Hx.
  - intros k' Hk. rewrite Hf in Hk. apply j_fin0. exact Hk.
Qed.

Lemma inv2_same d d' : (forall k, node_of d' k = node_of d k) -> q_tr d' = q_tr d -> q_ld d' = q_ld d ->
  inv2 d -> inv2 d'.
Proof.
  intros Hn Ht Hl [].
  assert (Hf : forall x, fin d' x = fin d x) by (intro x; unfold fin, st_of; rewrite Hn; reflexivity).
  constructor.
  - intro T. rewrite Hl. auto.
  - intro k. rewrite Hn. destruct (j_node0 k) as [A B]. split; auto.
    eapply Jn_mono; [|exact A]. intros x Hx. rewrite Hf. exact Hx.
  - intros k Hk. rewrite Hf in Hk. rewrite Ht. auto.
  - rewrite Ht. auto.
Qed.
Lemma inv2_set_ready d r : inv2 d -> inv2 (set_ready d r). Proof. apply inv2_same; auto. Qed.
Lemma inv2_set_waiting d r : inv2 d -> inv2 (set_waiting d r). Proof. apply inv2_same; auto. Qed.
Lemma inv2_set_torun d r : inv2 d -> inv2 (set_torun d r). Proof. apply inv2_same; auto. Qed.
Lemma inv2_set_cur d r : inv2 d -> inv2 (set_cur d r). Proof. apply inv2_same; auto. Qed.

(* a pc change that does not drop a pending name *)
Lemma inv2_set_pc d me p : inv2 d ->
  (forall x, In x (pc_tasks (dn_pc (node_of d me))) ->
             In x (pc_tasks p) \/ In x (dn_wrun (node_of d me)) \/ fin d x = true) ->
  inv2 (set_pc d me p).
Proof.
  intros I H. unfold set_pc. apply inv2_set_node; auto.
  - intros x Hx. destruct (j_node _ I me) as [J _].
    destruct (J x Hx) as [A|[A|[A|A]]]; [left; exact A| |right; right; left; exact A|right; right; right; exact A].
    destruct (H x A) as [B|[B|B]]; [right; left; exact B|right; right; left; exact B|right; right; right; exact B].
  - apply (j_node _ I me).
Qed.

Lemma Jn_new a k t f : Jn f (new_node a k t).
Proof. intros x Hx. left. exact Hx. Qed.

Lemma inv2_gen_node d pa k : inv2 d -> inv2 (snd (gen_node d pa k)).
Proof.
  intro I. unfold gen_node. destruct (q_nodes d k) eqn:E.
  - destruct pa as [a|]; [destruct (mem k a)|]; exact I.
  - simpl. apply inv2_set_node; auto.
    + unfold node_of. rewrite E. reflexivity.
    + apply Jn_new.
    + destruct (j_node _ I k) as [_ B]. unfold node_of in B. rewrite E in B. exact B.
Qed.
Lemma gen_node_node d pa k x : x <> k -> node_of (snd (gen_node d pa k)) x = node_of d x.
Proof.
  intro H. unfold gen_node. destruct (q_nodes d k); [destruct pa as [a|]; [destruct (mem k a)|]; reflexivity|].
  simpl. apply node_of_set_other; auto.
Qed.
Lemma gen_node_same d pa k :
  let nd' := node_of (snd (gen_node d pa k)) k in let nd := node_of d k in
  dn_pc nd' = dn_pc nd /\ dn_wrun nd' = dn_wrun nd /\ dn_pt nd' = dn_pt nd /\ dn_pcl nd' = dn_pcl nd /\ dn_at nd' = dn_at nd /\
  dn_task nd' = dn_task nd /\ dn_st nd' = dn_st nd /\ dn_wcalc nd' = dn_wcalc nd.
Proof.
  unfold gen_node. destruct (q_nodes d k) eqn:E; [destruct pa as [a|]; [destruct (mem k a)|]; simpl; auto 10|].
  simpl. rewrite node_of_set_same. unfold node_of. rewrite E. simpl. auto 10.
Qed.

Lemma fin_set_node_same d k nd y : dn_st nd = dn_st (node_of d k) -> fin (set_node d k nd) y = fin d y.
Proof.
  intro H. unfold fin. rewrite st_of_set_node. destruct (N.eqb_spec y k) as [->|]; auto.
  unfold st_of. rewrite H. reflexivity.
Qed.

Record aw_post (calc : bool) (d : dst) (me x : name) (d' : dst) : Prop := {
  aw_inv : inv2 d';
  aw_pc : dn_pc (node_of d' me) = dn_pc (node_of d me);
  aw_task : dn_task (node_of d' me) = dn_task (node_of d me);
  aw_fin : forall y, fin d' y = fin d y;
  aw_grow : forall y, In y (dn_wrun (node_of d me)) -> In y (dn_wrun (node_of d' me));
  aw_x : calc = false -> In x (dn_wrun (node_of d' me)) \/ fin d' x = true;
  aw_same : calc = false -> dn_pt (node_of d' me) = dn_pt (node_of d me) /\ dn_pcl (node_of d' me) = dn_pcl (node_of d me) /\
                            dn_at (node_of d' me) = dn_at (node_of d me) /\ dn_wcalc (node_of d' me) = dn_wcalc (node_of d me) }.

Lemma add_wait_one_post d me x calc : inv2 d -> aw_post calc d me x (add_wait_one d me x calc).
Proof.
  intro I. unfold add_wait_one. destruct (unfinished (st_of d x)) eqn:Eu.
  - set (d1 := set_node d x (nd_wme (node_of d x) (addset me (dn_wme (node_of d x))))).
    assert (I1 : inv2 d1).
    { apply inv2_set_node; auto; [exact (proj1 (j_node _ I x)) | exact (proj2 (j_node _ I x))]. }
    assert (F1 : forall y, fin d1 y = fin d y) by (intro y; apply fin_set_node_same; reflexivity).
    assert (N1 : dn_pc (node_of d1 me) = dn_pc (node_of d me) /\ dn_task (node_of d1 me) = dn_task (node_of d me) /\
                 dn_wrun (node_of d1 me) = dn_wrun (node_of d me) /\ dn_pt (node_of d1 me) = dn_pt (node_of d me) /\
                 dn_pcl (node_of d1 me) = dn_pcl (node_of d me) /\ dn_at (node_of d1 me) = dn_at (node_of d me) /\
                 dn_wcalc (node_of d1 me) = dn_wcalc (node_of d me)).
    { unfold d1. rewrite node_of_set_node. destruct (N.eqb_spec me x) as [->|]; simpl; auto 10. }
    destruct N1 as (P1 & P2 & P3 & P4 & P5 & P6 & P7).
    destruct (j_node _ I1 me) as [J1 E1].
    constructor.
    + apply inv2_set_node; auto.
      * destruct calc; reflexivity.
      * destruct calc; simpl.
        -- exact J1.
        -- intros y Hy. destruct (J1 y Hy) as [A|[A|[A|A]]]; auto.
           right; right; left. simpl. apply addset_In. auto.
      * destruct calc; exact E1.
    + rewrite node_of_set_same. destruct calc; simpl; exact P1.
    + rewrite node_of_set_same. destruct calc; simpl; exact P2.
    + intro y. rewrite fin_set_node_same by (destruct calc; reflexivity). apply F1.
    + intros y Hy. rewrite node_of_set_same. destruct calc; simpl; rewrite ?P3; auto.
      apply addset_In. right. exact Hy.
    + intros ->. left. rewrite node_of_set_same. simpl. apply addset_In. auto.
    + intros ->. rewrite node_of_set_same. simpl. auto.
  - destruct (j_node _ I me) as [J E].
    assert (St : dn_st (if calc then process_calc (parent_status (node_of d me) x (st_of d x)) (dt (dn_task (node_of d x))) (st_of d x)
                        else parent_status (node_of d me) x (st_of d x)) = dn_st (node_of d me)).
    { destruct calc.
      - destruct (process_calc_at (parent_status (node_of d me) x (st_of d x)) (dt (dn_task (node_of d x))) (st_of d x)) as (? & _ & _ & _ & _ & ->).
        destruct (st_of d x); reflexivity.
      - destruct (st_of d x); reflexivity. }
    constructor.
    + apply inv2_set_node; auto.
      * destruct calc; [apply Jn_process_calc|]; apply Jn_parent_status; exact J.
      * destruct calc; [apply En_process_calc|]; apply En_parent_status; exact E.
    + rewrite node_of_set_same. destruct calc.
      * destruct (process_calc_at (parent_status (node_of d me) x (st_of d x)) (dt (dn_task (node_of d x))) (st_of d x)) as (? & _ & _ & _ & -> & _).
        destruct (st_of d x); reflexivity.
      * destruct (st_of d x); reflexivity.
    + rewrite node_of_set_same. destruct calc; rewrite ?process_calc_task, parent_status_task; reflexivity.
    + intro y. apply fin_set_node_same. exact St.
    + intros y Hy. rewrite node_of_set_same. destruct calc.
      * destruct (process_calc_at (parent_status (node_of d me) x (st_of d x)) (dt (dn_task (node_of d x))) (st_of d x)) as (? & _ & _ & -> & _).
        destruct (st_of d x); exact Hy.
      * destruct (st_of d x); exact Hy.
    + intros _. right. rewrite fin_set_node_same by exact St. unfold fin. rewrite Eu. reflexivity.
    + intros ->. rewrite node_of_set_same. destruct (st_of d x); simpl; auto.
Qed.

Record awr_post (calc : bool) (d : dst) (me : name) (l : list name) (d' : dst) : Prop := {
  ar_inv : inv2 d';
  ar_pc : dn_pc (node_of d' me) = dn_pc (node_of d me);
  ar_task : dn_task (node_of d' me) = dn_task (node_of d me);
  ar_fin : forall y, fin d' y = fin d y;
  ar_grow : forall y, In y (dn_wrun (node_of d me)) -> In y (dn_wrun (node_of d' me));
  ar_x : calc = false -> forall x, In x l -> In x (dn_wrun (node_of d' me)) \/ fin d' x = true;
  ar_same : calc = false -> dn_pt (node_of d' me) = dn_pt (node_of d me) /\ dn_pcl (node_of d' me) = dn_pcl (node_of d me) /\
                            dn_at (node_of d' me) = dn_at (node_of d me) /\ dn_wcalc (node_of d' me) = dn_wcalc (node_of d me) }.

Lemma add_wait_run_post l : forall d me calc, inv2 d -> awr_post calc d me l (add_wait_run d me l calc).
Proof.
  induction l as [|x r IH]; intros d me calc I; cbn [add_wait_run].
  - constructor; auto; try (intros _ x []).
  - destruct (add_wait_one_post d me x calc I) as [].
    destruct (IH (add_wait_one d me x calc) me calc aw_inv0) as [].
    constructor; auto; try congruence.
    + intros Hc y [<-|Hy]; [|apply ar_x0; auto].
      destruct (aw_x0 Hc) as [A|A]; [left; apply ar_grow0; exact A | right; rewrite ar_fin0; exact A].
    + intros Hc. destruct (aw_same0 Hc) as (A1 & A2 & A3 & A4). destruct (ar_same0 Hc) as (B1 & B2 & B3 & B4).
      repeat split; congruence.
Qed.

(* ---- _update_waiting ---- *)
Lemma Jn_wake_node f nd fin0 ft s : f fin0 = true -> Jn f nd -> Jn f (wake_node nd fin0 ft s).
Proof.
  intros Hf J. unfold wake_node.
  assert (J1 : Jn f (nd_wait (parent_status nd fin0 s) (rem fin0 (dn_wrun (parent_status nd fin0 s)))
                             (rem fin0 (dn_wcalc (parent_status nd fin0 s))))).
  { assert (J' := Jn_parent_status f nd fin0 s J). intros x Hx.
    destruct (J' x Hx) as [A|[A|[A|A]]].
    - left; exact A.
    - right; left; exact A.
    - destruct (N.eqb_spec x fin0) as [->|Hne]; [right; right; right; exact Hf|].
      right; right; left. simpl. apply rem_In. auto.
    - right; right; right; exact A. }
  destruct (mem fin0 (dn_wcalc nd)); [apply Jn_process_calc|]; exact J1.
Qed.
Lemma En_wake_node nd fin0 ft s : En nd -> En (wake_node nd fin0 ft s).
Proof.
  intros E. unfold wake_node.
  assert (E1 : En (nd_wait (parent_status nd fin0 s) (rem fin0 (dn_wrun (parent_status nd fin0 s)))
                           (rem fin0 (dn_wcalc (parent_status nd fin0 s))))).
  { intros T e H1 H2. simpl in *. rewrite parent_status_task in H1.
    assert (A := E T e H1 H2). destruct s; exact A. }
  destruct (mem fin0 (dn_wcalc nd)); [apply En_process_calc|]; exact E1.
Qed.
Lemma wake_node_st nd fin0 ft s : dn_st (wake_node nd fin0 ft s) = dn_st nd.
Proof.
  unfold wake_node. destruct (mem fin0 (dn_wcalc nd)).
  - match goal with |- dn_st (process_calc ?a ?b ?c) = _ => destruct (process_calc_at a b c) as (? & _ & _ & _ & _ & ->) end.
    destruct s; reflexivity.
  - destruct s; reflexivity.
Qed.

Lemma inv2_wake_one d fin0 ft s w : inv2 d -> fin d fin0 = true ->
  inv2 (wake_one d fin0 ft s w) /\ forall y, fin (wake_one d fin0 ft s w) y = fin d y.
Proof.
  intros I Hf. unfold wake_one.
  set (d1 := set_node d w (wake_node (node_of d w) fin0 ft s)).
  assert (I1 : inv2 d1).
  { apply inv2_set_node; auto.
    - apply wake_node_st.
    - apply Jn_wake_node; auto. apply (j_node _ I w).
    - apply En_wake_node. apply (j_node _ I w). }
  assert (F1 : forall y, fin d1 y = fin d y) by (intro y; apply fin_set_node_same; apply wake_node_st).
  destruct (_ && _); [|split; auto].
  split; [apply inv2_set_waiting, inv2_set_ready; exact I1 | exact F1].
Qed.
Lemma inv2_wake l : forall d fin0 ft s, inv2 d -> fin d fin0 = true ->
  inv2 (wake d fin0 ft s l) /\ forall y, fin (wake d fin0 ft s l) y = fin d y.
Proof.
  induction l as [|w r IH]; intros d fin0 ft s I Hf; cbn [wake]; [split; auto|].
  destruct (inv2_wake_one d fin0 ft s w I Hf) as [I1 F1].
  destruct (IH (wake_one d fin0 ft s w) fin0 ft s I1) as [I2 F2]; [rewrite F1; exact Hf|].
  split; auto. intro y. rewrite F2. apply F1.
Qed.

Lemma inv2_update_waiting d p : inv2 d -> (forall k, p = Some k -> dn_st (node_of d k) <> SNone) ->
  inv2 (update_waiting wake_rank d p) /\ forall y, fin (update_waiting wake_rank d p) y = fin d y.
Proof.
  intros I Hp. destruct p as [p|]; cbn [update_waiting]; [|split; auto].
  specialize (Hp p eq_refl).
  set (d1 := if dn_wsel (node_of d p) then _ else d).
  assert (H1 : inv2 d1 /\ forall y, fin d1 y = fin d y).
  { unfold d1. destruct (dn_wsel (node_of d p)); [|split; auto].
    set (d0 := set_node d p (nd_wsel (node_of d p) false)).
    assert (I0 : inv2 d0) by (apply inv2_set_node; auto; apply (j_node _ I p)).
    split; [apply inv2_set_waiting, inv2_set_ready; exact I0|].
    intro y. apply (fin_set_node_same d p (nd_wsel (node_of d p) false) y). reflexivity. }
  destruct H1 as [I1 F1].
  assert (W : forall s, dn_st (node_of d p) = s -> s <> SRun ->
              inv2 (wake d1 p (dt (dn_task (node_of d p))) s (wake_order wake_rank p (dn_wme (node_of d p)))) /\
              forall y, fin (wake d1 p (dt (dn_task (node_of d p))) s (wake_order wake_rank p (dn_wme (node_of d p)))) y = fin d y).
  { intros s Es Hs.
    destruct (inv2_wake (wake_order wake_rank p (dn_wme (node_of d p))) d1 p (dt (dn_task (node_of d p))) s I1) as [I2 F2].
    - rewrite F1. unfold fin, st_of. rewrite Es. destruct s; auto; congruence.
    - split; auto. intro y. rewrite F2. apply F1. }
  destruct (dn_st (node_of d p)) eqn:Es; try (apply W; [reflexivity | discriminate]).
  split; auto.
Qed.

Lemma inv2_next_from_torun l : forall d, inv2 d -> inv2 (snd (next_from_torun d l)).
Proof.
  induction l as [|y r IH]; intros d I; cbn [next_from_torun]; [apply inv2_set_torun; auto|].
  pose proof (inv2_gen_node d None y I) as Hg.
  destruct (gen_node d None y) as [g d1]; simpl in Hg.
  destruct g; simpl; try (apply IH; exact Hg). apply inv2_set_torun. exact Hg.
Qed.

(* ---- the loader branch ---- *)
Lemma tr_step_ok d me T tr' : inv2 d -> nl d me = Some T ->
  (forall x, In x (dn_at (node_of d me)) -> fin d x = true) ->
  tr_step v d me T tr' -> ok_tr ex tr' /\ (forall k, final_in k (q_tr d) -> final_in k tr').
Proof.
  intros I Hnl Hall [->|(T' & t & _ & _ & ->)].
  - split; auto. apply (j_tr _ I).
  - split; [|intros k Hk; apply final_in_app_l; exact Hk].
    constructor; [apply (j_tr _ I)|].
    intros c l t0 e Hev Hex. inversion Hev; subst.
    apply (j_fin _ I). apply Hall. destruct (j_node _ I me) as [_ E]. eapply E; eauto.
Qed.

Lemma st_of_nodes_eq d d5 k : q_nodes d5 = q_nodes d -> st_of d5 k = st_of d k.
Proof. intro H. unfold st_of, node_of. rewrite H. destruct (q_nodes d k); reflexivity. Qed.

Lemma inv2_load_reset d me T d' : inv2 d -> nl d me = Some T ->
  (forall x, In x (dn_at (node_of d me)) -> fin d x = true) ->
  load_branch v keys creators d me T = LReset d' -> inv2 d'.
Proof.
  intros I Hnl Hall H. destruct (load_branch_reset _ _ _ _ _ _ _ H) as [d5 []].
  destruct (tr_step_ok d me T (q_tr d5) I Hnl Hall rs_tr0) as [Hok Hfin].
  assert (F5 : forall y, fin d5 y = fin d y) by (intro y; unfold fin; rewrite (st_of_nodes_eq d d5); auto).
  assert (F' : forall y, fin d' y = fin d y).
  { intro y. subst d'. rewrite fin_set_node_same by reflexivity. apply F5. }
  assert (Htr : q_tr d' = q_tr d5) by (subst d'; reflexivity).
  constructor.
  - intro l. subst d'. simpl. destruct (rs_ld0 l) as (_ & -> & _). apply (j_ex _ I).
  - intro k.
    assert (Hk : node_of d' k = if N.eqb k me then nd_reset (node_of d5 me) (tab_get d5 me) else node_of d5 k)
      by (subst d'; apply node_of_set_node).
    assert (Hfm : forall x, fin d x = true -> fin d' x = true) by (intros x Hx; rewrite F'; exact Hx).
    rewrite Hk. clear Hk. destruct (N.eqb_spec k me) as [Heq|Hne].
    + split; [intros x Hx; left; exact Hx|]. intros T0 e H1. simpl in H1. congruence.
    + assert (Hnode : node_of d5 k = match q_nodes d k with Some nd => nd | None => new_node [] k (tab_get d5 k) end)
        by (unfold node_of; rewrite rs_nodes0; reflexivity).
      rewrite Hnode. destruct (j_node _ I k) as [A B]. unfold node_of in A, B.
      destruct (q_nodes d k) as [nd|] eqn:Ek.
      * split; auto. eapply Jn_mono; [exact Hfm | exact A].
      * split; [apply Jn_new|]. intros T0 e H1 H2. simpl in *.
        pose proof (rs_tab0 _ _ H1) as Et. rewrite Et in H1 |- *. eapply B; eauto.
  - intros k Hk. rewrite F' in Hk. rewrite Htr. apply Hfin. apply (j_fin _ I). exact Hk.
  - rewrite Htr. exact Hok.
Qed.

Lemma ok_load_error d me T : inv2 d -> nl d me = Some T ->
  (forall x, In x (dn_at (node_of d me)) -> fin d x = true) ->
  match load_branch v keys creators d me T with
  | LReset _ => True
  | LInvalidTask d' | LNotFound _ d' | LKeyError d' => ok_tr ex (q_tr d')
  end.
Proof.
  intros I Hnl Hall. pose proof (load_branch_error v keys creators d me T) as He.
  destruct (load_branch v keys creators d me T); auto; eapply tr_step_ok; eauto.
Qed.

(* ---- node.step() ---- *)
Lemma gen_step_inv2 fuel : forall d me, inv2 d ->
  ok_tr ex (q_tr (snd (gen_step v keys creators calc_rank fuel d me))) /\
  (y_ok (fst (gen_step v keys creators calc_rank fuel d me)) = true -> inv2 (snd (gen_step v keys creators calc_rank fuel d me))).
Proof.
  induction fuel as [|fuel IH]; intros d me I; cbn [gen_step].
  { simpl. split; auto. apply (j_tr _ I). }
  assert (Stop : forall (y : gyield) d1, inv2 d1 -> ok_tr ex (q_tr (snd (y, d1))) /\ (y_ok (fst (y, d1)) = true -> inv2 (snd (y, d1))))
    by (intros y d1 H; simpl; split; auto; apply (j_tr _ H)).
  (* the three places that walk a list of names with _gen_node *)
  assert (Walk : forall c p,
     (forall x, In x (pc_tasks (dn_pc (node_of d me))) -> In x (pc_tasks p)) ->
     inv2 (set_pc (snd (gen_node d (Some (dn_anc (node_of d me))) c)) me p)).
  { intros c p Hp. pose proof (inv2_gen_node d (Some (dn_anc (node_of d me))) c I) as Ig.
    apply inv2_set_pc; auto. intros x Hx. left. apply Hp.
    destruct (N.eqb_spec me c) as [->|Hne].
    - destruct (gen_node_same d (Some (dn_anc (node_of d c))) c) as (E & _). rewrite E in Hx. exact Hx.
    - rewrite gen_node_node in Hx by auto. exact Hx. }
  destruct (dn_pc (node_of d me)) as [| |rest calcs tks|rest tks| | | |rest| |] eqn:Epc.
  - (* QStart *)
    match goal with |- context [if ?c then _ else _] => destruct c end.
    + apply Stop. apply inv2_set_pc; auto. rewrite Epc. intros x [].
    + apply IH. apply inv2_set_pc; auto. rewrite Epc. intros x [].
  - (* QLoop *)
    apply IH. apply inv2_set_node; auto.
    + intros x Hx. simpl in *. destruct (j_node _ I me) as [J _]. destruct (J x Hx) as [A|[A|[A|A]]]; auto.
      rewrite Epc in A. destruct A.
    + apply (j_node _ I me).
  - (* QCalc *)
    destruct rest as [|c r].
    + destruct (add_wait_run_post calcs d me true I) as [].
      apply IH. apply inv2_set_pc; auto. rewrite ar_pc0, Epc. simpl. auto.
    + specialize (Walk c (QCalc r calcs tks)). simpl in Walk.
      destruct (gen_node d (Some (dn_anc (node_of d me))) c) as [g d1] eqn:Eg. simpl in Walk.
      destruct g; [apply Stop | apply IH | apply Stop]; auto.
  - (* QTask *)
    destruct rest as [|c r].
    + destruct (add_wait_run_post tks d me false I) as [].
      set (d1 := add_wait_run d me tks false) in *.
      assert (Hpend : forall x, In x (pc_tasks (dn_pc (node_of d1 me))) -> In x [] \/ In x (dn_wrun (node_of d1 me)) \/ fin d1 x = true).
      { intros x Hx. rewrite ar_pc0, Epc in Hx. simpl in Hx. right. apply ar_x0; auto. }
      destruct (negb (is_nil (dn_pcl (node_of d1 me))) || negb (is_nil (dn_pt (node_of d1 me)))) eqn:E1.
      * apply IH. apply inv2_set_pc; auto.
      * destruct (negb (is_nil (dn_wrun (node_of d1 me))) || negb (is_nil (dn_wcalc (node_of d1 me)))) eqn:E2.
        -- apply Stop. apply inv2_set_pc; auto.
        -- destruct (dt_loader (dn_task (node_of d1 me))) as [T|] eqn:El.
           ++ assert (Hall : forall x, In x (dn_at (node_of d1 me)) -> fin d1 x = true).
              { intros x Hx. apply orb_false_iff in E1. destruct E1 as [_ E1]. apply orb_false_iff in E2. destruct E2 as [E2 _].
                apply negb_false_iff, is_nil_true in E1. apply negb_false_iff, is_nil_true in E2.
                destruct (j_node _ ar_inv0 me) as [J _]. destruct (J x Hx) as [A|[A|[A|A]]]; auto.
                - rewrite E1 in A. destruct A.
                - destruct (Hpend x A) as [[]|[B|B]]; auto. rewrite E2 in B. destruct B.
                - rewrite E2 in A. destruct A. }
              pose proof (ok_load_error d1 me T ar_inv0 El Hall) as He.
              destruct (load_branch v keys creators d1 me T) as [d2|d2|f d2|d2] eqn:Elb.
              ** apply IH. eapply inv2_load_reset; eauto.
              ** simpl. split; [exact He | discriminate].
              ** simpl. split; [exact He | discriminate].
              ** simpl. split; [exact He | discriminate].
           ++ apply IH. apply inv2_set_pc; auto.
    + specialize (Walk c (QTask r tks)). simpl in Walk.
      destruct (gen_node d (Some (dn_anc (node_of d me))) c) as [g d1] eqn:Eg. simpl in Walk.
      destruct g; [apply Stop | apply IH | apply Stop]; auto.
  - (* QSelf *) apply Stop. apply inv2_set_pc; auto. rewrite Epc. intros x [].
  - (* QAfterSelf *)
    destruct (is_nil (t_setup (dt (dn_task (node_of d me))))).
    + apply Stop. apply inv2_set_pc; auto. rewrite Epc. intros x [].
    + destruct (dn_st (node_of d me)); try (apply IH; apply inv2_set_pc; auto; rewrite Epc; intros x []).
      apply Stop. apply inv2_set_node; auto.
      * intros x Hx. simpl in *. destruct (j_node _ I me) as [J _]. destruct (J x Hx) as [A|[A|[A|A]]]; auto.
        rewrite Epc in A. destruct A.
      * apply (j_node _ I me).
  - (* QAfterSelWait *)
    destruct (dn_st (node_of d me)); try (apply Stop; apply inv2_set_pc; auto; rewrite Epc; intros x []).
    apply IH. apply inv2_set_pc; auto. rewrite Epc. intros x [].
  - (* QSetup *)
    destruct rest as [|c r].
    + destruct (add_wait_run_post (t_setup (dt (dn_task (node_of d me)))) d me false I) as [].
      destruct (is_nil (dn_wrun (node_of _ me))); apply Stop; (apply inv2_set_pc; auto; rewrite ar_pc0, Epc; intros x []).
    + specialize (Walk c (QSetup r)). simpl in Walk.
      destruct (gen_node d (Some (dn_anc (node_of d me))) c) as [g d1] eqn:Eg. simpl in Walk.
      destruct g; [apply Stop | apply IH | apply Stop]; auto.
  - (* QSetupWaited *) apply Stop. apply inv2_set_pc; auto. rewrite Epc. intros x [].
  - (* QDone *) apply Stop. auto.
Qed.

Lemma disp_run_inv2 fuel : forall d, inv2 d ->
  ok_tr ex (q_tr (snd (disp_run v keys creators calc_rank fuel d))) /\
  (dy_ok (fst (disp_run v keys creators calc_rank fuel d)) = true -> inv2 (snd (disp_run v keys creators calc_rank fuel d))).
Proof.
  induction fuel as [|fuel IH]; intros d I; cbn [disp_run].
  { simpl. split; auto. apply (j_tr _ I). }
  destruct (q_cur d) as [me|].
  - pose proof (gen_step_inv2 (S (S fuel)) d me I) as [W G].
    destruct (gen_step v keys creators calc_rank (S (S fuel)) d me) as [y d1]. simpl in W, G.
    destruct y; simpl; try (split; [exact W | auto; discriminate]); apply IH.
    + apply inv2_set_ready. apply G. reflexivity.
    + apply inv2_set_cur, inv2_set_waiting. apply G. reflexivity.
    + apply inv2_set_cur. apply G. reflexivity.
  - destruct (q_ready d) as [|x r].
    + pose proof (inv2_next_from_torun (q_torun d) d I) as Hk.
      destruct (next_from_torun d (q_torun d)) as [o d1]. simpl in Hk.
      destruct o.
      * apply IH. apply inv2_set_cur. exact Hk.
      * destruct (is_nil (q_waiting d1)); simpl; (split; [apply (j_tr _ Hk)|intros _; exact Hk]).
    + apply IH. apply inv2_set_cur, inv2_set_ready. exact I.
Qed.

Lemma disp_send_inv2 fuel d p : inv2 d -> (forall k, p = Some k -> dn_st (node_of d k) <> SNone) ->
  ok_tr ex (q_tr (snd (disp_send v keys creators wake_rank calc_rank fuel d p))) /\
  (dy_ok (fst (disp_send v keys creators wake_rank calc_rank fuel d p)) = true ->
   inv2 (snd (disp_send v keys creators wake_rank calc_rank fuel d p))).
Proof.
  intros I Hp. unfold disp_send. apply disp_run_inv2. apply inv2_update_waiting; auto.
Qed.

(* ---- runner steps ---- *)
Variable continue_ always : bool.

Lemma inv2_status_emit d k s es : inv2 d ->
  (fin d k = true -> unfinished s = false) ->
  (unfinished s = false -> final_in k (map Ev es)) ->
  inv2 (emitd (set_status d k s) (map Ev es)).
Proof.
  intros I H1 H2.
  set (d' := emitd (set_status d k s) (map Ev es)).
  assert (Hn : forall x, node_of d' x = if N.eqb x k then nd_st (node_of d k) s else node_of d x).
  { intro x. unfold d'. change (node_of (emitd (set_status d k s) (map Ev es)) x) with (node_of (set_status d k s) x).
    unfold set_status. apply node_of_set_node. }
  assert (Hf : forall x, fin d' x = if N.eqb x k then negb (unfinished s) else fin d x).
  { intro x. unfold fin, st_of. rewrite Hn. destruct (N.eqb x k); reflexivity. }
  assert (Hm : forall x, fin d x = true -> fin d' x = true).
  { intros x Hx. rewrite Hf. destruct (N.eqb_spec x k) as [Heq|]; auto. subst x. rewrite (H1 Hx). reflexivity. }
  constructor.
  - apply (j_ex _ I).
  - intro x. rewrite Hn. destruct (j_node _ I x) as [A B]. destruct (N.eqb_spec x k) as [Heq|Hne].
    + subst x. split; [|exact B]. eapply Jn_mono; [exact Hm|]. exact A.
    + split; auto. eapply Jn_mono; [exact Hm | exact A].
  - intros x Hx. unfold d'. simpl. rewrite Hf in Hx. destruct (N.eqb_spec x k) as [Heq|Hne].
    + subst x. apply final_in_app_r. apply H2. destruct (unfinished s); auto.
    + apply final_in_app_l. apply (j_fin _ I). exact Hx.
  - unfold d'. simpl. apply ok_tr_app_ev. apply (j_tr _ I).
Qed.

Definition stk (r : rstate) (k : name) : status := dn_st (node_of (r_d r) k).
Definition good (r : rstate) (k : name) : Prop := inv2 (r_d r) /\ stk r k <> SNone.

Lemma stk_set r k s : stk (with_d r (set_status (r_d r) k s)) k = s.
Proof. unfold stk, set_status. simpl. rewrite node_of_set_same. reflexivity. Qed.

Lemma good_status_emit r k s es : inv2 (r_d r) -> s <> SNone ->
  (fin (r_d r) k = true -> unfinished s = false) ->
  (unfinished s = false -> final_in k (map Ev es)) ->
  good (emit (with_d r (set_status (r_d r) k s)) es) k.
Proof.
  intros I Hs H1 H2. split.
  - apply (inv2_status_emit (r_d r) k s es); auto.
  - change (stk (emit (with_d r (set_status (r_d r) k s)) es) k) with (stk (with_d r (set_status (r_d r) k s)) k).
    rewrite stk_set. exact Hs.
Qed.

Lemma final_failure k kind : final_in k (map Ev [ERemove k; EFailure k kind]).
Proof. unfold final_in. simpl. rewrite N.eqb_refl. reflexivity. Qed.

Lemma good_handle_error_gen st r k kind : unfinished st = false ->
  inv2 (r_d r) -> good (handle_error_gen continue_ st r k kind) k.
Proof.
  intros Hst I. split.
  - apply (inv2_status_emit (r_d r) k st [ERemove k; EFailure k kind]); auto. intros _. apply final_failure.
  - unfold stk, handle_error_gen. simpl.
    change (node_of (emitd (set_status (r_d r) k st) [Ev (ERemove k); Ev (EFailure k kind)]) k)
      with (node_of (set_status (r_d r) k st) k).
    unfold set_status. rewrite node_of_set_same. simpl. intro E. rewrite E in Hst. discriminate.
Qed.
Lemma good_handle_error r k kind : inv2 (r_d r) -> good (handle_error continue_ r k kind) k.
Proof. apply good_handle_error_gen. reflexivity. Qed.

Lemma good_get_args r k : good r k -> good (snd (get_args continue_ r k)) k.
Proof.
  intros [I S]. unfold get_args. destruct (t_argerr _); cbn [snd]; [apply good_handle_error; auto | split; auto].
Qed.

Lemma inv2_emit r es : inv2 (r_d r) -> inv2 (r_d (emit r es)).
Proof.
  intro I. unfold emit. cbn [r_d with_d]. destruct I. constructor; auto.
  - intros x Hx. cbn [emitd q_tr]. apply final_in_app_l. apply j_fin0. exact Hx.
  - cbn [emitd q_tr]. apply ok_tr_app_ev. exact j_tr0.
Qed.
Lemma good_emit r k es : good r k -> good (emit r es) k.
Proof. intros [I S]. split; [apply inv2_emit; exact I | exact S]. Qed.

Lemma inv2_set_run d k : inv2 d -> dn_st (node_of d k) = SNone -> inv2 (set_status d k SRun).
Proof.
  intros I Hs.
  assert (H := inv2_status_emit d k SRun [] I). simpl in H.
  assert (H' : inv2 (emitd (set_status d k SRun) [])).
  { apply H; [|discriminate]. unfold fin, st_of. rewrite Hs. discriminate. }
  destruct H'. constructor; auto. simpl in *. rewrite app_nil_r in *. auto.
  simpl in *. rewrite app_nil_r in *. auto.
Qed.

Lemma final_one k e : is_final_of k (Ev e) = true -> final_in k (map Ev [e]).
Proof. intro H. unfold final_in. cbn [map existsb]. rewrite H. reflexivity. Qed.

Lemma good_select_task r k : inv2 (r_d r) -> good (snd (select_task continue_ always r k)) k.
Proof.
  intro I. unfold select_task.
  assert (Second : stk r k <> SNone -> good (snd
     (if negb (is_nil (dn_ign (node_of (r_d r) k)))
      then (false, emit (with_d r (set_status (r_d r) k SIgnore)) [ESkipIgnore k])
      else if negb (is_nil (dn_bad (node_of (r_d r) k))) then (false, handle_error continue_ r k kind_unmet)
      else get_args continue_ r k)) k).
  { intro S. destruct (negb (is_nil (dn_ign _))); cbn [snd].
    - apply good_status_emit; auto; try discriminate. intros _. apply final_one. simpl. apply N.eqb_refl.
    - destruct (negb (is_nil (dn_bad _))); cbn [snd]; [apply good_handle_error; auto | apply good_get_args; split; auto]. }
  destruct (dn_st (node_of (r_d r) k)) eqn:Est; try (apply Second; unfold stk; rewrite Est; discriminate).
  set (r1 := emit r [EGetStatus k]).
  assert (I1 : inv2 (r_d r1)) by (apply inv2_emit; exact I).
  assert (S1 : dn_st (node_of (r_d r1) k) = SNone) by exact Est.
  assert (F1 : fin (r_d r1) k = true -> False) by (unfold fin, st_of; rewrite S1; discriminate).
  destruct (negb (is_nil (dn_ign _)) || t_dbignore _); cbn [snd].
  { apply good_status_emit; auto; try discriminate. intros _. apply final_one. simpl. apply N.eqb_refl. }
  destruct (negb (is_nil (dn_bad _))); cbn [snd]; [apply good_handle_error; auto|].
  assert (Run : good (snd (if is_nil (t_setup (task_of r k))
                           then get_args continue_ (with_d r1 (set_status (r_d r1) k SRun)) k
                           else (false, with_d r1 (set_status (r_d r1) k SRun)))) k).
  { assert (G : good (with_d r1 (set_status (r_d r1) k SRun)) k).
    { split; [apply inv2_set_run; auto | rewrite stk_set; discriminate]. }
    destruct (is_nil (t_setup (task_of r k))); cbn [snd]; [apply good_get_args|]; exact G. }
  destruct (t_check (task_of r k)); cbn [snd].
  - destruct always; exact Run.
  - destruct always; cbn [snd]; [exact Run|].
    apply good_status_emit; auto; try discriminate. intros _. apply final_one. simpl. apply N.eqb_refl.
  - apply good_handle_error; auto.
Qed.

Lemma good_start_task r k : good r k -> good (start_task r k) k.
Proof.
  intros G. apply (good_emit r k [EExecute k]) in G. destruct G as [I S]. split; [exact I | exact S].
Qed.

Lemma good_process_result r k : good r k -> good (process_result continue_ r k) k.
Proof.
  intros [I S]. unfold process_result. destruct (t_outcome (task_of r k));
    try (apply good_handle_error; auto); try (apply good_handle_error_gen; auto).
  - apply good_status_emit; auto; try discriminate. intros _.
    unfold final_in. simpl. rewrite N.eqb_refl. reflexivity.
  - split; auto.
Qed.

Lemma ok_keepr d d' : keepr d d' -> ok_tr ex (q_tr d) -> ok_tr ex (q_tr d').
Proof. intros [] H. destruct r_tr0 as [es [-> Q]]. apply ok_tr_app_quiet; auto. Qed.

Lemma serial_ok fuel : forall r last, inv2 (r_d r) -> (forall k, last = Some k -> stk r k <> SNone) ->
  ok_tr ex (q_tr (r_d (fst (serial v keys creators wake_rank calc_rank continue_ always fuel r last)))).
Proof.
  induction fuel as [|fuel IH]; intros r last I Hl; cbn [serial].
  { simpl. apply (j_tr _ I). }
  destruct (r_stop r).
  { cbn [fst]. eapply ok_keepr; [apply keepr_finish | apply (j_tr _ I)]. }
  pose proof (disp_send_inv2 (S fuel) (r_d r) last I Hl) as [W G].
  destruct (disp_send v keys creators wake_rank calc_rank (S fuel) (r_d r) last) as [y d]. simpl in W, G.
  destruct y; cbn [fst];
    try (eapply ok_keepr; [apply (keepr_finish (with_d r d)) | exact W]).
  - (* DTask *)
    specialize (G eq_refl).
    pose proof (good_select_task (with_d r d) k G) as Hs.
    destruct (select_task continue_ always (with_d r d) k) as [[|] r1]; cbn [snd] in Hs.
    + pose proof (good_start_task r1 k Hs) as H2.
      destruct (is_interrupt (start_task r1 k) k); cbn [fst].
      * eapply ok_keepr; [apply keepr_finish | apply (j_tr _ (proj1 H2))].
      * pose proof (good_process_result _ k H2) as [I3 S3]. apply IH; auto. intros k' Hk'. inversion Hk'; subst. exact S3.
    + destruct Hs as [I1 S1]. apply IH; auto. intros k' Hk'. inversion Hk'; subst. exact S1.
  - (* DInvalidTask *)
    eapply ok_keepr; [apply (keepr_finish (with_d r (emitd d [ERuntimeError])))|].
    cbn [r_d with_d emitd q_tr]. constructor; auto. intros; discriminate.
  - exact W.
Qed.

(* ---- the same for every script of runner calls ---- *)
Lemma inv2_emitq r es : quiet es -> inv2 (r_d r) -> inv2 (r_d (emitr r es)).
Proof.
  intros Q I. unfold emitr. cbn [r_d with_d]. destruct I. constructor; auto.
  - intros x Hx. cbn [emitd q_tr]. apply final_in_app_l. apply j_fin0. exact Hx.
  - cbn [emitd q_tr]. apply ok_tr_app_quiet; auto.
Qed.

Lemma inv2_process_result r k : inv2 (r_d r) -> inv2 (r_d (process_result continue_ r k)).
Proof.
  intro I. unfold process_result. destruct (t_outcome (task_of r k));
    try (apply good_handle_error; exact I); try (apply good_handle_error_gen; [reflexivity | exact I]).
  - apply (inv2_status_emit (r_d r) k SSuccess [ESave k; ESuccess k]); auto. intros _.
    unfold final_in. simpl. rewrite N.eqb_refl. reflexivity.
  - exact I.
Qed.

Notation run_op := (run_op v keys creators wake_rank calc_rank continue_ always).
Notation step_op := (step_op v keys creators wake_rank calc_rank continue_ always).

Lemma run_op_inv2 fuel r o : inv2 (r_d r) ->
  ok_tr ex (q_tr (r_d (fst (run_op fuel r o)))) /\ (live (snd (run_op fuel r o)) = true -> inv2 (r_d (fst (run_op fuel r o)))).
Proof.
  intro I.
  assert (Both : forall r1 s1, inv2 (r_d r1) -> ok_tr ex (q_tr (r_d (fst (r1, s1)))) /\ (live (snd (r1, s1)) = true -> inv2 (r_d (fst (r1, s1)))))
    by (intros r1 s1 H; simpl; split; auto; apply (j_tr _ H)).
  destruct o; cbn [Delayed.run_op].
  - (* OSend *)
    set (r0 := emitr r _).
    assert (I0 : inv2 (r_d r0)) by (apply inv2_emitq; [apply quiet_op | exact I]).
    destruct (sent_ok (r_d r) p) eqn:Es.
    + assert (Hp : forall k, p = Some k -> dn_st (node_of (r_d r0) k) <> SNone).
      { intros k ->. unfold sent_ok, st_of in Es. change (node_of (r_d r0) k) with (node_of (r_d r) k).
        destruct (dn_st (node_of (r_d r) k)); discriminate. }
      pose proof (disp_send_inv2 fuel (r_d r0) p I0 Hp) as [W G].
      destruct (disp_send v keys creators wake_rank calc_rank fuel (r_d r0) p) as [y d]. simpl in W, G.
      destruct y;
        try (apply Both; apply (inv2_emitq (with_d r0 d)); [apply quiet_op | apply G; reflexivity]);
        cbn [fst snd live];
        try (split; [exact W | discriminate]).
      split; [|discriminate]. cbn [r_d with_d emitd q_tr]. apply ok_tr_app_quiet; [reflexivity | exact W].
    + split; [apply (j_tr _ I0) | discriminate].
  - (* OSelect *)
    set (r0 := emitr r _).
    assert (I0 : inv2 (r_d r0)) by (apply inv2_emitq; [apply quiet_op | exact I]).
    pose proof (good_select_task r0 k I0) as [Hs _].
    destruct (select_task continue_ always r0 k) as [b r1]. cbn [snd] in Hs.
    apply Both. apply inv2_emitq; [apply quiet_op | exact Hs].
  - (* OExec *) apply Both. exact (inv2_emit r [EExecute k] I).
  - (* OResult *) apply Both. apply inv2_process_result. apply inv2_emitq; [apply quiet_op | exact I].
  - (* OHoldErr *) split; [apply (j_tr _ I) | discriminate].
  - (* OFinish *)
    apply Both. unfold finish. apply inv2_emit. apply inv2_emitq; [apply quiet_op | exact I].
Qed.

Definition sP2 (rs : rstate * option stop) : Prop :=
  ok_tr ex (q_tr (r_d (fst rs))) /\ (live (snd rs) = true -> inv2 (r_d (fst rs))).

Lemma step_op_sP2 fuel rs o : sP2 rs -> sP2 (step_op fuel rs o).
Proof.
  destruct rs as [r s]. intros [W I]. cbn [fst snd] in W, I. unfold Delayed.step_op.
  destruct (live s) eqn:El.
  - specialize (I eq_refl).
    assert (Run : sP2 (let '(r1, s1) := run_op fuel r o in (r1, merge_stop s s1))).
    { pose proof (run_op_inv2 fuel r o I) as [W1 I1].
      destruct (run_op fuel r o) as [r1 s1]. cbn [fst snd] in *. split; cbn [fst snd]; auto.
      intro Hl. apply I1. destruct s1; auto. }
    destruct s as [x|]; [|exact Run].
    destruct o; try exact Run.
    split; cbn [fst snd].
    + eapply ok_keepr; [apply keepr_emitr; reflexivity | exact W].
    + intros _. apply inv2_emitq; [reflexivity | exact I].
  - destruct o; try (split; cbn [fst snd]; [exact W | rewrite El; discriminate]).
    split; cbn [fst snd]; [|rewrite El; discriminate].
    cbn [Delayed.run_op fst]. eapply ok_keepr; [|exact W].
    eapply keepr_trans; [apply keepr_emitr, quiet_op | apply keepr_finish].
Qed.

Lemma run_ops_sP2 fuel ops : forall rs, sP2 rs -> sP2 (fold_left (step_op fuel) ops rs).
Proof.
  induction ops as [|o ops IH]; intros rs H; simpl; auto. apply IH. apply step_op_sP2. exact H.
Qed.
End Trigger.

(* ---------- initial states satisfy the second invariant ---------- *)
Lemma init_inv2 d : init_ok d -> inv2 (fun T => l_executed (q_ld d T)) d.
Proof.
  intros []. constructor; auto.
  - intro k. unfold node_of. rewrite io_nodes0. split; [apply Jn_new|].
    intros T e H1 H2. simpl in *. eapply io_ex0; eauto.
  - intros k Hk. unfold fin, st_of, node_of in Hk. rewrite io_nodes0 in Hk. discriminate.
  - rewrite io_tr0. constructor.
Qed.

Lemma ok_stop_marker ex tr s : ok_tr ex tr -> ok_tr ex (tr ++ stop_marker s).
Proof. intro H. destruct s; simpl; rewrite ?app_nil_r; auto; constructor; auto; intros; discriminate. Qed.

Theorem after_trigger v keys creators wake_rank calc_rank continue_ always fuel d0 :
  init_ok d0 ->
  forall pre c l t post e,
    fst (run_serial v keys creators wake_rank calc_rank continue_ always fuel d0) = pre ++ ECreate c l t :: post ->
    l_executed (q_ld d0 l) = Some e -> final_in e pre.
Proof.
  intros I0 pre c l t post e Heq Hex.
  pose proof (serial_ok creators wake_rank calc_rank v keys (fun T => l_executed (q_ld d0 T)) continue_ always
                fuel (r_init d0) None (init_inv2 d0 I0)) as W.
  unfold run_serial in Heq.
  destruct (serial v keys creators wake_rank calc_rank continue_ always fuel (r_init d0) None) as [r s].
  simpl in *.
  assert (Hok : ok_tr (fun T => l_executed (q_ld d0 T)) (q_tr (r_d r) ++ stop_marker s)).
  { apply ok_stop_marker. apply W. intros k Hk; discriminate. }
  eapply ok_tr_split; eauto.
Qed.

(* ... whatever the runner does with the dispatcher (every script) *)
Theorem after_trigger_script v keys creators wake_rank calc_rank continue_ always fuel ops d0 :
  init_ok d0 ->
  forall pre c l t post e,
    fst (run_script v keys creators wake_rank calc_rank continue_ always fuel ops d0) = pre ++ ECreate c l t :: post ->
    l_executed (q_ld d0 l) = Some e -> final_in e pre.
Proof.
  intros I0 pre c l t post e Heq Hex.
  assert (H0 : sP2 (fun T => l_executed (q_ld d0 T)) (r_init d0, None)).
  { pose proof (init_inv2 d0 I0) as I2. split; cbn [fst snd r_init r_d]; [apply (j_tr _ _ I2) | intros _; exact I2]. }
  pose proof (run_ops_sP2 creators wake_rank calc_rank v keys (fun T => l_executed (q_ld d0 T)) continue_ always fuel ops _ H0) as [W _].
  unfold run_script, run_ops in Heq.
  destruct (fold_left (step_op v keys creators wake_rank calc_rank continue_ always fuel) ops (r_init d0, None)) as [r s].
  cbn [fst snd] in *.
  eapply ok_tr_split; [apply ok_stop_marker; exact W | exact Heq | exact Hex].
Qed.

(* ---------- created tasks are ordinary table entries ---------- *)
Lemma install_keeps new : forall d n, q_tab d n <> None -> q_tab (install d new) n <> None.
Proof.
  unfold install. induction new as [|[k t] r IH]; intros d n H; simpl; auto.
  apply IH. unfold set_tab, upd; simpl. destruct (N.eqb n k); [discriminate | exact H].
Qed.
Lemma install_in new : forall d n t, In (n, t) new ->
  q_tab (install d new) n <> None /\ dt_loader (tab_get (install d new) n) = None.
Proof.
  unfold install. induction new as [|[k t0] r IH]; intros d n t H; simpl in *; [destruct H|].
  destruct H as [H|H].
  - inversion H; subst. split.
    + apply (install_keeps r). unfold set_tab, upd; simpl. rewrite N.eqb_refl. discriminate.
    + destruct (dt_loader (tab_get (fold_left (fun d kt => set_tab d (fst kt) (finish_new (q_tg d) (snd kt))) r
                   (set_tab d n (finish_new (q_tg d) t))) n)) eqn:E; auto.
      destruct (install_spec r (set_tab d n (finish_new (q_tg d) t))) as (_ & _ & _ & _ & _ & _ & S).
      pose proof (tab_shrinks_loader _ _ _ _ S E) as E'. rewrite tab_get_set_tab, N.eqb_refl in E'. discriminate.
  - eapply IH; eauto.
Qed.

(* ---------- regex targets: what _filter_tasks builds and what the loader branch does with it ---------- *)
Lemma filter_one_single sv base_of is_rx rmatch rx_name auto s f k T :
  q_tab (ss_d s) f = None -> q_tg (ss_d s) f = None -> q_tab (ss_d s) (base_of f) = None ->
  matched sv is_rx rmatch auto (ss_d s) (ss_order s) (ss_sub s) f = [k] ->
  dt_loader (tab_get (ss_d s) k) = Some T ->
  exists s', filter_one sv base_of is_rx rmatch rx_name auto s f = Some s' /\
    let nm := rx_name f k in
    q_torun (ss_d s') = q_torun (ss_d s) ++ [nm] /\
    q_rxg (ss_d s') nm = Some (ss_gnext s) /\
    q_grp (ss_d s') (ss_gnext s) = Build_rgroup f [k] false /\
    l_basename (q_ld (ss_d s') T) = Some k /\
    (exists L, q_tab (ss_d s') nm = Some (placeholder L T [f]) /\ l_executed L = l_executed (q_ld (ss_d s) T)).
Proof.
  intros H1 H2 H3 H4 H5. unfold filter_one. rewrite H1, H2, H3, H4. simpl.
  unfold add_rx. simpl.
  assert (E : dt_loader (tab_get (set_grp (ss_d s) (ss_gnext s) (Build_rgroup f [k] false)) k) = Some T) by exact H5.
  rewrite E. eexists. split; [reflexivity|]. simpl.
  repeat split.
  - rewrite upd_same. reflexivity.
  - rewrite upd_same. reflexivity.
  - rewrite upd_same. reflexivity.
  - eexists. rewrite upd_same. split; [reflexivity|]. simpl. rewrite upd_same. reflexivity.
Qed.

Lemma load_branch_not_found v keys creators d me T d2 g f k :
  create_part v keys creators d me T = Some d2 ->
  q_rxg d2 me = Some g -> q_grp d2 g = Build_rgroup f [k] false -> l_basename (q_ld d2 T) = Some k ->
  q_tg d2 f = None ->
  load_branch v keys creators d me T = LNotFound f d2.
Proof.
  intros H1 H2 H3 H4 H5. unfold load_branch. rewrite H1, H2, H3. simpl. rewrite H5, H4.
  unfold mem, rem. simpl. rewrite N.eqb_refl. simpl. reflexivity.
Qed.

Lemma load_branch_found v keys creators d me T d2 g f ks p :
  create_part v keys creators d me T = Some d2 ->
  q_rxg d2 me = Some g -> q_grp d2 g = Build_rgroup f ks false -> q_tg d2 f = Some p ->
  dt_loader (tab_get d2 me) = Some T -> dn_task (node_of d2 me) = tab_get d2 me -> In f (dt_file_dep (tab_get d2 me)) ->
  exists d', load_branch v keys creators d me T = LReset d' /\ g_found (q_grp d' g) = true /\
             In p (dn_pt (node_of d' me)) /\ dn_pc (node_of d' me) = QStart /\ dt_loader (dn_task (node_of d' me)) = None.
Proof.
  intros H1 H2 H3 H4 H5 H6 H7. unfold load_branch. rewrite H1, H2, H3. simpl. rewrite H4.
  eexists. split; [reflexivity|].
  set (d3 := set_grp d2 g _).
  assert (E : dt_loader (tab_get (set_ld d3 T (ld_created (q_ld d3 T))) me) = Some T) by exact H5.
  rewrite E. rewrite node_of_set_same. simpl.
  split; [rewrite upd_same; reflexivity|].
  rewrite tab_get_set_tab, N.eqb_refl. simpl. repeat split.
  rewrite H6. clear E.
  (* impl_deps appends targets[f] unless already present *)
  assert (G : forall files deps, In f files -> In p (impl_deps (q_tg d2) files deps)).
  { unfold impl_deps. induction files as [|a r IH]; intros deps [].
    - subst a. simpl. rewrite H4.
      assert (K : forall l acc, In p acc -> In p (fold_left (fun acc f0 => match q_tg d2 f0 with Some p0 => if mem p0 acc then acc else acc ++ [p0] | None => acc end) l acc)).
      { induction l as [|b l IHl]; intros acc Ha; simpl; auto. apply IHl.
        destruct (q_tg d2 b); auto. destruct (mem n acc); auto. apply in_app_iff. auto. }
      apply K. destruct (mem p deps) eqn:Em; [apply mem_In; exact Em | apply in_app_iff; right; left; reflexivity].
    - simpl. apply IH. exact H. }
  apply G. exact H7.
Qed.

Theorem creator_once_init keys creators wake_rank calc_rank continue_ always fuel d0 c :
  init_ok d0 -> keys_ok keys d0 ->
  (n_create c (fst (run_serial VHead keys creators wake_rank calc_rank continue_ always fuel d0)) <= 1)%nat.
Proof.
  intros H HK. exact (creator_once keys creators wake_rank calc_rank (fun T => l_basename (q_ld d0 T)) (fun T => l_creator (q_ld d0 T))
                       continue_ always fuel d0 c (init_inv1 keys d0 H HK)).
Qed.

Theorem creator_once_script_init keys creators wake_rank calc_rank continue_ always fuel ops d0 c :
  init_ok d0 -> keys_ok keys d0 ->
  (n_create c (fst (run_script VHead keys creators wake_rank calc_rank continue_ always fuel ops d0)) <= 1)%nat.
Proof.
  intros H HK. exact (creator_once_script keys creators wake_rank calc_rank (fun T => l_basename (q_ld d0 T)) (fun T => l_creator (q_ld d0 T))
                       continue_ always fuel ops d0 c (init_inv1 keys d0 H HK)).
Qed.

(* the node of a placeholder whose table entry was replaced meanwhile (a stale node: tasks[to_load] has no
   loader any more) goes through the loader branch without evaluating anything, whatever its own copy says *)
Lemma stale_node_no_evaluation keys creators d me T :
  dt_loader (tab_get d (to_load_of d me T)) = None -> create_part VHead keys creators d me T = Some d.
Proof. intro H. unfold create_part, loader_read. rewrite H. reflexivity. Qed.

Lemma not_found_exit r f : exit_code r (StopNotFound f) = 3.
Proof. reflexivity. Qed.

(* ====================================================================================== *)
(* C15: the created task that takes over the node of its placeholder (ExecNode.reset_task,  *)
(* control.py 322-327) is dispatched like a statically defined task                        *)
(* ====================================================================================== *)
(* after a successful pass through the loader branch the node of `me` is, in every field the generator of _add_task reads
   to find the next dependency (task object, pending and accumulated task_dep / calc_dep, position), the node a fresh
   ExecNode(tasks[me]) would be: in particular the pending calc_dep set is the task's own calc_dep (the seeded change C15c
   drops exactly this assignment).  What the node keeps from the placeholder: ancestors, waiting_me, run_status,
   bad_deps / ignored_deps (see C15_created_subtask_keeps_failed_trigger_refuted) *)
Lemma load_branch_reset_fresh v keys creators d me T d' :
  load_branch v keys creators d me T = LReset d' ->
  forall anc, let t := tab_get d' me in let nd := node_of d' me in let fresh := new_node anc me t in
  dt_loader t = None /\ dn_task nd = t /\
  dn_pt nd = dn_pt fresh /\ dn_pcl nd = dn_pcl fresh /\ dn_at nd = dn_at fresh /\ dn_ac nd = dn_ac fresh /\
  dn_pc nd = dn_pc fresh /\ dn_pcl nd = t_calc_dep (dt t) /\ dn_pt nd = t_task_dep (dt t).
Proof.
  intros H anc. destruct (load_branch_reset _ _ _ _ _ _ _ H) as [d5 R]. destruct R as [E _ _ _ _ _ M _ _].
  subst d'. cbv zeta.
  assert (Et : tab_get (set_node d5 me (nd_reset (node_of d5 me) (tab_get d5 me))) me = tab_get d5 me) by reflexivity.
  rewrite Et, node_of_set_same. simpl. repeat split; auto.
Qed.

Section ResetCalc.
Variable v : variant.
Variable keys : list name.
Variable creators : N -> name -> list (name * dtask).
Variable calc_rank : name -> N.
Notation gen_step := (gen_step v keys creators calc_rank).

Lemma gen_step_start f d me :
  dn_pc (node_of d me) = QStart -> dt_loader (dn_task (node_of d me)) = None ->
  gen_step (S f) d me = gen_step f (set_pc d me QLoop) me.
Proof. intros H1 H2. cbn [Delayed.gen_step]. rewrite H1, H2. reflexivity. Qed.

Lemma gen_step_loop f d me :
  dn_pc (node_of d me) = QLoop ->
  gen_step (S f) d me =
  let nd := node_of d me in let calcs := sort_by calc_rank (dn_pcl nd) in
  gen_step f (set_node d me (nd_pc (nd_deps nd [] [] (dn_at nd) (dn_ac nd)) (QCalc calcs calcs (dn_pt nd)))) me.
Proof. intros H1. cbn [Delayed.gen_step]. rewrite H1. reflexivity. Qed.

Lemma gen_step_calc_new f d me c r calcs tks :
  dn_pc (node_of d me) = QCalc (c :: r) calcs tks -> q_nodes d c = None ->
  fst (gen_step (S f) d me) = YNode c.
Proof. intros H1 H2. cbn [Delayed.gen_step]. rewrite H1. unfold gen_node. rewrite H2. reflexivity. Qed.

(* ... so a created task that takes over the node of its placeholder is ordered after its calc_dep tasks exactly like a
   statically defined one: the first thing the restarted generator does is to instantiate the node of its first
   calc_dep (in the iteration order of the set) *)
Lemma reset_then_calc_dep_first d me T d' c r fuel :
  load_branch v keys creators d me T = LReset d' ->
  sort_by calc_rank (t_calc_dep (dt (tab_get d' me))) = c :: r ->
  c <> me -> q_nodes d' c = None ->
  fst (gen_step (S (S (S fuel))) d' me) = YNode c.
Proof.
  intros H Hs Hc Hn.
  destruct (load_branch_reset_fresh _ _ _ _ _ _ _ H []) as (L & Et & _ & _ & _ & _ & Epc & Ecl & _).
  cbv zeta in *. simpl in Epc.
  rewrite gen_step_start; [|exact Epc|rewrite Et; exact L].
  rewrite gen_step_loop; [|unfold set_pc; rewrite node_of_set_same; reflexivity].
  cbv zeta. unfold set_pc. rewrite node_of_set_same. cbn [dn_pcl nd_pc]. rewrite Ecl, Hs.
  eapply gen_step_calc_new.
  - rewrite node_of_set_same. reflexivity.
  - simpl. unfold upd. destruct (N.eqb_spec c me); [contradiction|]. exact Hn.
Qed.
End ResetCalc.

(* ====================================================================================== *)
(* C15: _filter_tasks after the repair 01f48fb -- a placeholder made for a `basename:sub`   *)
(* word is never taken for a task-creator by the target_regex / --auto-delayed-regex loop  *)
(* ====================================================================================== *)
Section SubPlaceholders.
Variable base_of : name -> name.
Variable is_rx : name -> bool.
Variable rmatch : name -> name -> bool.
Variable rx_name : name -> name -> name.
Variable auto : bool.
Notation matched := (matched SelHead is_rx rmatch auto).
Notation filter_one := (filter_one SelHead base_of is_rx rmatch rx_name auto).
Notation filter_tasks := (filter_tasks SelHead base_of is_rx rmatch rx_name auto).

Lemma matched_skips_sub d order sub f w : In w sub -> ~ In w (matched d order sub f).
Proof.
  intros Hw H. unfold Delayed.matched in H. apply filter_In in H. destruct H as [_ H].
  destruct (dt_loader (tab_get d w)); [|discriminate].
  destruct (is_rx w); [discriminate|].
  unfold skip_sub in H. rewrite (proj2 (mem_In w sub) Hw) in H. discriminate.
Qed.

(* [w] is a recorded by-name placeholder and no RegexGroup contains it *)
Definition sub_clean (w : name) (s : sstate) : Prop :=
  In w (ss_sub s) /\ forall g, ~ In w (g_tasks (q_grp (ss_d s) g)).

Lemma add_rx_fold_keeps g f ms : forall s,
  ss_sub (fold_left (add_rx rx_name g f) ms s) = ss_sub s /\
  q_grp (ss_d (fold_left (add_rx rx_name g f) ms s)) = q_grp (ss_d s).
Proof.
  induction ms as [|k r IH]; intro s; simpl; [auto|].
  destruct (IH (add_rx rx_name g f s k)) as [E1 E2]. rewrite E1, E2.
  unfold add_rx. destruct (dt_loader (tab_get (ss_d s) k)); simpl; auto.
Qed.

Lemma filter_one_sub_clean w s f s' : sub_clean w s -> filter_one s f = Some s' -> sub_clean w s'.
Proof.
  intros [Hs Hg] H. unfold Delayed.filter_one in H.
  destruct (q_tab (ss_d s) f); [inversion H; subst; split; simpl; auto|].
  destruct (q_tg (ss_d s) f); [inversion H; subst; split; simpl; auto|].
  destruct (q_tab (ss_d s) (base_of f)) as [tb|].
  - destruct (dt_loader tb); [|discriminate]. inversion H; subst. split; simpl; auto.
  - match type of H with context [is_nil ?m] => destruct (is_nil m); [discriminate|] end.
    inversion H; subst. clear H.
    match goal with |- sub_clean w (fold_left ?F ?ms ?s0) => destruct (add_rx_fold_keeps (ss_gnext s) f ms s0) as [E1 E2] end.
    split.
    + rewrite E1. exact Hs.
    + intro g. rewrite E2. simpl. unfold upd. destruct (N.eqb g (ss_gnext s)); simpl.
      * apply matched_skips_sub. exact Hs.
      * apply Hg.
Qed.

Lemma filter_tasks_sub_clean w fs : forall s s', sub_clean w s -> filter_tasks s fs = Some s' -> sub_clean w s'.
Proof.
  induction fs as [|f r IH]; intros s s' C H; simpl in H.
  - inversion H; subst. exact C.
  - destruct (filter_one s f) as [s1|] eqn:E; [|discriminate].
    eapply IH; [|exact H]. eapply filter_one_sub_clean; eauto.
Qed.

(* the word w is selected as a sub-task of a delayed task (control.py 214-223): from then on ... *)
Lemma subtask_word_never_in_regex_group s w tb T s1 fs s2 :
  q_tab (ss_d s) w = None -> q_tg (ss_d s) w = None -> q_tab (ss_d s) (base_of w) = Some tb -> dt_loader tb = Some T ->
  (forall g, ~ In w (g_tasks (q_grp (ss_d s) g))) ->
  filter_one s w = Some s1 -> filter_tasks s1 fs = Some s2 ->
  In w (ss_sub s2) /\ (forall g, ~ In w (g_tasks (q_grp (ss_d s2) g))) /\
  (forall f, ~ In w (matched (ss_d s2) (ss_order s2) (ss_sub s2) f)).
Proof.
  intros H1 H2 H3 H4 Hg E1 E2.
  assert (C1 : sub_clean w s1).
  { unfold Delayed.filter_one in E1. rewrite H1, H2, H3, H4 in E1. inversion E1; subst. split; simpl; auto. }
  destruct (filter_tasks_sub_clean w fs s1 s2 C1 E2) as [A B].
  split; [exact A|]. split; [exact B|]. intro f. apply matched_skips_sub. exact A.
Qed.
End SubPlaceholders.

(* ---------- who is asked for a command-line target (control.py 225-247): the candidates are exactly `matched` ---------- *)
Section Candidates.
Variable sv : selver.
Variable base_of : name -> name.
Variable is_rx : name -> bool.
Variable rmatch : name -> name -> bool.
Variable rx_name : name -> name -> name.
Variable auto : bool.
Local Notation matched := (Delayed.matched sv is_rx rmatch auto).
Local Notation add_rx := (Delayed.add_rx rx_name).
Local Notation filter_one := (Delayed.filter_one sv base_of is_rx rmatch rx_name auto).

(* membership in `matched`, spelled out: a placeholder (not a `_regex_target` task, not a by-name sub-task placeholder) whose
   loader DECLARES a regex that matches f, or declares none while --auto-delayed-regex is on *)
Lemma matched_iff d order sub f k :
  In k (matched d order sub f) <->
  In k order /\ is_rx k = false /\ skip_sub sv sub k = false /\
  exists T, dt_loader (tab_get d k) = Some T /\ (if l_has_regex (q_ld d T) then rmatch T f = true else auto = true).
Proof.
  unfold Delayed.matched. rewrite filter_In. split.
  - intros [Ho H]. destruct (dt_loader (tab_get d k)) as [T|] eqn:EL; [|discriminate].
    destruct (is_rx k) eqn:ER; [discriminate|]. destruct (skip_sub sv sub k) eqn:ES; [discriminate|].
    repeat split; auto. exists T. split; [reflexivity|]. destruct (l_has_regex (q_ld d T)); exact H.
  - intros (Ho & ER & ES & T & EL & H). split; [exact Ho|]. rewrite EL, ER, ES.
    destruct (l_has_regex (q_ld d T)); exact H.
Qed.

(* a declared target_regex that does not match f: never a candidate, whatever --auto-delayed-regex says *)
Lemma declared_mismatch_not_matched d order sub f k T :
  dt_loader (tab_get d k) = Some T -> l_has_regex (q_ld d T) = true -> rmatch T f = false -> ~ In k (matched d order sub f).
Proof.
  intros EL HR HM H. apply matched_iff in H. destruct H as (_ & _ & _ & T' & EL' & H).
  rewrite EL in EL'. inversion EL'; subst T'. rewrite HR in H. congruence.
Qed.

Lemma add_rx_fold g f : forall ms s0,
  (forall k, is_rx (rx_name f k) = true) ->
  (forall k, In k ms -> is_rx k = false /\ exists T, dt_loader (tab_get (ss_d s0) k) = Some T) ->
  q_torun (ss_d (fold_left (add_rx g f) ms s0)) = q_torun (ss_d s0) ++ map (rx_name f) ms /\
  q_grp (ss_d (fold_left (add_rx g f) ms s0)) = q_grp (ss_d s0).
Proof.
  induction ms as [|k r IH]; intros s0 Hrx H; simpl.
  - rewrite app_nil_r. split; reflexivity.
  - destruct (H k (or_introl eq_refl)) as [Hk [T ET]].
    assert (A : q_torun (ss_d (add_rx g f s0 k)) = q_torun (ss_d s0) ++ [rx_name f k] /\
                q_grp (ss_d (add_rx g f s0 k)) = q_grp (ss_d s0) /\
                forall x, x <> rx_name f k -> tab_get (ss_d (add_rx g f s0 k)) x = tab_get (ss_d s0) x).
    { unfold Delayed.add_rx. rewrite ET. simpl. repeat split.
      intros x Hx. unfold tab_get; simpl. unfold upd. destruct (N.eqb_spec x (rx_name f k)); [contradiction | reflexivity]. }
    destruct A as (A1 & A2 & A3).
    destruct (IH (add_rx g f s0 k) Hrx) as [B1 B2].
    { intros x Hx. destruct (H x (or_intror Hx)) as [Rx [Tx ETx]]. split; [exact Rx|]. exists Tx.
      rewrite A3; [exact ETx|]. intro Heq. rewrite Heq, Hrx in Rx. discriminate. }
    rewrite B1, B2, A1, A2, <- app_assoc. split; reflexivity.
Qed.

Theorem regex_candidates_exact s f s' :
  q_tab (ss_d s) f = None -> q_tg (ss_d s) f = None -> q_tab (ss_d s) (base_of f) = None ->
  (forall k, is_rx (rx_name f k) = true) ->
  filter_one s f = Some s' ->
  let ms := matched (ss_d s) (ss_order s) (ss_sub s) f in
  ms <> [] /\
  q_torun (ss_d s') = q_torun (ss_d s) ++ map (rx_name f) ms /\
  q_grp (ss_d s') (ss_gnext s) = Build_rgroup f ms false /\
  (forall k, In k ms <->
     In k (ss_order s) /\ is_rx k = false /\ skip_sub sv (ss_sub s) k = false /\
     exists T, dt_loader (tab_get (ss_d s) k) = Some T /\
               (if l_has_regex (q_ld (ss_d s) T) then rmatch T f = true else auto = true)) /\
  (forall k T, dt_loader (tab_get (ss_d s) k) = Some T -> l_has_regex (q_ld (ss_d s) T) = true -> rmatch T f = false -> ~ In k ms).
Proof.
  intros H1 H2 H3 Hrx E. cbv zeta.
  remember (matched (ss_d s) (ss_order s) (ss_sub s) f) as ms eqn:Ems.
  unfold Delayed.filter_one in E. rewrite H1, H2, H3 in E. rewrite <- Ems in E.
  destruct (is_nil ms) eqn:En; [discriminate|]. injection E as E'. subst s'.
  match goal with |- context [fold_left ?F ms ?S0] => destruct (add_rx_fold (ss_gnext s) f ms S0 Hrx) as [B1 B2] end.
  { intros k Hk. rewrite Ems in Hk. pose proof (proj1 (matched_iff _ _ _ _ _) Hk) as (_ & ER & _ & T & ET & _).
    split; [exact ER|]. exists T. exact ET. }
  split; [intro Hn; rewrite Hn in En; discriminate|]. split; [exact B1|]. split.
  - rewrite B2. simpl. apply upd_same.
  - rewrite Ems. split; [intro k; apply matched_iff | intros k T; apply declared_mismatch_not_matched].
Qed.
End Candidates.
