(* CmdParseP.v -- proofs about Model/CmdParse.v, part 1: strings, getopt on rendered command
   lines, purity of parse.  Part 2 (values, precedence, rejection) is CmdParseR.v, part 3 (the two passes
   over the command line: options before the sub-command name, Command.parse_execute) is CmdParseS.v *)
From DoitV Require Import Base CmdParse.
Arguments str2type conv o v : simpl never.
Arguments validate_choice o v : simpl never.


(* ================================================================== strings *)
Lemma aeqb_refl c : aeqb c c = true. Proof. apply Ascii.eqb_refl. Qed.
Lemma aeqb_eq a b : aeqb a b = true <-> a = b. Proof. apply Ascii.eqb_eq. Qed.
Lemma aeqb_neq a b : aeqb a b = false <-> a <> b. Proof. apply Ascii.eqb_neq. Qed.
Lemma seqb_refl s : seqb s s = true. Proof. apply String.eqb_refl. Qed.
Lemma seqb_eq a b : seqb a b = true <-> a = b. Proof. apply String.eqb_eq. Qed.
Lemma seqb_neq a b : seqb a b = false <-> a <> b. Proof. apply String.eqb_neq. Qed.

Lemma sempty_true s : sempty s = true <-> s = EmptyString.
Proof. destruct s; simpl; split; congruence. Qed.
Lemma sempty_false s : sempty s = false <-> s <> EmptyString.
Proof. destruct s; simpl; split; congruence. Qed.

Lemma sprefix_app p x : sprefix p (sapp p x) = true.
Proof. induction p as [|c p IH]; simpl; auto. rewrite aeqb_refl. exact IH. Qed.
Lemma sapp_nil_r s : sapp s EmptyString = s.
Proof. induction s as [|c s IH]; simpl; auto. unfold sapp in *. simpl. rewrite IH. reflexivity. Qed.
Lemma sprefix_refl p : sprefix p p = true.
Proof. rewrite <- (sapp_nil_r p) at 2. apply sprefix_app. Qed.

Lemma smem_In s l : smem s l = true <-> In s l.
Proof.
  unfold smem. rewrite existsb_exists. split.
  - intros [y [H1 H2]]. apply seqb_eq in H2. subst; auto.
  - intros H. exists s. split; auto. apply seqb_refl.
Qed.
Lemma smem_false s l : smem s l = false <-> ~ In s l.
Proof.
  split; intros H.
  - intros Hin. apply smem_In in Hin. congruence.
  - destruct (smem s l) eqn:E; auto. apply smem_In in E. contradiction.
Qed.

(* strings without '=' *)
Fixpoint no_eq (s : string) : bool :=
  match s with EmptyString => true | String c r => negb (aeqb c ch_eq) && no_eq r end.

Lemma split_eq_noeq s : no_eq s = true -> split_eq s = (s, None).
Proof.
  induction s as [|c s IH]; simpl; auto. intros H. apply andb_true_iff in H. destruct H as [H1 H2].
  apply negb_true_iff in H1. rewrite H1. rewrite (IH H2). reflexivity.
Qed.
Lemma split_eq_app s v : no_eq s = true -> split_eq (sapp s (String ch_eq v)) = (s, Some v).
Proof.
  induction s as [|c s IH]; simpl; intros H.
  - reflexivity.
  - apply andb_true_iff in H. destruct H as [H1 H2]. apply negb_true_iff in H1.
    unfold sapp in *. simpl. rewrite H1. rewrite (IH H2). reflexivity.
Qed.
Lemma no_eq_app_eq_neq a b : no_eq a = true -> a <> sapp b (s1 ch_eq).
Proof.
  revert a. induction b as [|c b IH]; intros a H E; subst a; simpl in H.
  - discriminate.
  - apply andb_true_iff in H. destruct H as [_ H]. exact (IH _ H eq_refl).
Qed.
Lemma slen_app a b : String.length (sapp a b) = (String.length a + String.length b)%nat.
Proof. induction a as [|c a IH]; simpl; auto. Qed.
Lemma sapp_inj_r a b x : sapp a x = sapp b x -> a = b.
Proof.
  intros H.
  assert (L : String.length a = String.length b).
  { assert (H0 : String.length (sapp a x) = String.length (sapp b x)) by congruence.
    rewrite !slen_app in H0. lia. }
  unfold sapp in H.
  revert b H L. induction a as [|c a IH]; intros [|d b] H L; simpl in *; try discriminate; auto.
  inversion H. f_equal. apply IH; auto.
Qed.
Lemma sends_with_app a c : sends_with c (sapp a (s1 c)) = true.
Proof.
  induction a as [|d a IH]; simpl. apply aeqb_refl.
  unfold sapp in *. destruct (a ++ s1 c)%string eqn:E.
  - destruct a; discriminate.
  - exact IH.
Qed.
Lemma sdrop_last_app a c : sdrop_last (sapp a (s1 c)) = a.
Proof.
  induction a as [|d a IH]; simpl; auto.
  unfold sapp in *. destruct (a ++ s1 c)%string eqn:E.
  - destruct a; discriminate.
  - rewrite IH. reflexivity.
Qed.

(* ================================================================== well-formed specs *)
Definition short_ok (s : string) : bool :=
  match s with
  | EmptyString => true
  | String c EmptyString => negb (aeqb c ch_dash) && negb (aeqb c ch_colon)
  | _ => false
  end.
Definition long_names (o : cmd_option) : list string :=
  (if sempty (o_long o) then [] else [o_long o]) ++ (if sempty (o_inverse o) then [] else [o_inverse o]).
Definition opt_ok (o : cmd_option) : bool :=
  short_ok (o_short o) && no_eq (o_long o) && no_eq (o_inverse o)
  && (sempty (o_inverse o) || (is_bool (o_ty o) && negb (sempty (o_long o)))).
Fixpoint nodup_s (l : list string) : bool :=
  match l with [] => true | x :: r => negb (smem x r) && nodup_s r end.
Fixpoint nodup_n (l : list name) : bool :=
  match l with [] => true | x :: r => negb (mem x r) && nodup_n r end.
Definition shorts_of (st : pstate) : list string :=
  flat_map (fun o => if sempty (o_short o) then [] else [o_short o]) st.
Definition longs_of (st : pstate) : list string := flat_map long_names st.
(* every short name is one character other than '-' and ':'; no '=' in long/inverse names; an
   inverse name only on a bool option that has a long name; short names pairwise distinct; long and
   inverse names pairwise distinct; option names pairwise distinct *)
Definition wf_spec (st : pstate) : bool :=
  forallb opt_ok st && nodup_s (shorts_of st) && nodup_s (longs_of st) && nodup_n (map o_name st).

Lemma wf_spec_parts st : wf_spec st = true ->
  forallb opt_ok st = true /\ nodup_s (shorts_of st) = true /\ nodup_s (longs_of st) = true /\
  nodup_n (map o_name st) = true.
Proof. unfold wf_spec. rewrite !andb_true_iff. tauto. Qed.

Lemma opt_ok_parts o : opt_ok o = true ->
  short_ok (o_short o) = true /\ no_eq (o_long o) = true /\ no_eq (o_inverse o) = true /\
  (o_inverse o <> EmptyString -> is_bool (o_ty o) = true /\ o_long o <> EmptyString).
Proof.
  unfold opt_ok. rewrite !andb_true_iff, orb_true_iff, andb_true_iff, negb_true_iff.
  intros [[[H1 H2] H3] H4]. repeat split; auto.
  - destruct H4 as [H4|[H4 _]]; auto. apply sempty_true in H4. contradiction.
  - destruct H4 as [H4|[_ H4]]. apply sempty_true in H4. contradiction. apply sempty_false; auto.
Qed.

Lemma short_ok_char c : short_ok (s1 c) = true -> c <> ch_dash /\ c <> ch_colon.
Proof. simpl. rewrite andb_true_iff, !negb_true_iff, !aeqb_neq. auto. Qed.

Lemma short_ok_cases s : short_ok s = true -> s = EmptyString \/ exists c, s = s1 c.
Proof. destruct s as [|c [|d r]]; simpl; intros H; try discriminate; [left|right; exists c]; auto. Qed.

(* ---------- get_short / short_has_arg ---------- *)
Definition starts_colon (s : string) : bool :=
  match s with String e _ => aeqb e ch_colon | EmptyString => false end.

Lemma get_short_no_colon st : forallb opt_ok st = true -> starts_colon (get_short st) = false.
Proof.
  induction st as [|o r IH]; simpl; auto. rewrite andb_true_iff. intros [Ho Hr].
  destruct (opt_ok_parts o Ho) as (Hs & _).
  destruct (short_ok_cases _ Hs) as [E|[c E]]; rewrite E in *; simpl; auto.
  apply short_ok_char in Hs. destruct Hs as [_ Hc]. apply aeqb_neq in Hc. exact Hc.
Qed.

Lemma In_shorts_of r o c : In o r -> o_short o = s1 c -> In (s1 c) (shorts_of r).
Proof.
  intros Hin E. unfold shorts_of. apply in_flat_map. exists o. split; auto. rewrite E. simpl. auto.
Qed.

Lemma short_has_arg_spec st : forallb opt_ok st = true -> nodup_s (shorts_of st) = true ->
  forall o c, In o st -> o_short o = s1 c ->
  short_has_arg c (get_short st) = Some (negb (is_bool (o_ty o))).
Proof.
  induction st as [|o' r IH]; simpl; [tauto|].
  rewrite andb_true_iff. intros [Ho' Hr] Hnd o c Hin E.
  destruct (opt_ok_parts o' Ho') as (Hs & _).
  destruct (short_ok_cases _ Hs) as [E'|[c' E']].
  - rewrite E' in *. simpl in *. destruct Hin as [->|Hin]; [rewrite E' in E; discriminate|].
    apply IH; auto.
  - rewrite E' in *. simpl in Hnd. apply andb_true_iff in Hnd. destruct Hnd as [Hn1 Hn2].
    apply negb_true_iff, smem_false in Hn1.
    apply short_ok_char in Hs. destruct Hs as [_ Hc']. apply aeqb_neq in Hc'.
    pose proof (get_short_no_colon r Hr) as Hnc.
    simpl. destruct (aeqb c c') eqn:Ecc; simpl.
    + apply aeqb_eq in Ecc. subst c'. rewrite Hc'. simpl.
      destruct Hin as [->|Hin].
      * destruct (is_bool (o_ty o)); simpl; [exact (f_equal Some Hnc)|try rewrite aeqb_refl; reflexivity].
      * exfalso. apply Hn1. eapply In_shorts_of; eauto.
    + destruct Hin as [->|Hin]; [rewrite E' in E; inversion E; subst; rewrite aeqb_refl in Ecc; discriminate|].
      destruct (is_bool (o_ty o')); simpl.
      * apply IH; auto.
      * try rewrite aeqb_refl; try rewrite andb_false_r; simpl; apply IH; auto.
Qed.

(* ---------- get_long / long_has_args ---------- *)
Lemma get_long_entries st e : In e (get_long st) ->
  exists o, In o st /\ o_long o <> EmptyString /\
    ((is_bool (o_ty o) = true /\ e = o_long o) \/
     (is_bool (o_ty o) = false /\ e = sapp (o_long o) (s1 ch_eq)) \/
     (o_inverse o <> EmptyString /\ e = o_inverse o)).
Proof.
  induction st as [|o r IH]; simpl; [tauto|].
  destruct (sempty (o_long o)) eqn:El.
  - intros H. destruct (IH H) as [o' [H1 H2]]. exists o'. auto.
  - apply sempty_false in El. simpl. intros [H|H].
    + exists o. split; auto. split; auto. destruct (is_bool (o_ty o)); auto.
    + destruct (sempty (o_inverse o)) eqn:Ei.
      * destruct (IH H) as [o' [H1 H2]]. exists o'. auto.
      * apply sempty_false in Ei. destruct H as [H|H].
        -- exists o. auto 6.
        -- destruct (IH H) as [o' [H1 H2]]. exists o'. auto.
Qed.

Lemma get_long_has_long st o : In o st -> o_long o <> EmptyString ->
  In (if is_bool (o_ty o) then o_long o else sapp (o_long o) (s1 ch_eq)) (get_long st).
Proof.
  induction st as [|o' r IH]; simpl; [tauto|]. intros [->|Hin] Hl.
  - apply sempty_false in Hl. rewrite Hl. left. reflexivity.
  - destruct (sempty (o_long o')); auto. right. destruct (sempty (o_inverse o')); simpl; auto.
Qed.

Lemma get_long_has_inverse st o : In o st -> o_long o <> EmptyString -> o_inverse o <> EmptyString ->
  In (o_inverse o) (get_long st).
Proof.
  induction st as [|o' r IH]; simpl; [tauto|]. intros [->|Hin] Hl Hi.
  - apply sempty_false in Hl. apply sempty_false in Hi. rewrite Hl, Hi. right. left. reflexivity.
  - destruct (sempty (o_long o')); auto. right. destruct (sempty (o_inverse o')); simpl; auto.
Qed.

Lemma In_longs_of st o x : In o st -> In x (long_names o) -> In x (longs_of st).
Proof. intros. unfold longs_of. apply in_flat_map. exists o. auto. Qed.

Lemma nodup_s_app a b : nodup_s (a ++ b) = true ->
  nodup_s a = true /\ nodup_s b = true /\ (forall x, In x a -> In x b -> False).
Proof.
  induction a as [|y a IH]; simpl; intros H.
  - repeat split; auto.
  - apply andb_true_iff in H. destruct H as [H1 H2]. apply negb_true_iff, smem_false in H1.
    destruct (IH H2) as (Ha & Hb & Hd). repeat split; auto.
    + apply andb_true_iff. split; auto. apply negb_true_iff, smem_false.
      intros Hin. apply H1. apply in_or_app. auto.
    + intros x [->|Hx] Hxb. apply H1. apply in_or_app. auto. eapply Hd; eauto.
Qed.

(* a long or inverse name belongs to one option of the list only *)
Lemma longs_unique st : nodup_s (longs_of st) = true ->
  forall o o' x, In o st -> In o' st -> In x (long_names o) -> In x (long_names o') -> o = o'.
Proof.
  induction st as [|p r IH]; simpl; [tauto|]. intros Hnd o o' x Ho Ho' Hx Hx'.
  apply nodup_s_app in Hnd. destruct Hnd as (_ & Hr & Hd).
  destruct Ho as [->|Ho]; destruct Ho' as [->|Ho']; auto.
  - exfalso. apply (Hd x Hx). eapply In_longs_of; eauto.
  - exfalso. apply (Hd x Hx'). eapply In_longs_of; eauto.
  - eapply IH; eauto.
Qed.

Lemma long_in_names o : o_long o <> EmptyString -> In (o_long o) (long_names o).
Proof. intros H. unfold long_names. apply sempty_false in H. rewrite H. simpl. auto. Qed.
Lemma inverse_in_names o : o_inverse o <> EmptyString -> In (o_inverse o) (long_names o).
Proof. intros H. unfold long_names. apply sempty_false in H. rewrite H. apply in_or_app. simpl. auto. Qed.

Lemma long_has_args_exact_flag nm lo : In nm lo -> long_has_args nm lo = Some (false, nm).
Proof.
  intros Hin. unfold long_has_args.
  assert (Hp : In nm (filter (sprefix nm) lo)) by (apply filter_In; split; auto; apply sprefix_refl).
  destruct (filter (sprefix nm) lo) as [|p more] eqn:E; [destruct Hp|].
  apply smem_In in Hp. rewrite Hp. reflexivity.
Qed.

Lemma long_has_args_exact_value nm lo : ~ In nm lo -> In (sapp nm (s1 ch_eq)) lo ->
  long_has_args nm lo = Some (true, nm).
Proof.
  intros Hn Hin. unfold long_has_args.
  assert (Hp : In (sapp nm (s1 ch_eq)) (filter (sprefix nm) lo)) by (apply filter_In; split; auto; apply sprefix_app).
  assert (Hq : ~ In nm (filter (sprefix nm) lo)) by (intros H; apply filter_In in H; tauto).
  destruct (filter (sprefix nm) lo) as [|p more] eqn:E; [destruct Hp|].
  apply smem_In in Hp. apply smem_false in Hq. rewrite Hq, Hp. reflexivity.
Qed.

Section Spec.
Variable st : pstate.
Hypothesis WF : wf_spec st = true.

Lemma wf_opt_ok o : In o st -> opt_ok o = true.
Proof. destruct (wf_spec_parts st WF) as (H & _). rewrite forallb_forall in H. auto. Qed.

Lemma long_value_not_flag_entry o : In o st -> is_bool (o_ty o) = false -> o_long o <> EmptyString ->
  ~ In (o_long o) (get_long st).
Proof.
  intros Hin Hb Hl He.
  destruct (wf_spec_parts st WF) as (_ & _ & Hnd & _).
  destruct (opt_ok_parts o (wf_opt_ok o Hin)) as (_ & Hne & _ & Hinv).
  destruct (get_long_entries st _ He) as [o' (Hin' & Hl' & [[Hb' E]|[[Hb' E]|[Hi' E]]])].
  - assert (o = o') by (eapply (longs_unique st Hnd o o' (o_long o)); auto using long_in_names; rewrite E; auto using long_in_names).
    subst o'. congruence.
  - exact (no_eq_app_eq_neq _ _ Hne E).
  - assert (o = o') by (eapply (longs_unique st Hnd o o' (o_long o)); auto using long_in_names; rewrite E; auto using inverse_in_names).
    subst o'. destruct (Hinv Hi') as [Hb' _]. congruence.
Qed.

Lemma long_has_args_value o : In o st -> is_bool (o_ty o) = false -> o_long o <> EmptyString ->
  long_has_args (o_long o) (get_long st) = Some (true, o_long o).
Proof.
  intros Hin Hb Hl. apply long_has_args_exact_value.
  - apply long_value_not_flag_entry; auto.
  - pose proof (get_long_has_long st o Hin Hl) as H. rewrite Hb in H. exact H.
Qed.

Lemma long_has_args_flag o : In o st -> is_bool (o_ty o) = true -> o_long o <> EmptyString ->
  long_has_args (o_long o) (get_long st) = Some (false, o_long o).
Proof.
  intros Hin Hb Hl. apply long_has_args_exact_flag.
  pose proof (get_long_has_long st o Hin Hl) as H. rewrite Hb in H. exact H.
Qed.

Lemma long_has_args_inverse o : In o st -> o_inverse o <> EmptyString ->
  long_has_args (o_inverse o) (get_long st) = Some (false, o_inverse o).
Proof.
  intros Hin Hi. apply long_has_args_exact_flag.
  destruct (opt_ok_parts o (wf_opt_ok o Hin)) as (_ & _ & _ & Hinv). destruct (Hinv Hi) as [_ Hl].
  apply get_long_has_inverse; auto.
Qed.

End Spec.

(* ================================================================== rendering a command line *)
Definition dash1 (s : string) : string := String ch_dash s.
Definition dash2 (s : string) : string := String ch_dash (String ch_dash s).

(* one syntactic unit of a command line:
   IShorts fl None               -abc         a cluster of short flags (one flag: -a)
   IShorts fl (Some (o,true,v))  -abcsVALUE   flags, then a short option with its value attached (-sVALUE)
   IShorts fl (Some (o,false,v)) -abcs VALUE  flags, then a short option, value in the next argument (-s VALUE)
   ILongVal o true v             --long=VALUE
   ILongVal o false v            --long VALUE
   ILongFlag o                   --long
   IInv o                        --inverse *)
Inductive item :=
| IShorts (fl : list cmd_option) (t : option (cmd_option * bool * string))
| ILongVal (o : cmd_option) (eq : bool) (v : string)
| ILongFlag (o : cmd_option)
| IInv (o : cmd_option).

Fixpoint shorts_cat (fl : list cmd_option) (tail : string) : string :=
  match fl with [] => tail | o :: r => sapp (o_short o) (shorts_cat r tail) end.

Definition render_item (it : item) : list string :=
  match it with
  | IShorts fl None => [dash1 (shorts_cat fl EmptyString)]
  | IShorts fl (Some (o, true, v)) => [dash1 (shorts_cat fl (sapp (o_short o) v))]
  | IShorts fl (Some (o, false, v)) => [dash1 (shorts_cat fl (o_short o)); v]
  | ILongVal o true v => [dash2 (sapp (o_long o) (String ch_eq v))]
  | ILongVal o false v => [dash2 (o_long o); v]
  | ILongFlag o => [dash2 (o_long o)]
  | IInv o => [dash2 (o_inverse o)]
  end.
Definition render (items : list item) : list string := flat_map render_item items.

(* what getopt is expected to return for it *)
Definition flag_opt (o : cmd_option) : optval := (dash1 (o_short o), EmptyString).
Definition item_opts (it : item) : list optval :=
  match it with
  | IShorts fl t => map flag_opt fl ++ match t with Some (o, _, v) => [(dash1 (o_short o), v)] | None => [] end
  | ILongVal o _ v => [(dash2 (o_long o), v)]
  | ILongFlag o => [(dash2 (o_long o), EmptyString)]
  | IInv o => [(dash2 (o_inverse o), EmptyString)]
  end.

(* the unit uses options of the spec in the way their type allows *)
Definition item_ok (st : pstate) (it : item) : Prop :=
  match it with
  | IShorts fl t =>
      (forall o, In o fl -> In o st /\ is_bool (o_ty o) = true /\ o_short o <> EmptyString) /\
      match t with
      | Some (o, att, v) => In o st /\ is_bool (o_ty o) = false /\ o_short o <> EmptyString /\
                            (att = true -> v <> EmptyString)
      | None => fl <> []
      end
  | ILongVal o _ _ => In o st /\ is_bool (o_ty o) = false /\ o_long o <> EmptyString
  | ILongFlag o => In o st /\ is_bool (o_ty o) = true /\ o_long o <> EmptyString
  | IInv o => In o st /\ o_inverse o <> EmptyString
  end.

Lemma classify_short c x : c <> ch_dash -> classify (dash1 (String c x)) = TShort (String c x).
Proof. intros H. apply aeqb_neq in H. unfold dash1, classify. rewrite aeqb_refl, H. reflexivity. Qed.
Lemma classify_long nm : nm <> EmptyString -> classify (dash2 nm) = TLong nm.
Proof. intros H. apply sempty_false in H. unfold dash2, classify. rewrite !aeqb_refl, H. reflexivity. Qed.

Section Spec.
Variable st : pstate.
Hypothesis WF : wf_spec st = true.

Lemma short_char o : In o st -> o_short o <> EmptyString ->
  exists c, o_short o = s1 c /\ c <> ch_dash /\ c <> ch_colon.
Proof.
  intros Hin Hs. destruct (opt_ok_parts o (wf_opt_ok st WF o Hin)) as (Hok & _).
  destruct (short_ok_cases _ Hok) as [E|[c E]]; [contradiction|].
  exists c. split; auto. rewrite E in Hok. apply short_ok_char; auto.
Qed.

Lemma sha o c : In o st -> o_short o = s1 c ->
  short_has_arg c (get_short st) = Some (negb (is_bool (o_ty o))).
Proof.
  destruct (wf_spec_parts st WF) as (H1 & H2 & _). apply short_has_arg_spec; auto.
Qed.

Lemma do_shorts_flags fl tail next :
  (forall o, In o fl -> In o st /\ is_bool (o_ty o) = true /\ o_short o <> EmptyString) ->
  do_shorts (shorts_cat fl tail) (get_short st) next =
  match do_shorts tail (get_short st) next with
  | None => None
  | Some (os, used) => Some (map flag_opt fl ++ os, used)
  end.
Proof.
  induction fl as [|o r IH]; intros H; simpl.
  - destruct (do_shorts tail (get_short st) next) as [[os used]|]; auto.
  - destruct (H o (or_introl eq_refl)) as (Hin & Hb & Hs).
    destruct (short_char o Hin Hs) as [c (E & _)].
    rewrite E. simpl. rewrite (sha o c Hin E), Hb. simpl.
    rewrite IH by (intros; apply H; simpl; auto).
    destruct (do_shorts tail (get_short st) next) as [[os used]|]; auto.
    unfold flag_opt, dash1. rewrite E. reflexivity.
Qed.

Lemma do_shorts_attached o v next : In o st -> is_bool (o_ty o) = false -> o_short o <> EmptyString ->
  v <> EmptyString ->
  do_shorts (sapp (o_short o) v) (get_short st) next = Some ([(dash1 (o_short o), v)], false).
Proof.
  intros Hin Hb Hs Hv. destruct (short_char o Hin Hs) as [c (E & _)].
  rewrite E. simpl. rewrite (sha o c Hin E), Hb. simpl. apply sempty_false in Hv. rewrite Hv. reflexivity.
Qed.

Lemma do_shorts_separate o v : In o st -> is_bool (o_ty o) = false -> o_short o <> EmptyString ->
  do_shorts (o_short o) (get_short st) (Some v) = Some ([(dash1 (o_short o), v)], true).
Proof.
  intros Hin Hb Hs. destruct (short_char o Hin Hs) as [c (E & _)].
  rewrite E. simpl. rewrite (sha o c Hin E), Hb. reflexivity.
Qed.

Lemma shorts_cat_head fl tail :
  (forall o, In o fl -> In o st /\ is_bool (o_ty o) = true /\ o_short o <> EmptyString) ->
  (fl <> [] \/ exists c x, tail = String c x /\ c <> ch_dash) ->
  exists c x, shorts_cat fl tail = String c x /\ c <> ch_dash.
Proof.
  intros H Hne. destruct fl as [|o r]; simpl.
  - destruct Hne as [Hne|Hne]; [contradiction|exact Hne].
  - destruct (H o (or_introl eq_refl)) as (Hin & _ & Hs).
    destruct (short_char o Hin Hs) as [c (E & Hd & _)]. rewrite E. simpl. eauto.
Qed.

(* one token, result independent of the following argument *)
Lemma gstep_item1 it tok next : item_ok st it -> render_item it = [tok] ->
  gstep (get_short st) (get_long st) (classify tok) next = Some (item_opts it, false).
Proof.
  destruct it as [fl [[[o att] v]|]|o eq v|o|o]; simpl; intros Hok E.
  - destruct att; inversion E; subst tok; clear E. destruct Hok as (Hfl & Hin & Hb & Hs & Hv).
    destruct (short_char o Hin Hs) as [c (Ec & Hd & _)].
    destruct (shorts_cat_head fl (sapp (o_short o) v) Hfl) as [c' [x [Ex Hd']]].
    { right. rewrite Ec. simpl. eauto. }
    rewrite Ex, classify_short by auto. rewrite <- Ex. simpl.
    rewrite do_shorts_flags by auto. rewrite do_shorts_attached; auto.
  - inversion E; subst tok; clear E. destruct Hok as (Hfl & Hne).
    destruct (shorts_cat_head fl EmptyString Hfl) as [c' [x [Ex Hd']]]; auto.
    rewrite Ex, classify_short by auto. rewrite <- Ex. simpl.
    rewrite do_shorts_flags by auto. simpl. reflexivity.
  - destruct eq; inversion E; subst tok; clear E. destruct Hok as (Hin & Hb & Hl).
    rewrite classify_long by (destruct (o_long o); [contradiction|discriminate]).
    simpl. unfold do_longs.
    destruct (opt_ok_parts o (wf_opt_ok st WF o Hin)) as (_ & Hne & _).
    rewrite (split_eq_app _ v Hne). rewrite (long_has_args_value st WF o Hin Hb Hl). reflexivity.
  - inversion E; subst tok; clear E. destruct Hok as (Hin & Hb & Hl).
    rewrite classify_long by auto. simpl. unfold do_longs.
    destruct (opt_ok_parts o (wf_opt_ok st WF o Hin)) as (_ & Hne & _).
    rewrite (split_eq_noeq _ Hne). rewrite (long_has_args_flag st o Hin Hb Hl). reflexivity.
  - inversion E; subst tok; clear E. destruct Hok as (Hin & Hi).
    rewrite classify_long by auto. simpl. unfold do_longs.
    destruct (opt_ok_parts o (wf_opt_ok st WF o Hin)) as (_ & _ & Hne & _).
    rewrite (split_eq_noeq _ Hne). rewrite (long_has_args_inverse st WF o Hin Hi). reflexivity.
Qed.

(* two tokens: the second one is consumed as the value *)
Lemma gstep_item2 it tok v : item_ok st it -> render_item it = [tok; v] ->
  gstep (get_short st) (get_long st) (classify tok) (Some v) = Some (item_opts it, true).
Proof.
  destruct it as [fl [[[o att] v']|]|o eq v'|o|o]; simpl; intros Hok E; try discriminate.
  - destruct att; inversion E; subst; clear E. destruct Hok as (Hfl & Hin & Hb & Hs & Hv).
    destruct (short_char o Hin Hs) as [c (Ec & Hd & _)].
    destruct (shorts_cat_head fl (o_short o) Hfl) as [c' [x [Ex Hd']]].
    { right. rewrite Ec. unfold s1. eauto. }
    rewrite Ex, classify_short by auto. rewrite <- Ex. simpl.
    rewrite do_shorts_flags by auto. rewrite do_shorts_separate; auto.
  - destruct eq; inversion E; subst; clear E. destruct Hok as (Hin & Hb & Hl).
    rewrite classify_long by auto. simpl. unfold do_longs.
    destruct (opt_ok_parts o (wf_opt_ok st WF o Hin)) as (_ & Hne & _).
    rewrite (split_eq_noeq _ Hne). rewrite (long_has_args_value st WF o Hin Hb Hl). reflexivity.
Qed.

Lemma classify_item_tok it tok more : item_ok st it -> render_item it = tok :: more ->
  (exists b, classify tok = TLong b) \/ (exists b, classify tok = TShort b).
Proof.
  destruct it as [fl [[[o att] v']|]|o eq v'|o|o]; simpl; intros Hok E.
  - right. destruct Hok as (Hfl & Hin & Hb & Hs & Hv).
    destruct (short_char o Hin Hs) as [c (Ec & Hd & _)].
    destruct att; inversion E; subst; clear E.
    + destruct (shorts_cat_head fl (sapp (o_short o) v') Hfl) as [c' [x [Ex Hd']]].
      { right. rewrite Ec. simpl. eauto. }
      rewrite Ex, classify_short by auto. eauto.
    + destruct (shorts_cat_head fl (o_short o) Hfl) as [c' [x [Ex Hd']]].
      { right. rewrite Ec. unfold s1. eauto. }
      rewrite Ex, classify_short by auto. eauto.
  - right. inversion E; subst; clear E. destruct Hok as (Hfl & Hne).
    destruct (shorts_cat_head fl EmptyString Hfl) as [c' [x [Ex Hd']]]; auto.
    rewrite Ex, classify_short by auto. eauto.
  - left. destruct Hok as (Hin & Hb & Hl). destruct eq; inversion E; subst; clear E.
    + rewrite classify_long by (destruct (o_long o); [contradiction|discriminate]). eauto.
    + rewrite classify_long by auto. eauto.
  - left. destruct Hok as (Hin & Hb & Hl). inversion E; subst. rewrite classify_long by auto. eauto.
  - left. destruct Hok as (Hin & Hi). inversion E; subst. rewrite classify_long by auto. eauto.
Qed.

Lemma render_item_shape it : (exists t, render_item it = [t]) \/ (exists t v, render_item it = [t; v]).
Proof.
  destruct it as [fl [[[o [|]] v']|]|o [|] v'|o|o]; simpl; eauto.
Qed.

Lemma getopt_opt_tok so lo a rest t : classify a = t -> t <> TPos -> t <> TEnd ->
  getopt so lo (a :: rest) =
  match rest with
  | [] => match gstep so lo t None with None => None | Some (os, _) => Some (os, []) end
  | b :: rest' => match gstep so lo t (Some b) with
                  | None => None
                  | Some (os, true) => prepend os (getopt so lo rest')
                  | Some (os, false) => prepend os (getopt so lo rest)
                  end
  end.
Proof. intros E H1 H2. simpl. rewrite E. destruct t; try congruence; reflexivity. Qed.

Lemma getopt_item it tail : item_ok st it ->
  getopt (get_short st) (get_long st) (render_item it ++ tail) =
  prepend (item_opts it) (getopt (get_short st) (get_long st) tail).
Proof.
  intros Hok.
  destruct (render_item_shape it) as [[t E]|[t [v E]]]; rewrite E.
  - assert (Hc : classify t <> TPos /\ classify t <> TEnd).
    { destruct (classify_item_tok it t [] Hok E) as [[b Hc]|[b Hc]]; rewrite Hc; split; discriminate. }
    destruct Hc as [Hc1 Hc2]. simpl app.
    rewrite (getopt_opt_tok _ _ t tail (classify t) eq_refl Hc1 Hc2).
    destruct tail as [|x tail'].
    + rewrite (gstep_item1 it t None Hok E). simpl. rewrite app_nil_r. reflexivity.
    + rewrite (gstep_item1 it t (Some x) Hok E). reflexivity.
  - assert (Hc : classify t <> TPos /\ classify t <> TEnd).
    { destruct (classify_item_tok it t [v] Hok E) as [[b Hc]|[b Hc]]; rewrite Hc; split; discriminate. }
    destruct Hc as [Hc1 Hc2]. simpl app.
    rewrite (getopt_opt_tok _ _ t (v :: tail) (classify t) eq_refl Hc1 Hc2).
    rewrite (gstep_item2 it t v Hok E). reflexivity.
Qed.

Lemma getopt_render items tail : Forall (item_ok st) items ->
  getopt (get_short st) (get_long st) (render items ++ tail) =
  prepend (flat_map item_opts items) (getopt (get_short st) (get_long st) tail).
Proof.
  induction 1 as [|it r Hok Hr IH]; simpl.
  - destruct (getopt (get_short st) (get_long st) tail) as [[os args]|]; reflexivity.
  - rewrite <- app_assoc. rewrite (getopt_item it _ Hok). rewrite IH.
    destruct (getopt (get_short st) (get_long st) tail) as [[os args]|]; simpl; auto.
    rewrite app_assoc. reflexivity.
Qed.

End Spec.

(* positional arguments: what follows the options is returned untouched if it starts with
   something that is not an option, or after "--" *)
Definition positional_ok (pos : list string) : Prop :=
  match pos with [] => True | p :: _ => classify p = TPos end.

Lemma getopt_positional so lo pos : positional_ok pos -> getopt so lo pos = Some ([], pos).
Proof. destruct pos as [|p r]; simpl; auto. intros ->. reflexivity. Qed.
Lemma getopt_terminator so lo pos : getopt so lo (String ch_dash (s1 ch_dash) :: pos) = Some ([], pos).
Proof. reflexivity. Qed.

(* ================================================================== purity *)
Section WithConv.
Variable conv : N -> string -> option value.

(* ---------- purity: the current code never touches the option defaults while parsing ---------- *)
Lemma apply_opts_pure opts : forall st d, snd (apply_opts conv false st d opts) = st.
Proof.
  induction opts as [|[o v] r IH]; intros st d; simpl; auto.
  destruct (get_option st o) as [[this inv]|]; simpl; auto.
  destruct (o_ty this).
  - apply IH.
  - destruct (validate_choice this (VStr v)); simpl; auto.
    destruct (d_get d (o_name this)) as [[| | | |l]|]; simpl; auto.
  - destruct (str2type conv this (VStr v)); simpl; auto.
  - destruct (str2type conv this (VStr v)); simpl; auto.
Qed.

Lemma parse_only_pure st d argv : snd (parse_only conv st d argv) = st.
Proof.
  unfold parse_only, parse_only_gen.
  destruct (getopt (get_short st) (get_long st) argv) as [[opts args]|]; simpl; auto.
  pose proof (apply_opts_pure opts st d) as H.
  destruct (apply_opts conv false st d opts) as [[d'| |] st']; simpl in *; auto.
Qed.

Lemma parse_pure st env argv : snd (parse conv st env argv) = st.
Proof.
  unfold parse, parse_gen.
  destruct (env_phase conv env st (defaults_phase st)); simpl; auto.
  apply parse_only_pure.
Qed.

Lemma parse_twice st env argv :
  let (r1, st1) := parse conv st env argv in parse conv st1 env argv = (r1, st1).
Proof.
  pose proof (parse_pure st env argv) as H.
  destruct (parse conv st env argv) as [r1 st1] eqn:E. simpl in H. subst st1. exact E.
Qed.

End WithConv.
