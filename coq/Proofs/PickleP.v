(* PickleP.v -- proofs about Model/Pickle.v (C10: the inputs of an action executed in a worker process). *)
From DoitV Require Import Base Status History Inputs Pickle.
Open Scope Z_scope.

Lemma oget_oset_same : forall o k x, oget (oset o k x) k = Some x.
Proof.
  induction o as [|[k' y] r IH]; intros k x; simpl.
  - rewrite N.eqb_refl. reflexivity.
  - destruct (N.eqb k' k) eqn:E; simpl; rewrite E; auto.
Qed.

Lemma oget_oset_other : forall o k k' x, k' <> k -> oget (oset o k x) k' = oget o k'.
Proof.
  induction o as [|[k0 y] r IH]; intros k k' x Hne; simpl.
  - destruct (N.eqb k k') eqn:E; auto. apply N.eqb_eq in E. congruence.
  - destruct (N.eqb k0 k) eqn:E; simpl.
    + apply N.eqb_eq in E. subst k0. destruct (N.eqb k k') eqn:E2; auto. apply N.eqb_eq in E2. congruence.
    + destruct (N.eqb k0 k'); auto.
Qed.

(* the last getargs entry written under a name is what the options hold *)
Lemma oget_fold_last : forall ga o k x,
  NoDup (map fst ga) -> In (k, x) ga ->
  oget (fold_left (fun o kv => oset o (fst kv) (snd kv)) ga o) k = Some x.
Proof.
  induction ga as [|[k0 x0] r IH]; intros o k x Hnd Hin; simpl in *; [contradiction|].
  inversion Hnd as [|? ? Hnotin Hnd']; subst.
  destruct Hin as [Heq|Hin].
  - inversion Heq; subst. clear IH.
    assert (G : forall l o', ~ In k (map fst l) -> oget (fold_left (fun o kv => oset o (fst kv) (snd kv)) l o') k = oget o' k).
    { induction l as [|[k1 x1] l IHl]; intros o' Hn; simpl in *; auto.
      rewrite IHl by tauto. apply oget_oset_other. intro; subst; tauto. }
    rewrite G by assumption. apply oget_oset_same.
  - apply IH; assumption.
Qed.

Lemma pk_init_options_some : forall t o, p_options t = Some o -> pk_init_options t = t.
Proof. intros t o H. unfold pk_init_options. rewrite H. reflexivity. Qed.

Lemma pk_send_none_id : forall t, pk_send drop_none t = t.
Proof. intros [df ch o dflt ps]. reflexivity. Qed.

(* the code in /repo: the worker's action is called with exactly the keyword arguments the main process would
   have called it with *)
Lemma kwargs_worker_main : forall t ga, kwargs_worker drop_none t ga = kwargs_main t ga.
Proof. intros. unfold kwargs_worker, kwargs_main. rewrite pk_send_none_id. reflexivity. Qed.


Lemma in_prepare_kwargs : forall df ch opts params p v,
  In p params -> action_input df ch opts p = Some v -> In (p, v) (prepare_kwargs df ch opts params).
Proof.
  intros df ch opts params p v Hin Ha. unfold prepare_kwargs. apply in_flat_map.
  exists p. split; auto. rewrite Ha. simpl. auto.
Qed.

(* a getargs value read by the main process is what the worker's action receives under that name *)
Lemma kwargs_worker_getargs : forall t ga k x,
  NoDup (map fst ga) -> In (k, x) ga -> In k (p_params t) ->
  In (k, KOpt x) (kwargs_worker drop_none t ga).
Proof.
  intros t ga k x Hnd Hin Hp. rewrite kwargs_worker_main.
  unfold kwargs_main, action_kwargs.
  assert (E : pk_init_options (pk_get_task_args t ga) = pk_get_task_args t ga)
    by (eapply pk_init_options_some; reflexivity).
  rewrite E. simpl.
  apply in_prepare_kwargs.
  - unfold pk_init_options. destruct (p_options t); simpl; assumption.
  - unfold action_input. rewrite (oget_fold_last ga _ k x Hnd Hin). reflexivity.
Qed.

(* dependencies / targets / changed in the worker: the task's current file_dep, targets and the dep_changed computed
   by the status check in the main process -- for a name no option / getargs entry uses *)
Lemma kwargs_worker_meta : forall t ga v,
  (forall k, In k [arg_targets; arg_dependencies; arg_changed] -> ~ In k (map fst ga) /\ ~ In k (map fst (p_defaults t)) /\
             (forall o, p_options t = Some o -> ~ In k (map fst o))) ->
  (In (arg_targets, v) (kwargs_worker drop_none t ga) <-> In arg_targets (p_params t) /\ v = KFiles (targets (p_def t))) /\
  (In (arg_dependencies, v) (kwargs_worker drop_none t ga) <-> In arg_dependencies (p_params t) /\ v = KFiles (file_dep (p_def t))) /\
  (In (arg_changed, v) (kwargs_worker drop_none t ga) <-> In arg_changed (p_params t) /\ v = KFiles (p_changed t)).
Proof.
  intros t ga v Hfree. rewrite kwargs_worker_main. unfold kwargs_main, action_kwargs.
  assert (E : pk_init_options (pk_get_task_args t ga) = pk_get_task_args t ga)
    by (eapply pk_init_options_some; reflexivity).
  rewrite E. simpl.
  set (o0 := match p_options (pk_init_options t) with Some o => o | None => [] end).
  assert (Ho0 : forall k, In k [arg_targets; arg_dependencies; arg_changed] -> ~ In k (map fst o0)).
  { intros k Hk. destruct (Hfree k Hk) as [_ [Hd Ho]]. unfold o0, pk_init_options.
    destruct (p_options t) eqn:Eo; simpl; [rewrite Eo; eauto | assumption]. }
  assert (G : forall l o k, ~ In k (map fst l) -> oget (fold_left (fun o kv => oset o (fst kv) (snd kv)) l o) k = oget o k).
  { induction l as [|[k1 x1] l IHl]; intros o' k Hn; simpl in *; auto.
    rewrite IHl by tauto. apply oget_oset_other. intro; subst; tauto. }
  assert (N0 : forall o k, ~ In k (map fst o) -> oget o k = None).
  { induction o as [|[k1 y] r IH]; intros k Hn; simpl in *; auto.
    destruct (N.eqb k1 k) eqn:E1; [apply N.eqb_eq in E1; subst; tauto | apply IH; tauto]. }
  assert (Hget : forall k, In k [arg_targets; arg_dependencies; arg_changed] ->
            oget (fold_left (fun o kv => oset o (fst kv) (snd kv)) ga o0) k = None).
  { intros k Hk. rewrite G by (destruct (Hfree k Hk) as [Hx _]; exact Hx). apply N0. apply Ho0; assumption. }
  assert (Pdef : p_def (pk_init_options t) = p_def t) by (unfold pk_init_options; destruct (p_options t); reflexivity).
  assert (Pch : p_changed (pk_init_options t) = p_changed t) by (unfold pk_init_options; destruct (p_options t); reflexivity).
  assert (Ppar : p_params (pk_init_options t) = p_params t) by (unfold pk_init_options; destruct (p_options t); reflexivity).
  rewrite Pdef, Pch, Ppar.
  unfold prepare_kwargs.
  split; [|split]; split; intros HH.
  all: try (apply in_flat_map in HH; destruct HH as [p [Hp Hin]]; unfold action_input in Hin;
            destruct (oget _ p) eqn:Eg;
            [ simpl in Hin; destruct Hin as [Hin|[]]; inversion Hin; subst;
              rewrite Hget in Eg by (simpl; auto); discriminate
            | unfold arg_targets, arg_dependencies, arg_changed in *;
              destruct (N.eqb p 0) eqn:E0; [apply N.eqb_eq in E0; subst; simpl in Hin; destruct Hin as [Hin|[]]; inversion Hin; subst; auto|];
              destruct (N.eqb p 1) eqn:E1; [apply N.eqb_eq in E1; subst; simpl in Hin; destruct Hin as [Hin|[]]; inversion Hin; subst; auto|];
              destruct (N.eqb p 2) eqn:E2; [apply N.eqb_eq in E2; subst; simpl in Hin; destruct Hin as [Hin|[]]; inversion Hin; subst; auto|];
              simpl in Hin; contradiction ]).
  all: destruct HH as [Hp Hv]; subst v; apply in_flat_map; eexists; split; [exact Hp|];
       unfold action_input; rewrite Hget by (simpl; auto); simpl; auto.
Qed.
