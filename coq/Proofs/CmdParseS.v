(* CmdParseS.v -- proofs about Model/CmdParse.v, part 3: the two passes over the command line
   (DoitMain.run: options of the loader before the sub-command name; Command.parse_execute:
   parse what follows, then params.update(opt_vals)).  Builds on CmdParseP.v and CmdParseR.v. *)
From DoitV Require Import Base CmdParse CmdParseP CmdParseR.
Arguments str2type conv o v : simpl never.
Arguments validate_choice o v : simpl never.

(* ================================================================== dict.update *)
Lemma last_opt_app {A} (a b : list A) :
  last_opt (a ++ b) = match last_opt b with Some y => Some y | None => last_opt a end.
Proof.
  induction a as [|x a IH]; simpl.
  - destruct (last_opt b); reflexivity.
  - rewrite IH. destruct (last_opt b); reflexivity.
Qed.
Lemma last_opt_none {A} (l : list A) : last_opt l = None -> l = [].
Proof. destruct l as [|x r]; simpl; auto. destruct (last_opt r); discriminate. Qed.

Lemma items_update_get u : forall l k,
  items_get (items_update l u) k = match lookup_last u k with Some x => Some x | None => items_get l k end.
Proof.
  unfold items_update, lookup_last.
  induction u as [|[k0 v0] r IH]; intros l k; simpl; auto.
  rewrite IH, items_get_set, last_opt_app. rewrite (N.eqb_sym k0 k).
  destruct (last_opt (flat_map (fun kv => if N.eqb (fst kv) k then [snd kv] else []) r)); auto.
  destruct (N.eqb k k0); reflexivity.
Qed.

Lemma dict_update_get d u k :
  d_get (dict_update d u) k = match lookup_last u k with Some x => Some x | None => d_get d k end.
Proof. unfold d_get, dict_update. simpl. apply items_update_get. Qed.
Lemma dict_update_nd d u : d_nd (dict_update d u) = d_nd d.
Proof. reflexivity. Qed.

(* d[key] = val for every entry: same values as dict.update, and every key marked *)
Lemma dict_assign_get u : forall d k,
  d_get (dict_assign d u) k = match lookup_last u k with Some x => Some x | None => d_get d k end.
Proof.
  unfold dict_assign, lookup_last.
  induction u as [|[k0 v0] r IH]; intros d k; simpl; auto.
  rewrite IH, d_get_setitem, last_opt_app. rewrite (N.eqb_sym k0 k).
  destruct (last_opt (flat_map (fun kv => if N.eqb (fst kv) k then [snd kv] else []) r)); auto.
  destruct (N.eqb k k0); reflexivity.
Qed.
Lemma dict_assign_nd u : forall d k,
  mem k (d_nd (dict_assign d u)) = (mem k (d_nd d) || mem k (map fst u))%bool.
Proof.
  unfold dict_assign. induction u as [|[k0 v0] r IH]; intros d k; simpl.
  - rewrite orb_false_r. reflexivity.
  - rewrite IH, nd_setitem. simpl. destruct (N.eqb k k0); destruct (mem k (d_nd d)); reflexivity.
Qed.

(* a dictionary has one entry per key *)
Definition keys_ok (l : list (name * value)) : Prop := nodup_n (map fst l) = true.

Lemma items_set_keys l k v x : In x (map fst (items_set l k v)) <-> x = k \/ In x (map fst l).
Proof.
  induction l as [|[k' v'] r IH]; simpl.
  - intuition.
  - destruct (N.eqb_spec k' k) as [E|E]; simpl.
    + subst. intuition.
    + rewrite IH. intuition.
Qed.
Lemma items_set_keys_ok l k v : keys_ok l -> keys_ok (items_set l k v).
Proof.
  unfold keys_ok. induction l as [|[k' v'] r IH]; simpl; auto.
  rewrite andb_true_iff, negb_true_iff. intros [H1 H2].
  destruct (N.eqb_spec k' k) as [E|E]; simpl.
  - rewrite H1, H2. reflexivity.
  - rewrite (IH H2), andb_true_r. apply negb_true_iff.
    destruct (mem k' (map fst (items_set r k v))) eqn:M; auto.
    apply mem_In in M. apply items_set_keys in M. destruct M as [M|M]; [congruence|].
    apply mem_In in M. congruence.
Qed.

Lemma lookup_last_keys_ok u k : keys_ok u -> lookup_last u k = items_get u k.
Proof.
  unfold keys_ok, lookup_last. induction u as [|[k0 v0] r IH]; simpl; auto.
  rewrite andb_true_iff, negb_true_iff. intros [H1 H2]. rewrite last_opt_app, (IH H2).
  destruct (N.eqb_spec k0 k) as [E|E]; simpl.
  - subst k0. destruct (items_get r k) eqn:G; auto. exfalso.
    assert (In k (map fst r)).
    { clear -G. induction r as [|[a b] r IH]; simpl in *; [discriminate|].
      destruct (N.eqb_spec a k); auto. }
    apply mem_In in H. congruence.
  - destruct (items_get r k); reflexivity.
Qed.

Lemma mem_items_set l k0 v k : mem k (map fst (items_set l k0 v)) = (N.eqb k k0 || mem k (map fst l))%bool.
Proof. apply eq_true_iff_eq. rewrite orb_true_iff, !mem_In, items_set_keys, N.eqb_eq. tauto. Qed.

(* dictionaries built by item assignment only: the keys present are the keys marked *)
Definition marks_ok (d : params) : Prop := forall k, mem k (map fst (d_items d)) = mem k (d_nd d).
Lemma marks_ok_setitem d k v : marks_ok d -> marks_ok (d_setitem d k v).
Proof. intros H k'. rewrite nd_setitem. simpl. rewrite mem_items_set, H. reflexivity. Qed.

Section TwoPass.
Variable conv : N -> string -> option value.

Lemma apply_asgs_marks_ok l : forall d d', marks_ok d -> apply_asgs conv d l = Ok d' -> marks_ok d'.
Proof.
  induction l as [|a l IH]; intros d d' K H.
  - simpl in H. inversion H; subst; auto.
  - rewrite apply_asgs_cons in H. destruct (asg_value conv d a) as [x| |]; try discriminate.
    exact (IH _ _ (marks_ok_setitem d (asg_key a) x K) H).
Qed.

Lemma apply_asgs_keys_ok l : forall d d', keys_ok (d_items d) -> apply_asgs conv d l = Ok d' -> keys_ok (d_items d').
Proof.
  induction l as [|a l IH]; intros d d' K H.
  - simpl in H. inversion H; subst; auto.
  - rewrite apply_asgs_cons in H. destruct (asg_value conv d a) as [x| |]; try discriminate.
    refine (IH (d_setitem d (asg_key a) x) d' _ H). simpl. apply items_set_keys_ok; auto.
Qed.

(* ================================================================== pass 1 *)
(* the options of the loader written before the first positional argument (the sub-command name, a
   task name) or before "--": the dictionary handed to the command holds exactly what was written;
   everything from the first positional argument on is left untouched for pass 2 *)
Lemma pre_parse_render lst items t pos : wf_spec lst = true -> Forall (item_ok lst) items -> tail_of t pos ->
  pre_parse conv lst (render items ++ t) =
  match apply_asgs conv d_empty (asgs_of items) with
  | Ok d => Ok (d_items d, pos)
  | ParseError => Ok ([], render items ++ t)
  | Crash => Crash
  end.
Proof.
  intros WF Hok Ht. unfold pre_parse.
  rewrite (parse_only_render lst WF conv items t d_empty [] pos Hok (getopt_tail _ _ t pos Ht) eq_refl).
  simpl. destruct (apply_asgs conv d_empty (asgs_of items)); reflexivity.
Qed.

(* the first pass never touches the parser of the loader *)
Lemma pre_parse_pure lst args : snd (parse_only conv lst d_empty args) = lst.
Proof. apply parse_only_pure. Qed.

(* the value an option was given by a list of assignments: a flag: True/False of the last
   -s/--long/--inverse; any other (non-list) option: the last string written, converted *)
Definition written (o : cmd_option) (l : list asg) (v : value) : Prop :=
  if is_bool (o_ty o)
  then exists b, last_opt (flags_of (o_name o) l) = Some b /\ v = VBool b
  else exists s, last_opt (vals_of (o_name o) l) = Some s /\ str2type conv o (VStr s) = Ok v.

Section Spec.
Variable lst : pstate.
Hypothesis WF : wf_spec lst = true.

Lemma assigned_flags l o : Forall (asg_ok lst) l -> In o lst -> is_bool (o_ty o) = true ->
  assigned (o_name o) l = true -> flags_of (o_name o) l <> [].
Proof.
  intros Hok Ho Hb Ha. unfold assigned in Ha. apply existsb_exists in Ha. destruct Ha as [a [Hin Hk]].
  apply N.eqb_eq in Hk. rewrite Forall_forall in Hok.
  pose proof (asg_key_opt lst WF a o (Hok a Hin) Ho Hk) as Eo.
  destruct a as [oa v|oa b]; simpl in Eo; subst oa.
  - destruct (Hok _ Hin) as [_ H]. congruence.
  - intros E. assert (In b (flags_of (o_name o) l)); [|rewrite E in H; destruct H].
    unfold flags_of. apply in_flat_map. exists (AFlag o b). split; auto. rewrite N.eqb_refl. simpl; auto.
Qed.
Lemma assigned_vals l o : Forall (asg_ok lst) l -> In o lst -> is_bool (o_ty o) = false ->
  assigned (o_name o) l = true -> vals_of (o_name o) l <> [].
Proof.
  intros Hok Ho Hb Ha. unfold assigned in Ha. apply existsb_exists in Ha. destruct Ha as [a [Hin Hk]].
  apply N.eqb_eq in Hk. rewrite Forall_forall in Hok.
  pose proof (asg_key_opt lst WF a o (Hok a Hin) Ho Hk) as Eo.
  destruct a as [oa v|oa b]; simpl in Eo; subst oa.
  - intros E. assert (In v (vals_of (o_name o) l)); [|rewrite E in H; destruct H].
    unfold vals_of. apply in_flat_map. exists (ASet o v). split; auto. rewrite N.eqb_refl. simpl; auto.
  - destruct (Hok _ Hin) as [_ H]. simpl in H. congruence.
Qed.

(* the dictionary of pass 1: a key for every option written and for no other; each holds the value
   written last; one entry per key *)
Lemma pre_values l d : Forall (asg_ok lst) l -> apply_asgs conv d_empty l = Ok d ->
  (forall k, assigned k l = false -> d_get d k = None) /\
  (forall o, In o lst -> assigned (o_name o) l = true -> is_list (o_ty o) = false ->
             exists v, written o l v /\ d_get d (o_name o) = Some v) /\
  keys_ok (d_items d) /\
  (forall k, mem k (map fst (d_items d)) = assigned k l).
Proof.
  intros Hok Ha. split; [|split; [|split]].
  - intros k E. destruct (apply_asgs_frame conv l d_empty d Ha k) as [_ F]. rewrite (F E). reflexivity.
  - intros o Ho Has Hl. unfold written. destruct (is_bool (o_ty o)) eqn:Hb.
    + rewrite (apply_asgs_bool conv lst WF l d_empty d Hok Ha o Ho Hb).
      destruct (last_opt (flags_of (o_name o) l)) as [b|] eqn:E.
      * exists (VBool b). split; eauto.
      * apply last_opt_none in E. exfalso. exact (assigned_flags l o Hok Ho Hb Has E).
    + pose proof (apply_asgs_scalar conv lst WF l d_empty d Hok Ha o Ho Hb Hl) as S.
      destruct (last_opt (vals_of (o_name o) l)) as [s|] eqn:E.
      * destruct S as [x [S1 S2]]. exists x. split; eauto.
      * apply last_opt_none in E. exfalso. exact (assigned_vals l o Hok Ho Hb Has E).
  - apply (apply_asgs_keys_ok l d_empty d); auto. reflexivity.
  - intros k. rewrite (apply_asgs_marks_ok l d_empty d (fun _ => eq_refl) Ha k).
    destruct (apply_asgs_frame conv l d_empty d Ha k) as [F _]. exact F.
Qed.

End Spec.

(* ================================================================== pass 2 *)
Lemma parse_execute_ok st ov env a p args st' : parse_execute conv st ov env a = (Ok (p, args), st') ->
  exists d, parse conv st env a = (Ok (d, args), st') /\ p = (if is_nil st then dict_update d ov else dict_assign d ov).
Proof.
  unfold parse_execute. destruct (parse conv st env a) as [[[d args0]| |] st0]; intros H; inversion H; subst.
  exists d. auto.
Qed.

(* purity: parse_execute leaves the parser of the command (the defaults of its options) as it
   was, so executing the same arguments again with the same command object gives the same *)
Lemma parse_execute_pure st ov env a : snd (parse_execute conv st ov env a) = st.
Proof.
  unfold parse_execute. pose proof (parse_pure conv st env a) as H.
  destruct (parse conv st env a) as [[[d args0]| |] st0]; simpl in *; auto.
Qed.
Lemma parse_execute_twice st ov env a :
  let (r1, st1) := parse_execute conv st ov env a in parse_execute conv st1 ov env a = (r1, st1).
Proof.
  pose proof (parse_execute_pure st ov env a) as H.
  destruct (parse_execute conv st ov env a) as [r1 st1] eqn:E. simpl in H. subst st1. exact E.
Qed.

(* values: [pre] are the units written before the sub-command name (options of the loader, parser
   lst), [post] the units after it (parser st1 of the command).
   1. an option written before the sub-command name has the value written there (the last one of
      those before the name), whatever follows the name, the environment and the defaults say;
   2. every other key is what parsing the rest alone gives (d: see parsed_values / C16_roundtrip_values:
      command line after the name > environment > default held by the parser);
   3. the keys marked non-default are those of d and the options written before the name (repair
      7ef8d1a: opt_vals are assigned key by key) *)
Lemma two_pass_values lst st1 env pre d0 post t pos p args st' :
  wf_spec lst = true -> Forall (item_ok lst) pre -> apply_asgs conv d_empty (asgs_of pre) = Ok d0 ->
  wf_spec st1 = true -> Forall (item_ok st1) post -> tail_of t pos ->
  parse_execute conv st1 (d_items d0) env (render post ++ t) = (Ok (p, args), st') ->
  args = pos /\ st' = st1 /\
  exists d, parse conv st1 env (render post ++ t) = (Ok (d, pos), st1) /\
    (forall ol, In ol lst -> assigned (o_name ol) (asgs_of pre) = true -> is_list (o_ty ol) = false ->
                exists v, written ol (asgs_of pre) v /\ d_get p (o_name ol) = Some v) /\
    (forall k, assigned k (asgs_of pre) = false -> d_get p k = d_get d k) /\
    (st1 <> [] -> forall k, mem k (d_nd p) = (mem k (d_nd d) || assigned k (asgs_of pre))%bool).
Proof.
  intros WFl Hpre Ha WF1 Hpost Ht H.
  destruct (parse_execute_ok _ _ _ _ _ _ _ H) as [d [Hp ->]].
  destruct (parse_render_ok conv st1 env post t pos d args st' WF1 Hpost Ht Hp) as (-> & -> & _).
  split; auto. split; auto. exists d. split; auto.
  destruct (pre_values lst WFl (asgs_of pre) d0 (asgs_of_ok lst WFl pre Hpre) Ha) as (P1 & P2 & P3 & P4).
  assert (G : forall k, d_get (if is_nil st1 then dict_update d (d_items d0) else dict_assign d (d_items d0)) k =
                        match d_get d0 k with Some x => Some x | None => d_get d k end).
  { intros k. destruct (is_nil st1); [rewrite dict_update_get|rewrite dict_assign_get];
      rewrite (lookup_last_keys_ok _ _ P3); reflexivity. }
  split; [|split].
  - intros ol Ho Has Hl. destruct (P2 ol Ho Has Hl) as [v [W E]]. exists v. split; auto.
    rewrite G, E. reflexivity.
  - intros k E. rewrite G, (P1 k E). reflexivity.
  - intros Hne k. destruct st1 as [|o r]; [congruence|]. simpl. rewrite dict_assign_nd, P4. reflexivity.
Qed.

(* the whole chain for the params handed to `execute` (what loader.setup receives):
   command line before the sub-command name > command line after it > environment variable >
   configuration (overwrite_defaults: GLOBAL/command section) > declared default *)
Lemma two_pass_precedence lst st0 cfg st1 env pre d0 post t pos p args st' :
  wf_spec lst = true -> Forall (item_ok lst) pre -> apply_asgs conv d_empty (asgs_of pre) = Ok d0 ->
  wf_spec st0 = true -> overwrite_defaults conv st0 cfg = (Ok tt, st1) ->
  Forall (item_ok st1) post -> tail_of t pos ->
  parse_execute conv st1 (d_items d0) env (render post ++ t) = (Ok (p, args), st') ->
  args = pos /\ st' = st1 /\
  exists d, parse conv st1 env (render post ++ t) = (Ok (d, pos), st1) /\
    (forall ol, In ol lst -> assigned (o_name ol) (asgs_of pre) = true -> is_list (o_ty ol) = false ->
                exists v, written ol (asgs_of pre) v /\ d_get p (o_name ol) = Some v) /\
    (forall o1, In o1 st1 -> let k := o_name o1 in assigned k (asgs_of pre) = false ->
       exists o0, find_opt st0 k = Some o0 /\ o1 = set_opt_default o0 (o_default o1) /\
         d_get p k =
           if assigned k (asgs_of post) then d_get d k
           else match env_str env o1 with
                | Some s => match str2type conv o1 (VStr s) with Ok x => Some x | _ => None end
                | None => match lookup_last cfg k with
                          | Some v => match str2type conv o0 v with Ok x => Some x | _ => None end
                          | None => Some (o_default o0)
                          end
                end).
Proof.
  intros WFl Hpre Ha WF0 Hov Hpost Ht H.
  assert (WF1 : wf_spec st1 = true) by (rewrite (overwrite_defaults_wf conv cfg st0 st1 Hov); auto).
  destruct (two_pass_values lst st1 env pre d0 post t pos p args st' WFl Hpre Ha WF1 Hpost Ht H)
    as (E1 & E2 & d & Hp & V1 & V2 & _).
  split; auto. split; auto. exists d. split; auto. split; auto.
  intros o1 Ho1 k E. subst k.
  destruct (pipeline_precedence conv st0 cfg st1 env post t pos d pos st1 [] WF0 Hov Hpost Ht Hp o1 Ho1)
    as [o0 (F & Eo & G)].
  exists o0. split; auto. split; auto. rewrite (V2 _ E). exact G.
Qed.

(* DoitCmdBase.execute then merges DOIT_CONFIG with update_defaults: a key is protected iff the
   environment or the command line -- before or after the sub-command name -- set it *)
Lemma two_pass_doit_config lst st1 env pre d0 post t pos p args st' dodo :
  wf_spec lst = true -> Forall (item_ok lst) pre -> apply_asgs conv d_empty (asgs_of pre) = Ok d0 ->
  wf_spec st1 = true -> Forall (item_ok st1) post -> tail_of t pos ->
  parse_execute conv st1 (d_items d0) env (render post ++ t) = (Ok (p, args), st') ->
  forall o1, In o1 st1 -> let k := o_name o1 in
  d_get (update_defaults p dodo) k =
    if (assigned k (asgs_of pre) || assigned k (asgs_of post) ||
        (match env_str env o1 with Some _ => true | None => false end))%bool
    then d_get p k
    else match lookup_last dodo k with Some x => Some x | None => d_get p k end.
Proof.
  intros WFl Hpre Ha WF1 Hpost Ht H o1 Ho1 k. subst k.
  destruct (two_pass_values lst st1 env pre d0 post t pos p args st' WFl Hpre Ha WF1 Hpost Ht H)
    as (_ & _ & d & Hp & _ & _ & Nd).
  assert (Hne : st1 <> []) by (intros E; rewrite E in Ho1; destruct Ho1).
  destruct (parsed_values conv st1 env post t pos d pos st1 WF1 Hpost Ht Hp o1 Ho1) as [b (_ & _ & _ & Bn)].
  cbv zeta in Bn. destruct (update_defaults_spec dodo p (o_name o1)) as [_ U]. rewrite U, (Nd Hne), Bn.
  destruct (assigned (o_name o1) (asgs_of pre)); destruct (assigned (o_name o1) (asgs_of post));
    destruct (env_str env o1); reflexivity.
Qed.

(* the whole chain after DOIT_CONFIG was merged: command line (before or after the sub-command name)
   > environment variable > DOIT_CONFIG > configuration > declared default *)
Lemma two_pass_final_precedence lst st0 cfg st1 env pre d0 post t pos p args st' dodo :
  wf_spec lst = true -> Forall (item_ok lst) pre -> apply_asgs conv d_empty (asgs_of pre) = Ok d0 ->
  wf_spec st0 = true -> overwrite_defaults conv st0 cfg = (Ok tt, st1) ->
  Forall (item_ok st1) post -> tail_of t pos ->
  parse_execute conv st1 (d_items d0) env (render post ++ t) = (Ok (p, args), st') ->
  forall o1, In o1 st1 -> let k := o_name o1 in
  exists o0, find_opt st0 k = Some o0 /\ o1 = set_opt_default o0 (o_default o1) /\
    d_get (update_defaults p dodo) k =
      if (assigned k (asgs_of pre) || assigned k (asgs_of post))%bool then d_get p k
      else match env_str env o1 with
           | Some s => match str2type conv o1 (VStr s) with Ok x => Some x | _ => None end
           | None =>
               match lookup_last dodo k with
               | Some x => Some x
               | None => match lookup_last cfg k with
                         | Some v => match str2type conv o0 v with Ok x => Some x | _ => None end
                         | None => Some (o_default o0)
                         end
               end
           end.
Proof.
  intros WFl Hpre Ha WF0 Hov Hpost Ht H o1 Ho1 k. subst k.
  assert (WF1 : wf_spec st1 = true) by (rewrite (overwrite_defaults_wf conv cfg st0 st1 Hov); auto).
  rewrite (two_pass_doit_config lst st1 env pre d0 post t pos p args st' dodo WFl Hpre Ha WF1 Hpost Ht H o1 Ho1).
  destruct (two_pass_precedence lst st0 cfg st1 env pre d0 post t pos p args st' WFl Hpre Ha WF0 Hov Hpost Ht H)
    as (_ & _ & d & Hp & _ & V).
  destruct (assigned (o_name o1) (asgs_of pre)) eqn:Epre.
  - destruct (pipeline_precedence conv st0 cfg st1 env post t pos d pos st1 [] WF0 Hov Hpost Ht Hp o1 Ho1)
      as [o0 (F & Eo & _)]. exists o0. simpl. auto.
  - destruct (V o1 Ho1 Epre) as [o0 (F & Eo & G)]. exists o0. split; auto. split; auto. simpl.
    destruct (assigned (o_name o1) (asgs_of post)) eqn:Epost; auto.
    rewrite G. destruct (env_str env o1) as [s|]; simpl; auto.
Qed.

(* ================================================================== DoitMain.run *)
(* arguments process_args leaves alone: not a NAME=VALUE variable (the empty argument is one of them) *)
Definition plain_arg (a : string) : Prop := sprefix (s1 ch_dash) a = true \/ snd (split_eq a) = None.

Lemma process_args_plain args : Forall plain_arg args -> process_args args = ([], args).
Proof.
  induction 1 as [|a r Ha Hr IH]; [reflexivity|]. cbn [process_args]. rewrite IH.
  destruct Ha as [Ha|Ha]; [rewrite Ha; reflexivity|].
  destruct (sprefix (s1 ch_dash) a); auto.
  destruct (split_eq a) as [n [v|]]; simpl in Ha; [discriminate|reflexivity].
Qed.

Definition not_special (args : list string) : Prop :=
  match args with a :: _ => (seqb a "--version" || seqb a "--help")%bool = false | [] => True end.

(* `doit <pre> <rest>`: the command is chosen by the first argument left by pass 1, and executes
   with the options of pass 1 as opt_vals *)
Lemma main_run_render cl env dodo pre t rest d0 :
  wf_spec (mk_parser (c_loader cl)) = true -> Forall (item_ok (mk_parser (c_loader cl))) pre ->
  tail_of t rest -> Forall plain_arg rest -> not_special (render pre ++ t) ->
  apply_asgs conv d_empty (asgs_of pre) = Ok d0 ->
  main_run conv cl env dodo (render pre ++ t) =
  let (nm, in_args) := select_cmd (c_cmds cl) rest in
  match find_cmd (c_cmds cl) nm with
  | Some c => exec_cmd conv cl c (d_items d0) env dodo in_args
  | None => ParseError
  end.
Proof.
  intros WF Hpre Ht Hpl Hns Ha. unfold main_run.
  assert (S : match render pre ++ t with
              | a :: _ => if (seqb a "--version" || seqb a "--help")%bool then Some a else None
              | [] => None end = None).
  { unfold not_special in Hns. destruct (render pre ++ t); auto. rewrite Hns. reflexivity. }
  rewrite S. rewrite (pre_parse_render _ pre t rest WF Hpre Ht), Ha.
  rewrite (process_args_plain rest Hpl). reflexivity.
Qed.

Lemma exec_cmd_ok cl c ov env dodo in_args r : exec_cmd conv cl c ov env dodo in_args = Ok r ->
  exists st1 p st', cmd_parser conv cl c = (Ok tt, st1) /\
    parse_execute conv st1 ov env in_args = (Ok (p, r_pos r), st') /\
    r_cmd r = cm_name c /\ r_setup r = p /\ r_final r = (if cm_task c then update_defaults p dodo else p).
Proof.
  unfold exec_cmd. destruct (cmd_parser conv cl c) as [[[]| |] st1] eqn:E; try discriminate.
  destruct (parse_execute conv st1 ov env in_args) as [[[p pos]| |] st'] eqn:P; simpl; try discriminate.
  destruct (cm_task c && is_nil st1)%bool; intros H; inversion H; subst.
  exists st1, p, st'. simpl. auto.
Qed.

(* errors: whatever goes wrong while the command and its parser are built (an ill-typed value or an
   invalid choice in the configuration) or while it parses its arguments makes DoitMain.run return 3;
   the only exception that leaves DoitMain.run comes from pass 1 *)
Lemma exec_cmd_config_error cl c ov env dodo in_args :
  fst (cmd_parser conv cl c) <> Ok tt -> exec_cmd conv cl c ov env dodo in_args = ParseError.
Proof.
  unfold exec_cmd. destruct (cmd_parser conv cl c) as [[[]| |] st1]; simpl; intros H; auto. congruence.
Qed.
Lemma exec_cmd_parse_error cl c ov env dodo in_args st1 :
  cmd_parser conv cl c = (Ok tt, st1) -> (forall r, fst (parse conv st1 env in_args) <> Ok r) ->
  exec_cmd conv cl c ov env dodo in_args = ParseError.
Proof.
  unfold exec_cmd, parse_execute. intros -> H.
  destruct (parse conv st1 env in_args) as [[[d a]| |] st']; simpl in *; auto. exfalso. exact (H _ eq_refl).
Qed.
Lemma exec_cmd_no_crash cl c ov env dodo in_args : exec_cmd conv cl c ov env dodo in_args <> Crash.
Proof.
  unfold exec_cmd. destruct (cmd_parser conv cl c) as [[[]| |] st1]; try discriminate.
  destruct (fst (parse_execute conv st1 ov env in_args)) as [[p pos]| |]; try discriminate.
  destruct (cm_task c && is_nil st1)%bool; discriminate.
Qed.
Lemma main_run_crash cl env dodo args : main_run conv cl env dodo args = Crash ->
  pre_parse conv (mk_parser (c_loader cl)) args = Crash.
Proof.
  unfold main_run.
  destruct (match args with
            | a :: _ => if (seqb a "--version" || seqb a "--help")%bool then Some a else None
            | [] => None end); [discriminate|].
  destruct (pre_parse conv (mk_parser (c_loader cl)) args) as [[ov cmd_args]| |] eqn:E; auto.
  - destruct (select_cmd (c_cmds cl) (snd (process_args cmd_args))) as [nm in_args].
    destruct (find_cmd (c_cmds cl) nm); [|discriminate].
    intros H. exfalso. exact (exec_cmd_no_crash _ _ _ _ _ _ H).
  - exfalso. unfold pre_parse in E.
    destruct (fst (parse_only conv (mk_parser (c_loader cl)) d_empty args)) as [[d a]| |]; discriminate.
Qed.

End TwoPass.

(* ---------------------------------------------------------------- several commands on one config object
   HONEST NOTE: these are bookkeeping lemmas, not deep ones.  The model of Command.__init__
   (`config_vals`) takes the configuration as a VALUE and returns a fresh list, so building a command
   cannot change what the next one sees: `init_pure` is the identity and the induction below only
   unfolds it.  That the real Command.__init__ does not write into the shared dict is what the
   correspondence check establishes (harness/c16.py part seq: params of every step compared with
   `seq_scenario`, i.e. with THIS function, and the config object compared with a deep copy taken
   before).  The content of the statement is the contrast with `init_shared` (refuted in
   Properties/C16.v): it says which function of the ORIGINAL config each command of a sequence gets. *)
Lemma with_config_same cl : with_config cl (c_config cl) = cl.
Proof. destruct cl; reflexivity. Qed.

Section Seq.
Variable conv : N -> string -> option value.

Lemma main_seq_pure cl env dodo steps :
  main_seq conv init_pure cl env dodo steps = map (step_run conv cl env dodo) steps.
Proof.
  induction steps as [|s r IH]; simpl; [reflexivity|].
  f_equal. unfold init_pure. rewrite with_config_same. destruct (built_by conv cl s); exact IH.
Qed.

(* the config object after the whole sequence is the one before it *)
Fixpoint seq_config (eff : list (string * list (name * value)) -> string -> list (string * list (name * value)))
         (cl : cli) (steps : list seq_step) : list (string * list (name * value)) :=
  match steps with
  | [] => c_config cl
  | s :: r => seq_config eff (match built_by conv cl s with
                              | Some nm => with_config cl (eff (c_config cl) nm)
                              | None => cl
                              end) r
  end.
Lemma seq_config_pure cl steps : seq_config init_pure cl steps = c_config cl.
Proof.
  induction steps as [|s r IH]; simpl; [reflexivity|].
  unfold init_pure. rewrite with_config_same. destruct (built_by conv cl s); exact IH.
Qed.

(* command X (built only, or run), then command Y: Y gets what it gets alone *)
Lemma commands_independent cl env dodo before y :
  nth_error (main_seq conv init_pure cl env dodo (before ++ [SRun y])) (length before)
  = Some (ORun (main_run conv cl env dodo y)).
Proof.
  rewrite main_seq_pure, map_app, nth_error_app2; rewrite map_length; [|apply Nat.le_refl].
  rewrite Nat.sub_diag. reflexivity.
Qed.

Lemma main_run_twice cl env dodo a :
  main_seq conv init_pure cl env dodo [SRun a; SRun a] = [ORun (main_run conv cl env dodo a); ORun (main_run conv cl env dodo a)].
Proof. apply main_seq_pure. Qed.
End Seq.
