(* OutcomeP.v -- run outcomes as functions of the reports, independent of the order in which the
   reports arrive (C08). *)
From Coq Require Import Permutation.
From DoitV Require Import Base Dispatch Runner RunnerTr.
Open Scope N_scope.

Lemma forallb_perm {A} (f : A -> bool) l l' : Permutation l l' -> forallb f l = forallb f l'.
Proof.
  induction 1 as [|x l l' _ IH|x y l|l l' l'' _ IH1 _ IH2]; simpl; auto.
  - now rewrite IH.
  - destruct (f x), (f y); reflexivity.
  - congruence.
Qed.

Definition code_of_kinds (ks : list N) : N :=
  match ks with [] => 0 | _ => if forallb (N.eqb 0) ks then 1 else 2 end.

Lemma code_of_kinds_perm ks ks' : Permutation ks ks' -> code_of_kinds ks = code_of_kinds ks'.
Proof.
  intros H. unfold code_of_kinds. rewrite (forallb_perm _ _ _ H).
  destruct ks, ks'; auto.
  - apply Permutation_nil in H. discriminate.
  - apply Permutation_sym, Permutation_nil in H. discriminate.
Qed.

Lemma code_of_eq tr : code_of tr = code_of_kinds (fail_kinds tr).
Proof. unfold code_of, code_of_kinds. destruct (fail_kinds tr); reflexivity. Qed.
Lemma code_of_perm tr tr' : Permutation (fail_kinds tr) (fail_kinds tr') -> code_of tr = code_of tr'.
Proof. intros H. rewrite !code_of_eq. apply (code_of_kinds_perm _ _ H). Qed.

(* the running value of Runner.final_result after any sequence of _handle_task_error calls equals
   code_of_kinds of the reported kinds: it is sticky on ERROR (2) *)
Definition bump (fin kind : N) : N := if (kind =? kind_failed) && negb (fin =? 2) then 1 else 2.
Lemma fold_bump ks : forall ks0, fold_left bump ks (code_of_kinds ks0) = code_of_kinds (ks0 ++ ks).
Proof.
  induction ks as [|k ks IH]; intros ks0; simpl.
  - now rewrite app_nil_r.
  - replace (ks0 ++ k :: ks) with ((ks0 ++ [k]) ++ ks) by (rewrite <- app_assoc; reflexivity).
    rewrite <- IH. f_equal. unfold bump, kind_failed.
    destruct ks0 as [|a ks0].
    + unfold code_of_kinds. cbn [app forallb]. rewrite andb_true_r, (N.eqb_sym 0 k). destruct (k =? 0); reflexivity.
    + change ((a :: ks0) ++ [k]) with (a :: (ks0 ++ [k])). unfold code_of_kinds.
      change (forallb (N.eqb 0) (a :: ks0 ++ [k])) with ((0 =? a) && forallb (N.eqb 0) (ks0 ++ [k])).
      change (forallb (N.eqb 0) (a :: ks0)) with ((0 =? a) && forallb (N.eqb 0) ks0).
      rewrite forallb_app. cbn [forallb]. rewrite andb_true_r, (N.eqb_sym 0 k).
      destruct (0 =? a), (forallb (N.eqb 0) ks0), (k =? 0); reflexivity.
Qed.
Lemma final_result_is_code ks : fold_left bump ks 0 = code_of_kinds ks.
Proof. exact (fold_bump ks []). Qed.
