(* ActionP.v -- proofs about Model/Action.v *)
From Coq Require Import ZifyBool.
From DoitV Require Import Base Action.
Open Scope Z_scope.

(* ---------- classification ---------- *)
Lemma py_classify_ok t : py_classify t = AOk <-> t = RTrue \/ t = RNone \/ t = RStr \/ t = RDict.
Proof. destruct t; simpl; split; intros H; try discriminate; auto;
       repeat (destruct H as [H|H]; try discriminate); auto. Qed.

Lemma py_classify_failed t : py_classify t = AFailed <-> t = RFalse \/ t = RTaskFailed.
Proof. destruct t; simpl; split; intros H; try discriminate; auto;
       repeat (destruct H as [H|H]; try discriminate); auto. Qed.

Lemma py_classify_error t :
  py_classify t = AError <-> t = RRaises \/ t = RTaskError \/ t = ROther.
Proof. destruct t; simpl; split; intros H; try discriminate; auto;
       repeat (destruct H as [H|H]; try discriminate); auto. Qed.

Lemma cmd_classify_spec rc :
  (cmd_classify rc = AOk <-> rc = 0) /\
  (cmd_classify rc = AFailed <-> rc <> 0 /\ rc <= 125) /\
  (cmd_classify rc = AError <-> rc > 125).
Proof.
  unfold cmd_classify.
  destruct (rc >? 125) eqn:E1; destruct (rc =? 0) eqn:E2; simpl;
    repeat split; intros; try discriminate; try lia.
Qed.

(* ---------- Task.execute ---------- *)
(* the prefix of successful actions, and the first unsuccessful one if any *)
Fixpoint ok_prefix (acts : list act) : list act :=
  match acts with
  | [] => []
  | a :: r => match a_out a with AOk => a :: ok_prefix r | _ => [] end
  end.
Fixpoint first_bad (acts : list act) : option act :=
  match acts with
  | [] => None
  | a :: r => match a_out a with AOk => first_bad r | _ => Some a end
  end.

Definition last_result (res : option Z) (acts : list act) : option Z :=
  fold_left (fun _ a => a_result a) acts res.
Definition merged_values (vals : list (Z * Z)) (acts : list act) : list (Z * Z) :=
  fold_left (fun v a => dict_update v (a_values a)) acts vals.

Lemma task_execute_spec acts : forall res vals ran,
  let x := task_execute acts res vals ran in
  x_out x = match first_bad acts with None => AOk | Some a => a_out a end /\
  x_result x = last_result res (ok_prefix acts) /\
  x_values x = merged_values vals (ok_prefix acts) /\
  x_ran x = (ran + length (ok_prefix acts) + match first_bad acts with None => 0 | Some _ => 1 end)%nat.
Proof.
  induction acts as [|a r IH]; intros res vals ran; cbn [task_execute first_bad ok_prefix].
  - simpl. repeat split; lia.
  - destruct (a_out a) eqn:E.
    + specialize (IH (a_result a) (dict_update vals (a_values a)) (S ran)).
      cbv zeta in IH. destruct IH as (H1 & H2 & H3 & H4).
      repeat split; auto. rewrite H4. simpl. lia.
    + simpl. rewrite E. repeat split; lia.
    + simpl. rewrite E. repeat split; lia.
Qed.

Lemma first_bad_not_ok acts a : first_bad acts = Some a -> a_out a <> AOk.
Proof.
  induction acts as [|b r IH]; simpl; try discriminate.
  destruct (a_out b) eqn:E; auto; intros H; inversion H; subst; congruence.
Qed.

Lemma ok_prefix_all_ok acts a : In a (ok_prefix acts) -> a_out a = AOk.
Proof.
  induction acts as [|b r IH]; simpl; try tauto.
  destruct (a_out b) eqn:E; simpl; try tauto. intros [<-|H]; auto.
Qed.

Lemma ok_prefix_is_prefix acts :
  exists rest, acts = ok_prefix acts ++ rest /\
               match first_bad acts with None => rest = [] | Some a => exists r, rest = a :: r end.
Proof.
  induction acts as [|b r IH]; simpl.
  - exists []. auto.
  - destruct (a_out b) eqn:E.
    + destruct IH as [rest [H1 H2]]. exists rest. split; auto. simpl. congruence.
    + exists (b :: r). split; auto. exists r; auto.
    + exists (b :: r). split; auto. exists r; auto.
Qed.

(* ---------- capture ---------- *)
Lemma chunks_app e a b : chunks e (a ++ b) = chunks e a ++ chunks e b.
Proof. unfold chunks. rewrite filter_app, map_app. reflexivity. Qed.

Lemma capture_complete v ws :
  c_out (py_capture v ws) = chunks false ws /\ c_err (py_capture v ws) = chunks true ws /\
  c_live_out (py_capture v ws) = (if (v =? 0) || (v =? 1) then [] else chunks false ws) /\
  c_live_err (py_capture v ws) = (if v =? 0 then [] else chunks true ws).
Proof.
  unfold py_capture, live_out, live_err; simpl. repeat split.
  - destruct (v =? 0); destruct (v =? 1); reflexivity.
  - destruct (v =? 0); reflexivity.
Qed.

(* ---------- the global stream cell ---------- *)
Lemma sstep_frame lg s o i :
  sop_id o <> i ->
  s_saved (sstep lg s o) i = s_saved s i /\ s_live (sstep lg s o) i = s_live s i.
Proof.
  intros Hne. destruct o as [j kf|j]; simpl in *.
  - destruct kf; [destruct lg|]; simpl; auto.
    unfold updn. destruct (Nat.eqb_spec i j); [congruence|auto].
  - destruct (s_live s j); simpl; auto.
    unfold updn. destruct (Nat.eqb_spec i j); [congruence|auto].
Qed.

Lemma fold_frame lg l : forall s i,
  ~ In i (map sop_id l) ->
  s_saved (fold_left (sstep lg) l s) i = s_saved s i /\ s_live (fold_left (sstep lg) l s) i = s_live s i.
Proof.
  induction l as [|o l IH]; intros s i Hn; simpl in *; auto.
  destruct (IH (sstep lg s o) i) as [H1 H2]; [tauto|].
  destruct (sstep_frame lg s o i) as [H3 H4]; [intro; apply Hn; auto|].
  split; congruence.
Qed.

Lemma nested_restores l : nested l -> forall s, s_cell (fold_left (sstep false) l s) = s_cell s.
Proof.
  induction 1 as [|i l Hl IH|i l1 l2 H1 IH1 H2 IH2 Hfresh]; intros s.
  - reflexivity.
  - simpl. apply IH.
  - cbn [fold_left]. rewrite fold_left_app. cbn [fold_left].
    set (s1 := sstep false s (Enter i false)).
    set (s2 := fold_left (sstep false) l1 s1).
    rewrite IH2.
    destruct (fold_frame false l1 s1 i Hfresh) as [Hs Hl].
    fold s2 in Hs, Hl.
    assert (Hlive : s_live s1 i = true) by (unfold s1; simpl; unfold updn; rewrite Nat.eqb_refl; reflexivity).
    assert (Hsav : s_saved s1 i = s_cell s) by (unfold s1; simpl; unfold updn; rewrite Nat.eqb_refl; reflexivity).
    unfold sstep at 1. rewrite Hl, Hlive. simpl. rewrite Hs, Hsav. reflexivity.
Qed.

(* sequential execution is the special case with nothing nested inside *)
Fixpoint sequential (ids : list (nat * bool)) : list sop :=
  match ids with
  | [] => []
  | (i, true) :: r => Enter i true :: sequential r
  | (i, false) :: r => Enter i false :: Exit i :: sequential r
  end.
Lemma sequential_nested ids : nested (sequential ids).
Proof.
  induction ids as [|[i [|]] r IH]; simpl.
  - constructor.
  - constructor; auto.
  - apply (n_app i [] (sequential r)); auto. constructor.
Qed.
