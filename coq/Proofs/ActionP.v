(* ActionP.v -- proofs about Model/Action.v *)
From Coq Require Import ZifyBool.
From DoitV Require Import Base Action.
Open Scope Z_scope.

(* ---------- classification ---------- *)
Lemma py_classify_ok t : py_classify t = AOk <-> t = RTrue \/ t = RNone \/ t = RStr \/ t = RDict.
Proof. destruct t; simpl; split; intros H; try discriminate; auto;
       repeat (destruct H as [H|H]; try discriminate); auto. Qed.

Lemma py_classify_failed t : py_classify t = AFailed <-> t = RFalse \/ t = RTaskFailed.
Proof. destruct t; simpl; split; intros H; try discriminate; auto;
       repeat (destruct H as [H|H]; try discriminate); auto. Qed.

Lemma py_classify_error t :
  py_classify t = AError <-> t = RRaises \/ t = RTaskError \/ t = ROther.
Proof. destruct t; simpl; split; intros H; try discriminate; auto;
       repeat (destruct H as [H|H]; try discriminate); auto. Qed.

Lemma py_classify_propagates t : py_classify t = APropagates <-> t = RBaseExc.
Proof. destruct t; simpl; split; intros H; try discriminate; auto. Qed.

Lemma cmd_classify_spec rc :
  (cmd_classify rc = AOk <-> rc = 0) /\
  (cmd_classify rc = AFailed <-> rc <> 0 /\ rc <= 125) /\
  (cmd_classify rc = AError <-> rc > 125).
Proof.
  unfold cmd_classify.
  destruct (rc >? 125) eqn:E1; destruct (rc =? 0) eqn:E2; simpl;
    repeat split; intros; try discriminate; try lia.
Qed.

Lemma cmd_classify_returns rc : cmd_classify rc <> APropagates.
Proof. unfold cmd_classify. destruct (rc >? 125); [discriminate|]. destruct (rc =? 0); discriminate. Qed.

Lemma cmd_execute_spec x rc :
  (cmd_execute x rc = APropagates <-> x = XBaseExc) /\
  (x = XRaises -> cmd_execute x rc = AError) /\
  (x = XString -> cmd_execute x rc = cmd_classify rc).
Proof.
  repeat split; try (intros ->; reflexivity).
  destruct x; simpl; intros H; try discriminate; auto.
  exfalso. exact (cmd_classify_returns rc H).
Qed.

(* ---------- Task.execute ---------- *)
(* the prefix of successful actions, and the first unsuccessful one if any *)
Fixpoint ok_prefix (acts : list act) : list act :=
  match acts with
  | [] => []
  | a :: r => match a_out a with AOk => a :: ok_prefix r | _ => [] end
  end.
Fixpoint first_bad (acts : list act) : option act :=
  match acts with
  | [] => None
  | a :: r => match a_out a with AOk => first_bad r | _ => Some a end
  end.

Definition last_result (res : option Z) (acts : list act) : option Z :=
  fold_left (fun _ a => a_result a) acts res.
Definition merged_values (vals : list (Z * Z)) (acts : list act) : list (Z * Z) :=
  fold_left (fun v a => dict_update v (a_values a)) acts vals.

Lemma task_execute_spec acts : forall res vals ran,
  let x := task_execute acts res vals ran in
  x_out x = match first_bad acts with None => AOk | Some a => a_out a end /\
  x_result x = last_result res (ok_prefix acts) /\
  x_values x = merged_values vals (ok_prefix acts) /\
  x_ran x = (ran + length (ok_prefix acts) + match first_bad acts with None => 0 | Some _ => 1 end)%nat.
Proof.
  induction acts as [|a r IH]; intros res vals ran; cbn [task_execute first_bad ok_prefix].
  - simpl. repeat split; lia.
  - destruct (a_out a) eqn:E.
    + specialize (IH (a_result a) (dict_update vals (a_values a)) (S ran)).
      cbv zeta in IH. destruct IH as (H1 & H2 & H3 & H4).
      repeat split; auto. rewrite H4. simpl. lia.
    + simpl. rewrite E. repeat split; lia.
    + simpl. rewrite E. repeat split; lia.
    + simpl. rewrite E. repeat split; lia.
Qed.

Lemma first_bad_not_ok acts a : first_bad acts = Some a -> a_out a <> AOk.
Proof.
  induction acts as [|b r IH]; simpl; try discriminate.
  destruct (a_out b) eqn:E; auto; intros H; inversion H; subst; congruence.
Qed.

Lemma ok_prefix_all_ok acts a : In a (ok_prefix acts) -> a_out a = AOk.
Proof.
  induction acts as [|b r IH]; simpl; try tauto.
  destruct (a_out b) eqn:E; simpl; try tauto. intros [<-|H]; auto.
Qed.

Lemma ok_prefix_is_prefix acts :
  exists rest, acts = ok_prefix acts ++ rest /\
               match first_bad acts with None => rest = [] | Some a => exists r, rest = a :: r end.
Proof.
  induction acts as [|b r IH]; simpl.
  - exists []. auto.
  - destruct (a_out b) eqn:E.
    + destruct IH as [rest [H1 H2]]. exists rest. split; auto. simpl. congruence.
    + exists (b :: r). split; auto. exists r; auto.
    + exists (b :: r). split; auto. exists r; auto.
    + exists (b :: r). split; auto. exists r; auto.
Qed.

(* ---------- writing into a stream ---------- *)
Lemma chunks_app e a b : chunks e (a ++ b) = chunks e a ++ chunks e b.
Proof. unfold chunks. rewrite filter_app, map_app. reflexivity. Qed.

Lemma chunks_cons e w ws : chunks e (w :: ws) = (if Bool.eqb (fst w) e then [snd w] else []) ++ chunks e ws.
Proof. unfold chunks. simpl. destruct (Bool.eqb (fst w) e); reflexivity. Qed.

(* the executions whose StringIO a write into [t] reaches, and whether it reaches the original stream *)
Fixpoint writer_ids (t : stream) : list nat :=
  match t with SWriter i f => i :: writer_ids f | _ => [] end.
Fixpoint reaches_orig (t : stream) : bool :=
  match t with SOrig => true | SWriter _ f => reaches_orig f | _ => false end.

Lemma updn_same {A} (f : nat -> A) k v : updn f k v k = v.
Proof. unfold updn. rewrite Nat.eqb_refl. reflexivity. Qed.
Lemma updn_other {A} (f : nat -> A) k v x : x <> k -> updn f k v x = f x.
Proof. unfold updn. intros H. destruct (Nat.eqb_spec x k); [contradiction|reflexivity]. Qed.

(* a write changes no cell, no saved value, no attribute *)
Lemma deliver_frame t : forall c s,
  s_cell (deliver t c s) = s_cell s /\ s_saved (deliver t c s) = s_saved s /\
  s_live (deliver t c s) = s_live s /\ s_cap (deliver t c s) = s_cap s /\ s_attr (deliver t c s) = s_attr s.
Proof.
  induction t as [| |k|i f IH]; intros c s; simpl; auto.
  destruct (IH c (add_buf s i c)) as (H1 & H2 & H3 & H4 & H5). simpl in *. auto.
Qed.

Lemma deliver_buf_other t : forall c s i, ~ In i (writer_ids t) -> s_buf (deliver t c s) i = s_buf s i.
Proof.
  induction t as [| |k|j f IH]; intros c s i Hn; simpl in *; auto.
  rewrite IH by tauto. simpl. apply updn_other. intro; apply Hn; auto.
Qed.

Lemma deliver_orig t : forall c s, s_orig (deliver t c s) = s_orig s ++ (if reaches_orig t then [c] else []).
Proof.
  induction t as [| |k|j f IH]; intros c s; simpl; try (rewrite app_nil_r; reflexivity); auto.
  rewrite IH. reflexivity.
Qed.

(* ---------- the global stream cell ---------- *)
Lemma sstep_frame lg b s o i :
  ~ In i (sop_ids o) ->
  s_saved (sstep lg b s o) i = s_saved s i /\ s_live (sstep lg b s o) i = s_live s i /\
  s_cap (sstep lg b s o) i = s_cap s i /\ s_attr (sstep lg b s o) i = s_attr s i.
Proof.
  intros Hne. destruct o as [j mo me|e c|j e]; simpl in *.
  - assert (i <> j) by (intro; apply Hne; left; congruence).
    destruct (if b then me else mo); [destruct lg| | |]; simpl; auto;
      rewrite ?updn_other by assumption; auto.
  - destruct (Bool.eqb e b); auto.
    destruct (deliver_frame (s_cell s) c s) as (_ & H2 & H3 & H4 & H5). rewrite H2, H3, H4, H5. auto.
  - assert (i <> j) by (intro; apply Hne; left; congruence).
    destruct (s_live s j); simpl; auto.
    rewrite ?updn_other by assumption. destruct (s_cap s j); rewrite ?updn_other by assumption; auto.
Qed.

Lemma fold_frame lg b l : forall s i,
  ~ In i (ids_of l) ->
  s_saved (fold_left (sstep lg b) l s) i = s_saved s i /\ s_live (fold_left (sstep lg b) l s) i = s_live s i /\
  s_cap (fold_left (sstep lg b) l s) i = s_cap s i /\ s_attr (fold_left (sstep lg b) l s) i = s_attr s i.
Proof.
  induction l as [|o l IH]; intros s i Hn; simpl in *; auto.
  unfold ids_of in Hn. simpl in Hn. rewrite in_app_iff in Hn.
  destruct (IH (sstep lg b s o) i) as (H1 & H2 & H3 & H4); [tauto|].
  destruct (sstep_frame lg b s o i) as (H5 & H6 & H7 & H8); [tauto|].
  repeat split; congruence.
Qed.

Lemma write_cell lg b s e c : s_cell (sstep lg b s (Write e c)) = s_cell s.
Proof. simpl. destruct (Bool.eqb e b); auto. apply deliver_frame. Qed.

Lemma nested_restores b l : nested l -> forall s, s_cell (fold_left (sstep false b) l s) = s_cell s.
Proof.
  induction 1 as [|i l Hl IH|e c l Hl IH|i mo me e l1 l2 Hmo Hme H1 IH1 H2 IH2 Hfresh]; intros s.
  - reflexivity.
  - simpl. destruct b; apply IH.
  - cbn [fold_left]. rewrite IH. apply write_cell.
  - cbn [fold_left]. rewrite fold_left_app. cbn [fold_left].
    set (s1 := sstep false b s (Enter i mo me)).
    set (s2 := fold_left (sstep false b) l1 s1).
    rewrite IH2.
    destruct (fold_frame false b l1 s1 i Hfresh) as (Hs & Hl & _ & _).
    fold s2 in Hs, Hl.
    assert (Hc2 : s_cell s2 = s_cell s1) by (apply IH1).
    unfold sstep at 1.
    (* what Enter did, by mode *)
    assert (Hm : (s_live s1 i = true /\ s_saved s1 i = s_cell s) \/ (s_live s1 i = false /\ s_cell s1 = s_cell s)).
    { unfold s1. simpl. destruct (if b then me else mo) eqn:Em.
      - exfalso. destruct b; congruence.
      - left. simpl. rewrite !updn_same. auto.
      - left. simpl. rewrite !updn_same. auto.
      - right. simpl. rewrite updn_same. auto. }
    destruct Hm as [[Hlive Hsav]|[Hlive Hcell]].
    + rewrite Hl, Hlive. simpl. rewrite Hs, Hsav. reflexivity.
    + rewrite Hl, Hlive. congruence.
Qed.

Lemma nested_app l1 : nested l1 -> forall l2, nested l2 -> nested (l1 ++ l2).
Proof.
  induction 1 as [|i l Hl IH|e c l Hl IH|i mo me e la lb Hmo Hme Ha IHa Hb IHb Hfresh]; intros l2 H2; simpl; auto.
  - constructor; auto.
  - constructor; auto.
  - rewrite <- app_assoc. simpl. apply n_app; auto.
Qed.

(* self.out, once set, stays set *)
Lemma sstep_attr_some lg b s o i : s_attr s i <> None -> s_attr (sstep lg b s o) i <> None.
Proof.
  intros H. destruct o as [j mo me|e c|j e]; simpl.
  - destruct (if b then me else mo); [destruct lg| | |]; simpl; auto.
  - destruct (Bool.eqb e b); auto.
    destruct (deliver_frame (s_cell s) c s) as (_ & _ & _ & _ & H5). rewrite H5. auto.
  - destruct (s_live s j); simpl; auto. destruct (s_cap s j); auto.
    unfold updn. destruct (Nat.eqb i j); [discriminate|auto].
Qed.

Lemma fold_attr_some lg b l : forall s i, s_attr s i <> None -> s_attr (fold_left (sstep lg b) l s) i <> None.
Proof.
  induction l as [|o l IH]; intros s i H; simpl; auto.
  apply IH. apply sstep_attr_some. exact H.
Qed.

(* every capturing execution of a properly nested sequence has set self.out at the end, however
   the callables ended *)
Lemma nested_attr_set (b : bool) l : nested l -> forall s i mo me f,
  In (Enter i mo me) l -> (if b then me else mo) = MCapture f ->
  s_attr (fold_left (sstep false b) l s) i <> None.
Proof.
  induction 1 as [|i0 l Hl IH|e0 c0 l Hl IH|i0 mo0 me0 e0 l1 l2 Hmo Hme H1 IH1 H2 IH2 Hfresh];
    intros s i mo me f Hin Hm.
  - destruct Hin.
  - destruct Hin as [Heq|Hin].
    + inversion Heq; subst. destruct b; discriminate.
    + cbn [fold_left]. eapply IH; eauto.
  - destruct Hin as [Heq|Hin]; [discriminate|].
    cbn [fold_left]. eapply IH; eauto.
  - cbn [fold_left]. rewrite fold_left_app. cbn [fold_left].
    set (s1 := sstep false b s (Enter i0 mo0 me0)).
    set (s2 := fold_left (sstep false b) l1 s1).
    destruct Hin as [Heq|Hin].
    + inversion Heq; subst i0 mo0 me0. apply fold_attr_some.
      destruct (fold_frame false b l1 s1 i Hfresh) as (_ & Hl & Hc & _). fold s2 in Hl, Hc.
      assert (Hlive : s_live s1 i = true /\ s_cap s1 i = true).
      { unfold s1. simpl. rewrite Hm. simpl. rewrite !updn_same. auto. }
      destruct Hlive as [Hlive Hcap].
      simpl. rewrite Hl, Hlive. simpl. rewrite Hc, Hcap. rewrite updn_same. discriminate.
    + apply in_app_or in Hin. destruct Hin as [Hin|[Heq|Hin]].
      * apply fold_attr_some. apply sstep_attr_some. eapply IH1; eauto.
      * discriminate.
      * eapply IH2; eauto.
Qed.

(* ---------- one action, from any state ---------- *)
Lemma wops_ids ws : ids_of (wops ws) = [].
Proof. induction ws as [|w ws IH]; simpl; auto. Qed.

Lemma wops_nested ws : nested (wops ws).
Proof. induction ws as [|w ws IH]; simpl; constructor; auto. Qed.

Lemma writes_frame lg b ws : forall s,
  let s' := fold_left (sstep lg b) (wops ws) s in
  s_cell s' = s_cell s /\ s_saved s' = s_saved s /\ s_live s' = s_live s /\ s_cap s' = s_cap s /\ s_attr s' = s_attr s.
Proof.
  induction ws as [|w ws IH]; intros s; cbv zeta.
  - simpl. auto.
  - cbn [wops map fold_left]. fold (wops ws).
    pose proof (IH (sstep lg b s (Write (fst w) (snd w)))) as H. cbv zeta in H.
    destruct H as (H1 & H2 & H3 & H4 & H5). rewrite H1, H2, H3, H4, H5. simpl.
    destruct (Bool.eqb (fst w) b); auto. apply deliver_frame.
Qed.

Lemma writes_buf lg b i f ws : forall s,
  s_cell s = SWriter i f -> ~ In i (writer_ids f) ->
  s_buf (fold_left (sstep lg b) (wops ws) s) i = s_buf s i ++ chunks b ws.
Proof.
  induction ws as [|w ws IH]; intros s Hc Hn.
  - simpl. rewrite app_nil_r. reflexivity.
  - cbn [wops map fold_left]. fold (wops ws). rewrite IH; auto.
    + rewrite chunks_cons. simpl. destruct (Bool.eqb (fst w) b); simpl; auto.
      rewrite Hc. simpl. rewrite deliver_buf_other by assumption. simpl.
      rewrite updn_same. rewrite <- app_assoc. reflexivity.
    + rewrite write_cell. exact Hc.
Qed.

Lemma writes_buf_other lg b i ws : forall s,
  ~ In i (writer_ids (s_cell s)) -> s_buf (fold_left (sstep lg b) (wops ws) s) i = s_buf s i.
Proof.
  induction ws as [|w ws IH]; intros s Hn; auto.
  cbn [wops map fold_left]. fold (wops ws). rewrite IH.
  - simpl. destruct (Bool.eqb (fst w) b); auto. apply deliver_buf_other. exact Hn.
  - rewrite write_cell. exact Hn.
Qed.

Lemma writes_orig lg b ws : forall s,
  s_orig (fold_left (sstep lg b) (wops ws) s) = s_orig s ++ (if reaches_orig (s_cell s) then chunks b ws else []).
Proof.
  induction ws as [|w ws IH]; intros s.
  - simpl. destruct (reaches_orig (s_cell s)); rewrite app_nil_r; reflexivity.
  - cbn [wops map fold_left]. fold (wops ws). rewrite IH. rewrite write_cell. rewrite chunks_cons.
    simpl. destruct (Bool.eqb (fst w) b); simpl; auto.
    rewrite deliver_orig. destruct (reaches_orig (s_cell s)); simpl; rewrite <- ?app_assoc; auto.
Qed.

Definition one_action (i : nat) (mo me : emode) (ws : list (bool * Z)) (e : rtag) : list sop :=
  Enter i mo me :: wops ws ++ [Exit i e].

(* capture on: whatever the state before, whatever way [e] the callable ends (an escaping
   BaseException included): the cell is what it was, self.out is exactly what was written, and
   the live stream got the same *)
Lemma action_capture lg (b : bool) s i mo me f ws e :
  (if b then me else mo) = MCapture f -> ~ In i (writer_ids f) ->
  let s' := fold_left (sstep lg b) (one_action i mo me ws e) s in
  s_cell s' = s_cell s /\ s_attr s' i = Some (chunks b ws) /\
  s_orig s' = s_orig s ++ (if reaches_orig f then chunks b ws else []) /\
  (forall j, j <> i -> s_attr s' j = s_attr s j).
Proof.
  intros Hm Hn. unfold one_action. cbn [fold_left]. rewrite fold_left_app. cbn [fold_left].
  set (s1 := sstep lg b s (Enter i mo me)).
  assert (E1 : s1 = enter_swap s i (SWriter i f) true) by (unfold s1; simpl; rewrite Hm; reflexivity).
  set (s2 := fold_left (sstep lg b) (wops ws) s1).
  destruct (writes_frame lg b ws s1) as (H1 & H2 & H3 & H4 & H5). fold s2 in H1, H2, H3, H4, H5.
  assert (Hb : s_buf s2 i = chunks b ws).
  { unfold s2. rewrite (writes_buf lg b i f); auto.
    - rewrite E1. simpl. rewrite updn_same. reflexivity.
    - rewrite E1. reflexivity. }
  assert (Ho : s_orig s2 = s_orig s ++ (if reaches_orig f then chunks b ws else [])).
  { unfold s2. rewrite writes_orig. rewrite E1. simpl. reflexivity. }
  simpl. rewrite H3, H4, H2, H5, E1. simpl. rewrite !updn_same. simpl.
  repeat split; auto.
  - rewrite updn_same. rewrite Hb. reflexivity.
  - intros j Hj. rewrite updn_other by assumption. reflexivity.
Qed.

(* capture off: the cell is what it was, self.out is not touched, the output went to the stream
   given (or to the one that was installed, when none was given) *)
Lemma action_nocapture lg (b : bool) s i mo me ws e :
  (exists t, (if b then me else mo) = MRedirect t) \/ (if b then me else mo) = MKeep ->
  let s' := fold_left (sstep lg b) (one_action i mo me ws e) s in
  s_cell s' = s_cell s /\ s_attr s' = s_attr s /\
  s_orig s' = s_orig s ++ (if reaches_orig (match (if b then me else mo) with MRedirect t => t | _ => s_cell s end)
                           then chunks b ws else []).
Proof.
  intros Hm. unfold one_action. cbn [fold_left]. rewrite fold_left_app. cbn [fold_left].
  set (s1 := sstep lg b s (Enter i mo me)).
  set (s2 := fold_left (sstep lg b) (wops ws) s1).
  destruct (writes_frame lg b ws s1) as (H1 & H2 & H3 & H4 & H5). fold s2 in H1, H2, H3, H4, H5.
  assert (Ho : s_orig s2 = s_orig s1 ++ (if reaches_orig (s_cell s1) then chunks b ws else [])).
  { unfold s2. apply writes_orig. }
  destruct Hm as [[t Hm]|Hm]; rewrite Hm.
  - assert (E1 : s1 = enter_swap s i t false) by (unfold s1; simpl; rewrite Hm; reflexivity).
    simpl. rewrite H3, H4, H2, H5, Ho, E1. simpl. rewrite !updn_same. simpl. auto.
  - assert (E1 : s1 = mkS (s_cell s) (s_saved s) (updn (s_live s) i false) (s_cap s) (s_buf s) (s_attr s) (s_orig s) (s_sink s))
      by (unfold s1; simpl; rewrite Hm; reflexivity).
    simpl. rewrite H3, E1. simpl. rewrite updn_same. rewrite H1, H5, Ho, E1. simpl. auto.
Qed.

(* ---------- sequential execution is the special case with nothing nested inside ---------- *)
Inductive sitem :=
| SFail (i : nat)                                                         (* _prepare_kwargs raises *)
| SAct (i : nat) (capture : bool) (lo le : stream) (ws : list (bool * Z)) (e : rtag).
Fixpoint sequential (xs : list sitem) : list sop :=
  match xs with
  | [] => []
  | SFail i :: r => Enter i MFail MFail :: sequential r
  | SAct i cap lo le ws e :: r => one_action i (mode_for cap lo) (mode_for cap le) ws e ++ sequential r
  end.

Lemma mode_for_not_fail cap l : mode_for cap l <> MFail.
Proof. unfold mode_for. destruct cap; [discriminate|]. destruct l; discriminate. Qed.

Lemma one_action_nested i mo me ws e l :
  mo <> MFail -> me <> MFail -> nested l -> nested (one_action i mo me ws e ++ l).
Proof.
  intros Ho He Hl. unfold one_action. simpl. rewrite <- app_assoc. simpl.
  apply n_app; auto.
  - apply wops_nested.
  - rewrite wops_ids. auto.
Qed.

Lemma sequential_nested xs : nested (sequential xs).
Proof.
  induction xs as [|[i|i cap lo le ws e] r IH]; simpl.
  - constructor.
  - constructor; auto.
  - apply (one_action_nested i (mode_for cap lo) (mode_for cap le) ws e (sequential r));
      auto using mode_for_not_fail.
Qed.

(* ---------- one task, one run ---------- *)
Lemma act_ops_one cap v a :
  act_ops cap v a = one_action (as_id a) (mode_for cap (live_of (live_out v))) (mode_for cap (live_of (live_err v)))
                               (as_ws a) (as_tag a).
Proof. reflexivity. Qed.

Lemma task_ops_nested cap v acts : nested (task_ops cap v acts).
Proof.
  induction acts as [|a r IH]; cbn [task_ops]; [constructor|].
  rewrite act_ops_one.
  apply one_action_nested; auto using mode_for_not_fail.
  destruct (py_classify (as_tag a)); auto; constructor.
Qed.

Lemma run_ops_nested v tasks : forall tds, nested tds -> nested (run_ops v tasks tds).
Proof.
  induction tasks as [|t r IH]; intros tds Htds; cbn [run_ops]; auto.
  assert (Htds' : nested (task_ops (t_capture t) v (t_teardown t) ++ tds))
    by (apply nested_app; [apply task_ops_nested|exact Htds]).
  apply nested_app; [apply task_ops_nested|].
  destruct (task_outcome (t_acts t)); auto.
Qed.

Lemma ids_of_app l1 l2 : ids_of (l1 ++ l2) = ids_of l1 ++ ids_of l2.
Proof. unfold ids_of. apply flat_map_app. Qed.

Lemma act_ops_ids cap v a j : In j (ids_of (act_ops cap v a)) -> j = as_id a.
Proof.
  unfold act_ops. unfold ids_of. simpl. fold (ids_of (wops (as_ws a) ++ [Exit (as_id a) (as_tag a)])).
  rewrite ids_of_app, wops_ids. simpl. intros [H|[H|[]]]; auto.
Qed.

Lemma task_ops_ids cap v acts j : In j (ids_of (task_ops cap v acts)) -> In j (map as_id (started acts)).
Proof.
  induction acts as [|a r IH]; cbn [task_ops started map]; auto.
  rewrite ids_of_app, in_app_iff. intros [H|H].
  - left. symmetry. eapply act_ops_ids; eauto.
  - right. destruct (py_classify (as_tag a)); auto; destruct H.
Qed.

Lemma started_incl acts a : In a (started acts) -> In a acts.
Proof.
  induction acts as [|x r IH]; simpl; auto.
  intros [H|H]; auto. right. destruct (py_classify (as_tag x)); auto; destruct H.
Qed.

Definition expected_attr (cap : bool) (b : bool) (a : aspec) : option (list Z) :=
  if cap then Some (chunks b (as_ws a)) else None.

(* every action the task started -- the one whose exception escapes included -- holds exactly
   what it wrote; the others hold what they held before *)
Lemma task_capture cap v b acts : forall s,
  NoDup (map as_id acts) ->
  forall a, In a acts ->
  s_attr (fold_left (sstep false b) (task_ops cap v acts) s) (as_id a) =
  if existsb (fun x => Nat.eqb (as_id x) (as_id a)) (started acts) && cap
  then Some (chunks b (as_ws a)) else s_attr s (as_id a).
Proof.
  induction acts as [|a0 r IH]; intros s Hnd a Hin; [destruct Hin|].
  inversion Hnd as [|? ? Hnotin Hnd']; subst.
  cbn [task_ops started existsb]. rewrite fold_left_app. rewrite act_ops_one.
  set (mo := mode_for cap (live_of (live_out v))). set (me := mode_for cap (live_of (live_err v))).
  set (s1 := fold_left (sstep false b) (one_action (as_id a0) mo me (as_ws a0) (as_tag a0)) s).
  set (rest := match py_classify (as_tag a0) with AOk => task_ops cap v r | _ => [] end).
  assert (Hrest_ids : forall j, In j (ids_of rest) -> In j (map as_id r)).
  { intros j Hj. unfold rest in Hj. destruct (py_classify (as_tag a0)); try destruct Hj.
    apply task_ops_ids in Hj. apply in_map_iff in Hj. destruct Hj as [x [Hx1 Hx2]].
    apply in_map_iff. exists x. split; auto. apply started_incl. exact Hx2. }
  (* what the first action did to the attributes *)
  assert (Hs1 : s_attr s1 (as_id a0) = (if cap then Some (chunks b (as_ws a0)) else s_attr s (as_id a0)) /\
                forall j, j <> as_id a0 -> s_attr s1 j = s_attr s j).
  { unfold s1. destruct cap.
    - assert (Hm : (if b then me else mo) = MCapture (live_of (if b then live_err v else live_out v)))
        by (unfold mo, me, mode_for; destruct b; reflexivity).
      destruct (action_capture false b s (as_id a0) mo me _ (as_ws a0) (as_tag a0) Hm) as (_ & H2 & _ & H4).
      { destruct (if b then live_err v else live_out v); simpl; auto. }
      auto.
    - assert (Hm : (exists t, (if b then me else mo) = MRedirect t) \/ (if b then me else mo) = MKeep).
      { unfold mo, me, mode_for, live_of. destruct b; [destruct (live_err v)|destruct (live_out v)]; eauto. }
      destruct (action_nocapture false b s (as_id a0) mo me (as_ws a0) (as_tag a0) Hm) as (_ & H2 & _).
      rewrite H2. auto. }
  destruct Hs1 as [Hs1 Hs1o].
  destruct Hin as [<-|Hin].
  - (* the first action itself: the rest does not mention it *)
    rewrite Nat.eqb_refl. simpl.
    destruct (fold_frame false b rest s1 (as_id a0)) as (_ & _ & _ & H4).
    { intro Hj. apply Hnotin. apply Hrest_ids. exact Hj. }
    rewrite H4, Hs1. reflexivity.
  - assert (Hne : as_id a <> as_id a0).
    { intro Heq. apply Hnotin. rewrite <- Heq. apply in_map. exact Hin. }
    destruct (Nat.eqb_spec (as_id a0) (as_id a)); [congruence|]. simpl.
    unfold rest. destruct (py_classify (as_tag a0)) eqn:Ec;
      try (simpl; rewrite Hs1o by assumption; reflexivity).
    rewrite IH by assumption. rewrite Hs1o by assumption. reflexivity.
Qed.

(* ---------- one action run by Task.execute on the original streams ---------- *)
Lemma capture_one (cap : bool) v (b : bool) ws e :
  let s' := srun false b (act_ops cap v {| as_id := 0; as_ws := ws; as_tag := e |}) in
  s_cell s' = SOrig /\
  s_attr s' 0%nat = (if cap then Some (chunks b ws) else None) /\
  s_orig s' = (if cap && negb (if b then live_err v else live_out v) then [] else chunks b ws).
Proof.
  cbv zeta. unfold srun. rewrite act_ops_one. cbn [as_id as_ws as_tag].
  set (mo := mode_for cap (live_of (live_out v))). set (me := mode_for cap (live_of (live_err v))).
  destruct cap.
  - assert (Hm : (if b then me else mo) = MCapture (live_of (if b then live_err v else live_out v)))
      by (unfold mo, me, mode_for; destruct b; reflexivity).
    destruct (action_capture false b s_init 0%nat mo me _ ws e Hm) as (H1 & H2 & H3 & _).
    { destruct (if b then live_err v else live_out v); simpl; auto. }
    rewrite H1, H2, H3. simpl. destruct (if b then live_err v else live_out v); simpl; auto.
  - assert (Hm : (exists t, (if b then me else mo) = MRedirect t) \/ (if b then me else mo) = MKeep).
    { unfold mo, me, mode_for, live_of. destruct b; [destruct (live_err v)|destruct (live_out v)]; eauto. }
    destruct (action_nocapture false b s_init 0%nat mo me ws e Hm) as (H1 & H2 & H3).
    rewrite H1, H2, H3. simpl. repeat split; auto.
    unfold mo, me, mode_for, live_of. destruct b; [destruct (live_err v)|destruct (live_out v)]; reflexivity.
Qed.

Lemma capture_complete cap v ws e :
  let c := py_capture cap v ws e in
  c_out c = (if cap then Some (chunks false ws) else None) /\
  c_err c = (if cap then Some (chunks true ws) else None) /\
  c_live_out c = (if cap && ((v =? 0) || (v =? 1)) then [] else chunks false ws) /\
  c_live_err c = (if cap && (v =? 0) then [] else chunks true ws) /\
  c_cell_out c = SOrig /\ c_cell_err c = SOrig.
Proof.
  cbv zeta. unfold py_capture. cbn [c_out c_err c_live_out c_live_err c_cell_out c_cell_err].
  destruct (capture_one cap v false ws e) as (A1 & A2 & A3).
  destruct (capture_one cap v true ws e) as (B1 & B2 & B3).
  cbv zeta in *. rewrite A1, A2, A3, B1, B2, B3. unfold live_out, live_err.
  repeat split; auto.
  - destruct cap; destruct (v =? 0); destruct (v =? 1); reflexivity.
  - destruct cap; destruct (v =? 0); reflexivity.
Qed.

(* the exception leaves Task.execute iff the first action that does not succeed raised one that
   is not an Exception *)
Lemma task_outcome_propagates acts :
  task_outcome acts = APropagates <->
  exists pre a post, acts = pre ++ a :: post /\ (forall x, In x pre -> py_classify (as_tag x) = AOk) /\
                     as_tag a = RBaseExc.
Proof.
  split.
  - induction acts as [|a r IH]; simpl; [discriminate|].
    destruct (py_classify (as_tag a)) eqn:E; try discriminate.
    + intros H. destruct (IH H) as (pre & x & post & -> & Hok & Ht).
      exists (a :: pre), x, post. repeat split; auto. intros y [<-|Hy]; auto.
    + intros _. exists [], a, r. repeat split; auto.
      * intros x [].
      * apply py_classify_propagates. exact E.
  - intros (pre & a & post & -> & Hok & Ht).
    induction pre as [|p pre IH]; simpl.
    + rewrite Ht. reflexivity.
    + rewrite (Hok p) by (left; reflexivity). apply IH. intros x Hx. apply Hok. right. exact Hx.
Qed.

(* ---------- which verbosity a task is executed with ---------- *)
(* Stream(None, f) is never forced and holds the default *)
Lemma mk_stream_none f : mk_stream None f = {| vs_verbosity := 1; vs_force := false |}.
Proof. reflexivity. Qed.

(* priority: forced global value, then the task's own value, then the global value *)
Lemma effective_verbosity_spec st tv :
  (vs_force st = true -> effective_verbosity st tv = vs_verbosity st) /\
  (vs_force st = false -> forall v, tv = Some v -> effective_verbosity st tv = v) /\
  (vs_force st = false -> tv = None -> effective_verbosity st tv = vs_verbosity st).
Proof.
  unfold effective_verbosity. repeat split.
  - intros ->. reflexivity.
  - intros -> v ->. reflexivity.
  - intros -> ->. reflexivity.
Qed.

(* the `run` command: command line, then task, then configuration, then 1 *)
Lemma cmd_stream_priority cli cfg tv :
  effective_verbosity (cmd_stream cli cfg) tv =
  match cli with
  | Some c => c
  | None => match tv with
            | Some t => t
            | None => match cfg with Some g => g | None => 1 end
            end
  end.
Proof. destruct cli, cfg, tv; reflexivity. Qed.

(* the value is always one of those given (or the default): nothing is invented *)
Lemma cmd_stream_range cli cfg tv (P : Z -> Prop) :
  P 1 -> (forall v, cli = Some v -> P v) -> (forall v, cfg = Some v -> P v) -> (forall v, tv = Some v -> P v) ->
  P (effective_verbosity (cmd_stream cli cfg) tv).
Proof. intros H1 Hc Hg Ht. rewrite cmd_stream_priority. destruct cli, tv, cfg; auto. Qed.

(* overwriting twice changes nothing *)
Lemma effective_verbosity_idem st tv :
  effective_verbosity st (Some (effective_verbosity st tv)) = effective_verbosity st tv.
Proof. unfold effective_verbosity. destruct (vs_force st); reflexivity. Qed.

(* the attribute Task.execute reads is the effective verbosity of the task's own value -- whether
   the task was visited once or twice (has setup tasks) *)
Lemma attr_at_execute_spec st hs raw : attr_at_execute st hs raw = Some (effective_verbosity st raw).
Proof. unfold attr_at_execute, select_visit. destruct hs; reflexivity. Qed.

Lemma exec_verbosity_spec st u : exec_verbosity st u = effective_verbosity st (st_verb (snd u)).
Proof. unfold exec_verbosity. rewrite attr_at_execute_spec. reflexivity. Qed.

(* ... so a run does not depend on which of its tasks have setup tasks, as long as the execution order is the same *)
Lemma vrun_ops_flags st us : forall tds,
  vrun_ops st us tds = vrun_ops st (map (fun u => (false, snd u)) us) tds.
Proof.
  induction us as [|u r IH]; intro tds; [reflexivity|].
  cbn [vrun_ops map]. rewrite !exec_verbosity_spec. cbn [snd].
  destruct (task_outcome (st_acts (snd u))); try reflexivity. rewrite IH. reflexivity.
Qed.

Lemma vrun_ops_nested st us : forall tds, nested tds -> nested (vrun_ops st us tds).
Proof.
  induction us as [|u r IH]; intros tds Htds; [exact Htds|].
  cbn [vrun_ops]. apply nested_app; [apply task_ops_nested|].
  assert (Htds' : nested (task_ops (st_capture (snd u)) (exec_verbosity st u) (st_teardown (snd u)) ++ tds))
    by (apply nested_app; [apply task_ops_nested|exact Htds]).
  destruct (task_outcome (st_acts (snd u))); auto.
Qed.

(* a run of tasks that all use the global verbosity is the run of Model/Action.v [run_ops] *)
Lemma vrun_ops_uniform st ts : forall tds,
  vs_force st = true \/ (forall t, In t ts -> st_verb t = None) ->
  vrun_ops st (map (fun t => (false, t)) ts) tds =
  run_ops (vs_verbosity st) (map (fun t => {| t_capture := st_capture t; t_acts := st_acts t; t_teardown := st_teardown t |}) ts) tds.
Proof.
  induction ts as [|t r IH]; intros tds H; [reflexivity|].
  cbn [map vrun_ops run_ops t_capture t_acts t_teardown snd].
  assert (Hv : exec_verbosity st (false, t) = vs_verbosity st).
  { rewrite exec_verbosity_spec. cbn [snd]. unfold effective_verbosity.
    destruct H as [-> | H]; [reflexivity|]. rewrite (H t) by (left; reflexivity). destruct (vs_force st); reflexivity. }
  rewrite Hv. destruct (task_outcome (st_acts t)); try reflexivity.
  rewrite IH; [reflexivity|]. destruct H as [H|H]; [left; exact H|right]. intros x Hx. apply H. right. exact Hx.
Qed.

(* one action of a task executed by a runner: captured whatever the verbosity, shown live as the
   EFFECTIVE verbosity dictates, with or without setup tasks *)
Lemma capture_effective st hs raw cap ws e :
  let v := effective_verbosity st raw in
  let c := py_capture cap (verb_arg (attr_at_execute st hs raw)) ws e in
  c_out c = (if cap then Some (chunks false ws) else None) /\
  c_err c = (if cap then Some (chunks true ws) else None) /\
  c_live_out c = (if cap && ((v =? 0) || (v =? 1)) then [] else chunks false ws) /\
  c_live_err c = (if cap && (v =? 0) then [] else chunks true ws) /\
  c_cell_out c = SOrig /\ c_cell_err c = SOrig.
Proof. cbv zeta. rewrite attr_at_execute_spec. cbn [verb_arg]. apply capture_complete. Qed.

(* ---------- a run that executes nothing, and what is written after a run ----------
   A run that ends before any action was started (the `run` command ended with a user error while
   selecting tasks / parsing its options, or nothing was selected) is the empty sequence of
   events: whatever state it is started in -- the embedding program may have installed streams of
   its own -- the state is the same afterwards, both cells included. *)
Lemma empty_run_ops v : run_ops v [] [] = [].
Proof. reflexivity. Qed.

Lemma empty_vrun_ops st : vrun_ops st (units_of []) [] = [].
Proof. reflexivity. Qed.

Lemma empty_run_untouched lg b v st s :
  fold_left (sstep lg b) (run_ops v [] []) s = s /\
  fold_left (sstep lg b) (vrun_ops st (units_of []) []) s = s.
Proof. split; reflexivity. Qed.

(* what the program that called the run writes afterwards -- after ANY properly nested sequence,
   so after any run -- goes to the original streams, completely and in order, and leaves them
   installed *)
Lemma after_nested_writes b l ws : nested l ->
  let s' := srun false b (l ++ wops ws) in
  s_cell s' = SOrig /\ s_attr s' = s_attr (srun false b l) /\
  s_orig s' = s_orig (srun false b l) ++ chunks b ws.
Proof.
  intros Hn. cbv zeta. unfold srun. rewrite fold_left_app.
  pose proof (nested_restores b l Hn s_init) as Hc. simpl in Hc.
  pose proof (writes_frame false b ws (fold_left (sstep false b) l s_init)) as Hf. cbv zeta in Hf.
  destruct Hf as (H1 & _ & _ & _ & H5).
  split; [rewrite H1; exact Hc|]. split; [exact H5|].
  rewrite writes_orig. rewrite Hc. reflexivity.
Qed.

Lemma after_run_writes b v tasks ws :
  let s' := srun false b (run_ops v tasks [] ++ wops ws) in
  s_cell s' = SOrig /\ s_orig s' = s_orig (srun false b (run_ops v tasks [])) ++ chunks b ws.
Proof.
  cbv zeta. destruct (after_nested_writes b _ ws (run_ops_nested v tasks [] n_nil)) as (H1 & _ & H3). auto.
Qed.

Lemma after_vrun_writes b st ts ws :
  let s' := srun false b (vrun_ops st (units_of ts) [] ++ wops ws) in
  s_cell s' = SOrig /\ s_orig s' = s_orig (srun false b (vrun_ops st (units_of ts) [])) ++ chunks b ws.
Proof.
  cbv zeta. destruct (after_nested_writes b _ ws (vrun_ops_nested st (units_of ts) [] n_nil)) as (H1 & _ & H3). auto.
Qed.

(* the run that executed nothing: exactly what was written afterwards is on the original stream *)
Lemma after_empty_run_writes b v ws :
  let s' := srun false b (run_ops v [] [] ++ wops ws) in
  s_cell s' = SOrig /\ s_orig s' = chunks b ws /\ (forall i, s_attr s' i = None).
Proof.
  cbv zeta. destruct (after_nested_writes b (run_ops v [] []) ws n_nil) as (H1 & H2 & H3).
  split; [exact H1|]. split; [exact H3|]. intro i. rewrite H2. reflexivity.
Qed.
