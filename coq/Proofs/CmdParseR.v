(* CmdParseR.v -- proofs about Model/CmdParse.v, part 2: option lookup, the values a rendered
   command line produces, rejection, precedence of the sources *)
From DoitV Require Import Base CmdParse CmdParseP.
Arguments str2type conv o v : simpl never.
Arguments validate_choice o v : simpl never.

(* ================================================================== get_option on well-formed specs *)
Lemma dash1_dash2_neq c x y : c <> ch_dash -> seqb (dash1 (String c x)) (dash2 y) = false.
Proof. intros H. apply seqb_neq. unfold dash1, dash2. intros E. inversion E. congruence. Qed.
Lemma dash2_dash1_short s y : short_ok s = true -> seqb (dash2 y) (dash1 s) = false.
Proof.
  intros H. apply seqb_neq. unfold dash1, dash2. intros E. inversion E as [E']. rewrite <- E' in H.
  simpl in H. destruct y; simpl in H; try discriminate.
Qed.
Lemma seqb_dash2 a b : seqb (dash2 a) (dash2 b) = seqb a b.
Proof. unfold dash2, seqb, ch_dash. simpl. reflexivity. Qed.
Lemma seqb_dash1 a b : seqb (dash1 a) (dash1 b) = seqb a b.
Proof. unfold dash1, seqb, ch_dash. simpl. reflexivity. Qed.

Lemma nodup_long_names o : nodup_s (long_names o) = true ->
  o_long o <> EmptyString -> o_inverse o <> EmptyString -> o_long o <> o_inverse o.
Proof.
  unfold long_names. intros H Hl Hi E. apply sempty_false in Hl. apply sempty_false in Hi.
  rewrite Hl, Hi in H. simpl in H. rewrite E, seqb_refl in H. discriminate.
Qed.

Lemma get_option_cons p r s : get_option (p :: r) s =
  if (seqb s (dash1 (o_short p)) || seqb s (dash2 (o_long p)))%bool then Some (p, false)
  else if seqb s (dash2 (o_inverse p)) then Some (p, true) else get_option r s.
Proof. reflexivity. Qed.

Section Lookup.

Lemma get_option_short st : forallb opt_ok st = true -> nodup_s (shorts_of st) = true ->
  forall o, In o st -> o_short o <> EmptyString -> get_option st (dash1 (o_short o)) = Some (o, false).
Proof.
  induction st as [|p r IH]; [simpl; tauto|].
  intros Hall Hnd o Hin Hs. rewrite get_option_cons. simpl in Hall, Hnd, Hin.
  apply andb_true_iff in Hall. destruct Hall as [Hp Hr].
  destruct (opt_ok_parts p Hp) as (Hsp & _).
  assert (Hoo : opt_ok o = true).
  { destruct Hin as [<-|Hin']; auto. rewrite forallb_forall in Hr. auto. }
  destruct (opt_ok_parts o Hoo) as (Hso & _).
  destruct (short_ok_cases _ Hso) as [E|[c E]]; [contradiction|].
  pose proof Hso as Hc. rewrite E in Hc. apply short_ok_char in Hc. destruct Hc as [Hc _].
  destruct (seqb (dash1 (o_short o)) (dash1 (o_short p))) eqn:T1.
  - simpl. rewrite seqb_dash1 in T1. apply seqb_eq in T1.
    destruct Hin as [->|Hin]; auto.
    exfalso. destruct (sempty (o_short p)) eqn:Ep.
    + apply sempty_true in Ep. congruence.
    + simpl in Hnd. apply andb_true_iff in Hnd. destruct Hnd as [Hn _].
      apply negb_true_iff, smem_false in Hn. apply Hn. rewrite <- T1, E. eapply In_shorts_of; eauto.
  - destruct Hin as [->|Hin]; [rewrite seqb_refl in T1; discriminate|].
    assert (A : forall y, seqb (dash1 (o_short o)) (dash2 y) = false)
      by (intros y; rewrite E; apply dash1_dash2_neq; auto).
    rewrite !A. simpl. apply IH; auto.
    destruct (sempty (o_short p)); auto. simpl in Hnd. apply andb_true_iff in Hnd. tauto.
Qed.

Lemma get_option_longname st : forallb opt_ok st = true -> nodup_s (longs_of st) = true ->
  forall o nm, In o st -> In nm (long_names o) ->
  get_option st (dash2 nm) = Some (o, negb (seqb nm (o_long o))).
Proof.
  induction st as [|p r IH]; [simpl; tauto|].
  intros Hall Hnd o nm Hin Hnm. rewrite get_option_cons. simpl in Hall, Hnd, Hin.
  apply andb_true_iff in Hall. destruct Hall as [Hp Hr].
  destruct (opt_ok_parts p Hp) as (Hsp & _).
  apply nodup_s_app in Hnd. destruct Hnd as (Hndp & Hndr & Hdis).
  rewrite (dash2_dash1_short _ nm Hsp). rewrite !seqb_dash2. simpl.
  assert (Hne : nm <> EmptyString).
  { unfold long_names in Hnm. apply in_app_or in Hnm. destruct Hnm as [H|H].
    - destruct (sempty (o_long o)) eqn:El; simpl in H; [tauto|]. destruct H as [<-|[]]. apply sempty_false; auto.
    - destruct (sempty (o_inverse o)) eqn:El; simpl in H; [tauto|]. destruct H as [<-|[]]. apply sempty_false; auto. }
  destruct (seqb nm (o_long p)) eqn:T1.
  - apply seqb_eq in T1.
    assert (Hlp : In nm (long_names p)) by (rewrite T1; apply long_in_names; congruence).
    destruct Hin as [->|Hin].
    + rewrite T1, seqb_refl. reflexivity.
    + exfalso. apply (Hdis nm Hlp). eapply In_longs_of; eauto.
  - destruct (seqb nm (o_inverse p)) eqn:T2.
    + apply seqb_eq in T2.
      assert (Hlp : In nm (long_names p)) by (rewrite T2; apply inverse_in_names; congruence).
      destruct Hin as [->|Hin].
      * rewrite T1. reflexivity.
      * exfalso. apply (Hdis nm Hlp). eapply In_longs_of; eauto.
    + destruct Hin as [->|Hin].
      * exfalso. unfold long_names in Hnm. apply in_app_or in Hnm. destruct Hnm as [H|H].
        -- destruct (sempty (o_long o)); simpl in H; [tauto|]. destruct H as [<-|[]]. rewrite seqb_refl in T1. discriminate.
        -- destruct (sempty (o_inverse o)); simpl in H; [tauto|]. destruct H as [<-|[]]. rewrite seqb_refl in T2. discriminate.
      * apply IH; auto.
Qed.
End Lookup.

Section Spec.
Variable st : pstate.
Hypothesis WF : wf_spec st = true.

Lemma get_option_s o : In o st -> o_short o <> EmptyString -> get_option st (dash1 (o_short o)) = Some (o, false).
Proof. destruct (wf_spec_parts st WF) as (H1 & H2 & _). apply get_option_short; auto. Qed.

Lemma get_option_l o : In o st -> o_long o <> EmptyString -> get_option st (dash2 (o_long o)) = Some (o, false).
Proof.
  intros Hin Hl. destruct (wf_spec_parts st WF) as (H1 & _ & H3 & _).
  rewrite (get_option_longname st H1 H3 o (o_long o) Hin (long_in_names o Hl)). rewrite seqb_refl. reflexivity.
Qed.

Lemma get_option_i o : In o st -> o_inverse o <> EmptyString -> get_option st (dash2 (o_inverse o)) = Some (o, true).
Proof.
  intros Hin Hi. destruct (wf_spec_parts st WF) as (H1 & _ & H3 & _).
  rewrite (get_option_longname st H1 H3 o (o_inverse o) Hin (inverse_in_names o Hi)).
  destruct (opt_ok_parts o (wf_opt_ok st WF o Hin)) as (_ & _ & _ & Hinv). destruct (Hinv Hi) as [_ Hl].
  assert (Hnd : nodup_s (long_names o) = true).
  { clear -H3 Hin. induction st as [|p r IH]; simpl in *; [tauto|].
    apply nodup_s_app in H3. destruct H3 as (Hp & Hr & _). destruct Hin as [->|Hin]; auto. }
  pose proof (nodup_long_names o Hnd Hl Hi) as Hne.
  assert (E : seqb (o_inverse o) (o_long o) = false) by (apply seqb_neq; congruence).
  rewrite E. reflexivity.
Qed.

Lemma name_unique o o' : In o st -> In o' st -> o_name o = o_name o' -> o = o'.
Proof.
  destruct (wf_spec_parts st WF) as (_ & _ & _ & H). clear WF. revert H.
  induction st as [|p r IH]; simpl; [tauto|]. rewrite andb_true_iff, negb_true_iff. intros [Hn Hr] Ho Ho' E.
  apply mem_false_In in Hn.
  destruct Ho as [->|Ho]; destruct Ho' as [->|Ho']; auto.
  - exfalso. apply Hn. rewrite E. apply in_map. auto.
  - exfalso. apply Hn. rewrite <- E. apply in_map. auto.
Qed.

End Spec.

(* ================================================================== the assignments a command line makes *)
Inductive asg := ASet (o : cmd_option) (v : string) | AFlag (o : cmd_option) (b : bool).
Definition asg_opt (a : asg) : cmd_option := match a with ASet o _ => o | AFlag o _ => o end.
Definition asg_key (a : asg) : name := o_name (asg_opt a).

Definition item_asgs (it : item) : list asg :=
  match it with
  | IShorts fl t => map (fun o => AFlag o true) fl ++ match t with Some (o, _, v) => [ASet o v] | None => [] end
  | ILongVal o _ v => [ASet o v]
  | ILongFlag o => [AFlag o true]
  | IInv o => [AFlag o false]
  end.
Definition asgs_of (items : list item) : list asg := flat_map item_asgs items.

Definition asg_ok (st : pstate) (a : asg) : Prop :=
  In (asg_opt a) st /\ match a with ASet o _ => is_bool (o_ty o) = false | AFlag o _ => is_bool (o_ty o) = true end.

Section WithConv.
Variable conv : N -> string -> option value.

(* the effect of the assignments, in order, on the dictionary: a flag sets True/False, a list option
   appends the raw string (checked against its choices, if any), any other option stores the converted string; all mark the key non-default *)
Fixpoint apply_asgs (d : params) (l : list asg) : outcome params :=
  match l with
  | [] => Ok d
  | AFlag o b :: r => apply_asgs (d_setitem d (o_name o) (VBool b)) r
  | ASet o v :: r =>
      if is_list (o_ty o) then
        match validate_choice o (VStr v) with
        | Ok _ => match d_get d (o_name o) with
                  | Some (VList l) => apply_asgs (d_setitem d (o_name o) (VList (l ++ [v]))) r
                  | _ => Crash
                  end
        | ParseError => ParseError
        | Crash => Crash
        end
      else match str2type conv o (VStr v) with
           | Ok x => apply_asgs (d_setitem d (o_name o) x) r
           | ParseError => ParseError
           | Crash => Crash
           end
  end.

Definition resolves (st : pstate) (ov : optval) (a : asg) : Prop :=
  match a with
  | ASet o v => snd ov = v /\ get_option st (fst ov) = Some (o, false) /\ is_bool (o_ty o) = false
  | AFlag o b => get_option st (fst ov) = Some (o, negb b) /\ is_bool (o_ty o) = true
  end.

Lemma apply_opts_resolved st opts asgs : Forall2 (resolves st) opts asgs ->
  forall d, apply_opts conv false st d opts = (apply_asgs d asgs, st).
Proof.
  induction 1 as [|[s v] a opts asgs Hr Hrest IH]; intros d; simpl; auto.
  destruct a as [o v'|o b]; simpl in Hr.
  - destruct Hr as (-> & Hg & Hb). rewrite Hg. destruct (o_ty o) eqn:Et; simpl in *; try discriminate.
    + destruct (validate_choice o (VStr v')); auto. destruct (d_get d (o_name o)) as [[| | | |l]|]; auto.
    + destruct (str2type conv o (VStr v')); auto.
    + destruct (str2type conv o (VStr v')); auto.
  - destruct Hr as (Hg & Hb). rewrite Hg. destruct (o_ty o); simpl in *; try discriminate.
    rewrite negb_involutive. apply IH.
Qed.

End WithConv.

Section Spec.
Variable st : pstate.
Hypothesis WF : wf_spec st = true.

Lemma item_resolves it : item_ok st it -> Forall2 (resolves st) (item_opts it) (item_asgs it).
Proof.
  destruct it as [fl [[[o att] v]|]|o eq v|o|o]; simpl; intros Hok.
  - destruct Hok as (Hfl & Hin & Hb & Hs & _). apply Forall2_app.
    + clear -Hfl WF. induction fl as [|f r IH]; simpl; constructor.
      * destruct (Hfl f (or_introl eq_refl)) as (Hin & Hb & Hs). simpl. split; auto. apply get_option_s; auto.
      * apply IH. intros; apply Hfl; simpl; auto.
    + constructor; [|constructor]. simpl. repeat split; auto. apply get_option_s; auto.
  - destruct Hok as (Hfl & _). rewrite !app_nil_r.
    clear -Hfl WF. induction fl as [|f r IH]; simpl; constructor.
    + destruct (Hfl f (or_introl eq_refl)) as (Hin & Hb & Hs). simpl. split; auto. apply get_option_s; auto.
    + apply IH. intros; apply Hfl; simpl; auto.
  - destruct Hok as (Hin & Hb & Hl). constructor; [|constructor]. simpl. repeat split; auto. apply get_option_l; auto.
  - destruct Hok as (Hin & Hb & Hl). constructor; [|constructor]. simpl. split; auto. apply get_option_l; auto.
  - destruct Hok as (Hin & Hi). constructor; [|constructor]. simpl.
    destruct (opt_ok_parts o (wf_opt_ok st WF o Hin)) as (_ & _ & _ & Hinv). destruct (Hinv Hi) as [Hb _].
    split; auto. apply get_option_i; auto.
Qed.

Lemma items_resolve items : Forall (item_ok st) items ->
  Forall2 (resolves st) (flat_map item_opts items) (asgs_of items).
Proof.
  induction 1 as [|it r Hok Hr IH]; simpl. constructor.
  apply Forall2_app; auto. apply item_resolves; auto.
Qed.

Lemma item_asgs_ok it : item_ok st it -> Forall (asg_ok st) (item_asgs it).
Proof.
  destruct it as [fl [[[o att] v]|]|o eq v|o|o]; simpl; intros Hok.
  - destruct Hok as (Hfl & Hin & Hb & Hs & _). apply Forall_app. split.
    + apply Forall_forall. intros a Ha. apply in_map_iff in Ha. destruct Ha as [f [<- Hf]].
      destruct (Hfl f Hf) as (H1 & H2 & _). split; auto.
    + constructor; [|constructor]. split; auto.
  - destruct Hok as (Hfl & _). rewrite app_nil_r.
    apply Forall_forall. intros a Ha. apply in_map_iff in Ha. destruct Ha as [f [<- Hf]].
    destruct (Hfl f Hf) as (H1 & H2 & _). split; auto.
  - destruct Hok as (Hin & Hb & Hl). constructor; [|constructor]. split; auto.
  - destruct Hok as (Hin & Hb & Hl). constructor; [|constructor]. split; auto.
  - destruct Hok as (Hin & Hi). constructor; [|constructor].
    destruct (opt_ok_parts o (wf_opt_ok st WF o Hin)) as (_ & _ & _ & Hinv). destruct (Hinv Hi) as [Hb _].
    split; auto.
Qed.

Lemma asgs_of_ok items : Forall (item_ok st) items -> Forall (asg_ok st) (asgs_of items).
Proof.
  induction 1 as [|it r Hok Hr IH]; simpl. constructor.
  apply Forall_app. split; auto. apply item_asgs_ok; auto.
Qed.

(* ---------- the round trip through getopt and the option loop ---------- *)
Variable conv : N -> string -> option value.

Definition lift_result (r : outcome params) (pos : list string) : outcome (params * list string) :=
  match r with Ok d => Ok (d, pos) | ParseError => ParseError | Crash => Crash end.

Lemma parse_only_render items tail d opts' args :
  Forall (item_ok st) items ->
  getopt (get_short st) (get_long st) tail = Some (opts', args) -> opts' = [] ->
  parse_only conv st d (render items ++ tail) = (lift_result (apply_asgs conv d (asgs_of items)) args, st).
Proof.
  intros Hok Ht ->. unfold parse_only, parse_only_gen.
  rewrite (getopt_render st WF items tail Hok), Ht. simpl. rewrite app_nil_r.
  rewrite (apply_opts_resolved conv st _ _ (items_resolve items Hok) d).
  destruct (apply_asgs conv d (asgs_of items)); reflexivity.
Qed.

End Spec.

(* ================================================================== the dictionary *)
Lemma items_get_set l k v k' :
  items_get (items_set l k v) k' = if N.eqb k' k then Some v else items_get l k'.
Proof.
  induction l as [|[k0 v0] r IH]; simpl.
  - rewrite (N.eqb_sym k k'). destruct (N.eqb k' k); reflexivity.
  - destruct (N.eqb k0 k) eqn:E; simpl.
    + apply N.eqb_eq in E. subst k0. rewrite (N.eqb_sym k k'). destruct (N.eqb k' k); reflexivity.
    + rewrite IH. destruct (N.eqb k0 k') eqn:E2; auto.
      apply N.eqb_eq in E2. subst k0. rewrite E. reflexivity.
Qed.
Lemma d_get_setitem d k v k' : d_get (d_setitem d k v) k' = if N.eqb k' k then Some v else d_get d k'.
Proof. unfold d_get, d_setitem. simpl. apply items_get_set. Qed.
Lemma d_get_set_default d k v k' : d_get (d_set_default d k v) k' = if N.eqb k' k then Some v else d_get d k'.
Proof. unfold d_get, d_set_default. simpl. apply items_get_set. Qed.
Lemma mem_addset k' k l : mem k' (addset k l) = (N.eqb k' k || mem k' l)%bool.
Proof.
  destruct (mem k' (addset k l)) eqn:E.
  - apply mem_In, addset_In in E. destruct E as [->|E].
    + rewrite N.eqb_refl. reflexivity.
    + apply mem_In in E. rewrite E. apply eq_sym, orb_true_r.
  - apply mem_false_In in E. rewrite addset_In in E.
    destruct (N.eqb_spec k' k); [tauto|]. simpl. apply eq_sym, mem_false_In. tauto.
Qed.
Lemma nd_setitem d k v k' : mem k' (d_nd (d_setitem d k v)) = (N.eqb k' k || mem k' (d_nd d))%bool.
Proof. unfold d_setitem. simpl. apply mem_addset. Qed.

Fixpoint last_opt {A} (l : list A) : option A :=
  match l with [] => None | x :: r => match last_opt r with Some y => Some y | None => Some x end end.
Definition lookup_last {A} (u : list (name * A)) (k : name) : option A :=
  last_opt (flat_map (fun kv => if N.eqb (fst kv) k then [snd kv] else []) u).

(* update_defaults: keys marked non-default are protected, for the others the last entry wins *)
Lemma update_defaults_spec u : forall d k,
  d_nd (update_defaults d u) = d_nd d /\
  d_get (update_defaults d u) k =
    if mem k (d_nd d) then d_get d k
    else match lookup_last u k with Some x => Some x | None => d_get d k end.
Proof.
  unfold update_defaults, lookup_last.
  induction u as [|[k0 v0] r IH]; intros d k; simpl.
  - split; auto. destruct (mem k (d_nd d)); reflexivity.
  - destruct (mem k0 (d_nd d)) eqn:E0.
    + destruct (IH d k) as [H1 H2]. split; auto. rewrite H2.
      destruct (mem k (d_nd d)) eqn:Ek; auto.
      destruct (N.eqb_spec k0 k); [congruence|]. reflexivity.
    + destruct (IH (d_set_default d k0 v0) k) as [H1 H2]. split; auto. rewrite H2. simpl.
      destruct (mem k (d_nd d)) eqn:Ek.
      * rewrite d_get_set_default. destruct (N.eqb_spec k k0); [congruence|]. reflexivity.
      * rewrite d_get_set_default. rewrite (N.eqb_sym k0 k).
        destruct (N.eqb k k0); simpl;
          match goal with |- context [last_opt ?x] => destruct (last_opt x) end; reflexivity.
Qed.

(* ================================================================== values produced by the assignments *)
Definition vals_of (k : name) (l : list asg) : list string :=
  flat_map (fun a => match a with ASet o v => if N.eqb (o_name o) k then [v] else [] | AFlag _ _ => [] end) l.
Definition flags_of (k : name) (l : list asg) : list bool :=
  flat_map (fun a => match a with AFlag o b => if N.eqb (o_name o) k then [b] else [] | ASet _ _ => [] end) l.
Definition assigned (k : name) (l : list asg) : bool := existsb (fun a => N.eqb (asg_key a) k) l.

Section Values.
Variable conv : N -> string -> option value.

Definition asg_value (d : params) (a : asg) : outcome value :=
  match a with
  | AFlag o b => Ok (VBool b)
  | ASet o v => if is_list (o_ty o) then
                  match validate_choice o (VStr v) with
                  | Ok _ => match d_get d (o_name o) with Some (VList l) => Ok (VList (l ++ [v])) | _ => Crash end
                  | ParseError => ParseError
                  | Crash => Crash
                  end
                else str2type conv o (VStr v)
  end.

Lemma apply_asgs_cons d a l : apply_asgs conv d (a :: l) =
  match asg_value d a with
  | Ok x => apply_asgs conv (d_setitem d (asg_key a) x) l
  | ParseError => ParseError
  | Crash => Crash
  end.
Proof.
  destruct a as [o v|o b]; simpl; auto.
  destruct (is_list (o_ty o)); auto.
  destruct (validate_choice o (VStr v)); auto.
  destruct (d_get d (o_name o)) as [[| | | |l0]|]; auto.
Qed.

Lemma apply_asgs_frame l : forall d d', apply_asgs conv d l = Ok d' -> forall k,
  mem k (d_nd d') = (mem k (d_nd d) || assigned k l)%bool /\
  (assigned k l = false -> d_get d' k = d_get d k).
Proof.
  induction l as [|a l IH]; intros d d' H k.
  - simpl in H. inversion H; subst. simpl. rewrite orb_false_r. auto.
  - rewrite apply_asgs_cons in H. destruct (asg_value d a) as [x| |]; try discriminate.
    destruct (IH _ _ H k) as [H1 H2]. simpl. rewrite H1, nd_setitem. rewrite (N.eqb_sym (asg_key a) k). split.
    + destruct (N.eqb k (asg_key a)); destruct (mem k (d_nd d)); reflexivity.
    + intros E. apply orb_false_iff in E. destruct E as [E1 E2]. rewrite (H2 E2), d_get_setitem, E1. reflexivity.
Qed.

Variable st : pstate.
Hypothesis WF : wf_spec st = true.

Lemma asg_key_opt a o : asg_ok st a -> In o st -> asg_key a = o_name o -> asg_opt a = o.
Proof. intros [Hin _] Ho E. apply (name_unique st WF); auto. Qed.

(* flags: the last occurrence decides *)
Lemma apply_asgs_bool l : forall d d', Forall (asg_ok st) l -> apply_asgs conv d l = Ok d' ->
  forall o, In o st -> is_bool (o_ty o) = true ->
  d_get d' (o_name o) = match last_opt (flags_of (o_name o) l) with Some b => Some (VBool b) | None => d_get d (o_name o) end.
Proof.
  induction l as [|a l IH]; intros d d' Hok H o Ho Hb.
  - simpl in *. inversion H; subst; auto.
  - inversion Hok as [|? ? Ha Hl]; subst. rewrite apply_asgs_cons in H.
    destruct (asg_value d a) as [x| |] eqn:Ev; try discriminate.
    rewrite (IH _ _ Hl H o Ho Hb). unfold flags_of at 2. simpl. fold (flags_of (o_name o) l).
    destruct (N.eqb_spec (asg_key a) (o_name o)) as [E|E].
    + pose proof (asg_key_opt a o Ha Ho E) as Eo.
      destruct a as [oa v|oa b]; simpl in Eo; subst oa.
      * destruct Ha as [_ Ha]. congruence.
      * rewrite N.eqb_refl. simpl. simpl in Ev. inversion Ev; subst x.
        destruct (last_opt (flags_of (o_name o) l)); auto.
        unfold asg_key; simpl. rewrite d_get_setitem, N.eqb_refl. reflexivity.
    + assert (Ef : (match a with AFlag o0 b => if N.eqb (o_name o0) (o_name o) then [b] else [] | ASet _ _ => [] end) = []).
      { destruct a as [oa v|oa b]; auto. unfold asg_key in E; simpl in E. apply N.eqb_neq in E. rewrite E. reflexivity. }
      rewrite Ef. simpl. destruct (last_opt (flags_of (o_name o) l)); auto.
      rewrite d_get_setitem. apply N.eqb_neq in E. rewrite (N.eqb_sym (o_name o) (asg_key a)), E. reflexivity.
Qed.

(* list options: the values accumulate, in order, after what was there *)
Lemma apply_asgs_list l : forall d d', Forall (asg_ok st) l -> apply_asgs conv d l = Ok d' ->
  forall o base, In o st -> is_list (o_ty o) = true -> d_get d (o_name o) = Some (VList base) ->
  d_get d' (o_name o) = Some (VList (base ++ vals_of (o_name o) l)).
Proof.
  induction l as [|a l IH]; intros d d' Hok H o base Ho Hb Hd.
  - simpl in *. inversion H; subst. rewrite app_nil_r. auto.
  - inversion Hok as [|? ? Ha Hl]; subst. rewrite apply_asgs_cons in H.
    destruct (asg_value d a) as [x| |] eqn:Ev; try discriminate.
    unfold vals_of. simpl. fold (vals_of (o_name o) l).
    destruct (N.eqb_spec (asg_key a) (o_name o)) as [E|E].
    + pose proof (asg_key_opt a o Ha Ho E) as Eo.
      destruct a as [oa v|oa b]; simpl in Eo; subst oa.
      * rewrite N.eqb_refl. simpl in Ev. rewrite Hb, Hd in Ev.
        destruct (validate_choice o (VStr v)); try discriminate. inversion Ev; subst x.
        rewrite (IH _ _ Hl H o (base ++ [v]) Ho Hb).
        -- rewrite <- app_assoc. reflexivity.
        -- unfold asg_key; simpl. rewrite d_get_setitem, N.eqb_refl. reflexivity.
      * destruct Ha as [_ Ha]. simpl in Ha. destruct (o_ty o); discriminate.
    + assert (Ef : (match a with ASet o0 v => if N.eqb (o_name o0) (o_name o) then [v] else [] | AFlag _ _ => [] end) = []).
      { destruct a as [oa v|oa b]; auto. unfold asg_key in E; simpl in E. apply N.eqb_neq in E. rewrite E. reflexivity. }
      rewrite Ef. simpl. apply (IH _ _ Hl H o base Ho Hb).
      rewrite d_get_setitem. apply N.eqb_neq in E. rewrite (N.eqb_sym (o_name o) (asg_key a)), E. exact Hd.
Qed.

(* every other option: the last value written, converted *)
Lemma apply_asgs_scalar l : forall d d', Forall (asg_ok st) l -> apply_asgs conv d l = Ok d' ->
  forall o, In o st -> is_bool (o_ty o) = false -> is_list (o_ty o) = false ->
  match last_opt (vals_of (o_name o) l) with
  | Some v => exists x, str2type conv o (VStr v) = Ok x /\ d_get d' (o_name o) = Some x
  | None => d_get d' (o_name o) = d_get d (o_name o)
  end.
Proof.
  induction l as [|a l IH]; intros d d' Hok H o Ho Hb Hl'.
  - simpl in *. inversion H; subst; auto.
  - inversion Hok as [|? ? Ha Hl]; subst. rewrite apply_asgs_cons in H.
    destruct (asg_value d a) as [x| |] eqn:Ev; try discriminate.
    pose proof (IH _ _ Hl H o Ho Hb Hl') as IHo.
    unfold vals_of. simpl. fold (vals_of (o_name o) l).
    destruct (N.eqb_spec (asg_key a) (o_name o)) as [E|E].
    + pose proof (asg_key_opt a o Ha Ho E) as Eo.
      destruct a as [oa v|oa b]; simpl in Eo; subst oa.
      * rewrite N.eqb_refl. simpl. simpl in Ev. rewrite Hl' in Ev.
        destruct (last_opt (vals_of (o_name o) l)); auto.
        exists x. split; auto. rewrite IHo. unfold asg_key; simpl. rewrite d_get_setitem, N.eqb_refl. reflexivity.
      * destruct Ha as [_ Ha]. simpl in Ha. congruence.
    + assert (Ef : (match a with ASet o0 v => if N.eqb (o_name o0) (o_name o) then [v] else [] | AFlag _ _ => [] end) = []).
      { destruct a as [oa v|oa b]; auto. unfold asg_key in E; simpl in E. apply N.eqb_neq in E. rewrite E. reflexivity. }
      rewrite Ef. simpl. destruct (last_opt (vals_of (o_name o) l)); auto.
      rewrite IHo. rewrite d_get_setitem. apply N.eqb_neq in E. rewrite (N.eqb_sym (o_name o) (asg_key a)), E. reflexivity.
Qed.

End Values.

(* ================================================================== defaults and environment *)
Definition env_str (env : name -> option string) (o : cmd_option) : option string :=
  match o_env o with Some e => env e | None => None end.

Lemma nodup_n_cons x l : nodup_n (x :: l) = true -> ~ In x l /\ nodup_n l = true.
Proof. simpl. rewrite andb_true_iff, negb_true_iff. intros [H1 H2]. split; auto. apply mem_false_In; auto. Qed.

Lemma defaults_fold opts : forall d, nodup_n (map o_name opts) = true ->
  let d' := fold_left (fun d o => d_set_default d (o_name o) (o_default o)) opts d in
  d_nd d' = d_nd d /\
  (forall k, ~ In k (map o_name opts) -> d_get d' k = d_get d k) /\
  (forall o, In o opts -> d_get d' (o_name o) = Some (o_default o)).
Proof.
  induction opts as [|p r IH]; intros d Hnd; simpl.
  - repeat split; auto. tauto.
  - simpl in Hnd. apply nodup_n_cons in Hnd. destruct Hnd as [Hp Hr].
    destruct (IH (d_set_default d (o_name p) (o_default p)) Hr) as (H1 & H2 & H3). repeat split.
    + rewrite H1. reflexivity.
    + intros k Hk. rewrite H2 by tauto. rewrite d_get_set_default.
      destruct (N.eqb_spec k (o_name p)); auto. subst. tauto.
    + intros o [->|Ho]; auto. rewrite (H2 _ Hp), d_get_set_default, N.eqb_refl. reflexivity.
Qed.

Section Env.
Variable conv : N -> string -> option value.
Variable env : name -> option string.

Lemma env_phase_cons o r d : env_phase conv env (o :: r) d =
  match env_str env o with
  | None => env_phase conv env r d
  | Some s => match str2type conv o (VStr s) with
              | Ok x => env_phase conv env r (d_setitem d (o_name o) x)
              | ParseError => ParseError
              | Crash => Crash
              end
  end.
Proof. unfold env_str. simpl. destruct (o_env o); auto. Qed.

Lemma env_phase_spec opts : forall d d', nodup_n (map o_name opts) = true ->
  env_phase conv env opts d = Ok d' ->
  (forall k, ~ In k (map o_name opts) -> d_get d' k = d_get d k /\ mem k (d_nd d') = mem k (d_nd d)) /\
  (forall o, In o opts ->
     match env_str env o with
     | Some s => exists x, str2type conv o (VStr s) = Ok x /\ d_get d' (o_name o) = Some x /\
                           mem (o_name o) (d_nd d') = true
     | None => d_get d' (o_name o) = d_get d (o_name o) /\ mem (o_name o) (d_nd d') = mem (o_name o) (d_nd d)
     end).
Proof.
  induction opts as [|p r IH]; intros d d' Hnd H.
  - simpl in H. inversion H; subst. split; auto. intros o [].
  - simpl in Hnd. apply nodup_n_cons in Hnd. destruct Hnd as [Hp Hr].
    rewrite env_phase_cons in H. destruct (env_str env p) as [s|] eqn:Es.
    + destruct (str2type conv p (VStr s)) as [x| |] eqn:Ec; try discriminate.
      destruct (IH _ _ Hr H) as [F S]. split.
      * intros k Hk. simpl in Hk. destruct (F k) as [F1 F2]; [tauto|].
        rewrite F1, F2, d_get_setitem, nd_setitem. destruct (N.eqb_spec k (o_name p)); [subst; tauto|auto].
      * intros o [->|Ho].
        -- rewrite Es. destruct (F _ Hp) as [F1 F2]. exists x. rewrite F1, F2, d_get_setitem, nd_setitem, N.eqb_refl. auto.
        -- specialize (S o Ho). destruct (env_str env o); auto.
           rewrite d_get_setitem, nd_setitem in S.
           destruct (N.eqb_spec (o_name o) (o_name p)) as [E|E]; auto.
           exfalso. apply Hp. rewrite <- E. apply in_map. auto.
    + destruct (IH _ _ Hr H) as [F S]. split.
      * intros k Hk. simpl in Hk. apply F. tauto.
      * intros o [->|Ho]; [|apply S; auto]. rewrite Es. apply F; auto.
Qed.

(* value and mark of every option after the defaults and the environment *)
Lemma before_cmdline st d0 : nodup_n (map o_name st) = true ->
  env_phase conv env st (defaults_phase st) = Ok d0 ->
  forall o, In o st ->
    match env_str env o with
    | Some s => exists x, str2type conv o (VStr s) = Ok x /\ d_get d0 (o_name o) = Some x /\ mem (o_name o) (d_nd d0) = true
    | None => d_get d0 (o_name o) = Some (o_default o) /\ mem (o_name o) (d_nd d0) = false
    end.
Proof.
  intros Hnd H o Ho. destruct (env_phase_spec st _ _ Hnd H) as [_ S]. specialize (S o Ho).
  destruct (env_str env o); auto.
  destruct (defaults_fold st d_empty Hnd) as (D1 & _ & D3). fold (defaults_phase st) in D1, D3.
  destruct S as [S1 S2]. rewrite S1, S2, D1, (D3 o Ho). auto.
Qed.
End Env.

(* ================================================================== overwrite_defaults *)
Lemma find_opt_set_default st k x k' :
  find_opt (set_default_in st k x) k' =
  if N.eqb k' k then option_map (fun o => set_opt_default o x) (find_opt st k) else find_opt st k'.
Proof.
  induction st as [|p r IH]; simpl.
  - destruct (N.eqb k' k); reflexivity.
  - destruct (N.eqb (o_name p) k) eqn:E; simpl.
    + apply N.eqb_eq in E. rewrite E. rewrite (N.eqb_sym k k'). destruct (N.eqb k' k) eqn:E2; auto.
    + rewrite IH. destruct (N.eqb_spec k' k).
      * subst k'. rewrite E. reflexivity.
      * destruct (N.eqb (o_name p) k'); reflexivity.
Qed.

Definition strip (o : cmd_option) : cmd_option := set_opt_default o VNone.
Lemma set_default_in_strip st k x : map strip (set_default_in st k x) = map strip st.
Proof. induction st as [|p r IH]; simpl; auto. destruct (N.eqb (o_name p) k); simpl; rewrite ?IH; reflexivity. Qed.

Lemma str2type_strip conv o x v : str2type conv (set_opt_default o x) v = str2type conv o v.
Proof. reflexivity. Qed.

(* the default an option ends up with: the converted config value if the config has its key
   (last entry), its previous default otherwise *)
Definition default_after conv (o0 : cmd_option) (cfg : list (name * value)) (d1 : value) : Prop :=
  match lookup_last cfg (o_name o0) with
  | Some v => str2type conv o0 v = Ok d1
  | None => d1 = o_default o0
  end.

Lemma find_opt_name st k o : find_opt st k = Some o -> o_name o = k.
Proof.
  induction st as [|p r IH]; simpl; [discriminate|].
  destruct (N.eqb_spec (o_name p) k); auto. intros H; inversion H; subst; auto.
Qed.

Lemma overwrite_defaults_spec conv cfg : forall st0 st1,
  overwrite_defaults conv st0 cfg = (Ok tt, st1) ->
  map strip st1 = map strip st0 /\
  forall k o1, find_opt st1 k = Some o1 ->
    exists o0, find_opt st0 k = Some o0 /\ o1 = set_opt_default o0 (o_default o1) /\
               default_after conv o0 cfg (o_default o1).
Proof.
  induction cfg as [|[k0 v0] r IH]; intros st0 st1 H.
  - simpl in H. inversion H; subst. split; auto. intros k o1 Hf. exists o1. repeat split; auto.
    destruct o1; reflexivity.
  - simpl in H. destruct (find_opt st0 k0) as [o|] eqn:Ef.
    + destruct (str2type conv o v0) as [x| |] eqn:Ec;
        try (destruct (overwrite_defaults conv st0 r); discriminate); try discriminate.
      destruct (IH _ _ H) as [S F]. split.
      * rewrite S. apply set_default_in_strip.
      * intros k o1 Hf. destruct (F k o1 Hf) as [o' (Hf' & E1 & Da)].
        rewrite find_opt_set_default in Hf'. unfold default_after, lookup_last in *. simpl.
        destruct (N.eqb_spec k k0) as [->|Hk].
        -- rewrite Ef in Hf'. simpl in Hf'. inversion Hf'; subst o'. clear Hf'.
           exists o. split; auto. split.
           ++ rewrite E1. destruct o; reflexivity.
           ++ pose proof (find_opt_name _ _ _ Ef) as En. simpl in Da. rewrite En in *. rewrite N.eqb_refl. simpl.
              match goal with |- context [last_opt ?l] => destruct (last_opt l) end; auto.
              simpl in Da. rewrite Da. exact Ec.
        -- exists o'. split; auto. split; auto.
           pose proof (find_opt_name _ _ _ Hf') as En. rewrite En in *.
           destruct (N.eqb_spec k0 k); [congruence|]. simpl. exact Da.
    + destruct (IH _ _ H) as [S F]. split; auto.
      intros k o1 Hf. destruct (F k o1 Hf) as [o' (Hf' & E1 & Da)]. exists o'. split; auto. split; auto.
      unfold default_after, lookup_last in *. simpl.
      pose proof (find_opt_name _ _ _ Hf') as En. rewrite En in *.
      destruct (N.eqb_spec k0 k); [congruence|]. simpl. exact Da.
Qed.

(* well-formedness depends only on what overwrite_defaults leaves alone *)
Lemma wf_spec_strip st : wf_spec (map strip st) = wf_spec st.
Proof.
  unfold wf_spec. f_equal; [f_equal; [f_equal|]|].
  - induction st as [|p r IH]; simpl; auto. rewrite IH. reflexivity.
  - f_equal. unfold shorts_of. induction st as [|p r IH]; simpl; auto. rewrite IH. reflexivity.
  - f_equal. unfold longs_of. induction st as [|p r IH]; simpl; auto. rewrite IH. reflexivity.
  - f_equal. rewrite map_map. reflexivity.
Qed.

Lemma overwrite_defaults_wf conv cfg st0 st1 :
  overwrite_defaults conv st0 cfg = (Ok tt, st1) -> wf_spec st1 = wf_spec st0.
Proof.
  intros H. destruct (overwrite_defaults_spec conv cfg st0 st1 H) as [S _].
  rewrite <- (wf_spec_strip st1), <- (wf_spec_strip st0), S. reflexivity.
Qed.

Lemma find_opt_In st : nodup_n (map o_name st) = true -> forall o, In o st -> find_opt st (o_name o) = Some o.
Proof.
  induction st as [|p r IH]; intros Hnd o Ho; [destruct Ho|].
  simpl in Hnd. apply nodup_n_cons in Hnd. destruct Hnd as [Hp Hr]. simpl.
  destruct Ho as [->|Ho]. rewrite N.eqb_refl. reflexivity.
  destruct (N.eqb_spec (o_name p) (o_name o)) as [E|E]; auto.
  exfalso. apply Hp. rewrite E. apply in_map. auto.
Qed.

(* ================================================================== the whole parse on a rendered command line *)
Section Main.
Variable conv : N -> string -> option value.

Definition lift_outcome {A B} (r : outcome A) : outcome B :=
  match r with Ok _ => Crash | ParseError => ParseError | Crash => Crash end.

Definition dashdash : string := String ch_dash (s1 ch_dash).

(* what follows the options: positional arguments whose first one is not option-like, or "--"
   followed by anything *)
Inductive tail_of : list string -> list string -> Prop :=
| tail_plain pos : positional_ok pos -> tail_of pos pos
| tail_dashdash pos : tail_of (dashdash :: pos) pos.

Lemma getopt_tail so lo t pos : tail_of t pos -> getopt so lo t = Some ([], pos).
Proof. intros [p H|p]. apply getopt_positional; auto. reflexivity. Qed.

Lemma parse_render st env items t pos : wf_spec st = true -> Forall (item_ok st) items -> tail_of t pos ->
  parse conv st env (render items ++ t) =
  (match env_phase conv env st (defaults_phase st) with
   | Ok d0 => lift_result (apply_asgs conv d0 (asgs_of items)) pos
   | ParseError => ParseError
   | Crash => Crash
   end, st).
Proof.
  intros WF Hok Ht. unfold parse, parse_gen.
  destruct (env_phase conv env st (defaults_phase st)) as [d0| |]; auto.
  apply (parse_only_render st WF conv items t d0 [] pos Hok); auto. apply getopt_tail; auto.
Qed.

Lemma parse_render_ok st env items t pos d args st' :
  wf_spec st = true -> Forall (item_ok st) items -> tail_of t pos ->
  parse conv st env (render items ++ t) = (Ok (d, args), st') ->
  args = pos /\ st' = st /\
  exists d0, env_phase conv env st (defaults_phase st) = Ok d0 /\ apply_asgs conv d0 (asgs_of items) = Ok d.
Proof.
  intros WF Hok Ht H. rewrite (parse_render st env items t pos WF Hok Ht) in H.
  destruct (env_phase conv env st (defaults_phase st)) as [d0| |]; try discriminate.
  destruct (apply_asgs conv d0 (asgs_of items)) as [d1| |] eqn:Ea; simpl in H; try discriminate.
  inversion H; subst. repeat split; auto. exists d0; auto.
Qed.

(* the value of every option after parsing, written out *)
Lemma parsed_values st env items t pos d args st' :
  wf_spec st = true -> Forall (item_ok st) items -> tail_of t pos ->
  parse conv st env (render items ++ t) = (Ok (d, args), st') ->
  forall o, In o st ->
  let k := o_name o in let l := asgs_of items in
  exists before,
    match env_str env o with Some s => str2type conv o (VStr s) = Ok before | None => before = o_default o end /\
    match o_ty o with
    | TBool => d_get d k = Some (match last_opt (flags_of k l) with Some b => VBool b | None => before end)
    | TList => forall base, before = VList base -> d_get d k = Some (VList (base ++ vals_of k l))
    | _ => match last_opt (vals_of k l) with
           | Some v => exists x, str2type conv o (VStr v) = Ok x /\ d_get d k = Some x
           | None => d_get d k = Some before
           end
    end /\
    (assigned k l = false -> d_get d k = Some before) /\
    mem k (d_nd d) = ((match env_str env o with Some _ => true | None => false end) || assigned k l)%bool.
Proof.
  intros WF Hok Ht H o Ho. cbv zeta.
  destruct (parse_render_ok st env items t pos d args st' WF Hok Ht H) as (_ & _ & d0 & He & Ha).
  destruct (wf_spec_parts st WF) as (_ & _ & _ & Hnd).
  pose proof (before_cmdline conv env st d0 Hnd He o Ho) as B.
  pose proof (asgs_of_ok st WF items Hok) as Hl.
  destruct (apply_asgs_frame conv _ d0 d Ha (o_name o)) as [Fnd Fget].
  assert (exists before, d_get d0 (o_name o) = Some before /\
            match env_str env o with Some s => str2type conv o (VStr s) = Ok before | None => before = o_default o end /\
            mem (o_name o) (d_nd d0) = match env_str env o with Some _ => true | None => false end) as [before (Bg & Bs & Bn)].
  { destruct (env_str env o) as [s|].
    - destruct B as [x (B1 & B2 & B3)]. exists x. auto.
    - destruct B as [B1 B2]. exists (o_default o). auto. }
  exists before. split; auto. split; [|split].
  - destruct (o_ty o) eqn:Et.
    + rewrite (apply_asgs_bool conv st WF _ d0 d Hl Ha o Ho) by (rewrite Et; reflexivity).
      destruct (last_opt (flags_of (o_name o) (asgs_of items))); auto.
    + intros base Eb. apply (apply_asgs_list conv st WF _ d0 d Hl Ha o base Ho); [rewrite Et; reflexivity|].
      rewrite Bg, Eb. reflexivity.
    + pose proof (apply_asgs_scalar conv st WF _ d0 d Hl Ha o Ho) as S. rewrite Et in S. specialize (S eq_refl eq_refl).
      destruct (last_opt (vals_of (o_name o) (asgs_of items))); auto. rewrite S. exact Bg.
    + pose proof (apply_asgs_scalar conv st WF _ d0 d Hl Ha o Ho) as S. rewrite Et in S. specialize (S eq_refl eq_refl).
      destruct (last_opt (vals_of (o_name o) (asgs_of items))); auto. rewrite S. exact Bg.
  - intros E. rewrite (Fget E). exact Bg.
  - rewrite Fnd, Bn. reflexivity.
Qed.

(* precedence: command line > environment > DOIT_CONFIG (update_defaults) > config file
   (overwrite_defaults) > declared default *)
Lemma pipeline_precedence st0 cfg st1 env items t pos d args st' dodo :
  wf_spec st0 = true -> overwrite_defaults conv st0 cfg = (Ok tt, st1) ->
  Forall (item_ok st1) items -> tail_of t pos ->
  parse conv st1 env (render items ++ t) = (Ok (d, args), st') ->
  forall o1, In o1 st1 ->
  let k := o_name o1 in
  exists o0, find_opt st0 k = Some o0 /\ o1 = set_opt_default o0 (o_default o1) /\
    d_get (update_defaults d dodo) k =
      if assigned k (asgs_of items) then d_get d k
      else match env_str env o1 with
           | Some s => match str2type conv o1 (VStr s) with Ok x => Some x | _ => None end
           | None =>
               match lookup_last dodo k with
               | Some x => Some x
               | None => match lookup_last cfg k with
                         | Some v => match str2type conv o0 v with Ok x => Some x | _ => None end
                         | None => Some (o_default o0)
                         end
               end
           end.
Proof.
  intros WF0 Hov Hok Ht H o1 Ho1. cbv zeta.
  assert (WF1 : wf_spec st1 = true) by (rewrite (overwrite_defaults_wf conv cfg st0 st1 Hov); auto).
  destruct (wf_spec_parts st1 WF1) as (_ & _ & _ & Hnd).
  destruct (overwrite_defaults_spec conv cfg st0 st1 Hov) as [_ F].
  destruct (F (o_name o1) o1 (find_opt_In st1 Hnd o1 Ho1)) as [o0 (Hf0 & E1 & Da)].
  exists o0. split; auto. split; auto.
  destruct (parsed_values st1 env items t pos d args st' WF1 Hok Ht H o1 Ho1) as [before (Bs & _ & Bun & Bn)].
  cbv zeta in Bs, Bun, Bn.
  destruct (update_defaults_spec dodo d (o_name o1)) as [_ U]. rewrite U, Bn.
  destruct (assigned (o_name o1) (asgs_of items)) eqn:Ea.
  - rewrite orb_true_r. reflexivity.
  - rewrite orb_false_r. rewrite (Bun eq_refl).
    destruct (env_str env o1) as [s|].
    + rewrite Bs. reflexivity.
    + destruct (lookup_last dodo (o_name o1)); auto. subst before.
      unfold default_after in Da. rewrite (find_opt_name _ _ _ Hf0) in Da.
      destruct (lookup_last cfg (o_name o1)); [rewrite Da|rewrite Da]; reflexivity.
Qed.

(* ================================================================== rejection *)
Lemma short_has_arg_unknown st c : forallb opt_ok st = true -> ~ In (s1 c) (shorts_of st) ->
  short_has_arg c (get_short st) = None.
Proof.
  induction st as [|p r IH]; simpl; auto. rewrite andb_true_iff. intros [Hp Hr] Hn.
  destruct (opt_ok_parts p Hp) as (Hs & _).
  destruct (short_ok_cases _ Hs) as [E|[c' E]]; rewrite E in *; simpl in *.
  - apply IH; auto.
  - assert (Hc : aeqb c c' = false) by (apply aeqb_neq; intros ->; apply Hn; auto).
    rewrite Hc. simpl. destruct (is_bool (o_ty p)); simpl.
    + apply IH; auto.
    + rewrite andb_false_r. apply IH; auto.
Qed.

Lemma filter_none {A} (f : A -> bool) l : (forall e, In e l -> f e = false) -> filter f l = [].
Proof.
  induction l as [|x r IH]; simpl; auto. intros H. rewrite (H x (or_introl eq_refl)). apply IH. auto.
Qed.

Lemma long_has_args_unknown nm lo : (forall e, In e lo -> sprefix nm e = false) -> long_has_args nm lo = None.
Proof. intros H. unfold long_has_args. rewrite (filter_none _ _ H). reflexivity. Qed.

Lemma long_has_args_ambiguous nm lo e1 e2 more :
  filter (sprefix nm) lo = e1 :: e2 :: more -> ~ In nm lo -> ~ In (sapp nm (s1 ch_eq)) lo ->
  long_has_args nm lo = None.
Proof.
  intros E H1 H2. unfold long_has_args. rewrite E.
  assert (A : smem nm (e1 :: e2 :: more) = false).
  { apply smem_false. intros Hin. rewrite <- E in Hin. apply filter_In in Hin. tauto. }
  assert (B : smem (sapp nm (s1 ch_eq)) (e1 :: e2 :: more) = false).
  { apply smem_false. intros Hin. rewrite <- E in Hin. apply filter_In in Hin. tauto. }
  rewrite A, B. reflexivity.
Qed.

(* a token in option position that getopt rejects; [rest] = the arguments after it *)
Inductive bad_token (st : pstate) : string -> list string -> Prop :=
| bad_unknown_short c x rest :                       (* -c...  with c not a short name *)
    c <> ch_dash -> ~ In (s1 c) (shorts_of st) -> bad_token st (dash1 (String c x)) rest
| bad_unknown_long body rest :                       (* --name[=v]  with no long name starting with name *)
    body <> EmptyString -> (forall e, In e (get_long st) -> sprefix (fst (split_eq body)) e = false) ->
    bad_token st (dash2 body) rest
| bad_ambiguous nm e1 e2 more rest :                 (* --pre  prefix of two long names, equal to none *)
    nm <> EmptyString -> no_eq nm = true -> filter (sprefix nm) (get_long st) = e1 :: e2 :: more ->
    ~ In nm (get_long st) -> ~ In (sapp nm (s1 ch_eq)) (get_long st) -> bad_token st (dash2 nm) rest
| bad_missing_short o :                              (* -s  as the last argument, s needs a value *)
    In o st -> is_bool (o_ty o) = false -> o_short o <> EmptyString -> bad_token st (dash1 (o_short o)) []
| bad_missing_long o :                               (* --long  as the last argument *)
    In o st -> is_bool (o_ty o) = false -> o_long o <> EmptyString -> bad_token st (dash2 (o_long o)) []
| bad_flag_arg o v rest :                            (* --flag=v *)
    In o st -> is_bool (o_ty o) = true -> o_long o <> EmptyString ->
    bad_token st (dash2 (sapp (o_long o) (String ch_eq v))) rest.

Lemma sapp_nonempty a c v : sapp a (String c v) <> EmptyString.
Proof. destruct a; discriminate. Qed.

Lemma bad_token_getopt st b rest : wf_spec st = true -> bad_token st b rest ->
  getopt (get_short st) (get_long st) (b :: rest) = None.
Proof.
  intros WF Hb. destruct (wf_spec_parts st WF) as (Hall & _).
  assert (G : forall t, classify b = t -> t <> TPos -> t <> TEnd ->
              (forall next, gstep (get_short st) (get_long st) t next = None) \/
              (rest = [] /\ gstep (get_short st) (get_long st) t None = None) ->
              getopt (get_short st) (get_long st) (b :: rest) = None).
  { intros t Ec H1 H2 Hg. rewrite (getopt_opt_tok _ _ b rest t Ec H1 H2).
    destruct Hg as [Hg|[-> Hg]]; [destruct rest; rewrite Hg; reflexivity|rewrite Hg; reflexivity]. }
  destruct Hb as [c x rest Hc Hn|body rest Hne Hp|nm e1 e2 more rest Hne Hnoeq Hf H1 H2|o Hin Hbo Hs|o Hin Hbo Hl|o v rest Hin Hbo Hl].
  - apply (G _ (classify_short c x Hc)); try discriminate. left. intros next. simpl.
    rewrite (short_has_arg_unknown st c Hall Hn). reflexivity.
  - apply (G _ (classify_long body Hne)); try discriminate. left. intros next. simpl. unfold do_longs.
    destruct (split_eq body) as [nm oa]. simpl in Hp. rewrite (long_has_args_unknown _ _ Hp). reflexivity.
  - apply (G _ (classify_long nm Hne)); try discriminate. left. intros next. simpl. unfold do_longs.
    rewrite (split_eq_noeq _ Hnoeq). rewrite (long_has_args_ambiguous nm _ e1 e2 more Hf H1 H2). reflexivity.
  - destruct (short_char st WF o Hin Hs) as [c (E & Hd & _)]. rewrite E in G |- *.
    apply (G _ (classify_short c EmptyString Hd)); try discriminate. right. split; auto. simpl.
    rewrite (sha st WF o c Hin E), Hbo. reflexivity.
  - apply (G _ (classify_long _ Hl)); try discriminate. right. split; auto. simpl. unfold do_longs.
    destruct (opt_ok_parts o (wf_opt_ok st WF o Hin)) as (_ & Hne & _).
    rewrite (split_eq_noeq _ Hne), (long_has_args_value st WF o Hin Hbo Hl). reflexivity.
  - apply (G _ (classify_long _ (sapp_nonempty _ _ _))); try discriminate. left. intros next. simpl. unfold do_longs.
    destruct (opt_ok_parts o (wf_opt_ok st WF o Hin)) as (_ & Hne & _).
    rewrite (split_eq_app _ v Hne), (long_has_args_flag st o Hin Hbo Hl). reflexivity.
Qed.

Lemma parse_bad_token st env items b rest : wf_spec st = true -> Forall (item_ok st) items ->
  bad_token st b rest ->
  parse conv st env (render items ++ b :: rest) =
  (match env_phase conv env st (defaults_phase st) with Crash => Crash | _ => ParseError end, st).
Proof.
  intros WF Hok Hb. unfold parse, parse_gen.
  destruct (env_phase conv env st (defaults_phase st)) as [d0| |]; auto.
  unfold parse_only_gen. rewrite (getopt_render st WF items _ Hok), (bad_token_getopt st b rest WF Hb). reflexivity.
Qed.

(* ill-typed values *)
Lemma apply_asgs_app d l1 l2 : apply_asgs conv d (l1 ++ l2) =
  match apply_asgs conv d l1 with Ok d1 => apply_asgs conv d1 l2 | ParseError => ParseError | Crash => Crash end.
Proof.
  revert d. induction l1 as [|a l1 IH]; intros d; auto.
  rewrite <- app_comm_cons, !apply_asgs_cons. destruct (asg_value conv d a); auto.
Qed.

Lemma apply_asgs_bad_value d l1 o v l2 d1 :
  apply_asgs conv d l1 = Ok d1 -> is_list (o_ty o) = false -> str2type conv o (VStr v) = ParseError ->
  apply_asgs conv d (l1 ++ ASet o v :: l2) = ParseError.
Proof. intros H1 Hl Hs. rewrite apply_asgs_app, H1. simpl. rewrite Hl, Hs. reflexivity. Qed.

Lemma apply_asgs_not_ok l : forall d o v, In (ASet o v) l -> is_list (o_ty o) = false ->
  (forall x, str2type conv o (VStr v) <> Ok x) -> forall d', apply_asgs conv d l <> Ok d'.
Proof.
  induction l as [|a l IH]; intros d o v Hin Hl Hs d'; [destruct Hin|].
  rewrite apply_asgs_cons. destruct Hin as [->|Hin].
  - simpl. rewrite Hl. destruct (str2type conv o (VStr v)) as [x| |]; try discriminate. exfalso. apply (Hs x); auto.
  - destruct (asg_value conv d a); try discriminate. eapply IH; eauto.
Qed.

Lemma env_phase_not_ok env opts : forall d o s, In o opts -> env_str env o = Some s ->
  (forall x, str2type conv o (VStr s) <> Ok x) -> forall d', env_phase conv env opts d <> Ok d'.
Proof.
  induction opts as [|p r IH]; intros d o s Hin He Hs d'; [destruct Hin|].
  rewrite env_phase_cons. destruct Hin as [->|Hin].
  - rewrite He. destruct (str2type conv o (VStr s)) as [x| |]; try discriminate. exfalso. apply (Hs x); auto.
  - destruct (env_str env p); [destruct (str2type conv p (VStr s0)); try discriminate|]; eapply IH; eauto.
Qed.

Lemma str2type_ill_typed o n v : o_ty o = TOther n -> conv n v = None -> str2type conv o (VStr v) = ParseError.
Proof. intros Et Ec. unfold str2type. rewrite Et, Ec. reflexivity. Qed.
Lemma str2type_bad_choice o v : o_ty o = TStr -> o_choices o <> [] -> smem v (o_choices o) = false ->
  str2type conv o (VStr v) = ParseError.
Proof.
  intros Et Hc Hm. unfold str2type, validate_choice. rewrite Et.
  destruct (o_choices o) as [|c cs]; [contradiction|]. rewrite Hm. reflexivity.
Qed.
Lemma str2type_bad_bool o v : o_ty o = TBool -> str2boolean v = None -> str2type conv o (VStr v) = ParseError.
Proof. intros Et Eb. unfold str2type. rewrite Et, Eb. reflexivity. Qed.

End Main.

Section RejectValues.
Variable conv : N -> string -> option value.

(* a value the option's type does not accept, written anywhere on the command line: never accepted *)
Lemma parse_value_not_ok st env items t pos o v : wf_spec st = true -> Forall (item_ok st) items -> tail_of t pos ->
  In (ASet o v) (asgs_of items) -> is_list (o_ty o) = false -> (forall x, str2type conv o (VStr v) <> Ok x) ->
  forall r, fst (parse conv st env (render items ++ t)) <> Ok r.
Proof.
  intros WF Hok Ht Hin Hl Hs r. rewrite (parse_render conv st env items t pos WF Hok Ht). simpl.
  destruct (env_phase conv env st (defaults_phase st)) as [d0| |]; try discriminate.
  destruct (apply_asgs conv d0 (asgs_of items)) as [d1| |] eqn:E; simpl; try discriminate.
  exfalso. exact (apply_asgs_not_ok conv _ d0 o v Hin Hl Hs d1 E).
Qed.

(* ... and it is a parse error when it is the first thing that goes wrong *)
Lemma parse_value_parse_error st env items t pos l1 o v l2 d0 d1 : wf_spec st = true -> Forall (item_ok st) items ->
  tail_of t pos -> asgs_of items = l1 ++ ASet o v :: l2 ->
  env_phase conv env st (defaults_phase st) = Ok d0 -> apply_asgs conv d0 l1 = Ok d1 ->
  is_list (o_ty o) = false -> str2type conv o (VStr v) = ParseError ->
  parse conv st env (render items ++ t) = (ParseError, st).
Proof.
  intros WF Hok Ht El He H1 Hl Hs. rewrite (parse_render conv st env items t pos WF Hok Ht), He, El.
  rewrite (apply_asgs_bad_value conv d0 l1 o v l2 d1 H1 Hl Hs). reflexivity.
Qed.

Lemma parse_env_not_ok st env argv o s : In o st -> env_str env o = Some s ->
  (forall x, str2type conv o (VStr s) <> Ok x) -> forall r, fst (parse conv st env argv) <> Ok r.
Proof.
  intros Hin He Hs r. unfold parse, parse_gen.
  destruct (env_phase conv env st (defaults_phase st)) as [d0| |] eqn:E; simpl; try discriminate.
  exfalso. exact (env_phase_not_ok conv env st _ o s Hin He Hs d0 E).
Qed.
End RejectValues.

(* an ill-typed value in the configuration handed to overwrite_defaults is never accepted *)
Lemma overwrite_not_ok conv cfg : forall st k v o, In (k, v) cfg -> find_opt st k = Some o ->
  (forall x, str2type conv o v <> Ok x) -> fst (overwrite_defaults conv st cfg) <> Ok tt.
Proof.
  induction cfg as [|[k0 v0] r IH]; intros st k v o Hin Hf Hs; [destruct Hin|].
  simpl. destruct Hin as [E|Hin].
  - inversion E; subst k0 v0. rewrite Hf.
    destruct (str2type conv o v) as [x| |] eqn:Ec; simpl; try discriminate. exfalso. apply (Hs x); auto.
  - destruct (find_opt st k0) as [o'|] eqn:Ef0; [|eapply IH; eauto].
    destruct (str2type conv o' v0) as [x| |]; simpl; try discriminate.
    destruct (N.eqb_spec k k0) as [->|Hk].
    + apply (IH _ k0 v (set_opt_default o x) Hin).
      * rewrite find_opt_set_default, N.eqb_refl. rewrite Hf in Ef0. inversion Ef0; subst. rewrite Hf. reflexivity.
      * intros y. rewrite str2type_strip. apply Hs.
    + apply (IH _ k v o Hin); auto. rewrite find_opt_set_default.
      apply N.eqb_neq in Hk. rewrite Hk. exact Hf.
Qed.

(* ================================================================== choices of a list option (repair 424a4bf) *)
Section ListChoices.
Variable conv : N -> string -> option value.

Lemma apply_asgs_not_ok_list l : forall d o v, In (ASet o v) l -> is_list (o_ty o) = true ->
  (forall x, validate_choice o (VStr v) <> Ok x) -> forall d', apply_asgs conv d l <> Ok d'.
Proof.
  induction l as [|a l IH]; intros d o v Hin Hl Hs d'; [destruct Hin|].
  rewrite apply_asgs_cons. destruct Hin as [->|Hin].
  - simpl. rewrite Hl. destruct (validate_choice o (VStr v)) as [x| |]; try discriminate. exfalso. apply (Hs x); auto.
  - destruct (asg_value conv d a); try discriminate. eapply IH; eauto.
Qed.

Lemma parse_list_choice_not_ok st env items t pos o v : wf_spec st = true -> Forall (item_ok st) items -> tail_of t pos ->
  In (ASet o v) (asgs_of items) -> is_list (o_ty o) = true -> (forall x, validate_choice o (VStr v) <> Ok x) ->
  forall r, fst (parse conv st env (render items ++ t)) <> Ok r.
Proof.
  intros WF Hok Ht Hin Hl Hs r. rewrite (parse_render conv st env items t pos WF Hok Ht). simpl.
  destruct (env_phase conv env st (defaults_phase st)) as [d0| |]; try discriminate.
  destruct (apply_asgs conv d0 (asgs_of items)) as [d1| |] eqn:E; simpl; try discriminate.
  exfalso. exact (apply_asgs_not_ok_list _ d0 o v Hin Hl Hs d1 E).
Qed.

Lemma parse_list_choice_parse_error st env items t pos l1 o v l2 d0 d1 : wf_spec st = true -> Forall (item_ok st) items ->
  tail_of t pos -> asgs_of items = l1 ++ ASet o v :: l2 ->
  env_phase conv env st (defaults_phase st) = Ok d0 -> apply_asgs conv d0 l1 = Ok d1 ->
  is_list (o_ty o) = true -> validate_choice o (VStr v) = ParseError ->
  parse conv st env (render items ++ t) = (ParseError, st).
Proof.
  intros WF Hok Ht El He H1 Hl Hs. rewrite (parse_render conv st env items t pos WF Hok Ht), He, El.
  rewrite apply_asgs_app, H1. simpl. rewrite Hl, Hs. reflexivity.
Qed.

Lemma validate_choice_bad_item o v : o_choices o <> [] -> smem v (o_choices o) = false ->
  validate_choice o (VStr v) = ParseError.
Proof. intros Hc Hm. unfold validate_choice. destruct (o_choices o); [contradiction|]. rewrite Hm. reflexivity. Qed.

Lemma str2type_bad_list_item o s : o_ty o = TList -> o_choices o <> [] ->
  forallb (fun x => smem x (o_choices o)) (str2list s) = false -> str2type conv o (VStr s) = ParseError.
Proof.
  intros Et Hc Hm. unfold str2type, validate_choice. rewrite Et. destruct (o_choices o); [contradiction|].
  rewrite Hm. reflexivity.
Qed.
End ListChoices.
