(* ParLiveEx.v -- non-vacuity of ParLiveP / ParTermP / ParOutcomeLiveP by computation, and the witness that
   exit code 98 DOES occur below the fuel bound (main_get out of its own fuel), without any PHang event. *)
From DoitV Require Import Base Dispatch Runner Parallel DispatchP DispatchInv RunnerTr RunnerP AncP HoldP HoldG CompleteP
  ParallelP ParHoldP TermP ParStepP ParLiveP ParTermP ParOutcomeLiveP.
Open Scope N_scope.

(* 0 depends on 1 and 2 (2 has teardown actions, 1 fails), 3 has a setup task 4 and a calc_dep 5 that adds 1 *)
Definition exl (n : name) : option task :=
  match n with
  | 0 => Some (Build_task [1; 2] [] [] false false CkRun false OOk [] [] [])
  | 1 => Some (Build_task [] [] [] false false CkRun false OFail [] [] [])
  | 2 => Some (Build_task [] [] [] true false CkRun false OOk [] [] [])
  | 3 => Some (Build_task [] [4] [5] true false CkRun false OOk [] [] [])
  | 4 => Some (Build_task [] [] [] false false CkUpToDate false OOk [] [] [])
  | 5 => Some (Build_task [] [] [] false false CkRun false OOk [1] [] [])
  | _ => None end.
Lemma exl_finite : finite_table exl [0; 1; 2; 3; 4; 5].
Proof.
  intros k Hk. destruct k as [|p]; [exfalso; apply Hk; simpl; auto|].
  repeat (destruct p as [p|p|]; try reflexivity; try (exfalso; apply Hk; simpl; tauto)).
Qed.

Definition exl_fuel (np : nat) : nat := par_enough_fuel exl [0; 1; 2; 3; 4; 5] [0; 3] np.

(* the hypotheses of parallel_terminates_explicit / parallel_acyclic_continue_all_reported are satisfiable:
   the bound is computable, and runs with exactly that fuel (2 and 3 workers, both flavours, different
   schedules) end with exit code 2 (task 1 fails, 0 and 3 depend on it) having reported 0 and 3 *)
Example par_liveness_nonvacuous :
  N.of_nat (exl_fuel 2) = 6809 /\ N.of_nat (exl_fuel 3) = 8171 /\
  (let res := run_parallel exl (fun _ _ => 0) (fun _ => 0) true false true (exl_fuel 2) 2 [1;1;0;1;1;1;0;1]%nat [0; 3] in
   snd res = 2 /\ pfinished (fst res) 0 /\ pfinished (fst res) 3 /\ ~ In PHang (fst res)) /\
  (let res := run_parallel exl (fun _ _ => 0) (fun _ => 0) true false false (exl_fuel 3) 3 [2;0;1;3;1;0;2;2;1]%nat [0; 3] in
   snd res = 2 /\ pfinished (fst res) 0 /\ pfinished (fst res) 3).
Proof.
  split; [vm_compute; reflexivity|]. split; [vm_compute; reflexivity|]. split.
  - split; [vm_compute; reflexivity|]. split; [vm_compute; reflexivity|]. split; [vm_compute; reflexivity|].
    exact (parallel_never_hangs _ _ _ _ _ _ _ _ _ _).
  - split; [vm_compute; reflexivity|]. split; vm_compute; reflexivity.
Qed.

(* the same final reports for the selected tasks as the serial run (parallel_serial_same_final_reports) *)
Example par_outcome_nonvacuous :
  let par := run_parallel exl (fun _ _ => 0) (fun _ => 0) true false true (exl_fuel 2) 2 [1;1;0;1;1;1;0;1]%nat [0; 3] in
  let ser := run_serial exl (fun _ _ => 0) (fun _ => 0) true false (enough_fuel exl [0; 1; 2; 3; 4; 5] [0; 3]) [0; 3] in
  snd par = 2 /\ snd ser = 2 /\
  In (PE (EFailure 0 kind_unmet)) (fst par) /\ In (EFailure 0 kind_unmet) (fst ser) /\
  In (PE (EFailure 3 kind_unmet)) (fst par) /\ In (EFailure 3 kind_unmet) (fst ser).
Proof.
  split; [vm_compute; reflexivity|]. split; [vm_compute; reflexivity|].
  split; [vm_compute; tauto|]. split; [vm_compute; tauto|]. split; vm_compute; tauto.
Qed.

(* "snd (run_parallel ..) <> 98 for EVERY fuel" is FALSE in this model: 12 independent tasks, 12 workers,
   fuel 5, a schedule that lets the workers step before the main thread dequeues: main_get runs out of its
   4 * 5 scheduler steps (24 worker steps are enabled) and run_tasks is reported as hung -- although no PHang
   event is logged (nothing was blocked: parallel_never_hangs).  With par_enough_fuel the same run succeeds. *)
Definition indep12 (n : name) : option task :=
  if n <? 12 then Some (Build_task [] [] [] false false CkRun false OOk [] [] []) else None.
Example exit_code_98_below_the_fuel_bound :
  exists tasks wake_rank calc_rank continue_ always proc fuel nprocs sched selection,
    snd (run_parallel tasks wake_rank calc_rank continue_ always proc fuel nprocs sched selection) = 98.
Proof.
  exists indep12, (fun _ _ => 0), (fun _ => 0), false, false, false, 5%nat, 12%nat, (repeat 1%nat 200), [0;1;2;3;4;5;6;7;8;9;10;11].
  vm_compute. reflexivity.
Qed.
Example exit_code_98_fuel_bound_enough :
  snd (run_parallel indep12 (fun _ _ => 0) (fun _ => 0) false false false
         (par_enough_fuel indep12 [0;1;2;3;4;5;6;7;8;9;10;11] [0;1;2;3;4;5;6;7;8;9;10;11] 12) 12 (repeat 1%nat 200)
         [0;1;2;3;4;5;6;7;8;9;10;11]) = 0.
Proof. vm_compute. reflexivity. Qed.
