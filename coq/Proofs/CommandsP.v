(* CommandsP.v -- proofs about Model/Commands.v: the task lists the three commands compute
   (check_tasks_exist, subtasks_iter, tasks_and_deps_iter: sound, complete, fuel adequate), the
   effect of forget / ignore / reset-dep on the DB (exact set + frame), and what the next status
   query / run answers on the DB they leave. *)
From Coq Require Import ZifyBool Relations.
From DoitV Require Import Base Status History StatusP HistoryP Commands.
From DoitV Require Dispatch Runner.
Open Scope Z_scope.

(* ---------- the table ---------- *)
Lemma lookup_In tb n c : lookup tb n = Some c -> In (n, c) tb.
Proof.
  induction tb as [|[k c0] r IH]; simpl; [discriminate|].
  destruct (lookup r n) as [c'|] eqn:E.
  - intros H. inversion H; subst. right. apply IH. reflexivity.
  - destruct (N.eqb_spec k n) as [->|Hne]; [|discriminate]. intros H. inversion H; subst. left. reflexivity.
Qed.

Lemma lookup_none tb n : lookup tb n = None <-> ~ In n (names tb).
Proof.
  induction tb as [|[k c0] r IH]; simpl.
  - split; auto.
  - destruct (lookup r n) as [c'|] eqn:E.
    + split; [discriminate|]. intros H. exfalso. apply H. right.
      destruct (in_dec N.eq_dec n (names r)) as [Hi|Hi]; auto. apply IH in Hi. discriminate.
    + destruct (N.eqb_spec k n) as [->|Hne].
      * split; [discriminate|]. intros H. exfalso. apply H. auto.
      * split; auto. intros _ [H|H]; [contradiction|]. apply (proj1 IH); auto.
Qed.

Lemma lookup_some_name tb n c : lookup tb n = Some c -> In n (names tb).
Proof. intros H. apply lookup_In in H. apply (in_map fst) in H. exact H. Qed.

Definition known (tb : table) (n : name) : Prop := lookup tb n <> None.
(* every name a task mentions in task_dep / setup is a task (what TaskControl checks; the three
   commands do not) *)
Definition closed (tb : table) : Prop :=
  forall n c, lookup tb n = Some c -> forall m, In m (c_task_dep c ++ c_setup c) -> known tb m.

Lemma first_unknown_none tb l : first_unknown tb l = None <-> forall n, In n l -> known tb n.
Proof.
  unfold known. induction l as [|n r IH]; simpl.
  - split; [intros _ n [] | reflexivity].
  - destruct (lookup tb n) eqn:E.
    + rewrite IH. split.
      * intros H m [<-|Hm]; [congruence | auto].
      * intros H m Hm. apply H. auto.
    + split; [discriminate|]. intros H. exfalso. apply (H n); auto.
Qed.

(* the name reported is the first one, in command-line order, that is not a task *)
Lemma first_unknown_some tb l bad :
  first_unknown tb l = Some bad ->
  exists pre post, l = pre ++ bad :: post /\ lookup tb bad = None /\ forall n, In n pre -> known tb n.
Proof.
  unfold known. induction l as [|n r IH]; simpl; [discriminate|].
  destruct (lookup tb n) eqn:E.
  - intros H. destruct (IH H) as (pre & post & -> & Hb & Hp). exists (n :: pre), post.
    split; [reflexivity|]. split; auto. intros m [<-|Hm]; [congruence | auto].
  - intros H. inversion H; subst. exists [], r. split; [reflexivity|]. split; [auto | intros m []].
Qed.

(* ---------- subtasks_iter ---------- *)
Definition is_sub (tb : table) (me x : name) : Prop :=
  exists cx, lookup tb x = Some cx /\ c_subtask_of cx = Some me.

Lemma opt_name_eqb_true a b : opt_name_eqb a b = true <-> a = Some b.
Proof.
  destruct a as [x|]; simpl; [|split; discriminate].
  destruct (N.eqb_spec x b) as [->|H]; split; try congruence; auto.
Qed.

Lemma subtasks_of_spec tb me deps l :
  subtasks_of tb me deps = Some l -> forall x, In x l <-> In x deps /\ is_sub tb me x.
Proof.
  revert l. induction deps as [|d r IH]; simpl; intros l H.
  - inversion H; subst. intros x. split; [intros [] | intros [[] _]].
  - destruct (lookup tb d) as [cd|] eqn:Ed; [|discriminate].
    destruct (subtasks_of tb me r) as [l'|] eqn:Er; [|discriminate].
    specialize (IH l' eq_refl). inversion H; subst. intros x.
    destruct (opt_name_eqb (c_subtask_of cd) me) eqn:Eb.
    + apply opt_name_eqb_true in Eb. simpl. rewrite IH. split.
      * intros [<-|[H1 H2]]; [split; auto; exists cd; auto | split; auto].
      * intros [[<-|H1] H2]; auto.
    + rewrite IH. split.
      * intros [H1 H2]; auto.
      * intros [[<-|H1] H2]; auto. destruct H2 as (cx & H2 & H3). rewrite Ed in H2. inversion H2; subst.
        apply opt_name_eqb_true in H3. congruence.
Qed.

Lemma subtasks_of_total tb me deps :
  (forall x, In x deps -> known tb x) -> exists l, subtasks_of tb me deps = Some l.
Proof.
  unfold known. induction deps as [|d r IH]; simpl; intros H; [eauto|].
  destruct (lookup tb d) eqn:Ed; [|exfalso; apply (H d); auto].
  destruct IH as [l ->]; [intros; apply H; auto|]. eauto.
Qed.

(* x is n or one of n's sub-tasks *)
Definition self_or_sub (tb : table) (n x : name) : Prop :=
  x = n \/ exists c, lookup tb n = Some c /\ In x (c_task_dep c) /\ is_sub tb n x.

Lemma named_with_subs_spec tb l r :
  named_with_subs tb l = Some r ->
  (forall x, In x r <-> exists n, In n l /\ self_or_sub tb n x) /\ (forall n, In n l -> known tb n).
Proof.
  revert r. induction l as [|n l IH]; simpl; intros r H.
  - inversion H; subst. split; [|intros n []]. intros x. split; [intros [] | intros (n & [] & _)].
  - destruct (lookup tb n) as [c|] eqn:En; [|discriminate]. unfold subtasks_iter in H.
    destruct (subtasks_of tb n (c_task_dep c)) as [s|] eqn:Es; [|discriminate].
    destruct (named_with_subs tb l) as [l'|] eqn:El; [|discriminate].
    destruct (IH l' eq_refl) as [IH1 IH2]. inversion H; subst. split.
    + intros x. simpl. rewrite in_app_iff, IH1, (subtasks_of_spec _ _ _ _ Es). split.
      * intros [<-|[[H1 H2]|(m & H1 & H2)]].
        -- exists x. split; auto. left. reflexivity.
        -- exists n. split; auto. right. exists c. auto.
        -- exists m. auto.
      * intros (m & [<-|Hm] & [->|(c' & H1 & H2 & H3)]); auto.
        -- rewrite En in H1. inversion H1; subst. auto.
        -- right. right. exists m. split; auto. left. reflexivity.
        -- right. right. exists m. split; auto. right. exists c'. auto.
    + intros m [<-|Hm]; [unfold known; congruence | auto].
Qed.

Lemma named_with_subs_total tb l :
  closed tb -> (forall n, In n l -> known tb n) -> exists r, named_with_subs tb l = Some r.
Proof.
  intros Hc. induction l as [|n l IH]; simpl; intros H; [eauto|].
  destruct (lookup tb n) as [c|] eqn:En; [|exfalso; apply (H n); auto].
  unfold subtasks_iter.
  destruct (subtasks_of_total tb n (c_task_dep c)) as [s ->].
  { intros x Hx. apply (Hc n c En). apply in_or_app. auto. }
  destruct IH as [r ->]; [intros; apply H; auto|]. eauto.
Qed.

Lemma named_with_subs_none tb l :
  named_with_subs tb l = None -> (forall n, In n l -> known tb n) -> ~ closed tb.
Proof.
  intros H Hk Hc. destruct (named_with_subs_total tb l Hc Hk) as [r Hr]. congruence.
Qed.

(* ---------- remove_list / ignore_list ---------- *)
Lemma remove_list_in l : forall d x, In x l -> remove_list d l x = None.
Proof.
  unfold remove_list. induction l as [|y l IH]; intros d x H; [destruct H|]. simpl.
  destruct (in_dec N.eq_dec x l) as [Hi|Hi]; [apply IH; auto|].
  destruct H as [->|H]; [|contradiction].
  clear IH. revert d. induction l as [|z l IH]; intros d; simpl.
  - apply remove_same.
  - assert (Hz : z <> x) by (intros ->; apply Hi; left; reflexivity).
    assert (Hl : ~ In x l) by (intros H; apply Hi; right; exact H).
    specialize (IH Hl).
    assert (E : forall d1 d2, d1 x = d2 x -> fold_left remove l d1 x = fold_left remove l d2 x).
    { clear -Hl. induction l as [|w l IH]; intros d1 d2 H; simpl; auto. apply IH.
      - intros H'. apply Hl. right. exact H'.
      - unfold remove, upd. destruct (N.eqb x w); auto. }
    rewrite (E (remove (remove d x) z) (remove d x)); [apply IH|].
    apply remove_other. auto.
Qed.

Lemma remove_list_out l : forall d x, ~ In x l -> remove_list d l x = d x.
Proof.
  unfold remove_list. induction l as [|y l IH]; intros d x H; simpl; auto.
  rewrite IH by (intros H'; apply H; right; exact H'). apply remove_other. intros ->. apply H. left. reflexivity.
Qed.

Lemma ignore_same d t : ignore d t t = Some (set_ignore (getrec d t) true).
Proof. unfold ignore. apply upd_same. Qed.
Lemma ignore_other d t x : x <> t -> ignore d t x = d x.
Proof. unfold ignore. apply upd_other. Qed.

Lemma ignore_list_out l : forall d x, ~ In x l -> ignore_list d l x = d x.
Proof.
  unfold ignore_list. induction l as [|y l IH]; intros d x H; simpl; auto.
  rewrite IH by (intros H'; apply H; right; exact H'). apply ignore_other. intros ->. apply H. left. reflexivity.
Qed.

Lemma getrec_ignore_same d t : getrec (ignore d t) t = set_ignore (getrec d t) true.
Proof. unfold getrec at 1. rewrite ignore_same. reflexivity. Qed.

(* marking is idempotent and touches only the mark *)
Lemma ignore_list_in l : forall d x, In x l -> ignore_list d l x = Some (set_ignore (getrec d x) true).
Proof.
  unfold ignore_list. induction l as [|y l IH]; intros d x H; [destruct H|]. simpl.
  destruct (in_dec N.eq_dec x l) as [Hi|Hi].
  - rewrite IH by auto. destruct (N.eq_dec x y) as [->|Hne].
    + rewrite getrec_ignore_same. reflexivity.
    + unfold getrec. rewrite ignore_other by auto. reflexivity.
  - destruct H as [->|H]; [|contradiction].
    fold (ignore_list (ignore d x) l). rewrite ignore_list_out by auto. apply ignore_same.
Qed.

Lemma status_is_ignore_none d t : d t = None -> status_is_ignore d t = false.
Proof. intros H. unfold status_is_ignore, getrec. rewrite H. reflexivity. Qed.
