(* CommandsP.v -- proofs about Model/Commands.v: the task lists the three commands compute
   (check_tasks_exist, subtasks_iter, tasks_and_deps_iter: sound, complete, fuel adequate), the
   effect of forget / ignore / reset-dep on the DB (exact set + frame), and what the next status
   query / run answers on the DB they leave. *)
From Coq Require Import ZifyBool Relations.
From DoitV Require Import Base Status History StatusP HistoryP Commands.
From DoitV Require Dispatch Runner DispatchP.
From DoitV Require Parallel RunnerP ParallelP OutcomeSpec OutcomeParP.
Open Scope Z_scope.

(* ---------- the table ---------- *)
Lemma lookup_In tb n c : lookup tb n = Some c -> In (n, c) tb.
Proof.
  induction tb as [|[k c0] r IH]; simpl; [discriminate|].
  destruct (lookup r n) as [c'|] eqn:E.
  - intros H. inversion H; subst. right. apply IH. reflexivity.
  - destruct (N.eqb_spec k n) as [->|Hne]; [|discriminate]. intros H. inversion H; subst. left. reflexivity.
Qed.

Lemma lookup_none tb n : lookup tb n = None <-> ~ In n (names tb).
Proof.
  induction tb as [|[k c0] r IH]; simpl.
  - split; auto.
  - destruct (lookup r n) as [c'|] eqn:E.
    + split; [discriminate|]. intros H. exfalso. apply H. right.
      destruct (in_dec N.eq_dec n (names r)) as [Hi|Hi]; auto. apply IH in Hi. discriminate.
    + destruct (N.eqb_spec k n) as [->|Hne].
      * split; [discriminate|]. intros H. exfalso. apply H. auto.
      * split; auto. intros _ [H|H]; [contradiction|]. apply (proj1 IH); auto.
Qed.

Lemma lookup_some_name tb n c : lookup tb n = Some c -> In n (names tb).
Proof. intros H. apply lookup_In in H. apply (in_map fst) in H. exact H. Qed.

Definition known (tb : table) (n : name) : Prop := lookup tb n <> None.
(* every name a task mentions in task_dep / setup is a task (what TaskControl checks; the three
   commands do not) *)
Definition closed (tb : table) : Prop :=
  forall n c, lookup tb n = Some c -> forall m, In m (c_task_dep c ++ c_setup c) -> known tb m.

Lemma first_unknown_none tb l : first_unknown tb l = None <-> forall n, In n l -> known tb n.
Proof.
  unfold known. induction l as [|n r IH]; simpl.
  - split; [intros _ n [] | reflexivity].
  - destruct (lookup tb n) eqn:E.
    + rewrite IH. split.
      * intros H m [<-|Hm]; [congruence | auto].
      * intros H m Hm. apply H. auto.
    + split; [discriminate|]. intros H. exfalso. apply (H n); auto.
Qed.

(* the name reported is the first one, in command-line order, that is not a task *)
Lemma first_unknown_some tb l bad :
  first_unknown tb l = Some bad ->
  exists pre post, l = pre ++ bad :: post /\ lookup tb bad = None /\ forall n, In n pre -> known tb n.
Proof.
  unfold known. induction l as [|n r IH]; simpl; [discriminate|].
  destruct (lookup tb n) eqn:E.
  - intros H. destruct (IH H) as (pre & post & -> & Hb & Hp). exists (n :: pre), post.
    split; [reflexivity|]. split; auto. intros m [<-|Hm]; [congruence | auto].
  - intros H. inversion H; subst. exists [], r. split; [reflexivity|]. split; [auto | intros m []].
Qed.

(* ---------- subtasks_iter ---------- *)
Definition is_sub (tb : table) (me x : name) : Prop :=
  exists cx, lookup tb x = Some cx /\ c_subtask_of cx = Some me.

Lemma opt_name_eqb_true a b : opt_name_eqb a b = true <-> a = Some b.
Proof.
  destruct a as [x|]; simpl; [|split; discriminate].
  destruct (N.eqb_spec x b) as [->|H]; split; try congruence; auto.
Qed.

Lemma subtasks_of_spec tb me deps l :
  subtasks_of tb me deps = Some l -> forall x, In x l <-> In x deps /\ is_sub tb me x.
Proof.
  revert l. induction deps as [|d r IH]; simpl; intros l H.
  - inversion H; subst. intros x. split; [intros [] | intros [[] _]].
  - destruct (lookup tb d) as [cd|] eqn:Ed; [|discriminate].
    destruct (subtasks_of tb me r) as [l'|] eqn:Er; [|discriminate].
    specialize (IH l' eq_refl). inversion H; subst. intros x.
    destruct (opt_name_eqb (c_subtask_of cd) me) eqn:Eb.
    + apply opt_name_eqb_true in Eb. simpl. rewrite IH. split.
      * intros [<-|[H1 H2]]; [split; auto; exists cd; auto | split; auto].
      * intros [[<-|H1] H2]; auto.
    + rewrite IH. split.
      * intros [H1 H2]; auto.
      * intros [[<-|H1] H2]; auto. destruct H2 as (cx & H2 & H3). rewrite Ed in H2. inversion H2; subst.
        apply opt_name_eqb_true in H3. congruence.
Qed.

Lemma subtasks_of_total tb me deps :
  (forall x, In x deps -> known tb x) -> exists l, subtasks_of tb me deps = Some l.
Proof.
  unfold known. induction deps as [|d r IH]; simpl; intros H; [eauto|].
  destruct (lookup tb d) eqn:Ed; [|exfalso; apply (H d); auto].
  destruct IH as [l ->]; [intros; apply H; auto|]. eauto.
Qed.

(* x is n or one of n's sub-tasks *)
Definition self_or_sub (tb : table) (n x : name) : Prop :=
  x = n \/ exists c, lookup tb n = Some c /\ In x (c_task_dep c) /\ is_sub tb n x.

Lemma named_with_subs_spec tb l r :
  named_with_subs tb l = Some r ->
  (forall x, In x r <-> exists n, In n l /\ self_or_sub tb n x) /\ (forall n, In n l -> known tb n).
Proof.
  revert r. induction l as [|n l IH]; simpl; intros r H.
  - inversion H; subst. split; [|intros n []]. intros x. split; [intros [] | intros (n & [] & _)].
  - destruct (lookup tb n) as [c|] eqn:En; [|discriminate]. unfold subtasks_iter in H.
    destruct (subtasks_of tb n (c_task_dep c)) as [s|] eqn:Es; [|discriminate].
    destruct (named_with_subs tb l) as [l'|] eqn:El; [|discriminate].
    destruct (IH l' eq_refl) as [IH1 IH2]. inversion H; subst. split.
    + intros x. simpl. rewrite in_app_iff, IH1, (subtasks_of_spec _ _ _ _ Es). split.
      * intros [E|[[H1 H2]|(m & H1 & H2)]].
        -- exists n. split; auto. left. auto.
        -- exists n. split; auto. right. exists c. auto.
        -- exists m. auto.
      * intros (m & [<-|Hm] & [->|(c' & H1 & H2 & H3)]); auto.
        -- rewrite En in H1. inversion H1; subst. auto.
        -- right. right. exists m. split; auto. left. reflexivity.
        -- right. right. exists m. split; auto. right. exists c'. auto.
    + intros m [<-|Hm]; [unfold known; congruence | auto].
Qed.

Lemma named_with_subs_total tb l :
  closed tb -> (forall n, In n l -> known tb n) -> exists r, named_with_subs tb l = Some r.
Proof.
  intros Hc. induction l as [|n l IH]; simpl; intros H; [eauto|].
  destruct (lookup tb n) as [c|] eqn:En; [|exfalso; apply (H n); auto].
  unfold subtasks_iter.
  destruct (subtasks_of_total tb n (c_task_dep c)) as [s ->].
  { intros x Hx. apply (Hc n c En). apply in_or_app. auto. }
  destruct IH as [r ->]; [intros; apply H; auto|]. eauto.
Qed.

Lemma named_with_subs_none tb l :
  named_with_subs tb l = None -> (forall n, In n l -> known tb n) -> ~ closed tb.
Proof.
  intros H Hk Hc. destruct (named_with_subs_total tb l Hc Hk) as [r Hr]. congruence.
Qed.

(* ---------- remove_list / ignore_list ---------- *)
Lemma remove_list_in l : forall d x, In x l -> remove_list d l x = None.
Proof.
  unfold remove_list. induction l as [|y l IH]; intros d x H; [destruct H|]. simpl.
  destruct (in_dec N.eq_dec x l) as [Hi|Hi]; [apply IH; auto|].
  destruct H as [->|H]; [|contradiction].
  clear IH. revert d. induction l as [|z l IH]; intros d; simpl.
  - apply remove_same.
  - assert (Hz : z <> x) by (intros ->; apply Hi; left; reflexivity).
    assert (Hl : ~ In x l) by (intros H; apply Hi; right; exact H).
    specialize (IH Hl).
    assert (E : forall d1 d2, d1 x = d2 x -> fold_left remove l d1 x = fold_left remove l d2 x).
    { clear -Hl. induction l as [|w l IH]; intros d1 d2 H; simpl; auto. apply IH.
      - intros H'. apply Hl. right. exact H'.
      - unfold remove, upd. destruct (N.eqb x w); auto. }
    rewrite (E (remove (remove d x) z) (remove d x)); [apply IH|].
    apply remove_other. auto.
Qed.

Lemma remove_list_out l : forall d x, ~ In x l -> remove_list d l x = d x.
Proof.
  unfold remove_list. induction l as [|y l IH]; intros d x H; simpl; auto.
  rewrite IH by (intros H'; apply H; right; exact H'). apply remove_other. intros ->. apply H. left. reflexivity.
Qed.

Lemma ignore_same d t : ignore d t t = Some (set_ignore (getrec d t) true).
Proof. unfold ignore. apply upd_same. Qed.
Lemma ignore_other d t x : x <> t -> ignore d t x = d x.
Proof. unfold ignore. apply upd_other. Qed.

Lemma ignore_list_out l : forall d x, ~ In x l -> ignore_list d l x = d x.
Proof.
  unfold ignore_list. induction l as [|y l IH]; intros d x H; simpl; auto.
  rewrite IH by (intros H'; apply H; right; exact H'). apply ignore_other. intros ->. apply H. left. reflexivity.
Qed.

Lemma getrec_ignore_same d t : getrec (ignore d t) t = set_ignore (getrec d t) true.
Proof. unfold getrec at 1. rewrite ignore_same. reflexivity. Qed.

(* marking is idempotent and touches only the mark *)
Lemma ignore_list_in l : forall d x, In x l -> ignore_list d l x = Some (set_ignore (getrec d x) true).
Proof.
  unfold ignore_list. induction l as [|y l IH]; intros d x H; [destruct H|]. simpl.
  destruct (in_dec N.eq_dec x l) as [Hi|Hi].
  - rewrite IH by auto. destruct (N.eq_dec x y) as [->|Hne].
    + rewrite getrec_ignore_same. reflexivity.
    + unfold getrec. rewrite ignore_other by auto. reflexivity.
  - destruct H as [->|H]; [|contradiction].
    fold (ignore_list (ignore d x) l). rewrite ignore_list_out by auto. apply ignore_same.
Qed.

Lemma status_is_ignore_none d t : d t = None -> status_is_ignore d t = false.
Proof. intros H. unfold status_is_ignore, getrec. rewrite H. reflexivity. Qed.

(* ---------- tasks_and_deps_iter ---------- *)
(* m is named in task_dep or setup of the task n *)
Definition succ (tb : table) (n m : name) : Prop :=
  exists c, lookup tb n = Some c /\ In m (c_task_dep c ++ c_setup c).
(* x is one of sel or reachable from one through task_dep / setup edges *)
Definition reach_from (tb : table) (sel : list name) (x : name) : Prop :=
  exists s, In s sel /\ clos_refl_trans name (succ tb) s x.

Lemma deps_loop_spec tb dup deps : forall P tp out tp' out',
  deps_loop tb dup deps P tp out = Some (tp', out') ->
  incl tp tp' /\ incl out out' /\
  (forall y, In y tp' -> In y tp \/ In y deps) /\
  (forall y, In y out' -> In y out \/ In y deps) /\
  (forall y, In y deps -> In y P \/ In y tp').
Proof.
  induction deps as [|d r IH]; intros P tp out tp' out' H; simpl in H.
  - inversion H; subst. repeat split; auto using incl_refl. intros y [].
  - destruct (negb (mem d P) && negb (mem d tp)) eqn:Ec.
    + destruct (IH _ _ _ _ _ H) as (A & B & C & D & E).
      split; [intros y Hy; apply A, in_or_app; auto|]. split; [exact B|].
      split; [intros y Hy; destruct (C y Hy) as [Hy'|Hy']; [apply in_app_or in Hy'; destruct Hy' as [Hy'|[<-|[]]]; simpl; auto | simpl; auto]|].
      split; [intros y Hy; destruct (D y Hy); simpl; auto|].
      intros y [<-|Hy]; [right; apply A, in_or_app; simpl; auto | apply E; auto].
    + assert (Hd : In d P \/ In d tp).
      { apply andb_false_iff in Ec. destruct Ec as [Ec|Ec]; apply negb_false_iff, mem_In in Ec; auto. }
      destruct dup.
      * destruct (lookup tb d); [|discriminate].
        destruct (IH _ _ _ _ _ H) as (A & B & C & D & E).
        split; [exact A|]. split; [intros y Hy; apply B, in_or_app; auto|].
        split; [intros y Hy; destruct (C y Hy); simpl; auto|].
        split; [intros y Hy; destruct (D y Hy) as [Hy'|Hy']; [apply in_app_or in Hy'; destruct Hy' as [Hy'|[<-|[]]]; simpl; auto | simpl; auto]|].
        intros y [<-|Hy]; [destruct Hd; auto | apply E; auto].
      * destruct (IH _ _ _ _ _ H) as (A & B & C & D & E).
        split; [exact A|]. split; [exact B|].
        split; [intros y Hy; destruct (C y Hy); simpl; auto|].
        split; [intros y Hy; destruct (D y Hy); simpl; auto|].
        intros y [<-|Hy]; [destruct Hd; auto | apply E; auto].
Qed.

Lemma reach_step tb sel x m : reach_from tb sel x -> succ tb x m -> reach_from tb sel m.
Proof.
  intros (s & Hs & Hr) Hm. exists s. split; auto. eapply rt_trans; [exact Hr|]. apply rt_step. exact Hm.
Qed.

Lemma closed_reach tb (P : list name) :
  (forall x, In x P -> forall m, succ tb x m -> In m P) ->
  forall a b, clos_refl_trans name (succ tb) a b -> In a P -> In b P.
Proof. intros Hc a b H. induction H; eauto. Qed.

Lemma tdi_spec tb dup sel : forall fuel P tp out l,
  tdi fuel tb dup P tp out = IOk l ->
  (forall x, In x P \/ In x tp \/ In x out -> reach_from tb sel x) ->
  (forall x, In x P -> In x out) ->
  (forall x, In x P -> forall m, succ tb x m -> In m P \/ In m tp) ->
  (forall x, In x sel -> In x P \/ In x tp) ->
  forall x, In x l <-> reach_from tb sel x.
Proof.
  assert (FIN : forall P out, (forall x, In x P \/ In x [] \/ In x out -> reach_from tb sel x) ->
           (forall x, In x P -> In x out) -> (forall x, In x P -> forall m, succ tb x m -> In m P \/ In m []) ->
           (forall x, In x sel -> In x P \/ In x []) -> forall x, In x out <-> reach_from tb sel x).
  { intros P out I1 I2 I3 I4 x. split; [intros Hx; apply I1; auto|].
    intros (s & Hs & Hr). apply I2. apply (closed_reach tb P) with (a := s); auto.
    - intros y Hy m Hm. destruct (I3 y Hy m Hm) as [H|[]]; auto.
    - destruct (I4 s Hs) as [H|[]]; auto. }
  induction fuel as [|fuel IH]; intros P tp out l H I1 I2 I3 I4; destruct tp as [|x rest]; simpl in H;
    try (inversion H; subst; eapply FIN; eauto; fail); try discriminate.
  destruct (lookup tb x) as [c|] eqn:Ex; [|discriminate].
  destruct (deps_loop tb dup (c_task_dep c ++ c_setup c) (x :: P) rest (out ++ [x])) as [[tp' out']|] eqn:Ed; [|discriminate].
  destruct (deps_loop_spec _ _ _ _ _ _ _ _ Ed) as (A & B & C & D & E).
  assert (Rx : reach_from tb sel x) by (apply I1; right; left; left; reflexivity).
  assert (Rd : forall y, In y (c_task_dep c ++ c_setup c) -> reach_from tb sel y).
  { intros y Hy. apply (reach_step tb sel x); auto. exists c. auto. }
  apply (IH _ _ _ _ H).
  - intros y [[<-|Hy]|[Hy|Hy]]; auto.
    + destruct (C y Hy) as [Hy'|Hy']; auto. apply I1. right. left. right. exact Hy'.
    + destruct (D y Hy) as [Hy'|Hy']; auto. apply in_app_or in Hy'. destruct Hy' as [Hy'|[<-|[]]]; auto.
  - intros y [<-|Hy]; apply B, in_or_app; simpl; auto.
  - intros y [<-|Hy] m Hm.
    + destruct Hm as (c' & Hc' & Hm). rewrite Ex in Hc'. inversion Hc'; subst c'. apply E. exact Hm.
    + destruct (I3 y Hy m Hm) as [H1|[<-|H1]]; simpl; auto.
  - intros s Hs. destruct (I4 s Hs) as [H1|[<-|H1]]; simpl; auto.
Qed.

(* what `tasks_and_deps_iter(tasks, sel, yield_duplicates)` yields: exactly the tasks reachable from sel *)
Lemma tasks_and_deps_iter_spec tb sel dup l :
  tasks_and_deps_iter tb sel dup = IOk l -> forall x, In x l <-> reach_from tb sel x.
Proof.
  intros H. apply (tdi_spec tb dup sel _ _ _ _ _ H).
  - intros x [[]|[Hx|[]]]. exists x. split; auto. apply rt_refl.
  - intros x [].
  - intros x [].
  - auto.
Qed.

(* ---- the fuel is enough ---- *)
Definition universe (tb : table) : list name := nodup N.eq_dec (names tb).
Definition unseen (tb : table) (P tp : list name) : list name :=
  filter (fun n => negb (mem n P) && negb (mem n tp)) (universe tb).

Lemma nodup_length (l : list name) : (length (nodup N.eq_dec l) <= length l)%nat.
Proof. induction l as [|x l IH]; simpl; auto. destruct (in_dec N.eq_dec x l); simpl; lia. Qed.

Lemma filter_length_le {A} (p : A -> bool) l : (length (filter p l) <= length l)%nat.
Proof. induction l as [|x l IH]; simpl; auto. destruct (p x); simpl; lia. Qed.

Lemma filter_drop_one (p : name -> bool) d L :
  NoDup L -> In d L -> p d = true ->
  S (length (filter (fun n => p n && negb (N.eqb n d)) L)) = length (filter p L).
Proof.
  induction L as [|y L IH]; intros Hn Hi Hp; [destruct Hi|].
  inversion Hn as [|? ? Hy Hn']; subst. simpl. destruct Hi as [->|Hi].
  - rewrite Hp, N.eqb_refl. simpl. f_equal.
    assert (E : forall M, ~ In d M -> filter (fun n => p n && negb (N.eqb n d)) M = filter p M).
    { clear. induction M as [|z M IH]; intros H; simpl; auto.
      assert (z <> d) by (intros ->; apply H; left; reflexivity).
      apply N.eqb_neq in H0. rewrite H0, andb_true_r. rewrite IH; auto. intros H'. apply H. right. exact H'. }
    rewrite E; auto.
  - assert (Hyd : y <> d) by (intros ->; contradiction).
    apply N.eqb_neq in Hyd. rewrite Hyd, andb_true_r. destruct (p y); simpl; rewrite <- (IH Hn' Hi Hp); reflexivity.
Qed.

Lemma mem_app x a b : mem x (a ++ b) = mem x a || mem x b.
Proof. unfold mem. apply existsb_app. Qed.

Lemma known_universe tb d : known tb d -> In d (universe tb).
Proof.
  unfold known, universe. intros H. apply nodup_In.
  destruct (in_dec N.eq_dec d (names tb)) as [Hi|Hi]; auto. apply lookup_none in Hi. contradiction.
Qed.

Lemma deps_loop_total tb dup deps : forall P tp out,
  (forall d, In d deps -> known tb d) ->
  exists tp' out', deps_loop tb dup deps P tp out = Some (tp', out') /\
    (length tp' + length (unseen tb P tp') <= length tp + length (unseen tb P tp))%nat.
Proof.
  induction deps as [|d r IH]; intros P tp out Hk; simpl.
  - eauto.
  - assert (Hkr : forall d', In d' r -> known tb d') by (intros; apply Hk; simpl; auto).
    destruct (negb (mem d P) && negb (mem d tp)) eqn:Ec.
    + destruct (IH P (tp ++ [d]) out Hkr) as (tp' & out' & E & M). exists tp', out'. split; auto.
      assert (U : S (length (unseen tb P (tp ++ [d]))) = length (unseen tb P tp)).
      { unfold unseen.
        rewrite (filter_ext _ (fun n => (negb (mem n P) && negb (mem n tp)) && negb (N.eqb n d))).
        - apply filter_drop_one; auto.
          + apply NoDup_nodup.
          + apply known_universe. apply Hk. simpl. auto.
        - intros n. rewrite mem_app. simpl. rewrite orb_false_r, negb_orb, andb_assoc. reflexivity. }
      rewrite app_length in M. simpl in M. lia.
    + destruct dup.
      * assert (Hd : known tb d) by (apply Hk; simpl; auto). unfold known in Hd.
        destruct (lookup tb d); [|contradiction]. apply IH; auto.
      * apply IH; auto.
Qed.

Lemma tdi_total tb dup : closed tb -> forall fuel P tp out,
  (forall x, In x tp -> known tb x) ->
  (length tp + length (unseen tb P tp) < fuel)%nat ->
  exists l, tdi fuel tb dup P tp out = IOk l.
Proof.
  intros Hc. induction fuel as [|fuel IH]; intros P tp out Hk Hm; [lia|].
  destruct tp as [|x rest]; simpl; [eauto|].
  assert (Hx : known tb x) by (apply Hk; simpl; auto). unfold known in Hx.
  destruct (lookup tb x) as [c|] eqn:Ex; [|contradiction].
  destruct (deps_loop_total tb dup (c_task_dep c ++ c_setup c) (x :: P) rest (out ++ [x])) as (tp' & out' & Ed & M).
  { intros d Hd. apply (Hc x c Ex d Hd). }
  rewrite Ed. apply IH.
  - intros y Hy. destruct (deps_loop_spec _ _ _ _ _ _ _ _ Ed) as (_ & _ & C & _).
    destruct (C y Hy) as [H|H]; [apply Hk; simpl; auto | apply (Hc x c Ex y H)].
  - assert (E : unseen tb (x :: P) rest = unseen tb P (x :: rest)).
    { unfold unseen. apply filter_ext. intros n. simpl. destruct (N.eqb n x), (mem n P), (mem n rest); reflexivity. }
    rewrite E in M. simpl in Hm. lia.
Qed.

Lemma tasks_and_deps_iter_total tb sel dup :
  closed tb -> (forall x, In x sel -> known tb x) -> exists l, tasks_and_deps_iter tb sel dup = IOk l.
Proof.
  intros Hc Hk. unfold tasks_and_deps_iter, tdi_fuel. apply tdi_total; auto.
  assert (length (unseen tb [] sel) <= length tb)%nat.
  { unfold unseen, universe. eapply Nat.le_trans; [apply filter_length_le|].
    eapply Nat.le_trans; [apply nodup_length|]. unfold names. rewrite map_length. lia. }
  lia.
Qed.

(* ---------- forget ---------- *)
Lemma log_names (l : list name) : map fst (map (fun n => (n, 0)) l) = l.
Proof. rewrite map_map. simpl. apply map_id. Qed.

Lemma top_level_spec tb x :
  In x (top_level tb) <-> exists c, In (x, c) tb /\ c_subtask_of c = None.
Proof.
  unfold top_level. rewrite in_map_iff. split.
  - intros ([k c] & <- & H). apply filter_In in H. destruct H as [H1 H2]. simpl in *.
    exists c. split; auto. destruct (c_subtask_of c); [discriminate | reflexivity].
  - intros (c & H1 & H2). exists (x, c). split; auto. apply filter_In. split; auto. simpl. rewrite H2. reflexivity.
Qed.

Lemma top_level_known tb x : In x (top_level tb) -> known tb x.
Proof.
  intros H. apply top_level_spec in H. destruct H as (c & H & _). unfold known. intros E.
  apply lookup_none in E. apply E. apply (in_map fst) in H. exact H.
Qed.

(* the tasks `forget` is documented to act on (not --all, not the refusal of --disable-default):
   each task of the list (named on the command line; else default_tasks; else every task that is
   not a sub-task) with its sub-tasks; under --follow-sub everything reachable through task_dep /
   setup (sub-tasks are task_dep of their group) *)
Definition forget_set (tb : table) (args : list name) (dflt : option (list name)) (sub : bool) (x : name) : Prop :=
  if sub then reach_from tb (forget_list tb args dflt) x
  else exists n, In n (forget_list tb args dflt) /\ self_or_sub tb n x.

Lemma to_forget_spec tb sub fl l :
  to_forget tb sub fl = IOk l ->
  forall x, In x l <-> (if sub then reach_from tb fl x else exists n, In n fl /\ self_or_sub tb n x).
Proof.
  unfold to_forget. destruct sub.
  - apply tasks_and_deps_iter_spec.
  - destruct (named_with_subs tb fl) as [r|] eqn:E; [|discriminate]. intros H. inversion H; subst.
    apply (named_with_subs_spec _ _ _ E).
Qed.

Lemma to_forget_total tb sub fl :
  closed tb -> (forall n, In n fl -> known tb n) -> exists l, to_forget tb sub fl = IOk l.
Proof.
  intros Hc Hk. unfold to_forget. destruct sub.
  - apply tasks_and_deps_iter_total; auto.
  - destruct (named_with_subs_total tb fl Hc Hk) as [r ->]. eauto.
Qed.

Lemma forget_exact fixF tb args dflt o d :
  let out := forget_v fixF tb args dflt o d in
  match co_res out with
  | COk => if fo_all o then forall x, co_db out x = None
           else (forall x, In x (map fst (co_log out)) <-> forget_set tb args dflt (fo_sub o) x) /\
                (forall x, In x (map fst (co_log out)) -> co_db out x = None) /\
                (forall x, ~ In x (map fst (co_log out)) -> co_db out x = d x)
  | _ => co_db out = d
  end.
Proof.
  unfold forget_v. destruct (fo_all o) eqn:Ea; simpl; [reflexivity|].
  destruct (sel_default_tasks args && fo_disable_default o); simpl; [reflexivity|].
  destruct (check_tasks_exist tb (sel_tasks args dflt)); simpl; [reflexivity|].
  destruct (negb fixF && match sel_tasks args dflt with None => true | Some _ => false end); simpl; [reflexivity|].
  destruct (to_forget tb (fo_sub o) (forget_list tb args dflt)) as [l| |] eqn:E; simpl; try reflexivity.
  rewrite log_names. split; [|split].
  - apply (to_forget_spec _ _ _ _ E).
  - intros x Hx. apply remove_list_in. exact Hx.
  - intros x Hx. apply remove_list_out. exact Hx.
Qed.

(* which outcome, exactly *)
Lemma forget_outcome tb args dflt o d :
  let out := forget tb args dflt o d in
  if fo_all o then co_res out = COk
  else if is_nil args && fo_disable_default o then co_res out = CNoTask
  else match check_tasks_exist tb (sel_tasks args dflt) with
       | Some bad => co_res out = CInvalid bad
       | None => closed tb -> co_res out = COk
       end.
Proof.
  unfold forget, forget_v, sel_default_tasks. destruct (fo_all o); simpl; [reflexivity|].
  destruct (is_nil args && fo_disable_default o); simpl; [reflexivity|].
  destruct (check_tasks_exist tb (sel_tasks args dflt)) eqn:Ec; simpl; [reflexivity|].
  intros Hc.
  destruct (to_forget_total tb (fo_sub o) (forget_list tb args dflt) Hc) as [l ->]; [|reflexivity].
  unfold forget_list. unfold check_tasks_exist in Ec.
  destruct (sel_tasks args dflt) as [sel|].
  - apply first_unknown_none. exact Ec.
  - intros n. apply top_level_known.
Qed.

(* after forget: a task without record.  get_status answers up-to-date for it exactly in the
   documented corner: nothing to compare (no file_dep) and items that hold without saved values *)
Section AfterForget.
Variable md5 : N -> N.

Lemma getrec_none_empty d t : d t = None -> getrec d t = empty_rec.
Proof. apply getrec_none. Qed.

Lemma forgotten_uptodate_iff v c fs d t df :
  d t = None ->
  (g_status (get_status md5 v c fs d t df false) = UpToDate <->
   file_dep df = [] /\ items_ok d t df /\ some_dep d t df /\ targets_ok fs df).
Proof.
  intros Hn. rewrite get_status_uptodate_iff, (getrec_none _ _ Hn).
  assert (F : Forall (fun f => file_verdict md5 c fs empty_rec f = FSame) (file_dep df) <-> file_dep df = []).
  { split.
    - destruct (file_dep df) as [|f r]; auto. intros H. inversion H as [|? ? H1 _]; subst.
      unfold file_verdict in H1. simpl in H1. destruct (fs f); discriminate.
    - intros ->. constructor. }
  rewrite F. unfold ck_changed, deps_changed. simpl. tauto.
Qed.

Lemma forgotten_runs v c fs d t df :
  d t = None -> file_dep df <> [] -> (forall f, In f (file_dep df) -> exists_ fs f = true) ->
  g_status (get_status md5 v c fs d t df false) = Run.
Proof.
  intros Hn Hf He.
  destruct (g_status (get_status md5 v c fs d t df false)) eqn:E; auto.
  - apply forgotten_uptodate_iff in E; auto. destruct E as [E _]. contradiction.
  - apply get_status_error in E. destruct E as (f & Hi & Hm). specialize (He f Hi). unfold exists_ in He. rewrite Hm in He. discriminate.
  - exfalso. revert E. apply get_status_no_crash. rewrite (getrec_none _ _ Hn). unfold rec_typed. simpl. auto.
Qed.

End AfterForget.

(* ---------- ignore ---------- *)
Lemma ignore_exact tb args d :
  let out := ignore_cmd tb args d in
  match co_res out with
  | COk => (forall x, In x (map fst (co_log out)) <-> exists n, In n args /\ self_or_sub tb n x) /\
           (forall x, In x (map fst (co_log out)) -> co_db out x = Some (set_ignore (getrec d x) true)) /\
           (forall x, ~ In x (map fst (co_log out)) -> co_db out x = d x)
  | _ => co_db out = d
  end.
Proof.
  cbv zeta. unfold ignore_cmd. destruct args as [|a args]; [reflexivity|].
  set (l0 := a :: args).
  destruct (first_unknown tb l0); [reflexivity|].
  unfold to_ignore. destruct (named_with_subs tb l0) as [l|] eqn:E; [|reflexivity].
  cbn [co_res co_log co_db].
  rewrite log_names. split; [|split].
  - apply (named_with_subs_spec _ _ _ E).
  - intros x Hx. apply ignore_list_in. exact Hx.
  - intros x Hx. apply ignore_list_out. exact Hx.
Qed.

Lemma ignore_outcome tb args d :
  let out := ignore_cmd tb args d in
  match args with
  | [] => co_res out = CNoTask
  | _ => match first_unknown tb args with
         | Some bad => co_res out = CInvalid bad
         | None => closed tb -> co_res out = COk
         end
  end.
Proof.
  unfold ignore_cmd. destruct args as [|a args]; [reflexivity|].
  destruct (first_unknown tb (a :: args)) eqn:Ec; [reflexivity|].
  intros Hc. unfold to_ignore.
  destruct (named_with_subs_total tb (a :: args) Hc) as [r ->]; [|reflexivity].
  apply first_unknown_none. exact Ec.
Qed.

(* what the mark means for the record *)
Lemma set_ignore_fields r :
  r_ignore (set_ignore r true) = true /\ r_deps (set_ignore r true) = r_deps r /\
  r_checker (set_ignore r true) = r_checker r /\ r_saved (set_ignore r true) = r_saved r /\
  r_values (set_ignore r true) = r_values r /\ r_result (set_ignore r true) = r_result r.
Proof. repeat split. Qed.

(* ---- "until forgotten", on the histories of History.v: whatever runs follow (any tasks, with or
   without --always, actions failing or not), the mark stays and the task is never executed ---- *)
Section IgnorePersists.
Variable md5 : N -> N.
Variable size_of : N -> Z.
Variable v : ver.

Lemma run_task_ops_on_any s t a f : Forall (op_on t) (run_task_ops md5 v s t a f).
Proof.
  unfold run_task_ops. destruct (status_is_ignore (s_db s) t); [constructor|].
  constructor; [left; reflexivity|].
  destruct (g_status (History.check md5 v s t)); destruct a; destruct f;
    repeat (constructor; [unfold op_on; auto|]); constructor.
Qed.

Definition runs (s : state) (l : list (name * bool * bool)) : state :=
  fold_left (fun s x => run_task md5 size_of v s (fst (fst x)) (snd (fst x)) (snd x)) l s.

Lemma run_task_keeps_ignored s T t a f :
  status_is_ignore (s_db s) T = true -> s_db (run_task md5 size_of v s t a f) T = s_db s T.
Proof.
  intros Hi. unfold run_task. destruct (N.eq_dec t T) as [->|Hne].
  - unfold run_task_ops. rewrite Hi. reflexivity.
  - destruct (run_from_on md5 size_of v t _ s (run_task_ops_on_any s t a f)) as [_ Hfr].
    apply Hfr. auto.
Qed.

Lemma runs_keep_ignored l : forall s T,
  status_is_ignore (s_db s) T = true -> s_db (runs s l) T = s_db s T.
Proof.
  unfold runs. induction l as [|x l IH]; intros s T Hi; simpl; auto.
  pose proof (run_task_keeps_ignored s T (fst (fst x)) (snd (fst x)) (snd x) Hi) as E.
  rewrite IH.
  - exact E.
  - unfold status_is_ignore, getrec in *. rewrite E. exact Hi.
Qed.

Lemma ignored_not_executed s T a : status_is_ignore (s_db s) T = true -> executes md5 v s T a = false.
Proof. intros H. unfold executes. rewrite H. reflexivity. Qed.

End IgnorePersists.

(* ---------- reset-dep ---------- *)
Lemma save_files_fields md5 c fs deps : forall r r' o,
  save_files md5 c fs r deps = (r', o) ->
  r_result r' = r_result r /\ r_ignore r' = r_ignore r /\ r_values r' = r_values r.
Proof.
  induction deps as [|f deps IH]; intros r r' o H; simpl in H.
  - inversion H; subst. auto.
  - destruct (fs f) as [st|]; [|inversion H; subst; auto].
    destruct (get_state md5 c st (r_saved r f)).
    + apply IH in H. exact H.
    + apply IH in H. simpl in H. exact H.
    + inversion H; subst. auto.
Qed.

Lemma save_success_rec_fields md5 v c fs r0 deps vals res r' o :
  save_success_rec md5 v c fs r0 deps vals res = (r', o) ->
  r_result r' = match res with Some h => Some h | None => r_result (wipe_if_other_checker v c r0) end /\
  r_ignore r' = r_ignore (wipe_if_other_checker v c r0).
Proof.
  unfold save_success_rec. intros H.
  match type of H with context [save_files md5 c fs ?r deps] => destruct (save_files md5 c fs r deps) as [r4 o4] eqn:E4 end.
  apply save_files_fields in E4. destruct E4 as (E1 & E2 & _).
  destruct o4; inversion H; subst; simpl; rewrite ?E1, ?E2; destruct res; simpl; auto.
Qed.

Section ResetDep.
Variable md5 : N -> N.
Variable v : ver.
Hypothesis HB : fixB v = true.

(* what C03 proves of every DB an FS-fresh history reaches (HistoryP.run_inv) *)
Definition db_ok (fs : fsys) (sn : seen_t) (d : db) : Prop :=
  fs_seen fs sn /\ forall t, rec_truthful md5 sn (getrec d t) /\ rec_typed (getrec d t).

Lemma db_ok_of_state (size_of : N -> Z) s : db_reflects_ghost md5 s -> db_ok (s_fs s) (s_seen s) (s_db s).
Proof.
  intros (Hb & Ht & _). split; auto. intros t. apply (task_inv_getrec md5 size_of). apply Ht.
Qed.

Lemma empty_rec_ok (sn : seen_t) : rec_truthful md5 sn empty_rec /\ rec_typed empty_rec.
Proof. split; [intros f m sz dg H; discriminate | unfold rec_typed; simpl; auto]. Qed.

Lemma getrec_upd_same d t r : getrec (upd d t (Some r)) t = r.
Proof. unfold getrec. rewrite upd_same. reflexivity. Qed.
Lemma getrec_upd_other (d : db) t r x : x <> t -> getrec (upd d t r) x = getrec d x.
Proof. intros H. unfold getrec. rewrite upd_other by auto. reflexivity. Qed.

Lemma good_verdict c fs r f : good md5 c fs r f -> file_verdict md5 c fs r f = FSame.
Proof.
  intros (st & H1 & H2). unfold file_verdict. rewrite H1, H2.
  assert (E : check_modified md5 c st (state_of md5 c st) = Some false)
    by (apply check_modified_state_of, unmodified_refl).
  rewrite E. reflexivity.
Qed.

Lemma reset_dep_spec c fs sn d n df d' code :
  db_ok fs sn d -> reset_dep md5 v c fs d n df = (d', code) ->
  db_ok fs sn d' /\
  (forall x, x <> n -> d' x = d x) /\
  (forall x, get_values d' x = get_values d x /\ get_result d' x = get_result d x) /\
  if forallb (exists_ fs) (file_dep df)
  then (code = 1 \/ code = 2) /\
       (code = 1 -> d' = d) /\
       (code = 2 -> exists r', d' n = Some r' /\ r_deps r' = Some (file_dep df) /\ r_checker r' = Some c /\
                    (forall f, In f (file_dep df) -> good md5 c fs r' f) /\
                    r_ignore r' = (if ck_changed c (getrec d n) then false else r_ignore (getrec d n))) /\
       (g_status (get_status md5 v c fs d' n df false) = UpToDate <->
          items_ok d' n df /\ some_dep d' n df /\ targets_ok fs df)
  else code = 0 /\ d' = d.
Proof.
  intros Hok H. unfold reset_dep in H.
  destruct (forallb (exists_ fs) (file_dep df)) eqn:Eall; simpl in H.
  2: { inversion H; subst. split; [exact Hok|]. split; [auto|]. split; [auto|]. auto. }
  set (g := get_status md5 v c fs d n df false) in *.
  assert (Hnc : g_status g <> Crash) by (apply get_status_no_crash; apply Hok).
  destruct (g_status g) eqn:Est; try contradiction.
  - (* skip *)
    inversion H; subst. pose proof (get_status_uptodate_db md5 v c fs d n df Est) as Ed. fold g in Ed. rewrite Ed.
    split; [exact Hok|]. split; [auto|]. split; [auto|]. split; [auto|]. split; [auto|].
    split; [intros X; discriminate|].
    pose proof (proj1 (get_status_uptodate_iff md5 v c fs d n df) Est) as U. fold g. rewrite Est. tauto.
  - (* processed *)
    destruct (save_success md5 v c fs (g_db g) n (file_dep df) (get_values d n) (get_result d n)) as [d1 o] eqn:Es.
    destruct (save_success_db _ _ _ _ _ _ _ _ _ _ _ Es) as (Hfr & r' & Hr' & Hrec).
    assert (Hg : g_db g = d \/ (ck_changed c (getrec d n) = true /\ g_db g = remove d n)) by apply get_status_db.
    assert (Hgo : forall x, x <> n -> g_db g x = d x).
    { intros x Hx. destruct Hg as [->|[_ ->]]; auto. apply remove_other; auto. }
    assert (Hr0 : rec_truthful md5 sn (getrec (g_db g) n) /\ rec_typed (getrec (g_db g) n)).
    { destruct Hg as [->|[_ ->]]; [apply Hok|]. rewrite getrec_remove. apply empty_rec_ok. }
    destruct (save_success_rec_spec md5 v c fs sn _ _ _ _ _ _ HB (proj1 Hok) (proj1 Hr0) (proj2 Hr0) Hrec) as (T1 & T2 & T3 & T4).
    destruct (save_success_rec_fields _ _ _ _ _ _ _ _ _ _ Hrec) as [F1 F2].
    destruct o.
    + inversion H; subst d1 code. destruct T4 as (T4 & T5 & T6).
      assert (Hd'n : getrec d' n = r') by (unfold getrec; rewrite Hr'; reflexivity).
      (* result / ignore through the wipe *)
      assert (Hw : r_result r' = get_result d n /\
                   r_ignore r' = (if ck_changed c (getrec d n) then false else r_ignore (getrec d n))).
      { unfold wipe_if_other_checker in F1, F2. rewrite HB in F1, F2. unfold ck_changed. unfold get_result in *.
        destruct Hg as [Eg|[Eck Eg]]; rewrite Eg in F1, F2.
        - destruct (r_checker (getrec d n)) as [p|]; simpl in *.
          + destruct (ck_eqb p c); simpl in *; split; auto; destruct (r_result (getrec d n)); auto.
          + split; auto. destruct (r_result (getrec d n)); auto.
        - rewrite getrec_remove in F1, F2. simpl in F1, F2. unfold ck_changed in Eck.
          destruct (r_checker (getrec d n)) as [p|]; [|discriminate]. rewrite Eck.
          split; auto. destruct (r_result (getrec d n)); auto. }
      split.
      { split; [apply Hok|]. intros t. destruct (N.eq_dec t n) as [->|Hne].
        - rewrite Hd'n. split; auto. unfold rec_typed. rewrite T2. exact T3.
        - unfold getrec. rewrite Hfr, Hgo by auto. apply Hok. }
      split; [intros x Hx; rewrite Hfr, Hgo; auto|].
      split.
      { intros x. unfold get_values, get_result. destruct (N.eq_dec x n) as [->|Hne].
        - rewrite Hd'n. split; [exact T5 | apply Hw].
        - unfold getrec. rewrite Hfr, Hgo by auto. auto. }
      split; [auto|]. split; [intros X; discriminate|].
      split.
      { intros _. exists r'. split; auto. split; auto. split; auto. split; auto. apply Hw. }
      rewrite get_status_uptodate_iff, Hd'n.
      assert (C1 : ck_changed c r' = false) by (unfold ck_changed; rewrite T2, ck_eqb_refl; reflexivity).
      assert (C2 : deps_changed v r' df = false).
      { apply (deps_changed_same v). intros p Hp. rewrite T4 in Hp. inversion Hp; subst. apply same_set_refl. }
      assert (C3 : Forall (fun f => dep_verdict md5 v c fs r' f = FSame) (file_dep df)).
      { apply (Forall_verdicts_inside md5 v c fs r' (file_dep df) (saved_deps_inside r' df T4)).
        apply Forall_forall. intros f Hf. apply good_verdict. auto. }
      tauto.
    + exfalso. destruct T4 as [T4 T5]. rewrite forallb_forall in Eall. specialize (Eall f T4).
      unfold exists_ in Eall. rewrite T5 in Eall. discriminate.
    + destruct T4.
  - (* error: impossible, every file dependency exists *)
    exfalso. apply get_status_error in Est. destruct Est as (f & Hf & Hm).
    rewrite forallb_forall in Eall. specialize (Eall f Hf). unfold exists_ in Eall. rewrite Hm in Eall. discriminate.
Qed.

(* the verdict and the items of task n see the DB through n's record and the values / results only *)
Lemma eval_utd_ext d d' n u :
  (forall x, get_values d' x = get_values d x /\ get_result d' x = get_result d x) ->
  eval_utd d' n u = eval_utd d n u.
Proof.
  intros H. destruct u; simpl; auto.
  - rewrite (proj1 (H n)). reflexivity.
  - rewrite (proj1 (H n)). reflexivity.
  - rewrite (proj1 (H n)), (proj2 (H src)). reflexivity.
Qed.

Lemma uptodate_transfer c fs d d' n df :
  d' n = d n -> (forall x, get_values d' x = get_values d x /\ get_result d' x = get_result d x) ->
  (g_status (get_status md5 v c fs d' n df false) = UpToDate <-> g_status (get_status md5 v c fs d n df false) = UpToDate) /\
  (items_ok d' n df <-> items_ok d n df) /\ (some_dep d' n df <-> some_dep d n df).
Proof.
  intros Hn Hv.
  assert (E : forall u, eval_utd d' n u = eval_utd d n u) by (intros u; apply eval_utd_ext; auto).
  split; [|split].
  - apply get_status_uptodate_frame; [unfold getrec; rewrite Hn; reflexivity | auto].
  - unfold items_ok. split; intros H u Hu; [rewrite <- E | rewrite E]; auto.
  - unfold some_dep. split; (intros [H|(u & b & Hu & Hb)]; [auto | right; exists u, b; split; auto]); [rewrite <- E | rewrite E]; auto.
Qed.

(* the state a reset task is left in: up-to-date unless a target is missing or an item says no
   (or there is nothing at all to depend on) *)
Definition settled_after (c : ck) (fs : fsys) (d : db) (n : name) (df : tdef) : Prop :=
  g_status (get_status md5 v c fs d n df false) = UpToDate <-> items_ok d n df /\ some_dep d n df /\ targets_ok fs df.

Lemma resetdep_loop_spec c fs sn : forall l d log,
  db_ok fs sn d ->
  let out := resetdep_loop md5 v c fs l d log in
  co_res out = COk /\ db_ok fs sn (co_db out) /\
  (forall x, ~ In x (map fst l) -> co_db out x = d x) /\
  (forall x, get_values (co_db out) x = get_values d x /\ get_result (co_db out) x = get_result d x) /\
  (forall n df, In (n, df) l -> (forall df', In (n, df') l -> df' = df) ->
     if forallb (exists_ fs) (file_dep df) then settled_after c fs (co_db out) n df else co_db out n = d n).
Proof.
  induction l as [|[m dfm] l IH]; intros d log Hok; cbv zeta; simpl.
  - split; [reflexivity|]. split; [exact Hok|]. split; [auto|]. split; [auto|]. intros n df [].
  - destruct (reset_dep md5 v c fs d m dfm) as [d1 code] eqn:Er.
    destruct (reset_dep_spec c fs sn d m dfm d1 code Hok Er) as (Hok1 & Hfr1 & Hv1 & Hcase).
    assert (Hcode : (code =? 98) = false).
    { destruct (forallb (exists_ fs) (file_dep dfm)).
      - destruct Hcase as ([->| ->] & _); reflexivity.
      - destruct Hcase as [-> _]. reflexivity. }
    rewrite Hcode.
    destruct (IH d1 (log ++ [(m, code)]) Hok1) as (R1 & R2 & R3 & R4 & R5). cbv zeta in *.
    set (out := resetdep_loop md5 v c fs l d1 (log ++ [(m, code)])) in *.
    split; [exact R1|]. split; [exact R2|].
    split.
    { intros x Hx. rewrite R3 by (intros H; apply Hx; right; exact H). apply Hfr1. intros ->. apply Hx. left. reflexivity. }
    split.
    { intros x. destruct (R4 x) as [A B]. destruct (Hv1 x) as [C D]. split; congruence. }
    intros n df Hin Hcons.
    assert (Htail : forall df', In (n, df') l -> df' = df) by (intros df' H'; apply Hcons; right; exact H').
    destruct (in_dec N.eq_dec n (map fst l)) as [Hnl|Hnl].
    + (* n is handled again later: the later application decides *)
      apply in_map_iff in Hnl. destruct Hnl as ([n' df''] & E & Hin'). simpl in E. subst n'.
      assert (df'' = df) by (apply Htail; exact Hin'). subst df''.
      specialize (R5 n df Hin' Htail).
      destruct (forallb (exists_ fs) (file_dep df)) eqn:Eall; [exact R5|].
      rewrite R5. destruct (N.eq_dec n m) as [->|Hne]; [|apply Hfr1; auto].
      assert (dfm = df) by (apply Hcons; left; reflexivity). subst dfm.
      rewrite Eall in Hcase. destruct Hcase as [_ ->]. reflexivity.
    + destruct Hin as [Heq|Hin]; [|exfalso; apply Hnl; apply (in_map fst) in Hin; exact Hin].
      inversion Heq; subst m dfm.
      assert (Hn : co_db out n = d1 n) by (apply R3; exact Hnl).
      destruct (forallb (exists_ fs) (file_dep df)).
      * destruct Hcase as (_ & _ & _ & Hs). unfold settled_after.
        destruct (uptodate_transfer c fs d1 (co_db out) n df Hn R4) as (U1 & U2 & U3).
        rewrite U1, U2, U3. exact Hs.
      * destruct Hcase as [_ ->]. exact Hn.
Qed.

(* ---- the selection of reset-dep ---- *)
Lemma lookup_nodup tb n c : NoDup (names tb) -> In (n, c) tb -> lookup tb n = Some c.
Proof.
  induction tb as [|[k c0] r IH]; intros Hn Hi; [destruct Hi|].
  simpl in Hn. inversion Hn as [|? ? Hk Hr]; subst. simpl. destruct Hi as [E|Hi].
  - inversion E; subst.
    assert (lookup r n = None) by (apply lookup_none; exact Hk). rewrite H, N.eqb_refl. reflexivity.
  - rewrite (IH Hr Hi). reflexivity.
Qed.

Lemma with_defs_spec tb l : forall r,
  with_defs tb l = Some r ->
  map fst r = l /\ forall n df, In (n, df) r -> exists ct, lookup tb n = Some ct /\ df = c_def ct.
Proof.
  induction l as [|n l IH]; simpl; intros r H.
  - inversion H; subst. split; auto. intros n df [].
  - destruct (lookup tb n) as [c0|] eqn:En; [|discriminate].
    destruct (with_defs tb l) as [l'|]; [|discriminate]. inversion H; subst.
    destruct (IH l' eq_refl) as [A B]. split; [simpl; rewrite A; reflexivity|].
    intros m df [E|Hi]; [inversion E; subst; eauto | apply B; exact Hi].
Qed.

Lemma with_defs_total tb l : (forall n, In n l -> known tb n) -> exists r, with_defs tb l = Some r.
Proof.
  induction l as [|n l IH]; simpl; intros H; [eauto|].
  assert (Hn : known tb n) by (apply H; auto). unfold known in Hn.
  destruct (lookup tb n); [|contradiction]. destruct IH as [r ->]; [intros; apply H; auto|]. eauto.
Qed.

Lemma self_or_sub_known tb n x : known tb n -> self_or_sub tb n x -> known tb x.
Proof.
  intros Hn [->|(c0 & _ & _ & (cx & Hx & _))]; auto. unfold known. congruence.
Qed.

(* the tasks reset-dep works on: every task, or the named ones with their sub-tasks *)
Definition resetdep_selected (tb : table) (args : list name) (x : name) : Prop :=
  match args with [] => In x (names tb) | _ => exists n, In n args /\ self_or_sub tb n x end.

Lemma resetdep_tasks_spec tb args l :
  NoDup (names tb) -> resetdep_tasks tb args = Some l ->
  (forall x, In x (map fst l) <-> resetdep_selected tb args x) /\
  (forall n df, In (n, df) l -> exists ct, lookup tb n = Some ct /\ df = c_def ct).
Proof.
  intros Hnd. unfold resetdep_tasks, resetdep_selected. destruct args as [|a args].
  - intros H. inversion H; subst. split.
    + intros x. rewrite map_map. simpl. reflexivity.
    + intros n df Hi. apply in_map_iff in Hi. destruct Hi as ([k c0] & E & Hi). simpl in E. inversion E; subst.
      exists c0. split; auto. apply lookup_nodup; auto.
  - destruct (named_with_subs tb (a :: args)) as [r|] eqn:E; [|discriminate]. intros H.
    destruct (with_defs_spec _ _ _ H) as [A B]. split; [|exact B].
    intros x. rewrite A. apply (named_with_subs_spec _ _ _ E).
Qed.

Lemma resetdep_cmd_spec c fs sn tb args d :
  NoDup (names tb) -> db_ok fs sn d ->
  let out := resetdep_cmd md5 v c fs tb args d in
  match co_res out with
  | COk => db_ok fs sn (co_db out) /\
           (forall x, ~ resetdep_selected tb args x -> co_db out x = d x) /\
           (forall x, get_values (co_db out) x = get_values d x /\ get_result (co_db out) x = get_result d x) /\
           (forall n ct, resetdep_selected tb args n -> lookup tb n = Some ct ->
              if forallb (exists_ fs) (file_dep (c_def ct))
              then settled_after c fs (co_db out) n (c_def ct)
              else co_db out n = d n)
  | CCrash | CFuel => False
  | _ => co_db out = d
  end.
Proof.
  intros Hnd Hok. cbv zeta. unfold resetdep_cmd.
  destruct (match args with [] => None | _ :: _ => first_unknown tb args end); [reflexivity|].
  destruct (resetdep_tasks tb args) as [l|] eqn:El; [|reflexivity].
  destruct (resetdep_tasks_spec tb args l Hnd El) as [S1 S2].
  destruct (resetdep_loop_spec c fs sn l d [] Hok) as (R1 & R2 & R3 & R4 & R5). cbv zeta in *.
  rewrite R1. split; [exact R2|]. split; [|split; [exact R4|]].
  - intros x Hx. apply R3. intros H. apply Hx. apply S1. exact H.
  - intros n ct Hs Hl. apply S1 in Hs. apply in_map_iff in Hs. destruct Hs as ([n' df] & E & Hin). simpl in E. subst n'.
    destruct (S2 n df Hin) as (ct' & Hl' & ->). rewrite Hl in Hl'. inversion Hl'; subst ct'.
    apply (R5 n (c_def ct) Hin).
    intros df' Hin'. destruct (S2 n df' Hin') as (ct' & Hl'' & ->). rewrite Hl in Hl''. inversion Hl''; subst. reflexivity.
Qed.

(* ---- the ignore mark over reset-dep.  [mark_held]: the task carries the mark in a record written by the configured
   checker, or in a record without a checker entry (one that holds only the mark).  Such a task carries the mark after
   the command, whatever the command did with it (not selected / failed / skip / processed) and whichever other tasks
   it went through -- and its record is still of that kind, so the same holds over any number of applications.
   (A record written by ANOTHER checker is dropped as a whole when the task is processed: reset_dep_spec.) ---- *)
Definition mark_held (c : ck) (d : db) (T : name) : Prop :=
  status_is_ignore d T = true /\ ck_changed c (getrec d T) = false.

Lemma reset_dep_keeps_mark c fs sn d n df d' code T :
  db_ok fs sn d -> reset_dep md5 v c fs d n df = (d', code) -> mark_held c d T -> mark_held c d' T /\ code <> 98.
Proof.
  intros Hok H [Hi Hc].
  destruct (reset_dep_spec c fs sn d n df d' code Hok H) as (_ & Hfr & _ & Hcase).
  destruct (forallb (exists_ fs) (file_dep df)).
  - destruct Hcase as (Hcode & H1 & H2 & _).
    destruct Hcode as [->| ->].
    + rewrite (H1 eq_refl). split; [split; auto | discriminate].
    + split; [|discriminate]. destruct (N.eq_dec T n) as [->|Hne].
      * destruct (H2 eq_refl) as (r' & Hr' & _ & Hck & _ & Hig).
        unfold mark_held, status_is_ignore, getrec in *. rewrite Hr', Hig, Hc. split; [exact Hi|].
        unfold ck_changed. rewrite Hck, ck_eqb_refl. reflexivity.
      * unfold mark_held, status_is_ignore, getrec in *. rewrite (Hfr T Hne). auto.
  - destruct Hcase as [-> ->]. split; [split; auto | discriminate].
Qed.

Lemma resetdep_loop_keeps_mark c fs sn T : forall l d log,
  db_ok fs sn d -> mark_held c d T -> mark_held c (co_db (resetdep_loop md5 v c fs l d log)) T.
Proof.
  induction l as [|[m dfm] l IH]; intros d log Hok Hm; simpl; [exact Hm|].
  destruct (reset_dep md5 v c fs d m dfm) as [d1 code] eqn:Er.
  destruct (reset_dep_keeps_mark c fs sn d m dfm d1 code T Hok Er Hm) as [Hm1 Hcode].
  destruct (reset_dep_spec c fs sn d m dfm d1 code Hok Er) as (Hok1 & _).
  destruct (code =? 98) eqn:E; [apply Z.eqb_eq in E; contradiction|].
  apply IH; auto.
Qed.

Lemma resetdep_cmd_keeps_mark c fs sn tb args d T :
  db_ok fs sn d -> mark_held c d T -> mark_held c (co_db (resetdep_cmd md5 v c fs tb args d)) T.
Proof.
  intros Hok Hm. unfold resetdep_cmd.
  destruct (match args with [] => None | _ :: _ => first_unknown tb args end); [exact Hm|].
  destruct (resetdep_tasks tb args) as [l|]; [|exact Hm].
  apply (resetdep_loop_keeps_mark c fs sn T); auto.
Qed.

Lemma resetdep_outcome c fs tb args d :
  let out := resetdep_cmd md5 v c fs tb args d in
  match (match args with [] => None | _ => first_unknown tb args end) with
  | Some bad => co_res out = CInvalid bad
  | None => closed tb -> co_res out <> CKeyError
  end.
Proof.
  cbv zeta. unfold resetdep_cmd.
  destruct (match args with [] => None | _ :: _ => first_unknown tb args end) eqn:Ec; [reflexivity|].
  intros Hc. unfold resetdep_tasks. destruct args as [|a args].
  - destruct (resetdep_loop md5 v c fs (map (fun e => (fst e, c_def (snd e))) tb) d []) as [r lg db'] eqn:E.
    pose proof (f_equal co_res E) as E'. simpl in E'. clear E. simpl.
    revert E'. generalize (@nil (name * Z)) as lg0. generalize d as d0.
    induction (map (fun e : name * ctask => (fst e, c_def (snd e))) tb) as [|[m dfm] l IH]; intros d0 lg0 E'; simpl in E'.
    + subst r. discriminate.
    + destruct (reset_dep md5 v c fs d0 m dfm) as [d1 code]. destruct (code =? 98).
      * simpl in E'. subst r. discriminate.
      * apply (IH _ _ E').
  - assert (Hk : forall n, In n (a :: args) -> known tb n) by (apply first_unknown_none; exact Ec).
    destruct (named_with_subs_total tb (a :: args) Hc Hk) as [r Er]. rewrite Er.
    destruct (named_with_subs_spec _ _ _ Er) as [Sp _].
    destruct (with_defs_total tb r) as [l ->].
    { intros x Hx. apply Sp in Hx. destruct Hx as (n & Hn & Hs). apply (self_or_sub_known tb n); auto. }
    generalize (@nil (name * Z)) as lg0. generalize d as d0.
    induction l as [|[m dfm] l IH]; intros d0 lg0; simpl.
    + discriminate.
    + destruct (reset_dep md5 v c fs d0 m dfm) as [d1 code]. destruct (code =? 98); [simpl; discriminate | apply IH].
Qed.

End ResetDep.

(* ---------- the next run: what Runner.select_task does with an ignored task ---------- *)
Section NextRun.
Variable tasks : name -> option Dispatch.task.
Variable cont always : bool.

Lemma is_nil_false_iff {A} (l : list A) : is_nil l = false <-> l <> [].
Proof. destruct l; simpl; split; congruence. Qed.

(* first selection (status None): marked in the DB, or an ignored dependency was seen *)
Lemma select_ignored_first r k :
  Dispatch.n_st (Dispatch.node_of tasks (Runner.r_d r) k) = Dispatch.SNone ->
  Dispatch.t_dbignore (Dispatch.get_task tasks k) = true \/ Dispatch.n_ign (Dispatch.node_of tasks (Runner.r_d r) k) <> [] ->
  exists r', Runner.select_task tasks cont always r k = (false, r') /\
             Runner.r_tr r' = Runner.r_tr r ++ [Runner.EGetStatus k; Runner.ESkipIgnore k] /\
             Dispatch.st_of tasks (Runner.r_d r') k = Dispatch.SIgnore /\
             Runner.r_td r' = Runner.r_td r.
Proof.
  intros Hs Hi. unfold Runner.select_task. rewrite Hs.
  assert (E : negb (is_nil (Dispatch.n_ign (Dispatch.node_of tasks (Runner.r_d r) k))) || Dispatch.t_dbignore (Dispatch.get_task tasks k) = true).
  { destruct Hi as [->|Hi]; [apply orb_true_r|]. apply is_nil_false_iff in Hi. rewrite Hi. reflexivity. }
  cbn [Runner.emit Runner.r_d]. rewrite E. eexists. split; [reflexivity|]. cbn. split; [rewrite <- app_assoc; reflexivity|].
  split; [|reflexivity]. unfold Dispatch.st_of, Runner.set_status, Dispatch.node_of, Dispatch.set_node. cbn.
  rewrite upd_same. reflexivity.
Qed.

(* second selection (after the setup-tasks): one of them was ignored *)
Lemma select_ignored_second r k :
  Dispatch.n_st (Dispatch.node_of tasks (Runner.r_d r) k) <> Dispatch.SNone ->
  Dispatch.n_ign (Dispatch.node_of tasks (Runner.r_d r) k) <> [] ->
  exists r', Runner.select_task tasks cont always r k = (false, r') /\
             Runner.r_tr r' = Runner.r_tr r ++ [Runner.ESkipIgnore k] /\
             Dispatch.st_of tasks (Runner.r_d r') k = Dispatch.SIgnore.
Proof.
  intros Hs Hi. unfold Runner.select_task. apply is_nil_false_iff in Hi.
  destruct (Dispatch.n_st (Dispatch.node_of tasks (Runner.r_d r) k)) eqn:E; try contradiction; rewrite Hi; cbn;
    (eexists; split; [reflexivity|]; cbn; split; [reflexivity|];
     unfold Dispatch.st_of, Runner.set_status, Dispatch.node_of, Dispatch.set_node; cbn; rewrite upd_same; reflexivity).
Qed.

(* how the mark travels: a dependency found (or reported) with status `ignore` is entered in the
   dependent's ignored_deps -- by _node_add_wait_run when it had finished before, by _update_waiting
   when it finishes later *)
Lemma parent_status_ignored nd dep : In dep (Dispatch.n_ign (Dispatch.parent_status nd dep Dispatch.SIgnore)).
Proof. simpl. apply in_or_app. right. left. reflexivity. Qed.

Lemma add_wait_one_ignored d me x calc :
  Dispatch.st_of tasks d x = Dispatch.SIgnore ->
  In x (Dispatch.n_ign (Dispatch.node_of tasks (Dispatch.add_wait_one tasks d me x calc) me)).
Proof.
  intros H. unfold Dispatch.add_wait_one. rewrite H. cbn [Dispatch.unfinished].
  unfold Dispatch.node_of at 1, Dispatch.set_node. cbn. rewrite upd_same.
  destruct calc; cbn; apply in_or_app; right; left; reflexivity.
Qed.

Lemma wake_node_ignored nd fin : In fin (Dispatch.n_ign (Dispatch.wake_node tasks nd fin Dispatch.SIgnore)).
Proof.
  unfold Dispatch.wake_node. destruct (mem fin (Dispatch.n_wcalc nd)); cbn; apply in_or_app; right; left; reflexivity.
Qed.

End NextRun.

(* the table of the next run reads the mark from the DB the command left *)
Lemma run_table_dbignore md5 v c fs d rt n ct :
  lookup rt n = Some ct ->
  Dispatch.t_dbignore (Dispatch.get_task (run_table md5 v c fs d rt) n) = status_is_ignore d n.
Proof. intros H. unfold Dispatch.get_task, run_table. rewrite H. reflexivity. Qed.

Lemma run_table_check md5 v c fs d rt n ct :
  lookup rt n = Some ct ->
  Dispatch.t_check (Dispatch.get_task (run_table md5 v c fs d rt) n) =
  check_of (g_status (get_status md5 v c fs d n (c_def ct) false)).
Proof. intros H. unfold Dispatch.get_task, run_table. rewrite H. reflexivity. Qed.

(* ---------- a task marked `ignore` in the DB is never started, in any run ---------- *)
Module IgnRun.
Import Dispatch Runner DispatchP.
Open Scope N_scope.

Section S.
Variable tasks : name -> option task.
Variable wake_rank : name -> name -> N.
Variable calc_rank : name -> N.
Variable continue_ always : bool.

Notation node_of := (node_of tasks).
Notation st_of := (st_of tasks).
Notation gen_node := (gen_node tasks).
Notation add_wait_one := (add_wait_one tasks).
Notation add_wait_run := (add_wait_run tasks).
Notation gen_step := (gen_step tasks calc_rank).
Notation wake_one := (wake_one tasks).
Notation wake := (wake tasks).
Notation update_waiting := (update_waiting tasks wake_rank).
Notation next_from_torun := (next_from_torun tasks).
Notation disp_run := (disp_run tasks calc_rank).
Notation disp_send := (disp_send tasks wake_rank calc_rank).
Notation set_pc := (set_pc tasks).
Notation set_status := (set_status tasks).
Notation select_task := (select_task tasks continue_ always).
Notation serial := (serial tasks wake_rank calc_rank continue_ always).

Definition pco (d : dstate) (z : name) : pc := n_pc (node_of d z).
(* the generator is past its first `yield this_task` and not in the setup-task part *)
Definition afterself (p : pc) : bool := match p with PAfterSelf | PAfterSelWait | PDone => true | _ => false end.

Lemma pc_set_node d k nd z : pco (set_node d k nd) z = if N.eqb z k then n_pc nd else pco d z.
Proof.
  unfold pco. destruct (N.eqb_spec z k) as [->|Hne].
  - rewrite node_of_set_same. reflexivity.
  - rewrite node_of_set_other; auto.
Qed.
Lemma pc_set_node_same d k nd z : n_pc nd = pco d k -> pco (set_node d k nd) z = pco d z.
Proof. intros H. rewrite pc_set_node. destruct (N.eqb_spec z k); subst; auto. Qed.
Lemma pc_set_node_other d k nd z : z <> k -> pco (set_node d k nd) z = pco d z.
Proof. intros H. rewrite pc_set_node. apply N.eqb_neq in H. rewrite H. reflexivity. Qed.

Lemma parent_status_pc nd dep s : n_pc (parent_status nd dep s) = n_pc nd.
Proof. destruct s; reflexivity. Qed.
Lemma process_calc_pc nd c s : n_pc (process_calc tasks nd c s) = n_pc nd.
Proof. unfold Dispatch.process_calc. destruct (calc_values_visible s); reflexivity. Qed.

Lemma gen_node_pc d pa k z : pco (snd (gen_node d pa k)) z = pco d z.
Proof.
  unfold Dispatch.gen_node. destruct (d_nodes d k) eqn:E.
  - destruct pa as [a|]; [destruct (mem k a)|]; reflexivity.
  - simpl. rewrite pc_set_node. destruct (N.eqb_spec z k) as [->|]; auto.
    unfold pco, Dispatch.node_of. rewrite E. reflexivity.
Qed.

Lemma add_wait_one_pc d me y calc z : pco (add_wait_one d me y calc) z = pco d z.
Proof.
  unfold Dispatch.add_wait_one. destruct (unfinished (st_of d y)).
  - set (d1 := set_node d y _).
    assert (H1 : forall w, pco d1 w = pco d w) by (intro w; apply pc_set_node_same; reflexivity).
    rewrite pc_set_node_same; [apply H1|]. destruct calc; reflexivity.
  - apply pc_set_node_same. destruct calc; rewrite ?process_calc_pc, parent_status_pc; reflexivity.
Qed.

Lemma add_wait_run_pc l : forall d me calc z, pco (add_wait_run d me l calc) z = pco d z.
Proof.
  induction l as [|y r IH]; intros d me calc z; cbn [Dispatch.add_wait_run]; auto.
  rewrite IH. apply add_wait_one_pc.
Qed.

Lemma set_pc_other d me p z : z <> me -> pco (set_pc d me p) z = pco d z.
Proof. intros H. unfold Dispatch.set_pc. apply pc_set_node_other. exact H. Qed.
Lemma set_pc_self d me p : pco (set_pc d me p) me = p.
Proof. unfold Dispatch.set_pc, pco. rewrite node_of_set_same. reflexivity. Qed.

(* resuming one generator leaves the program counter of every other node alone *)
Lemma gen_step_pc_other fuel : forall d me z, z <> me -> pco (snd (gen_step fuel d me)) z = pco d z.
Proof.
  induction fuel as [|fuel IH]; intros d me z Hz; cbn [Dispatch.gen_step]; auto.
  destruct (n_pc (node_of d me)) as [|rest calcs tks|rest tks| | | |rest| |] eqn:Epc.
  - rewrite IH by auto. apply pc_set_node_other. exact Hz.
  - destruct rest as [|c r].
    + rewrite IH, set_pc_other, add_wait_run_pc by auto. reflexivity.
    + destruct (gen_node d (Some (n_anc (node_of d me))) c) as [g d1] eqn:Eg.
      assert (Hd1 : forall y, pco d1 y = pco d y)
        by (intro y; change d1 with (snd (g, d1)); rewrite <- Eg; apply gen_node_pc).
      destruct g; simpl; auto.
      * rewrite set_pc_other; auto.
      * rewrite IH, set_pc_other; auto.
  - destruct rest as [|c r].
    + destruct (negb (is_nil (n_pend_calc _)) || negb (is_nil (n_pend_task _))).
      * rewrite IH, set_pc_other, add_wait_run_pc by auto. reflexivity.
      * destruct (negb (is_nil (n_wrun _)) || negb (is_nil (n_wcalc _))); simpl.
        -- rewrite set_pc_other, add_wait_run_pc by auto. reflexivity.
        -- rewrite IH, set_pc_other, add_wait_run_pc by auto. reflexivity.
    + destruct (gen_node d (Some (n_anc (node_of d me))) c) as [g d1] eqn:Eg.
      assert (Hd1 : forall y, pco d1 y = pco d y)
        by (intro y; change d1 with (snd (g, d1)); rewrite <- Eg; apply gen_node_pc).
      destruct g; simpl; auto.
      * rewrite set_pc_other; auto.
      * rewrite IH, set_pc_other; auto.
  - simpl. apply set_pc_other. exact Hz.
  - destruct (is_nil (t_setup (get_task tasks me))); simpl; [apply set_pc_other; exact Hz|].
    destruct (n_st (node_of d me)) eqn:Est; simpl;
      try (rewrite IH by auto; apply set_pc_other; exact Hz).
    apply pc_set_node_other. exact Hz.
  - destruct (n_st (node_of d me)); simpl; try (apply set_pc_other; exact Hz).
    rewrite IH by auto. apply set_pc_other. exact Hz.
  - destruct rest as [|c r].
    + destruct (is_nil (n_wrun _)); simpl; rewrite set_pc_other, add_wait_run_pc by auto; reflexivity.
    + destruct (gen_node d (Some (n_anc (node_of d me))) c) as [g d1] eqn:Eg.
      assert (Hd1 : forall y, pco d1 y = pco d y)
        by (intro y; change d1 with (snd (g, d1)); rewrite <- Eg; apply gen_node_pc).
      destruct g; simpl; auto.
      * rewrite set_pc_other; auto.
      * rewrite IH, set_pc_other; auto.
  - simpl. apply set_pc_other. exact Hz.
  - reflexivity.
Qed.

(* a generator that is past `yield this_task`, of a task whose status is not `run`, never yields the
   task again and stays there *)
Lemma gen_step_afterself fuel : forall d me y d',
  afterself (pco d me) = true -> st_of d me <> SRun ->
  gen_step fuel d me = (y, d') -> y <> YSelf /\ afterself (pco d' me) = true.
Proof.
  induction fuel as [|fuel IH]; intros d me y d' Ha Hs Hg; cbn [Dispatch.gen_step] in Hg.
  { inversion Hg; subst. split; [discriminate | exact Ha]. }
  unfold pco in Ha.
  destruct (n_pc (node_of d me)) eqn:Epc; try discriminate Ha.
  - destruct (is_nil (t_setup (get_task tasks me))).
    + inversion Hg; subst. split; [discriminate|]. rewrite set_pc_self. reflexivity.
    + destruct (n_st (node_of d me)) eqn:Est;
        try (apply (IH _ _ _ _) in Hg; [exact Hg | rewrite set_pc_self; reflexivity | rewrite set_pc_st; exact Hs]).
      inversion Hg; subst. split; [discriminate|]. unfold pco. rewrite node_of_set_same. reflexivity.
  - assert (Hne : n_st (node_of d me) <> SRun) by exact Hs.
    destruct (n_st (node_of d me)) eqn:Est; try contradiction;
      (inversion Hg; subst; split; [discriminate|]; rewrite set_pc_self; reflexivity).
  - inversion Hg; subst. split; [discriminate|]. unfold pco. rewrite Epc. reflexivity.
Qed.

(* whenever a generator yields its task, it is past `yield this_task` *)
Lemma gen_step_yself fuel : forall d me d', gen_step fuel d me = (YSelf, d') -> afterself (pco d' me) = true.
Proof.
  induction fuel as [|fuel IH]; intros d me d' Hg; cbn [Dispatch.gen_step] in Hg; [discriminate|].
  destruct (n_pc (node_of d me)) as [|rest calcs tks|rest tks| | | |rest| |] eqn:Epc.
  - apply IH in Hg. exact Hg.
  - destruct rest as [|c r].
    + apply IH in Hg. exact Hg.
    + destruct (gen_node d (Some (n_anc (node_of d me))) c) as [g d1]. destruct g; try discriminate.
      apply IH in Hg. exact Hg.
  - destruct rest as [|c r].
    + destruct (negb (is_nil (n_pend_calc _)) || negb (is_nil (n_pend_task _))); [apply IH in Hg; exact Hg|].
      destruct (negb (is_nil (n_wrun _)) || negb (is_nil (n_wcalc _))); [discriminate|]. apply IH in Hg. exact Hg.
    + destruct (gen_node d (Some (n_anc (node_of d me))) c) as [g d1]. destruct g; try discriminate.
      apply IH in Hg. exact Hg.
  - inversion Hg; subst. rewrite set_pc_self. reflexivity.
  - destruct (is_nil (t_setup (get_task tasks me))); [discriminate|].
    destruct (n_st (node_of d me)); try discriminate; apply IH in Hg; exact Hg.
  - destruct (n_st (node_of d me)); try discriminate. apply IH in Hg. exact Hg.
  - destruct rest as [|c r].
    + destruct (is_nil (n_wrun _)); [|discriminate]. inversion Hg; subst. rewrite set_pc_self. reflexivity.
    + destruct (gen_node d (Some (n_anc (node_of d me))) c) as [g d1]. destruct g; try discriminate.
      apply IH in Hg. exact Hg.
  - inversion Hg; subst. rewrite set_pc_self. reflexivity.
  - discriminate.
Qed.

(* _update_waiting and the tasks_to_run part change no program counter *)
Lemma wake_node_pc nd fin fs : n_pc (wake_node tasks nd fin fs) = n_pc nd.
Proof.
  unfold wake_node. destruct (mem fin (n_wcalc nd)); rewrite ?process_calc_pc; simpl; apply parent_status_pc.
Qed.
Lemma wake_one_pc d fin fs w z : pco (wake_one d fin fs w) z = pco d z.
Proof.
  unfold Dispatch.wake_one. destruct (_ && _); unfold pco; cbn [d_nodes set_waiting set_ready];
    apply pc_set_node_same; apply wake_node_pc.
Qed.
Lemma wake_pc l : forall d fin fs z, pco (wake d fin fs l) z = pco d z.
Proof.
  induction l as [|w r IH]; intros; cbn [Dispatch.wake]; auto. rewrite IH. apply wake_one_pc.
Qed.
Lemma update_waiting_pc d p z : pco (update_waiting d p) z = pco d z.
Proof.
  destruct p as [p|]; cbn [Dispatch.update_waiting]; auto.
  set (d1 := if n_wsel (node_of d p) then _ else d).
  assert (H1 : forall y, pco d1 y = pco d y).
  { intro y. unfold d1. destruct (n_wsel (node_of d p)); auto.
    change (pco (set_node d p (nd_wsel (node_of d p) false)) y = pco d y). apply pc_set_node_same. reflexivity. }
  destruct (n_st (node_of d p)); rewrite ?wake_pc; apply H1.
Qed.
Lemma pc_set_torun d w z : pco (set_torun d w) z = pco d z. Proof. reflexivity. Qed.
Lemma next_from_torun_pc l : forall d z, pco (snd (next_from_torun d l)) z = pco d z.
Proof.
  induction l as [|y r IH]; intros d z; cbn [Dispatch.next_from_torun]; auto.
  destruct (gen_node d None y) as [g d1] eqn:Eg.
  assert (Hd1 : forall w, pco d1 w = pco d w)
    by (intro w; change d1 with (snd (g, d1)); rewrite <- Eg; apply gen_node_pc).
  destruct g; simpl; rewrite ?IH, ?pc_set_torun; auto.
Qed.

(* the dispatcher, from one yield to the next, about one task T *)
Lemma disp_run_T T fuel : forall d y d',
  disp_run fuel d = (y, d') ->
  (y = DTask T -> afterself (pco d' T) = true) /\
  (afterself (pco d T) = true -> st_of d T <> SRun -> afterself (pco d' T) = true /\ y <> DTask T).
Proof.
  induction fuel as [|fuel IH]; intros d y d' H; cbn [Dispatch.disp_run] in H.
  { inversion H; subst. split; [discriminate|]. intros Ha _. split; [exact Ha | discriminate]. }
  destruct (d_cur d) as [me|] eqn:Ecur.
  - destruct (gen_step (S (S fuel)) d me) as [gy d1] eqn:Eg.
    assert (Hst : forall z, st_of d1 z = st_of d z)
      by (intro z; change d1 with (snd (gy, d1)); rewrite <- Eg; apply gen_step_st).
    assert (Hother : T <> me -> pco d1 T = pco d T)
      by (intro Hne; change d1 with (snd (gy, d1)); rewrite <- Eg; apply gen_step_pc_other; exact Hne).
    assert (Hself : T = me -> afterself (pco d T) = true -> st_of d T <> SRun -> gy <> YSelf /\ afterself (pco d1 T) = true).
    { intros -> Ha Hs. eapply gen_step_afterself; eauto. }
    assert (Hkeep : afterself (pco d T) = true -> st_of d T <> SRun -> afterself (pco d1 T) = true).
    { intros Ha Hs. destruct (N.eq_dec T me) as [E|E]; [apply Hself; auto | rewrite Hother; auto]. }
    destruct gy.
    + (* YNode *) destruct (IH _ _ _ H) as [A B]. split; [exact A|]. intros Ha Hs. assert (Hs1 : st_of d1 T <> SRun) by (rewrite Hst; exact Hs). apply B; [exact (Hkeep Ha Hs) | exact Hs1].
    + (* YWait *) destruct (IH _ _ _ H) as [A B]. split; [exact A|]. intros Ha Hs. assert (Hs1 : st_of d1 T <> SRun) by (rewrite Hst; exact Hs). apply B; [exact (Hkeep Ha Hs) | exact Hs1].
    + (* YSelf *) inversion H; subst. split.
      * intros E. inversion E; subst. eapply gen_step_yself; eauto.
      * intros Ha Hs. split; [apply Hkeep; auto|]. intros E. inversion E; subst.
        destruct (Hself eq_refl Ha Hs) as [X _]. apply X. reflexivity.
    + (* YEnd *) destruct (IH _ _ _ H) as [A B]. split; [exact A|]. intros Ha Hs. assert (Hs1 : st_of d1 T <> SRun) by (rewrite Hst; exact Hs). apply B; [exact (Hkeep Ha Hs) | exact Hs1].
    + (* YCycle *) inversion H; subst. split; [discriminate|]. intros Ha Hs. split; [apply Hkeep; auto | discriminate].
    + (* YFuel *) inversion H; subst. split; [discriminate|]. intros Ha Hs. split; [apply Hkeep; auto | discriminate].
  - destruct (d_ready d) as [|x r].
    + destruct (next_from_torun d (d_torun d)) as [o d1] eqn:En.
      assert (Hpc : forall z, pco d1 z = pco d z)
        by (intro z; change d1 with (snd (o, d1)); rewrite <- En; apply next_from_torun_pc).
      assert (Hst : forall z, st_of d1 z = st_of d z)
        by (intro z; change d1 with (snd (o, d1)); rewrite <- En; apply next_from_torun_st).
      destruct o as [x|].
      * destruct (IH _ _ _ H) as [A B]. split; [exact A|]. intros Ha Hs. apply B; [change (afterself (pco d1 T) = true); rewrite Hpc; exact Ha | change (st_of d1 T <> SRun); rewrite Hst; exact Hs].
      * destruct (is_nil (d_waiting d1)); inversion H; subst; (split; [discriminate|]); intros Ha Hs; (split; [rewrite Hpc; exact Ha | discriminate]).
    + destruct (IH _ _ _ H) as [A B]. split; [exact A|]. intros Ha Hs. apply B; assumption.
Qed.

Lemma disp_send_T T fuel d p y d' :
  disp_send fuel d p = (y, d') ->
  (forall z, st_of d' z = st_of d z) /\
  (y = DTask T -> afterself (pco d' T) = true) /\
  (afterself (pco d T) = true -> st_of d T <> SRun -> afterself (pco d' T) = true /\ y <> DTask T).
Proof.
  intros H. split.
  - intro z. change d' with (snd (y, d')). rewrite <- H. apply disp_send_st.
  - unfold Dispatch.disp_send in H. destruct (disp_run_T T _ _ _ _ H) as [A B]. split; [exact A|].
    intros Ha Hs. apply B; [rewrite update_waiting_pc; exact Ha | rewrite update_waiting_st; exact Hs].
Qed.

(* ---- the runner ---- *)
Definition no_exec (k : name) (tr : list event) : Prop := ~ In (EExecute k) tr.
Lemma no_exec_app k a b : no_exec k a -> no_exec k b -> no_exec k (a ++ b).
Proof. unfold no_exec. intros A B H. apply in_app_or in H. tauto. Qed.

Lemma set_status_pco d k s z : pco (set_status d k s) z = pco d z.
Proof. unfold Runner.set_status. apply pc_set_node_same. reflexivity. Qed.
Lemma set_status_sto d k s z : st_of (set_status d k s) z = if N.eqb z k then s else st_of d z.
Proof. unfold Runner.set_status. apply st_set_node. Qed.

(* what select_task / process_result may do: append events that start nothing, and change at most
   the status of the task they were given *)
Definition touches (k : name) (r r1 : rstate) : Prop :=
  (forall z, pco (r_d r1) z = pco (r_d r) z) /\
  (forall z, z <> k -> st_of (r_d r1) z = st_of (r_d r) z) /\
  exists evs, r_tr r1 = r_tr r ++ evs /\ forall x, ~ In (EExecute x) evs.

Lemma touches_refl k r : touches k r r.
Proof. split; [auto|]. split; [auto|]. exists []. split; [rewrite app_nil_r; reflexivity | intros x []]. Qed.

Lemma touches_status k r s evs :
  (forall x, ~ In (EExecute x) evs) ->
  forall r1, r_d r1 = set_status (r_d r) k s -> r_tr r1 = r_tr r ++ evs -> touches k r r1.
Proof.
  intros He r1 Hd Ht. split; [intro z; rewrite Hd; apply set_status_pco|].
  split; [intros z Hz; rewrite Hd, set_status_sto; apply N.eqb_neq in Hz; rewrite Hz; reflexivity|].
  exists evs. auto.
Qed.

Lemma handle_error_touches st r k kind : touches k r (handle_error_gen tasks continue_ st r k kind).
Proof.
  apply (touches_status k r st [ERemove k; EFailure k kind]); try reflexivity.
  intros x [H|[H|[]]]; discriminate.
Qed.

Lemma touches_trans k r r1 r2 : touches k r r1 -> touches k r1 r2 -> touches k r r2.
Proof.
  intros (A1 & B1 & e1 & C1 & D1) (A2 & B2 & e2 & C2 & D2).
  split; [intro z; rewrite A2; apply A1|]. split; [intros z Hz; rewrite B2, B1; auto|].
  exists (e1 ++ e2). split; [rewrite C2, C1, app_assoc; reflexivity|].
  intros x H. apply in_app_or in H. destruct H; [eapply D1 | eapply D2]; eauto.
Qed.

Lemma touches_emit k r0 evs : (forall x, ~ In (EExecute x) evs) -> touches k r0 (emit r0 evs).
Proof. intros H. split; [auto|]. split; [auto|]. exists evs. split; [reflexivity | exact H]. Qed.

Lemma get_args_touches r k b r1 : get_args tasks continue_ r k = (b, r1) -> touches k r r1.
Proof.
  unfold Runner.get_args. destruct (t_argerr (get_task tasks k)); intros H; inversion H; subst.
  - apply handle_error_touches.
  - apply touches_refl.
Qed.

Lemma select_task_touches r k b r1 : select_task r k = (b, r1) -> touches k r r1.
Proof.
  unfold Runner.select_task.
  assert (E0 : touches k r (emit r [EGetStatus k])).
  { apply touches_emit. intros x [H|[]]. discriminate. }
  assert (SK : forall r0 s ev, (forall x, ev <> EExecute x) ->
               touches k r0 (emit (with_d r0 (set_status (r_d r0) k s)) [ev])).
  { intros r0 s ev Hev. apply (touches_status k r0 s [ev]); try reflexivity. intros x [H|[]]. apply (Hev x H). }
  assert (ST : forall r0 s, touches k r0 (with_d r0 (set_status (r_d r0) k s))).
  { intros r0 s. apply (touches_status k r0 s []); try reflexivity; [intros x []|]. simpl. rewrite app_nil_r. reflexivity. }
  destruct (n_st (node_of (r_d r) k)).
  - cbv zeta.
    destruct (negb (is_nil (n_ign (node_of (r_d r) k))) || t_dbignore (get_task tasks k)).
    { intros H; inversion H; subst. eapply touches_trans; [exact E0|]. apply (SK (emit r [EGetStatus k])). intros x; discriminate. }
    destruct (negb (is_nil (n_bad (node_of (r_d r) k)))).
    { intros H; inversion H; subst. eapply touches_trans; [exact E0|]. apply handle_error_touches. }
    destruct (t_check (get_task tasks k)).
    + destruct always; cbv zeta.
      * destruct (is_nil (t_setup (get_task tasks k))).
        -- intros H. eapply touches_trans; [exact E0|]. eapply touches_trans; [apply (ST (emit r [EGetStatus k]))|]. eapply get_args_touches; exact H.
        -- intros H; inversion H; subst. eapply touches_trans; [exact E0|]. apply (ST (emit r [EGetStatus k])).
      * destruct (is_nil (t_setup (get_task tasks k))).
        -- intros H. eapply touches_trans; [exact E0|]. eapply touches_trans; [apply (ST (emit r [EGetStatus k]))|]. eapply get_args_touches; exact H.
        -- intros H; inversion H; subst. eapply touches_trans; [exact E0|]. apply (ST (emit r [EGetStatus k])).
    + destruct always; cbv zeta.
      * destruct (is_nil (t_setup (get_task tasks k))).
        -- intros H. eapply touches_trans; [exact E0|]. eapply touches_trans; [apply (ST (emit r [EGetStatus k]))|]. eapply get_args_touches; exact H.
        -- intros H; inversion H; subst. eapply touches_trans; [exact E0|]. apply (ST (emit r [EGetStatus k])).
      * intros H; inversion H; subst. eapply touches_trans; [exact E0|].
        eapply touches_trans; [apply (ST (emit r [EGetStatus k]))|].
        apply touches_emit. intros x [X|[]]. discriminate.
    + intros H; inversion H; subst. eapply touches_trans; [exact E0|]. apply handle_error_touches.
  - destruct (negb (is_nil (n_ign (node_of (r_d r) k)))); [intros H; inversion H; subst; apply (SK r); intros x; discriminate|].
    destruct (negb (is_nil (n_bad (node_of (r_d r) k)))); [intros H; inversion H; subst; apply handle_error_touches|].
    apply get_args_touches.
  - destruct (negb (is_nil (n_ign (node_of (r_d r) k)))); [intros H; inversion H; subst; apply (SK r); intros x; discriminate|].
    destruct (negb (is_nil (n_bad (node_of (r_d r) k)))); [intros H; inversion H; subst; apply handle_error_touches|].
    apply get_args_touches.
  - destruct (negb (is_nil (n_ign (node_of (r_d r) k)))); [intros H; inversion H; subst; apply (SK r); intros x; discriminate|].
    destruct (negb (is_nil (n_bad (node_of (r_d r) k)))); [intros H; inversion H; subst; apply handle_error_touches|].
    apply get_args_touches.
  - destruct (negb (is_nil (n_ign (node_of (r_d r) k)))); [intros H; inversion H; subst; apply (SK r); intros x; discriminate|].
    destruct (negb (is_nil (n_bad (node_of (r_d r) k)))); [intros H; inversion H; subst; apply handle_error_touches|].
    apply get_args_touches.
  - destruct (negb (is_nil (n_ign (node_of (r_d r) k)))); [intros H; inversion H; subst; apply (SK r); intros x; discriminate|].
    destruct (negb (is_nil (n_bad (node_of (r_d r) k)))); [intros H; inversion H; subst; apply handle_error_touches|].
    apply get_args_touches.
  - destruct (negb (is_nil (n_ign (node_of (r_d r) k)))); [intros H; inversion H; subst; apply (SK r); intros x; discriminate|].
    destruct (negb (is_nil (n_bad (node_of (r_d r) k)))); [intros H; inversion H; subst; apply handle_error_touches|].
    apply get_args_touches.
Qed.

Lemma process_result_touches r k : touches k r (process_result tasks continue_ r k).
Proof.
  unfold Runner.process_result. destruct (t_outcome (get_task tasks k)); try apply handle_error_touches; try apply touches_refl.
  apply (touches_status k r SSuccess [ESave k; ESuccess k]); try reflexivity. intros x [H|[H|[]]]; discriminate.
Qed.

(* the invariant about the marked task T *)
Definition TInv (T : name) (r : rstate) : Prop :=
  (st_of (r_d r) T = SNone \/ st_of (r_d r) T = SIgnore) /\
  (st_of (r_d r) T = SIgnore -> afterself (pco (r_d r) T) = true) /\
  no_exec T (r_tr r).

Lemma TInv_touches T k r r1 : T <> k -> TInv T r -> touches k r r1 -> TInv T r1.
Proof.
  intros Hne (A & B & C) (P & S & evs & E & N). unfold TInv. rewrite S, P by auto.
  split; [exact A|]. split; [exact B|]. rewrite E. apply no_exec_app; [exact C | apply N].
Qed.

Lemma finish_no_exec T r : no_exec T (r_tr r) -> no_exec T (r_tr (finish r)).
Proof.
  intros H. unfold Runner.finish, emit. simpl. apply no_exec_app; [exact H|].
  intros [X|X]; [discriminate|]. apply in_map_iff in X. destruct X as (x & X & _). discriminate.
Qed.

Lemma serial_T T (HT : t_dbignore (get_task tasks T) = true) fuel : forall r last,
  TInv T r -> no_exec T (r_tr (fst (serial fuel r last))).
Proof.
  induction fuel as [|fuel IH]; intros r last HI; cbn [Runner.serial].
  { apply HI. }
  destruct (r_stop r). { cbn [fst]. apply finish_no_exec. apply HI. }
  destruct (disp_send (S fuel) (r_d r) last) as [y d] eqn:Ed.
  destruct (disp_send_T T _ _ _ _ _ Ed) as (Hst & Hy & Hkeep).
  destruct HI as (A & B & C).
  assert (HI' : TInv T (with_d r d)).
  { unfold TInv. cbn [r_d r_tr with_d]. rewrite Hst. split; [exact A|]. split; [|exact C].
    intros E. apply Hkeep; [apply B; exact E | rewrite E; discriminate]. }
  destruct y as [k| | |path|].
  - destruct (select_task (with_d r d) k) as [b r1] eqn:Es.
    destruct (N.eq_dec T k) as [<-|Hne].
    + (* the marked task itself: it can only be met with status None *)
      assert (HsT : st_of d T = SNone).
      { rewrite Hst. destruct A as [A|A]; [exact A|]. exfalso.
        destruct (Hkeep (B A)) as [_ X]; [rewrite A; discriminate | apply X; reflexivity]. }
      unfold Runner.select_task in Es. cbn [r_d with_d] in Es.
      unfold Dispatch.st_of in HsT. rewrite HsT in Es. cbv zeta in Es. rewrite HT, orb_true_r in Es.
      inversion Es; subst b r1. apply IH. unfold TInv. cbn [r_d r_tr emit with_d].
      rewrite set_status_sto, N.eqb_refl. split; [right; reflexivity|]. split.
      * intros _. rewrite set_status_pco. apply Hy. reflexivity.
      * repeat apply no_exec_app; try exact C; intros [X|[]]; discriminate.
    + pose proof (select_task_touches _ _ _ _ Es) as Ht.
      pose proof (TInv_touches T k _ _ Hne HI' Ht) as H1.
      destruct b.
      * assert (H2 : TInv T (start_task tasks r1 k)).
        { destruct H1 as (A1 & B1 & C1). unfold TInv, Runner.start_task. cbn [r_d r_tr]. split; [exact A1|]. split; [exact B1|].
          apply no_exec_app; [exact C1|]. intros [X|[]]. inversion X. apply Hne. auto. }
        destruct (is_interrupt tasks k).
        -- cbn [fst]. apply finish_no_exec. apply H2.
        -- apply IH. eapply TInv_touches; [exact Hne | exact H2 | apply process_result_touches].
      * apply IH. exact H1.
  - cbn [fst]. apply finish_no_exec. apply HI'.
  - cbn [fst]. apply finish_no_exec. apply HI'.
  - cbn [fst]. apply finish_no_exec. apply HI'.
  - cbn [fst]. apply HI'.
Qed.

(* no run, whatever the selection, the options, the fuel and the scheduling oracles, starts a task
   that the DB marks as ignored *)
Theorem ignored_never_started T fuel sel :
  t_dbignore (get_task tasks T) = true ->
  ~ In (EExecute T) (fst (run_serial tasks wake_rank calc_rank continue_ always fuel sel)).
Proof.
  intros HT. unfold run_serial.
  pose proof (serial_T T HT fuel (r_init sel) None) as H.
  destruct (serial fuel (r_init sel) None) as [r s] eqn:E. cbn [fst] in *.
  apply no_exec_app.
  - apply H. unfold TInv. cbn. split; [left; reflexivity|]. split; [discriminate|]. intros [].
  - destruct s; simpl; intros X; repeat (destruct X as [X|X]; [discriminate|]); destruct X.
Qed.

End S.
End IgnRun.

(* ... in particular in the run on the DB a command left *)
Lemma next_run_never_starts_ignored md5 v wake_rank calc_rank c fs d rt cont always fuel sel T ct :
  lookup rt T = Some ct -> status_is_ignore d T = true ->
  ~ In (Runner.EExecute T) (fst (next_run md5 v wake_rank calc_rank c fs d rt cont always fuel sel)).
Proof.
  intros Hl Hi. unfold next_run. apply IgnRun.ignored_never_started.
  rewrite (run_table_dbignore md5 v c fs d rt T ct Hl). exact Hi.
Qed.

(* ---------- ignore wins over every option of the run, --always-execute included ----------
   [ign_clo]: the tasks the mark reaches in a run-family task table: marked in the DB (t_dbignore), or
   with a task_dep / calc_dep on such a task.  Runner.select_task looks at ignored_deps / the mark
   BEFORE it looks at always_execute; in the outcome specification (Proofs/OutcomeSpec.v) that is rule
   f_ignore, the only rule of [first] that applies to such a task, for either value of [always]. *)
Module IgnWins.
Import Dispatch Runner Parallel RunnerP ParallelP OutcomeSpec OutcomeParP.
Open Scope N_scope.

Section S.
Variable tasks : name -> option task.
Variable always : bool.

Inductive ign_clo : name -> Prop :=
| ic_db k : t_dbignore (get_task tasks k) = true -> ign_clo k
| ic_dep k x : In x (deps12 tasks k) -> ign_clo x -> ign_clo k.

Lemma deps12_vdep st k x : In x (deps12 tasks k) -> vdep tasks st k x.
Proof.
  unfold deps12. intros H. apply in_app_iff in H. destruct H as [H|H].
  - apply vd_task. exact H.
  - apply vd_calc. apply vc_static. exact H.
Qed.

(* the specification gives such a task the outcome `ignored`, and no other *)
Lemma fin_ign_clo k : ign_clo k -> forall r, fin tasks always k r -> r = FIgnore.
Proof.
  induction 1 as [k Hk|k x Hx Hc IH]; intros r F.
  - inversion F as [k0 a p r0 Hd Hf Hs|k0 a r0 Hd Hf Hse Hsec]; subst.
    + inversion Hf; subst; simpl in Hs; try congruence.
    + inversion Hf; subst; congruence.
  - assert (G : forall a, (forall y, vdep tasks (sta a) k y -> fin tasks always y (a y)) -> sta a x = SIgnore).
    { intros a Hd. unfold sta. rewrite (IH (a x) (Hd x (deps12_vdep _ k x Hx))). reflexivity. }
    inversion F as [k0 a p r0 Hd Hf Hs|k0 a r0 Hd Hf Hse Hsec]; subst.
    + pose proof (G a Hd) as E. pose proof (deps12_vdep (sta a) k x Hx) as V.
      inversion Hf as [Hi|Hn Hb Hex|Hg Hb Hck|Hg Hb Hck Hal|Hg Hb Hck]; subst; simpl in Hs.
      * congruence.
      * exfalso. exact (Hn x V E).
      * specialize (Hg x V). rewrite E in Hg. discriminate.
      * specialize (Hg x V). rewrite E in Hg. discriminate.
      * discriminate.
    + pose proof (G a Hd) as E. pose proof (deps12_vdep (sta a) k x Hx) as V.
      inversion Hf as [Hi|Hn Hb Hex|Hg Hb Hck|Hg Hb Hck Hal|Hg Hb Hck]; subst.
      specialize (Hg x V). rewrite E in Hg. discriminate.
Qed.

(* every final report such a task gets, in ANY run -- serial or parallel, any selection, --continue
   or not, any schedule / worker count / flavour -- is skip_ignore *)
Lemma ign_clo_report c k e :
  ign_clo k -> In e (run_events tasks always c) -> is_final_ev k e = true -> e = ESkipIgnore k.
Proof.
  intros Hk Hin Hf. destruct (run_outcome_sound tasks always c k e Hin Hf) as (r & A & ->).
  rewrite (fin_ign_clo k Hk r A). reflexivity.
Qed.

Lemma deps12_static k x : In x (deps12 tasks k) -> In x (static_deps tasks k).
Proof.
  unfold deps12, static_deps. intros H. apply in_app_iff in H. destruct H as [H|H].
  - apply in_or_app. left. exact H.
  - apply in_or_app. right. apply in_or_app. left. exact H.
Qed.

Section Serial.
Variable wake_rank : name -> name -> N.
Variable calc_rank : name -> N.
Variable continue_ : bool.
Variable fuel : nat.
Variable sel : list name.
Let tr := fst (run_serial tasks wake_rank calc_rank continue_ always fuel sel).

(* a task that effectively depends on one of them (setup-tasks and what calc_dep tasks return
   included) is never executed *)
Lemma serial_dep_on_ign_never_runs t x : eff_dep tasks t x -> ign_clo x -> ~ In (EExecute t) tr.
Proof.
  intros Hx Hc Hex. apply in_split in Hex. destruct Hex as (pre & post & E).
  destruct (cordered_split tasks tr (serial_contained tasks wake_rank calc_rank continue_ always fuel sel) pre t post E x Hx)
    as (e' & Hin' & Hf' & Hg').
  assert (Hin2 : In e' tr) by (rewrite E; apply in_or_app; left; exact Hin').
  pose proof (ign_clo_report (RunSerial wake_rank calc_rank continue_ fuel sel) x e' Hc Hin2 Hf') as ->.
  discriminate.
Qed.

Lemma serial_ign_never_runs k : ign_clo k -> ~ In (EExecute k) tr.
Proof.
  intros Hk. destruct Hk as [k Hk|k x Hx Hc].
  - apply IgnRun.ignored_never_started. exact Hk.
  - apply (serial_dep_on_ign_never_runs k x); [apply ed_static, deps12_static; exact Hx|exact Hc].
Qed.
End Serial.

Section Parallel.
Variable wake_rank : name -> name -> N.
Variable calc_rank : name -> N.
Variable continue_ proc : bool.
Variable fuel nprocs : nat.
Variable sched : list nat.
Variable sel : list name.
Let log := fst (run_parallel tasks wake_rank calc_rank continue_ always proc fuel nprocs sched sel).

Lemma parallel_dep_on_ign_never_runs t w x : eff_dep tasks t x -> ign_clo x -> ~ In (PStart t w) log.
Proof.
  intros Hx Hc Hst. apply in_split in Hst. destruct Hst as (pre & post & E).
  destruct (pcordered_split tasks log (parallel_contained tasks wake_rank calc_rank continue_ always proc fuel nprocs sched sel)
              pre t w post E x Hx) as (e' & Hin' & Hf' & Hg').
  assert (Hin2 : In e' (proj log)) by (rewrite E, proj_app; apply in_or_app; left; exact Hin').
  pose proof (ign_clo_report (RunParallel wake_rank calc_rank continue_ proc fuel nprocs sched sel) x e' Hc Hin2 Hf') as ->.
  discriminate.
Qed.
End Parallel.

End S.
End IgnWins.

(* the closure of Model/Commands.v is the one of the run-family table read from the DB *)
Lemma run_table_deps md5 v c fs d rt k ct :
  lookup rt k = Some ct ->
  Dispatch.t_task_dep (Dispatch.get_task (run_table md5 v c fs d rt) k) = c_task_dep ct /\
  Dispatch.t_calc_dep (Dispatch.get_task (run_table md5 v c fs d rt) k) = c_calc_dep ct /\
  Dispatch.t_setup (Dispatch.get_task (run_table md5 v c fs d rt) k) = c_setup ct.
Proof. intros H. unfold Dispatch.get_task, run_table. rewrite H. repeat split. Qed.

Lemma ignored_by_clo md5 v c fs d rt k :
  ignored_by d rt k -> IgnWins.ign_clo (run_table md5 v c fs d rt) k.
Proof.
  induction 1 as [k ct Hl Hi|k ct x Hl Hx _ IH].
  - apply IgnWins.ic_db. rewrite (run_table_dbignore md5 v c fs d rt k ct Hl). exact Hi.
  - apply (IgnWins.ic_dep _ k x); [|exact IH].
    unfold RunnerP.deps12. destruct (run_table_deps md5 v c fs d rt k ct Hl) as (-> & -> & _). exact Hx.
Qed.

(* THE STATEMENT for the run on the DB a command left, serial runner: whatever the options of the run
   (selection, --continue, --always-execute), the scheduling oracles and the fuel -- a task the mark
   reaches is never executed and every report it gets is skip_ignore; a task that has one as a
   setup-task is never executed either *)
Lemma next_run_ignore_wins md5 v wake_rank calc_rank c fs d rt cont always fuel sel k :
  ignored_by d rt k ->
  let tr := fst (next_run md5 v wake_rank calc_rank c fs d rt cont always fuel sel) in
  ~ In (Runner.EExecute k) tr /\
  (forall e, In e tr -> RunnerP.is_final_ev k e = true -> e = Runner.ESkipIgnore k) /\
  (forall t, setup_ignored_by d rt t -> ~ In (Runner.EExecute t) tr).
Proof.
  intros Hk. cbv zeta. unfold next_run. pose proof (ignored_by_clo md5 v c fs d rt k Hk) as Hc.
  split; [|split].
  - apply IgnWins.serial_ign_never_runs. exact Hc.
  - intros e Hin Hf.
    exact (IgnWins.ign_clo_report _ always (OutcomeParP.RunSerial wake_rank calc_rank cont fuel sel) k e Hc Hin Hf).
  - intros t (ct & x & Hl & Hx & Hix).
    apply (IgnWins.serial_dep_on_ign_never_runs _ always wake_rank calc_rank cont fuel sel t x).
    + apply RunnerP.ed_static. unfold RunnerP.static_deps.
      destruct (run_table_deps md5 v c fs d rt t ct Hl) as (_ & _ & ->).
      apply in_or_app. right. apply in_or_app. right. exact Hx.
    + exact (ignored_by_clo md5 v c fs d rt x Hix).
Qed.

(* ... and the parallel runners (threads or processes, any worker count, any schedule) over the same
   table: the reports, and no start of a task that depends on (task_dep, calc_dep, setup) a task the
   mark reaches *)
Lemma next_run_parallel_ignore_wins md5 v wake_rank calc_rank c fs d rt cont always proc fuel nprocs sched sel k :
  ignored_by d rt k ->
  let log := fst (Parallel.run_parallel (run_table md5 v c fs d rt) wake_rank calc_rank cont always proc fuel nprocs sched sel) in
  (forall e, In (Parallel.PE e) log -> RunnerP.is_final_ev k e = true -> e = Runner.ESkipIgnore k) /\
  (forall t ct w, lookup rt t = Some ct -> In k (c_task_dep ct ++ c_calc_dep ct ++ c_setup ct) -> ~ In (Parallel.PStart t w) log).
Proof.
  intros Hk. cbv zeta. pose proof (ignored_by_clo md5 v c fs d rt k Hk) as Hc. split.
  - intros e Hin Hf.
    apply (IgnWins.ign_clo_report _ always (OutcomeParP.RunParallel wake_rank calc_rank cont proc fuel nprocs sched sel) k e Hc); [|exact Hf].
    simpl. unfold ParallelP.proj. apply in_flat_map. exists (Parallel.PE e). split; [exact Hin|left; reflexivity].
  - intros t ct w Hl Hx.
    apply (IgnWins.parallel_dep_on_ign_never_runs _ always wake_rank calc_rank cont proc fuel nprocs sched sel t w k); [|exact Hc].
    apply RunnerP.ed_static. unfold RunnerP.static_deps.
    destruct (run_table_deps md5 v c fs d rt t ct Hl) as (-> & -> & ->). exact Hx.
Qed.
