(* FailChainP.v -- C05, containment through a CHAIN of tasks, whatever the tasks in between look like.

   The direct statement (RunnerP.serial_bad_dep_never_runs: a task with a dependency that did not end
   well is never executed) says nothing by itself about  top -> mid -> gen  when gen fails and mid is
   up-to-date by its own inputs: it needs that mid is then NOT reported up-to-date (Runner.select_task
   looks at node.bad_deps BEFORE it asks dep_manager.get_status, doit/runner.py:127-137).  Here:

   * [fin_chain_bad]: over the outcome specification [fin] (OutcomeSpec.v): if x ends badly (any
     failure, or ignored) then every task that reaches x through declared task_dep (explicit or
     implicit through a target) / calc_dep edges can only be reported `unmet dependency' or ignored
     -- never up-to-date, never successful, never with a failure of its own actions;
   * the run-level consequences for the serial runner and for the parallel runners (every schedule):
     such a task is never executed, never reported up-to-date, never reported successful; the first
     edge of the chain may be ANY effective dependency (also a setup-task or a task returned by a
     calc_dep).  *)
From DoitV Require Import Base Dispatch Runner Parallel DispatchInv RunnerP ParallelP.
From DoitV Require Import OutcomeSpec OutcomeSerialP OutcomeParP.
Open Scope N_scope.

(* declared, unconditional dependency edges: task_dep (explicit + implicit through targets, as
   TaskControl leaves them) and calc_dep *)
Definition decl_dep (tasks : name -> option task) (t x : name) : Prop :=
  In x (t_task_dep (get_task tasks t)) \/ In x (t_calc_dep (get_task tasks t)).

Inductive dchain (tasks : name -> option task) : name -> name -> Prop :=
| dch_one t x : decl_dep tasks t x -> dchain tasks t x
| dch_step t y x : decl_dep tasks t y -> dchain tasks y x -> dchain tasks t x.

Definition contained_res (r : fres) : Prop := r = FIgnore \/ r = FFail false kind_unmet.

Lemma contained_res_bad r : contained_res r -> is_goodst (fres_status r) = false.
Proof. intros [->| ->]; reflexivity. Qed.

Lemma decl_dep_vdep tasks st t x : decl_dep tasks t x -> vdep tasks st t x.
Proof. intros [H|H]; [apply vd_task; exact H|apply vd_calc, vc_static; exact H]. Qed.

Lemma decl_dep_eff tasks t x : decl_dep tasks t x -> eff_dep tasks t x.
Proof.
  intros [H|H]; apply ed_static; unfold static_deps; apply in_or_app; [left; exact H|right; apply in_or_app; left; exact H].
Qed.

(* one edge: a task with a declared dependency whose outcome is bad *)
Lemma fin_edge_bad tasks always t y :
  decl_dep tasks t y ->
  (forall ry, fin tasks always y ry -> is_goodst (fres_status ry) = false) ->
  forall rt, fin tasks always t rt -> contained_res rt.
Proof.
  intros Hd Hy rt Ht.
  assert (Hv : forall a, vdep tasks (sta a) t y) by (intro a; apply decl_dep_vdep; exact Hd).
  inversion Ht as [k0 a p r D F S|k0 a r D F Dset Sec]; subst.
  - pose proof (Hy _ (D y (Hv a))) as Hb. unfold sta in *.
    inversion F as [Hi|Hn Hdb Hex|Hg Hdb Hc|Hg Hdb Hc Ha|Hg Hdb Hc]; subst; simpl in S.
    + inversion S; subst. left; reflexivity.
    + inversion S; subst. right; reflexivity.
    + specialize (Hg y (Hv a)). unfold sta in Hg. rewrite Hb in Hg. discriminate.
    + specialize (Hg y (Hv a)). unfold sta in Hg. rewrite Hb in Hg. discriminate.
    + discriminate.
  - exfalso. pose proof (Hy _ (D y (Hv a))) as Hb.
    inversion F as [| | | |Hg Hdb Hc]; subst.
    specialize (Hg y (Hv a)). unfold sta in Hg. rewrite Hb in Hg. discriminate.
Qed.

Theorem fin_chain_bad tasks always t x :
  dchain tasks t x ->
  forall rx, fin tasks always x rx -> is_goodst (fres_status rx) = false ->
  forall rt, fin tasks always t rt -> contained_res rt.
Proof.
  induction 1 as [t x Hd|t y x Hd Hc IH]; intros rx Hx Hbad rt Ht.
  - eapply fin_edge_bad; [exact Hd| |exact Ht].
    intros ry Hy. rewrite (fin_functional tasks always x ry Hy rx Hx). exact Hbad.
  - eapply fin_edge_bad; [exact Hd| |exact Ht].
    intros ry Hy. apply contained_res_bad. exact (IH rx Hx Hbad ry Hy).
Qed.
Print Assumptions fin_chain_bad.

Lemma bad_ev_bad_res x r : is_good_ev (ev_of x r) = false -> is_goodst (fres_status r) = false.
Proof. destruct r as [| | |[] kd]; simpl; auto. Qed.

Lemma contained_ev k r : contained_res r -> ev_of k r = ESkipIgnore k \/ ev_of k r = EFailure k kind_unmet.
Proof. intros [->| ->]; simpl; auto. Qed.

(* x = the end of the chain, or reached from y through a chain *)
Definition reaches (tasks : name -> option task) (y x : name) : Prop := y = x \/ dchain tasks y x.

Section Serial.
Variable tasks : name -> option task.
Variable wake_rank : name -> name -> N.
Variable calc_rank : name -> N.
Variable continue_ always : bool.
Variables (fuel : nat) (sel : list name).
Notation tr := (fst (run_serial tasks wake_rank calc_rank continue_ always fuel sel)).

(* every final report of a task downstream of a badly ended task is `ignored' or `unmet dependency' *)
Theorem serial_chain_report t x e et :
  dchain tasks t x -> In e tr -> is_final_ev x e = true -> is_good_ev e = false ->
  In et tr -> is_final_ev t et = true -> et = ESkipIgnore t \/ et = EFailure t kind_unmet.
Proof.
  intros Hc He Hf Hb Het Hft.
  destruct (serial_outcome_sound tasks wake_rank calc_rank continue_ always fuel sel x e He Hf) as (rx & Hx & ->).
  destruct (serial_outcome_sound tasks wake_rank calc_rank continue_ always fuel sel t et Het Hft) as (rt & Ht & ->).
  apply contained_ev. exact (fin_chain_bad tasks always t x Hc rx Hx (bad_ev_bad_res x rx Hb) rt Ht).
Qed.

Theorem serial_chain_never_runs t y x e :
  eff_dep tasks t y -> reaches tasks y x ->
  In e tr -> is_final_ev x e = true -> is_good_ev e = false -> ~ In (EExecute t) tr.
Proof.
  intros Hty [->|Hc] He Hf Hb.
  - exact (serial_bad_dep_never_runs tasks wake_rank calc_rank continue_ always fuel sel t x e Hty He Hf Hb).
  - intros Hex. apply in_split in Hex. destruct Hex as (pre & post & E).
    pose proof (cordered_split tasks _ (serial_contained tasks wake_rank calc_rank continue_ always fuel sel) pre t post E y Hty)
      as (ey & Hin & Hfy & Hgy).
    assert (Hin' : In ey tr) by (rewrite E; apply in_or_app; left; exact Hin).
    destruct (serial_chain_report y x e ey Hc He Hf Hb Hin' Hfy) as [->| ->]; discriminate.
Qed.
End Serial.
Print Assumptions serial_chain_report.
Print Assumptions serial_chain_never_runs.

Section Par.
Variable tasks : name -> option task.
Variable wake_rank : name -> name -> N.
Variable calc_rank : name -> N.
Variable continue_ always proc : bool.
Variables (fuel nprocs : nat) (sched : list nat) (sel : list name).
Notation log := (fst (run_parallel tasks wake_rank calc_rank continue_ always proc fuel nprocs sched sel)).

Theorem parallel_chain_report t x e et :
  dchain tasks t x -> In (PE e) log -> is_final_ev x e = true -> is_good_ev e = false ->
  In (PE et) log -> is_final_ev t et = true -> et = ESkipIgnore t \/ et = EFailure t kind_unmet.
Proof.
  intros Hc He Hf Hb Het Hft.
  destruct (parallel_outcome_sound tasks wake_rank calc_rank continue_ always proc fuel nprocs sched sel x e He Hf) as (rx & Hx & ->).
  destruct (parallel_outcome_sound tasks wake_rank calc_rank continue_ always proc fuel nprocs sched sel t et Het Hft) as (rt & Ht & ->).
  apply contained_ev. exact (fin_chain_bad tasks always t x Hc rx Hx (bad_ev_bad_res x rx Hb) rt Ht).
Qed.

Lemma in_proj_PE l e : In e (proj l) -> In (PE e) l.
Proof.
  unfold proj. intros H. apply in_flat_map in H. destruct H as (pe & Hin & He).
  destruct pe; simpl in He; try contradiction. destruct He as [->|[]]. exact Hin.
Qed.

Theorem parallel_chain_never_runs t w y x e :
  eff_dep tasks t y -> reaches tasks y x ->
  In (PE e) log -> is_final_ev x e = true -> is_good_ev e = false -> ~ In (PStart t w) log.
Proof.
  intros Hty [->|Hc] He Hf Hb.
  - exact (parallel_bad_dep_never_runs tasks wake_rank calc_rank continue_ always proc fuel nprocs sched sel t w x e Hty He Hf Hb).
  - intros Hex. apply in_split in Hex. destruct Hex as (pre & post & E).
    pose proof (pcordered_split tasks _ (parallel_contained tasks wake_rank calc_rank continue_ always proc fuel nprocs sched sel) pre t w post E y Hty)
      as (ey & Hin & Hfy & Hgy).
    assert (Hin' : In (PE ey) log) by (rewrite E; apply in_or_app; left; apply in_proj_PE; exact Hin).
    destruct (parallel_chain_report y x e ey Hc He Hf Hb Hin' Hfy) as [->| ->]; discriminate.
Qed.
End Par.
Print Assumptions parallel_chain_report.
Print Assumptions parallel_chain_never_runs.
