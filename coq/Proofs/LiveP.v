(* LiveP.v -- termination (TermP) + completeness (CompleteP) + no false diagnostic (AncP, HoldP):
   over a finite acyclic task table, with enough fuel, a serial run under --continue either is interrupted
   by an action (exit code 4) or reports every selected task. *)
From DoitV Require Import Base Dispatch Runner DispatchP DispatchInv RunnerTr RunnerP AncP HoldP CompleteP TermP.
Open Scope N_scope.

Theorem serial_acyclic_continue_all_reported tasks univ selection :
  finite_table tasks univ -> (forall k, ~ reach tasks k k) ->
  forall wake_rank calc_rank always fuel, (enough_fuel tasks univ selection <= fuel)%nat ->
  let res := run_serial tasks wake_rank calc_rank true always fuel selection in
  snd res = 4 \/ (snd res <= 2 /\ forall x, In x selection -> finished_in (fst res) x).
Proof.
  intros Hf Hac wake_rank calc_rank always fuel Hfuel. cbv zeta.
  pose proof (serial_acyclic_completes tasks univ selection Hf Hac wake_rank calc_rank true always fuel Hfuel) as Hs.
  cbv zeta in Hs.
  pose proof (run_serial_complete_continue tasks wake_rank calc_rank true always fuel selection eq_refl) as Hc.
  unfold run_serial in *.
  destruct (serial tasks wake_rank calc_rank true always fuel (r_init selection) None) as [r' s] eqn:E.
  simpl in *. destruct Hs as [->|[k ->]].
  - right. simpl in *.
    assert (F : FI r') by (eapply (serial_FI tasks wake_rank calc_rank true always); [|exact E]; split; simpl; [lia|reflexivity]).
    destruct F as [F _]. split; [exact F|]. apply Hc. exact F.
  - left. reflexivity.
Qed.
