(* RunnerP.v -- the serial runner: every task starts only after all its dependencies finished. *)
From DoitV Require Import Base Dispatch Runner DispatchP DispatchInv RunnerTr.
Open Scope N_scope.

(* ---------- traces ---------- *)
Definition is_final_ev (x : name) (e : event) : bool :=
  match e with
  | ESuccess k | ESkipUpToDate k | ESkipIgnore k | EFailure k _ => N.eqb x k
  | _ => false end.
Definition finished_in (tr : list event) (x : name) : Prop := existsb (is_final_ev x) tr = true.
Definition is_exec (e : event) : bool := match e with EExecute _ => true | _ => false end.

Lemma finished_in_app tr evs x : finished_in tr x -> finished_in (tr ++ evs) x.
Proof. unfold finished_in. rewrite existsb_app. intros ->. reflexivity. Qed.
Lemma finished_in_app_r tr evs x : existsb (is_final_ev x) evs = true -> finished_in (tr ++ evs) x.
Proof. unfold finished_in. rewrite existsb_app. intros ->. apply orb_true_r. Qed.

Section R.
Variable tasks : name -> option task.
Variable wake_rank : name -> name -> N.
Variable calc_rank : name -> N.
Variable continue_ always : bool.

Notation node_of := (node_of tasks).
Notation st_of := (st_of tasks).
Notation get_task := (get_task tasks).
Notation set_status := (set_status tasks).
Notation select_task := (select_task tasks continue_ always).
Notation handle_error := (handle_error tasks continue_).
Notation start_task := (start_task tasks).
Notation process_result := (process_result tasks continue_).
Notation serial := (serial tasks wake_rank calc_rank continue_ always).
Notation Inv := (Inv tasks).
Notation AllRes := (AllRes tasks).
Notation Pre := (Pre tasks).
Notation final := (final tasks).

(* the dependencies a task declares: task_dep (explicit, wild-card, implicit through targets,
   result_dep / delayed-loader deps), calc_dep, setup (explicit, getargs) *)
Definition static_deps (t : name) : list name :=
  t_task_dep (get_task t) ++ t_calc_dep (get_task t) ++ t_setup (get_task t).

(* traces are built by appending: the natural induction principle *)
Inductive ordered : list event -> Prop :=
| o_nil : ordered []
| o_snoc tr e : ordered tr ->
    (forall t, e = EExecute t -> forall x, In x (static_deps t) -> finished_in tr x) ->
    ordered (tr ++ [e]).

Lemma ordered_app_noexec tr evs : ordered tr -> forallb (fun e => negb (is_exec e)) evs = true -> ordered (tr ++ evs).
Proof.
  revert tr. induction evs as [|e evs IH]; intros tr Ho Hn; simpl in *.
  - rewrite app_nil_r. exact Ho.
  - apply andb_true_iff in Hn. destruct Hn as [He Hn].
    replace (tr ++ e :: evs) with ((tr ++ [e]) ++ evs) by (rewrite <- app_assoc; reflexivity).
    apply IH; auto. constructor; auto. intros t ->. discriminate.
Qed.

(* the split form used in the property statement *)
Lemma ordered_split tr : ordered tr ->
  forall pre t post, tr = pre ++ EExecute t :: post -> forall x, In x (static_deps t) -> finished_in pre x.
Proof.
  induction 1 as [|tr e Ho IH He]; intros pre t post E x Hx.
  - destruct pre; discriminate.
  - destruct post as [|p post'] using rev_ind.
    + replace (pre ++ [EExecute t]) with (pre ++ [EExecute t]) in E by reflexivity.
      apply app_inj_tail in E. destruct E as [-> ->]. eapply He; eauto.
    + clear IHpost'. rewrite app_comm_cons, app_assoc in E. apply app_inj_tail in E. destruct E as [-> _].
      eapply IH; eauto.
Qed.

(* every FINAL report of a task (success, failure, up-to-date, ignored) comes after the final
   reports of everything the task declares in task_dep / calc_dep *)
Definition deps12 (t : name) : list name := t_task_dep (get_task t) ++ t_calc_dep (get_task t).

Inductive fordered : list event -> Prop :=
| fo_nil : fordered []
| fo_snoc tr e : fordered tr ->
    (forall k, is_final_ev k e = true -> forall x, In x (deps12 k) -> finished_in tr x) ->
    fordered (tr ++ [e]).

Lemma about_final k e k' : about k e -> is_final_ev k' e = true -> k' = k.
Proof. destruct e; simpl; intros H E; try discriminate; apply N.eqb_eq in E; congruence. Qed.

Lemma fordered_app_about tr k evs :
  fordered tr -> (forall x, In x (deps12 k) -> finished_in tr x) -> Forall (about k) evs -> fordered (tr ++ evs).
Proof.
  revert tr. induction evs as [|e evs IH]; intros tr Hf Hd Ha.
  - rewrite app_nil_r. exact Hf.
  - inversion Ha; subst.
    replace (tr ++ e :: evs) with ((tr ++ [e]) ++ evs) by (rewrite <- app_assoc; reflexivity).
    apply IH; auto.
    + constructor; auto. intros k' Hk x Hx. rewrite (about_final k e k' H1 Hk) in Hx. apply Hd. exact Hx.
    + intros x Hx. apply finished_in_app. apply Hd. exact Hx.
Qed.

Lemma fordered_app_nofinal tr evs :
  fordered tr -> (forall e k, In e evs -> is_final_ev k e = false) -> fordered (tr ++ evs).
Proof.
  revert tr. induction evs as [|e evs IH]; intros tr Hf Hn.
  - rewrite app_nil_r. exact Hf.
  - replace (tr ++ e :: evs) with ((tr ++ [e]) ++ evs) by (rewrite <- app_assoc; reflexivity).
    apply IH.
    + constructor; auto. intros k Hk. rewrite (Hn e k) in Hk; [discriminate|left; reflexivity].
    + intros e0 k0 H0. apply Hn. right. exact H0.
Qed.

Lemma fordered_split tr : fordered tr ->
  forall pre e post k, tr = pre ++ e :: post -> is_final_ev k e = true ->
  forall x, In x (deps12 k) -> finished_in pre x.
Proof.
  induction 1 as [|tr e0 Ho IH He]; intros pre e post k E Hk x Hx.
  - destruct pre; discriminate.
  - destruct post as [|p post'] using rev_ind.
    + apply app_inj_tail in E. destruct E as [-> ->]. eapply He; eauto.
    + clear IHpost'. rewrite app_comm_cons, app_assoc in E. apply app_inj_tail in E. destruct E as [-> _].
      eapply IH; eauto.
Qed.

(* ---------- the runner invariant ---------- *)
Definition Static (d : dstate) : Prop :=
  forall z, incl (t_task_dep (get_task z)) (n_all_task (node_of d z)) /\
            incl (t_calc_dep (get_task z)) (n_all_calc (node_of d z)).

Record RI (d : dstate) (tr : list event) : Prop := {
  ri_inv : Inv d;
  ri_res : AllRes d;
  ri_q : QInv d;
  ri_static : Static d;
  ri_link : forall x, final d x -> finished_in tr x;
  ri_ord : ordered tr
}.

Lemma Static_grows d d' : Static d -> all_grows tasks d d' -> Static d'.
Proof.
  intros S G z. destruct (S z) as [A B]. destruct (G z) as [C D].
  split; eapply incl_tran; eauto.
Qed.

Lemma RI_disp d d' tr y : RI d tr -> disp_post tasks d d' y -> RI d' tr.
Proof.
  intros [I A Q S L O] (I' & A' & Q' & St & G & _ & _). split; auto.
  - eapply Static_grows; eauto.
  - intros x Hx. apply L. unfold DispatchInv.final in *. rewrite <- St. exact Hx.
Qed.

(* changing the status of a task that was already handed to the runner *)
Lemma set_status_RI d tr k s evs :
  RI d tr ->
  early (n_pc (node_of d k)) = false ->
  (unfinished s = true -> unfinished (st_of d k) = true) ->
  (unfinished s = false -> existsb (is_final_ev k) evs = true) ->
  forallb (fun e => negb (is_exec e)) evs = true ->
  RI (set_status d k s) (tr ++ evs).
Proof.
  intros [I A Q S L O] He Hun Hfin Hne. unfold Runner.set_status.
  set (nd := node_of d k). set (d' := set_node d k (nd_st nd s)).
  assert (Hst : forall x, st_of d' x = if N.eqb x k then s else st_of d x).
  { intro x. unfold d'. rewrite st_set_node. reflexivity. }
  assert (Hm : mono tasks d d').
  { intros x Hx. unfold DispatchInv.final in *. rewrite Hst. destruct (N.eqb_spec x k) as [->|]; auto.
    destruct (unfinished s) eqn:E; auto. rewrite (Hun eq_refl) in Hx. discriminate. }
  assert (Hnode : forall z, z <> k -> node_of d' z = node_of d z)
    by (intros z Hz; unfold d'; apply node_of_set_other; auto).
  split.
  - intros z ndz Hz. unfold d' in Hz. destruct (N.eqb_spec z k) as [->|Hne'].
    + rewrite nodes_set_same in Hz. inversion Hz; subst.
      destruct (node_of_ok tasks d k I) as [H1 H2 H3 H4 H5]. fold nd in H1, H2, H3, H4, H5.
      split; simpl; auto.
      * intros x Hx. destruct (H1 x Hx) as [H|[H|[H|H]]]; auto.
      * intros E x Hx. destruct (H3 E x Hx); auto.
      * fold nd in He. rewrite He. discriminate.
    + rewrite nodes_set_other in Hz by auto. eapply node_ok_mono; eauto.
  - intros z Hz. unfold resumable in *. destruct (N.eqb_spec z k) as [->|Hne'].
    + unfold d'. rewrite node_of_set_same. simpl. apply (A k). exact Hz.
    + rewrite Hnode by auto. apply A. exact Hz.
  - destruct Q as [q1 q2 q3 q4]. split; auto. intros z Hz. unfold d'. apply nodes_set_ex. apply q4. exact Hz.
  - intros z. destruct (N.eqb_spec z k) as [->|Hne'].
    + unfold d'. rewrite node_of_set_same. simpl. apply S.
    + rewrite Hnode by auto. apply S.
  - intros x Hx.
    assert (Hx' : unfinished (if N.eqb x k then s else st_of d x) = false) by (rewrite <- Hst; exact Hx).
    destruct (N.eqb x k) eqn:E.
    + apply N.eqb_eq in E. subst x. apply finished_in_app_r. apply Hfin. exact Hx'.
    + apply finished_in_app. apply L. exact Hx'.
  - apply ordered_app_noexec; auto.
Qed.

Lemma RI_emit d tr evs :
  RI d tr -> forallb (fun e => negb (is_exec e)) evs = true -> RI d (tr ++ evs).
Proof.
  intros [I A Q S L O] Hn. split; auto.
  - intros x Hx. apply finished_in_app. apply L. exact Hx.
  - apply ordered_app_noexec; auto.
Qed.

Lemma set_status_pc d k s z : n_pc (node_of (set_status d k s) z) = n_pc (node_of d z).
Proof.
  unfold Runner.set_status. destruct (N.eqb_spec z k) as [->|Hne].
  - rewrite node_of_set_same. reflexivity.
  - rewrite node_of_set_other by auto. reflexivity.
Qed.
Lemma set_status_st d k s z : st_of (set_status d k s) z = if N.eqb z k then s else st_of d z.
Proof. unfold Runner.set_status. apply st_set_node. Qed.
Lemma set_status_cur d k s : d_cur (set_status d k s) = d_cur d.
Proof. reflexivity. Qed.

(* what the dispatcher guarantees about the task it hands over *)
Record handed (d : dstate) (k : name) : Prop := {
  h_deps : deps_final tasks d k;
  h_setup : n_pc (node_of d k) = PDone -> setup_final tasks d k;
  h_pc : n_pc (node_of d k) = PAfterSelf \/ n_pc (node_of d k) = PDone;
  h_first : n_pc (node_of d k) = PAfterSelf -> st_of d k = SNone;
  h_pre : PreX tasks d k
}.

Lemma handed_early d k : handed d k -> early (n_pc (node_of d k)) = false.
Proof. intros H. destruct (h_pc _ _ H) as [E|E]; rewrite E; reflexivity. Qed.

Lemma Pre_after d d' k :
  PreX tasks d k -> (forall z, n_pc (node_of d' z) = n_pc (node_of d z)) ->
  (forall z, z <> k -> st_of d' z = st_of d z) -> st_of d' k <> SNone -> Pre d'.
Proof.
  intros HP Hpc Hst Hk z Hz. destruct (N.eqb_spec z k) as [->|Hne]; auto.
  rewrite Hst by auto. apply HP; auto. rewrite <- Hpc. exact Hz.
Qed.

(* the static dependencies of a handed-over task are all finished *)
Lemma handed_static_final d k :
  Static d -> handed d k ->
  forall x, In x (t_task_dep (get_task k) ++ t_calc_dep (get_task k)) -> final d x.
Proof.
  intros S H x Hx. apply (h_deps _ _ H). destruct (S k) as [A B].
  rewrite in_app_iff in *. destruct Hx as [Hx|Hx]; [left; apply A|right; apply B]; exact Hx.
Qed.

Definition sel_post (d : dstate) (k : name) (b : bool) (r1 : rstate) : Prop :=
  RI (r_d r1) (r_tr r1) /\ Pre (r_d r1) /\ st_of (r_d r1) k <> SNone /\
  (forall z, n_pc (node_of (r_d r1) z) = n_pc (node_of d z)) /\
  d_cur (r_d r1) = d_cur d /\
  (b = true -> forall x, In x (static_deps k) -> finished_in (r_tr r1) x).

Lemma handle_error_gen_post st r k kind :
  unfinished st = false -> st <> SNone ->
  RI (r_d r) (r_tr r) -> early (n_pc (node_of (r_d r) k)) = false -> PreX tasks (r_d r) k ->
  sel_post (r_d r) k false (handle_error_gen tasks continue_ st r k kind).
Proof.
  intros Hst Hsn HR He HPx. unfold Runner.handle_error_gen. simpl.
  split; [|split; [|split; [|split; [|split]]]]; simpl.
  - apply set_status_RI; auto.
    + rewrite Hst. discriminate.
    + intros _. simpl. rewrite N.eqb_refl. reflexivity.
  - eapply Pre_after; [exact HPx|intro z; apply set_status_pc| |].
    + intros z Hz. rewrite set_status_st. apply N.eqb_neq in Hz. rewrite Hz. reflexivity.
    + rewrite set_status_st, N.eqb_refl. exact Hsn.
  - rewrite set_status_st, N.eqb_refl. exact Hsn.
  - intro z. apply set_status_pc.
  - reflexivity.
  - discriminate.
Qed.

Lemma handle_error_post r k kind :
  RI (r_d r) (r_tr r) -> early (n_pc (node_of (r_d r) k)) = false -> PreX tasks (r_d r) k ->
  sel_post (r_d r) k false (handle_error r k kind).
Proof. apply handle_error_gen_post; [reflexivity|discriminate]. Qed.

Lemma skip_post r k s ev :
  RI (r_d r) (r_tr r) -> early (n_pc (node_of (r_d r) k)) = false -> PreX tasks (r_d r) k ->
  unfinished s = false -> s <> SNone -> is_final_ev k ev = true -> is_exec ev = false ->
  sel_post (r_d r) k false (emit (with_d r (set_status (r_d r) k s)) [ev]).
Proof.
  intros HR He HPx Hs Hn Hev Hex. unfold emit, with_d. simpl.
  split; [|split; [|split; [|split; [|split]]]]; simpl.
  - apply set_status_RI; auto.
    + rewrite Hs. discriminate.
    + intros _. simpl. rewrite Hev. reflexivity.
    + simpl. rewrite Hex. reflexivity.
  - eapply Pre_after; [exact HPx|intro z; apply set_status_pc| |].
    + intros z Hz. rewrite set_status_st. apply N.eqb_neq in Hz. rewrite Hz. reflexivity.
    + rewrite set_status_st, N.eqb_refl. exact Hn.
  - rewrite set_status_st, N.eqb_refl. exact Hn.
  - intro z. apply set_status_pc.
  - reflexivity.
  - discriminate.
Qed.

Lemma PreX_set_status d k s : PreX tasks d k -> PreX tasks (set_status d k s) k.
Proof.
  intros H z Hz Hpc. rewrite set_status_st. apply N.eqb_neq in Hz. rewrite Hz.
  apply H; [apply N.eqb_neq; exact Hz|]. rewrite <- (set_status_pc d k s). exact Hpc.
Qed.

(* get_args after the status is known *)
Lemma get_args_post r k b r1 (d0 : dstate) :
  RI (r_d r) (r_tr r) -> early (n_pc (node_of (r_d r) k)) = false -> PreX tasks (r_d r) k ->
  st_of (r_d r) k <> SNone ->
  (forall z, n_pc (node_of (r_d r) z) = n_pc (node_of d0 z)) -> d_cur (r_d r) = d_cur d0 ->
  (forall x, In x (static_deps k) -> finished_in (r_tr r) x) ->
  get_args tasks continue_ r k = (b, r1) -> sel_post d0 k b r1.
Proof.
  intros HR He HPx Hst Hpc Hcur Hdeps Hg. unfold Runner.get_args in Hg.
  destruct (t_argerr (get_task k)); inversion Hg; subst.
  - destruct (handle_error_post r k kind_dep HR He HPx) as (A & B & C & D & E & F).
    split; auto. split; auto. split; auto. split; [intro z; rewrite D; apply Hpc|]. split; [congruence|exact F].
  - split; auto. split; [|split; [exact Hst|split; [exact Hpc|split; [exact Hcur|intros _; exact Hdeps]]]].
    intros z Hz. destruct (N.eqb_spec z k) as [->|Hne]; [exact Hst|]. apply HPx; auto.
Qed.

Lemma select_task_post r k b r1 :
  RI (r_d r) (r_tr r) -> handed (r_d r) k ->
  select_task r k = (b, r1) -> sel_post (r_d r) k b r1.
Proof.
  intros HR HK Hs. unfold Runner.select_task in Hs.
  set (d := r_d r) in *.
  pose proof (handed_early _ _ HK) as He. pose proof (h_pre _ _ HK) as HPx.
  assert (HRe : RI (r_d (emit r [EGetStatus k])) (r_tr (emit r [EGetStatus k])))
    by (unfold emit; simpl; apply RI_emit; auto).
  (* dependencies that were declared, as seen in the trace so far *)
  assert (Hdeps12 : forall x, In x (t_task_dep (get_task k) ++ t_calc_dep (get_task k)) -> finished_in (r_tr r) x).
  { intros x Hx. apply (ri_link _ _ HR). eapply handed_static_final; eauto. apply (ri_static _ _ HR). }
  assert (Hlater : n_st (node_of d k) <> SNone ->
     (if negb (is_nil (n_ign (node_of d k)))
      then (false, emit (with_d r (set_status (r_d r) k SIgnore)) [ESkipIgnore k])
      else if negb (is_nil (n_bad (node_of d k))) then (false, handle_error r k kind_unmet)
      else get_args tasks continue_ r k) = (b, r1) -> sel_post d k b r1).
  { intros Hst Hq.
    assert (Hpd : n_pc (node_of d k) = PDone).
    { destruct (h_pc _ _ HK) as [E|E]; auto. exfalso. apply Hst. apply (h_first _ _ HK E). }
    destruct (negb (is_nil (n_ign (node_of d k)))).
    { inversion Hq; subst. apply (skip_post r k SIgnore (ESkipIgnore k)); auto; try discriminate.
      simpl. apply N.eqb_refl. }
    destruct (negb (is_nil (n_bad (node_of d k)))).
    { inversion Hq; subst. apply (handle_error_post r k kind_unmet); auto. }
    apply (get_args_post r k b r1 d); auto.
    intros x Hx. unfold static_deps in Hx. rewrite app_assoc in Hx. apply in_app_iff in Hx. destruct Hx as [Hx|Hx].
    - apply Hdeps12. exact Hx.
    - apply (ri_link _ _ HR). apply (h_setup _ _ HK Hpd). exact Hx. }
  destruct (n_st (node_of d k)) eqn:Est.
  - (* first selection *)
    destruct (negb (is_nil (n_ign (node_of d k))) || t_dbignore (get_task k)).
    { inversion Hs; subst.
      apply (skip_post (emit r [EGetStatus k]) k SIgnore (ESkipIgnore k)); auto; try discriminate.
      simpl. apply N.eqb_refl. }
    destruct (negb (is_nil (n_bad (node_of d k)))).
    { inversion Hs; subst. apply (handle_error_post (emit r [EGetStatus k]) k kind_unmet); auto. }
    assert (Hrun :
       (if is_nil (t_setup (get_task k))
        then get_args tasks continue_ (with_d (emit r [EGetStatus k]) (set_status (r_d (emit r [EGetStatus k])) k SRun)) k
        else (false, with_d (emit r [EGetStatus k]) (set_status (r_d (emit r [EGetStatus k])) k SRun))) = (b, r1) ->
       sel_post d k b r1).
    { intros Hq.
      set (r2 := with_d (emit r [EGetStatus k]) (set_status (r_d (emit r [EGetStatus k])) k SRun)) in *.
      assert (HR2 : RI (r_d r2) (r_tr r2)).
      { unfold r2, with_d, emit. simpl.
        rewrite <- (app_nil_r (r_tr r ++ [EGetStatus k])).
        apply set_status_RI; [exact HRe|exact He| |discriminate|reflexivity].
        intros _. unfold Dispatch.st_of. fold d. rewrite Est. reflexivity. }
      assert (Hpc2 : forall z, n_pc (node_of (r_d r2) z) = n_pc (node_of d z))
        by (intro z; unfold r2, with_d, emit; simpl; apply set_status_pc).
      assert (Hst2 : st_of (r_d r2) k <> SNone)
        by (unfold r2, with_d, emit; simpl; rewrite set_status_st, N.eqb_refl; discriminate).
      assert (HPx2 : PreX tasks (r_d r2) k) by (unfold r2, with_d, emit; simpl; apply PreX_set_status; exact HPx).
      destruct (is_nil (t_setup (get_task k))) eqn:Esetup.
      - apply (get_args_post r2 k b r1 d); auto.
        + rewrite Hpc2. exact He.
        + intros x Hx. unfold static_deps in Hx. apply is_nil_true in Esetup. rewrite Esetup, app_nil_r in Hx.
          unfold r2, with_d, emit. simpl. apply finished_in_app. apply Hdeps12. exact Hx.
      - inversion Hq; subst. split; auto. split; [|split; [exact Hst2|split; [exact Hpc2|split; [reflexivity|discriminate]]]].
        intros z Hz. destruct (N.eqb_spec z k) as [->|Hne]; [exact Hst2|]. apply HPx2; auto. }
    destruct (t_check (get_task k)) eqn:Eck.
    + destruct always; apply Hrun; exact Hs.
    + destruct always; [apply Hrun; exact Hs|]. inversion Hs; subst.
      apply (skip_post (emit r [EGetStatus k]) k SUpToDate (ESkipUpToDate k)); auto; try discriminate.
      simpl. apply N.eqb_refl.
    + inversion Hs; subst. apply (handle_error_post (emit r [EGetStatus k]) k kind_dep); auto.
  - apply Hlater; [discriminate|exact Hs].
  - apply Hlater; [discriminate|exact Hs].
  - apply Hlater; [discriminate|exact Hs].
  - apply Hlater; [discriminate|exact Hs].
  - apply Hlater; [discriminate|exact Hs].
  - apply Hlater; [discriminate|exact Hs].
Qed.

Lemma select_first_true r k r1 :
  n_st (node_of (r_d r) k) = SNone -> select_task r k = (true, r1) -> is_nil (t_setup (get_task k)) = true.
Proof.
  intros Est E. unfold Runner.select_task in E. rewrite Est in E.
  destruct (negb (is_nil (n_ign (node_of (r_d r) k))) || t_dbignore (get_task k)); [discriminate|].
  destruct (negb (is_nil (n_bad (node_of (r_d r) k)))); [discriminate|].
  destruct (t_check (get_task k)); destruct always; cbv beta iota zeta in E; try discriminate;
    destruct (is_nil (t_setup (get_task k))); auto; discriminate.
Qed.

Lemma select_true_spent r k r1 :
  RI (r_d r) (r_tr r) -> handed (r_d r) k -> select_task r k = (true, r1) -> spent tasks (r_d r1) k.
Proof.
  intros HR HK E. destruct (select_task_post r k true r1 HR HK E) as (_ & _ & _ & Pc & _ & _).
  unfold spent. rewrite Pc. destruct (h_pc _ _ HK) as [Hp|Hp]; [|left; exact Hp].
  right. split; auto. eapply select_first_true; [|exact E]. apply (h_first _ _ HK Hp).
Qed.

(* ---------- no task is executed twice ---------- *)
Record XI (d : dstate) (tr : list event) : Prop := {
  xi_spent : forall k, In k (execs tr) -> spent tasks d k;
  xi_nodup : NoDup (execs tr)
}.

Lemma XI_pc d d' tr : XI d tr -> (forall z, spent tasks d z -> spent tasks d' z) -> XI d' tr.
Proof. intros [A B] H. split; auto. Qed.

(* ---------- execution ---------- *)
Lemma start_task_RI r k :
  RI (r_d r) (r_tr r) -> (forall x, In x (static_deps k) -> finished_in (r_tr r) x) ->
  RI (r_d (start_task r k)) (r_tr (start_task r k)).
Proof.
  intros [I A Q S L O] Hd. unfold Runner.start_task. simpl. split; auto.
  - intros x Hx. apply finished_in_app. apply L. exact Hx.
  - constructor; auto. intros t E x Hx. inversion E; subst. apply Hd. exact Hx.
Qed.

Lemma process_result_post r k :
  RI (r_d r) (r_tr r) -> early (n_pc (node_of (r_d r) k)) = false -> PreX tasks (r_d r) k ->
  let r' := process_result r k in
  RI (r_d r') (r_tr r') /\ Pre (r_d r') /\ st_of (r_d r') k <> SNone \/ t_outcome (get_task k) = OInterrupt.
Proof.
  intros HR He HPx. cbv zeta. unfold Runner.process_result.
  destruct (t_outcome (get_task k)) eqn:Eo; [| | | |right; reflexivity|]; left.
  - destruct (skip_post r k SSuccess (ESuccess k) HR He HPx) as (A & B & C & _); try discriminate; try reflexivity.
    + simpl. apply N.eqb_refl.
    + (* the trace carries ESave too *)
      unfold emit, with_d in *. simpl in *. split; [|split; auto].
      destruct A as [a1 a2 a3 a4 a5 a6].
      assert (HRI : RI (set_status (r_d r) k SSuccess) (r_tr r ++ [ESave k; ESuccess k])).
      { apply set_status_RI; auto; try discriminate. intros _. simpl. rewrite N.eqb_refl. reflexivity. }
      exact HRI.
  - destruct (handle_error_post r k kind_failed HR He HPx) as (A & B & C & _). auto.
  - destruct (handle_error_post r k kind_error HR He HPx) as (A & B & C & _). auto.
  - destruct (handle_error_gen_post SFailureV r k kind_dep eq_refl ltac:(discriminate) HR He HPx) as (A & B & C & _). auto.
  - destruct (handle_error_gen_post SFailureV r k kind_failed eq_refl ltac:(discriminate) HR He HPx) as (A & B & C & _). auto.
Qed.

Lemma noexec_teardowns l : forallb (fun e => negb (is_exec e)) (map ETeardown l) = true.
Proof. induction l; simpl; auto. Qed.

Lemma finish_ordered r : ordered (r_tr r) -> ordered (r_tr (finish r)).
Proof.
  intros H. unfold finish, emit. simpl. apply ordered_app_noexec; auto. simpl. apply noexec_teardowns.
Qed.

Lemma handed_of_post d d' k : disp_post tasks d d' (DTask k) -> handed d' k /\ d_cur d' = Some k /\ ~ spent tasks d k.
Proof.
  intros (_ & _ & _ & _ & _ & _ & N & C & D1 & D2 & D3 & D4 & D5). split; [split; auto|auto].
Qed.

Lemma process_result_pc r k z :
  n_pc (node_of (r_d (process_result r k)) z) = n_pc (node_of (r_d r) z).
Proof.
  unfold Runner.process_result. destruct (t_outcome (get_task k)); simpl; auto; apply set_status_pc.
Qed.
Lemma process_result_execs r k : execs (r_tr (process_result r k)) = execs (r_tr r).
Proof.
  unfold Runner.process_result. destruct (t_outcome (get_task k)); simpl; auto;
    rewrite execs_app; simpl; rewrite app_nil_r; reflexivity.
Qed.

Lemma finish_execs r : execs (r_tr (finish r)) = execs (r_tr r).
Proof.
  unfold finish, emit. simpl. rewrite execs_app. simpl.
  assert (H : execs (map ETeardown (rev (r_td r))) = []) by (induction (rev (r_td r)); simpl; auto).
  rewrite H, app_nil_r. reflexivity.
Qed.

Lemma process_result_about r k :
  exists evs, r_tr (process_result r k) = r_tr r ++ evs /\ Forall (about k) evs.
Proof.
  unfold Runner.process_result. destruct (t_outcome (get_task k)); simpl;
    try (eexists; split; [reflexivity|repeat constructor]).
  exists []. rewrite app_nil_r. split; auto.
Qed.

Lemma finish_fordered r : fordered (r_tr r) -> fordered (r_tr (finish r)).
Proof.
  intros H. unfold finish, emit. simpl. apply fordered_app_nofinal; auto.
  intros e k [<-|Hin]; [reflexivity|]. apply in_map_iff in Hin. destruct Hin as [y [<- _]]. reflexivity.
Qed.

Lemma serial_inv fuel : forall r last,
  RI (r_d r) (r_tr r) -> XI (r_d r) (r_tr r) -> fordered (r_tr r) -> Pre (r_d r) ->
  (forall k, last = Some k -> st_of (r_d r) k <> SNone) ->
  let r' := fst (serial fuel r last) in ordered (r_tr r') /\ NoDup (execs (r_tr r')) /\ fordered (r_tr r').
Proof.
  induction fuel as [|fuel IH]; intros r last HR HX HF HP Hl; cbn [Runner.serial]; cbv zeta.
  { simpl. split; [apply (ri_ord _ _ HR)|split; [apply (xi_nodup _ _ HX)|exact HF]]. }
  assert (Hfin : forall r0, RI (r_d r0) (r_tr r0) -> XI (r_d r0) (r_tr r0) -> fordered (r_tr r0) ->
                 ordered (r_tr (finish r0)) /\ NoDup (execs (r_tr (finish r0))) /\ fordered (r_tr (finish r0))).
  { intros r0 R0 X0 F0. split; [apply finish_ordered; apply (ri_ord _ _ R0)|split; [rewrite finish_execs; apply (xi_nodup _ _ X0)|apply finish_fordered; exact F0]]. }
  destruct (r_stop r). { cbn [fst]. apply Hfin; auto. }
  destruct (disp_send tasks wake_rank calc_rank (S fuel) (r_d r) last) as [y d] eqn:Ed.
  pose proof (disp_send_spec tasks wake_rank calc_rank _ _ _ _ _ (ri_inv _ _ HR) HP (ri_res _ _ HR) (ri_q _ _ HR) Hl Ed) as Hpost.
  pose proof (RI_disp _ _ _ _ HR Hpost) as HR'.
  assert (HX' : XI d (r_tr r)).
  { eapply XI_pc; [exact HX|]. destruct Hpost as (_ & _ & _ & _ & _ & Sp & _). exact Sp. }
  destruct y as [k| | |path|].
  - destruct (handed_of_post _ _ _ Hpost) as (HK & Hcur & Hns).
    destruct (select_task (with_d r d) k) as [b r1] eqn:Es.
    pose proof (select_task_post (with_d r d) k b r1 HR' HK Es) as (R1 & P1 & S1 & Pc1 & C1 & D1).
    pose proof (select_task_execs tasks continue_ always _ _ _ _ Es) as Ex1. simpl in Ex1.
    assert (X1 : XI (r_d r1) (r_tr r1)).
    { destruct HX' as [xa xb]. split; rewrite Ex1; auto. intros z Hz. eapply spent_pc; [apply Pc1|]. apply xa. exact Hz. }
    assert (Hd12 : forall x, In x (deps12 k) -> finished_in (r_tr r) x).
    { intros x Hx. apply (ri_link _ _ HR'). eapply handed_static_final; eauto. apply (ri_static _ _ HR'). }
    assert (F1 : fordered (r_tr r1)).
    { destruct (select_task_about tasks continue_ always _ _ _ _ Es) as [evs [Eq Ha]]. simpl in Eq. rewrite Eq.
      eapply fordered_app_about; eauto. }
    destruct b.
    + assert (R2 : RI (r_d (start_task r1 k)) (r_tr (start_task r1 k))) by (apply start_task_RI; auto).
      assert (F2 : fordered (r_tr (start_task r1 k))).
      { unfold Runner.start_task. simpl. apply fordered_app_nofinal; auto. intros e k0 [<-|[]]. reflexivity. }
      assert (Hk : ~ In k (execs (r_tr r))) by (intro H; apply Hns; apply (xi_spent _ _ HX); exact H).
      assert (X2 : XI (r_d (start_task r1 k)) (r_tr (start_task r1 k))).
      { unfold Runner.start_task. simpl. destruct X1 as [xa xb]. split; rewrite execs_app; simpl.
        - intros z Hz. apply in_app_iff in Hz. destruct Hz as [Hz|[<-|[]]]; auto.
          apply (select_true_spent (with_d r d) k r1 HR' HK Es).
        - rewrite Ex1 in *. apply NoDup_snoc; auto. }
      destruct (is_interrupt tasks k) eqn:Ei.
      * cbn [fst]. apply Hfin; auto.
      * assert (He2 : early (n_pc (node_of (r_d (start_task r1 k)) k)) = false).
        { unfold Runner.start_task. simpl. rewrite Pc1. apply (handed_early _ _ HK). }
        assert (HPx2 : PreX tasks (r_d (start_task r1 k)) k).
        { unfold Runner.start_task. simpl. intros z Hz Hpc. apply P1. exact Hpc. }
        destruct (process_result_post (start_task r1 k) k R2 He2 HPx2) as [(R3 & P3 & S3)|Hint].
        -- apply IH; auto.
           ++ destruct X2 as [xa xb]. split; rewrite process_result_execs; auto.
              intros z Hz. eapply spent_pc; [apply process_result_pc|]. apply xa. exact Hz.
           ++ destruct (process_result_about (start_task r1 k) k) as [evs [Eq Ha]]. rewrite Eq.
              eapply fordered_app_about; eauto. intros x Hx. unfold Runner.start_task. simpl.
              apply finished_in_app. apply D1; auto. unfold static_deps. unfold deps12 in Hx.
              rewrite app_assoc. apply in_app_iff. left. exact Hx.
           ++ intros k' E. inversion E; subst. exact S3.
        -- unfold Runner.is_interrupt in Ei. rewrite Hint in Ei. discriminate.
    + apply IH; auto. intros k' E. inversion E; subst. exact S1.
  - cbn [fst]. apply Hfin; auto.
  - cbn [fst]. apply Hfin; auto.
  - cbn [fst]. apply Hfin; auto.
  - cbn [fst]. split; [apply (ri_ord _ _ HR')|split; [apply (xi_nodup _ _ HX')|exact HF]].
Qed.

Lemma RI_init sel : RI (disp_init sel) [].
Proof.
  split.
  - intros me nd H. discriminate.
  - intros z [H|H]; [discriminate|destruct H].
  - split; simpl.
    + constructor.
    + intros z [].
    + intros z [].
    + intros z [[]|[[]|E]]. discriminate.
  - intro z. split; apply incl_refl.
  - intros x Hx. unfold DispatchInv.final in Hx. simpl in Hx. discriminate.
  - constructor.
Qed.

Lemma XI_init sel : XI (disp_init sel) [].
Proof. split; simpl; [intros k []|constructor]. Qed.

Lemma serial_init_inv fuel sel :
  let r' := fst (serial fuel (r_init sel) None) in ordered (r_tr r') /\ NoDup (execs (r_tr r')) /\ fordered (r_tr r').
Proof.
  apply serial_inv; simpl.
  - apply RI_init.
  - apply XI_init.
  - constructor.
  - intros z Hz. simpl in Hz. discriminate.
  - intros k E'. discriminate.
Qed.

Theorem serial_dep_order fuel sel :
  ordered (fst (run_serial tasks wake_rank calc_rank continue_ always fuel sel)).
Proof.
  unfold run_serial.
  pose proof (serial_init_inv fuel sel) as H. cbv zeta in H.
  destruct (serial fuel (r_init sel) None) as [r s] eqn:E. simpl in *.
  apply ordered_app_noexec; [apply H|destruct s; reflexivity].
Qed.

(* no task is executed twice in a run *)
Theorem serial_exec_once fuel sel :
  NoDup (execs (fst (run_serial tasks wake_rank calc_rank continue_ always fuel sel))).
Proof.
  unfold run_serial.
  pose proof (serial_init_inv fuel sel) as H. cbv zeta in H.
  destruct (serial fuel (r_init sel) None) as [r s] eqn:E. simpl in *.
  rewrite execs_app. replace (execs (stop_marker s)) with (@nil name) by (destruct s; reflexivity).
  rewrite app_nil_r. apply H.
Qed.

Theorem serial_final_order fuel sel :
  fordered (fst (run_serial tasks wake_rank calc_rank continue_ always fuel sel)).
Proof.
  unfold run_serial.
  pose proof (serial_init_inv fuel sel) as H. cbv zeta in H.
  destruct (serial fuel (r_init sel) None) as [r s] eqn:E. simpl in *.
  apply fordered_app_nofinal; [apply H|]. intros e k Hin. destruct s; simpl in Hin; try contradiction;
    destruct Hin as [<-|[]]; reflexivity.
Qed.

End R.
