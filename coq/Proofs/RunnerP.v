(* RunnerP.v -- the serial runner: every task starts only after all its dependencies finished. *)
From DoitV Require Import Base Dispatch Runner DispatchP DispatchInv RunnerTr.
Open Scope N_scope.

(* ---------- traces ---------- *)
Definition is_final_ev (x : name) (e : event) : bool :=
  match e with
  | ESuccess k | ESkipUpToDate k | ESkipIgnore k | EFailure k _ => N.eqb x k
  | _ => false end.
Definition finished_in (tr : list event) (x : name) : Prop := existsb (is_final_ev x) tr = true.
Definition is_exec (e : event) : bool := match e with EExecute _ => true | _ => false end.

Lemma finished_in_app tr evs x : finished_in tr x -> finished_in (tr ++ evs) x.
Proof. unfold finished_in. rewrite existsb_app. intros ->. reflexivity. Qed.
Lemma finished_in_app_r tr evs x : existsb (is_final_ev x) evs = true -> finished_in (tr ++ evs) x.
Proof. unfold finished_in. rewrite existsb_app. intros ->. apply orb_true_r. Qed.

(* at most one final report per task *)
Definition is_fin (e : event) : bool :=
  match e with ESuccess _ | ESkipUpToDate _ | ESkipIgnore _ | EFailure _ _ => true | _ => false end.
Lemma is_final_is_fin x e : is_final_ev x e = true -> is_fin e = true.
Proof. destruct e; simpl; auto. Qed.
Lemma finished_in_snoc tr e x : finished_in (tr ++ [e]) x <-> finished_in tr x \/ is_final_ev x e = true.
Proof. unfold finished_in. rewrite existsb_app. simpl. rewrite orb_false_r, orb_true_iff. reflexivity. Qed.

Inductive fonce : list event -> Prop :=
| fo1_nil : fonce []
| fo1_snoc tr e : fonce tr -> (forall x, is_final_ev x e = true -> ~ finished_in tr x) -> fonce (tr ++ [e]).

Lemma fonce_app evs : forall tr, fonce tr ->
  (forall e x, In e evs -> is_final_ev x e = true -> ~ finished_in tr x) ->
  (length (filter is_fin evs) <= 1)%nat -> fonce (tr ++ evs).
Proof.
  induction evs as [|e evs IH]; intros tr Hf Hn Hc.
  - rewrite app_nil_r. exact Hf.
  - replace (tr ++ e :: evs) with ((tr ++ [e]) ++ evs) by (rewrite <- app_assoc; reflexivity).
    apply IH.
    + constructor; auto. intros x Hx. apply (Hn e x); auto. left; reflexivity.
    + intros e' x Hin Hx Hfin. apply finished_in_snoc in Hfin. destruct Hfin as [Hfin|Hfin].
      * apply (Hn e' x); auto. right; exact Hin.
      * apply is_final_is_fin in Hfin. simpl in Hc. rewrite Hfin in Hc. simpl in Hc.
        assert (Hin' : In e' (filter is_fin evs)) by (apply filter_In; split; auto; eapply is_final_is_fin; eauto).
        destruct (filter is_fin evs); [destruct Hin'|simpl in Hc; lia].
    + simpl in Hc. destruct (is_fin e); simpl in Hc; lia.
Qed.

Lemma fonce_split tr : fonce tr ->
  forall pre e post x, tr = pre ++ e :: post -> is_final_ev x e = true -> ~ finished_in pre x.
Proof.
  induction 1 as [|tr e0 Ho IH He]; intros pre e post x E Hx.
  - destruct pre; discriminate.
  - destruct post as [|p post'] using rev_ind.
    + apply app_inj_tail in E. destruct E as [-> ->]. apply He. exact Hx.
    + clear IHpost'. rewrite app_comm_cons, app_assoc in E. apply app_inj_tail in E. destruct E as [-> _].
      eapply IH; eauto.
Qed.

(* the two-sided form: no other final report of the same task before or after *)
Lemma fonce_unique tr : fonce tr ->
  forall pre e post x, tr = pre ++ e :: post -> is_final_ev x e = true -> ~ finished_in pre x /\ ~ finished_in post x.
Proof.
  intros Hf pre e post x E Hx. split; [eapply fonce_split; eauto|].
  intros Hp. apply existsb_exists in Hp. destruct Hp as (e' & Hin & Hx').
  apply in_split in Hin. destruct Hin as (p1 & p2 & ->).
  apply (fonce_split tr Hf (pre ++ e :: p1) e' p2 x); auto.
  - rewrite E. rewrite <- app_assoc. reflexivity.
  - unfold finished_in. rewrite existsb_app. simpl. rewrite Hx. rewrite orb_true_r. reflexivity.
Qed.

(* with one final report per task, a task that has some not-good final report has no good one *)
Lemma fonce_two tr x e1 e2 : fonce tr -> In e1 tr -> In e2 tr ->
  is_final_ev x e1 = true -> is_final_ev x e2 = true -> e1 = e2.
Proof.
  intros Hf H1 H2 F1 F2. apply in_split in H1. destruct H1 as (p1 & p2 & ->).
  destruct (fonce_unique _ Hf p1 e1 p2 x eq_refl F1) as [A B].
  apply in_app_iff in H2. destruct H2 as [H2|[H2|H2]]; auto.
  - exfalso. apply A. apply existsb_exists. eauto.
  - exfalso. apply B. apply existsb_exists. eauto.
Qed.

Section R.
Variable tasks : name -> option task.
Variable wake_rank : name -> name -> N.
Variable calc_rank : name -> N.
Variable continue_ always : bool.

Notation node_of := (node_of tasks).
Notation st_of := (st_of tasks).
Notation get_task := (get_task tasks).
Notation set_status := (set_status tasks).
Notation select_task := (select_task tasks continue_ always).
Notation handle_error := (handle_error tasks continue_).
Notation start_task := (start_task tasks).
Notation process_result := (process_result tasks continue_).
Notation serial := (serial tasks wake_rank calc_rank continue_ always).
Notation Inv := (Inv tasks).
Notation AllRes := (AllRes tasks).
Notation Pre := (Pre tasks).
Notation final := (final tasks).

(* the dependencies a task declares: task_dep (explicit, wild-card, implicit through targets,
   result_dep / delayed-loader deps), calc_dep, setup (explicit, getargs) *)
Definition static_deps (t : name) : list name :=
  t_task_dep (get_task t) ++ t_calc_dep (get_task t) ++ t_setup (get_task t).

(* traces are built by appending: the natural induction principle *)
Inductive ordered : list event -> Prop :=
| o_nil : ordered []
| o_snoc tr e : ordered tr ->
    (forall t, e = EExecute t -> forall x, In x (static_deps t) -> finished_in tr x) ->
    ordered (tr ++ [e]).

Lemma ordered_app_noexec tr evs : ordered tr -> forallb (fun e => negb (is_exec e)) evs = true -> ordered (tr ++ evs).
Proof.
  revert tr. induction evs as [|e evs IH]; intros tr Ho Hn; simpl in *.
  - rewrite app_nil_r. exact Ho.
  - apply andb_true_iff in Hn. destruct Hn as [He Hn].
    replace (tr ++ e :: evs) with ((tr ++ [e]) ++ evs) by (rewrite <- app_assoc; reflexivity).
    apply IH; auto. constructor; auto. intros t ->. discriminate.
Qed.

(* the split form used in the property statement *)
Lemma ordered_split tr : ordered tr ->
  forall pre t post, tr = pre ++ EExecute t :: post -> forall x, In x (static_deps t) -> finished_in pre x.
Proof.
  induction 1 as [|tr e Ho IH He]; intros pre t post E x Hx.
  - destruct pre; discriminate.
  - destruct post as [|p post'] using rev_ind.
    + replace (pre ++ [EExecute t]) with (pre ++ [EExecute t]) in E by reflexivity.
      apply app_inj_tail in E. destruct E as [-> ->]. eapply He; eauto.
    + clear IHpost'. rewrite app_comm_cons, app_assoc in E. apply app_inj_tail in E. destruct E as [-> _].
      eapply IH; eauto.
Qed.

(* every FINAL report of a task (success, failure, up-to-date, ignored) comes after the final
   reports of everything the task declares in task_dep / calc_dep *)
Definition deps12 (t : name) : list name := t_task_dep (get_task t) ++ t_calc_dep (get_task t).

Inductive fordered : list event -> Prop :=
| fo_nil : fordered []
| fo_snoc tr e : fordered tr ->
    (forall k, is_final_ev k e = true -> forall x, In x (deps12 k) -> finished_in tr x) ->
    fordered (tr ++ [e]).

Lemma about_final k e k' : about k e -> is_final_ev k' e = true -> k' = k.
Proof. destruct e; simpl; intros H E; try discriminate; apply N.eqb_eq in E; congruence. Qed.

Lemma fordered_app_about tr k evs :
  fordered tr -> (forall x, In x (deps12 k) -> finished_in tr x) -> Forall (about k) evs -> fordered (tr ++ evs).
Proof.
  revert tr. induction evs as [|e evs IH]; intros tr Hf Hd Ha.
  - rewrite app_nil_r. exact Hf.
  - inversion Ha; subst.
    replace (tr ++ e :: evs) with ((tr ++ [e]) ++ evs) by (rewrite <- app_assoc; reflexivity).
    apply IH; auto.
    + constructor; auto. intros k' Hk x Hx. rewrite (about_final k e k' H1 Hk) in Hx. apply Hd. exact Hx.
    + intros x Hx. apply finished_in_app. apply Hd. exact Hx.
Qed.

Lemma fordered_app_nofinal tr evs :
  fordered tr -> (forall e k, In e evs -> is_final_ev k e = false) -> fordered (tr ++ evs).
Proof.
  revert tr. induction evs as [|e evs IH]; intros tr Hf Hn.
  - rewrite app_nil_r. exact Hf.
  - replace (tr ++ e :: evs) with ((tr ++ [e]) ++ evs) by (rewrite <- app_assoc; reflexivity).
    apply IH.
    + constructor; auto. intros k Hk. rewrite (Hn e k) in Hk; [discriminate|left; reflexivity].
    + intros e0 k0 H0. apply Hn. right. exact H0.
Qed.

Lemma fordered_split tr : fordered tr ->
  forall pre e post k, tr = pre ++ e :: post -> is_final_ev k e = true ->
  forall x, In x (deps12 k) -> finished_in pre x.
Proof.
  induction 1 as [|tr e0 Ho IH He]; intros pre e post k E Hk x Hx.
  - destruct pre; discriminate.
  - destruct post as [|p post'] using rev_ind.
    + apply app_inj_tail in E. destruct E as [-> ->]. eapply He; eauto.
    + clear IHpost'. rewrite app_comm_cons, app_assoc in E. apply app_inj_tail in E. destruct E as [-> _].
      eapply IH; eauto.
Qed.

(* ---------- the runner invariant ---------- *)
Definition Static (d : dstate) : Prop :=
  forall z, incl (t_task_dep (get_task z)) (n_all_task (node_of d z)) /\
            incl (t_calc_dep (get_task z)) (n_all_calc (node_of d z)).

(* a final report and the status the runner gives the task at that moment *)
Definition ev_matches (e : event) (s : status) : bool :=
  match e, s with
  | ESuccess _, SSuccess | ESkipUpToDate _, SUpToDate | ESkipIgnore _, SIgnore => true
  | EFailure _ _, SFailure | EFailure _ _, SFailureV => true
  | _, _ => false end.

Record RI (d : dstate) (tr : list event) : Prop := {
  ri_inv : Inv d;
  ri_res : AllRes d;
  ri_q : QInv d;
  ri_static : Static d;
  ri_link : forall x, final d x -> finished_in tr x;
  ri_ord : ordered tr;
  ri_link2 : forall x, finished_in tr x -> final d x;
  ri_match : forall x e, In e tr -> is_final_ev x e = true -> ev_matches e (st_of d x) = true;
  ri_once : fonce tr
}.

Lemma finished_in_In tr x : finished_in tr x <-> exists e, In e tr /\ is_final_ev x e = true.
Proof. unfold finished_in. apply existsb_exists. Qed.

Lemma Static_grows d d' : Static d -> all_grows tasks d d' -> Static d'.
Proof.
  intros S G z. destruct (S z) as [A B]. destruct (G z) as [C D].
  split; eapply incl_tran; eauto.
Qed.

Lemma RI_disp d d' tr y : RI d tr -> disp_post tasks d d' y -> RI d' tr.
Proof.
  intros [I A Q S L O L2 M F1] (I' & A' & Q' & St & G & _ & _). split; auto.
  - eapply Static_grows; eauto.
  - intros x Hx. apply L. unfold DispatchInv.final in *. rewrite <- St. exact Hx.
  - intros x Hx. unfold DispatchInv.final. rewrite St. apply L2. exact Hx.
  - intros x e He Hf. rewrite St. apply M; auto.
Qed.

(* changing the status of a task that was already handed to the runner and is not finished yet *)
Lemma set_status_RI d tr k s evs :
  RI d tr ->
  early (n_pc (node_of d k)) = false -> in_setup (n_pc (node_of d k)) = false ->
  unfinished (st_of d k) = true ->
  (unfinished s = false -> existsb (is_final_ev k) evs = true) ->
  (forall e x, In e evs -> is_final_ev x e = true -> x = k /\ unfinished s = false /\ ev_matches e s = true) ->
  forallb (fun e => negb (is_exec e)) evs = true ->
  (length (filter is_fin evs) <= 1)%nat ->
  RI (set_status d k s) (tr ++ evs).
Proof.
  intros [I A Q S L O L2 M F1] He Hns Hun Hfin Hev Hne Hcnt. unfold Runner.set_status.
  set (nd := node_of d k). set (d' := set_node d k (nd_st nd s)).
  assert (Hst : forall x, st_of d' x = if N.eqb x k then s else st_of d x).
  { intro x. unfold d'. rewrite st_set_node. reflexivity. }
  assert (Hk : forall x, final d x -> x <> k).
  { intros x Hx ->. unfold DispatchInv.final in Hx. rewrite Hun in Hx. discriminate. }
  assert (Hm : mono tasks d d').
  { intros x Hx. rewrite Hst. destruct (N.eqb_spec x k) as [->|]; auto. exfalso. apply (Hk k Hx). reflexivity. }
  assert (Hnode : forall z, z <> k -> node_of d' z = node_of d z)
    by (intros z Hz; unfold d'; apply node_of_set_other; auto).
  split.
  - intros z ndz Hz. unfold d' in Hz. destruct (N.eqb_spec z k) as [->|Hne'].
    + rewrite nodes_set_same in Hz. inversion Hz; subst.
      destruct (node_of_ok tasks d k I) as [H1 H2 H3 H4 H5 H6 H7]. fold nd in H1, H2, H3, H4, H5, H6, H7.
      split; simpl; auto.
      * intros x Hx. destruct (H1 x Hx) as [H|[H|[H|H]]]; auto.
        right; right; right. apply (recd_fields tasks d' nd); [reflexivity|reflexivity|].
        eapply recd_mono; eauto.
      * intros E x Hx. destruct (H3 E x Hx) as [H|H]; auto.
        right. apply (recd_fields tasks d' nd); [reflexivity|reflexivity|]. eapply recd_mono; eauto.
      * fold nd in He. rewrite He. discriminate.
      * fold nd in Hns. rewrite Hns. discriminate.
      * intros c Hc. destruct (H7 c Hc) as [H|[H|[H|H]]]; auto.
        right; right; right. apply (mrgd_fields tasks d' nd); [reflexivity|reflexivity|]. eapply mrgd_mono; eauto.
    + rewrite nodes_set_other in Hz by auto. eapply node_ok_mono; eauto.
  - intros z Hz. unfold resumable in *. destruct (N.eqb_spec z k) as [->|Hne'].
    + unfold d'. rewrite node_of_set_same. simpl. apply (A k). exact Hz.
    + rewrite Hnode by auto. apply A. exact Hz.
  - destruct Q as [q1 q2 q3 q4]. split; auto. intros z Hz. unfold d'. apply nodes_set_ex. apply q4. exact Hz.
  - intros z. destruct (N.eqb_spec z k) as [->|Hne'].
    + unfold d'. rewrite node_of_set_same. simpl. apply S.
    + rewrite Hnode by auto. apply S.
  - intros x Hx.
    assert (Hx' : unfinished (if N.eqb x k then s else st_of d x) = false) by (rewrite <- Hst; exact Hx).
    destruct (N.eqb x k) eqn:E.
    + apply N.eqb_eq in E. subst x. apply finished_in_app_r. apply Hfin. exact Hx'.
    + apply finished_in_app. apply L. exact Hx'.
  - apply ordered_app_noexec; auto.
  - intros x Hx. apply finished_in_In in Hx. destruct Hx as (e & Hin & Hf). apply in_app_iff in Hin.
    destruct Hin as [Hin|Hin].
    + eapply mono_final; [exact Hm|]. apply L2. apply finished_in_In. eauto.
    + destruct (Hev e x Hin Hf) as (-> & Hs & _). unfold DispatchInv.final. rewrite Hst, N.eqb_refl. exact Hs.
  - intros x e Hin Hf. apply in_app_iff in Hin. destruct Hin as [Hin|Hin].
    + assert (Hx : final d x) by (apply L2; apply finished_in_In; eauto).
      rewrite (Hm x Hx). apply M; auto.
    + destruct (Hev e x Hin Hf) as (-> & _ & Hs). rewrite Hst, N.eqb_refl. exact Hs.
  - apply fonce_app; auto. intros e x Hin Hf Hfin'. destruct (Hev e x Hin Hf) as (-> & _ & _).
    apply L2 in Hfin'. unfold DispatchInv.final in Hfin'. rewrite Hun in Hfin'. discriminate.
Qed.

Lemma RI_emit d tr evs :
  RI d tr -> forallb (fun e => negb (is_exec e)) evs = true ->
  (forall e x, In e evs -> is_final_ev x e = false) -> RI d (tr ++ evs).
Proof.
  intros [I A Q S L O L2 M F1] Hn Hnf. split; auto.
  - intros x Hx. apply finished_in_app. apply L. exact Hx.
  - apply ordered_app_noexec; auto.
  - intros x Hx. apply finished_in_In in Hx. destruct Hx as (e & Hin & Hf). apply in_app_iff in Hin.
    destruct Hin as [Hin|Hin]; [apply L2; apply finished_in_In; eauto|]. rewrite (Hnf e x Hin) in Hf. discriminate.
  - intros x e Hin Hf. apply in_app_iff in Hin.
    destruct Hin as [Hin|Hin]; [apply M; auto|]. rewrite (Hnf e x Hin) in Hf. discriminate.
  - apply fonce_app; auto.
    + intros e x Hin Hf. rewrite (Hnf e x Hin) in Hf. discriminate.
    + assert (H0 : filter is_fin evs = []).
      { clear -Hnf. induction evs as [|e evs IH]; simpl; auto.
        destruct (is_fin e) eqn:E.
        - exfalso. destruct e; simpl in E; try discriminate;
            match goal with |- _ => idtac end;
            [pose proof (Hnf (ESkipIgnore k) k (or_introl eq_refl)) as H|pose proof (Hnf (ESkipUpToDate k) k (or_introl eq_refl)) as H
            |pose proof (Hnf (EFailure k kind) k (or_introl eq_refl)) as H|pose proof (Hnf (ESuccess k) k (or_introl eq_refl)) as H];
            simpl in H; rewrite N.eqb_refl in H; discriminate.
        - apply IH. intros e0 x H. apply Hnf. right; exact H. }
      rewrite H0. simpl. lia.
Qed.

(* ---------- dependencies of an executed task ended well ---------- *)
Definition is_goodst (s : status) : bool := match s with SSuccess | SUpToDate => true | _ => false end.
Definition is_good_ev (e : event) : bool := match e with ESuccess _ | ESkipUpToDate _ => true | _ => false end.
(* x was reported successful or up-to-date *)
Definition good_in (tr : list event) (x : name) : Prop :=
  exists e, In e tr /\ is_final_ev x e = true /\ is_good_ev e = true.
Lemma good_in_app tr evs x : good_in tr x -> good_in (tr ++ evs) x.
Proof. intros (e & A & B & C). exists e. split; auto. apply in_or_app. auto. Qed.

Lemma RI_good d tr x : RI d tr -> is_goodst (st_of d x) = true -> good_in tr x.
Proof.
  intros HR Hg.
  assert (F : final d x) by (unfold DispatchInv.final; destruct (st_of d x); simpl in *; auto; discriminate).
  apply (ri_link _ _ HR) in F. apply finished_in_In in F. destruct F as (e & Hin & Hf).
  exists e. split; auto. split; auto. pose proof (ri_match _ _ HR x e Hin Hf) as M.
  destruct e, (st_of d x); simpl in *; auto; discriminate.
Qed.

Lemma recd_good d nd x : recd tasks d nd x -> n_bad nd = [] -> n_ign nd = [] -> is_goodst (st_of d x) = true.
Proof.
  intros (F & B & I) Hb Hi. unfold DispatchInv.final in F. rewrite Hb in B. rewrite Hi in I.
  destruct (st_of d x) eqn:E; simpl in *; auto; try discriminate;
    try (destruct (B eq_refl)); try (destruct (I eq_refl)).
Qed.

(* the EFFECTIVE dependencies of a task: the declared ones, plus everything returned (task_dep,
   file_dep producers, further calc_dep) by its calc_dep tasks and, transitively, by the calc_dep
   tasks those return *)
Inductive eff_calc (t : name) : name -> Prop :=
| ec_static c : In c (t_calc_dep (get_task t)) -> eff_calc t c
| ec_more c c' : eff_calc t c -> In c' (t_calc_new_calc (get_task c)) -> eff_calc t c'.
Definition calc_results (c : name) : list name :=
  t_calc_new_task (get_task c) ++ t_calc_new_impl (get_task c) ++ t_calc_new_calc (get_task c).
Inductive eff_dep (t : name) (y : name) : Prop :=
| ed_static : In y (static_deps t) -> eff_dep t y
| ed_dyn c : eff_calc t c -> In y (calc_results c) -> eff_dep t y.

Inductive cordered : list event -> Prop :=
| co_nil : cordered []
| co_snoc tr e : cordered tr ->
    (forall t, e = EExecute t -> forall x, eff_dep t x -> good_in tr x) ->
    cordered (tr ++ [e]).

Lemma cordered_app_noexec tr evs : cordered tr -> forallb (fun e => negb (is_exec e)) evs = true -> cordered (tr ++ evs).
Proof.
  revert tr. induction evs as [|e evs IH]; intros tr Ho Hn; simpl in *.
  - rewrite app_nil_r. exact Ho.
  - apply andb_true_iff in Hn. destruct Hn as [He Hn].
    replace (tr ++ e :: evs) with ((tr ++ [e]) ++ evs) by (rewrite <- app_assoc; reflexivity).
    apply IH; auto. constructor; auto. intros t ->. discriminate.
Qed.

Lemma cordered_split tr : cordered tr ->
  forall pre t post, tr = pre ++ EExecute t :: post -> forall x, eff_dep t x -> good_in pre x.
Proof.
  induction 1 as [|tr e Ho IH He]; intros pre t post E x Hx.
  - destruct pre; discriminate.
  - destruct post as [|p post'] using rev_ind.
    + apply app_inj_tail in E. destruct E as [-> ->]. eapply He; eauto.
    + clear IHpost'. rewrite app_comm_cons, app_assoc in E. apply app_inj_tail in E. destruct E as [-> _].
      eapply IH; eauto.
Qed.

Lemma set_status_pc d k s z : n_pc (node_of (set_status d k s) z) = n_pc (node_of d z).
Proof.
  unfold Runner.set_status. destruct (N.eqb_spec z k) as [->|Hne].
  - rewrite node_of_set_same. reflexivity.
  - rewrite node_of_set_other by auto. reflexivity.
Qed.
Lemma set_status_st d k s z : st_of (set_status d k s) z = if N.eqb z k then s else st_of d z.
Proof. unfold Runner.set_status. apply st_set_node. Qed.
Lemma set_status_cur d k s : d_cur (set_status d k s) = d_cur d.
Proof. reflexivity. Qed.

(* what the dispatcher guarantees about the task it hands over *)
Record handed (d : dstate) (k : name) : Prop := {
  h_deps : deps_final tasks d k;
  h_setup : n_pc (node_of d k) = PDone -> setup_final tasks d k;
  h_pc : n_pc (node_of d k) = PAfterSelf \/ n_pc (node_of d k) = PDone;
  h_first : n_pc (node_of d k) = PAfterSelf -> st_of d k = SNone;
  h_pre : PreX tasks d k;
  h_rec : deps_recd tasks d k;
  h_srec : n_pc (node_of d k) = PDone -> setup_recd tasks d k;
  h_srun : n_pc (node_of d k) = PDone -> st_of d k = SRun;
  h_mrg : calcs_mrgd tasks d k
}.

Lemma handed_in_setup d k : handed d k -> in_setup (n_pc (node_of d k)) = false.
Proof. intros H. destruct (h_pc _ _ H) as [E|E]; rewrite E; reflexivity. Qed.
Lemma handed_unfinished d k : handed d k -> unfinished (st_of d k) = true.
Proof.
  intros H. destruct (h_pc _ _ H) as [E|E]; [rewrite (h_first _ _ H E)|rewrite (h_srun _ _ H E)]; reflexivity.
Qed.

Lemma handed_early d k : handed d k -> early (n_pc (node_of d k)) = false.
Proof. intros H. destruct (h_pc _ _ H) as [E|E]; rewrite E; reflexivity. Qed.

Lemma Pre_after d d' k :
  PreX tasks d k -> (forall z, n_pc (node_of d' z) = n_pc (node_of d z)) ->
  (forall z, z <> k -> st_of d' z = st_of d z) -> st_of d' k <> SNone -> Pre d'.
Proof.
  intros HP Hpc Hst Hk z Hz. destruct (N.eqb_spec z k) as [->|Hne]; auto.
  rewrite Hst by auto. apply HP; auto. rewrite <- Hpc. exact Hz.
Qed.

(* the static dependencies of a handed-over task are all finished *)
Lemma handed_static_final d k :
  Static d -> handed d k ->
  forall x, In x (t_task_dep (get_task k) ++ t_calc_dep (get_task k)) -> final d x.
Proof.
  intros S H x Hx. apply (h_deps _ _ H). destruct (S k) as [A B].
  rewrite in_app_iff in *. destruct Hx as [Hx|Hx]; [left; apply A|right; apply B]; exact Hx.
Qed.

Definition sel_post (d : dstate) (k : name) (b : bool) (r1 : rstate) : Prop :=
  RI (r_d r1) (r_tr r1) /\ Pre (r_d r1) /\ st_of (r_d r1) k <> SNone /\
  (forall z, n_pc (node_of (r_d r1) z) = n_pc (node_of d z)) /\
  d_cur (r_d r1) = d_cur d /\
  (b = true -> forall x, In x (static_deps k) -> finished_in (r_tr r1) x) /\
  (b = true -> st_of (r_d r1) k = SRun /\ n_bad (node_of d k) = [] /\ n_ign (node_of d k) = []) /\
  (forall z, z <> k -> st_of (r_d r1) z = st_of d z).

Lemma handle_error_gen_post st r k kind :
  unfinished st = false -> is_failst st = true ->
  RI (r_d r) (r_tr r) -> early (n_pc (node_of (r_d r) k)) = false -> PreX tasks (r_d r) k ->
  in_setup (n_pc (node_of (r_d r) k)) = false -> unfinished (st_of (r_d r) k) = true ->
  sel_post (r_d r) k false (handle_error_gen tasks continue_ st r k kind).
Proof.
  intros Hst Hfs HR He HPx Hns Hun. unfold Runner.handle_error_gen. simpl.
  assert (Hsn : st <> SNone) by (intros ->; discriminate).
  split; [|split; [|split; [|split; [|split; [|split; [|split]]]]]]; simpl.
  - apply set_status_RI; auto.
    + intros _. simpl. rewrite N.eqb_refl. reflexivity.
    + intros e x [<-|[<-|[]]] Hf; simpl in Hf; [discriminate|]. apply N.eqb_eq in Hf. subst x.
      split; [reflexivity|]. split; [exact Hst|]. destruct st; simpl in *; auto; discriminate.
  - eapply Pre_after; [exact HPx|intro z; apply set_status_pc| |].
    + intros z Hz. rewrite set_status_st. apply N.eqb_neq in Hz. rewrite Hz. reflexivity.
    + rewrite set_status_st, N.eqb_refl. exact Hsn.
  - rewrite set_status_st, N.eqb_refl. exact Hsn.
  - intro z. apply set_status_pc.
  - reflexivity.
  - discriminate.
  - discriminate.
  - intros z Hz. rewrite set_status_st. apply N.eqb_neq in Hz. rewrite Hz. reflexivity.
Qed.

Lemma handle_error_post r k kind :
  RI (r_d r) (r_tr r) -> early (n_pc (node_of (r_d r) k)) = false -> PreX tasks (r_d r) k ->
  in_setup (n_pc (node_of (r_d r) k)) = false -> unfinished (st_of (r_d r) k) = true ->
  sel_post (r_d r) k false (handle_error r k kind).
Proof. apply handle_error_gen_post; reflexivity. Qed.

Lemma skip_post r k s ev :
  RI (r_d r) (r_tr r) -> early (n_pc (node_of (r_d r) k)) = false -> PreX tasks (r_d r) k ->
  in_setup (n_pc (node_of (r_d r) k)) = false -> unfinished (st_of (r_d r) k) = true ->
  unfinished s = false -> s <> SNone -> is_final_ev k ev = true -> is_exec ev = false ->
  ev_matches ev s = true ->
  sel_post (r_d r) k false (emit (with_d r (set_status (r_d r) k s)) [ev]).
Proof.
  intros HR He HPx Hns Hun Hs Hn Hev Hex Hmt. unfold emit, with_d. simpl.
  split; [|split; [|split; [|split; [|split; [|split; [|split]]]]]]; simpl.
  - apply set_status_RI; auto.
    + intros _. simpl. rewrite Hev. reflexivity.
    + intros e x [<-|[]] Hf. split; auto.
      destruct ev; simpl in Hf, Hev; try discriminate; apply N.eqb_eq in Hf; apply N.eqb_eq in Hev; congruence.
    + simpl. rewrite Hex. reflexivity.
    + simpl. destruct (is_fin ev); simpl; lia.
  - eapply Pre_after; [exact HPx|intro z; apply set_status_pc| |].
    + intros z Hz. rewrite set_status_st. apply N.eqb_neq in Hz. rewrite Hz. reflexivity.
    + rewrite set_status_st, N.eqb_refl. exact Hn.
  - rewrite set_status_st, N.eqb_refl. exact Hn.
  - intro z. apply set_status_pc.
  - reflexivity.
  - discriminate.
  - discriminate.
  - intros z Hz. rewrite set_status_st. apply N.eqb_neq in Hz. rewrite Hz. reflexivity.
Qed.

Lemma PreX_set_status d k s : PreX tasks d k -> PreX tasks (set_status d k s) k.
Proof.
  intros H z Hz Hpc. rewrite set_status_st. apply N.eqb_neq in Hz. rewrite Hz.
  apply H; [apply N.eqb_neq; exact Hz|]. rewrite <- (set_status_pc d k s). exact Hpc.
Qed.

(* get_args after the status is known *)
Lemma get_args_post r k b r1 (d0 : dstate) :
  RI (r_d r) (r_tr r) -> early (n_pc (node_of (r_d r) k)) = false -> PreX tasks (r_d r) k ->
  in_setup (n_pc (node_of (r_d r) k)) = false ->
  st_of (r_d r) k = SRun -> n_bad (node_of d0 k) = [] -> n_ign (node_of d0 k) = [] ->
  (forall z, n_pc (node_of (r_d r) z) = n_pc (node_of d0 z)) -> d_cur (r_d r) = d_cur d0 ->
  (forall z, z <> k -> st_of (r_d r) z = st_of d0 z) ->
  (forall x, In x (static_deps k) -> finished_in (r_tr r) x) ->
  get_args tasks continue_ r k = (b, r1) -> sel_post d0 k b r1.
Proof.
  intros HR He HPx Hns Hst Hb Hi Hpc Hcur Hoth Hdeps Hg. unfold Runner.get_args in Hg.
  assert (Hsn : st_of (r_d r) k <> SNone) by (rewrite Hst; discriminate).
  destruct (t_argerr (get_task k)); inversion Hg; subst.
  - destruct (handle_error_post r k kind_dep HR He HPx Hns) as (A & B & C & D & E & F & G & H).
    { rewrite Hst. reflexivity. }
    split; auto. split; auto. split; auto. split; [intro z; rewrite D; apply Hpc|]. split; [congruence|].
    split; [exact F|]. split; [discriminate|]. intros z Hz. rewrite (H z Hz). apply Hoth. exact Hz.
  - split; auto. split; [|split; [exact Hsn|split; [exact Hpc|split; [exact Hcur|split; [intros _; exact Hdeps|split; [auto|exact Hoth]]]]]].
    intros z Hz. destruct (N.eqb_spec z k) as [->|Hne]; [exact Hsn|]. apply HPx; auto.
Qed.

Lemma emit_RI_get r k : RI (r_d r) (r_tr r) -> RI (r_d (emit r [EGetStatus k])) (r_tr (emit r [EGetStatus k])).
Proof. intros H. unfold emit; simpl. apply RI_emit; auto. intros e x [<-|[]]. reflexivity. Qed.

Lemma select_task_post r k b r1 :
  RI (r_d r) (r_tr r) -> handed (r_d r) k ->
  select_task r k = (b, r1) -> sel_post (r_d r) k b r1.
Proof.
  intros HR HK Hs. unfold Runner.select_task in Hs.
  set (d := r_d r) in *.
  pose proof (handed_early _ _ HK) as He. pose proof (h_pre _ _ HK) as HPx.
  pose proof (handed_in_setup _ _ HK) as Hns. pose proof (handed_unfinished _ _ HK) as Hun.
  assert (HRe : RI (r_d (emit r [EGetStatus k])) (r_tr (emit r [EGetStatus k]))) by (apply emit_RI_get; exact HR).
  (* dependencies that were declared, as seen in the trace so far *)
  assert (Hdeps12 : forall x, In x (t_task_dep (get_task k) ++ t_calc_dep (get_task k)) -> finished_in (r_tr r) x).
  { intros x Hx. apply (ri_link _ _ HR). eapply handed_static_final; eauto. apply (ri_static _ _ HR). }
  assert (Hlater : n_st (node_of d k) <> SNone ->
     (if negb (is_nil (n_ign (node_of d k)))
      then (false, emit (with_d r (set_status (r_d r) k SIgnore)) [ESkipIgnore k])
      else if negb (is_nil (n_bad (node_of d k))) then (false, handle_error r k kind_unmet)
      else get_args tasks continue_ r k) = (b, r1) -> sel_post d k b r1).
  { intros Hst Hq.
    assert (Hpd : n_pc (node_of d k) = PDone).
    { destruct (h_pc _ _ HK) as [E|E]; auto. exfalso. apply Hst. apply (h_first _ _ HK E). }
    destruct (is_nil (n_ign (node_of d k))) eqn:Ei; simpl in Hq.
    2:{ inversion Hq; subst. apply (skip_post r k SIgnore (ESkipIgnore k)); auto; try discriminate.
        simpl. apply N.eqb_refl. }
    destruct (is_nil (n_bad (node_of d k))) eqn:Eb; simpl in Hq.
    2:{ inversion Hq; subst. apply (handle_error_post r k kind_unmet); auto. }
    apply is_nil_true in Ei. apply is_nil_true in Eb.
    apply (get_args_post r k b r1 d); auto.
    - apply (h_srun _ _ HK Hpd).
    - intros x Hx. unfold static_deps in Hx. rewrite app_assoc in Hx. apply in_app_iff in Hx. destruct Hx as [Hx|Hx].
      + apply Hdeps12. exact Hx.
      + apply (ri_link _ _ HR). apply (h_setup _ _ HK Hpd). exact Hx. }
  destruct (n_st (node_of d k)) eqn:Est.
  - (* first selection *)
    destruct (is_nil (n_ign (node_of d k))) eqn:Ei; simpl in Hs.
    2:{ inversion Hs; subst.
        apply (skip_post (emit r [EGetStatus k]) k SIgnore (ESkipIgnore k)); auto; try discriminate.
        simpl. apply N.eqb_refl. }
    destruct (t_dbignore (get_task k)) eqn:Edb; simpl in Hs.
    { inversion Hs; subst.
      apply (skip_post (emit r [EGetStatus k]) k SIgnore (ESkipIgnore k)); auto; try discriminate.
      simpl. apply N.eqb_refl. }
    destruct (is_nil (n_bad (node_of d k))) eqn:Eb; simpl in Hs.
    2:{ inversion Hs; subst. apply (handle_error_post (emit r [EGetStatus k]) k kind_unmet); auto. }
    apply is_nil_true in Ei. apply is_nil_true in Eb.
    assert (Hrun :
       (if is_nil (t_setup (get_task k))
        then get_args tasks continue_ (with_d (emit r [EGetStatus k]) (set_status (r_d (emit r [EGetStatus k])) k SRun)) k
        else (false, with_d (emit r [EGetStatus k]) (set_status (r_d (emit r [EGetStatus k])) k SRun))) = (b, r1) ->
       sel_post d k b r1).
    { intros Hq.
      set (r2 := with_d (emit r [EGetStatus k]) (set_status (r_d (emit r [EGetStatus k])) k SRun)) in *.
      assert (HR2 : RI (r_d r2) (r_tr r2)).
      { unfold r2, with_d, emit. simpl.
        rewrite <- (app_nil_r (r_tr r ++ [EGetStatus k])).
        apply set_status_RI; [exact HRe|exact He|exact Hns|exact Hun|discriminate|intros e x []|reflexivity|simpl; lia]. }
      assert (Hpc2 : forall z, n_pc (node_of (r_d r2) z) = n_pc (node_of d z))
        by (intro z; unfold r2, with_d, emit; simpl; apply set_status_pc).
      assert (Hst2 : st_of (r_d r2) k = SRun)
        by (unfold r2, with_d, emit; simpl; rewrite set_status_st, N.eqb_refl; reflexivity).
      assert (Hoth2 : forall z, z <> k -> st_of (r_d r2) z = st_of d z).
      { intros z Hz. unfold r2, with_d, emit; simpl. rewrite set_status_st. apply N.eqb_neq in Hz. rewrite Hz. reflexivity. }
      assert (HPx2 : PreX tasks (r_d r2) k) by (unfold r2, with_d, emit; simpl; apply PreX_set_status; exact HPx).
      destruct (is_nil (t_setup (get_task k))) eqn:Esetup.
      - apply (get_args_post r2 k b r1 d); auto.
        + rewrite Hpc2. exact He.
        + rewrite Hpc2. exact Hns.
        + intros x Hx. unfold static_deps in Hx. apply is_nil_true in Esetup. rewrite Esetup, app_nil_r in Hx.
          unfold r2, with_d, emit. simpl. apply finished_in_app. apply Hdeps12. exact Hx.
      - inversion Hq; subst. split; auto.
        assert (Hsn2 : st_of (r_d r2) k <> SNone) by (rewrite Hst2; discriminate).
        split; [|split; [exact Hsn2|split; [exact Hpc2|split; [reflexivity|split; [discriminate|split; [discriminate|exact Hoth2]]]]]].
        intros z Hz. destruct (N.eqb_spec z k) as [->|Hne]; [exact Hsn2|]. apply HPx2; auto. }
    destruct (t_check (get_task k)) eqn:Eck.
    + destruct always; apply Hrun; exact Hs.
    + destruct always; [apply Hrun; exact Hs|]. inversion Hs; subst.
      apply (skip_post (emit r [EGetStatus k]) k SUpToDate (ESkipUpToDate k)); auto; try discriminate.
      simpl. apply N.eqb_refl.
    + inversion Hs; subst. apply (handle_error_post (emit r [EGetStatus k]) k kind_dep); auto.
  - apply Hlater; [discriminate|exact Hs].
  - apply Hlater; [discriminate|exact Hs].
  - apply Hlater; [discriminate|exact Hs].
  - apply Hlater; [discriminate|exact Hs].
  - apply Hlater; [discriminate|exact Hs].
  - apply Hlater; [discriminate|exact Hs].
Qed.

Lemma select_first_true r k r1 :
  n_st (node_of (r_d r) k) = SNone -> select_task r k = (true, r1) -> is_nil (t_setup (get_task k)) = true.
Proof.
  intros Est E. unfold Runner.select_task in E. rewrite Est in E.
  destruct (negb (is_nil (n_ign (node_of (r_d r) k))) || t_dbignore (get_task k)); [discriminate|].
  destruct (negb (is_nil (n_bad (node_of (r_d r) k)))); [discriminate|].
  destruct (t_check (get_task k)); destruct always; cbv beta iota zeta in E; try discriminate;
    destruct (is_nil (t_setup (get_task k))); auto; discriminate.
Qed.

Lemma select_true_spent r k r1 :
  RI (r_d r) (r_tr r) -> handed (r_d r) k -> select_task r k = (true, r1) -> spent tasks (r_d r1) k.
Proof.
  intros HR HK E. destruct (select_task_post r k true r1 HR HK E) as (_ & _ & _ & Pc & _ & _).
  unfold spent. rewrite Pc. destruct (h_pc _ _ HK) as [Hp|Hp]; [|left; exact Hp].
  right. split; auto. eapply select_first_true; [|exact E]. apply (h_first _ _ HK Hp).
Qed.


(* a task is started only if everything it effectively depends on was reported successful or up-to-date *)
Lemma good_visible s : is_goodst s = true -> calc_values_visible s = true.
Proof. destruct s; simpl; auto. Qed.

Lemma select_true_good r k r1 :
  RI (r_d r) (r_tr r) -> handed (r_d r) k -> select_task r k = (true, r1) ->
  forall x, eff_dep k x -> good_in (r_tr r1) x.
Proof.
  intros HR HK E x Hx.
  destruct (select_task_post r k true r1 HR HK E) as (R1 & _ & _ & Pc & _ & _ & T1 & O1).
  destruct (T1 eq_refl) as (Srun & Hb & Hi).
  set (d := r_d r) in *. set (nd := node_of d k) in *.
  assert (Hall : forall y, In y (n_all_task nd ++ n_all_calc nd) -> is_goodst (st_of d y) = true).
  { intros y Hy. eapply recd_good; eauto. apply (h_rec _ _ HK). exact Hy. }
  assert (Hcalc : forall c, eff_calc k c -> In c (n_all_calc nd)).
  { intros c Hc. induction Hc as [c Hc|c c' Hc IH Hc'].
    - destruct (ri_static _ _ HR k) as [_ B]. apply B. exact Hc.
    - destruct (h_mrg _ _ HK c IH) as (_ & M). fold d in M. fold nd in M.
      assert (V : calc_values_visible (st_of d c) = true).
      { apply good_visible. apply Hall. apply in_app_iff. right. exact IH. }
      destruct (M V) as (_ & _ & M3). apply M3. exact Hc'. }
  assert (Hg : is_goodst (st_of d x) = true).
  { destruct Hx as [Hx|c Hc Hx].
    - unfold static_deps in Hx. rewrite app_assoc in Hx. apply in_app_iff in Hx. destruct Hx as [Hx|Hx].
      + apply Hall. destruct (ri_static _ _ HR k) as [A B].
        rewrite in_app_iff in *. destruct Hx as [Hx|Hx]; [left; apply A|right; apply B]; exact Hx.
      + destruct (h_pc _ _ HK) as [Hp|Hp].
        * pose proof (select_first_true r k r1 (h_first _ _ HK Hp) E) as Hn. apply is_nil_true in Hn.
          rewrite Hn in Hx. destruct Hx.
        * eapply recd_good; eauto. apply (h_srec _ _ HK Hp). exact Hx.
    - pose proof (Hcalc c Hc) as Hin.
      destruct (h_mrg _ _ HK c Hin) as (_ & M). fold d in M. fold nd in M.
      assert (V : calc_values_visible (st_of d c) = true).
      { apply good_visible. apply Hall. apply in_app_iff. right. exact Hin. }
      destruct (M V) as (M1 & M2 & M3). apply Hall. unfold calc_results in Hx.
      rewrite !in_app_iff in Hx. rewrite in_app_iff. destruct Hx as [Hx|[Hx|Hx]]; [left; apply M1|left; apply M2|right; apply M3]; exact Hx. }
  apply (RI_good (r_d r1)); auto. rewrite O1; auto.
  intros ->. pose proof (handed_unfinished _ _ HK) as Hu. fold d in Hu. destruct (st_of d k); simpl in *; discriminate.
Qed.

(* ---------- no task is executed twice ---------- *)
Record XI (d : dstate) (tr : list event) : Prop := {
  xi_spent : forall k, In k (execs tr) -> spent tasks d k;
  xi_nodup : NoDup (execs tr)
}.

Lemma XI_pc d d' tr : XI d tr -> (forall z, spent tasks d z -> spent tasks d' z) -> XI d' tr.
Proof. intros [A B] H. split; auto. Qed.

(* ---------- execution ---------- *)
Lemma start_task_RI r k :
  RI (r_d r) (r_tr r) -> (forall x, In x (static_deps k) -> finished_in (r_tr r) x) ->
  RI (r_d (start_task r k)) (r_tr (start_task r k)).
Proof.
  intros [I A Q S L O L2 M F1] Hd. unfold Runner.start_task. simpl. split; auto.
  - intros x Hx. apply finished_in_app. apply L. exact Hx.
  - constructor; auto. intros t E x Hx. inversion E; subst. apply Hd. exact Hx.
  - intros x Hx. apply finished_in_In in Hx. destruct Hx as (e & Hin & Hf). apply in_app_iff in Hin.
    destruct Hin as [Hin|[<-|[]]]; [apply L2; apply finished_in_In; eauto|discriminate].
  - intros x e Hin Hf. apply in_app_iff in Hin. destruct Hin as [Hin|[<-|[]]]; [apply M; auto|discriminate].
  - constructor; auto. intros x Hx. discriminate.
Qed.

Lemma process_result_post r k :
  RI (r_d r) (r_tr r) -> early (n_pc (node_of (r_d r) k)) = false -> PreX tasks (r_d r) k ->
  in_setup (n_pc (node_of (r_d r) k)) = false -> st_of (r_d r) k = SRun ->
  let r' := process_result r k in
  RI (r_d r') (r_tr r') /\ Pre (r_d r') /\ st_of (r_d r') k <> SNone \/ t_outcome (get_task k) = OInterrupt.
Proof.
  intros HR He HPx Hns Hst. cbv zeta. unfold Runner.process_result.
  assert (Hun : unfinished (st_of (r_d r) k) = true) by (rewrite Hst; reflexivity).
  destruct (t_outcome (get_task k)) eqn:Eo; [| | | |right; reflexivity|]; left.
  - destruct (skip_post r k SSuccess (ESuccess k) HR He HPx Hns Hun) as (A & B & C & _); try discriminate; try reflexivity.
    + simpl. apply N.eqb_refl.
    + (* the trace carries ESave too *)
      unfold emit, with_d in *. simpl in *. split; [|split; auto].
      apply set_status_RI; auto; try discriminate.
      * intros _. simpl. rewrite N.eqb_refl. reflexivity.
      * intros e x [<-|[<-|[]]] Hf; simpl in Hf; [discriminate|]. apply N.eqb_eq in Hf. subst x. auto.
  - destruct (handle_error_post r k kind_failed HR He HPx Hns Hun) as (A & B & C & _). auto.
  - destruct (handle_error_post r k kind_error HR He HPx Hns Hun) as (A & B & C & _). auto.
  - destruct (handle_error_gen_post SFailureV r k kind_dep eq_refl eq_refl HR He HPx Hns Hun) as (A & B & C & _). auto.
  - destruct (handle_error_gen_post SFailureV r k kind_failed eq_refl eq_refl HR He HPx Hns Hun) as (A & B & C & _). auto.
Qed.

Lemma noexec_teardowns l : forallb (fun e => negb (is_exec e)) (map ETeardown l) = true.
Proof. induction l; simpl; auto. Qed.

Lemma finish_ordered r : ordered (r_tr r) -> ordered (r_tr (finish r)).
Proof.
  intros H. unfold finish, emit. simpl. apply ordered_app_noexec; auto. simpl. apply noexec_teardowns.
Qed.

Lemma handed_of_post d d' k : disp_post tasks d d' (DTask k) -> handed d' k /\ d_cur d' = Some k /\ ~ spent tasks d k.
Proof.
  intros (_ & _ & _ & _ & _ & _ & N & C & D1 & D2 & D3 & D4 & D5 & D6 & D7 & D8 & D9). split; [split; auto|auto].
Qed.

Lemma process_result_pc r k z :
  n_pc (node_of (r_d (process_result r k)) z) = n_pc (node_of (r_d r) z).
Proof.
  unfold Runner.process_result. destruct (t_outcome (get_task k)); simpl; auto; apply set_status_pc.
Qed.
Lemma process_result_execs r k : execs (r_tr (process_result r k)) = execs (r_tr r).
Proof.
  unfold Runner.process_result. destruct (t_outcome (get_task k)); simpl; auto;
    rewrite execs_app; simpl; rewrite app_nil_r; reflexivity.
Qed.

Lemma finish_execs r : execs (r_tr (finish r)) = execs (r_tr r).
Proof.
  unfold finish, emit. simpl. rewrite execs_app. simpl.
  assert (H : execs (map ETeardown (rev (r_td r))) = []) by (induction (rev (r_td r)); simpl; auto).
  rewrite H, app_nil_r. reflexivity.
Qed.

Lemma process_result_about r k :
  exists evs, r_tr (process_result r k) = r_tr r ++ evs /\ Forall (about k) evs.
Proof.
  unfold Runner.process_result. destruct (t_outcome (get_task k)); simpl;
    try (eexists; split; [reflexivity|repeat constructor]).
  exists []. rewrite app_nil_r. split; auto.
Qed.

Lemma finish_fordered r : fordered (r_tr r) -> fordered (r_tr (finish r)).
Proof.
  intros H. unfold finish, emit. simpl. apply fordered_app_nofinal; auto.
  intros e k [<-|Hin]; [reflexivity|]. apply in_map_iff in Hin. destruct Hin as [y [<- _]]. reflexivity.
Qed.

Lemma finish_RI r : RI (r_d r) (r_tr r) -> RI (r_d (finish r)) (r_tr (finish r)).
Proof.
  intros H. unfold finish, emit. simpl. apply RI_emit; auto.
  - simpl. apply noexec_teardowns.
  - intros e x [<-|Hin]; [reflexivity|]. apply in_map_iff in Hin. destruct Hin as (z & <- & _). reflexivity.
Qed.

Lemma about_noexec k evs : Forall (about k) evs -> forallb (fun e => negb (is_exec e)) evs = true.
Proof.
  induction 1 as [|e l He _ IHl]; simpl; auto. rewrite IHl, andb_true_r.
  destruct e; simpl in *; auto; contradiction.
Qed.

Definition trace_ok (tr : list event) : Prop :=
  ordered tr /\ NoDup (execs tr) /\ fordered tr /\ fonce tr /\ cordered tr.

Lemma serial_inv fuel : forall r last,
  RI (r_d r) (r_tr r) -> XI (r_d r) (r_tr r) -> fordered (r_tr r) -> cordered (r_tr r) -> Pre (r_d r) ->
  (forall k, last = Some k -> st_of (r_d r) k <> SNone) ->
  let r' := fst (serial fuel r last) in trace_ok (r_tr r').
Proof.
  unfold trace_ok.
  induction fuel as [|fuel IH]; intros r last HR HX HF HC HP Hl; cbn [Runner.serial]; cbv zeta.
  { simpl. split; [apply (ri_ord _ _ HR)|split; [apply (xi_nodup _ _ HX)|split; [exact HF|split; [apply (ri_once _ _ HR)|exact HC]]]]. }
  assert (Hfin : forall r0, RI (r_d r0) (r_tr r0) -> XI (r_d r0) (r_tr r0) -> fordered (r_tr r0) -> cordered (r_tr r0) ->
                 ordered (r_tr (finish r0)) /\ NoDup (execs (r_tr (finish r0))) /\ fordered (r_tr (finish r0)) /\
                 fonce (r_tr (finish r0)) /\ cordered (r_tr (finish r0))).
  { intros r0 R0 X0 F0 C0. split; [apply finish_ordered; apply (ri_ord _ _ R0)|split; [rewrite finish_execs; apply (xi_nodup _ _ X0)|split; [apply finish_fordered; exact F0|split]]].
    - apply (ri_once _ _ (finish_RI _ R0)).
    - unfold finish, emit. simpl. apply cordered_app_noexec; auto. simpl. apply noexec_teardowns. }
  destruct (r_stop r). { cbn [fst]. apply Hfin; auto. }
  destruct (disp_send tasks wake_rank calc_rank (S fuel) (r_d r) last) as [y d] eqn:Ed.
  pose proof (disp_send_spec tasks wake_rank calc_rank _ _ _ _ _ (ri_inv _ _ HR) HP (ri_res _ _ HR) (ri_q _ _ HR) Hl Ed) as Hpost.
  pose proof (RI_disp _ _ _ _ HR Hpost) as HR'.
  assert (HX' : XI d (r_tr r)).
  { eapply XI_pc; [exact HX|]. destruct Hpost as (_ & _ & _ & _ & _ & Sp & _). exact Sp. }
  destruct y as [k| | |path|].
  - destruct (handed_of_post _ _ _ Hpost) as (HK & Hcur & Hns).
    destruct (select_task (with_d r d) k) as [b r1] eqn:Es.
    pose proof (select_task_post (with_d r d) k b r1 HR' HK Es) as (R1 & P1 & S1 & Pc1 & C1 & D1 & T1 & O1).
    pose proof (select_task_execs tasks continue_ always _ _ _ _ Es) as Ex1. simpl in Ex1.
    assert (X1 : XI (r_d r1) (r_tr r1)).
    { destruct HX' as [xa xb]. split; rewrite Ex1; auto. intros z Hz. eapply spent_pc; [apply Pc1|]. apply xa. exact Hz. }
    assert (Hd12 : forall x, In x (deps12 k) -> finished_in (r_tr r) x).
    { intros x Hx. apply (ri_link _ _ HR'). eapply handed_static_final; eauto. apply (ri_static _ _ HR'). }
    assert (F1 : fordered (r_tr r1)).
    { destruct (select_task_about tasks continue_ always _ _ _ _ Es) as [evs [Eq Ha]]. simpl in Eq. rewrite Eq.
      eapply fordered_app_about; eauto. }
    assert (C1' : cordered (r_tr r1)).
    { destruct (select_task_about tasks continue_ always _ _ _ _ Es) as [evs [Eq Ha]]. simpl in Eq. rewrite Eq.
      apply cordered_app_noexec; auto. eapply about_noexec; eauto. }
    destruct b.
    + assert (R2 : RI (r_d (start_task r1 k)) (r_tr (start_task r1 k))) by (apply start_task_RI; auto).
      assert (C2 : cordered (r_tr (start_task r1 k))).
      { unfold Runner.start_task. simpl. constructor; auto. intros t Et x Hx. inversion Et; subst.
        apply (select_true_good (with_d r d) t r1 HR' HK Es x Hx). }
      assert (F2 : fordered (r_tr (start_task r1 k))).
      { unfold Runner.start_task. simpl. apply fordered_app_nofinal; auto. intros e k0 [<-|[]]. reflexivity. }
      assert (Hk : ~ In k (execs (r_tr r))) by (intro H; apply Hns; apply (xi_spent _ _ HX); exact H).
      assert (X2 : XI (r_d (start_task r1 k)) (r_tr (start_task r1 k))).
      { unfold Runner.start_task. simpl. destruct X1 as [xa xb]. split; rewrite execs_app; simpl.
        - intros z Hz. apply in_app_iff in Hz. destruct Hz as [Hz|[<-|[]]]; auto.
          apply (select_true_spent (with_d r d) k r1 HR' HK Es).
        - rewrite Ex1 in *. apply NoDup_snoc; auto. }
      destruct (is_interrupt tasks k) eqn:Ei.
      * cbn [fst]. apply Hfin; auto.
      * assert (He2 : early (n_pc (node_of (r_d (start_task r1 k)) k)) = false).
        { unfold Runner.start_task. simpl. rewrite Pc1. apply (handed_early _ _ HK). }
        assert (HPx2 : PreX tasks (r_d (start_task r1 k)) k).
        { unfold Runner.start_task. simpl. intros z Hz Hpc. apply P1. exact Hpc. }
        assert (Hns2 : in_setup (n_pc (node_of (r_d (start_task r1 k)) k)) = false).
        { unfold Runner.start_task. simpl. rewrite Pc1. apply (handed_in_setup _ _ HK). }
        assert (Hst2 : st_of (r_d (start_task r1 k)) k = SRun) by (unfold Runner.start_task; simpl; apply (T1 eq_refl)).
        destruct (process_result_post (start_task r1 k) k R2 He2 HPx2 Hns2 Hst2) as [(R3 & P3 & S3)|Hint].
        -- apply IH; auto.
           ++ destruct X2 as [xa xb]. split; rewrite process_result_execs; auto.
              intros z Hz. eapply spent_pc; [apply process_result_pc|]. apply xa. exact Hz.
           ++ destruct (process_result_about (start_task r1 k) k) as [evs [Eq Ha]]. rewrite Eq.
              eapply fordered_app_about; eauto. intros x Hx. unfold Runner.start_task. simpl.
              apply finished_in_app. apply D1; auto. unfold static_deps. unfold deps12 in Hx.
              rewrite app_assoc. apply in_app_iff. left. exact Hx.
           ++ destruct (process_result_about (start_task r1 k) k) as [evs [Eq Ha]]. rewrite Eq.
              apply cordered_app_noexec; auto. eapply about_noexec; eauto.
           ++ intros k' E. inversion E; subst. exact S3.
        -- unfold Runner.is_interrupt in Ei. rewrite Hint in Ei. discriminate.
    + apply IH; auto. intros k' E. inversion E; subst. exact S1.
  - cbn [fst]. apply Hfin; auto.
  - cbn [fst]. apply Hfin; auto.
  - cbn [fst]. apply Hfin; auto.
  - cbn [fst]. split; [apply (ri_ord _ _ HR')|split; [apply (xi_nodup _ _ HX')|split; [exact HF|split; [apply (ri_once _ _ HR')|exact HC]]]].
Qed.

Lemma RI_init sel : RI (disp_init sel) [].
Proof.
  split.
  - intros me nd H. discriminate.
  - intros z [H|H]; [discriminate|destruct H].
  - split; simpl.
    + constructor.
    + intros z [].
    + intros z [].
    + intros z [[]|[[]|E]]. discriminate.
  - intro z. split; apply incl_refl.
  - intros x Hx. unfold DispatchInv.final in Hx. simpl in Hx. discriminate.
  - constructor.
  - intros x Hx. discriminate.
  - intros x e [].
  - constructor.
Qed.

Lemma XI_init sel : XI (disp_init sel) [].
Proof. split; simpl; [intros k []|constructor]. Qed.

Lemma serial_init_inv fuel sel :
  let r' := fst (serial fuel (r_init sel) None) in trace_ok (r_tr r').
Proof.
  apply serial_inv; simpl.
  - apply RI_init.
  - apply XI_init.
  - constructor.
  - constructor.
  - intros z Hz. simpl in Hz. discriminate.
  - intros k E'. discriminate.
Qed.

Theorem serial_dep_order fuel sel :
  ordered (fst (run_serial tasks wake_rank calc_rank continue_ always fuel sel)).
Proof.
  unfold run_serial.
  pose proof (serial_init_inv fuel sel) as H. cbv zeta in H. unfold trace_ok in H.
  destruct (serial fuel (r_init sel) None) as [r s] eqn:E. simpl in *.
  apply ordered_app_noexec; [apply H|destruct s; reflexivity].
Qed.

(* no task is executed twice in a run *)
Theorem serial_exec_once fuel sel :
  NoDup (execs (fst (run_serial tasks wake_rank calc_rank continue_ always fuel sel))).
Proof.
  unfold run_serial.
  pose proof (serial_init_inv fuel sel) as H. cbv zeta in H. unfold trace_ok in H.
  destruct (serial fuel (r_init sel) None) as [r s] eqn:E. simpl in *.
  rewrite execs_app. replace (execs (stop_marker s)) with (@nil name) by (destruct s; reflexivity).
  rewrite app_nil_r. apply H.
Qed.

Theorem serial_final_order fuel sel :
  fordered (fst (run_serial tasks wake_rank calc_rank continue_ always fuel sel)).
Proof.
  unfold run_serial.
  pose proof (serial_init_inv fuel sel) as H. cbv zeta in H. unfold trace_ok in H.
  destruct (serial fuel (r_init sel) None) as [r s] eqn:E. simpl in *.
  apply fordered_app_nofinal; [apply H|]. intros e k Hin. destruct s; simpl in Hin; try contradiction;
    destruct Hin as [<-|[]]; reflexivity.
Qed.

(* every task gets at most one final report in a run *)
Theorem serial_one_final fuel sel :
  fonce (fst (run_serial tasks wake_rank calc_rank continue_ always fuel sel)).
Proof.
  unfold run_serial.
  pose proof (serial_init_inv fuel sel) as H. cbv zeta in H. unfold trace_ok in H.
  destruct (serial fuel (r_init sel) None) as [r s] eqn:E. simpl in *.
  apply fonce_app; [apply H| |].
  - intros e x Hin Hf. destruct s; simpl in Hin; try contradiction; destruct Hin as [<-|[]]; discriminate.
  - destruct s; simpl; lia.
Qed.

(* a task is executed only after everything it declares as task_dep / calc_dep / setup was
   reported successful or up-to-date (failure containment) *)
Theorem serial_contained fuel sel :
  cordered (fst (run_serial tasks wake_rank calc_rank continue_ always fuel sel)).
Proof.
  unfold run_serial.
  pose proof (serial_init_inv fuel sel) as H. cbv zeta in H. unfold trace_ok in H.
  destruct (serial fuel (r_init sel) None) as [r s] eqn:E. simpl in *.
  apply cordered_app_noexec; [apply H|destruct s; reflexivity].
Qed.

(* a task with a dependency that failed, was ignored -- anything but successful / up-to-date -- is
   never executed *)
Lemma bad_dep_never_runs tr t x e :
  fonce tr -> cordered tr -> eff_dep t x ->
  In e tr -> is_final_ev x e = true -> is_good_ev e = false -> ~ In (EExecute t) tr.
Proof.
  intros Hf Hc Hx He Hfe Hbad Hex. apply in_split in Hex. destruct Hex as (pre & post & E).
  destruct (cordered_split tr Hc pre t post E x Hx) as (e' & Hin' & Hf' & Hg').
  assert (Hin2 : In e' tr) by (rewrite E; apply in_or_app; left; exact Hin').
  pose proof (fonce_two tr x e e' Hf He Hin2 Hfe Hf') as ->. rewrite Hg' in Hbad. discriminate.
Qed.

Theorem serial_bad_dep_never_runs fuel sel t x e :
  let tr := fst (run_serial tasks wake_rank calc_rank continue_ always fuel sel) in
  eff_dep t x -> In e tr -> is_final_ev x e = true -> is_good_ev e = false -> ~ In (EExecute t) tr.
Proof.
  cbv zeta. intros. eapply bad_dep_never_runs; eauto; [apply serial_one_final|apply serial_contained].
Qed.

End R.

