(* ImplicitRunP.v -- Proofs/ImplicitP.v (what TaskControl.__init__ puts into the table) composed with the
   order theorems of the runners (RunnerP.v, ParallelP.v): dependency order stated on the DECLARATIONS
   (targets / file_dep as spelled in the dodo file), for the table TaskControl.__init__ derives from them. *)
From DoitV Require Import Base Dispatch Runner Parallel DispatchP DispatchInv RunnerTr RunnerP ParallelP Implicit ImplicitP.
Open Scope N_scope.

Section S.
Variable path_str : name -> name.
Variable dl : list (name * decl).
Variable tasks : name -> option task.
Hypothesis Hinit : control_init path_str dl = inr tasks.

Lemma declared_static c x : declared_dep path_str dl c x -> In x (static_deps tasks c).
Proof.
  intros D. destruct (declared_dep_in_table path_str dl tasks c x Hinit D) as (T & HT & Hx).
  unfold static_deps, get_task. rewrite HT. exact Hx.
Qed.

Lemma returned_eff t cc p : eff_calc tasks t cc -> returned_file_on_target path_str dl cc p -> eff_dep tasks t p.
Proof.
  intros Hc R. destruct (returned_file_in_table path_str dl tasks cc p Hinit R) as (T & HT & Hp).
  apply (ed_dyn tasks t p cc Hc). unfold calc_results, get_task. rewrite HT.
  apply in_or_app. right. apply in_or_app. left. exact Hp.
Qed.

Lemma serial_declared_dep_order wake_rank calc_rank continue_ always fuel selection pre c post x :
  declared_dep path_str dl c x ->
  fst (run_serial tasks wake_rank calc_rank continue_ always fuel selection) = pre ++ EExecute c :: post ->
  finished_in pre x.
Proof.
  intros D E.
  exact (ordered_split tasks _ (serial_dep_order tasks wake_rank calc_rank continue_ always fuel selection) pre c post E x
                       (declared_static c x D)).
Qed.

Lemma parallel_declared_dep_order wake_rank calc_rank continue_ always proc fuel nprocs sched selection pre c w post x :
  declared_dep path_str dl c x ->
  fst (run_parallel tasks wake_rank calc_rank continue_ always proc fuel nprocs sched selection) = pre ++ PStart c w :: post ->
  pfinished pre x.
Proof.
  intros D E.
  exact (pordered_split tasks _ (parallel_dep_order tasks wake_rank calc_rank continue_ always proc fuel nprocs sched selection)
                        pre c w post E x (declared_static c x D)).
Qed.

Lemma serial_returned_file_order wake_rank calc_rank continue_ always fuel selection pre t post cc p :
  eff_calc tasks t cc -> returned_file_on_target path_str dl cc p ->
  fst (run_serial tasks wake_rank calc_rank continue_ always fuel selection) = pre ++ EExecute t :: post ->
  good_in pre p.
Proof.
  intros Hc R E.
  exact (cordered_split tasks _ (serial_contained tasks wake_rank calc_rank continue_ always fuel selection) pre t post E p
                        (returned_eff t cc p Hc R)).
Qed.

Lemma parallel_returned_file_order wake_rank calc_rank continue_ always proc fuel nprocs sched selection pre t w post cc p :
  eff_calc tasks t cc -> returned_file_on_target path_str dl cc p ->
  fst (run_parallel tasks wake_rank calc_rank continue_ always proc fuel nprocs sched selection) = pre ++ PStart t w :: post ->
  pgood pre p.
Proof.
  intros Hc R E.
  exact (pcordered_split tasks _ (parallel_contained tasks wake_rank calc_rank continue_ always proc fuel nprocs sched selection)
                         pre t w post E p (returned_eff t cc p Hc R)).
Qed.

End S.
