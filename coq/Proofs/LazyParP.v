(* LazyParP.v -- laziness of setup-tasks (property C11) under MRunner / MThreadRunner: both flavours of the
   parallel model, every worker count, EVERY schedule.
     parallel_lazy        log = pre ++ PStart s w :: post          ->  wanted selection (proj pre) s
     parallel_lazy_check  proj log = pre ++ EGetStatus s :: post   ->  wanted selection pre s
   (proj = the reporter / dep_manager events of the merged log; `wanted` as in LazyP.v), the setup-only corollary,
   and: the task r on whose behalf a setup-only task s starts is never reported up-to-date in the run.
   Invariant PL: ParallelP.PI + LazyP.RL on the main runner state + `plazy` on the log + NUl (the tasks that were
   in their `run` phase when some task started never get the status up-to-date). *)
From DoitV Require Import Base Dispatch Runner Parallel DispatchP DispatchInv RunnerTr RunnerP AncP ParallelP LazyP.
Open Scope N_scope.

Section LP.
Variable tasks : name -> option task.
Variable wake_rank : name -> name -> N.
Variable calc_rank : name -> N.
Variable continue_ always proc : bool.
Variable sel : list name.

Notation node_of := (node_of tasks).
Notation st_of := (st_of tasks).
Notation get_task := (get_task tasks).
Notation RI := (RI tasks).
Notation PI := (PI tasks).
Notation RL := (RL tasks sel).
Notation wanted := (wanted tasks sel).
Notation worker_step := (worker_step tasks proc).
Notation main_get := (main_get tasks proc).
Notation join_all := (join_all tasks proc).
Notation next_job_loop := (next_job_loop tasks wake_rank calc_rank continue_ always).
Notation get_next_job := (get_next_job tasks wake_rank calc_rank continue_ always).
Notation start_procs := (start_procs tasks wake_rank calc_rank continue_ always proc).
Notation hand_out := (hand_out tasks wake_rank calc_rank continue_ always).
Notation main_loop := (main_loop tasks wake_rank calc_rank continue_ always proc).
Notation terminate := (terminate proc).
Notation process_result := (process_result tasks continue_).

Lemma finished_in_plain tr evs x : forallb plain_ev evs = true -> finished_in (tr ++ evs) x -> finished_in tr x.
Proof.
  intros Hp Hf. unfold finished_in in *. rewrite existsb_app in Hf. apply orb_true_iff in Hf.
  destruct Hf as [Hf|Hf]; auto. exfalso. apply existsb_exists in Hf. destruct Hf as (e & Hin & He).
  rewrite forallb_forall in Hp. specialize (Hp e Hin). destruct e; simpl in *; discriminate.
Qed.

Lemma wanted_plain tr evs x : forallb plain_ev evs = true -> wanted tr x -> wanted (tr ++ evs) x.
Proof.
  intros Hp H. induction H as [x Hx|p x _ IH Hnp Hx|r x _ IH Hnr Hg Hx].
  - apply w_sel. exact Hx.
  - eapply w_dep; eauto. intros Hf. apply Hnp. eapply finished_in_plain; eauto.
  - eapply w_setup; eauto; [|apply in_app_iff; auto]. intros Hf. apply Hnr. eapply finished_in_plain; eauto.
Qed.

(* the log of the parallel run: when the actions of a task start, the task is wanted *)
Inductive plazy : list pevent -> Prop :=
| pz_nil : plazy []
| pz_snoc log e : plazy log -> (forall t w, e = PStart t w -> wanted (proj log) t) -> plazy (log ++ [e]).

Lemma plazy_app_nostart log evs :
  plazy log -> forallb (fun e => negb (is_pstart e)) evs = true -> plazy (log ++ evs).
Proof.
  revert log. induction evs as [|e evs IH]; intros log Ho Hn; simpl in *.
  - rewrite app_nil_r. exact Ho.
  - apply andb_true_iff in Hn. destruct Hn as [He Hn].
    replace (log ++ e :: evs) with ((log ++ [e]) ++ evs) by (rewrite <- app_assoc; reflexivity).
    apply IH; auto. constructor; auto. intros t w ->. discriminate.
Qed.

Lemma plazy_split log : plazy log ->
  forall pre t w post, log = pre ++ PStart t w :: post -> wanted (proj pre) t.
Proof.
  induction 1 as [|log e Ho IH He]; intros pre t w post E.
  - destruct pre; discriminate.
  - destruct post as [|p post'] using rev_ind.
    + apply app_inj_tail in E. destruct E as [-> ->]. eapply He; eauto.
    + clear IHpost'. rewrite app_comm_cons, app_assoc in E. apply app_inj_tail in E. destruct E as [-> _].
      eapply IH; eauto.
Qed.

Lemma nostart_map_PE tr : forallb (fun e => negb (is_pstart e)) (map PE tr) = true.
Proof. induction tr; simpl; auto. Qed.

(* sync + append, as plog does *)
Lemma plazy_ext log seen tr tr' evs :
  plazy log -> proj log = firstn seen tr -> (seen <= length tr)%nat -> (exists evs', tr' = tr ++ evs') ->
  (forall t w, In (PStart t w) evs -> evs = [PStart t w] /\ wanted tr' t) ->
  plazy ((log ++ map PE (skipn seen tr')) ++ evs).
Proof.
  intros Hz Hp Hs [evs' ->] He.
  assert (H1 : plazy (log ++ map PE (skipn seen (tr ++ evs')))) by (apply plazy_app_nostart; auto; apply nostart_map_PE).
  assert (Hq : proj (log ++ map PE (skipn seen (tr ++ evs'))) = tr ++ evs').
  { rewrite proj_app, proj_map_PE, Hp.
    replace (firstn seen tr) with (firstn seen (tr ++ evs')).
    - apply firstn_skipn.
    - rewrite firstn_app. replace (seen - length tr)%nat with 0%nat by lia. simpl. apply app_nil_r. }
  destruct (existsb is_pstart evs) eqn:Ex.
  - apply existsb_exists in Ex. destruct Ex as (e & Hin & Hst). destruct e; try discriminate.
    destruct (He k w Hin) as [-> Hw]. constructor; auto. intros t w0 E0. inversion E0; subst. rewrite Hq. exact Hw.
  - apply plazy_app_nostart; auto. apply forallb_forall. intros e Hin.
    destruct (is_pstart e) eqn:E; auto. exfalso.
    assert (existsb is_pstart evs = true) by (apply existsb_exists; eauto). congruence.
Qed.


(* ---------- tasks in their `run` phase at the start of some task are never up-to-date later ---------- *)
Definition okst (s : status) : Prop := s <> SNone /\ s <> SUpToDate.
Definition NUl (L : list pevent) (d : dstate) : Prop :=
  forall pre s w post r, L = pre ++ PStart s w :: post ->
    In (EGetStatus r) (proj pre) -> ~ finished_in (proj pre) r -> okst (st_of d r).
Definition stmono (d d' : dstate) : Prop := forall x, okst (st_of d x) -> okst (st_of d' x).

Lemma stmono_refl d : stmono d d. Proof. intros x H; exact H. Qed.
Lemma stmono_trans a b c : stmono a b -> stmono b c -> stmono a c.
Proof. intros A B x H. apply B, A, H. Qed.
Lemma stmono_st d d' : (forall x, st_of d' x = st_of d x) -> stmono d d'.
Proof. intros E x H. rewrite E. exact H. Qed.
Lemma NUl_st L d d' : stmono d d' -> NUl L d -> NUl L d'.
Proof. intros M H pre s w post r E A B. apply M. eapply H; eauto. Qed.

Lemma NUl_app_nostart L evs d : NUl L d -> forallb (fun e => negb (is_pstart e)) evs = true -> NUl (L ++ evs) d.
Proof.
  intros H Hn pre s w post r E A B. apply app_eq_app in E. destruct E as [l [[E1 E2]|[E1 E2]]].
  - destruct l as [|e l].
    + exfalso. simpl in E2. rewrite forallb_forall in Hn. assert (Hin : In (PStart s w) evs) by (rewrite <- E2; left; reflexivity).
      specialize (Hn _ Hin). discriminate.
    + inversion E2; subst. eapply H; eauto.
  - exfalso. rewrite forallb_forall in Hn.
    assert (Hin : In (PStart s w) evs) by (rewrite E2; apply in_app_iff; right; left; reflexivity).
    specialize (Hn _ Hin). discriminate.
Qed.

Lemma NUl_app_start L t w0 d :
  NUl L d -> (forall r, In (EGetStatus r) (proj L) -> ~ finished_in (proj L) r -> okst (st_of d r)) ->
  NUl (L ++ [PStart t w0]) d.
Proof.
  intros H Hn pre s w post r E A B.
  destruct post as [|x post'] using rev_ind.
  - apply app_inj_tail in E. destruct E as [<- _]. auto.
  - clear IHpost'. rewrite app_comm_cons, app_assoc in E. apply app_inj_tail in E. destruct E as [-> _]. eapply H; eauto.
Qed.

Lemma RL_okst r x : RL r -> In (EGetStatus x) (r_tr r) -> ~ finished_in (r_tr r) x -> okst (st_of (r_d r) x).
Proof.
  intros HL Hg Hnf. split.
  - apply (rl_gs _ _ _ HL). exact Hg.
  - intros E. apply Hnf. apply (ri_link _ _ _ (rl_ri _ _ _ HL)). unfold DispatchInv.final. rewrite E. reflexivity.
Qed.

(* the runner only moves a status forward *)
Lemma select_task_later_st r k b r1 :
  n_st (node_of (r_d r) k) <> SNone -> select_task tasks continue_ always r k = (b, r1) ->
  st_of (r_d r1) k = st_of (r_d r) k \/ st_of (r_d r1) k = SIgnore \/ st_of (r_d r1) k = SFailure.
Proof.
  intros Hn E. unfold Runner.select_task in E.
  assert (Hlater :
     (if negb (is_nil (n_ign (node_of (r_d r) k)))
      then (false, emit (with_d r (set_status tasks (r_d r) k SIgnore)) [ESkipIgnore k])
      else if negb (is_nil (n_bad (node_of (r_d r) k))) then (false, handle_error tasks continue_ r k kind_unmet)
      else get_args tasks continue_ r k) = (b, r1) ->
     st_of (r_d r1) k = st_of (r_d r) k \/ st_of (r_d r1) k = SIgnore \/ st_of (r_d r1) k = SFailure).
  { intros Q. destruct (negb (is_nil (n_ign _))).
    { inversion Q; subst. simpl. rewrite set_status_st, N.eqb_refl. auto. }
    destruct (negb (is_nil (n_bad _))).
    { inversion Q; subst. simpl. rewrite set_status_st, N.eqb_refl. auto. }
    unfold get_args in Q. destruct (t_argerr (get_task k)); inversion Q; subst; auto.
    simpl. rewrite set_status_st, N.eqb_refl. auto. }
  destruct (n_st (node_of (r_d r) k)); try (apply Hlater; exact E). contradiction.
Qed.

Lemma select_task_stmono r k b r1 : select_task tasks continue_ always r k = (b, r1) -> stmono (r_d r) (r_d r1).
Proof.
  intros E x Hx. destruct (N.eqb_spec x k) as [->|Hne].
  - destruct (select_task_later_st r k b r1 (proj1 Hx) E) as [H|[H|H]]; rewrite H; auto; split; discriminate.
  - destruct (select_task_ext tasks continue_ always _ _ _ _ E) as [_ Sto]. rewrite Sto by auto. exact Hx.
Qed.

Lemma process_result_stmono r k : stmono (r_d r) (r_d (process_result r k)).
Proof.
  intros x Hx. unfold Runner.process_result, handle_error, handle_error_gen.
  destruct (t_outcome (get_task k)); simpl; auto; rewrite set_status_st;
    destruct (N.eqb x k); auto; split; discriminate.
Qed.

Record PL (p : pstate) : Prop := {
  pl_pi : PI p; pl_rl : RL (p_r p); pl_lz : plazy (p_log p); pl_nu : NUl (p_log p) (r_d (p_r p)) }.

Lemma spent_exn d k : spent tasks d k -> exn d k.
Proof.
  intros Hs. apply (exists_of_pc tasks). destruct Hs as [E|[E _]]; rewrite E; discriminate.
Qed.

(* plog on a state whose runner and log are those of p *)
Lemma plazy_plog p evs :
  PL p -> (forall t w, In (PStart t w) evs -> evs = [PStart t w] /\ wanted (r_tr (p_r p)) t) ->
  plazy (p_log (plog p evs)).
Proof.
  intros [HP HL HZ] He. unfold plog, sync. cbn [p_log p_r p_seen].
  apply (plazy_ext _ _ (r_tr (p_r p))); auto.
  - apply (pi_proj _ _ HP).
  - apply (pi_seen _ _ HP).
  - exists []. rewrite app_nil_r. reflexivity.
Qed.

Lemma plazy_plog_gen p q evs :
  PI p -> plazy (p_log p) -> (exists evs', r_tr (p_r q) = r_tr (p_r p) ++ evs') ->
  p_log q = p_log p -> p_seen q = p_seen p ->
  (forall t w, In (PStart t w) evs -> evs = [PStart t w] /\ wanted (r_tr (p_r q)) t) ->
  plazy (p_log (plog q evs)).
Proof.
  intros HP HZ [evs' Et] El Es He. unfold plog, sync. cbn [p_log p_r p_seen]. rewrite El, Es.
  apply (plazy_ext _ _ (r_tr (p_r p))); auto.
  - apply (pi_proj _ _ HP).
  - apply (pi_seen _ _ HP).
  - exists evs'. exact Et.
Qed.

Lemma nostart_in (evs : list pevent) :
  (forall e, In e evs -> is_pstart e = false) -> forall t w, In (PStart t w) evs -> False.
Proof. intros H t w Hin. specialize (H _ Hin). discriminate. Qed.


Lemma NUl_plog_gen p q evs :
  PI p -> NUl (p_log p) (r_d (p_r p)) -> RL (p_r q) -> r_d (p_r q) = r_d (p_r p) ->
  (exists evs', r_tr (p_r q) = r_tr (p_r p) ++ evs') -> p_log q = p_log p -> p_seen q = p_seen p ->
  (forallb (fun e => negb (is_pstart e)) evs = true \/ exists t w, evs = [PStart t w]) ->
  NUl (p_log (plog q evs)) (r_d (p_r (plog q evs))).
Proof.
  intros HP HN HL Ed [evs' Et] El Es He. unfold plog, sync. cbn [p_log p_r p_seen]. rewrite El, Es, Ed.
  assert (H1 : NUl (p_log p ++ map PE (skipn (p_seen p) (r_tr (p_r q)))) (r_d (p_r p))).
  { apply NUl_app_nostart; auto. apply nostart_map_PE. }
  destruct He as [He|(t & w & ->)]; [apply NUl_app_nostart; auto|].
  apply NUl_app_start; auto.
  assert (Hq : proj (p_log p ++ map PE (skipn (p_seen p) (r_tr (p_r q)))) = r_tr (p_r q)).
  { rewrite proj_app, proj_map_PE, (pi_proj _ _ HP), Et.
    replace (firstn (p_seen p) (r_tr (p_r p))) with (firstn (p_seen p) (r_tr (p_r p) ++ evs')).
    - apply firstn_skipn.
    - rewrite firstn_app. pose proof (pi_seen _ _ HP).
      replace (p_seen p - length (r_tr (p_r p)))%nat with 0%nat by lia. simpl. apply app_nil_r. }
  rewrite Hq. intros r A B. rewrite <- Ed. apply RL_okst; auto.
Qed.

(* ---------- workers ---------- *)
Lemma worker_step_PL p w : PL p -> PL (worker_step p w).
Proof.
  intros HPL. pose proof HPL as [HP HL HZ HN].
  split; [apply worker_step_PI; exact HP| | |]; unfold Parallel.worker_step;
    destruct (nth w (p_workers p) WExited) as [|k|] eqn:Ew; auto.
  - (* runner, idle *)
    destruct (p_jobs p) as [|j js] eqn:Ej; auto. destruct j as [k| |]; auto.
    + destruct proc; cbn [p_r plog sync with_workers with_results with_jobs with_r]; auto.
      apply RL_start; auto. apply (ready_deps tasks p k).
      apply (pi_ready _ _ HP). rewrite Ej. simpl. left. reflexivity.
    + destruct proc; cbn [p_r plog sync with_workers with_results with_jobs with_r]; auto.
  - (* runner, busy *)
    destruct (is_interrupt tasks k); cbn [p_r plog sync with_workers with_results with_jobs with_r]; auto.
  - (* log, idle *)
    destruct (p_jobs p) as [|j js] eqn:Ej; auto. destruct j as [k| |]; auto.
    + assert (Hk : In k (live p)) by (unfold live; rewrite Ej; simpl; auto).
      destruct (pi_run _ _ HP k Hk) as [Hst Hsp].
      assert (Hw : wanted (r_tr (p_r p)) k) by (apply RL_wanted; auto; apply spent_exn; exact Hsp).
      destruct proc.
      * apply (plazy_plog_gen p); auto.
        -- exists []. rewrite app_nil_r. reflexivity.
        -- intros t w' [E|[]]. inversion E; subst. auto.
      * apply (plazy_plog_gen p); auto.
        -- exists [EExecute k]. reflexivity.
        -- intros t w' [E|[]]. inversion E; subst. split; auto.
           cbn [p_r with_workers with_r with_jobs]. unfold start_task. cbn [r_tr]. apply wanted_plain; auto.
    + destruct proc; cbn [p_log with_workers]; auto.
      cbn [p_log with_results]. apply (plazy_plog_gen p); auto.
      * exists []. rewrite app_nil_r. reflexivity.
      * intros t w' Hin. apply in_map_iff in Hin. destruct Hin as (y & E & _). discriminate.
  - (* log, busy *)
    assert (H1 : plazy (p_log (plog p [PEnd k w]))).
    { apply (plazy_plog_gen p); auto.
      - exists []. rewrite app_nil_r. reflexivity.
      - intros t w' [E|[]]. discriminate. }
    destruct (is_interrupt tasks k); exact H1.
  - (* never up-to-date, idle *)
    destruct (p_jobs p) as [|j js] eqn:Ej; auto. destruct j as [k| |]; auto.
    + destruct proc.
      * apply (NUl_plog_gen p); auto.
        -- exists []. rewrite app_nil_r. reflexivity.
        -- right. eauto.
      * apply (NUl_plog_gen p); auto.
        -- cbn [p_r with_workers with_r with_jobs]. apply RL_start; auto. apply (ready_deps tasks p k).
           apply (pi_ready _ _ HP). rewrite Ej. simpl. left. reflexivity.
        -- exists [EExecute k]. reflexivity.
        -- right. eauto.
    + destruct proc; cbn [p_log p_r with_workers]; auto.
      cbn [p_log p_r with_results]. apply (NUl_plog_gen p); auto.
      * exists []. rewrite app_nil_r. reflexivity.
      * left. clear. induction (rev (nth w (p_wtd (with_jobs p js)) [])); simpl; auto.
  - (* never up-to-date, busy *)
    assert (H1 : NUl (p_log (plog p [PEnd k w])) (r_d (p_r p))).
    { apply (NUl_plog_gen p p [PEnd k w]); auto. exists []. rewrite app_nil_r. reflexivity. }
    destruct (is_interrupt tasks k); exact H1.
Qed.

(* bookkeeping updates that keep runner state and log *)
Lemma PL_same p p' : PI p' -> p_r p' = p_r p -> p_log p' = p_log p -> PL p -> PL p'.
Proof. intros HP Er El [A B C D]. split; [exact HP|rewrite Er; exact B|rewrite El; exact C|rewrite Er, El; exact D]. Qed.

Lemma with_sched_PI p s : PI p -> PI (with_sched p s).
Proof. intros HP. apply (PI_update tasks p); auto. intros x Hx. apply PI_ready_of; auto. Qed.

Lemma main_get_PL fuel : forall p m p', PL p -> main_get fuel p = (m, p') -> PL p'.
Proof.
  induction fuel as [|fuel IH]; intros p m p' H E.
  { cbn [Parallel.main_get] in E. inversion E; subst. exact H. }
  pose proof (main_get_PI tasks proc (S fuel) p m p' (pl_pi _ H) E) as (HP' & _).
  cbn [Parallel.main_get] in E.
  set (ws := enabled_workers p (length (p_workers p)) 0) in *.
  destruct ((if negb (is_nil (p_results p)) then 1 else 0) + length ws)%nat.
  { inversion E; subst. split; [exact HP'|apply (pl_rl _ H)| |].
    - apply (plazy_plog_gen p); auto; [apply (pl_pi _ H)|apply (pl_lz _ H)|exists []; rewrite app_nil_r; reflexivity|].
      intros t w [E0|[]]. discriminate.
    - apply (NUl_plog_gen p p [PHang]); auto; [apply (pl_pi _ H)|apply (pl_nu _ H)|apply (pl_rl _ H)|].
      exists []. rewrite app_nil_r. reflexivity. }
  destruct (choose (S n) (p_sched p)) as [c s].
  assert (Hs : PL (with_sched p s)) by (apply (PL_same p); auto; apply with_sched_PI; apply (pl_pi _ H)).
  destruct (negb (is_nil (p_results p)) && Nat.eqb c 0).
  - simpl in E. destruct (p_results p) as [|m0 rs] eqn:Er.
    + inversion E; subst. exact Hs.
    + inversion E; subst. apply (PL_same p); auto.
  - eapply IH; [|exact E]. apply worker_step_PL. exact Hs.
Qed.

Lemma join_all_PL fuel : forall p, PL p -> PL (join_all fuel p).
Proof.
  induction fuel as [|fuel IH]; intros p H; cbn [Parallel.join_all]; auto.
  destruct (enabled_workers p (length (p_workers p)) 0) as [|w ws]; auto.
  destruct (choose (length (w :: ws)) (p_sched p)) as [c s].
  apply IH. apply worker_step_PL. apply (PL_same p); auto. apply with_sched_PI. apply (pl_pi _ H).
Qed.

(* ---------- get_next_job ---------- *)
Lemma next_job_loop_RL fuel : forall p completed g p',
  RL (p_r p) -> Pre tasks (r_d (p_r p)) ->
  (forall k, completed = Some k -> st_of (r_d (p_r p)) k <> SNone /\ exn (r_d (p_r p)) k) ->
  next_job_loop fuel p completed = (g, p') ->
  RL (p_r p') /\ p_log p' = p_log p /\ stmono (r_d (p_r p)) (r_d (p_r p')).
Proof.
  induction fuel as [|fuel IH]; intros p completed g p' HL HPre Hc E; cbn [Parallel.next_job_loop] in E.
  { inversion E; subst. split; auto. split; auto. apply stmono_refl. }
  destruct (disp_send tasks wake_rank calc_rank (S fuel) (r_d (p_r p)) completed) as [y d] eqn:Ed.
  destruct (RL_disp tasks wake_rank calc_rank sel _ _ _ _ _ HL HPre Hc Ed) as [HL' Hpost].
  assert (Md : stmono (r_d (p_r p)) d).
  { apply stmono_st. destruct Hpost as (_ & _ & _ & St & _). exact St. }
  destruct y as [k| | |path|]; try (inversion E; subst; split; auto; split; auto; apply stmono_refl).
  destruct (handed_of_post tasks _ _ _ Hpost) as (HK & Hcur & Hns).
  destruct (select_task tasks continue_ always (with_d (p_r p) d) k) as [b r1] eqn:Es.
  pose proof (RL_select tasks continue_ always sel _ _ _ _ HL' HK Hcur Es) as HL1.
  pose proof (select_task_post tasks continue_ always (with_d (p_r p) d) k b r1 (rl_ri _ _ _ HL') HK Es) as (R1 & P1 & S1 & Pc1 & C1 & D1 & T1 & O1).
  assert (M1 : stmono (r_d (p_r p)) (r_d r1)).
  { eapply stmono_trans; [exact Md|]. apply (select_task_stmono _ _ _ _ Es). }
  destruct b.
  - inversion E; subst. auto.
  - destruct (IH (with_r p r1) (Some k) g p') as (A & B & C); auto.
    + intros k' E'. inversion E'; subst. split; auto.
      apply (lw_q _ _ _ _ (rl_w _ _ _ HL1)). right; right. cbn [p_r with_r]. rewrite C1. exact Hcur.
    + split; auto. split; auto. eapply stmono_trans; [exact M1|exact C].
Qed.

Lemma get_next_job_PL fuel p completed g p' :
  PL p -> (forall k, completed = Some k -> st_of (r_d (p_r p)) k <> SNone /\ exn (r_d (p_r p)) k) ->
  get_next_job fuel p completed = (g, p') ->
  PL p' /\ (forall k, g = GJob (JTask k) -> ready tasks p' k /\ running tasks p' k /\ ~ In k (live p') /\ ~ In k (pstarts (p_log p'))).
Proof.
  intros H Hc E.
  destruct (get_next_job_PI tasks wake_rank calc_rank continue_ always fuel p completed g p' (pl_pi _ H)) as [HP' Hr]; auto.
  { intros k Ek. apply (Hc k Ek). }
  split; auto. unfold Parallel.get_next_job in E. destruct (r_stop (p_r p)).
  - inversion E; subst. exact H.
  - destruct (next_job_loop_RL fuel p completed g p' (pl_rl _ H) (pi_pre _ _ (pl_pi _ H)) Hc E) as (A & B & C).
    split; auto; rewrite B; [apply (pl_lz _ H)|]. eapply NUl_st; [exact C|apply (pl_nu _ H)].
Qed.

(* ---------- queues ---------- *)
Lemma put_job_PL p j :
  PL p -> (forall k, j = JTask k -> ready tasks p k /\ running tasks p k /\ ~ In k (live p) /\ ~ In k (pstarts (p_log p))) -> PL (put_job p j).
Proof. intros H Hj. apply (PL_same p); auto. apply put_job_PI; auto. apply (pl_pi _ H). Qed.

Lemma start_worker_PL p : PL p -> PL (start_worker p).
Proof. intros H. apply (PL_same p); auto. apply start_worker_PI. apply (pl_pi _ H). Qed.

Lemma with_counts_PL p a b : PL p -> PL (with_counts p a b).
Proof. intros H. apply (PL_same p); auto. apply with_counts_PI. apply (pl_pi _ H). Qed.

Lemma terminate_PL p : PL p -> PL (terminate p).
Proof.
  intros H. pose proof (terminate_PI tasks proc p (pl_pi _ H)) as HP'.
  unfold Parallel.terminate in *. destruct (proc && negb (is_nil (p_workers p))); auto.
  split; [exact HP'|apply (pl_rl _ H)| |].
  - apply (plazy_plog_gen p); auto; [apply (pl_pi _ H)|apply (pl_lz _ H)|exists []; rewrite app_nil_r; reflexivity|].
    intros t w [E|[]]. discriminate.
  - apply (NUl_plog_gen p _ [PTerminate]); auto; [apply (pl_pi _ H)|apply (pl_nu _ H)|apply (pl_rl _ H)|].
    exists []. rewrite app_nil_r. reflexivity.
Qed.

Lemma start_procs_PL fuel n : forall p e p', PL p -> start_procs fuel n p = (e, p') -> PL p'.
Proof.
  induction n as [|n IH]; intros p e p' H E; cbn [Parallel.start_procs] in E.
  { inversion E; subst. exact H. }
  destruct (get_next_job fuel p None) as [g p1] eqn:Eg.
  destruct (get_next_job_PL fuel p None g p1 H ltac:(intros k Ek; discriminate) Eg) as [H1 Hr].
  destruct g as [j| |path|].
  - eapply IH; [|exact E]. apply start_worker_PL. apply put_job_PL; auto. intros k ->. apply Hr. reflexivity.
  - inversion E; subst. exact H1.
  - inversion E; subst. apply terminate_PL. exact H1.
  - inversion E; subst. exact H1.
Qed.

Lemma hand_out_PL fuel n : forall p completed e p',
  PL p -> (forall k, completed = Some k -> st_of (r_d (p_r p)) k <> SNone /\ exn (r_d (p_r p)) k) ->
  hand_out fuel n p completed = (e, p') -> PL p'.
Proof.
  induction n as [|n IH]; intros p completed e p' H Hc E; cbn [Parallel.hand_out] in E.
  { inversion E; subst. exact H. }
  destruct (get_next_job fuel p completed) as [g p1] eqn:Eg.
  destruct (get_next_job_PL fuel p completed g p1 H Hc Eg) as [H1 Hr].
  destruct g as [j| |path|].
  - eapply IH; [| |exact E].
    + apply put_job_PL; auto. intros k ->. apply Hr. reflexivity.
    + intros k Ek; discriminate.
  - eapply IH; [| |exact E].
    + apply put_job_PL; [apply with_counts_PL; exact H1|intros k Ek; discriminate].
    + intros k Ek; discriminate.
  - inversion E; subst. exact H1.
  - inversion E; subst. exact H1.
Qed.

(* ---------- the main loop ---------- *)
Lemma PL_with_r_plain p r' evs :
  PL p -> PI (with_r p r') -> r_d r' = r_d (p_r p) -> r_tr r' = r_tr (p_r p) ++ evs ->
  forallb plain_ev evs = true -> PL (with_r p r').
Proof.
  intros [HP HL HZ HN] HP' Ed Et Hp. split; auto.
  - cbn [p_r with_r]. apply (RL_plain tasks sel (p_r p) r' evs); auto. apply (pi_ri _ _ HP').
  - cbn [p_r p_log with_r]. rewrite Ed. exact HN.
Qed.

Lemma process_result_exn r k z : exn (r_d r) z -> exn (r_d (process_result r k)) z.
Proof.
  intros Hz. unfold Runner.process_result, handle_error, handle_error_gen.
  destruct (t_outcome (get_task k)); simpl; auto; apply set_status_exn; auto.
Qed.

Lemma process_result_PL p k :
  PL p -> ready tasks p k -> running tasks p k -> ~ In k (live p) ->
  PL (with_r p (process_result (p_r p) k)) /\
  st_of (r_d (process_result (p_r p) k)) k <> SNone /\ exn (r_d (process_result (p_r p) k)) k.
Proof.
  intros [HP HL HZ HN] Hrd Hrun Hnl.
  destruct (process_result_PI tasks continue_ p k HP Hrd Hrun Hnl) as [HP' S'].
  destruct Hrun as [Hst Hsp]. destruct (spent_flags tasks _ _ Hsp) as [He Hns].
  pose proof (spent_exn _ _ Hsp) as Hk.
  split; [|split; auto; apply process_result_exn; exact Hk].
  split; auto; [|cbn [p_r p_log with_r]; eapply NUl_st; [apply process_result_stmono|exact HN]].
  cbn [p_r with_r].
  destruct (is_interrupt tasks k) eqn:Ei.
  - unfold is_interrupt in Ei. unfold Runner.process_result. destruct (t_outcome (get_task k)); try discriminate. exact HL.
  - apply (RL_process tasks continue_ sel (p_r p) k); auto.
    + intros z Hz Hpc. apply (pi_pre _ _ HP). exact Hpc.
    + intros x Hx. apply good_in_finished. apply (proj2 Hrd). apply ed_static.
      unfold static_deps. rewrite !in_app_iff. auto.
Qed.

Lemma main_loop_PL fuel : forall p e p', PL p -> main_loop fuel p = (e, p') -> PL p'.
Proof.
  induction fuel as [|fuel IH]; intros p e p' H E; cbn [Parallel.main_loop] in E.
  { inversion E; subst. exact H. }
  destruct (p_count p). { inversion E; subst. exact H. }
  destruct (main_get (S fuel * 4) p) as [m p1] eqn:Em.
  pose proof (main_get_PL _ _ _ _ H Em) as H1.
  destruct (main_get_PI tasks proc _ _ _ _ (pl_pi _ H) Em) as (HP1 & Hr & Hrr).
  destruct m as [[k|k|k|k]|].
  - (* a result *)
    assert (Hk : ready tasks p1 k) by (apply Hr; left; reflexivity).
    destruct (Hrr k eq_refl) as [Hk2 Hk3].
    destruct (process_result_PL p1 k H1 Hk Hk2 Hk3) as (H2 & S2 & X2).
    set (p2 := with_r p1 (process_result (p_r p1) k)) in *.
    destruct (hand_out (S fuel) (S (p_free p2)) (with_counts p2 0 (p_count p2)) (Some k)) as [e2 p3] eqn:Eh.
    assert (H3 : PL p3).
    { eapply hand_out_PL; [| |exact Eh]; [apply with_counts_PL; exact H2|].
      intros k0 Ek. inversion Ek; subst. split; auto. }
    destruct e2; try (inversion E; subst; apply terminate_PL; exact H3).
    destruct (deadlocked p3).
    + inversion E; subst. apply terminate_PL. exact H3.
    + eapply IH; eauto.
  - (* execute report forwarded by a worker process *)
    eapply IH; [|exact E]. apply (PL_with_r_plain p1 _ [EExecute k]); auto.
    apply PI_emit_main; auto.
    apply RI_exec; [apply (pi_ri _ _ HP1)|]. apply (ready_deps tasks _ _ (Hr k (or_intror eq_refl))).
  - (* teardown report *)
    eapply IH; [|exact E]. apply (PL_with_r_plain p1 _ [ETeardown k]); auto.
    apply PI_emit_main; auto. apply RI_emit; [apply (pi_ri _ _ HP1)|reflexivity|intros e0 x0 [<-|[]]; reflexivity].
  - inversion E; subst. apply terminate_PL. exact H1.
  - inversion E; subst. apply terminate_PL. exact H1.
Qed.

Lemma drain_PL p : PL p -> PL (drain p).
Proof.
  intros [HP HL HZ HN]. pose proof (drain_PI tasks p HP) as HP'. split; auto.
  pose proof (pi_ri _ _ HP') as HR'. unfold drain in *. cbn [p_r with_results with_r] in *.
  set (evs := flat_map _ (p_results p)) in *.
  apply (RL_plain tasks sel (p_r p) _ evs); auto.
  unfold evs. clear. induction (p_results p) as [|m l IH]; simpl; auto.
  rewrite forallb_app, IH, andb_true_r. destruct m; reflexivity.
Qed.

Lemma PL_init sched : PL (p_init sched sel).
Proof. split; [apply PI_init|apply RL_init|constructor|]. intros pre s w post r E. destruct pre; discriminate. Qed.

(* the markers run_parallel appends after finish() *)
Definition pmarker (mk : list pevent) : Prop :=
  forallb (fun e => match e with PE e' => plain_ev e' && negb (is_exec e') | _ => false end) mk = true.

(* the state just before finish() *)
Lemma parallel_before_finish fuel nprocs sched :
  exists p2 mk, PL p2 /\ pmarker mk /\
    fst (run_parallel tasks wake_rank calc_rank continue_ always proc fuel nprocs sched sel)
      = p_log (sync (with_r p2 (finish (p_r p2)))) ++ mk.
Proof.
  unfold run_parallel.
  destruct (start_procs fuel nprocs (p_init sched sel)) as [e1 p1] eqn:E1.
  pose proof (start_procs_PL fuel nprocs _ _ _ (PL_init sched) E1) as H1.
  destruct e1; try (cbv beta iota zeta delta [fst]; exists p1; eexists; split; [exact H1|split; [|reflexivity]]; reflexivity).
  set (p1' := with_counts p1 (p_free p1) (length (p_workers p1))).
  assert (H1' : PL p1') by (apply with_counts_PL; exact H1).
  destruct (deadlocked p1').
  { cbv beta iota zeta delta [fst]. exists (terminate p1'). eexists. split; [apply terminate_PL; exact H1'|split; [|reflexivity]]. reflexivity. }
  destruct (main_loop fuel p1') as [e2 p2] eqn:E2.
  pose proof (main_loop_PL fuel _ _ _ H1' E2) as H2.
  destruct e2; cbv beta iota zeta delta [fst];
    try (exists p2; eexists; split; [exact H2|split; [|reflexivity]]; reflexivity).
  exists (drain (join_all (fuel * 4) p2)). eexists. split; [apply drain_PL; apply join_all_PL; exact H2|].
  split; [|reflexivity]. reflexivity.
Qed.

Lemma pmarker_nostart mk : pmarker mk -> forallb (fun e => negb (is_pstart e)) mk = true.
Proof.
  unfold pmarker. induction mk as [|e mk IH]; simpl; auto. intros H. apply andb_true_iff in H. destruct H as [He Hm].
  rewrite IH by exact Hm. destruct e; simpl in *; auto; discriminate.
Qed.
Lemma pmarker_plain mk : pmarker mk -> forallb plain_ev (proj mk) = true.
Proof.
  unfold pmarker. induction mk as [|e mk IH]; simpl; auto. intros H. apply andb_true_iff in H. destruct H as [He Hm].
  destruct e; simpl in *; try discriminate. apply andb_true_iff in He. destruct He as [He _]. rewrite He. simpl. auto.
Qed.

Lemma parallel_lazy_log fuel nprocs sched :
  plazy (fst (run_parallel tasks wake_rank calc_rank continue_ always proc fuel nprocs sched sel)).
Proof.
  destruct (parallel_before_finish fuel nprocs sched) as (p2 & mk & H2 & Hm & ->).
  apply plazy_app_nostart; [|apply pmarker_nostart; exact Hm].
  unfold sync. cbn [p_log p_r p_seen with_r]. apply plazy_app_nostart; [apply (pl_lz _ H2)|apply nostart_map_PE].
Qed.

(* the reporter / dep_manager events of the whole run: every task is status-checked at most once and an
   up-to-date report directly follows the status check *)
Lemma parallel_TA fuel nprocs sched :
  TA (proj (fst (run_parallel tasks wake_rank calc_rank continue_ always proc fuel nprocs sched sel))).
Proof.
  destruct (parallel_before_finish fuel nprocs sched) as (p2 & mk & H2 & Hm & ->).
  pose proof (finish_PI tasks p2 (pl_pi _ H2)) as HP3.
  rewrite proj_app, (pi_proj tasks _ HP3). cbn [p_seen p_r sync with_r]. rewrite firstn_all.
  destruct (plain_noup _ (pmarker_plain mk Hm)) as [A B].
  apply TA_app_plain; auto. apply TA_finish. apply (rl_ta _ _ _ (pl_rl _ H2)).
Qed.

(* LAZINESS, both parallel flavours, every worker count, every schedule: when the actions of s start in a
   worker, s is wanted w.r.t. the reporter / dep_manager events that precede the start in the merged log *)
Theorem parallel_lazy fuel nprocs sched pre s w post :
  fst (run_parallel tasks wake_rank calc_rank continue_ always proc fuel nprocs sched sel) = pre ++ PStart s w :: post ->
  wanted (proj pre) s.
Proof. intros E. eapply plazy_split; [apply parallel_lazy_log|exact E]. Qed.

Theorem parallel_lazy_setup_only fuel nprocs sched pre s w post :
  fst (run_parallel tasks wake_rank calc_rank continue_ always proc fuel nprocs sched sel) = pre ++ PStart s w :: post ->
  ~ In s sel -> (forall p, ~ hdep tasks p s) ->
  exists r, In s (t_setup (get_task r)) /\ In (EGetStatus r) (proj pre) /\ ~ finished_in (proj pre) r /\ wanted (proj pre) r.
Proof.
  intros E Hs Hd. pose proof (parallel_lazy fuel nprocs sched pre s w post E) as H.
  inversion H as [x Hx|p x Hp Hnp Hx|r x Hr Hnr Hg Hx]; subst.
  - contradiction.
  - exfalso. eapply Hd; eauto.
  - exists r. auto.
Qed.

(* ... and that task r is not an up-to-date task: it is not reported up-to-date anywhere in the run *)
Theorem parallel_lazy_not_uptodate fuel nprocs sched pre s w post :
  let log := fst (run_parallel tasks wake_rank calc_rank continue_ always proc fuel nprocs sched sel) in
  log = pre ++ PStart s w :: post ->
  ~ In s sel -> (forall p, ~ hdep tasks p s) ->
  exists r, In s (t_setup (get_task r)) /\ In (EGetStatus r) (proj pre) /\ ~ finished_in (proj pre) r /\
            ~ In (ESkipUpToDate r) (proj log).
Proof.
  cbv zeta. intros E Hs Hd. destruct (parallel_lazy_setup_only fuel nprocs sched pre s w post E Hs Hd) as (r & A & B & C & _).
  exists r. split; auto. split; auto. split; auto.
  destruct (parallel_before_finish fuel nprocs sched) as (p2 & mk & H2 & Hm & E2).
  rewrite E2 in E. rewrite E2. clear E2.
  assert (HN : NUl (p_log (sync (with_r p2 (finish (p_r p2)))) ++ mk) (r_d (p_r p2))).
  { apply NUl_app_nostart; [|apply pmarker_nostart; exact Hm].
    unfold sync. cbn [p_log p_r p_seen with_r]. apply NUl_app_nostart; [apply (pl_nu _ H2)|apply nostart_map_PE]. }
  destruct (HN pre s w post r E B C) as [_ Hnu].
  pose proof (finish_PI tasks p2 (pl_pi _ H2)) as HP3.
  rewrite proj_app, (pi_proj tasks _ HP3). cbn [p_seen p_r sync with_r]. rewrite firstn_all.
  unfold finish, emit. cbn [r_tr]. intros Hin.
  rewrite !in_app_iff in Hin. destruct Hin as [[Hin|Hin]|Hin].
  - pose proof (ri_match _ _ _ (pi_ri _ _ (pl_pi _ H2)) r (ESkipUpToDate r) Hin) as Hm'.
    simpl in Hm'. rewrite N.eqb_refl in Hm'. specialize (Hm' eq_refl).
    destruct (st_of (r_d (p_r p2)) r); try discriminate. apply Hnu. reflexivity.
  - simpl in Hin. destruct Hin as [Hin|Hin]; [discriminate|]. apply in_map_iff in Hin. destruct Hin as (y & Ey & _). discriminate.
  - pose proof (pmarker_plain mk Hm) as Hp. rewrite forallb_forall in Hp. specialize (Hp _ Hin). discriminate.
Qed.

(* LAZINESS of the status check, both parallel flavours: among the reporter / dep_manager events of the run the
   status of a task is looked at only if the task is wanted w.r.t. the events before *)
Theorem parallel_lazy_check fuel nprocs sched pre s post :
  proj (fst (run_parallel tasks wake_rank calc_rank continue_ always proc fuel nprocs sched sel)) = pre ++ EGetStatus s :: post ->
  wanted pre s.
Proof.
  destruct (parallel_before_finish fuel nprocs sched) as (p2 & mk & H2 & Hm & ->).
  pose proof (finish_PI tasks p2 (pl_pi _ H2)) as HP3.
  rewrite proj_app, (pi_proj tasks _ HP3). cbn [p_seen p_r sync with_r]. rewrite firstn_all.
  intros E. eapply checked_split; [|exact E].
  destruct (plain_noup _ (pmarker_plain mk Hm)) as [_ B].
  apply checked_app_noget; auto. unfold finish, emit. cbn [r_tr].
  apply checked_app_noget; [apply (rl_ck _ _ _ (pl_rl _ H2))|].
  simpl. induction (rev (r_td (p_r p2))); simpl; auto.
Qed.

End LP.

Print Assumptions parallel_lazy.
Print Assumptions parallel_lazy_setup_only.
Print Assumptions parallel_lazy_not_uptodate.
Print Assumptions parallel_lazy_check.
