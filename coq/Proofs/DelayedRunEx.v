(* DelayedRunEx.v -- the hypotheses of DelayedRunP / DelayedDepP are what TaskControl.process leaves (fresh_queues after any
   selection), and a concrete run in which a creator makes tasks with dependencies -- explicit, and implicit through a file_dep
   on another created task's target -- that are executed dependencies first. *)
From DoitV Require Import Base Dispatch Runner Delayed DelayedP DelayedStepP DelayedRunP DelayedDepP.
Open Scope N_scope.

(* ---------- _filter_tasks does not touch the dispatcher's queues ---------- *)
Definition qsame (d d' : dst) : Prop := q_ready d' = q_ready d /\ q_waiting d' = q_waiting d /\ q_cur d' = q_cur d.

Lemma add_rx_fold_q rx_name g f ms : forall s, qsame (ss_d s) (ss_d (fold_left (add_rx rx_name g f) ms s)).
Proof.
  induction ms as [|k r IH]; intro s; simpl; [repeat split|].
  destruct (IH (add_rx rx_name g f s k)) as (A & B & C).
  assert (Q : qsame (ss_d s) (ss_d (add_rx rx_name g f s k))).
  { unfold add_rx. destruct (dt_loader (tab_get (ss_d s) k)); simpl; repeat split. }
  destruct Q as (A' & B' & C'). repeat split; congruence.
Qed.

Lemma filter_one_q sv base_of is_rx rmatch rx_name auto s f s' :
  filter_one sv base_of is_rx rmatch rx_name auto s f = Some s' -> qsame (ss_d s) (ss_d s').
Proof.
  unfold filter_one. intro H.
  destruct (q_tab (ss_d s) f); [inversion H; subst; repeat split|].
  destruct (q_tg (ss_d s) f); [inversion H; subst; repeat split|].
  destruct (q_tab (ss_d s) (base_of f)) as [tb|].
  - destruct (dt_loader tb); [|discriminate]. inversion H; subst. repeat split.
  - match type of H with context [is_nil ?m] => destruct (is_nil m); [discriminate|] end.
    inversion H; subst. clear H.
    match goal with |- qsame _ (ss_d (fold_left ?F ?ms ?s0)) => exact (add_rx_fold_q rx_name (ss_gnext s) f ms s0) end.
Qed.

Lemma filter_tasks_q sv base_of is_rx rmatch rx_name auto fs : forall s s',
  filter_tasks sv base_of is_rx rmatch rx_name auto s fs = Some s' -> qsame (ss_d s) (ss_d s').
Proof.
  induction fs as [|f r IH]; intros s s' H; simpl in H.
  - inversion H; subst. repeat split.
  - destruct (filter_one sv base_of is_rx rmatch rx_name auto s f) as [s1|] eqn:E; [|discriminate].
    destruct (filter_one_q _ _ _ _ _ _ _ _ _ E) as (A & B & C). destruct (IH _ _ H) as (A' & B' & C').
    repeat split; congruence.
Qed.

(* whatever is selected on the state TaskControl.__init__ leaves, the run starts with empty dispatcher queues *)
Theorem process_sel_fresh_queues sv base_of is_rx rmatch rx_name auto tab ld tg order sel d0 :
  process_sel sv base_of is_rx rmatch rx_name auto (loaded tab ld tg) order sel = Some d0 -> fresh_queues d0.
Proof.
  unfold process_sel. destruct sel as [fs|].
  - destruct (filter_tasks _ _ _ _ _ _ _ fs) as [s|] eqn:E; [|discriminate]. intro H. inversion H; subst.
    destruct (filter_tasks_q _ _ _ _ _ _ _ _ _ E) as (A & B & C). simpl in *. repeat split; assumption.
  - intro H. inversion H; subst. repeat split.
Qed.

(* ---------- example ---------- *)
(* names: 1 = pre, 2 = d = create_after(executed='pre'), 5 = lib (static);  the creator of d yields the group d (task_dep d:a),
   3 = d:a (task_dep lib, file_dep 20) and 4 = d:b (target 20): d:a depends on d:b implicitly *)
Definition rx_plain (deps fd tg : list name) : dtask :=
  {| dt := task_with_dep empty_task deps; dt_file_dep := fd; dt_targets := tg; dt_loader := None |}.
Definition rx_tab (n : name) : option dtask :=
  if n =? 1 then Some (rx_plain [] [] []) else
  if n =? 2 then Some {| dt := task_with_dep empty_task [1]; dt_file_dep := []; dt_targets := []; dt_loader := Some 2 |} else
  if n =? 5 then Some (rx_plain [] [] []) else None.
Definition rx_ld (n : name) : loader := if n =? 2 then Build_loader 0 (Some 1) None false false else empty_loader.
Definition rx_creators (c : N) (t : name) : list (name * dtask) :=
  [(2, rx_plain [3] [] []); (3, rx_plain [5] [20] []); (4, rx_plain [] [] [20])].
Definition rx_d0 : dst := set_torun (loaded rx_tab rx_ld (fun _ => None)) [2].
Definition rx_keys : list name := [1; 2; 3; 4; 5].
Notation rx_run := (run_serial VHead rx_keys rx_creators (fun _ _ => 0) (fun x => x) false false 200 rx_d0).
Notation rx_node := (node_after_serial VHead rx_keys rx_creators (fun _ _ => 0) (fun x => x) false false 200 rx_d0).

Example rx_hypotheses : init_ok rx_d0 /\ fresh_queues rx_d0 /\ keys_ok rx_keys rx_d0.
Proof.
  split; [|split].
  - constructor; try reflexivity.
    + intros T b. unfold rx_d0, rx_ld; simpl. destruct (T =? 2); simpl; discriminate.
    + intros k T e. unfold rx_d0, tab_get, rx_tab, rx_ld; simpl.
      destruct (k =? 1); simpl; [discriminate|]. destruct (k =? 2); simpl.
      * intro H; inversion H; subst. simpl. intro H2; inversion H2; subst. left; reflexivity.
      * destruct (k =? 5); simpl; discriminate.
  - repeat split.
  - intros k T. unfold rx_d0, tab_get, rx_tab; simpl.
    destruct (k =? 1) eqn:E1; simpl; [discriminate|]. destruct (N.eqb_spec k 2) as [->|]; simpl; [intros _; simpl; auto|].
    destruct (k =? 5); simpl; discriminate.
Qed.

(* the run: pre, the creator, then lib and d:b (the dependencies of the created d:a), d:a, and the created group d last *)
Example rx_trace :
  enc_dtrace (fst rx_run) =
  [1;1; 5;1; 7;1; 6;1;  14;0;2;2;  1;5; 5;5; 7;5; 6;5;  1;4; 5;4; 7;4; 6;4;  1;3; 5;3; 7;3; 6;3;  1;2; 5;2; 7;2; 6;2;  10]%Z
  /\ snd rx_run = 0.
Proof. vm_compute. split; reflexivity. Qed.

(* the dependencies the theorems speak about: those of the CREATED tasks (the reset node of d depends on d:a, no longer on pre) *)
Example rx_deps : deps_of (rx_node 3) = [5; 4; 5; 4] /\ deps_of (rx_node 2) = [3; 3] /\
                  dt_loader (dn_task (rx_node 2)) = None.
Proof. vm_compute. repeat split; reflexivity. Qed.

(* an instance of serial_deps_first: d:b (implicit dependency of the created d:a) and lib were reported successful before
   d:a started *)
Lemma rx_inst x pre post : In x (deps_of (rx_node 3)) -> fst rx_run = pre ++ Ev (EExecute 3) :: post -> good_in x pre.
Proof.
  intros Hx E.
  destruct rx_hypotheses as (H1 & H2 & _).
  exact (serial_deps_first VHead rx_keys rx_creators (fun _ _ => 0) (fun x => x) false false 200 rx_d0 H1 H2 pre 3 post x E Hx).
Qed.

Example rx_instance : exists pre post, fst rx_run = pre ++ Ev (EExecute 3) :: post /\ good_in 4 pre /\ good_in 5 pre.
Proof.
  exists [Ev (EGetStatus 1); Ev (EExecute 1); Ev (ESave 1); Ev (ESuccess 1); ECreate 0 2 2;
          Ev (EGetStatus 5); Ev (EExecute 5); Ev (ESave 5); Ev (ESuccess 5);
          Ev (EGetStatus 4); Ev (EExecute 4); Ev (ESave 4); Ev (ESuccess 4); Ev (EGetStatus 3)].
  exists [Ev (ESave 3); Ev (ESuccess 3); Ev (EGetStatus 2); Ev (EExecute 2); Ev (ESave 2); Ev (ESuccess 2); Ev EClose].
  assert (E : fst rx_run =
              [Ev (EGetStatus 1); Ev (EExecute 1); Ev (ESave 1); Ev (ESuccess 1); ECreate 0 2 2;
               Ev (EGetStatus 5); Ev (EExecute 5); Ev (ESave 5); Ev (ESuccess 5);
               Ev (EGetStatus 4); Ev (EExecute 4); Ev (ESave 4); Ev (ESuccess 4); Ev (EGetStatus 3)] ++
              Ev (EExecute 3) :: [Ev (ESave 3); Ev (ESuccess 3); Ev (EGetStatus 2); Ev (EExecute 2); Ev (ESave 2); Ev (ESuccess 2); Ev EClose])
    by (vm_compute; reflexivity).
  split; [exact E|].
  assert (D4 : In 4 (deps_of (rx_node 3))) by (rewrite (proj1 rx_deps); right; left; reflexivity).
  assert (D5 : In 5 (deps_of (rx_node 3))) by (rewrite (proj1 rx_deps); left; reflexivity).
  split; [exact (rx_inst 4 _ _ D4 E) | exact (rx_inst 5 _ _ D5 E)].
Qed.

(* the same table driven by a two-worker script: well-formed, and d:b / lib really run in parallel before d:a *)
Definition rx_ops : list sop :=
  [OSend None; OSelect 1; OExec 1; OResult 1; OSend (Some 1); OSelect 5; OSend None; OSelect 4; OExec 5; OExec 4;
   OResult 4; OSend (Some 4); OResult 5; OSend (Some 5); OSelect 3; OExec 3; OResult 3; OSend (Some 3); OSelect 2; OExec 2; OResult 2;
   OSend (Some 2); OFinish].
Example rx_script_wf :
  wf_script VHead rx_keys rx_creators (fun _ _ => 0) (fun x => x) false false 200 rx_ops rx_d0 = true /\
  filter (fun e => match e with Ev (EExecute _) => true | _ => false end)
         (fst (run_script VHead rx_keys rx_creators (fun _ _ => 0) (fun x => x) false false 200 rx_ops rx_d0)) =
  [Ev (EExecute 1); Ev (EExecute 5); Ev (EExecute 4); Ev (EExecute 3); Ev (EExecute 2)] /\
  snd (run_script VHead rx_keys rx_creators (fun _ _ => 0) (fun x => x) false false 200 rx_ops rx_d0) = 0.
Proof. vm_compute. repeat split; reflexivity. Qed.

(* a script that breaks the protocol (executes d:a twice) is rejected by wf_script -- and does execute it twice *)
Example rx_script_not_wf :
  let ops := [OSend None; OSelect 1; OExec 1; OExec 1] in
  wf_script VHead rx_keys rx_creators (fun _ _ => 0) (fun x => x) false false 200 ops rx_d0 = false /\
  n_exec 1 (fst (run_script VHead rx_keys rx_creators (fun _ _ => 0) (fun x => x) false false 200 ops rx_d0)) = 2%nat.
Proof. vm_compute. split; reflexivity. Qed.
