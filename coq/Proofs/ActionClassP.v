(* ActionClassP.v -- proofs about Model/ActionClass.v (property C06: an interrupt raised inside ANY action, whatever
   class executes the callable) and their composition with the serial runner (Model/Runner.v, Proofs/CrashP.v). *)
From DoitV Require Import Base Dispatch Runner Crash CrashP Action ActionClass.
Local Open Scope nat_scope.

(* ---- one action ---- *)
Lemma base_exc_propagates a : ca_tag a = RBaseExc -> cls_execute a = APropagates.
Proof. unfold cls_execute. intros ->. destruct (ca_cls a); reflexivity. Qed.

Lemma propagates_only_base_exc a : cls_execute a = APropagates -> ca_tag a = RBaseExc.
Proof.
  unfold cls_execute, cmd_execute, cmd_classify. destruct (ca_cls a), (ca_tag a); cbn; try congruence;
    repeat match goal with |- context [if ?c then _ else _] => destruct c end; congruence.
Qed.

(* no class makes a success of a callable that raised (an Exception or any other BaseException) *)
Lemma ok_not_raised a : cls_execute a = AOk -> ca_tag a <> RBaseExc /\ ca_tag a <> RRaises.
Proof.
  unfold cls_execute, cmd_execute. destruct (ca_cls a), (ca_tag a); cbn; intro H; split; congruence.
Qed.

Lemma action_class_cases a :
  (ca_tag a = RBaseExc -> cls_execute a = APropagates) /\
  (cls_execute a = APropagates -> ca_tag a = RBaseExc) /\
  (cls_execute a = AOk -> ca_tag a <> RBaseExc /\ ca_tag a <> RRaises).
Proof. split; [exact (base_exc_propagates a)|]. split; [exact (propagates_only_base_exc a)|exact (ok_not_raised a)]. Qed.

(* ---- Task.execute ---- *)
Definition act_ok (a : cact) : Prop := cls_execute a = AOk.

Lemma task_outcome_app pre : forall l, Forall act_ok pre -> cls_task_outcome (pre ++ l) = cls_task_outcome l.
Proof. induction pre as [|x pre IH]; intros l H; [reflexivity|]. inversion H; subst. cbn. rewrite H2. auto. Qed.

Lemma task_started_app pre : forall l, Forall act_ok pre -> cls_started (pre ++ l) = length pre + cls_started l.
Proof. induction pre as [|x pre IH]; intros l H; [reflexivity|]. inversion H; subst. cbn. rewrite H2. rewrite IH; auto. Qed.

Lemma task_outcome_ok acts : cls_task_outcome acts = AOk <-> Forall act_ok acts.
Proof.
  induction acts as [|a r IH]; cbn; [split; auto|]. split.
  - intro H. destruct (cls_execute a) eqn:E; try discriminate. constructor; [exact E|]. apply IH. exact H.
  - intro H. inversion H; subst. rewrite H2. apply IH. exact H3.
Qed.

(* the exception leaves Task.execute exactly when the first action that does not succeed is one whose callable raised
   a BaseException that is no Exception; the callables after it are never started *)
Lemma task_outcome_propagates acts :
  cls_task_outcome acts = APropagates <->
  exists pre a post, acts = pre ++ a :: post /\ Forall act_ok pre /\ ca_tag a = RBaseExc.
Proof.
  split.
  - induction acts as [|a r IH]; cbn; [discriminate|]. destruct (cls_execute a) eqn:E; intro H; try discriminate.
    + destruct (IH H) as (pre & x & post & -> & Hp & Hx). exists (a :: pre), x, post. split; [reflexivity|]. split; auto.
    + exists [], a, r. split; [reflexivity|]. split; [constructor|]. apply propagates_only_base_exc. exact E.
  - intros (pre & a & post & -> & Hp & Ha). rewrite task_outcome_app by exact Hp. cbn.
    rewrite (base_exc_propagates a Ha). reflexivity.
Qed.

Lemma interrupted_started pre a post :
  Forall act_ok pre -> ca_tag a = RBaseExc -> cls_started (pre ++ a :: post) = S (length pre).
Proof.
  intros Hp Ha. rewrite task_started_app by exact Hp. cbn. rewrite (base_exc_propagates a Ha). lia.
Qed.

Lemma outcome_of_interrupt o : outcome_of o = OInterrupt <-> o = APropagates.
Proof. destruct o; cbn; split; congruence. Qed.
Lemma outcome_of_ok o : outcome_of o = OOk <-> o = AOk.
Proof. destruct o; cbn; split; congruence. Qed.

(* ---- composition with the serial runner ---- *)
Section Run.
Variable tasks : name -> option task.
Variable wake_rank : name -> name -> N.
Variable calc_rank : name -> N.
Variable continue_ always : bool.
Notation get_task := (get_task tasks).
Notation serial := (serial tasks wake_rank calc_rank continue_ always).

Definition quiet_exec (tr : list event) : Prop := forall j, In (EExecute j) tr -> t_outcome (get_task j) <> OInterrupt.

Lemma quiet_no_exec l j : Forall quiet l -> ~ In (EExecute j) l.
Proof. intros H Hin. rewrite Forall_forall in H. apply H in Hin. exact Hin. Qed.

Lemma teardowns_no_exec l j : ~ In (EExecute j) (EClose :: map ETeardown l).
Proof. intros [H|H]; [discriminate|]. apply in_map_iff in H. destruct H as (x & E & _). discriminate. Qed.

Lemma process_result_tr r k :
  exists l, r_tr (process_result tasks continue_ r k) = r_tr r ++ l /\ forall j, ~ In (EExecute j) l.
Proof.
  unfold process_result, Runner.handle_error. destruct (t_outcome (get_task k));
    try (rewrite handle_error_tr; eexists; split; [reflexivity|]; intros j [H|[H|[]]]; discriminate).
  - cbn. eexists; split; [reflexivity|]. intros j [H|[H|[]]]; discriminate.
  - exists []. rewrite app_nil_r. split; [reflexivity|]. intros j [].
Qed.

(* once the actions of a task with an escaping exception were started, the run ends there: StopInterrupt *)
Lemma exec_interrupt_stops fuel : forall r last r' s,
  quiet_exec (r_tr r) -> serial fuel r last = (r', s) ->
  forall j, In (EExecute j) (r_tr r') -> t_outcome (get_task j) = OInterrupt -> s = StopInterrupt j.
Proof.
  induction fuel as [|fuel IH]; intros r last r' s Hq H j Hin Ho; cbn [Runner.serial] in H.
  { inversion H; subst. exfalso. exact (Hq j Hin Ho). }
  destruct (r_stop r).
  { inversion H; subst. rewrite finish_tr in Hin. apply in_app_or in Hin. destruct Hin as [Hin|Hin].
    - exfalso. exact (Hq j Hin Ho).
    - exfalso. exact (teardowns_no_exec _ _ Hin). }
  destruct (disp_send tasks wake_rank calc_rank (S fuel) (r_d r) last) as [y d].
  destruct y as [k| | |p|].
  - destruct (select_task tasks continue_ always (with_d r d) k) as [b r1] eqn:Es.
    destruct (select_task_spec _ _ _ _ _ _ _ Es) as (l & El & Ql & _).
    assert (Hq1 : quiet_exec (r_tr r1)).
    { intros x Hx. rewrite El in Hx. apply in_app_or in Hx. destruct Hx as [Hx|Hx]; [exact (Hq x Hx)|].
      exfalso. exact (quiet_no_exec _ _ Ql Hx). }
    destruct b.
    + destruct (is_interrupt tasks k) eqn:Ei; cbv zeta in H.
      * inversion H; subst. rewrite finish_tr in Hin. cbn [r_tr start_task] in Hin.
        apply in_app_or in Hin. destruct Hin as [Hin|Hin]; [|exfalso; exact (teardowns_no_exec _ _ Hin)].
        apply in_app_or in Hin. destruct Hin as [Hin|[Hin|[]]]; [exfalso; exact (Hq1 j Hin Ho)|].
        inversion Hin; subst. reflexivity.
      * eapply IH; [|exact H|exact Hin|exact Ho].
        destruct (process_result_tr (start_task tasks r1 k) k) as (l2 & E2 & N2).
        intros x Hx. rewrite E2 in Hx. cbn [r_tr start_task] in Hx.
        apply in_app_or in Hx. destruct Hx as [Hx|Hx]; [|exfalso; exact (N2 x Hx)].
        apply in_app_or in Hx. destruct Hx as [Hx|[Hx|[]]]; [exact (Hq1 x Hx)|].
        inversion Hx; subst. intro Hc. apply is_interrupt_spec in Hc. congruence.
    + eapply IH; [exact Hq1|exact H|exact Hin|exact Ho].
  - inversion H; subst. rewrite finish_tr in Hin. apply in_app_or in Hin. destruct Hin as [Hin|Hin].
    + exfalso. exact (Hq j Hin Ho).
    + exfalso. exact (teardowns_no_exec _ _ Hin).
  - inversion H; subst. rewrite finish_tr in Hin. apply in_app_or in Hin. destruct Hin as [Hin|Hin].
    + exfalso. exact (Hq j Hin Ho).
    + exfalso. exact (teardowns_no_exec _ _ Hin).
  - inversion H; subst. rewrite finish_tr in Hin. apply in_app_or in Hin. destruct Hin as [Hin|Hin].
    + exfalso. exact (Hq j Hin Ho).
    + exfalso. exact (teardowns_no_exec _ _ Hin).
  - inversion H; subst. exfalso. exact (Hq j Hin Ho).
Qed.

(* [acts_of j] = the actions of task j (class + how each callable ends); the table's t_outcome is what Task.execute makes
   of them *)
Variable acts_of : name -> list cact.
Hypothesis table_ok : forall j, t_outcome (get_task j) = outcome_of (cls_task_outcome (acts_of j)).

(* an interrupt is never swallowed, whatever class executes the callable that raises it *)
Theorem interrupt_never_swallowed fuel selected r s k pre a post :
  serial fuel (r_init selected) None = (r, s) ->
  In (EExecute k) (r_tr r) ->
  acts_of k = pre ++ a :: post -> Forall act_ok pre -> ca_tag a = RBaseExc ->
  s = StopInterrupt k /\
  cls_started (acts_of k) = S (length pre) /\
  ~ In (ESave k) (r_tr r) /\ ~ In (ESuccess k) (r_tr r) /\
  exists b tds, r_tr r = b ++ [EExecute k] ++ EClose :: map ETeardown tds /\
                ~ In EClose b /\ (forall j, ~ In (ETeardown j) b) /\
                (forall j, In (ESave j) b \/ In (ESuccess j) b -> Forall act_ok (acts_of j)).
Proof.
  intros H Hin Ea Hp Ha.
  assert (Ho : t_outcome (get_task k) = OInterrupt).
  { rewrite table_ok. apply outcome_of_interrupt. apply task_outcome_propagates. exists pre, a, post. auto. }
  assert (Es : s = StopInterrupt k).
  { eapply exec_interrupt_stops; [|exact H|exact Hin|exact Ho]. intros j []. }
  subst s. split; [reflexivity|]. split; [rewrite Ea; apply interrupted_started; auto|].
  destruct (interrupt_flush _ _ _ _ _ _ _ _ _ H) as (b & tds & Et & _ & Hc & Htd & Hs & Hk1 & Hk2).
  assert (Hrest : forall e, In e ([EExecute k] ++ EClose :: map ETeardown tds) ->
                            (forall j, e <> ESave j) /\ (forall j, e <> ESuccess j)).
  { intros e [<-|[<-|He]]; try (split; intros; discriminate).
    apply in_map_iff in He. destruct He as (x & <- & _). split; intros; discriminate. }
  split; [|split].
  - rewrite Et. intro Hx. apply in_app_or in Hx. destruct Hx as [Hx|Hx]; [exact (Hk1 Hx)|].
    destruct (Hrest _ Hx) as [A _]. exact (A k eq_refl).
  - rewrite Et. intro Hx. apply in_app_or in Hx. destruct Hx as [Hx|Hx]; [exact (Hk2 Hx)|].
    destruct (Hrest _ Hx) as [_ A]. exact (A k eq_refl).
  - exists b, tds. split; [exact Et|]. split; [exact Hc|]. split; [exact Htd|].
    intros j Hj. destruct (Hs j Hj) as [Hok _]. rewrite table_ok in Hok.
    apply outcome_of_ok in Hok. apply task_outcome_ok. exact Hok.
Qed.

(* the converse reading of an interrupted run: the task the run stopped at has an action whose callable raised a
   BaseException (every action before it succeeded, none after it was started), and every task saved or reported
   successful has only actions that succeeded -- no callable of it raised anything *)
Theorem interrupt_any_class fuel selected r k :
  serial fuel (r_init selected) None = (r, StopInterrupt k) ->
  (exists pre a post, acts_of k = pre ++ a :: post /\ Forall act_ok pre /\ ca_tag a = RBaseExc /\
                      cls_started (acts_of k) = S (length pre)) /\
  (forall j, In (ESave j) (r_tr r) \/ In (ESuccess j) (r_tr r) ->
             j <> k /\ Forall (fun x => act_ok x /\ ca_tag x <> RBaseExc /\ ca_tag x <> RRaises) (acts_of j)).
Proof.
  intro H.
  destruct (interrupt_flush _ _ _ _ _ _ _ _ _ H) as (b & tds & Et & Ho & _ & _ & Hs & Hk1 & Hk2).
  split.
  - rewrite table_ok in Ho. apply outcome_of_interrupt in Ho. apply task_outcome_propagates in Ho.
    destruct Ho as (pre & a & post & Ea & Hp & Ha). exists pre, a, post. split; auto. split; auto. split; auto.
    rewrite Ea. apply interrupted_started; auto.
  - intros j Hj.
    assert (Hb : In (ESave j) b \/ In (ESuccess j) b).
    { rewrite Et in Hj. destruct Hj as [Hj|Hj]; apply in_app_or in Hj; destruct Hj as [Hj|Hj]; auto; exfalso;
        (destruct Hj as [Hj|[Hj|Hj]]; [discriminate|discriminate|]); apply in_map_iff in Hj; destruct Hj as (x & E & _); discriminate. }
    split.
    + intros ->. destruct Hb; auto.
    + destruct (Hs j Hb) as [Hok _]. rewrite table_ok in Hok. apply outcome_of_ok in Hok. apply task_outcome_ok in Hok.
      rewrite Forall_forall in *. intros x Hx. split; [apply Hok; exact Hx|]. apply ok_not_raised. apply Hok. exact Hx.
Qed.

End Run.
